import SurfModel.Color256
/-!
Facts about the tables regenerated from the build of /repo (`SurfModel.Generated.ColorTables`), re-checked
by the kernel whenever the tables change.  Kept in a module of its own (no Mathlib) so that it is rebuilt
only then.  `Rat` is Lean's core type of rational numbers; its order and arithmetic evaluate in the kernel.
-/
namespace SurfProofs.Lemmas.ColorTables
open SurfModel.Generated.ColorTables

/-- the real number a table integer stands for (`SurfModel.Generated.ColorTables`: `3 · 2^scaleBits · x`) -/
def val (n : Int) : Rat := (n : Rat) / (3 * 2 ^ scaleBits)

/-- `|y − srgb_to_linear(c / 255)| ≤ ε` for the sRGB transfer function
`srgb_to_linear s = s / 12.92` if `s ≤ 0.04045`, else `((s + 0.055) / 1.055) ^ 2.4`, without leaving ℚ:
`x ↦ x⁵` is strictly increasing on the reals and `(u ^ 2.4)⁵ = u ^ 12`, hence
`y − ε ≤ u ^ 2.4 ≤ y + ε ↔ (y − ε)⁵ ≤ u¹² ≤ (y + ε)⁵`. -/
def SrgbClose (c : Nat) (y ε : Rat) : Prop :=
  let s : Rat := (c : Rat) / 255
  if s ≤ 4045 / 100000 then y - ε ≤ s / (1292 / 100) ∧ s / (1292 / 100) ≤ y + ε
  else
    let u : Rat := (s + 55 / 1000) / (1055 / 1000)
    (y - ε) ^ 5 ≤ u ^ 12 ∧ u ^ 12 ≤ (y + ε) ^ 5

instance (c : Nat) (y ε : Rat) : Decidable (SrgbClose c y ε) := by unfold SrgbClose; infer_instance

/-- sRGB bytes of the six levels of the xterm colour cube -/
def cubeBytes : List Nat := [0x00, 0x5f, 0x87, 0xaf, 0xd7, 0xff]

/-- sRGB byte of grey ramp entry `i`: `08, 12, …, ee` -/
def greyByte (i : Nat) : Nat := 8 + 10 * i

/-- tolerance of the closeness statements -/
def eps : Rat := 1 / 1000000

theorem cube_sorted : cube.Pairwise (· < ·) := by decide +kernel
theorem greys_sorted : greys.Pairwise (· < ·) := by decide +kernel
theorem lin_sorted : lin.Pairwise (· < ·) := by decide +kernel
theorem cube_length : cube.length = 6 := by decide +kernel
theorem greys_length : greys.length = 24 := by decide +kernel
theorem lin_length : lin.length = 256 := by decide +kernel
theorem lin_div3 : ∀ x ∈ lin, (3 : Int) ∣ x := by decide +kernel
theorem cube_range : ∀ x ∈ cube, 0 ≤ x ∧ x ≤ 3 * 2 ^ scaleBits := by decide +kernel
theorem greys_range : ∀ x ∈ greys, 0 ≤ x ∧ x ≤ 3 * 2 ^ scaleBits := by decide +kernel
theorem lin_range : ∀ x ∈ lin, 0 ≤ x ∧ x ≤ 3 * 2 ^ scaleBits := by decide +kernel
theorem scale_ge : 25 ≤ scaleBits := by decide +kernel
theorem levels_sorted : SurfModel.Color256.levelsInt.Pairwise (· < ·) := by decide +kernel

theorem cube_close : ∀ i : Fin 6, SrgbClose (cubeBytes[i.val]!) (val (cube[i.val]!)) eps := by
  decide +kernel
theorem greys_close : ∀ i : Fin 24, SrgbClose (greyByte i.val) (val (greys[i.val]!)) eps := by
  decide +kernel
theorem lin_close : ∀ i : Fin 256, SrgbClose i.val (val (lin[i.val]!)) eps := by
  decide +kernel

/-- the true-colour probe colour is the colour of none of the 256 entries of the decoder's palette, and every
entry has a colour (tables of the current build) -/
theorem probe_outside :
    ∀ i : Fin 256, (SurfModel.Color256.decoderPaletteRgb i.val).isSome ∧
      SurfModel.Color256.decoderPaletteRgb i.val ≠ some SurfModel.Color256.probeColour := by
  decide +kernel

theorem probe_index_none : SurfModel.Color256.paletteIndexOf SurfModel.Color256.probeColour = none := by
  decide +kernel

/-- the specification function finds an entry iff there is one -/
theorem paletteIndexOf_none (c : Nat × Nat × Nat) :
    SurfModel.Color256.paletteIndexOf c = none ↔
      ∀ i, i < 256 → SurfModel.Color256.decoderPaletteRgb i ≠ some c := by
  unfold SurfModel.Color256.paletteIndexOf
  rw [List.find?_eq_none]
  constructor
  · intro h i hi heq
    have := h i (List.mem_range.mpr hi)
    simp [heq] at this
  · intro h i hi
    have := h i (List.mem_range.mp hi)
    simpa using this

/-- `0.33f32` and `0.66f32` exactly -/
def f33 : Rat := 11072963 / 33554432
def f66 : Rat := 11072963 / 16777216

/-- the levels of the `Gray` arm are `0, 0.33, 0.66, 1` up to `f32` rounding of the two literals -/
theorem levels_close :
    SurfModel.Color256.levelsInt.map val = [0, f33, f66, 1] ∧
    33 / 100 ≤ f33 ∧ f33 ≤ 33 / 100 + 1 / 33554432 ∧ 66 / 100 ≤ f66 ∧ f66 ≤ 66 / 100 + 1 / 16777216 := by
  decide +kernel

end SurfProofs.Lemmas.ColorTables
