import SurfProofs.Lemmas.SixelDecode
/-!
# C12 helper lemmas, part 5: the canonical colour order of a band
-/
namespace SurfProofs.Lemmas.SixelOrder
open SurfModel.Sixel SurfProofs.Lemmas.SixelEnc SurfProofs.Lemmas.SixelDecode

/-! ## the canonical order (colours ascending) is a valid order -/

theorem mem_insertSorted (c x : Nat) : ∀ l : List Nat, x ∈ insertSorted c l ↔ x = c ∨ x ∈ l := by
  intro l
  induction l with
  | nil => simp [insertSorted]
  | cons d ds ih =>
    simp only [insertSorted]
    split
    · simp
    · split
      · rename_i h; subst h; simp
      · simp only [List.mem_cons, ih]
        constructor
        · rintro (h | h | h) <;> simp [h]
        · rintro (h | h | h) <;> simp [h]

theorem sorted_insertSorted (c : Nat) : ∀ l : List Nat, l.Pairwise (· < ·) → (insertSorted c l).Pairwise (· < ·) := by
  intro l
  induction l with
  | nil => intro _; simp [insertSorted]
  | cons d ds ih =>
    intro h
    simp only [insertSorted]
    rw [List.pairwise_cons] at h
    split
    · rename_i hlt
      refine List.pairwise_cons.2 ⟨?_, List.pairwise_cons.2 h⟩
      intro x hx
      simp only [List.mem_cons] at hx
      rcases hx with hx | hx
      · omega
      · have := h.1 x hx; omega
    · split
      · exact List.pairwise_cons.2 h
      · refine List.pairwise_cons.2 ⟨?_, ih h.2⟩
        intro x hx
        rw [mem_insertSorted] at hx
        rcases hx with hx | hx
        · omega
        · exact h.1 x hx

theorem foldl_insert_mem (x : Nat) : ∀ (cs acc : List Nat),
    x ∈ cs.foldl (fun acc c => insertSorted c acc) acc ↔ x ∈ cs ∨ x ∈ acc := by
  intro cs
  induction cs with
  | nil => intro acc; simp
  | cons c cs ih =>
    intro acc
    simp only [List.foldl_cons, ih, mem_insertSorted, List.mem_cons]
    constructor
    · rintro (h | h | h) <;> simp [h]
    · rintro ((h | h) | h) <;> simp [h]

theorem foldl_insert_sorted : ∀ (cs acc : List Nat), acc.Pairwise (· < ·) →
    (cs.foldl (fun acc c => insertSorted c acc) acc).Pairwise (· < ·) := by
  intro cs
  induction cs with
  | nil => intro acc h; simpa using h
  | cons c cs ih => intro acc h; exact ih _ (sorted_insertSorted c acc h)

theorem foldl2_mem (g : Nat → List Nat) (x : Nat) : ∀ (cols acc : List Nat),
    x ∈ cols.foldl (fun acc col => (g col).foldl (fun acc c => insertSorted c acc) acc) acc
      ↔ (∃ col ∈ cols, x ∈ g col) ∨ x ∈ acc := by
  intro cols
  induction cols with
  | nil => intro acc; simp
  | cons col cols ih =>
    intro acc
    simp only [List.foldl_cons, ih, foldl_insert_mem, List.mem_cons]
    constructor
    · rintro (⟨c, hc, hx⟩ | h | h)
      · exact Or.inl ⟨c, Or.inr hc, hx⟩
      · exact Or.inl ⟨col, Or.inl rfl, h⟩
      · exact Or.inr h
    · rintro (⟨c, hc | hc, hx⟩ | h)
      · subst hc; exact Or.inr (Or.inl hx)
      · exact Or.inl ⟨c, hc, hx⟩
      · exact Or.inr (Or.inr h)

theorem foldl2_sorted (g : Nat → List Nat) : ∀ (cols acc : List Nat), acc.Pairwise (· < ·) →
    (cols.foldl (fun acc col => (g col).foldl (fun acc c => insertSorted c acc) acc) acc).Pairwise (· < ·) := by
  intro cols
  induction cols with
  | nil => intro acc h; simpa using h
  | cons col cols ih => intro acc h; exact ih _ (foldl_insert_sorted _ _ h)

theorem mem_bandColours (q : QImg) (b c : Nat) :
    c ∈ bandColours q b ↔ ∃ x, x < q.w ∧ c ∈ sixelAt q b x := by
  unfold bandColours
  rw [foldl2_mem (fun col => sixelAt q b col)]
  simp

theorem bandColours_nodup (q : QImg) (b : Nat) : (bandColours q b).Nodup := by
  have : (bandColours q b).Pairwise (· < ·) := foldl2_sorted _ _ _ List.Pairwise.nil
  exact this.imp (fun h => by omega)

theorem sortedOrder_ok (q : QImg) (h6 : q.h % 6 = 0) : OrderOk q (sortedOrder q) := by
  intro b hb
  refine ⟨bandColours_nodup q b, ?_⟩
  intro c
  simp only [sortedOrder, mem_bandColours, mem_sixelAt]
  constructor
  · rintro ⟨x, hx, i, hi, hget⟩
    exact ⟨6 * b + i, x, by omega, by omega, hx, hget⟩
  · rintro ⟨y, x, hy, _, hx, hget⟩
    refine ⟨x, hx, y % 6, by omega, ?_⟩
    have : 6 * b + y % 6 = y := by omega
    rw [this]; exact hget

end SurfProofs.Lemmas.SixelOrder
