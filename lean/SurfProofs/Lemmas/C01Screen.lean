import SurfModel.Screen
import SurfModel.Renderer
/-!
C01, helper lemmas 1: the reference terminal.  A row overwrite in closed form (`over`), preservation of
well-formedness (every right half follows a wide glyph and vice versa), effect of the commands.
-/
namespace SurfProofs.C01
open SurfModel.Screen SurfModel.Renderer

def WideGlyph (P : Params) (c : SCell) : Prop := ∃ ch f, c = .glyph ch f ∧ P.width ch ≥ 2

/-- a row of a terminal is well formed: right halves and wide glyphs come in pairs -/
def WFrow (P : Params) (g : Nat → SCell) : Prop :=
  g 0 ≠ .cont ∧ ∀ c, (g (c + 1) = .cont ↔ WideGlyph P (g c))

def WF (P : Params) (s : Screen) : Prop := ∀ r, WFrow P (s.grid r)

/-- closed form of "columns `[a,b)` of a row are overwritten with `val`" -/
def over (ρ : Nat → SCell) (a b : Nat) (val : Nat → SCell) : Nat → SCell := fun k =>
  if a ≤ k ∧ k < b then val k
  else if k + 1 = a ∧ ρ a = .cont then .orphan
  else if k = b ∧ ρ b = .cont then .orphan
  else ρ k

theorem over_wf (P : Params) (ρ : Nat → SCell) (a b : Nat) (val : Nat → SCell)
    (hab : a < b) (hρ : WFrow P ρ)
    (hv0 : val a ≠ .cont)
    (hv : ∀ k, a ≤ k → k + 1 < b → (val (k + 1) = .cont ↔ WideGlyph P (val k)))
    (hvl : ¬ WideGlyph P (val (b - 1))) :
    WFrow P (over ρ a b val) := by
  obtain ⟨h0, hw⟩ := hρ
  have orphan_not_wide : ¬ WideGlyph P .orphan := by
    rintro ⟨ch, f, h, _⟩; cases h
  have cont_not_wide : ¬ WideGlyph P .cont := by
    rintro ⟨ch, f, h, _⟩; cases h
  refine ⟨?_, ?_⟩
  · unfold over
    split
    · rename_i h; have : a = 0 := by omega
      subst this; exact hv0
    · split
      · simp
      · split
        · simp
        · exact h0
  · intro c
    unfold over
    by_cases h1 : a ≤ c + 1 ∧ c + 1 < b
    · rw [if_pos h1]
      by_cases h2 : a ≤ c ∧ c < b
      · rw [if_pos h2]; exact hv c h2.1 h1.2
      · rw [if_neg h2]
        have hca : c + 1 = a := by omega
        subst hca
        constructor
        · intro h; exact absurd h hv0
        · intro h
          exfalso
          split at h
          · exact orphan_not_wide h
          · split at h
            · exact orphan_not_wide h
            · rename_i h3 h4
              have := (hw c).2 h
              exact h3 ⟨rfl, this⟩
    · rw [if_neg h1]
      by_cases h2 : a ≤ c ∧ c < b
      · rw [if_pos h2]
        have hcb : c + 1 = b := by omega
        have hcb' : c = b - 1 := by omega
        constructor
        · intro h
          exfalso
          split at h
          · cases h
          · split at h
            · cases h
            · rename_i h3 h4
              exact h4 ⟨hcb, by rw [← hcb]; exact h⟩
        · intro h; rw [hcb'] at h; exact absurd h hvl
      · rw [if_neg h2]
        by_cases h3 : c + 1 + 1 = a ∧ ρ a = .cont
        · rw [if_pos h3]
          constructor
          · intro h; cases h
          · intro h
            exfalso
            have hc1 : ρ (c + 1) = .cont := by
              split at h
              · exact absurd h orphan_not_wide
              · split at h
                · exact absurd h orphan_not_wide
                · exact (hw c).2 h
            have : WideGlyph P (ρ (c + 1)) := (hw (c + 1)).1 (by rw [h3.1]; exact h3.2)
            rw [hc1] at this; exact cont_not_wide this
        · rw [if_neg h3]
          by_cases h4 : c + 1 = b ∧ ρ b = .cont
          · rw [if_pos h4]
            omega
          · rw [if_neg h4]
            by_cases h5 : c + 1 = a ∧ ρ a = .cont
            · rw [if_pos h5]
              omega
            · rw [if_neg h5]
              by_cases h6 : c = b ∧ ρ b = .cont
              · rw [if_pos h6]
                constructor
                · intro h
                  have := (hw c).1 h
                  rw [h6.1, h6.2] at this
                  exact absurd this cont_not_wide
                · intro h; exact absurd h orphan_not_wide
              · rw [if_neg h6]; exact hw c

/-! ### the grid after an overwrite, row-wise -/

theorem fill_clobber_row (g : Nat → Nat → SCell) (r a b : Nat) (v : SCell) :
    (fillRow (clobber g r a b) r a b v) r = over (g r) a b (fun _ => v) := by
  funext k
  simp only [fillRow, clobber, over, true_and, if_true]

theorem fill_clobber_other (g : Nat → Nat → SCell) (r a b : Nat) (v : SCell) (r' : Nat) (h : r' ≠ r) :
    (fillRow (clobber g r a b) r a b v) r' = g r' := by
  funext k
  simp [fillRow, clobber, h]

/-- value function of a wide character written at column `c` -/
def wideVal (c : Nat) (v : SCell) : Nat → SCell := fun k => if k = c then v else .cont

theorem wide_clobber_row (g : Nat → Nat → SCell) (r c : Nat) (v : SCell) :
    (setCell (setCell (clobber g r c (c + 2)) r c v) r (c + 1) .cont) r = over (g r) c (c + 2) (wideVal c v) := by
  funext k
  simp only [setCell, clobber, over, wideVal, true_and, if_true]
  by_cases h1 : k = c + 1
  · subst h1; simp
  · by_cases h2 : k = c
    · subst h2; simp
    · have : ¬ (c ≤ k ∧ k < c + 2) := by omega
      simp [h1, h2, this]

theorem wide_clobber_other (g : Nat → Nat → SCell) (r c : Nat) (v : SCell) (r' : Nat) (h : r' ≠ r) :
    (setCell (setCell (clobber g r c (c + 2)) r c v) r (c + 1) .cont) r' = g r' := by
  funext k
  simp [setCell, clobber, h]

theorem narrow_clobber_row (g : Nat → Nat → SCell) (r c : Nat) (v : SCell) :
    (setCell (clobber g r c (c + 1)) r c v) r = over (g r) c (c + 1) (fun _ => v) := by
  funext k
  simp only [setCell, clobber, over, true_and, if_true]
  by_cases h2 : k = c
  · subst h2; simp
  · have : ¬ (c ≤ k ∧ k < c + 1) := by omega
    simp [h2, this]

theorem narrow_clobber_other (g : Nat → Nat → SCell) (r c : Nat) (v : SCell) (r' : Nat) (h : r' ≠ r) :
    (setCell (clobber g r c (c + 1)) r c v) r' = g r' := by
  funext k
  simp [setCell, clobber, h]

theorem execAll_append (P : Params) (s : Screen) (a b : List Cmd) :
    execAll P s (a ++ b) = execAll P (execAll P s a) b := by
  simp [execAll, List.foldl_append]

theorem execAll_cons (P : Params) (s : Screen) (a : Cmd) (b : List Cmd) :
    execAll P s (a :: b) = execAll P (exec P s a) b := rfl

theorem execAll_nil (P : Params) (s : Screen) : execAll P s [] = s := rfl

end SurfProofs.C01
