import SurfModel.ViewLayout
import SurfProofs.C08
/-!
Helper lemmas for C10 (view layout): arithmetic of `clamp` / saturating sums, inversion of the
layout function, shape of the layout tree.
-/
namespace SurfProofs.ViewLayoutL
open SurfModel SurfModel.ViewLayout

/-- the value `Ord::clamp` returns when it does not panic -/
def clampN (v lo hi : Nat) : Nat := if v < lo then lo else if v > hi then hi else v

theorem clampU_ok {v lo hi : Nat} (h : lo ≤ hi) : clampU v lo hi = .ok (clampN v lo hi) := by
  unfold clampU clampN
  have : ¬ lo > hi := by omega
  simp [this]

theorem clampU_inv {v lo hi r : Nat} (h : clampU v lo hi = .ok r) : lo ≤ hi ∧ r = clampN v lo hi := by
  unfold clampU at h
  split at h
  · cases h
  · refine ⟨by omega, ?_⟩
    injection h with h
    exact h.symm

theorem clampN_bounds {v lo hi : Nat} (h : lo ≤ hi) : lo ≤ clampN v lo hi ∧ clampN v lo hi ≤ hi := by
  unfold clampN
  split
  · omega
  · split <;> omega

theorem clampN_le_max (v lo hi : Nat) (h : lo ≤ hi) : clampN v lo hi ≤ hi := (clampN_bounds h).2

/-- `min ≤ max` in both dimensions -/
def Valid (ct : Ct) : Prop := ct.min.h ≤ ct.max.h ∧ ct.min.w ≤ ct.max.w

/-- `s` lies within the constraint -/
def Within (ct : Ct) (s : Size) : Prop :=
  ct.min.h ≤ s.h ∧ s.h ≤ ct.max.h ∧ ct.min.w ≤ s.w ∧ s.w ≤ ct.max.w

theorem ctClamp_ok {ct : Ct} (hv : Valid ct) (s : Size) :
    ct.clamp s = .ok ⟨clampN s.h ct.min.h ct.max.h, clampN s.w ct.min.w ct.max.w⟩ := by
  unfold Ct.clamp Size.clamp
  rw [clampU_ok hv.1, clampU_ok hv.2]

theorem ctClamp_inv {ct : Ct} {s r : Size} (h : ct.clamp s = .ok r) : Valid ct ∧ Within ct r := by
  unfold Ct.clamp Size.clamp at h
  split at h
  · cases h
  · rename_i hh eh
    split at h
    · cases h
    · rename_i ww ew
      injection h with h
      subst h
      have a := clampU_inv eh
      have b := clampU_inv ew
      have a' := clampN_bounds (v := s.h) a.1
      have b' := clampN_bounds (v := s.w) b.1
      exact ⟨⟨a.1, b.1⟩, by simp only [Within]; rw [a.2, b.2]; omega⟩

theorem satAdd_lt_U (a b : Nat) : satAdd a b < U := by
  unfold satAdd U; split <;> omega

theorem satAdd_ge (a b : Nat) (ha : a < U) : a ≤ satAdd a b := by
  unfold satAdd; split <;> omega

/-! ## text: the checked sums of `Cell::layout` stay below `2^64` -/

theorem natMin_le_right (a b : Nat) : Nat.min a b ≤ b := by
  show (if a ≤ b then a else b) ≤ b
  split <;> omega
theorem natMin_le_left (a b : Nat) : Nat.min a b ≤ a := by
  show (if a ≤ b then a else b) ≤ a
  split <;> omega
theorem natMax_ge_left (a b : Nat) : a ≤ Nat.max a b := by
  show a ≤ (if a ≤ b then b else a)
  split <;> omega
theorem natMax_ge_right (a b : Nat) : b ≤ Nat.max a b := by
  show b ≤ (if a ≤ b then b else a)
  split <;> omega

theorem addU_ok {a b : Nat} (h : a + b < U) : addU a b = .ok (a + b) := by
  unfold addU; simp [h]

/-- cursor invariant: the column never passes `max_width`, the row counts line breaks -/
def TLInv (maxW n : Nat) (st : TL) : Prop := st.cur.col ≤ maxW ∧ st.cur.row ≤ n

theorem TLInv.mono {maxW n m : Nat} {st : TL} (h : TLInv maxW n st) (hm : n ≤ m) : TLInv maxW m st :=
  ⟨h.1, Nat.le_trans h.2 hm⟩

theorem sizedLayout_ok {maxW n : Nat} (wraps : Bool) (cs : Size) {st : TL}
    (_hW : maxW < U) (hn : n + 1 < U) (h : TLInv maxW n st) :
    ∃ st', sizedLayout maxW wraps cs st = .ok st' ∧ TLInv maxW (n + 1) st' := by
  unfold sizedLayout
  obtain ⟨hc, hr⟩ := h
  split
  · exact ⟨st, rfl, ⟨hc, by omega⟩⟩
  · split
    · rename_i hfit
      rw [addU_ok hfit.1]
      exact ⟨_, rfl, ⟨hfit.2, by simp only; omega⟩⟩
    · split
      · exact ⟨st, rfl, ⟨hc, by omega⟩⟩
      · rw [addU_ok (by omega)]
        refine ⟨_, rfl, ⟨?_, by simp only; omega⟩⟩
        simp only
        exact natMin_le_right _ _

theorem chLayout_ok {maxW n : Nat} (wraps : Bool) (c : Ch) {st : TL}
    (hW : maxW < U) (hn : n + 1 < U) (h : TLInv maxW n st) :
    ∃ st', chLayout maxW wraps c st = .ok st' ∧ TLInv maxW (n + 1) st' := by
  obtain ⟨hc, hr⟩ := h
  cases c with
  | nl =>
    simp only [chLayout]
    rw [addU_ok (by omega)]
    exact ⟨_, rfl, ⟨Nat.zero_le _, by simp only; omega⟩⟩
  | cr => exact ⟨_, rfl, ⟨Nat.zero_le _, by simp only; omega⟩⟩
  | tab =>
    simp only [chLayout]
    have hle : st.cur.col + Nat.min (8 - st.cur.col % 8) (maxW - st.cur.col) ≤ maxW := by
      have := natMin_le_right (8 - st.cur.col % 8) (maxW - st.cur.col)
      omega
    rw [addU_ok (by omega)]
    exact ⟨_, rfl, ⟨hle, by simp only; omega⟩⟩
  | w k => exact sizedLayout_ok wraps ⟨1, k⟩ hW hn ⟨hc, hr⟩

theorem chsLayout_ok {maxW : Nat} (wraps : Bool) (hW : maxW < U) :
    ∀ (cs : List Ch) (n : Nat) (st : TL), n + cs.length < U → TLInv maxW n st →
      ∃ st', chsLayout maxW wraps cs st = .ok st' ∧ TLInv maxW (n + cs.length) st'
  | [], n, st, _, h => ⟨st, rfl, by simpa using h⟩
  | c :: cs, n, st, hn, h => by
    simp only [List.length_cons] at hn
    obtain ⟨st1, e1, h1⟩ := chLayout_ok wraps c hW (n := n) (by omega) h
    obtain ⟨st2, e2, h2⟩ := chsLayout_ok wraps hW cs (n + 1) st1 (by omega) h1
    refine ⟨st2, ?_, ?_⟩
    · simp only [chsLayout, e1, e2]
    · simp only [List.length_cons]
      have : n + (cs.length + 1) = n + 1 + cs.length := by omega
      rw [this]; exact h2

/-- number of `Cell::layout` steps a text cell can take -/
def TCell.weight : TCell → Nat
  | .ch _ => 1
  | .img _ _ => 1
  | .glyph _ _ fb => 1 + fb.length

def cellsWeight : List TCell → Nat
  | [] => 0
  | c :: cs => TCell.weight c + cellsWeight cs

theorem tcellLayout_ok {maxW n : Nat} (ctx : Ctx) (wraps : Bool) (c : TCell) {st : TL}
    (hW : maxW < U) (hn : n + TCell.weight c < U) (h : TLInv maxW n st) :
    ∃ st', tcellLayout ctx maxW wraps c st = .ok st' ∧ TLInv maxW (n + TCell.weight c) st' := by
  cases c with
  | ch c => exact chLayout_ok wraps c hW hn h
  | img a b => exact sizedLayout_ok wraps ⟨a, b⟩ hW hn h
  | glyph a b fb =>
    simp only [TCell.weight] at hn ⊢
    simp only [tcellLayout]
    split
    · obtain ⟨st', e, h'⟩ := sizedLayout_ok wraps ⟨a, b⟩ hW (n := n) (by omega) h
      exact ⟨st', e, h'.mono (by omega)⟩
    · obtain ⟨st', e, h'⟩ := chsLayout_ok wraps hW fb n st (by omega) h
      exact ⟨st', e, h'.mono (by omega)⟩

theorem tcellsLayout_ok {maxW : Nat} (ctx : Ctx) (wraps : Bool) (hW : maxW < U) :
    ∀ (cs : List TCell) (n : Nat) (st : TL), n + cellsWeight cs < U → TLInv maxW n st →
      ∃ st', tcellsLayout ctx maxW wraps cs st = .ok st'
  | [], _, st, _, _ => ⟨st, rfl⟩
  | c :: cs, n, st, hn, h => by
    simp only [cellsWeight] at hn
    obtain ⟨st1, e1, h1⟩ := tcellLayout_ok ctx wraps c hW (n := n) (by omega) h
    obtain ⟨st2, e2⟩ := tcellsLayout_ok ctx wraps hW cs (n + TCell.weight c) st1 (by omega) h1
    exact ⟨st2, by simp only [tcellsLayout, e1, e2]⟩

theorem TLInv_init (maxW : Nat) : TLInv maxW 0 TL.init := ⟨Nat.zero_le _, Nat.le_refl _⟩

/-! ## size of a view tree, shape of its layout tree -/

mutual
/-- number of views, text cells and fallback characters of a tree -/
def weight : V → Nat
  | .text cells _ => 1 + cellsWeight cells
  | .str chars => 1 + chars.length
  | .glyph _ _ fb => 1 + fb.length
  | .fixed _ _ _ => 1
  | .image _ _ => 1
  | .fill _ => 1
  | .scrollbar _ => 1
  | .optNone => 1
  | .flex _ _ cs => 1 + weightCs cs
  | .container _ _ _ _ _ c => 1 + weight c
  | .frame c => 1 + weight c
  | .tag c => 1 + weight c
  | .dyn _ a b => 1 + weight a + weight b
def weightCs : List Child → Nat
  | [] => 0
  | .mk _ _ _ v :: cs => weight v + weightCs cs
end

/-- first child of a layout node, where the single-child views look for their child's layout -/
def firstKid (t : LT) : Option LT := t.kids.head?

mutual
/-- the layout tree has the nodes `render` looks for: one child under container / frame / tag /
dynamic (with the data of the view that was built), children of a flex pairwise either empty
(skipped by `flex_render`) or shaped like their view -/
def Shaped (ctx : Ctx) : V → LT → Prop
  | .flex _ _ cs, t => ShapedKids ctx cs t.kids
  | .container _ _ _ _ _ c, t => ∃ k ks, t.kids = k :: ks ∧ Shaped ctx c k
  | .frame c, t =>
    (ctx.hasGlyphs = true ∧ ∃ k ks, t.kids = k :: ks ∧ Shaped ctx c k) ∨ (ctx.hasGlyphs = false ∧ Shaped ctx c t)
  | .tag c, t => ∃ k ks, t.kids = k :: ks ∧ Shaped ctx c k
  | .dyn _ a b, t =>
    (t.data = 1 ∧ ∃ k ks, t.kids = k :: ks ∧ Shaped ctx a k) ∨ (t.data = 2 ∧ ∃ k ks, t.kids = k :: ks ∧ Shaped ctx b k)
  | .text _ _, _ => True
  | .str _, _ => True
  | .glyph _ _ _, _ => True
  | .fixed _ _ _, _ => True
  | .image _ _, _ => True
  | .fill _, _ => True
  | .scrollbar _, _ => True
  | .optNone, _ => True
def ShapedKids (ctx : Ctx) : List Child → List LT → Prop
  | [], _ => True
  | _ :: _, [] => True
  | .mk _ _ _ v :: cs, t :: ts => (t.size.isEmpty = true ∨ Shaped ctx v t) ∧ ShapedKids ctx cs ts
end

@[simp] theorem setPos_kids (t : LT) (p : Pos) : (t.setPos p).kids = t.kids := by cases t; rfl
@[simp] theorem setPos_size (t : LT) (p : Pos) : (t.setPos p).size = t.size := by cases t; rfl
@[simp] theorem setPos_data (t : LT) (p : Pos) : (t.setPos p).data = t.data := by cases t; rfl
@[simp] theorem setPos_pos (t : LT) (p : Pos) : (t.setPos p).pos = p := by cases t; rfl

theorem Shaped_setPos (ctx : Ctx) : ∀ (v : V) (t : LT) (p : Pos), Shaped ctx v t → Shaped ctx v (t.setPos p)
  | .flex _ _ cs, t, p, h => by simpa [Shaped] using h
  | .container _ _ _ _ _ c, t, p, h => by simpa [Shaped] using h
  | .frame c, t, p, h => by
    simp only [Shaped] at h ⊢
    rcases h with ⟨hg, h⟩ | ⟨hg, h⟩
    · exact Or.inl ⟨hg, by simpa using h⟩
    · exact Or.inr ⟨hg, Shaped_setPos ctx c t p h⟩
  | .tag c, t, p, h => by simpa [Shaped] using h
  | .dyn _ a b, t, p, h => by simpa [Shaped] using h
  | .text _ _, _, _, _ => by simp [Shaped]
  | .str _, _, _, _ => by simp [Shaped]
  | .glyph _ _ _, _, _, _ => by simp [Shaped]
  | .fixed _ _ _, _, _, _ => by simp [Shaped]
  | .image _ _, _, _, _ => by simp [Shaped]
  | .fill _, _, _, _ => by simp [Shaped]
  | .scrollbar _, _, _, _ => by simp [Shaped]
  | .optNone, _, _, _ => by simp [Shaped]

/-- both extents of the maximum are machine values -/
def Machine (ct : Ct) : Prop := ct.max.h < U ∧ ct.max.w < U

/-- a view reports at most the maximum it was given, except for what nested frames and a scroll bar
add under a tiny maximum (at most two cells per frame) -/
def Bound (v : V) (ct : Ct) (t : LT) : Prop :=
  (t.size.h ≤ ct.max.h ∨ t.size.h ≤ 2 * weight v) ∧ (t.size.w ≤ ct.max.w ∨ t.size.w ≤ 2 * weight v)

/-! ## totality of layout -/


theorem divU_ok {a b : Nat} (h : b ≠ 0) : divU a b = .ok (a / b) := by unfold divU; simp [h]

theorem spaces_ok (j : Justify) (unused n : Nat) : ∃ p, spaces j unused n = .ok p := by
  unfold spaces
  split
  · cases j with
    | start => exact ⟨_, rfl⟩
    | center => exact ⟨_, rfl⟩
    | end_ => exact ⟨_, rfl⟩
    | spaceBetween =>
      simp only
      split
      · exact ⟨_, rfl⟩
      · rw [divU_ok (by omega)]; exact ⟨_, rfl⟩
    | spaceEvenly => simp only; rw [divU_ok (by omega)]; exact ⟨_, rfl⟩
    | spaceAround =>
      simp only
      have : Nat.max n 1 ≠ 0 := by have := natMax_ge_right n 1; omega
      rw [divU_ok this]; exact ⟨_, rfl⟩
  · exact ⟨_, rfl⟩

theorem place_ok (ctx : Ctx) (dir : Axis) (minor between : Nat) :
    ∀ (cs : List Child) (ts : List LT) (off : Nat), ts.length = cs.length → ShapedKids ctx cs ts →
      ∃ ts' o, place dir minor between cs ts off = .ok (ts', o) ∧ ShapedKids ctx cs ts'
  | [], ts, off, _, _ => ⟨[], off, by simp [place], by simp [ShapedKids]⟩
  | c :: cs, [], off, hl, _ => by simp at hl
  | .mk f al fc v :: cs, t :: ts, off, hl, hk => by
    simp only [List.length_cons, Nat.add_right_cancel_iff] at hl
    simp only [ShapedKids] at hk
    obtain ⟨ts', o, e, hk'⟩ := place_ok ctx dir minor between cs ts (satAdd (satAdd off (dir.majorS t.size)) between) hl hk.2
    refine ⟨t.setPos (dir.posFrom off (al.align (dir.minorS t.size) minor)) :: ts', o, by simp only [place, e], ?_⟩
    simp only [ShapedKids, setPos_size]
    exact ⟨hk.1.imp id (Shaped_setPos ctx v t _), hk'⟩
theorem childMajorMax_le (remain : Nat) (f total : Q) : childMajorMax remain f total ≤ remain := by
  unfold childMajorMax
  simp only
  split
  · split <;> omega
  · exact natMin_le_right _ _

theorem Bound_of_le {v : V} {ct : Ct} {t : LT} (h1 : t.size.h ≤ ct.max.h) (h2 : t.size.w ≤ ct.max.w) : Bound v ct t :=
  ⟨Or.inl h1, Or.inl h2⟩

theorem leaf_size (s : Size) : (LT.leaf s).size = s := rfl

theorem clampLeaf_bound {v : V} {ct : Ct} (hv : Valid ct) (s : Size) :
    Bound v ct (LT.leaf ⟨clampN s.h ct.min.h ct.max.h, clampN s.w ct.min.w ct.max.w⟩) :=
  Bound_of_le (clampN_le_max _ _ _ hv.1) (clampN_le_max _ _ _ hv.2)

theorem valid_constraint {dir : Axis} {ctl : Ct} (hv : Valid ctl) (m : Nat) : Valid (dir.constraint ctl 0 m) := by
  cases dir <;> simp only [Axis.constraint, Valid] <;> exact ⟨by first | exact hv.1 | omega, by first | exact hv.2 | omega⟩

theorem machine_constraint {dir : Axis} {ctl : Ct} (hm : Machine ctl) {m : Nat} (h : m ≤ dir.majorS ctl.max) :
    Machine (dir.constraint ctl 0 m) := by
  cases dir <;> simp only [Axis.constraint, Machine, Axis.majorS] at * <;> omega

@[simp] theorem node_size (p s d k) : (LT.node p s d k).size = s := rfl
@[simp] theorem node_kids (p s d k) : (LT.node p s d k).kids = k := rfl
@[simp] theorem node_data (p s d k) : (LT.node p s d k).data = d := rfl
@[simp] theorem node_pos (p s d k) : (LT.node p s d k).pos = p := rfl

theorem dimOk (sz lo hi : Nat) (h : lo ≤ hi) :
    ∃ c, (if sz = 0 then Except.ok hi else clampU sz lo hi) = (Except.ok c : Except Panic Nat) ∧ lo ≤ c ∧ c ≤ hi := by
  split
  · exact ⟨hi, rfl, h, Nat.le_refl _⟩
  · exact ⟨_, clampU_ok h, (clampN_bounds h).1, (clampN_bounds h).2⟩

theorem shrinkOk (b : Prop) [Decidable b] (x lo hi c : Nat) (h : lo ≤ hi) (hc : c ≤ hi) :
    ∃ c', (if b then clampU x lo hi else Except.ok c) = (Except.ok c' : Except Panic Nat) ∧ c' ≤ hi := by
  split
  · exact ⟨_, clampU_ok h, (clampN_bounds h).2⟩
  · exact ⟨c, rfl, hc⟩

mutual
theorem layout_total (ctx : Ctx) : ∀ (v : V) (ct : Ct), Valid ct → Machine ct → 2 * weight v + 2 < U →
    ∃ t, v.layout ctx ct = .ok t ∧ Shaped ctx v t ∧ Bound v ct t
  | .text cells wraps, ct, hv, hm, hw => by
    simp only [weight] at hw
    obtain ⟨st, e⟩ := tcellsLayout_ok ctx wraps hm.2 cells 0 TL.init (by omega) (TLInv_init _)
    exact ⟨_, by simp only [V.layout, e, ctClamp_ok hv] <;> rfl, by simp [Shaped], clampLeaf_bound hv st.size⟩
  | .str chars, ct, hv, hm, hw => by
    simp only [weight] at hw
    obtain ⟨st, e, _⟩ := chsLayout_ok true hm.2 chars 0 TL.init (by omega) (TLInv_init _)
    exact ⟨_, by simp only [V.layout, e, ctClamp_ok hv] <;> rfl, by simp [Shaped], clampLeaf_bound hv st.size⟩
  | .glyph h w fb, ct, hv, hm, hw => by
    simp only [weight] at hw
    by_cases hg : ctx.hasGlyphs = true
    · exact ⟨_, by simp only [V.layout, hg, if_true, ctClamp_ok hv] <;> rfl, by simp [Shaped], clampLeaf_bound hv ⟨h, w⟩⟩
    · obtain ⟨st, e, _⟩ := chsLayout_ok true hm.2 fb 0 TL.init (by omega) (TLInv_init _)
      exact ⟨_, by simp only [V.layout, hg, e, ctClamp_ok hv] <;> rfl, by simp [Shaped], clampLeaf_bound hv _⟩
  | .fixed _ h w, ct, hv, _, _ =>
    ⟨_, by simp only [V.layout, ctClamp_ok hv] <;> rfl, by simp [Shaped], clampLeaf_bound hv ⟨h, w⟩⟩
  | .image ph pw, ct, hv, _, _ =>
    ⟨_, by simp only [V.layout, ctClamp_ok hv] <;> rfl, by simp [Shaped], clampLeaf_bound hv (sizeCells ctx.ppc ph pw)⟩
  | .fill _, ct, _, _, _ =>
    ⟨_, by simp only [V.layout] <;> rfl, by simp [Shaped], Bound_of_le (Nat.le_refl _) (Nat.le_refl _)⟩
  | .scrollbar dir, ct, _, _, _ => by
    refine ⟨_, by simp only [V.layout] <;> rfl, by simp [Shaped], ?_⟩
    cases dir <;> simp only [Bound, LT.size, Axis.sizeFrom, Axis.majorS, weight] <;> omega
  | .optNone, ct, _, _, _ =>
    ⟨_, by simp only [V.layout] <;> rfl, by simp [Shaped], Bound_of_le (Nat.zero_le _) (Nat.zero_le _)⟩
  | .flex dir j cs, ct, hv, hm, hw => by
    simp only [weight] at hw
    have hvl : Valid ct.loosen := ⟨Nat.zero_le _, Nat.zero_le _⟩
    have hml : Machine ct.loosen := hm
    obtain ⟨ts1, a1, e1, hl1, hk1⟩ := phase1_total ctx dir ct.loosen hvl hml cs ⟨0, dir.minorS ct.min, Q.zero⟩ (by omega)
    have h2 : ∃ ts2 a2, (if dir.majorS ct.max - a1.nonFlex > 0 ∧ a1.total.pos = true then
          phase2 ctx dir ct.loosen cs ts1 ⟨dir.majorS ct.max - a1.nonFlex, a1.total, 0, a1.minor⟩
        else Except.ok (ts1, ⟨dir.majorS ct.max - a1.nonFlex, a1.total, 0, a1.minor⟩)) = .ok (ts2, a2)
        ∧ ts2.length = cs.length ∧ ShapedKids ctx cs ts2 := by
      split
      · exact phase2_total ctx dir ct.loosen hvl hml cs ts1 _ hl1 hk1 (by show _ - _ ≤ dir.majorS ct.max; omega) (by omega)
      · exact ⟨_, _, rfl, hl1, hk1⟩
    obtain ⟨ts2, a2, e2, hl2, hk2⟩ := h2
    obtain ⟨⟨side, between⟩, e3⟩ := spaces_ok j (dir.majorS ct.max - satAdd a1.nonFlex a2.flexed) cs.length
    obtain ⟨ts3, off, e4, hk3⟩ := place_ok ctx dir a2.minor between cs ts2 side hl2 hk2
    refine ⟨_, by simp only [V.layout, e1, e2, e3, e4, ctClamp_ok hv] <;> rfl, by simpa [Shaped, LT.kids] using hk3, ?_⟩
    exact Bound_of_le (clampN_le_max _ _ _ hv.1) (clampN_le_max _ _ _ hv.2)
  | .container size av ah m face child, ct, hv, hm, hw => by
    simp only [weight] at hw
    obtain ⟨ch, eh, _, hch⟩ := dimOk size.h ct.min.h ct.max.h hv.1
    obtain ⟨cw, ew, _, hcw⟩ := dimOk size.w ct.min.w ct.max.w hv.2
    have hvc : Valid ⟨⟨if av = .expand then ch - m.top - m.bottom else 0, if ah = .expand then cw - m.left - m.right else 0⟩,
        ⟨ch - m.top - m.bottom, cw - m.left - m.right⟩⟩ := by
      constructor <;> (simp only; split <;> omega)
    have hmc : Machine ⟨⟨if av = .expand then ch - m.top - m.bottom else 0, if ah = .expand then cw - m.left - m.right else 0⟩,
        ⟨ch - m.top - m.bottom, cw - m.left - m.right⟩⟩ := by
      have := hm.1; have := hm.2
      constructor <;> (simp only; omega)
    obtain ⟨t, e, hs, _⟩ := layout_total ctx child _ hvc hmc (by omega)
    obtain ⟨h2, eh2, hh2⟩ := shrinkOk (av = .shrink) (satAdd (satAdd t.size.h m.top) m.bottom) ct.min.h ct.max.h ch hv.1 hch
    obtain ⟨w2, ew2, hw2⟩ := shrinkOk (ah = .shrink) (satAdd (satAdd t.size.w m.left) m.right) ct.min.w ct.max.w cw hv.2 hcw
    refine ⟨_, by simp only [V.layout, eh, ew, e, eh2, ew2] <;> rfl, ?_, ?_⟩
    · simp only [Shaped, LT.kids]
      exact ⟨_, [], rfl, Shaped_setPos ctx child t _ hs⟩
    · exact Bound_of_le hh2 hw2
  | .frame child, ct, hv, hm, hw => by
    simp only [weight] at hw
    by_cases hg : ctx.hasGlyphs = true
    · have hvc : Valid ⟨⟨ct.min.h - 2, ct.min.w - 2⟩, ⟨ct.max.h - 2, ct.max.w - 2⟩⟩ := by
        have := hv.1; have := hv.2
        constructor <;> (simp only; omega)
      have hmc : Machine ⟨⟨ct.min.h - 2, ct.min.w - 2⟩, ⟨ct.max.h - 2, ct.max.w - 2⟩⟩ := by
        have := hm.1; have := hm.2
        constructor <;> (simp only; omega)
      obtain ⟨t, e, hs, hb⟩ := layout_total ctx child _ hvc hmc (by omega)
      have := hm.1; have := hm.2
      simp only [Bound] at hb
      have e1 : addU t.size.h 2 = .ok (t.size.h + 2) := addU_ok (by omega)
      have e2 : addU t.size.w 2 = .ok (t.size.w + 2) := addU_ok (by omega)
      refine ⟨_, by simp only [V.layout, hg, Bool.not_true, Bool.false_eq_true, if_false, e, e1, e2] <;> rfl, ?_, ?_⟩
      · simp only [Shaped, LT.kids]
        exact Or.inl ⟨hg, _, [], rfl, Shaped_setPos ctx child t _ hs⟩
      · simp only [Bound, node_size, weight]
        omega
    · have hg' : ctx.hasGlyphs = false := by simpa using hg
      obtain ⟨t, e, hs, hb⟩ := layout_total ctx child ct hv hm (by omega)
      refine ⟨t, by simp only [V.layout, hg', Bool.not_false, if_true, e], ?_, ?_⟩
      · simp only [Shaped]
        exact Or.inr ⟨hg', hs⟩
      · simp only [Bound, weight] at hb ⊢
        omega
  | .tag child, ct, hv, hm, hw => by
    simp only [weight] at hw
    obtain ⟨t, e, hs, hb⟩ := layout_total ctx child ct hv hm (by omega)
    refine ⟨_, by simp only [V.layout, e] <;> rfl, by simp only [Shaped, LT.kids]; exact ⟨t, [], rfl, hs⟩, ?_⟩
    simp only [Bound, LT.size, weight] at hb ⊢
    omega
  | .dyn thr a b, ct, hv, hm, hw => by
    simp only [weight] at hw
    by_cases hc : ct.max.w > thr
    · obtain ⟨t, e, hs, hb⟩ := layout_total ctx a ct hv hm (by omega)
      refine ⟨_, by simp only [V.layout, hc, if_true, e] <;> rfl, by simp only [Shaped, LT.kids, LT.data]; exact Or.inl ⟨trivial, t, [], rfl, hs⟩, ?_⟩
      simp only [Bound, LT.size, weight] at hb ⊢
      omega
    · obtain ⟨t, e, hs, hb⟩ := layout_total ctx b ct hv hm (by omega)
      refine ⟨_, by simp only [V.layout, hc, if_false, e] <;> rfl, by simp only [Shaped, LT.kids, LT.data]; exact Or.inr ⟨trivial, t, [], rfl, hs⟩, ?_⟩
      simp only [Bound, LT.size, weight] at hb ⊢
      omega
theorem phase1_total (ctx : Ctx) (dir : Axis) (ctl : Ct) (hv : Valid ctl) (hm : Machine ctl) :
    ∀ (cs : List Child) (a : P1), 2 * weightCs cs + 2 < U →
      ∃ ts a', phase1 ctx dir ctl cs a = .ok (ts, a') ∧ ts.length = cs.length ∧ ShapedKids ctx cs ts
  | [], a, _ => ⟨[], a, by simp only [phase1], rfl, by simp [ShapedKids]⟩
  | .mk none al fc v :: cs, a, hw => by
    simp only [weightCs] at hw
    obtain ⟨t, e, hs, _⟩ := layout_total ctx v ctl hv hm (by omega)
    obtain ⟨ts, a', e', hl, hk⟩ := phase1_total ctx dir ctl hv hm cs
      ⟨satAdd a.nonFlex (dir.majorS t.size), Nat.max a.minor (dir.minorS t.size), a.total⟩ (by omega)
    exact ⟨t :: ts, a', by simp only [phase1, e, e'], by simp [hl], by simp only [ShapedKids]; exact ⟨Or.inr hs, hk⟩⟩
  | .mk (some f) al fc v :: cs, a, hw => by
    simp only [weightCs] at hw
    obtain ⟨ts, a', e', hl, hk⟩ := phase1_total ctx dir ctl hv hm cs ⟨a.nonFlex, a.minor, a.total.add f⟩ (by omega)
    exact ⟨LT.default :: ts, a', by simp only [phase1, e'], by simp [hl], by simp only [ShapedKids]; exact ⟨Or.inl rfl, hk⟩⟩
theorem phase2_total (ctx : Ctx) (dir : Axis) (ctl : Ct) (hv : Valid ctl) (hm : Machine ctl) :
    ∀ (cs : List Child) (ts : List LT) (a : P2), ts.length = cs.length → ShapedKids ctx cs ts →
      a.remain ≤ dir.majorS ctl.max → 2 * weightCs cs + 2 < U →
      ∃ ts' a', phase2 ctx dir ctl cs ts a = .ok (ts', a') ∧ ts'.length = cs.length ∧ ShapedKids ctx cs ts'
  | [], ts, a, _, _, _, _ => ⟨[], a, by simp only [phase2], rfl, by simp [ShapedKids]⟩
  | c :: cs, [], a, hl, _, _, _ => by simp at hl
  | .mk none al fc v :: cs, t :: ts, a, hl, hk, hr, hw => by
    simp only [weightCs] at hw
    simp only [List.length_cons, Nat.add_right_cancel_iff] at hl
    simp only [ShapedKids] at hk
    obtain ⟨ts', a', e', hl', hk'⟩ := phase2_total ctx dir ctl hv hm cs ts a hl hk.2 hr (by omega)
    exact ⟨t :: ts', a', by simp only [phase2, e'], by simp [hl'], by simp only [ShapedKids]; exact ⟨hk.1, hk'⟩⟩
  | .mk (some f) al fc v :: cs, t :: ts, a, hl, hk, hr, hw => by
    simp only [weightCs] at hw
    simp only [List.length_cons, Nat.add_right_cancel_iff] at hl
    simp only [ShapedKids] at hk
    by_cases hc : childMajorMax a.remain f a.total ≠ 0
    · have hle := childMajorMax_le a.remain f a.total
      obtain ⟨t', e, hs, _⟩ := layout_total ctx v (dir.constraint ctl 0 (childMajorMax a.remain f a.total))
        (valid_constraint hv _) (machine_constraint hm (by omega)) (by omega)
      obtain ⟨ts', a', e', hl', hk'⟩ := phase2_total ctx dir ctl hv hm cs ts
        ⟨a.remain - dir.majorS t'.size, a.total.sub f, satAdd a.flexed (dir.majorS t'.size), Nat.max a.minor (dir.minorS t'.size)⟩
        hl hk.2 (by show _ - _ ≤ _; omega) (by omega)
      exact ⟨t' :: ts', a', by simp only [phase2, if_pos hc, e, e'], by simp [hl'], by simp only [ShapedKids]; exact ⟨Or.inr hs, hk'⟩⟩
    · obtain ⟨ts', a', e', hl', hk'⟩ := phase2_total ctx dir ctl hv hm cs ts
        ⟨a.remain, a.total.sub f, a.flexed, a.minor⟩ hl hk.2 hr (by omega)
      exact ⟨t :: ts', a', by simp only [phase2, if_neg hc, e'], by simp [hl'], by simp only [ShapedKids]; exact ⟨hk.1, hk'⟩⟩
end

/-! ## rendering: totality on shaped trees -/

mutual
theorem render_ok (ctx : Ctx) : ∀ (v : V) (t : LT), Shaped ctx v t → ∀ s, ∃ ps, v.render ctx s t = .ok ps
  | .text _ _, t, _, s => ⟨_, by simp only [V.render] <;> rfl⟩
  | .str _, t, _, s => ⟨_, by simp only [V.render] <;> rfl⟩
  | .glyph _ _ _, t, _, s => ⟨_, by simp only [V.render] <;> rfl⟩
  | .fixed _ _ _, t, _, s => ⟨_, by simp only [V.render] <;> rfl⟩
  | .image _ _, t, _, s => ⟨_, by simp only [V.render] <;> rfl⟩
  | .fill b, t, _, s => by simp only [V.render]; split <;> exact ⟨_, rfl⟩
  | .scrollbar d, t, _, s => by simp only [V.render]; split <;> exact ⟨_, rfl⟩
  | .optNone, t, _, s => ⟨_, by simp only [V.render] <;> rfl⟩
  | .flex dir _ cs, t, h, s => by
    simp only [Shaped] at h
    simp only [V.render]
    exact renderKids_ok ctx dir cs t.kids h (applyTo t s)
  | .container _ _ _ _ face c, t, h, s => by
    simp only [Shaped] at h
    obtain ⟨k, ks, ek, hk⟩ := h
    obtain ⟨ps, e⟩ := render_ok ctx c k hk (applyTo t s)
    exact ⟨_, by simp only [V.render, ek, e] <;> rfl⟩
  | .frame c, t, h, s => by
    simp only [Shaped] at h
    rcases h with ⟨hg, k, ks, ek, hk⟩ | ⟨hg, hk⟩
    · obtain ⟨ps, e⟩ := render_ok ctx c k hk (applyTo t s)
      exact ⟨_, by simp only [V.render, hg, Bool.not_true, Bool.false_eq_true, if_false, ek, e] <;> rfl⟩
    · obtain ⟨ps, e⟩ := render_ok ctx c t hk s
      exact ⟨ps, by simp only [V.render, hg, Bool.not_false, if_true, e]⟩
  | .tag c, t, h, s => by
    simp only [Shaped] at h
    obtain ⟨k, ks, ek, hk⟩ := h
    obtain ⟨ps, e⟩ := render_ok ctx c k hk (applyTo t s)
    exact ⟨ps, by simp only [V.render, ek, e]⟩
  | .dyn _ a b, t, h, s => by
    simp only [Shaped] at h
    rcases h with ⟨hd, k, ks, ek, hk⟩ | ⟨hd, k, ks, ek, hk⟩
    · obtain ⟨ps, e⟩ := render_ok ctx a k hk (applyTo t s)
      exact ⟨ps, by simp only [V.render, hd, if_true, ek, e]⟩
    · obtain ⟨ps, e⟩ := render_ok ctx b k hk (applyTo t s)
      exact ⟨ps, by simp [V.render, hd, ek, e]⟩
theorem renderKids_ok (ctx : Ctx) (dir : Axis) : ∀ (cs : List Child) (ts : List LT), ShapedKids ctx cs ts →
    ∀ s, ∃ ps, renderKids ctx dir s cs ts = .ok ps
  | [], ts, _, s => ⟨_, by simp only [renderKids] <;> rfl⟩
  | _ :: _, [], _, s => ⟨_, by simp only [renderKids] <;> rfl⟩
  | .mk _ _ face v :: cs, t :: ts, h, s => by
    simp only [ShapedKids] at h
    obtain ⟨ps2, e2⟩ := renderKids_ok ctx dir cs ts h.2 s
    by_cases he : t.size.isEmpty = true
    · exact ⟨ps2, by simp only [renderKids, he, if_true, e2]⟩
    · have hs : Shaped ctx v t := h.1.resolve_left he
      obtain ⟨ps1, e1⟩ := render_ok ctx v t hs s
      exact ⟨_, by simp only [renderKids, he, e1, e2]; rfl⟩
end

/-! ## rendering: containment -/


/-- `o` is an in-window offset of the surface `s` -/
def InWin (s : Shape) (o : Nat) : Prop := ∃ r c, r < s.height ∧ c < s.width ∧ o = s.offset r c
/-- every in-window offset of `a` is an in-window offset of `b` -/
def Sub (a b : Shape) : Prop := ∀ o, InWin a o → InWin b o

theorem Sub.refl (a : Shape) : Sub a a := fun _ h => h
theorem Sub.trans {a b c : Shape} (h1 : Sub a b) (h2 : Sub b c) : Sub a c := fun o h => h2 o (h1 o h)

theorem view_cases (s : Shape) (rows cols : Slice.Sel) :
    (∃ c0 c1 r0 r1, Slice.viewBounds cols s.width = some (c0, c1) ∧ Slice.viewBounds rows s.height = some (r0, r1) ∧
      s.view rows cols = { s with width := c1 - c0, height := r1 - r0, start := s.offset r0 c0, end_ := s.offset (r1 - 1) c1 })
    ∨ s.view rows cols = Shape.zero := by
  unfold Shape.view
  cases h1 : Slice.viewBounds cols s.width with
  | none => exact Or.inr rfl
  | some p1 =>
    cases h2 : Slice.viewBounds rows s.height with
    | none => exact Or.inr rfl
    | some p2 => exact Or.inl ⟨p1.1, p1.2, p2.1, p2.2, rfl, rfl, rfl⟩

theorem view_sub (s : Shape) (rows cols : Slice.Sel) : Sub (s.view rows cols) s := by
  intro o ⟨r, c, hr, hc, ho⟩
  rcases view_cases s rows cols with ⟨c0, c1, r0, r1, ec, er, ev⟩ | ev
  · rw [ev] at hr hc ho
    have hcb := SurfProofs.C08.C08_range cols s.width c0 c1 ec
    have hrb := SurfProofs.C08.C08_range rows s.height r0 r1 er
    simp only at hr hc
    refine ⟨r0 + r, c0 + c, by omega, by omega, ?_⟩
    rw [ho]
    simp only [Shape.offset, Nat.add_mul]
    omega
  · rw [ev] at hr
    simp [Shape.zero] at hr

theorem applyTo_sub (t : LT) (s : Shape) : Sub (applyTo t s) s := view_sub _ _ _
theorem majorStrip_sub (dir : Axis) (s : Shape) (t : LT) : Sub (majorStrip dir s t) s := by
  cases dir <;> exact view_sub _ _ _

mutual
theorem render_sub (ctx : Ctx) : ∀ (v : V) (s : Shape) (t : LT) (ps : List Paint),
    v.render ctx s t = .ok ps → ∀ p ∈ ps, Sub p.shape s
  | .text _ _, s, t, ps, h => by
    simp only [V.render] at h; injection h with h; subst h
    intro p hp; simp at hp; subst hp; exact applyTo_sub t s
  | .str _, s, t, ps, h => by
    simp only [V.render] at h; injection h with h; subst h
    intro p hp; simp at hp; subst hp; exact applyTo_sub t s
  | .glyph _ _ _, s, t, ps, h => by
    simp only [V.render] at h; injection h with h; subst h
    intro p hp; simp at hp; subst hp; exact applyTo_sub t s
  | .fixed _ _ _, s, t, ps, h => by
    simp only [V.render] at h; injection h with h; subst h
    intro p hp; simp at hp; subst hp; exact applyTo_sub t s
  | .image _ _, s, t, ps, h => by
    simp only [V.render] at h; injection h with h; subst h
    intro p hp; simp at hp; subst hp; exact applyTo_sub t s
  | .fill b, s, t, ps, h => by
    simp only [V.render] at h
    split at h <;> (injection h with h; subst h; intro p hp; simp at hp)
    subst hp; exact applyTo_sub t s
  | .scrollbar dir, s, t, ps, h => by
    simp only [V.render] at h
    split at h <;> (injection h with h; subst h; intro p hp; simp at hp)
    subst hp; exact applyTo_sub t s
  | .optNone, s, t, ps, h => by
    simp only [V.render] at h; injection h with h; subst h
    intro p hp; simp at hp
  | .flex dir _ cs, s, t, ps, h => by
    simp only [V.render] at h
    intro p hp
    exact (renderKids_sub ctx dir cs (applyTo t s) t.kids ps h p hp).trans (applyTo_sub t s)
  | .container _ _ _ _ face c, s, t, ps, h => by
    simp only [V.render] at h
    split at h
    · cases h
    · split at h
      · cases h
      · injection h with h; subst h
        intro p hp
        split at hp
        · simp only [List.mem_cons] at hp
          rcases hp with rfl | hp
          · exact applyTo_sub t s
          · exact (render_sub ctx c _ _ _ (by assumption) p hp).trans (applyTo_sub t s)
        · exact (render_sub ctx c _ _ _ (by assumption) p hp).trans (applyTo_sub t s)
  | .frame c, s, t, ps, h => by
    simp only [V.render] at h
    split at h
    · exact render_sub ctx c s t ps h
    · split at h
      · cases h
      · split at h
        · cases h
        · injection h with h; subst h
          intro p hp
          simp only [List.mem_cons] at hp
          rcases hp with rfl | hp
          · exact applyTo_sub t s
          · exact (render_sub ctx c _ _ _ (by assumption) p hp).trans (applyTo_sub t s)
  | .tag c, s, t, ps, h => by
    simp only [V.render] at h
    split at h
    · cases h
    · intro p hp
      exact (render_sub ctx c _ _ ps h p hp).trans (applyTo_sub t s)
  | .dyn _ a b, s, t, ps, h => by
    simp only [V.render] at h
    split at h
    · split at h
      · cases h
      · intro p hp
        exact (render_sub ctx a _ _ ps h p hp).trans (applyTo_sub t s)
    · split at h
      · split at h
        · cases h
        · intro p hp
          exact (render_sub ctx b _ _ ps h p hp).trans (applyTo_sub t s)
      · cases h
theorem renderKids_sub (ctx : Ctx) (dir : Axis) : ∀ (cs : List Child) (s : Shape) (ts : List LT) (ps : List Paint),
    renderKids ctx dir s cs ts = .ok ps → ∀ p ∈ ps, Sub p.shape s
  | [], s, ts, ps, h => by
    simp only [renderKids] at h; injection h with h; subst h
    intro p hp; simp at hp
  | _ :: _, s, [], ps, h => by
    simp only [renderKids] at h; injection h with h; subst h
    intro p hp; simp at hp
  | .mk _ _ face v :: cs, s, t :: ts, ps, h => by
    simp only [renderKids] at h
    split at h
    · exact renderKids_sub ctx dir cs s ts ps h
    · split at h
      · cases h
      · split at h
        · cases h
        · injection h with h; subst h
          intro p hp
          simp only [List.mem_append] at hp
          rcases hp with (hp | hp) | hp
          · split at hp
            · simp at hp; subst hp; exact majorStrip_sub dir s t
            · simp at hp
          · exact render_sub ctx v s t _ (by assumption) p hp
          · exact renderKids_sub ctx dir cs s ts _ (by assumption) p hp
end

end SurfProofs.ViewLayoutL
