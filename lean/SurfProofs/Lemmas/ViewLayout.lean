import SurfModel.ViewLayout
import SurfProofs.C08
/-!
Helper lemmas for C10 (view layout): arithmetic of `clamp` / saturating sums, inversion of the
layout function, shape of the layout tree.
-/
set_option linter.unusedSimpArgs false
set_option linter.unusedSectionVars false
namespace SurfProofs.ViewLayoutL
open SurfModel SurfModel.ViewLayout

/-- the value `Ord::clamp` returns when it does not panic -/
def clampN (v lo hi : Nat) : Nat := if v < lo then lo else if v > hi then hi else v

theorem clampU_ok {v lo hi : Nat} (h : lo ≤ hi) : clampU v lo hi = .ok (clampN v lo hi) := by
  unfold clampU clampN
  have : ¬ lo > hi := by omega
  simp [this]

theorem clampU_inv {v lo hi r : Nat} (h : clampU v lo hi = .ok r) : lo ≤ hi ∧ r = clampN v lo hi := by
  unfold clampU at h
  split at h
  · cases h
  · refine ⟨by omega, ?_⟩
    injection h with h
    exact h.symm

theorem clampN_bounds {v lo hi : Nat} (h : lo ≤ hi) : lo ≤ clampN v lo hi ∧ clampN v lo hi ≤ hi := by
  unfold clampN
  split
  · omega
  · split <;> omega

theorem clampN_le_max (v lo hi : Nat) (h : lo ≤ hi) : clampN v lo hi ≤ hi := (clampN_bounds h).2

/-- `min ≤ max` in both dimensions -/
def Valid (ct : Ct) : Prop := ct.min.h ≤ ct.max.h ∧ ct.min.w ≤ ct.max.w

/-- `s` lies within the constraint -/
def Within (ct : Ct) (s : Size) : Prop :=
  ct.min.h ≤ s.h ∧ s.h ≤ ct.max.h ∧ ct.min.w ≤ s.w ∧ s.w ≤ ct.max.w

theorem ctClamp_ok {ct : Ct} (hv : Valid ct) (s : Size) :
    ct.clamp s = .ok ⟨clampN s.h ct.min.h ct.max.h, clampN s.w ct.min.w ct.max.w⟩ := by
  unfold Ct.clamp Size.clamp
  rw [clampU_ok hv.1, clampU_ok hv.2]

theorem ctClamp_inv {ct : Ct} {s r : Size} (h : ct.clamp s = .ok r) : Valid ct ∧ Within ct r := by
  unfold Ct.clamp Size.clamp at h
  split at h
  · cases h
  · rename_i hh eh
    split at h
    · cases h
    · rename_i ww ew
      injection h with h
      subst h
      have a := clampU_inv eh
      have b := clampU_inv ew
      have a' := clampN_bounds (v := s.h) a.1
      have b' := clampN_bounds (v := s.w) b.1
      exact ⟨⟨a.1, b.1⟩, by simp only [Within]; rw [a.2, b.2]; omega⟩

theorem satAdd_lt_U (a b : Nat) : satAdd a b < U := by
  unfold satAdd U; split <;> omega

theorem satAdd_ge (a b : Nat) (ha : a < U) : a ≤ satAdd a b := by
  unfold satAdd; split <;> omega

/-! ## text: the checked sums of `Cell::layout` stay below `2^64` -/

theorem natMin_le_right (a b : Nat) : Nat.min a b ≤ b := by
  show (if a ≤ b then a else b) ≤ b
  split <;> omega
theorem natMin_le_left (a b : Nat) : Nat.min a b ≤ a := by
  show (if a ≤ b then a else b) ≤ a
  split <;> omega
theorem natMax_ge_left (a b : Nat) : a ≤ Nat.max a b := by
  show a ≤ (if a ≤ b then b else a)
  split <;> omega
theorem natMax_ge_right (a b : Nat) : b ≤ Nat.max a b := by
  show b ≤ (if a ≤ b then b else a)
  split <;> omega

theorem addU_ok {a b : Nat} (h : a + b < U) : addU a b = .ok (a + b) := by
  unfold addU; simp [h]

/-- cursor invariant: the column never passes `max_width`, the row counts line breaks -/
def TLInv (maxW n : Nat) (st : TL) : Prop := st.cur.col ≤ maxW ∧ st.cur.row ≤ n

theorem TLInv.mono {maxW n m : Nat} {st : TL} (h : TLInv maxW n st) (hm : n ≤ m) : TLInv maxW m st :=
  ⟨h.1, Nat.le_trans h.2 hm⟩

theorem sizedLayout_ok {maxW n : Nat} (wraps : Bool) (cs : Size) {st : TL}
    (_hW : maxW < U) (hn : n + 1 < U) (h : TLInv maxW n st) :
    ∃ st', sizedLayout maxW wraps cs st = .ok st' ∧ TLInv maxW (n + 1) st' := by
  unfold sizedLayout
  obtain ⟨hc, hr⟩ := h
  split
  · exact ⟨st, rfl, ⟨hc, by omega⟩⟩
  · split
    · rename_i hfit
      rw [addU_ok hfit.1]
      exact ⟨_, rfl, ⟨hfit.2, by simp only; omega⟩⟩
    · split
      · exact ⟨st, rfl, ⟨hc, by omega⟩⟩
      · rw [addU_ok (by omega)]
        refine ⟨_, rfl, ⟨?_, by simp only; omega⟩⟩
        simp only
        exact natMin_le_right _ _

theorem chLayout_ok {maxW n : Nat} (wraps : Bool) (c : Ch) {st : TL}
    (hW : maxW < U) (hn : n + 1 < U) (h : TLInv maxW n st) :
    ∃ st', chLayout maxW wraps c st = .ok st' ∧ TLInv maxW (n + 1) st' := by
  obtain ⟨hc, hr⟩ := h
  cases c with
  | nl =>
    simp only [chLayout]
    rw [addU_ok (by omega)]
    exact ⟨_, rfl, ⟨Nat.zero_le _, by simp only; omega⟩⟩
  | cr => exact ⟨_, rfl, ⟨Nat.zero_le _, by simp only; omega⟩⟩
  | tab =>
    simp only [chLayout]
    have hle : st.cur.col + Nat.min (8 - st.cur.col % 8) (maxW - st.cur.col) ≤ maxW := by
      have := natMin_le_right (8 - st.cur.col % 8) (maxW - st.cur.col)
      omega
    rw [addU_ok (by omega)]
    exact ⟨_, rfl, ⟨hle, by simp only; omega⟩⟩
  | w k => exact sizedLayout_ok wraps ⟨1, k⟩ hW hn ⟨hc, hr⟩

theorem chsLayout_ok {maxW : Nat} (wraps : Bool) (hW : maxW < U) :
    ∀ (cs : List Ch) (n : Nat) (st : TL), n + cs.length < U → TLInv maxW n st →
      ∃ st', chsLayout maxW wraps cs st = .ok st' ∧ TLInv maxW (n + cs.length) st'
  | [], n, st, _, h => ⟨st, rfl, by simpa using h⟩
  | c :: cs, n, st, hn, h => by
    simp only [List.length_cons] at hn
    obtain ⟨st1, e1, h1⟩ := chLayout_ok wraps c hW (n := n) (by omega) h
    obtain ⟨st2, e2, h2⟩ := chsLayout_ok wraps hW cs (n + 1) st1 (by omega) h1
    refine ⟨st2, ?_, ?_⟩
    · simp only [chsLayout, e1, e2]
    · simp only [List.length_cons]
      have : n + (cs.length + 1) = n + 1 + cs.length := by omega
      rw [this]; exact h2

/-- number of `Cell::layout` steps a text cell can take -/
def TCell.weight : TCell → Nat
  | .ch _ => 1
  | .img _ _ => 1
  | .glyph _ _ fb => 1 + fb.length

def cellsWeight : List TCell → Nat
  | [] => 0
  | c :: cs => TCell.weight c + cellsWeight cs

theorem tcellLayout_ok {maxW n : Nat} (ctx : Ctx) (wraps : Bool) (c : TCell) {st : TL}
    (hW : maxW < U) (hn : n + TCell.weight c < U) (h : TLInv maxW n st) :
    ∃ st', tcellLayout ctx maxW wraps c st = .ok st' ∧ TLInv maxW (n + TCell.weight c) st' := by
  cases c with
  | ch c => exact chLayout_ok wraps c hW hn h
  | img a b => exact sizedLayout_ok wraps ⟨a, b⟩ hW hn h
  | glyph a b fb =>
    simp only [TCell.weight] at hn ⊢
    simp only [tcellLayout]
    split
    · obtain ⟨st', e, h'⟩ := sizedLayout_ok wraps ⟨a, b⟩ hW (n := n) (by omega) h
      exact ⟨st', e, h'.mono (by omega)⟩
    · obtain ⟨st', e, h'⟩ := chsLayout_ok wraps hW fb n st (by omega) h
      exact ⟨st', e, h'.mono (by omega)⟩

theorem tcellsLayout_ok {maxW : Nat} (ctx : Ctx) (wraps : Bool) (hW : maxW < U) :
    ∀ (cs : List TCell) (n : Nat) (st : TL), n + cellsWeight cs < U → TLInv maxW n st →
      ∃ st', tcellsLayout ctx maxW wraps cs st = .ok st'
  | [], _, st, _, _ => ⟨st, rfl⟩
  | c :: cs, n, st, hn, h => by
    simp only [cellsWeight] at hn
    obtain ⟨st1, e1, h1⟩ := tcellLayout_ok ctx wraps c hW (n := n) (by omega) h
    obtain ⟨st2, e2⟩ := tcellsLayout_ok ctx wraps hW cs (n + TCell.weight c) st1 (by omega) h1
    exact ⟨st2, by simp only [tcellsLayout, e1, e2]⟩

theorem TLInv_init (maxW : Nat) : TLInv maxW 0 TL.init := ⟨Nat.zero_le _, Nat.le_refl _⟩

/-! ## size of a view tree, shape of its layout tree -/

mutual
/-- number of views, text cells and fallback characters of a tree -/
def weight : V → Nat
  | .text cells _ => 1 + cellsWeight cells
  | .str chars => 1 + chars.length
  | .glyph _ _ fb => 1 + fb.length
  | .fixed _ _ _ => 1
  | .image _ _ => 1
  | .fill _ => 1
  | .scrollbar _ => 1
  | .optNone => 1
  | .flex _ _ cs => 1 + weightCs cs
  | .container _ _ _ _ _ c => 1 + weight c
  | .frame c => 1 + weight c
  | .tag c => 1 + weight c
  | .dyn _ a b => 1 + weight a + weight b
def weightCs : List Child → Nat
  | [] => 0
  | .mk _ _ _ v :: cs => weight v + weightCs cs
end

/-- first child of a layout node, where the single-child views look for their child's layout -/
def firstKid (t : LT) : Option LT := t.kids.head?

mutual
/-- the layout tree has the nodes `render` looks for: one child under container / frame / tag /
dynamic (with the data of the view that was built), children of a flex pairwise either empty
(skipped by `flex_render`) or shaped like their view -/
def Shaped (ctx : Ctx) : V → LT → Prop
  | .flex _ _ cs, t => ShapedKids ctx cs t.kids
  | .container _ _ _ _ _ c, t => ∃ k ks, t.kids = k :: ks ∧ Shaped ctx c k
  | .frame c, t =>
    (ctx.hasGlyphs = true ∧ ∃ k ks, t.kids = k :: ks ∧ Shaped ctx c k) ∨ (ctx.hasGlyphs = false ∧ Shaped ctx c t)
  | .tag c, t => ∃ k ks, t.kids = k :: ks ∧ Shaped ctx c k
  | .dyn _ a b, t =>
    (t.data = 1 ∧ ∃ k ks, t.kids = k :: ks ∧ Shaped ctx a k) ∨ (t.data = 2 ∧ ∃ k ks, t.kids = k :: ks ∧ Shaped ctx b k)
  | .text _ _, _ => True
  | .str _, _ => True
  | .glyph _ _ _, _ => True
  | .fixed _ _ _, _ => True
  | .image _ _, _ => True
  | .fill _, _ => True
  | .scrollbar _, _ => True
  | .optNone, _ => True
def ShapedKids (ctx : Ctx) : List Child → List LT → Prop
  | [], _ => True
  | _ :: _, [] => True
  | .mk _ _ _ v :: cs, t :: ts => (t.size.isEmpty = true ∨ Shaped ctx v t) ∧ ShapedKids ctx cs ts
end

@[simp] theorem setPos_kids (t : LT) (p : Pos) : (t.setPos p).kids = t.kids := by cases t; rfl
@[simp] theorem setPos_size (t : LT) (p : Pos) : (t.setPos p).size = t.size := by cases t; rfl
@[simp] theorem setPos_data (t : LT) (p : Pos) : (t.setPos p).data = t.data := by cases t; rfl
@[simp] theorem setPos_pos (t : LT) (p : Pos) : (t.setPos p).pos = p := by cases t; rfl

theorem Shaped_setPos (ctx : Ctx) : ∀ (v : V) (t : LT) (p : Pos), Shaped ctx v t → Shaped ctx v (t.setPos p)
  | .flex _ _ cs, t, p, h => by simpa [Shaped] using h
  | .container _ _ _ _ _ c, t, p, h => by simpa [Shaped] using h
  | .frame c, t, p, h => by
    simp only [Shaped] at h ⊢
    rcases h with ⟨hg, h⟩ | ⟨hg, h⟩
    · exact Or.inl ⟨hg, by simpa using h⟩
    · exact Or.inr ⟨hg, Shaped_setPos ctx c t p h⟩
  | .tag c, t, p, h => by simpa [Shaped] using h
  | .dyn _ a b, t, p, h => by simpa [Shaped] using h
  | .text _ _, _, _, _ => by simp [Shaped]
  | .str _, _, _, _ => by simp [Shaped]
  | .glyph _ _ _, _, _, _ => by simp [Shaped]
  | .fixed _ _ _, _, _, _ => by simp [Shaped]
  | .image _ _, _, _, _ => by simp [Shaped]
  | .fill _, _, _, _ => by simp [Shaped]
  | .scrollbar _, _, _, _ => by simp [Shaped]
  | .optNone, _, _, _ => by simp [Shaped]

/-- both extents of the maximum are machine values -/
def Machine (ct : Ct) : Prop := ct.max.h < U ∧ ct.max.w < U

/-- a view reports at most the maximum it was given, except for what nested frames and a scroll bar
add under a tiny maximum (at most two cells per frame) -/
def Bound (v : V) (ct : Ct) (t : LT) : Prop :=
  (t.size.h ≤ ct.max.h ∨ t.size.h ≤ 2 * weight v) ∧ (t.size.w ≤ ct.max.w ∨ t.size.w ≤ 2 * weight v)

/-! ## totality of layout -/


theorem divU_ok {a b : Nat} (h : b ≠ 0) : divU a b = .ok (a / b) := by unfold divU; simp [h]

theorem spaces_ok (j : Justify) (unused n : Nat) : ∃ p, spaces j unused n = .ok p := by
  unfold spaces
  split
  · cases j with
    | start => exact ⟨_, rfl⟩
    | center => exact ⟨_, rfl⟩
    | end_ => exact ⟨_, rfl⟩
    | spaceBetween =>
      simp only
      split
      · exact ⟨_, rfl⟩
      · rw [divU_ok (by omega)]; exact ⟨_, rfl⟩
    | spaceEvenly => simp only; rw [divU_ok (by omega)]; exact ⟨_, rfl⟩
    | spaceAround =>
      simp only
      have : Nat.max n 1 ≠ 0 := by have := natMax_ge_right n 1; omega
      rw [divU_ok this]; exact ⟨_, rfl⟩
  · exact ⟨_, rfl⟩

theorem place_ok (ctx : Ctx) (dir : Axis) (minor between : Nat) :
    ∀ (cs : List Child) (ts : List LT) (off : Nat), ts.length = cs.length → ShapedKids ctx cs ts →
      ∃ ts' o, place dir minor between cs ts off = .ok (ts', o) ∧ ShapedKids ctx cs ts'
  | [], ts, off, _, _ => ⟨[], off, by simp [place], by simp [ShapedKids]⟩
  | c :: cs, [], off, hl, _ => by simp at hl
  | .mk f al fc v :: cs, t :: ts, off, hl, hk => by
    simp only [List.length_cons, Nat.add_right_cancel_iff] at hl
    simp only [ShapedKids] at hk
    obtain ⟨ts', o, e, hk'⟩ := place_ok ctx dir minor between cs ts (satAdd (satAdd off (dir.majorS t.size)) between) hl hk.2
    refine ⟨t.setPos (dir.posFrom off (al.align (dir.minorS t.size) minor)) :: ts', o, by simp only [place, e], ?_⟩
    simp only [ShapedKids, setPos_size]
    exact ⟨hk.1.imp id (Shaped_setPos ctx v t _), hk'⟩
theorem childMajorMax_le (remain : Nat) (f total : F64) : childMajorMax remain f total ≤ remain := by
  unfold childMajorMax
  exact natMin_le_right _ _

theorem Bound_of_le {v : V} {ct : Ct} {t : LT} (h1 : t.size.h ≤ ct.max.h) (h2 : t.size.w ≤ ct.max.w) : Bound v ct t :=
  ⟨Or.inl h1, Or.inl h2⟩

theorem leaf_size (s : Size) : (LT.leaf s).size = s := rfl

theorem clampLeaf_bound {v : V} {ct : Ct} (hv : Valid ct) (s : Size) :
    Bound v ct (LT.leaf ⟨clampN s.h ct.min.h ct.max.h, clampN s.w ct.min.w ct.max.w⟩) :=
  Bound_of_le (clampN_le_max _ _ _ hv.1) (clampN_le_max _ _ _ hv.2)

theorem valid_constraint {dir : Axis} {ctl : Ct} (hv : Valid ctl) (m : Nat) : Valid (dir.constraint ctl 0 m) := by
  cases dir <;> simp only [Axis.constraint, Valid] <;> exact ⟨by first | exact hv.1 | omega, by first | exact hv.2 | omega⟩

theorem machine_constraint {dir : Axis} {ctl : Ct} (hm : Machine ctl) {m : Nat} (h : m ≤ dir.majorS ctl.max) :
    Machine (dir.constraint ctl 0 m) := by
  cases dir <;> simp only [Axis.constraint, Machine, Axis.majorS] at * <;> omega

@[simp] theorem node_size (p s d k) : (LT.node p s d k).size = s := rfl
@[simp] theorem node_kids (p s d k) : (LT.node p s d k).kids = k := rfl
@[simp] theorem node_data (p s d k) : (LT.node p s d k).data = d := rfl
@[simp] theorem node_pos (p s d k) : (LT.node p s d k).pos = p := rfl

theorem dimOk (sz lo hi : Nat) (h : lo ≤ hi) :
    ∃ c, (if sz = 0 then Except.ok hi else clampU sz lo hi) = (Except.ok c : Except Panic Nat) ∧ lo ≤ c ∧ c ≤ hi := by
  split
  · exact ⟨hi, rfl, h, Nat.le_refl _⟩
  · exact ⟨_, clampU_ok h, (clampN_bounds h).1, (clampN_bounds h).2⟩

theorem shrinkOk (b : Prop) [Decidable b] (x lo hi c : Nat) (h : lo ≤ hi) (hc : c ≤ hi) :
    ∃ c', (if b then clampU x lo hi else Except.ok c) = (Except.ok c' : Except Panic Nat) ∧ c' ≤ hi := by
  split
  · exact ⟨_, clampU_ok h, (clampN_bounds h).2⟩
  · exact ⟨c, rfl, hc⟩

mutual
theorem layout_total (ctx : Ctx) : ∀ (v : V) (ct : Ct), Valid ct → Machine ct → 2 * weight v + 2 < U →
    ∃ t, v.layout ctx ct = .ok t ∧ Shaped ctx v t ∧ Bound v ct t
  | .text cells wraps, ct, hv, hm, hw => by
    simp only [weight] at hw
    obtain ⟨st, e⟩ := tcellsLayout_ok ctx wraps hm.2 cells 0 TL.init (by omega) (TLInv_init _)
    exact ⟨_, by simp only [V.layout, e, ctClamp_ok hv] <;> rfl, by simp [Shaped], clampLeaf_bound hv st.size⟩
  | .str chars, ct, hv, hm, hw => by
    simp only [weight] at hw
    obtain ⟨st, e, _⟩ := chsLayout_ok true hm.2 chars 0 TL.init (by omega) (TLInv_init _)
    exact ⟨_, by simp only [V.layout, e, ctClamp_ok hv] <;> rfl, by simp [Shaped], clampLeaf_bound hv st.size⟩
  | .glyph h w fb, ct, hv, hm, hw => by
    simp only [weight] at hw
    by_cases hg : ctx.hasGlyphs = true
    · exact ⟨_, by simp only [V.layout, hg, if_true, ctClamp_ok hv] <;> rfl, by simp [Shaped], clampLeaf_bound hv ⟨h, w⟩⟩
    · obtain ⟨st, e, _⟩ := chsLayout_ok true hm.2 fb 0 TL.init (by omega) (TLInv_init _)
      exact ⟨_, by simp only [V.layout, hg, e, ctClamp_ok hv] <;> rfl, by simp [Shaped], clampLeaf_bound hv _⟩
  | .fixed _ h w, ct, hv, _, _ =>
    ⟨_, by simp only [V.layout, ctClamp_ok hv] <;> rfl, by simp [Shaped], clampLeaf_bound hv ⟨h, w⟩⟩
  | .image ph pw, ct, hv, _, _ =>
    ⟨_, by simp only [V.layout, ctClamp_ok hv] <;> rfl, by simp [Shaped], clampLeaf_bound hv (sizeCells ctx.ppc ph pw)⟩
  | .fill _, ct, _, _, _ =>
    ⟨_, by simp only [V.layout] <;> rfl, by simp [Shaped], Bound_of_le (Nat.le_refl _) (Nat.le_refl _)⟩
  | .scrollbar dir, ct, _, _, _ => by
    refine ⟨_, by simp only [V.layout] <;> rfl, by simp [Shaped], ?_⟩
    cases dir <;> simp only [Bound, LT.size, Axis.sizeFrom, Axis.majorS, weight] <;> omega
  | .optNone, ct, _, _, _ =>
    ⟨_, by simp only [V.layout] <;> rfl, by simp [Shaped], Bound_of_le (Nat.zero_le _) (Nat.zero_le _)⟩
  | .flex dir j cs, ct, hv, hm, hw => by
    simp only [weight] at hw
    have hvl : Valid ct.loosen := ⟨Nat.zero_le _, Nat.zero_le _⟩
    have hml : Machine ct.loosen := hm
    obtain ⟨ts1, a1, e1, hl1, hk1⟩ := phase1_total ctx dir ct.loosen hvl hml cs ⟨0, dir.minorS ct.min, F64.zero⟩ (by omega)
    have h2 : ∃ ts2 a2, (if dir.majorS ct.max - a1.nonFlex > 0 ∧ a1.total.gt0 = true then
          phase2 ctx dir ct.loosen cs ts1 ⟨dir.majorS ct.max - a1.nonFlex, a1.total, 0, a1.minor⟩
        else Except.ok (ts1, ⟨dir.majorS ct.max - a1.nonFlex, a1.total, 0, a1.minor⟩)) = .ok (ts2, a2)
        ∧ ts2.length = cs.length ∧ ShapedKids ctx cs ts2 := by
      split
      · exact phase2_total ctx dir ct.loosen hvl hml cs ts1 _ hl1 hk1 (by show _ - _ ≤ dir.majorS ct.max; omega) (by omega)
      · exact ⟨_, _, rfl, hl1, hk1⟩
    obtain ⟨ts2, a2, e2, hl2, hk2⟩ := h2
    obtain ⟨⟨side, between⟩, e3⟩ := spaces_ok j (dir.majorS ct.max - satAdd a1.nonFlex a2.flexed) cs.length
    obtain ⟨ts3, off, e4, hk3⟩ := place_ok ctx dir a2.minor between cs ts2 side hl2 hk2
    refine ⟨_, by simp only [V.layout, e1, e2, e3, e4, ctClamp_ok hv] <;> rfl, by simpa [Shaped, LT.kids] using hk3, ?_⟩
    exact Bound_of_le (clampN_le_max _ _ _ hv.1) (clampN_le_max _ _ _ hv.2)
  | .container size av ah m face child, ct, hv, hm, hw => by
    simp only [weight] at hw
    obtain ⟨ch, eh, _, hch⟩ := dimOk size.h ct.min.h ct.max.h hv.1
    obtain ⟨cw, ew, _, hcw⟩ := dimOk size.w ct.min.w ct.max.w hv.2
    have hvc : Valid ⟨⟨if av = .expand then ch - m.top - m.bottom else 0, if ah = .expand then cw - m.left - m.right else 0⟩,
        ⟨ch - m.top - m.bottom, cw - m.left - m.right⟩⟩ := by
      constructor <;> (simp only; split <;> omega)
    have hmc : Machine ⟨⟨if av = .expand then ch - m.top - m.bottom else 0, if ah = .expand then cw - m.left - m.right else 0⟩,
        ⟨ch - m.top - m.bottom, cw - m.left - m.right⟩⟩ := by
      have := hm.1; have := hm.2
      constructor <;> (simp only; omega)
    obtain ⟨t, e, hs, _⟩ := layout_total ctx child _ hvc hmc (by omega)
    obtain ⟨h2, eh2, hh2⟩ := shrinkOk (av = .shrink) (satAdd (satAdd t.size.h m.top) m.bottom) ct.min.h ct.max.h ch hv.1 hch
    obtain ⟨w2, ew2, hw2⟩ := shrinkOk (ah = .shrink) (satAdd (satAdd t.size.w m.left) m.right) ct.min.w ct.max.w cw hv.2 hcw
    refine ⟨_, by simp only [V.layout, eh, ew, e, eh2, ew2] <;> rfl, ?_, ?_⟩
    · simp only [Shaped, LT.kids]
      exact ⟨_, [], rfl, Shaped_setPos ctx child t _ hs⟩
    · exact Bound_of_le hh2 hw2
  | .frame child, ct, hv, hm, hw => by
    simp only [weight] at hw
    by_cases hg : ctx.hasGlyphs = true
    · have hvc : Valid ⟨⟨ct.min.h - 2, ct.min.w - 2⟩, ⟨ct.max.h - 2, ct.max.w - 2⟩⟩ := by
        have := hv.1; have := hv.2
        constructor <;> (simp only; omega)
      have hmc : Machine ⟨⟨ct.min.h - 2, ct.min.w - 2⟩, ⟨ct.max.h - 2, ct.max.w - 2⟩⟩ := by
        have := hm.1; have := hm.2
        constructor <;> (simp only; omega)
      obtain ⟨t, e, hs, hb⟩ := layout_total ctx child _ hvc hmc (by omega)
      have := hm.1; have := hm.2
      simp only [Bound] at hb
      have e1 : addU t.size.h 2 = .ok (t.size.h + 2) := addU_ok (by omega)
      have e2 : addU t.size.w 2 = .ok (t.size.w + 2) := addU_ok (by omega)
      refine ⟨_, by simp only [V.layout, hg, Bool.not_true, Bool.false_eq_true, if_false, e, e1, e2] <;> rfl, ?_, ?_⟩
      · simp only [Shaped, LT.kids]
        exact Or.inl ⟨hg, _, [], rfl, Shaped_setPos ctx child t _ hs⟩
      · simp only [Bound, node_size, weight]
        omega
    · have hg' : ctx.hasGlyphs = false := by simpa using hg
      obtain ⟨t, e, hs, hb⟩ := layout_total ctx child ct hv hm (by omega)
      refine ⟨t, by simp only [V.layout, hg', Bool.not_false, if_true, e], ?_, ?_⟩
      · simp only [Shaped]
        exact Or.inr ⟨hg', hs⟩
      · simp only [Bound, weight] at hb ⊢
        omega
  | .tag child, ct, hv, hm, hw => by
    simp only [weight] at hw
    obtain ⟨t, e, hs, hb⟩ := layout_total ctx child ct hv hm (by omega)
    refine ⟨_, by simp only [V.layout, e] <;> rfl, by simp only [Shaped, LT.kids]; exact ⟨t, [], rfl, hs⟩, ?_⟩
    simp only [Bound, LT.size, weight] at hb ⊢
    omega
  | .dyn thr a b, ct, hv, hm, hw => by
    simp only [weight] at hw
    by_cases hc : ct.max.w > thr
    · obtain ⟨t, e, hs, hb⟩ := layout_total ctx a ct hv hm (by omega)
      refine ⟨_, by simp only [V.layout, hc, if_true, e] <;> rfl, by simp only [Shaped, LT.kids, LT.data]; exact Or.inl ⟨trivial, t, [], rfl, hs⟩, ?_⟩
      simp only [Bound, LT.size, weight] at hb ⊢
      omega
    · obtain ⟨t, e, hs, hb⟩ := layout_total ctx b ct hv hm (by omega)
      refine ⟨_, by simp only [V.layout, hc, if_false, e] <;> rfl, by simp only [Shaped, LT.kids, LT.data]; exact Or.inr ⟨trivial, t, [], rfl, hs⟩, ?_⟩
      simp only [Bound, LT.size, weight] at hb ⊢
      omega
theorem phase1_total (ctx : Ctx) (dir : Axis) (ctl : Ct) (hv : Valid ctl) (hm : Machine ctl) :
    ∀ (cs : List Child) (a : P1), 2 * weightCs cs + 2 < U →
      ∃ ts a', phase1 ctx dir ctl cs a = .ok (ts, a') ∧ ts.length = cs.length ∧ ShapedKids ctx cs ts
  | [], a, _ => ⟨[], a, by simp only [phase1], rfl, by simp [ShapedKids]⟩
  | .mk none al fc v :: cs, a, hw => by
    simp only [weightCs] at hw
    obtain ⟨t, e, hs, _⟩ := layout_total ctx v ctl hv hm (by omega)
    obtain ⟨ts, a', e', hl, hk⟩ := phase1_total ctx dir ctl hv hm cs
      ⟨satAdd a.nonFlex (dir.majorS t.size), Nat.max a.minor (dir.minorS t.size), a.total⟩ (by omega)
    exact ⟨t :: ts, a', by simp only [phase1, e, e'], by simp [hl], by simp only [ShapedKids]; exact ⟨Or.inr hs, hk⟩⟩
  | .mk (some f) al fc v :: cs, a, hw => by
    simp only [weightCs] at hw
    obtain ⟨ts, a', e', hl, hk⟩ := phase1_total ctx dir ctl hv hm cs ⟨a.nonFlex, a.minor, a.total.add f⟩ (by omega)
    exact ⟨LT.default :: ts, a', by simp only [phase1, e'], by simp [hl], by simp only [ShapedKids]; exact ⟨Or.inl rfl, hk⟩⟩
theorem phase2_total (ctx : Ctx) (dir : Axis) (ctl : Ct) (hv : Valid ctl) (hm : Machine ctl) :
    ∀ (cs : List Child) (ts : List LT) (a : P2), ts.length = cs.length → ShapedKids ctx cs ts →
      a.remain ≤ dir.majorS ctl.max → 2 * weightCs cs + 2 < U →
      ∃ ts' a', phase2 ctx dir ctl cs ts a = .ok (ts', a') ∧ ts'.length = cs.length ∧ ShapedKids ctx cs ts'
  | [], ts, a, _, _, _, _ => ⟨[], a, by simp only [phase2], rfl, by simp [ShapedKids]⟩
  | c :: cs, [], a, hl, _, _, _ => by simp at hl
  | .mk none al fc v :: cs, t :: ts, a, hl, hk, hr, hw => by
    simp only [weightCs] at hw
    simp only [List.length_cons, Nat.add_right_cancel_iff] at hl
    simp only [ShapedKids] at hk
    obtain ⟨ts', a', e', hl', hk'⟩ := phase2_total ctx dir ctl hv hm cs ts a hl hk.2 hr (by omega)
    exact ⟨t :: ts', a', by simp only [phase2, e'], by simp [hl'], by simp only [ShapedKids]; exact ⟨hk.1, hk'⟩⟩
  | .mk (some f) al fc v :: cs, t :: ts, a, hl, hk, hr, hw => by
    simp only [weightCs] at hw
    simp only [List.length_cons, Nat.add_right_cancel_iff] at hl
    simp only [ShapedKids] at hk
    by_cases hc : childMajorMax a.remain f a.total ≠ 0
    · have hle := childMajorMax_le a.remain f a.total
      obtain ⟨t', e, hs, _⟩ := layout_total ctx v (dir.constraint ctl 0 (childMajorMax a.remain f a.total))
        (valid_constraint hv _) (machine_constraint hm (by omega)) (by omega)
      obtain ⟨ts', a', e', hl', hk'⟩ := phase2_total ctx dir ctl hv hm cs ts
        ⟨a.remain - dir.majorS t'.size, a.total.sub f, satAdd a.flexed (dir.majorS t'.size), Nat.max a.minor (dir.minorS t'.size)⟩
        hl hk.2 (by show _ - _ ≤ _; omega) (by omega)
      exact ⟨t' :: ts', a', by simp only [phase2, if_pos hc, e, e'], by simp [hl'], by simp only [ShapedKids]; exact ⟨Or.inr hs, hk'⟩⟩
    · obtain ⟨ts', a', e', hl', hk'⟩ := phase2_total ctx dir ctl hv hm cs ts
        ⟨a.remain, a.total.sub f, a.flexed, a.minor⟩ hl hk.2 hr (by omega)
      exact ⟨t :: ts', a', by simp only [phase2, if_neg hc, e'], by simp [hl'], by simp only [ShapedKids]; exact ⟨hk.1, hk'⟩⟩
end

/-! ## rendering: totality on shaped trees -/

mutual
theorem render_ok (ctx : Ctx) : ∀ (v : V) (t : LT), Shaped ctx v t → ∀ s, ∃ ps, v.render ctx s t = .ok ps
  | .text _ _, t, _, s => ⟨_, by simp only [V.render] <;> rfl⟩
  | .str _, t, _, s => ⟨_, by simp only [V.render] <;> rfl⟩
  | .glyph _ _ _, t, _, s => ⟨_, by simp only [V.render] <;> rfl⟩
  | .fixed _ _ _, t, _, s => ⟨_, by simp only [V.render] <;> rfl⟩
  | .image _ _, t, _, s => ⟨_, by simp only [V.render] <;> rfl⟩
  | .fill b, t, _, s => by simp only [V.render]; split <;> exact ⟨_, rfl⟩
  | .scrollbar d, t, _, s => by simp only [V.render]; split <;> exact ⟨_, rfl⟩
  | .optNone, t, _, s => ⟨_, by simp only [V.render] <;> rfl⟩
  | .flex dir _ cs, t, h, s => by
    simp only [Shaped] at h
    simp only [V.render]
    exact renderKids_ok ctx dir cs t.kids h (applyTo t s)
  | .container _ _ _ _ face c, t, h, s => by
    simp only [Shaped] at h
    obtain ⟨k, ks, ek, hk⟩ := h
    obtain ⟨ps, e⟩ := render_ok ctx c k hk (applyTo t s)
    exact ⟨_, by simp only [V.render, ek, e] <;> rfl⟩
  | .frame c, t, h, s => by
    simp only [Shaped] at h
    rcases h with ⟨hg, k, ks, ek, hk⟩ | ⟨hg, hk⟩
    · obtain ⟨ps, e⟩ := render_ok ctx c k hk (applyTo t s)
      exact ⟨_, by simp only [V.render, hg, Bool.not_true, Bool.false_eq_true, if_false, ek, e] <;> rfl⟩
    · obtain ⟨ps, e⟩ := render_ok ctx c t hk s
      exact ⟨ps, by simp only [V.render, hg, Bool.not_false, if_true, e]⟩
  | .tag c, t, h, s => by
    simp only [Shaped] at h
    obtain ⟨k, ks, ek, hk⟩ := h
    obtain ⟨ps, e⟩ := render_ok ctx c k hk (applyTo t s)
    exact ⟨ps, by simp only [V.render, ek, e]⟩
  | .dyn _ a b, t, h, s => by
    simp only [Shaped] at h
    rcases h with ⟨hd, k, ks, ek, hk⟩ | ⟨hd, k, ks, ek, hk⟩
    · obtain ⟨ps, e⟩ := render_ok ctx a k hk (applyTo t s)
      exact ⟨ps, by simp only [V.render, hd, if_true, ek, e]⟩
    · obtain ⟨ps, e⟩ := render_ok ctx b k hk (applyTo t s)
      exact ⟨ps, by simp [V.render, hd, ek, e]⟩
theorem renderKids_ok (ctx : Ctx) (dir : Axis) : ∀ (cs : List Child) (ts : List LT), ShapedKids ctx cs ts →
    ∀ s, ∃ ps, renderKids ctx dir s cs ts = .ok ps
  | [], ts, _, s => ⟨_, by simp only [renderKids] <;> rfl⟩
  | _ :: _, [], _, s => ⟨_, by simp only [renderKids] <;> rfl⟩
  | .mk _ _ face v :: cs, t :: ts, h, s => by
    simp only [ShapedKids] at h
    obtain ⟨ps2, e2⟩ := renderKids_ok ctx dir cs ts h.2 s
    by_cases he : t.size.isEmpty = true
    · exact ⟨ps2, by simp only [renderKids, he, if_true, e2]⟩
    · have hs : Shaped ctx v t := h.1.resolve_left he
      obtain ⟨ps1, e1⟩ := render_ok ctx v t hs s
      exact ⟨_, by simp only [renderKids, he, e1, e2]; rfl⟩
end

/-! ## rendering: containment -/


/-- `o` is an in-window offset of the surface `s` -/
def InWin (s : Shape) (o : Nat) : Prop := ∃ r c, r < s.height ∧ c < s.width ∧ o = s.offset r c
/-- every in-window offset of `a` is an in-window offset of `b` -/
def Sub (a b : Shape) : Prop := ∀ o, InWin a o → InWin b o

theorem Sub.refl (a : Shape) : Sub a a := fun _ h => h
theorem Sub.trans {a b c : Shape} (h1 : Sub a b) (h2 : Sub b c) : Sub a c := fun o h => h2 o (h1 o h)

theorem view_cases (s : Shape) (rows cols : Slice.Sel) :
    (∃ c0 c1 r0 r1, Slice.viewBounds cols s.width = some (c0, c1) ∧ Slice.viewBounds rows s.height = some (r0, r1) ∧
      s.view rows cols = { s with width := c1 - c0, height := r1 - r0, start := s.offset r0 c0, end_ := s.offset (r1 - 1) c1 })
    ∨ s.view rows cols = Shape.zero := by
  unfold Shape.view
  cases h1 : Slice.viewBounds cols s.width with
  | none => exact Or.inr rfl
  | some p1 =>
    cases h2 : Slice.viewBounds rows s.height with
    | none => exact Or.inr rfl
    | some p2 => exact Or.inl ⟨p1.1, p1.2, p2.1, p2.2, rfl, rfl, rfl⟩

theorem view_sub (s : Shape) (rows cols : Slice.Sel) : Sub (s.view rows cols) s := by
  intro o ⟨r, c, hr, hc, ho⟩
  rcases view_cases s rows cols with ⟨c0, c1, r0, r1, ec, er, ev⟩ | ev
  · rw [ev] at hr hc ho
    have hcb := SurfProofs.C08.C08_range cols s.width c0 c1 ec
    have hrb := SurfProofs.C08.C08_range rows s.height r0 r1 er
    simp only at hr hc
    refine ⟨r0 + r, c0 + c, by omega, by omega, ?_⟩
    rw [ho]
    simp only [Shape.offset, Nat.add_mul]
    omega
  · rw [ev] at hr
    simp [Shape.zero] at hr

theorem applyTo_sub (t : LT) (s : Shape) : Sub (applyTo t s) s := view_sub _ _ _
theorem majorStrip_sub (dir : Axis) (s : Shape) (t : LT) : Sub (majorStrip dir s t) s := by
  cases dir <;> exact view_sub _ _ _

mutual
theorem render_sub (ctx : Ctx) : ∀ (v : V) (s : Shape) (t : LT) (ps : List Paint),
    v.render ctx s t = .ok ps → ∀ p ∈ ps, Sub p.shape s
  | .text _ _, s, t, ps, h => by
    simp only [V.render] at h; injection h with h; subst h
    intro p hp; simp at hp; subst hp; exact applyTo_sub t s
  | .str _, s, t, ps, h => by
    simp only [V.render] at h; injection h with h; subst h
    intro p hp; simp at hp; subst hp; exact applyTo_sub t s
  | .glyph _ _ _, s, t, ps, h => by
    simp only [V.render] at h; injection h with h; subst h
    intro p hp; simp at hp; subst hp; exact applyTo_sub t s
  | .fixed _ _ _, s, t, ps, h => by
    simp only [V.render] at h; injection h with h; subst h
    intro p hp; simp at hp; subst hp; exact applyTo_sub t s
  | .image _ _, s, t, ps, h => by
    simp only [V.render] at h; injection h with h; subst h
    intro p hp; simp at hp; subst hp; exact applyTo_sub t s
  | .fill b, s, t, ps, h => by
    simp only [V.render] at h
    split at h <;> (injection h with h; subst h; intro p hp; simp at hp)
    subst hp; exact applyTo_sub t s
  | .scrollbar dir, s, t, ps, h => by
    simp only [V.render] at h
    split at h <;> (injection h with h; subst h; intro p hp; simp at hp)
    subst hp; exact applyTo_sub t s
  | .optNone, s, t, ps, h => by
    simp only [V.render] at h; injection h with h; subst h
    intro p hp; simp at hp
  | .flex dir _ cs, s, t, ps, h => by
    simp only [V.render] at h
    intro p hp
    exact (renderKids_sub ctx dir cs (applyTo t s) t.kids ps h p hp).trans (applyTo_sub t s)
  | .container _ _ _ _ face c, s, t, ps, h => by
    simp only [V.render] at h
    split at h
    · cases h
    · split at h
      · cases h
      · injection h with h; subst h
        intro p hp
        split at hp
        · simp only [List.mem_cons] at hp
          rcases hp with rfl | hp
          · exact applyTo_sub t s
          · exact (render_sub ctx c _ _ _ (by assumption) p hp).trans (applyTo_sub t s)
        · exact (render_sub ctx c _ _ _ (by assumption) p hp).trans (applyTo_sub t s)
  | .frame c, s, t, ps, h => by
    simp only [V.render] at h
    split at h
    · exact render_sub ctx c s t ps h
    · split at h
      · cases h
      · split at h
        · cases h
        · injection h with h; subst h
          intro p hp
          simp only [List.mem_cons] at hp
          rcases hp with rfl | hp
          · exact applyTo_sub t s
          · exact (render_sub ctx c _ _ _ (by assumption) p hp).trans (applyTo_sub t s)
  | .tag c, s, t, ps, h => by
    simp only [V.render] at h
    split at h
    · cases h
    · intro p hp
      exact (render_sub ctx c _ _ ps h p hp).trans (applyTo_sub t s)
  | .dyn _ a b, s, t, ps, h => by
    simp only [V.render] at h
    split at h
    · split at h
      · cases h
      · intro p hp
        exact (render_sub ctx a _ _ ps h p hp).trans (applyTo_sub t s)
    · split at h
      · split at h
        · cases h
        · intro p hp
          exact (render_sub ctx b _ _ ps h p hp).trans (applyTo_sub t s)
      · cases h
theorem renderKids_sub (ctx : Ctx) (dir : Axis) : ∀ (cs : List Child) (s : Shape) (ts : List LT) (ps : List Paint),
    renderKids ctx dir s cs ts = .ok ps → ∀ p ∈ ps, Sub p.shape s
  | [], s, ts, ps, h => by
    simp only [renderKids] at h; injection h with h; subst h
    intro p hp; simp at hp
  | _ :: _, s, [], ps, h => by
    simp only [renderKids] at h; injection h with h; subst h
    intro p hp; simp at hp
  | .mk _ _ face v :: cs, s, t :: ts, ps, h => by
    simp only [renderKids] at h
    split at h
    · exact renderKids_sub ctx dir cs s ts ps h
    · split at h
      · cases h
      · split at h
        · cases h
        · injection h with h; subst h
          intro p hp
          simp only [List.mem_append] at hp
          rcases hp with (hp | hp) | hp
          · split at hp
            · simp at hp; subst hp; exact majorStrip_sub dir s t
            · simp at hp
          · exact render_sub ctx v s t _ (by assumption) p hp
          · exact renderKids_sub ctx dir cs s ts _ (by assumption) p hp
end

/-! ## reported size within the constraint -/

def ReportsB : V → Bool
  | .text _ _ => true | .str _ => true | .glyph _ _ _ => true | .fixed _ _ _ => true | .image _ _ => true
  | .fill _ => true | .flex _ _ _ => true | .container _ _ _ _ _ _ => true
  | .scrollbar _ => false | .optNone => false | .frame _ => false | .tag _ => false | .dyn _ _ _ => false

theorem within_leaf {ct : Ct} {s r : Size} {t : LT} (e : ct.clamp s = .ok r) (ht : t = LT.leaf r) :
    ct.min.h ≤ t.size.h ∧ t.size.h ≤ ct.max.h ∧ ct.min.w ≤ t.size.w ∧ t.size.w ≤ ct.max.w := by
  subst ht; exact (ctClamp_inv e).2

theorem dim_inv {sz lo hi c : Nat} (hlh : lo ≤ hi)
    (h : (if sz = 0 then Except.ok hi else clampU sz lo hi) = (Except.ok c : Except Panic Nat)) : lo ≤ c ∧ c ≤ hi := by
  split at h
  · injection h with h; omega
  · have := clampU_inv h; have := clampN_bounds (v := sz) hlh; omega

theorem shrink_inv {b : Prop} [Decidable b] {x lo hi c c' : Nat} (hlh : lo ≤ hi) (hc : lo ≤ c ∧ c ≤ hi)
    (h : (if b then clampU x lo hi else Except.ok c) = (Except.ok c' : Except Panic Nat)) : lo ≤ c' ∧ c' ≤ hi := by
  split at h
  · have := clampU_inv h; have := clampN_bounds (v := x) hlh; omega
  · injection h with h; omega

theorem layout_within (ctx : Ctx) (v : V) (ct : Ct) (t : LT) (hr : ReportsB v = true) (hv : Valid ct)
    (h : v.layout ctx ct = .ok t) :
    ct.min.h ≤ t.size.h ∧ t.size.h ≤ ct.max.h ∧ ct.min.w ≤ t.size.w ∧ t.size.w ≤ ct.max.w := by
  cases v with
  | text cells wraps =>
    rw [V.layout] at h
    split at h; · cases h
    split at h; · cases h
    injection h with h; exact within_leaf (by assumption) h.symm
  | str chars =>
    rw [V.layout] at h
    split at h; · cases h
    split at h; · cases h
    injection h with h; exact within_leaf (by assumption) h.symm
  | glyph gh gw fb =>
    rw [V.layout] at h
    split at h
    · split at h; · cases h
      injection h with h; exact within_leaf (by assumption) h.symm
    · split at h; · cases h
      split at h; · cases h
      injection h with h; exact within_leaf (by assumption) h.symm
  | fixed id fh fw =>
    rw [V.layout] at h
    split at h; · cases h
    injection h with h; exact within_leaf (by assumption) h.symm
  | image ph pw =>
    rw [V.layout] at h
    split at h; · cases h
    injection h with h; exact within_leaf (by assumption) h.symm
  | fill p =>
    rw [V.layout] at h
    injection h with h; subst h
    exact ⟨hv.1, Nat.le_refl _, hv.2, Nat.le_refl _⟩
  | flex dir j cs =>
    rw [V.layout] at h
    simp only at h
    split at h; · cases h
    split at h; · cases h
    split at h; · cases h
    split at h; · cases h
    split at h; · cases h
    injection h with h; subst h
    exact (ctClamp_inv (by assumption)).2
  | container size av ah m face c =>
    rw [V.layout] at h
    simp only at h
    split at h; · cases h
    split at h; · cases h
    split at h; · cases h
    split at h; · cases h
    split at h; · cases h
    rename_i _ ch eh _ cw ew _ tc etc _ h2 eh2 _ w2 ew2
    injection h with h; subst h
    have a := dim_inv hv.1 eh
    have b := dim_inv hv.2 ew
    have a2 := shrink_inv hv.1 a eh2
    have b2 := shrink_inv hv.2 b ew2
    simp only [node_size]
    omega
  | scrollbar _ => simp [ReportsB] at hr
  | optNone => simp [ReportsB] at hr
  | frame _ => simp [ReportsB] at hr
  | tag _ => simp [ReportsB] at hr
  | dyn _ _ _ => simp [ReportsB] at hr

/-! ## `apply_to` is clipping; paints are recorded rectangles; hit testing -/



theorem range_bounds (a b n : Nat) :
    Slice.viewBounds (.range a b) n = if Nat.min a n < Nat.min b n then some (Nat.min a n, Nat.min b n) else none := by
  rw [SurfProofs.C08.C08_slice]
  simp only [Slice.pySlice, Slice.pySel, Slice.pyIdx]
  have ha : ¬ ((a : Int) < 0) := by omega
  have hb : ¬ ((b : Int) < 0) := by omega
  simp only [ha, hb, if_false]
  have e1 : min (a : Int) (n : Int) = ((Nat.min a n : Nat) : Int) := by
    show _ = ((if a ≤ n then a else n : Nat) : Int)
    split <;> omega
  have e2 : min (b : Int) (n : Int) = ((Nat.min b n : Nat) : Int) := by
    show _ = ((if b ≤ n then b else n : Nat) : Int)
    split <;> omega
  rw [e1, e2]
  by_cases h : Nat.min a n < Nat.min b n
  · have : ((Nat.min a n : Nat) : Int) < ((Nat.min b n : Nat) : Int) := by omega
    simp [h, this]
  · have : ¬ ((Nat.min a n : Nat) : Int) < ((Nat.min b n : Nat) : Int) := by omega
    simp [h, this]

theorem full_bounds (n : Nat) : Slice.viewBounds .full n = if 0 < n then some (0, n) else none := by
  rw [SurfProofs.C08.C08_slice]
  simp only [Slice.pySlice, Slice.pySel]
  by_cases h : 0 < n
  · have : (0 : Int) < (n : Int) := by omega
    simp [h, this]
  · have : ¬ (0 : Int) < (n : Int) := by omega
    simp [h, this]

/-- a non-empty rectangle of cells `[r0, r1) × [c0, c1)` in the coordinates of a root surface -/
structure Rect where
  r0 : Nat
  c0 : Nat
  r1 : Nat
  c1 : Nat
  deriving Repr, DecidableEq

def Rect.Inside (w : Rect) (root : Shape) : Prop :=
  w.r0 < w.r1 ∧ w.c0 < w.c1 ∧ w.r1 ≤ root.height ∧ w.c1 ≤ root.width

/-- the rectangle `[pos, pos + size)`, taken relative to the origin of `W`, cut to `W`; `none` = nothing left -/
def clip (W : Option Rect) (pos : Pos) (size : Size) : Option Rect :=
  match W with
  | none => none
  | some w =>
    let r0 := w.r0 + pos.row
    let c0 := w.c0 + pos.col
    let r1 := min (r0 + size.h) w.r1
    let c1 := min (c0 + size.w) w.c1
    if r0 < r1 ∧ c0 < c1 then some ⟨r0, c0, r1, c1⟩ else none

/-- the sub-surface of `root` that covers exactly the rectangle (the all-zero shape for `none`) -/
def winShape (root : Shape) : Option Rect → Shape
  | none => Shape.zero
  | some w => { root with start := root.offset w.r0 w.c0, end_ := root.offset (w.r1 - 1) w.c1,
                          width := w.c1 - w.c0, height := w.r1 - w.r0 }

theorem natMin_eq (a b : Nat) : Nat.min a b = min a b := rfl

theorem min_satAdd (a h H : Nat) (hH : H < U) : min (satAdd a h) H = min (a + h) H := by
  unfold satAdd; split <;> omega

theorem clip_inside {root : Shape} {W : Option Rect} (hW : ∀ w, W = some w → w.Inside root) (pos : Pos) (size : Size) :
    ∀ w, clip W pos size = some w → w.Inside root := by
  intro w' h
  cases W with
  | none => simp [clip] at h
  | some w =>
    have hi := hW w rfl
    simp only [clip] at h
    split at h
    · injection h with h; subst h
      simp only [Rect.Inside] at hi ⊢
      omega
    · cases h

theorem view_zero (rows cols : Slice.Sel) : Shape.zero.view rows cols = Shape.zero := by
  unfold Shape.view
  have : Slice.viewBounds cols Shape.zero.width = none := by
    show Slice.viewBounds cols 0 = none
    rw [SurfProofs.C08.C08_slice]
    cases h : Slice.pySlice cols 0 with
    | none => rfl
    | some p =>
      have := SurfProofs.C08.C08_range cols 0 p.1 p.2 (by rw [SurfProofs.C08.C08_slice]; exact h)
      omega
  rw [this]

/-- **`Layout::apply_to` is clipping.**  On the sub-surface of `root` covering the rectangle `W`, `apply_to`
yields the sub-surface covering `[pos, pos + size)` (relative to the origin of `W`) cut to `W`. -/
theorem applyTo_clip (root : Shape) (hh : root.height < U) (hw : root.width < U) (W : Option Rect)
    (hW : ∀ w, W = some w → w.Inside root) (t : LT) :
    applyTo t (winShape root W) = winShape root (clip W t.pos t.size) := by
  cases W with
  | none => simp only [winShape, clip, applyTo, view_zero]
  | some w =>
    obtain ⟨h1, h2, h3, h4⟩ := hW w rfl
    simp only [applyTo, winShape, Shape.view, range_bounds, natMin_eq]
    rw [min_satAdd _ _ _ (by omega), min_satAdd _ _ _ (by omega)]
    simp only [clip]
    by_cases hc : min t.pos.col (w.c1 - w.c0) < min (t.pos.col + t.size.w) (w.c1 - w.c0)
    · by_cases hr : min t.pos.row (w.r1 - w.r0) < min (t.pos.row + t.size.h) (w.r1 - w.r0)
      · have hcl : w.r0 + t.pos.row < min (w.r0 + t.pos.row + t.size.h) w.r1 ∧ w.c0 + t.pos.col < min (w.c0 + t.pos.col + t.size.w) w.c1 := by omega
        simp only [hc, hr, if_true, hcl, and_self, winShape]
        have e1 : min t.pos.row (w.r1 - w.r0) = t.pos.row := by omega
        have e2 : min t.pos.col (w.c1 - w.c0) = t.pos.col := by omega
        have e3 : min (w.r0 + t.pos.row + t.size.h) w.r1 = w.r0 + min (t.pos.row + t.size.h) (w.r1 - w.r0) := by omega
        have e4 : min (w.c0 + t.pos.col + t.size.w) w.c1 = w.c0 + min (t.pos.col + t.size.w) (w.c1 - w.c0) := by omega
        have e5 : w.r0 + min (t.pos.row + t.size.h) (w.r1 - w.r0) - 1 = w.r0 + (min (t.pos.row + t.size.h) (w.r1 - w.r0) - 1) := by omega
        rw [e1, e2, e3, e4, e5]
        simp only [Shape.offset, Nat.add_mul]
        congr 1 <;> omega
      · have hcl : ¬ (w.r0 + t.pos.row < min (w.r0 + t.pos.row + t.size.h) w.r1 ∧ w.c0 + t.pos.col < min (w.c0 + t.pos.col + t.size.w) w.c1) := by omega
        simp only [hc, hr, if_true, if_false, hcl, winShape]
    · have hcl : ¬ (w.r0 + t.pos.row < min (w.r0 + t.pos.row + t.size.h) w.r1 ∧ w.c0 + t.pos.col < min (w.c0 + t.pos.col + t.size.w) w.c1) := by omega
      simp only [hc, if_false, hcl, winShape]


/-- follow child indices from `t`, composing and clipping the rectangles: the node reached and the part
of it that is visible inside `W` -/
def walk : LT → Option Rect → List Nat → Option (LT × Option Rect)
  | t, W, [] => some (t, clip W t.pos t.size)
  | t, W, i :: π => match t.kids[i]? with
    | none => none
    | some k => walk k (clip W t.pos t.size) π

/-- the paint goes through the visible rectangle of some node of the layout tree: exactly that rectangle
for views and frames, a part of it for a face fill -/
def Recorded (root : Shape) (t : LT) (W : Option Rect) (p : Paint) : Prop :=
  ∃ π n W', walk t W π = some (n, W') ∧
    (if p.kind = .erase then Sub p.shape (winShape root W') else p.shape = winShape root W')

theorem Recorded.here {root : Shape} {t : LT} {W : Option Rect} {p : Paint} (hk : p.kind ≠ .erase)
    (h : p.shape = winShape root (clip W t.pos t.size)) : Recorded root t W p :=
  ⟨[], t, _, rfl, by simp only [hk, if_false]; exact h⟩

theorem Recorded.hereSub {root : Shape} {t : LT} {W : Option Rect} {p : Paint} (hk : p.kind = .erase)
    (h : Sub p.shape (winShape root (clip W t.pos t.size))) : Recorded root t W p :=
  ⟨[], t, _, rfl, by simp only [hk, if_true]; exact h⟩

theorem Recorded.below {root : Shape} {t k : LT} {W : Option Rect} {p : Paint} (i : Nat) (hk : t.kids[i]? = some k)
    (h : Recorded root k (clip W t.pos t.size) p) : Recorded root t W p := by
  obtain ⟨π, n, W', hw, hc⟩ := h
  exact ⟨i :: π, n, W', by simp only [walk, hk, hw], hc⟩

section
variable (root : Shape) (hh : root.height < U) (hw : root.width < U)
include hh hw

mutual
theorem render_recorded (ctx : Ctx) : ∀ (v : V) (W : Option Rect), (∀ w, W = some w → w.Inside root) →
    ∀ (t : LT) (ps : List Paint), v.render ctx (winShape root W) t = .ok ps → ∀ p ∈ ps, Recorded root t W p
  | .text _ _, W, hW, t, ps, h => by
    simp only [V.render] at h; injection h with h; subst h
    intro p hp; simp at hp; subst hp
    exact Recorded.here (by simp) (applyTo_clip root hh hw W hW t)
  | .str _, W, hW, t, ps, h => by
    simp only [V.render] at h; injection h with h; subst h
    intro p hp; simp at hp; subst hp
    exact Recorded.here (by simp) (applyTo_clip root hh hw W hW t)
  | .glyph _ _ _, W, hW, t, ps, h => by
    simp only [V.render] at h; injection h with h; subst h
    intro p hp; simp at hp; subst hp
    exact Recorded.here (by simp) (applyTo_clip root hh hw W hW t)
  | .fixed _ _ _, W, hW, t, ps, h => by
    simp only [V.render] at h; injection h with h; subst h
    intro p hp; simp at hp; subst hp
    exact Recorded.here (by simp) (applyTo_clip root hh hw W hW t)
  | .image _ _, W, hW, t, ps, h => by
    simp only [V.render] at h; injection h with h; subst h
    intro p hp; simp at hp; subst hp
    exact Recorded.here (by simp) (applyTo_clip root hh hw W hW t)
  | .fill b, W, hW, t, ps, h => by
    simp only [V.render] at h
    split at h <;> (injection h with h; subst h; intro p hp; simp at hp)
    subst hp
    exact Recorded.here (by simp) (applyTo_clip root hh hw W hW t)
  | .scrollbar dir, W, hW, t, ps, h => by
    simp only [V.render] at h
    split at h <;> (injection h with h; subst h; intro p hp; simp at hp)
    subst hp
    exact Recorded.here (by simp) (applyTo_clip root hh hw W hW t)
  | .optNone, W, hW, t, ps, h => by
    simp only [V.render] at h; injection h with h; subst h
    intro p hp; simp at hp
  | .flex dir _ cs, W, hW, t, ps, h => by
    simp only [V.render] at h
    rw [applyTo_clip root hh hw W hW t] at h
    intro p hp
    rcases renderKids_recorded ctx dir cs (clip W t.pos t.size) (clip_inside hW _ _) t.kids ps h p hp with
      ⟨j, k, hj, hr⟩ | ⟨hk, hs⟩
    · exact Recorded.below j hj hr
    · exact Recorded.hereSub hk hs
  | .container _ _ _ _ face c, W, hW, t, ps, h => by
    simp only [V.render] at h
    rw [applyTo_clip root hh hw W hW t] at h
    split at h
    · cases h
    · rename_i k ks ek
      split at h
      · cases h
      · injection h with h; subst h
        intro p hp
        have hk0 : t.kids[0]? = some k := by rw [ek]; rfl
        split at hp
        · simp only [List.mem_cons] at hp
          rcases hp with rfl | hp
          · exact Recorded.hereSub rfl (Sub.refl _)
          · exact Recorded.below 0 hk0 (render_recorded ctx c _ (clip_inside hW _ _) k _ (by assumption) p hp)
        · exact Recorded.below 0 hk0 (render_recorded ctx c _ (clip_inside hW _ _) k _ (by assumption) p hp)
  | .frame c, W, hW, t, ps, h => by
    simp only [V.render] at h
    split at h
    · exact render_recorded ctx c W hW t ps h
    · rw [applyTo_clip root hh hw W hW t] at h
      split at h
      · cases h
      · rename_i k ks ek
        split at h
        · cases h
        · injection h with h; subst h
          intro p hp
          have hk0 : t.kids[0]? = some k := by rw [ek]; rfl
          simp only [List.mem_cons] at hp
          rcases hp with rfl | hp
          · exact Recorded.here (by simp) rfl
          · exact Recorded.below 0 hk0 (render_recorded ctx c _ (clip_inside hW _ _) k _ (by assumption) p hp)
  | .tag c, W, hW, t, ps, h => by
    simp only [V.render] at h
    rw [applyTo_clip root hh hw W hW t] at h
    split at h
    · cases h
    · rename_i k ks ek
      intro p hp
      have hk0 : t.kids[0]? = some k := by rw [ek]; rfl
      exact Recorded.below 0 hk0 (render_recorded ctx c _ (clip_inside hW _ _) k ps h p hp)
  | .dyn _ a b, W, hW, t, ps, h => by
    simp only [V.render] at h
    rw [applyTo_clip root hh hw W hW t] at h
    split at h
    · split at h
      · cases h
      · rename_i k ks ek
        intro p hp
        have hk0 : t.kids[0]? = some k := by rw [ek]; rfl
        exact Recorded.below 0 hk0 (render_recorded ctx a _ (clip_inside hW _ _) k ps h p hp)
    · split at h
      · split at h
        · cases h
        · rename_i k ks ek
          intro p hp
          have hk0 : t.kids[0]? = some k := by rw [ek]; rfl
          exact Recorded.below 0 hk0 (render_recorded ctx b _ (clip_inside hW _ _) k ps h p hp)
      · cases h
theorem renderKids_recorded (ctx : Ctx) (dir : Axis) : ∀ (cs : List Child) (W : Option Rect), (∀ w, W = some w → w.Inside root) →
    ∀ (ts : List LT) (ps : List Paint), renderKids ctx dir (winShape root W) cs ts = .ok ps →
      ∀ p ∈ ps, (∃ (j : Nat) (k : LT), ts[j]? = some k ∧ Recorded root k W p) ∨ (p.kind = .erase ∧ Sub p.shape (winShape root W))
  | [], W, hW, ts, ps, h => by
    simp only [renderKids] at h; injection h with h; subst h
    intro p hp; simp at hp
  | _ :: _, W, hW, [], ps, h => by
    simp only [renderKids] at h; injection h with h; subst h
    intro p hp; simp at hp
  | .mk _ _ face v :: cs, W, hW, t :: ts, ps, h => by
    simp only [renderKids] at h
    have tail : ∀ ps2, renderKids ctx dir (winShape root W) cs ts = .ok ps2 → ∀ p ∈ ps2,
        (∃ (j : Nat) (k : LT), (t :: ts)[j]? = some k ∧ Recorded root k W p) ∨ (p.kind = .erase ∧ Sub p.shape (winShape root W)) := by
      intro ps2 e2 p hp
      rcases renderKids_recorded ctx dir cs W hW ts ps2 e2 p hp with ⟨j, k, hj, hr⟩ | hs
      · exact Or.inl ⟨j + 1, k, by simpa using hj, hr⟩
      · exact Or.inr hs
    split at h
    · exact tail ps h
    · split at h
      · cases h
      · split at h
        · cases h
        · injection h with h; subst h
          intro p hp
          simp only [List.mem_append] at hp
          rcases hp with (hp | hp) | hp
          · split at hp
            · simp at hp; subst hp
              exact Or.inr ⟨rfl, majorStrip_sub dir _ t⟩
            · simp at hp
          · exact Or.inl ⟨0, t, rfl, render_recorded ctx v W hW t _ (by assumption) p hp⟩
          · exact tail _ (by assumption) p hp
end
end


/-- the rectangle `[pos, pos + size)` of a layout node, in the coordinates of its parent, contains `q` -/
def Covers (k : LT) (q : Pos) : Prop :=
  k.pos.col ≤ q.col ∧ q.col < k.pos.col + k.size.w ∧ k.pos.row ≤ q.row ∧ q.row < k.pos.row + k.size.h

/-- positions of cells of a surface: below `usize::MAX` -/
def PosOk (q : Pos) : Prop := q.row + 1 < U ∧ q.col + 1 < U

theorem contains_iff (k : LT) (q : Pos) (hq : PosOk q) : k.contains q = true ↔ Covers k q := by
  unfold LT.contains Covers satAdd
  simp only [decide_eq_true_eq]
  obtain ⟨h1, h2⟩ := hq
  constructor
  · intro ⟨a, b, c, d⟩
    refine ⟨a, ?_, c, ?_⟩
    · split at b <;> omega
    · split at d <;> omega
  · intro ⟨a, b, c, d⟩
    refine ⟨a, ?_, c, ?_⟩
    · split <;> omega
    · split <;> omega

/-- what hit testing has to return: the node, then — if some child covers the position — the chain of
the first such child for the position relative to it -/
inductive HitChain : LT → Pos → List (Pos × Size) → Prop
  | stop (t : LT) (q : Pos) : (∀ k ∈ t.kids, ¬ Covers k q) → HitChain t q [(t.pos, t.size)]
  | step (t : LT) (q : Pos) (pre : List LT) (k : LT) (post : List LT) (rest : List (Pos × Size)) :
      t.kids = pre ++ k :: post → (∀ k' ∈ pre, ¬ Covers k' q) → Covers k q →
      HitChain k ⟨q.row - k.pos.row, q.col - k.pos.col⟩ rest → HitChain t q ((t.pos, t.size) :: rest)

mutual
theorem findPath_chain : ∀ (t : LT) (q : Pos), PosOk q → HitChain t q (t.findPath q)
  | .node p s d kids, q, hq => by
    rcases findIn_chain kids q hq with ⟨e, hn⟩ | ⟨pre, k, post, ek, hpre, hk, e, hc⟩
    · simp only [LT.findPath, e]
      exact HitChain.stop (.node p s d kids) q hn
    · simp only [LT.findPath, e]
      exact HitChain.step (.node p s d kids) q pre k post _ ek hpre hk hc
theorem findIn_chain : ∀ (ks : List LT) (q : Pos), PosOk q →
    (findIn ks q = [] ∧ ∀ k ∈ ks, ¬ Covers k q) ∨
    (∃ pre k post, ks = pre ++ k :: post ∧ (∀ k' ∈ pre, ¬ Covers k' q) ∧ Covers k q ∧
      findIn ks q = k.findPath ⟨q.row - k.pos.row, q.col - k.pos.col⟩ ∧
      HitChain k ⟨q.row - k.pos.row, q.col - k.pos.col⟩ (k.findPath ⟨q.row - k.pos.row, q.col - k.pos.col⟩))
  | [], q, _ => Or.inl ⟨by simp only [findIn], by simp⟩
  | k :: ks, q, hq => by
    by_cases hc : k.contains q = true
    · have hcov := (contains_iff k q hq).1 hc
      have hq' : PosOk ⟨q.row - k.pos.row, q.col - k.pos.col⟩ := by
        obtain ⟨a, b⟩ := hq
        constructor <;> (simp only; omega)
      exact Or.inr ⟨[], k, ks, rfl, by simp, hcov, by simp only [findIn, hc, if_true], findPath_chain k _ hq'⟩
    · have hncov : ¬ Covers k q := fun h => hc ((contains_iff k q hq).2 h)
      rcases findIn_chain ks q hq with ⟨e, hn⟩ | ⟨pre, k', post, ek, hpre, hk, e, hch⟩
      · refine Or.inl ⟨by simp only [findIn, hc, e]; rfl, ?_⟩
        intro k0 hk0
        simp only [List.mem_cons] at hk0
        rcases hk0 with rfl | hk0
        · exact hncov
        · exact hn k0 hk0
      · refine Or.inr ⟨k :: pre, k', post, by simp [ek], ?_, hk, by simp only [findIn, hc, e]; rfl, hch⟩
        intro k0 hk0
        simp only [List.mem_cons] at hk0
        rcases hk0 with rfl | hk0
        · exact hncov
        · exact hpre k0 hk0
end

/-- on an empty window everything below is invisible -/
theorem walk_none : ∀ (π : List Nat) (t n : LT) (W' : Option Rect), walk t none π = some (n, W') → W' = none
  | [], t, n, W', h => by
    simp only [walk, clip] at h
    injection h with h; injection h with _ h2; exact h2.symm
  | i :: π, t, n, W', h => by
    simp only [walk, clip] at h
    split at h
    · cases h
    · exact walk_none π _ n W' h

/-- the visible rectangle of a descendant lies inside the visible rectangle of the node -/
theorem walk_within : ∀ (π : List Nat) (t n : LT) (W : Option Rect) (w' : Rect), walk t W π = some (n, some w') →
    ∃ wt, clip W t.pos t.size = some wt ∧ wt.r0 ≤ w'.r0 ∧ w'.r1 ≤ wt.r1 ∧ wt.c0 ≤ w'.c0 ∧ w'.c1 ≤ wt.c1
  | [], t, n, W, w', h => by
    simp only [walk] at h
    injection h with h; injection h with _ h2
    exact ⟨w', h2, Nat.le_refl _, Nat.le_refl _, Nat.le_refl _, Nat.le_refl _⟩
  | i :: π, t, n, W, w', h => by
    simp only [walk] at h
    split at h
    · cases h
    · rename_i k ek
      cases hc : clip W t.pos t.size with
      | none => rw [hc] at h; have := walk_none π k n _ h; cases this
      | some wt =>
        rw [hc] at h
        obtain ⟨wk, ewk, a, b, c, d⟩ := walk_within π k n (some wt) w' h
        refine ⟨wt, rfl, ?_⟩
        simp only [clip] at ewk
        split at ewk
        · injection ewk with ewk; subst ewk
          simp only at a b c d
          omega
        · cases ewk

/-- every node on the path covers the position (relative to its parent) -/
def Along : LT → Pos → List Nat → Prop
  | _, _, [] => True
  | t, q, i :: π => ∃ k, t.kids[i]? = some k ∧ Covers k q ∧ Along k ⟨q.row - k.pos.row, q.col - k.pos.col⟩ π

/-- If the cell `(R, C)` of the root surface lies in the visible rectangle of the node reached by the path
`π` from `t` (`t` itself drawn inside the window `w`), then — in the coordinates hit testing uses for `t`,
relative to `t`'s own origin — every node on that path covers the position. -/
theorem walk_along : ∀ (π : List Nat) (t n : LT) (w w' : Rect) (R C : Nat),
    walk t (some w) π = some (n, some w') → w'.r0 ≤ R → R < w'.r1 → w'.c0 ≤ C → C < w'.c1 →
    Along t ⟨R - (w.r0 + t.pos.row), C - (w.c0 + t.pos.col)⟩ π
  | [], _, _, _, _, _, _, _, _, _, _, _ => trivial
  | i :: π, t, n, w, w', R, C, h, h1, h2, h3, h4 => by
    simp only [walk] at h
    split at h
    · cases h
    · rename_i k ek
      cases hc : clip (some w) t.pos t.size with
      | none => rw [hc] at h; have := walk_none π k n _ h; cases this
      | some wt =>
        rw [hc] at h
        obtain ⟨wk, ewk, a, b, c, d⟩ := walk_within π k n (some wt) w' h
        have ih := walk_along π k n wt w' R C h h1 h2 h3 h4
        have hwt : wt.r0 = w.r0 + t.pos.row ∧ wt.c0 = w.c0 + t.pos.col := by
          simp only [clip] at hc
          split at hc
          · injection hc with hc; subst hc; exact ⟨rfl, rfl⟩
          · cases hc
        have hwk : wk.r0 = wt.r0 + k.pos.row ∧ wk.c0 = wt.c0 + k.pos.col ∧ wk.r1 ≤ wt.r0 + k.pos.row + k.size.h ∧ wk.c1 ≤ wt.c0 + k.pos.col + k.size.w := by
          simp only [clip] at ewk
          split at ewk
          · injection ewk with ewk; subst ewk
            exact ⟨rfl, rfl, Nat.min_le_left _ _, Nat.min_le_left _ _⟩
          · cases ewk
        refine ⟨k, ek, ?_, ?_⟩
        · simp only [Covers]
          omega
        · have e1 : R - (w.r0 + t.pos.row) - k.pos.row = R - (wt.r0 + k.pos.row) := by omega
          have e2 : C - (w.c0 + t.pos.col) - k.pos.col = C - (wt.c0 + k.pos.col) := by omega
          simp only [e1, e2]
          exact ih


/-! ## siblings laid out by the library do not overlap; hit testing finds the drawn view -/



/-- no surface position is covered by two of the siblings -/
def Disj (kids : List LT) : Prop :=
  ∀ (i j : Nat) (ki kj : LT), i < j → kids[i]? = some ki → kids[j]? = some kj →
    ∀ q, PosOk q → ¬ (Covers ki q ∧ Covers kj q)

mutual
/-- everywhere in the tree, siblings do not overlap -/
def Tidy : LT → Prop
  | .node _ _ _ kids => Disj kids ∧ TidyL kids
def TidyL : List LT → Prop
  | [] => True
  | k :: ks => Tidy k ∧ TidyL ks
end

theorem Disj_nil : Disj [] := by intro i j ki kj _ h; simp at h
theorem Disj_single (k : LT) : Disj [k] := by
  intro i j ki kj hij hi hj
  cases j with
  | zero => omega
  | succ j => simp at hj

theorem Tidy_setPos (t : LT) (p : Pos) (h : Tidy t) : Tidy (t.setPos p) := by
  cases t; simpa [LT.setPos, Tidy] using h
theorem Tidy_default : Tidy LT.default := by simp [LT.default, Tidy, TidyL, Disj_nil]
theorem Tidy_leaf (s : Size) : Tidy (LT.leaf s) := by simp [LT.leaf, Tidy, TidyL, Disj_nil]
theorem Tidy_single (p : Pos) (s : Size) (d : Nat) (k : LT) (h : Tidy k) : Tidy (.node p s d [k]) := by
  simp [Tidy, TidyL, Disj_single, h]

/-- `min x usize::MAX` -/
def capU (x : Nat) : Nat := if x < U then x else U - 1
theorem satAdd_eq (a b : Nat) : satAdd a b = capU (a + b) := rfl
theorem capU_mono {a b : Nat} (h : a ≤ b) : capU a ≤ capU b := by unfold capU; split <;> split <;> omega
theorem capU_le (a : Nat) : capU a ≤ a := by unfold capU U; split <;> omega
theorem capU_capU (a : Nat) : capU (capU a) = capU a := by
  unfold capU U
  by_cases h : a < 2 ^ 64
  · simp [h]
  · simp [h]
theorem capU_idem_le (a b : Nat) : capU a ≤ capU (capU a + b) := by unfold capU; split <;> split <;> omega

/-- the children `place` positions start at or after `capU off` along the major axis -/
theorem place_lower (dir : Axis) (minor between : Nat) :
    ∀ (cs : List Child) (ts : List LT) (off : Nat) (ts' : List LT) (o : Nat),
      place dir minor between cs ts off = .ok (ts', o) → ∀ k ∈ ts', capU off ≤ dir.majorP k.pos
  | [], ts, off, ts', o, h => by
    simp only [place] at h; injection h with h; injection h with h1 _; subst h1
    intro k hk; simp at hk
  | _ :: _, [], off, ts', o, h => by simp only [place] at h; cases h
  | .mk f al fc v :: cs, t :: ts, off, ts', o, h => by
    simp only [place] at h
    split at h
    · cases h
    · rename_i ts'' o' e
      injection h with h; injection h with h1 _; subst h1
      intro k hk
      simp only [List.mem_cons] at hk
      rcases hk with rfl | hk
      · have : dir.majorP (t.setPos (dir.posFrom off (al.align (dir.minorS t.size) minor))).pos = off := by
          cases dir <;> simp [Axis.majorP, Axis.posFrom]
        rw [this]; exact capU_le off
      · have := place_lower dir minor between cs ts _ ts'' o' e k hk
        rw [satAdd_eq, satAdd_eq, capU_capU] at this
        have h1 : capU off ≤ capU (capU (off + dir.majorS t.size) + between) :=
          Nat.le_trans (capU_mono (Nat.le_add_right _ _)) (capU_idem_le _ _)
        omega

theorem covers_major (dir : Axis) (k : LT) (q : Pos) (h : Covers k q) :
    dir.majorP k.pos ≤ dir.majorP q ∧ dir.majorP q < dir.majorP k.pos + dir.majorS k.size := by
  cases dir <;> simp only [Axis.majorP, Axis.majorS, Covers] at * <;> omega

theorem place_disj (dir : Axis) (minor between : Nat) :
    ∀ (cs : List Child) (ts : List LT) (off : Nat) (ts' : List LT) (o : Nat),
      place dir minor between cs ts off = .ok (ts', o) → Disj ts'
  | [], ts, off, ts', o, h => by
    simp only [place] at h; injection h with h; injection h with h1 _; subst h1; exact Disj_nil
  | _ :: _, [], off, ts', o, h => by simp only [place] at h; cases h
  | .mk f al fc v :: cs, t :: ts, off, ts', o, h => by
    simp only [place] at h
    split at h
    · cases h
    · rename_i ts'' o' e
      injection h with h; injection h with h1 _; subst h1
      have ih := place_disj dir minor between cs ts _ ts'' o' e
      have lower := place_lower dir minor between cs ts _ ts'' o' e
      intro i j ki kj hij hi hj q hq ⟨hci, hcj⟩
      cases j with
      | zero => omega
      | succ j =>
        simp only [List.getElem?_cons_succ] at hj
        cases i with
        | zero =>
          simp only [List.getElem?_cons_zero, Option.some.injEq] at hi
          subst hi
          have hkj : kj ∈ ts'' := List.mem_of_getElem? hj
          have hl := lower kj hkj
          rw [satAdd_eq, satAdd_eq, capU_capU] at hl
          have hpos : dir.majorP (t.setPos (dir.posFrom off (al.align (dir.minorS t.size) minor))).pos = off := by
            cases dir <;> simp [Axis.majorP, Axis.posFrom]
          have a := covers_major dir _ q hci
          have b := covers_major dir _ q hcj
          rw [hpos, setPos_size] at a
          have h1 : capU (off + dir.majorS t.size) ≤ capU (capU (off + dir.majorS t.size) + between) := capU_idem_le _ _
          have hqm : dir.majorP q + 1 < U := by
            cases dir
            · exact hq.2
            · exact hq.1
          have : capU (off + dir.majorS t.size) ≤ dir.majorP q := by omega
          unfold capU at this
          split at this <;> omega
        | succ i =>
          simp only [List.getElem?_cons_succ] at hi
          exact ih i j ki kj (by omega) hi hj q hq ⟨hci, hcj⟩


theorem place_tidyL (dir : Axis) (minor between : Nat) :
    ∀ (cs : List Child) (ts : List LT) (off : Nat) (ts' : List LT) (o : Nat),
      place dir minor between cs ts off = .ok (ts', o) → TidyL ts → TidyL ts'
  | [], ts, off, ts', o, h, _ => by
    simp only [place] at h; injection h with h; injection h with h1 _; subst h1; simp [TidyL]
  | _ :: _, [], off, ts', o, h, _ => by simp only [place] at h; cases h
  | .mk f al fc v :: cs, t :: ts, off, ts', o, h, ht => by
    simp only [place] at h
    split at h
    · cases h
    · rename_i ts'' o' e
      injection h with h; injection h with h1 _; subst h1
      simp only [TidyL] at ht ⊢
      exact ⟨Tidy_setPos t _ ht.1, place_tidyL dir minor between cs ts _ ts'' o' e ht.2⟩

mutual
theorem layout_tidy (ctx : Ctx) : ∀ (v : V) (ct : Ct) (t : LT), v.layout ctx ct = .ok t → Tidy t
  | .text _ _, ct, t, h => by
    rw [V.layout] at h
    split at h; · cases h
    split at h; · cases h
    injection h with h; subst h; exact Tidy_leaf _
  | .str _, ct, t, h => by
    rw [V.layout] at h
    split at h; · cases h
    split at h; · cases h
    injection h with h; subst h; exact Tidy_leaf _
  | .glyph _ _ _, ct, t, h => by
    rw [V.layout] at h
    split at h
    · split at h; · cases h
      injection h with h; subst h; exact Tidy_leaf _
    · split at h; · cases h
      split at h; · cases h
      injection h with h; subst h; exact Tidy_leaf _
  | .fixed _ _ _, ct, t, h => by
    rw [V.layout] at h
    split at h; · cases h
    injection h with h; subst h; exact Tidy_leaf _
  | .image _ _, ct, t, h => by
    rw [V.layout] at h
    split at h; · cases h
    injection h with h; subst h; exact Tidy_leaf _
  | .fill _, ct, t, h => by
    rw [V.layout] at h; injection h with h; subst h; exact Tidy_leaf _
  | .scrollbar _, ct, t, h => by
    rw [V.layout] at h; injection h with h; subst h; simp [Tidy, TidyL, Disj_nil]
  | .optNone, ct, t, h => by
    rw [V.layout] at h; injection h with h; subst h; exact Tidy_default
  | .flex dir j cs, ct, t, h => by
    rw [V.layout] at h
    simp only at h
    split at h; · cases h
    split at h; · cases h
    split at h; · cases h
    split at h; · cases h
    split at h; · cases h
    rename_i _ ts1 a1 e1 _ ts2 a2 e2 _ side between e3 _ ts3 off e4 _ s es
    injection h with h; subst h
    have t1 : TidyL ts1 := phase1_tidy ctx dir _ cs _ ts1 a1 e1
    have t2 : TidyL ts2 := by
      split at e2
      · exact phase2_tidy ctx dir _ cs ts1 _ ts2 a2 e2 t1
      · injection e2 with e2; injection e2 with e2 _; subst e2; exact t1
    simp only [Tidy]
    exact ⟨place_disj dir _ _ cs ts2 _ ts3 off e4, place_tidyL dir _ _ cs ts2 _ ts3 off e4 t2⟩
  | .container _ _ _ _ _ c, ct, t, h => by
    rw [V.layout] at h
    simp only at h
    split at h; · cases h
    split at h; · cases h
    split at h; · cases h
    split at h; · cases h
    split at h; · cases h
    rename_i _ ch eh _ cw ew _ tc etc _ h2 eh2 _ w2 ew2
    injection h with h; subst h
    exact Tidy_single _ _ _ _ (Tidy_setPos tc _ (layout_tidy ctx c _ tc etc))
  | .frame c, ct, t, h => by
    rw [V.layout] at h
    split at h
    · exact layout_tidy ctx c ct t h
    · split at h; · cases h
      split at h; · cases h
      split at h; · cases h
      rename_i _ tc etc _ hh eh _ ww ew
      injection h with h; subst h
      exact Tidy_single _ _ _ _ (Tidy_setPos tc _ (layout_tidy ctx c _ tc etc))
  | .tag c, ct, t, h => by
    rw [V.layout] at h
    split at h; · cases h
    rename_i _ tc etc
    injection h with h; subst h
    exact Tidy_single _ _ _ _ (layout_tidy ctx c _ tc etc)
  | .dyn _ a b, ct, t, h => by
    rw [V.layout] at h
    split at h
    · split at h; · cases h
      rename_i _ tc etc
      injection h with h; subst h
      exact Tidy_single _ _ _ _ (layout_tidy ctx a _ tc etc)
    · split at h; · cases h
      rename_i _ tc etc
      injection h with h; subst h
      exact Tidy_single _ _ _ _ (layout_tidy ctx b _ tc etc)
theorem phase1_tidy (ctx : Ctx) (dir : Axis) (ctl : Ct) : ∀ (cs : List Child) (a : P1) (ts : List LT) (a' : P1),
    phase1 ctx dir ctl cs a = .ok (ts, a') → TidyL ts
  | [], a, ts, a', h => by
    simp only [phase1] at h; injection h with h; injection h with h1 _; subst h1; simp [TidyL]
  | .mk none _ _ v :: cs, a, ts, a', h => by
    simp only [phase1] at h
    split at h; · cases h
    split at h; · cases h
    rename_i _ t et _ ts0 a0 e0
    injection h with h; injection h with h1 _; subst h1
    simp only [TidyL]
    exact ⟨layout_tidy ctx v ctl t et, phase1_tidy ctx dir ctl cs _ ts0 a0 e0⟩
  | .mk (some f) _ _ v :: cs, a, ts, a', h => by
    simp only [phase1] at h
    split at h; · cases h
    rename_i _ ts0 a0 e0
    injection h with h; injection h with h1 _; subst h1
    simp only [TidyL]
    exact ⟨Tidy_default, phase1_tidy ctx dir ctl cs _ ts0 a0 e0⟩
theorem phase2_tidy (ctx : Ctx) (dir : Axis) (ctl : Ct) : ∀ (cs : List Child) (ts : List LT) (a : P2) (ts' : List LT) (a' : P2),
    phase2 ctx dir ctl cs ts a = .ok (ts', a') → TidyL ts → TidyL ts'
  | [], ts, a, ts', a', h, _ => by
    simp only [phase2] at h; injection h with h; injection h with h1 _; subst h1; simp [TidyL]
  | _ :: _, [], a, ts', a', h, _ => by simp only [phase2] at h; cases h
  | .mk none _ _ v :: cs, t :: ts, a, ts', a', h, ht => by
    simp only [phase2] at h
    split at h; · cases h
    rename_i _ ts0 a0 e0
    injection h with h; injection h with h1 _; subst h1
    simp only [TidyL] at ht ⊢
    exact ⟨ht.1, phase2_tidy ctx dir ctl cs ts a ts0 a0 e0 ht.2⟩
  | .mk (some f) _ _ v :: cs, t :: ts, a, ts', a', h, ht => by
    simp only [phase2] at h
    simp only [TidyL] at ht
    split at h
    · split at h; · cases h
      split at h; · cases h
      rename_i _ t' et _ ts0 a0 e0
      injection h with h; injection h with h1 _; subst h1
      simp only [TidyL]
      exact ⟨layout_tidy ctx v _ t' et, phase2_tidy ctx dir ctl cs ts _ ts0 a0 e0 ht.2⟩
    · split at h; · cases h
      rename_i _ ts0 a0 e0
      injection h with h; injection h with h1 _; subst h1
      simp only [TidyL]
      exact ⟨ht.1, phase2_tidy ctx dir ctl cs ts _ ts0 a0 e0 ht.2⟩
end

/-- the layouts along a path of child indices, as `find_path` reports them -/
def pathNodes : LT → List Nat → List (Pos × Size)
  | t, [] => [(t.pos, t.size)]
  | t, i :: π => (t.pos, t.size) :: (match t.kids[i]? with
    | none => []
    | some k => pathNodes k π)

def nodeAt : LT → List Nat → Option LT
  | t, [] => some t
  | t, i :: π => match t.kids[i]? with
    | none => none
    | some k => nodeAt k π

theorem walk_nodeAt : ∀ (π : List Nat) (t n : LT) (W W' : Option Rect), walk t W π = some (n, W') → nodeAt t π = some n
  | [], t, n, W, W', h => by
    simp only [walk] at h; injection h with h; injection h with h1 _; simp [nodeAt, h1]
  | i :: π, t, n, W, W', h => by
    simp only [walk] at h
    simp only [nodeAt]
    split at h
    · cases h
    · rename_i k ek
      try simp only [ek]
      exact walk_nodeAt π k n _ W' h

theorem TidyL_mem : ∀ (ks : List LT) (k : LT), TidyL ks → k ∈ ks → Tidy k
  | [], k, _, hk => by simp at hk
  | k0 :: ks, k, h, hk => by
    simp only [TidyL] at h
    simp only [List.mem_cons] at hk
    rcases hk with rfl | hk
    · exact h.1
    · exact TidyL_mem ks k h.2 hk

theorem findIn_first : ∀ (ks : List LT) (q : Pos), PosOk q → ∀ (i : Nat) (k : LT), ks[i]? = some k → Covers k q →
    (∀ (j : Nat) (kj : LT), j < i → ks[j]? = some kj → ¬ Covers kj q) →
    findIn ks q = k.findPath ⟨q.row - k.pos.row, q.col - k.pos.col⟩
  | [], q, _, i, k, hk, _, _ => by simp at hk
  | k0 :: ks, q, hq, i, k, hk, hc, hpre => by
    cases i with
    | zero =>
      simp only [List.getElem?_cons_zero, Option.some.injEq] at hk
      subst hk
      simp only [findIn, (contains_iff _ q hq).2 hc, if_true]
    | succ i =>
      simp only [List.getElem?_cons_succ] at hk
      have h0 : ¬ Covers k0 q := hpre 0 k0 (by omega) rfl
      have hc0 : ¬ k0.contains q = true := fun h => h0 ((contains_iff k0 q hq).1 h)
      simp only [findIn, hc0, if_false]
      exact findIn_first ks q hq i k hk hc (fun j kj hj hkj => hpre (j + 1) kj (by omega) (by simpa using hkj))

/-- In a tree whose siblings do not overlap, hit testing a position that every node along `π` covers
returns exactly the layouts along `π` (when the node reached has no children). -/
theorem tidy_hit : ∀ (π : List Nat) (t n : LT) (q : Pos), Tidy t → PosOk q → Along t q π → nodeAt t π = some n →
    n.kids = [] → t.findPath q = pathNodes t π
  | [], t, n, q, _, _, _, hn, hk => by
    simp only [nodeAt, Option.some.injEq] at hn
    subst hn
    cases t with
    | node p s d kids =>
      simp only [node_kids] at hk
      subst hk
      simp [LT.findPath, findIn, pathNodes]
  | i :: π, t, n, q, ht, hq, ha, hn, hk => by
    obtain ⟨k, ek, hc, ha'⟩ := ha
    simp only [nodeAt, ek] at hn
    cases t with
    | node p s d kids =>
      simp only [node_kids] at ek
      simp only [Tidy] at ht
      have hkm : k ∈ kids := List.mem_of_getElem? ek
      have htk : Tidy k := TidyL_mem kids k ht.2 hkm
      have hq' : PosOk ⟨q.row - k.pos.row, q.col - k.pos.col⟩ := by
        obtain ⟨a, b⟩ := hq
        constructor <;> (simp only; omega)
      have hfirst := findIn_first kids q hq i k ek hc (fun j kj hj hkj hcj => ht.1 j i kj k hj hkj ek q hq ⟨hcj, hc⟩)
      have ih := tidy_hit π k n _ htk hq' ha' hn hk
      simp only [LT.findPath, hfirst, ih, pathNodes, node_kids, ek, node_pos, node_size]


/-- as `tidy_hit`, for any node reached: the chain starts with the layouts along `π` -/
theorem tidy_hit_prefix : ∀ (π : List Nat) (t : LT) (q : Pos), Tidy t → PosOk q → Along t q π →
    ∃ rest, t.findPath q = pathNodes t π ++ rest
  | [], t, q, _, _, _ => by
    cases t with
    | node p s d kids => exact ⟨findIn kids q, by simp [LT.findPath, pathNodes]⟩
  | i :: π, t, q, ht, hq, ha => by
    obtain ⟨k, ek, hc, ha'⟩ := ha
    cases t with
    | node p s d kids =>
      simp only [node_kids] at ek
      simp only [Tidy] at ht
      have hkm : k ∈ kids := List.mem_of_getElem? ek
      have htk : Tidy k := TidyL_mem kids k ht.2 hkm
      have hq' : PosOk ⟨q.row - k.pos.row, q.col - k.pos.col⟩ := by
        obtain ⟨a, b⟩ := hq
        constructor <;> (simp only; omega)
      have hfirst := findIn_first kids q hq i k ek hc (fun j kj hj hkj hcj => ht.1 j i kj k hj hkj ek q hq ⟨hcj, hc⟩)
      obtain ⟨rest, ih⟩ := tidy_hit_prefix π k _ htk hq' ha'
      exact ⟨rest, by simp only [LT.findPath, hfirst, ih, pathNodes, node_kids, ek, node_pos, node_size, List.cons_append]⟩


theorem walk_inside {root : Shape} : ∀ (π : List Nat) (t n : LT) (W : Option Rect) (w' : Rect),
    (∀ w, W = some w → w.Inside root) → walk t W π = some (n, some w') → w'.Inside root
  | [], t, n, W, w', hW, h => by
    simp only [walk] at h; injection h with h; injection h with _ h2
    exact clip_inside hW t.pos t.size w' h2
  | i :: π, t, n, W, w', hW, h => by
    simp only [walk] at h
    split at h
    · cases h
    · exact walk_inside π _ n _ w' (clip_inside hW t.pos t.size) h

/-! ## the image cell stays inside the surface the image view holds -/

theorem roundUp_le {a p n : Nat} (_hp : 0 < p) (h : a ≤ n * p) : (if a % p = 0 then a / p else a / p + 1) ≤ n := by
  have hdm := Nat.div_add_mod a p
  have hq : a / p ≤ n := Nat.div_le_of_le_mul (by rw [Nat.mul_comm]; exact h)
  split
  · exact hq
  · rename_i hr
    by_cases hlt : a / p < n
    · omega
    · have hqe : a / p = n := by omega
      rw [hqe, Nat.mul_comm] at hdm
      have : 0 < a % p := Nat.pos_of_ne_zero hr
      omega

theorem min_satMul_le (a n p : Nat) (hn : n < U) (hp : 0 < p) : Nat.min a (satMul n p) ≤ n * p := by
  have h1 := natMin_le_right a (satMul n p)
  have h2 : satMul n p ≤ n * p := by
    unfold satMul
    split
    · exact Nat.le_refl _
    · have : n * 1 ≤ n * p := Nat.mul_le_mul_left n hp
      omega
  exact Nat.le_trans h1 h2

theorem imageExtent_le (ppc : Size) (ph pw sh sw : Nat) (hh : sh < U) (hw : sw < U) :
    (imageExtent ppc ph pw sh sw).h ≤ sh ∧ (imageExtent ppc ph pw sh sw).w ≤ sw := by
  unfold imageExtent sizeCells
  split
  · exact ⟨Nat.zero_le _, Nat.zero_le _⟩
  · rename_i hne
    simp only [Size.isEmpty, Bool.or_eq_true, beq_iff_eq, not_or] at hne
    have hph : 0 < ppc.h := Nat.pos_of_ne_zero hne.1.1
    have hpw : 0 < ppc.w := Nat.pos_of_ne_zero hne.1.2
    exact ⟨roundUp_le hph (min_satMul_le ph sh ppc.h hh hph), roundUp_le hpw (min_satMul_le pw sw ppc.w hw hpw)⟩

end SurfProofs.ViewLayoutL
