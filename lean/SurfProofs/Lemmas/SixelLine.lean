import SurfModel.Sixel
/-!
# C12 helper lemmas, part 1: one colour's line of a band

Expanding the tokens the band assembly emits (`!n c` ↦ `n` copies of `c`) gives the dense row:
blanks (`?` = 63) up to each item, then its code.
-/
namespace SurfProofs.Lemmas.SixelLine
open SurfModel.Sixel

def Tok.expand : Tok → List Nat
  | .lit c => [c]
  | .rep n c => List.replicate n c

def expand (ts : List Tok) : List Nat := ts.flatMap Tok.expand

theorem expand_append (a b : List Tok) : expand (a ++ b) = expand a ++ expand b := by
  simp [expand]

theorem expand_emit (n code : Nat) : expand (emit n code) = List.replicate n code := by
  unfold emit expand
  split
  · simp [Tok.expand]
  · induction n with
    | zero => simp
    | succ n ih =>
      have : ¬ n > 3 := by omega
      simp only [List.replicate_succ, List.flatMap_cons, Tok.expand] at ih ⊢
      have := ih this
      simp [this]

/-- the dense row the terminal ends up with: blanks (`?` = 63) up to each item, then its code -/
def dense (offset : Nat) : List (Nat × Nat) → List Nat
  | [] => []
  | (col, code) :: rest => List.replicate (col - offset) 63 ++ [code] ++ dense (col + 1) rest

theorem dense_run (col code : Nat) (rest : List (Nat × Nat)) :
    dense (col + 1) rest =
      List.replicate (runLen col code rest) code
        ++ dense (col + 1 + runLen col code rest) (dropRun col code rest) := by
  induction rest generalizing col with
  | nil => simp [dense, runLen, dropRun]
  | cons p r ih =>
    obtain ⟨c, k⟩ := p
    simp only [runLen, dropRun]
    split
    · rename_i h
      obtain ⟨h1, h2⟩ := h
      subst h1; subst h2
      simp only [dense, Nat.sub_self, List.replicate_zero, List.nil_append]
      rw [ih (col + 1)]
      have : 1 + runLen (col + 1) k r = runLen (col + 1) k r + 1 := by omega
      rw [this, List.replicate_succ]
      simp [Nat.add_assoc, Nat.add_comm 1]
      congr 1; omega
    · simp

/-- shifts and run-length compression expand to the dense row -/
theorem expand_encodeLine (offset : Nat) (items : List (Nat × Nat)) :
    expand (encodeLine offset items) = dense offset items := by
  fun_induction encodeLine offset items with
  | case1 => simp [expand, dense]
  | case2 offset col code rest reps ih =>
    rw [expand_append, expand_append, expand_emit, expand_emit, ih]
    simp only [dense]
    rw [dense_run col code rest]
    have : reps = runLen col code rest + 1 := by simp [reps]; omega
    rw [this, List.replicate_succ]
    simp [List.append_assoc, Nat.add_assoc, Nat.add_comm 1]

end SurfProofs.Lemmas.SixelLine
