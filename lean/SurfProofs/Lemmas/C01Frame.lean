import SurfProofs.Lemmas.C01Display
/-!
C01, helper lemmas 5: the relation between renderer state and terminal, one frame, the other steps.
-/
namespace SurfProofs.C01
open SurfModel.Screen SurfModel.Renderer

/-- character-only part of the domain -/
def CharDom (P : Params) (H W : Nat) (s : Surface) : Prop :=
  WellPlaced P H W s ∧ ∀ r c, r < H → c < W → ∃ ch, (s r c).kind = .chr ch

theorem CharDom.charSurf {P : Params} {H W : Nat} {s : Surface} (h : CharDom P H W s) : CharSurf P H W s := by
  obtain ⟨⟨w1, w2, _⟩, hc⟩ := h
  refine ⟨?_, w2⟩
  intro r c hr hcw
  obtain ⟨ch, hk⟩ := hc r c hr hcw
  exact ⟨ch, hk, w1 r c ch hr hcw hk⟩

def blankSurf : Surface := fun _ _ => defaultCell

theorem blank_charDom (P : Params) (hP : ParamsOk P) (H W : Nat) : CharDom P H W blankSurf := by
  have hw : isWide P defaultCell = false := by simp [isWide, defaultCell, hP.sp]
  have hi : imgOf P defaultCell = none := by simp [imgOf, defaultCell]
  refine ⟨⟨?_, ?_, ?_, ?_, ?_⟩, ?_⟩
  · intro r c ch _ _ hk
    simp [blankSurf, defaultCell] at hk
    subst hk; exact Or.inl hP.sp
  · intro r c _ _ h; simp [blankSurf, hw] at h
  · intro r c i _ _ h; simp [blankSurf, hi] at h
  · intro q q' p _ _ _ _ h; simp [covers, blankSurf, hi] at h
  · intro q r c _ _ _ _ h; simp [blankSurf, hw] at h
  · intro r c _ _; exact ⟨32, rfl⟩

theorem normSurf_blank (P : Params) (hP : ParamsOk P) (r c : Nat) : normSurf P blankSurf r c = defaultCell := by
  have hw : isWide P defaultCell = false := by simp [isWide, defaultCell, hP.sp]
  have : shadowed P blankSurf r c = false := by
    cases c with
    | zero => rfl
    | succ c => simp [shadowed, blankSurf, hw]
  simp [normSurf, this, blankSurf]

/-- The renderer state `R` and the terminal `scr` fit together: the back surface is a normalised
surface of the domain, no cell is marked `Ignored` between frames, every cell that is not marked
`Damaged` shows what `display` of the back surface says, and so do the image placements. -/
structure Rel (P : Params) (R : State) (scr : Screen) : Prop where
  wf : WF P scr
  back : ∃ s0, CharDom P R.h R.w s0 ∧ ∀ r c, r < R.h → c < R.w → R.back r c = normSurf P s0 r c
  marks : ∀ r c, R.marks r c ≠ .ignored
  shows : ∀ r c, r < R.h → c < R.w → R.marks r c = .empty →
    scr.grid r c = (display P R.h R.w R.back).grid r c
  place : ∀ r c, scr.place r c = (display P R.h R.w R.back).place r c

theorem rowOk_chars (P : Params) (hP : ParamsOk P) (H W : Nat) (s F : Surface) (hs : CharSurf P H W s)
    (mk : Nat → Nat → Mark) (hm : ∀ r c, mk r c ≠ .ignored)
    (hF : ∀ r c, r < H → c < W → F r c = normSurf P s r c) (r : Nat) (hr : r < H) :
    RowOk P W (F r) (mk r) := by
  have hnul : isWide P nulCell = false := by simp [isWide, nulCell, hP.nul]
  refine ⟨?_, ?_, ?_⟩
  · intro k ch hk hkind hw
    rw [hF r k hr hk] at hkind
    simp only [normSurf] at hkind
    cases hsh : shadowed P s r k
    · exfalso
      simp only [hsh] at hkind
      obtain ⟨ch', hk', hw'⟩ := hs.chr r k hr hk
      simp at hkind
      rw [hk'] at hkind
      cases hkind
      omega
    · cases k with
      | zero => simp [shadowed] at hsh
      | succ k' =>
        simp only [shadowed, Bool.and_eq_true, Bool.not_eq_true'] at hsh
        refine ⟨k', rfl, ?_, hm r k'⟩
        rw [hF r k' hr (by omega)]
        simp [normSurf, hsh.2, hsh.1]
  · intro k hk hwide _
    rw [hF r k hr hk] at hwide
    simp only [normSurf] at hwide
    cases hsh : shadowed P s r k
    · simp only [hsh] at hwide
      have hfit := hs.fit r k hr hk (by simpa using hwide)
      refine ⟨hfit, ⟨0, ?_, hP.nul⟩, hm r (k + 1)⟩
      rw [hF r (k + 1) hr hfit]
      have : shadowed P s r (k + 1) = true := by
        simp only [shadowed, hsh]
        simpa using hwide
      simp [normSurf, this, nulCell]
    · simp [hsh, hnul] at hwide
  · intro k hk hnc
    exfalso
    rw [hF r k hr hk] at hnc
    simp only [normSurf] at hnc
    cases hsh : shadowed P s r k
    · obtain ⟨ch', hk', _⟩ := hs.chr r k hr hk
      simp only [hsh] at hnc
      exact hnc ch' (by simpa using hk')
    · simp only [hsh] at hnc
      exact hnc 0 (by simp [nulCell])

theorem normSurf_chr (P : Params) (H W : Nat) (s : Surface) (hs : CharSurf P H W s) (r c : Nat)
    (hr : r < H) (hc : c < W) : ∃ ch, (normSurf P s r c).kind = .chr ch := by
  simp only [normSurf]
  split
  · exact ⟨0, rfl⟩
  · obtain ⟨ch, hk, _⟩ := hs.chr r c hr hc; exact ⟨ch, hk⟩

/-- C01 for one frame, character-only surfaces -/
theorem frame_chars (P : Params) (hP : ParamsOk P) (R : State) (scr : Screen) (s : Surface)
    (hsz : R.h ≤ 123456 ∨ R.w ≤ 654123) (hs : CharDom P R.h R.w s) (hrel : Rel P R scr) :
    Rel P (frame P R s).state (execAll P scr (frame P R s).cmds) ∧
    ScreenEq R.h R.w (execAll P scr (frame P R s).cmds) (display P R.h R.w s) := by
  obtain ⟨s0, hs0, hback⟩ := hrel.back
  have hcs := hs.charSurf
  have hcs0 := hs0.charSurf
  have hb : ∀ r c, r < R.h → c < R.w → ∃ ch, (R.back r c).kind = .chr ch := by
    intro r c hr hc; rw [hback r c hr hc]; exact normSurf_chr P R.h R.w s0 hcs0 r c hr hc
  obtain ⟨p1m, p1c, p1i, p1f⟩ := pass1_chars P hP R s hcs hb hrel.marks
  have hcmds : (frame P R s).cmds = pass2 P R.back (pass1 P R s).front R.marks R.h R.w := by
    simp [frame, p1m, p1c, p1i]
  rw [hcmds, pass2_eq]
  have hold : ∀ r k, r < R.h → k < R.w → R.marks r k = .empty → scr.grid r k = dispN P (R.back r k) := by
    intro r k hr hk hm
    rw [hrel.shows r k hr hk hm, display_congr_chars P hP R.h R.w s0 R.back hcs0 hback r k hr hk,
      display_chars P hP R.h R.w s0 hcs0 r k hr hk, hback r k hr hk]
  have J := pass2_prefix P hP R.h R.w hsz R.back (pass1 P R s).front R.marks
    (fun r hr => rowOk_chars P hP R.h R.w s _ hcs R.marks hrel.marks p1f r hr) scr hrel.wf hold R.h (Nat.le_refl _)
  generalize execAll P scr ((List.range R.h).foldl (pass2Step P R.back (pass1 P R s).front R.marks R.w) ([], Tr.init)).1
    = scr' at J
  have hgrid : ∀ r c, r < R.h → c < R.w → scr'.grid r c = (display P R.h R.w s).grid r c := by
    intro r c hr hc
    rw [J.done r c hr hc (hrel.marks r c), p1f r c hr hc, display_chars P hP R.h R.w s hcs r c hr hc]
  have hplace : ∀ r c, scr'.place r c = (display P R.h R.w s).place r c := by
    intro r c
    rw [J.place, hrel.place r c, display_chars_place P R.h R.w s hcs r c]
    simp only [display]
    split
    · rename_i h
      obtain ⟨ch, hk⟩ := hb r c h.1 h.2
      simp [imgOf, hk]
    · rfl
  refine ⟨⟨J.wf, ⟨s, hs, p1f⟩, ?_, ?_, ?_⟩, hgrid, hplace⟩
  · intro r c; simp [frame]
  · intro r c hr hc _
    show scr'.grid r c = (display P R.h R.w (pass1 P R s).front).grid r c
    rw [display_congr_chars P hP R.h R.w s _ hcs p1f r c hr hc]
    exact hgrid r c hr hc
  · intro r c
    show scr'.place r c = (display P R.h R.w (pass1 P R s).front).place r c
    rw [hplace r c, display_chars_place P R.h R.w s hcs r c]
    simp only [display]
    split
    · rename_i h
      obtain ⟨ch, hk⟩ := normSurf_chr P R.h R.w s hcs r c h.1 h.2
      rw [p1f r c h.1 h.2]
      simp [imgOf, hk]
    · rfl


/-! ### the other steps of a history -/

theorem wf_blank (P : Params) (hP : ParamsOk P) : WF P blank := by
  intro r
  refine ⟨by simp [blank], ?_⟩
  intro c
  simp only [blank]
  constructor
  · intro h; cases h
  · rintro ⟨ch, f, he, hw⟩
    cases he
    rw [hP.sp] at hw
    omega

theorem clearCmds_chars (R : State) (hb : ∀ r c, r < R.h → c < R.w → ∃ ch, (R.back r c).kind = .chr ch) :
    clearCmds R = [] := by
  unfold clearCmds
  rw [List.filterMap_eq_nil_iff]
  intro p hp
  rw [mem_allPos] at hp
  obtain ⟨ch, hk⟩ := hb p.1 p.2 hp.1 hp.2
  simp [hk]

theorem Rel.back_chr {P : Params} {R : State} {scr : Screen} (hrel : Rel P R scr) :
    ∀ r c, r < R.h → c < R.w → ∃ ch, (R.back r c).kind = .chr ch := by
  obtain ⟨s0, hs0, hback⟩ := hrel.back
  intro r c hr hc
  rw [hback r c hr hc]
  exact normSurf_chr P R.h R.w s0 hs0.charSurf r c hr hc

theorem Rel.no_place {P : Params} {R : State} {scr : Screen} (hrel : Rel P R scr) :
    ∀ r c, scr.place r c = none := by
  intro r c
  rw [hrel.place r c]
  simp only [display]
  split
  · rename_i h
    obtain ⟨ch, hk⟩ := hrel.back_chr r c h.1 h.2
    simp [imgOf, hk]
  · rfl

/-- any well-formed terminal without image placements fits a renderer whose cells are all damaged -/
theorem rel_damaged (P : Params) (hP : ParamsOk P) (h w : Nat) (scr : Screen) (hwf : WF P scr)
    (hpl : ∀ r c, scr.place r c = none) (R : State) (hR : R.h = h ∧ R.w = w)
    (hback : R.back = fun _ _ => defaultCell) (hm : R.marks = fun _ _ => .damaged) : Rel P R scr := by
  refine ⟨hwf, ⟨blankSurf, blank_charDom P hP _ _, ?_⟩, ?_, ?_, ?_⟩
  · intro r c _ _; rw [hback, normSurf_blank P hP]
  · intro r c; rw [hm]; simp
  · intro r c _ _ he; rw [hm] at he; cases he
  · intro r c
    rw [hpl r c, hback]
    simp only [display]
    split
    · simp [imgOf, defaultCell]
    · rfl

theorem rel_clear (P : Params) (hP : ParamsOk P) (R : State) (scr : Screen) (hrel : Rel P R scr) :
    Rel P (clear R) (execAll P scr (clearCmds R)) := by
  rw [clearCmds_chars R hrel.back_chr, execAll_nil]
  exact rel_damaged P hP R.h R.w scr hrel.wf hrel.no_place (clear R) ⟨rfl, rfl⟩ rfl rfl

theorem rel_recreate (P : Params) (hP : ParamsOk P) (R : State) (scr : Screen) (hrel : Rel P R scr) :
    Rel P (new R.h R.w true) (execAll P scr (clearCmds R)) := by
  rw [clearCmds_chars R hrel.back_chr, execAll_nil]
  exact rel_damaged P hP R.h R.w scr hrel.wf hrel.no_place (new R.h R.w true) ⟨rfl, rfl⟩ rfl (by simp [new])

/-- a renderer created with `clear = false` fits a blank terminal -/
theorem rel_new_blank (P : Params) (hP : ParamsOk P) (h w : Nat) (clear0 : Bool) : Rel P (new h w clear0) blank := by
  refine ⟨wf_blank P hP, ⟨blankSurf, blank_charDom P hP _ _, ?_⟩, ?_, ?_, ?_⟩
  · intro r c _ _; rw [normSurf_blank P hP]; rfl
  · intro r c; cases clear0 <;> simp [new]
  · intro r c hr hc _
    show blank.grid r c = (display P h w (fun _ _ => defaultCell)).grid r c
    have e1 : (display P h w (fun _ _ => defaultCell)).grid r c =
        dispN P (normSurf P (fun _ _ => defaultCell) r c) :=
      display_chars P hP h w blankSurf (blank_charDom P hP h w).charSurf r c hr hc
    have e2 : normSurf P (fun _ _ => defaultCell) r c = defaultCell := normSurf_blank P hP r c
    rw [e1, e2]
    simp [blank, dispN, defaultCell, hP.sp]
  · intro r c
    show blank.place r c = (display P h w (fun _ _ => defaultCell)).place r c
    simp only [display, blank]
    split
    · simp [imgOf, defaultCell]
    · rfl

end SurfProofs.C01
