import SurfModel.PollLoop
/-!
Helper lemmas for C17: byte conservation of the write side through `poll` and the wait loop of `dispose`
(what was handed to the tty followed by what is still queued = what was queued before followed by what the
loop itself queued), and the bookkeeping of pushed events.
-/
namespace SurfProofs.PollLoopLemmas
open SurfModel SurfModel.PollLoop

variable {ε σ : Type}

/-- the bytes waiting in the queue, in order -/
def flat (q : WQ) : List Nat := q.chunks.flatten

theorem handed_append (l1 l2 : List Sys) : handed (l1 ++ l2) = handed l1 ++ handed l2 := by
  induction l1 with
  | nil => simp [handed]
  | cons s l ih => cases s <;> simp [handed, ih]

theorem flat_appendLast (cs : List (List Nat)) (b : List Nat) : (appendLast cs b).flatten = cs.flatten ++ b := by
  induction cs with
  | nil => simp [appendLast]
  | cons c cs ih =>
    cases cs with
    | nil => simp [appendLast]
    | cons d ds => simp [appendLast, ih]

theorem flat_write (q : WQ) (b : List Nat) : flat (q.write b) = flat q ++ b := by
  simp [flat, WQ.write, flat_appendLast]

theorem flat_flush (q : WQ) : flat q.flush = flat q := by
  unfold WQ.flush
  split <;> simp [flat]

/-- consuming `k ≤ |front slice|` bytes removes exactly the first `k` bytes -/
theorem flat_consume (q : WQ) (k : Nat) (hk : k ≤ q.asSlice.length) :
    q.asSlice.take k ++ flat (q.consume k) = flat q := by
  unfold WQ.consume WQ.asSlice flat at *
  cases hq : q.chunks with
  | nil => simp [hq]
  | cons c cs =>
    simp only [hq] at hk ⊢
    by_cases h : c.length > k
    · simp [h, ← List.append_assoc]
    · have : k = c.length := by omega
      subst this
      simp

theorem flat_clearButLast (q : WQ) : flat q.clearButLast = q.asSlice := by
  unfold WQ.clearButLast WQ.asSlice flat
  cases q.chunks with
  | nil => simp
  | cons c cs => simp

/-- conservation between two points of a `poll`: handed ++ queued grows only by bytes queued by the loop -/
def Cons (a a' : Acc ε σ) : Prop :=
  ∃ inj, handed a'.log ++ flat a'.st.wq = handed a.log ++ flat a.st.wq ++ inj

theorem Cons.refl (a : Acc ε σ) : Cons a a := ⟨[], by simp⟩

theorem Cons.trans {a b c : Acc ε σ} (h1 : Cons a b) (h2 : Cons b c) : Cons a c := by
  obtain ⟨i1, e1⟩ := h1
  obtain ⟨i2, e2⟩ := h2
  exact ⟨i1 ++ i2, by rw [e2, e1]; simp⟩

theorem cons_sys (a : Acc ε σ) (s : Sys) (hs : ∀ o k, s ≠ .ttyWrite o k) : Cons a (a.sys s) := by
  refine ⟨[], ?_⟩
  have : handed [s] = [] := by cases s <;> simp_all [handed]
  simp [Acc.sys, handed_append, this]

theorem cons_push (a : Acc ε σ) (e : Ev ε) : Cons a (a.push e) := ⟨[], by simp [Acc.push]⟩

theorem cons_setDec (a : Acc ε σ) (s : σ) : Cons a (a.setDec s) := ⟨[], by simp [Acc.setDec]⟩

theorem cons_queue (a : Acc ε σ) (b : List Nat) : Cons a (a.setWq (a.st.wq.write b)) :=
  ⟨b, by simp [Acc.setWq, flat_write]⟩

theorem cons_phaseWrite (a : Acc ε σ) (tw : Bool) (wr : IoAns) : Cons a (phaseWrite a tw wr).1 := by
  cases tw with
  | false => simp only [phaseWrite, Bool.false_eq_true, ↓reduceIte]; exact Cons.refl a
  | true =>
    cases wr with
    | fail => simp only [phaseWrite, ↓reduceIte]; exact cons_sys a _ (by intro o k h; cases h)
    | again =>
      simp only [phaseWrite, ↓reduceIte]
      refine ⟨[], ?_⟩
      have := flat_consume a.st.wq 0 (Nat.zero_le _)
      simp only [Acc.sys, Acc.setWq, handed_append, handed, List.append_nil, List.append_assoc]
      rw [this]
    | n k =>
      simp only [phaseWrite, ↓reduceIte]
      refine ⟨[], ?_⟩
      have := flat_consume a.st.wq (min k a.st.wq.asSlice.length) (Nat.min_le_right _ _)
      simp only [Acc.sys, Acc.setWq, handed_append, handed, List.append_nil, List.append_assoc]
      rw [this]

theorem cons_signalLoop (sizeOk : Bool) (sigs : List Sig) (a : Acc ε σ) : Cons a (signalLoop a sizeOk sigs).1 := by
  induction sigs generalizing a with
  | nil => exact Cons.refl a
  | cons s rest ih =>
    cases s with
    | winch =>
      simp only [signalLoop]
      split
      · exact (cons_queue a _).trans (ih _)
      · split
        · exact ((cons_sys a .ioctlSize (by intro o k h; cases h)).trans (cons_push _ _)).trans (ih _)
        · exact cons_sys a .ioctlSize (by intro o k h; cases h)
    | term => exact Cons.refl a
    | int => exact Cons.refl a
    | quit => exact Cons.refl a
    | other => exact ih a

theorem cons_phaseSignals (a : Acc ε σ) (sr : Bool) (sigs : List Sig) (ok : Bool) :
    Cons a (phaseSignals a sr sigs ok).1 := by
  cases sr with
  | false => simp only [phaseSignals, Bool.false_eq_true, ↓reduceIte]; exact Cons.refl a
  | true =>
    simp only [phaseSignals, ↓reduceIte]
    exact (cons_sys a .sigPending (by intro o k h; cases h)).trans (cons_signalLoop ok sigs _)

theorem cons_phaseWaker (a : Acc ε σ) (wr : Bool) (wk : IoAns) : Cons a (phaseWaker a wr wk).1 := by
  cases wr with
  | false => simp only [phaseWaker, Bool.false_eq_true, ↓reduceIte]; exact Cons.refl a
  | true =>
    cases wk with
    | fail => simp only [phaseWaker, ↓reduceIte]; exact Cons.refl a
    | again => simp only [phaseWaker, ↓reduceIte]; exact cons_sys a _ (by intro o k h; cases h)
    | n k =>
      simp only [phaseWaker, ↓reduceIte]
      split
      · exact (cons_sys a _ (by intro o k h; cases h)).trans (cons_push _ _)
      · exact cons_sys a _ (by intro o k h; cases h)

theorem cons_pushDecoded (d : Dec ε σ) (es : List ε) (a : Acc ε σ) : Cons a (pushDecoded d a es) := by
  induction es generalizing a with
  | nil => exact Cons.refl a
  | cons e es ih =>
    simp only [pushDecoded]
    refine Cons.trans ?_ (ih _)
    have h1 : Cons a (if d.isSize e && a.st.sizeEsc then a.push .resize else a) := by
      split
      · exact cons_push _ _
      · exact Cons.refl a
    refine h1.trans ?_
    generalize (if d.isSize e && a.st.sizeEsc then a.push .resize else a) = a1
    have h2 : Cons a1 (if (d.handle e).2.isEmpty then a1 else a1.setWq (a1.st.wq.write (d.handle e).2)) := by
      split
      · exact Cons.refl a1
      · exact cons_queue a1 _
    refine h2.trans ?_
    generalize (if (d.handle e).2.isEmpty then a1 else a1.setWq (a1.st.wq.write (d.handle e).2)) = a2
    split
    · exact Cons.refl a2
    · exact cons_push _ _

theorem cons_phaseInput (d : Dec ε σ) (a : Acc ε σ) (tr : Bool) (inp : InAns) :
    Cons a (phaseInput d a tr inp).1 := by
  cases tr with
  | false => simp only [phaseInput, Bool.false_eq_true, ↓reduceIte]; exact Cons.refl a
  | true =>
    cases inp with
    | fail => simp only [phaseInput, ↓reduceIte]; exact Cons.refl a
    | again => simp only [phaseInput, ↓reduceIte]; exact cons_sys a _ (by intro o k h; cases h)
    | bytes bs =>
      simp only [phaseInput, ↓reduceIte]
      split
      · exact cons_sys a _ (by intro o k h; cases h)
      · exact ((cons_sys a _ (by intro o k h; cases h)).trans (cons_setDec _ _)).trans (cons_pushDecoded d _ _)

theorem cons_body (d : Dec ε σ) (a : Acc ε σ) (it : Iter) (wk sg tr tw : Bool) :
    Cons a (body d a it wk sg tr tw).1 := by
  have h1 := cons_phaseWrite a tw it.wr
  unfold body
  generalize phaseWrite a tw it.wr = r1 at h1 ⊢
  obtain ⟨a1, o1⟩ := r1
  cases o1 with
  | some e => exact h1
  | none =>
    simp only
    have h2 := cons_phaseSignals a1 sg it.sigs it.sizeOk
    generalize phaseSignals a1 sg it.sigs it.sizeOk = r2 at h2 ⊢
    obtain ⟨a2, o2⟩ := r2
    cases o2 with
    | some e => exact h1.trans h2
    | none =>
      simp only
      have h3 := cons_phaseWaker a2 wk it.wk
      generalize phaseWaker a2 wk it.wk = r3 at h3 ⊢
      obtain ⟨a3, o3⟩ := r3
      cases o3 with
      | some e => exact (h1.trans h2).trans h3
      | none => exact (h1.trans h2).trans (h3.trans (cons_phaseInput d a3 tr it.inp))

/-- the accumulator after an iteration -/
def sacc : StepRes ε σ → Acc ε σ
  | .next _ a => a
  | .stop a _ => a

theorem cons_step (d : Dec ε σ) (dl : Option Nat) (it : Iter) (first : Bool) (a : Acc ε σ) :
    Cons a (sacc (step d dl it first a)) := by
  unfold step
  generalize delayOf dl it.now first = dly
  cases dly with
  | brk => exact Cons.refl a
  | wait delay =>
    have h0 : Cons a (a.sys (.select delay (!a.st.wq.isEmpty))) := cons_sys a _ (by intro o k h; cases h)
    dsimp only
    generalize it.sel = sel
    cases sel with
    | retry => exact h0
    | fail => exact h0
    | ready wk sg tr tw =>
      dsimp only
      have hb := cons_body d (a.sys (.select delay (!a.st.wq.isEmpty))) it wk sg tr (tw && !a.st.wq.isEmpty)
      generalize body d (a.sys (.select delay (!a.st.wq.isEmpty))) it wk sg tr (tw && !a.st.wq.isEmpty) = rb at hb ⊢
      obtain ⟨a1, o⟩ := rb
      cases o with
      | some e => exact h0.trans hb
      | none => exact h0.trans hb

theorem cons_loop (d : Dec ε σ) (dl : Option Nat) (its : List Iter) (first : Bool) (a : Acc ε σ) :
    Cons a (loop d dl its first a).acc := by
  induction its generalizing first a with
  | nil => unfold loop; split <;> exact Cons.refl a
  | cons it rest ih =>
    unfold loop
    split
    · have hs := cons_step d dl it first a
      generalize step d dl it first a = r at hs ⊢
      cases r with
      | next f a' => exact hs.trans (ih _ _)
      | stop a' ex => exact hs
    · exact Cons.refl a

/-- conservation across one `poll`: handed by this poll ++ still queued = queued before ++ queued by the loop -/
theorem poll_cons (d : Dec ε σ) (st : St ε σ) (to : Option Nat) (env : PollEnv) :
    ∃ inj, handed (poll d st to env).log ++ flat (poll d st to env).st.wq = flat st.wq ++ inj := by
  have h := cons_loop d (to.map (env.start + ·)) env.its true (⟨{ st with wq := st.wq.flush }, [], []⟩ : Acc ε σ)
  obtain ⟨inj, e⟩ := h
  refine ⟨inj, ?_⟩
  simp only [handed, List.nil_append, flat_flush] at e
  unfold poll
  simp only
  split
  · split <;> simpa using e
  · simpa using e
  · simpa using e

theorem waitSync_cons (d : Dec ε σ) (polls : List PollEnv) (st : St ε σ) (log : List Sys) :
    ∃ inj, handed (waitSync d polls st log).2.1 ++ flat (waitSync d polls st log).1.wq
      = handed log ++ flat st.wq ++ inj := by
  induction polls generalizing st log with
  | nil => exact ⟨[], by simp [waitSync]⟩
  | cons env rest ih =>
    obtain ⟨inj, e⟩ := poll_cons d st (some second) env
    have base : handed (log ++ (poll d st (some second) env).log) ++ flat (poll d st (some second) env).st.wq
        = handed log ++ flat st.wq ++ inj := by
      rw [handed_append, List.append_assoc, e]; simp
    unfold waitSync
    simp only
    split
    · exact ⟨inj, base⟩
    · exact ⟨inj, base⟩
    · exact ⟨inj, base⟩
    · split
      · exact ⟨inj, base⟩
      · obtain ⟨inj2, e2⟩ := ih (poll d st (some second) env).st (log ++ (poll d st (some second) env).log)
        exact ⟨inj ++ inj2, by rw [e2, base]; simp⟩
    · obtain ⟨inj2, e2⟩ := ih (poll d st (some second) env).st (log ++ (poll d st (some second) env).log)
      exact ⟨inj ++ inj2, by rw [e2, base]; simp⟩

/-- `execute_many` with every command succeeding queues the whole closing sequence -/
theorem flat_execMany_ok (cmds : List (List Nat)) (q : WQ) (as : List ExecAns) (hok : ∀ a ∈ as, a = .ok) :
    flat (execMany q cmds as) = flat q ++ cmds.flatten := by
  induction cmds generalizing q as with
  | nil => simp [execMany]
  | cons c cs ih =>
    cases as with
    | nil => simp [execMany, ih _ [] (by simp), flat_write]
    | cons a as =>
      have : a = .ok := hok a (by simp)
      subst this
      simp [execMany, ih _ as (fun x hx => hok x (by simp [hx])), flat_write]

/-! ## events pushed, pipe drains and decoded input -/

def isWake : Ev ε → Bool
  | .wake => true
  | _ => false

/-- number of `Wake` events in a list -/
def wakesIn (l : List (Ev ε)) : Nat := l.countP isWake

def inputOf : Ev ε → Option ε
  | .input e => some e
  | _ => none

/-- the decoder events in a list of queue entries, in order -/
def inputsOf (l : List (Ev ε)) : List ε := l.filterMap inputOf

def isDrain : Sys → Bool
  | .wakerRead k => k != 0
  | _ => false

/-- number of reads of the waker pipe that returned at least one byte -/
def drains (l : List Sys) : Nat := l.countP isDrain

def chunkOf : Sys → Option (List Nat)
  | .ttyRead bs => if bs.isEmpty then none else some bs
  | _ => none

/-- the non-empty chunks read from the tty, in order -/
def chunks (l : List Sys) : List (List Nat) := l.filterMap chunkOf

/-- feed the chunks to the decoder one after the other -/
def feedAll (d : Dec ε σ) : σ → List (List Nat) → σ × List ε
  | s, [] => (s, [])
  | s, c :: cs =>
    let r := d.feed s c
    let r' := feedAll d r.1 cs
    (r'.1, r.2 ++ r'.2)

/-- not consumed by the image handler -/
def unhandled (d : Dec ε σ) (e : ε) : Bool := !(d.handle e).1

theorem feedAll_append (d : Dec ε σ) (s : σ) (c1 c2 : List (List Nat)) :
    feedAll d s (c1 ++ c2) =
      ((feedAll d (feedAll d s c1).1 c2).1, (feedAll d s c1).2 ++ (feedAll d (feedAll d s c1).1 c2).2) := by
  induction c1 generalizing s with
  | nil => simp [feedAll]
  | cons c cs ih => simp [feedAll, ih]

/-- what an iteration (or a whole loop) did to the event queue, the log and the decoder -/
def Trk (d : Dec ε σ) (a a' : Acc ε σ) : Prop :=
  ∃ ext dlog, a'.st.evq = a.st.evq ++ ext ∧ a'.pushed = a.pushed ++ ext ∧ a'.log = a.log ++ dlog ∧
    a'.st.sizeEsc = a.st.sizeEsc ∧
    wakesIn ext = drains dlog ∧ (∀ k, Sys.wakerRead k ∈ dlog → k ≤ 1024) ∧
    a'.st.dec = (feedAll d a.st.dec (chunks dlog)).1 ∧
    inputsOf ext = ((feedAll d a.st.dec (chunks dlog)).2).filter (unhandled d)

theorem Trk.refl (d : Dec ε σ) (a : Acc ε σ) : Trk d a a :=
  ⟨[], [], by simp, by simp, by simp, rfl, by simp [wakesIn, drains], by simp, by simp [chunks, feedAll],
    by simp [inputsOf, chunks, feedAll]⟩

theorem Trk.trans {d : Dec ε σ} {a b c : Acc ε σ} (h1 : Trk d a b) (h2 : Trk d b c) : Trk d a c := by
  obtain ⟨e1, l1, q1, p1, g1, z1, w1, b1, d1, i1⟩ := h1
  obtain ⟨e2, l2, q2, p2, g2, z2, w2, b2, d2, i2⟩ := h2
  refine ⟨e1 ++ e2, l1 ++ l2, by rw [q2, q1]; simp, by rw [p2, p1]; simp, by rw [g2, g1]; simp, by rw [z2, z1],
    by simp [wakesIn, drains, List.countP_append] at *; omega, ?_, ?_, ?_⟩
  · intro k hk
    rcases List.mem_append.mp hk with h | h
    · exact b1 k h
    · exact b2 k h
  · rw [d2, d1]; simp [chunks, List.filterMap_append, feedAll_append]
  · simp only [inputsOf, List.filterMap_append, chunks] at *
    rw [feedAll_append, List.filter_append, i1, i2, d1]

/-- a system call that is neither a non-empty drain nor a non-empty tty read -/
def Quiet : Sys → Prop
  | .wakerRead k => k = 0
  | .ttyRead bs => bs = []
  | _ => True

theorem trk_sys (d : Dec ε σ) (a : Acc ε σ) (s : Sys) (hs : Quiet s) : Trk d a (a.sys s) := by
  have hc : chunks [s] = [] := by cases s <;> simp_all [chunks, chunkOf, Quiet]
  refine ⟨[], [s], by simp [Acc.sys], by simp [Acc.sys], by simp [Acc.sys], rfl, ?_, ?_, ?_, ?_⟩
  · cases s <;> simp_all [wakesIn, drains, isDrain, Quiet]
  · intro k hk
    cases s <;> simp_all [Quiet]
  · simp [hc, feedAll, Acc.sys]
  · simp [hc, feedAll, inputsOf]

theorem trk_resize (d : Dec ε σ) (a : Acc ε σ) : Trk d a (a.push .resize) :=
  ⟨[.resize], [], by simp [Acc.push], by simp [Acc.push], by simp [Acc.push], rfl,
    by simp [wakesIn, drains, isWake], by simp, by simp [chunks, feedAll, Acc.push],
    by simp [inputsOf, inputOf, chunks, feedAll]⟩

theorem trk_setWq (d : Dec ε σ) (a : Acc ε σ) (q : WQ) : Trk d a (a.setWq q) :=
  ⟨[], [], by simp [Acc.setWq], by simp [Acc.setWq], by simp [Acc.setWq], rfl, by simp [wakesIn, drains], by simp,
    by simp [chunks, feedAll, Acc.setWq], by simp [inputsOf, chunks, feedAll]⟩

theorem trk_phaseWrite (d : Dec ε σ) (a : Acc ε σ) (tw : Bool) (wr : IoAns) : Trk d a (phaseWrite a tw wr).1 := by
  cases tw with
  | false => simp only [phaseWrite, Bool.false_eq_true, ↓reduceIte]; exact Trk.refl d a
  | true =>
    cases wr with
    | fail => simp only [phaseWrite, ↓reduceIte]; exact trk_sys d a _ (by trivial)
    | again => simp only [phaseWrite, ↓reduceIte]; exact (trk_sys d a _ (by trivial)).trans (trk_setWq d _ _)
    | n k => simp only [phaseWrite, ↓reduceIte]; exact (trk_sys d a _ (by trivial)).trans (trk_setWq d _ _)

theorem trk_signalLoop (d : Dec ε σ) (sizeOk : Bool) (sigs : List Sig) (a : Acc ε σ) :
    Trk d a (signalLoop a sizeOk sigs).1 := by
  induction sigs generalizing a with
  | nil => exact Trk.refl d a
  | cons s rest ih =>
    cases s with
    | winch =>
      simp only [signalLoop]
      split
      · exact (trk_setWq d a _).trans (ih _)
      · split
        · exact ((trk_sys d a .ioctlSize trivial).trans (trk_resize d _)).trans (ih _)
        · exact trk_sys d a .ioctlSize trivial
    | term => exact Trk.refl d a
    | int => exact Trk.refl d a
    | quit => exact Trk.refl d a
    | other => exact ih a

theorem trk_phaseSignals (d : Dec ε σ) (a : Acc ε σ) (sr : Bool) (sigs : List Sig) (ok : Bool) :
    Trk d a (phaseSignals a sr sigs ok).1 := by
  cases sr with
  | false => simp only [phaseSignals, Bool.false_eq_true, ↓reduceIte]; exact Trk.refl d a
  | true =>
    simp only [phaseSignals, ↓reduceIte]
    exact (trk_sys d a .sigPending trivial).trans (trk_signalLoop d ok sigs _)

theorem trk_wake (d : Dec ε σ) (a : Acc ε σ) (k : Nat) (hk : k ≠ 0) (hb : k ≤ 1024) :
    Trk d a ((a.sys (.wakerRead k)).push .wake) :=
  have hc : chunks [Sys.wakerRead k] = [] := rfl
  ⟨[.wake], [.wakerRead k], by simp [Acc.push, Acc.sys], by simp [Acc.push, Acc.sys], by simp [Acc.push, Acc.sys], rfl,
    by simp [wakesIn, drains, isWake, isDrain, hk], by simp; omega, by simp [hc, feedAll, Acc.push, Acc.sys],
    by simp [inputsOf, inputOf, hc, feedAll]⟩

theorem trk_phaseWaker (d : Dec ε σ) (a : Acc ε σ) (wr : Bool) (wk : IoAns) : Trk d a (phaseWaker a wr wk).1 := by
  cases wr with
  | false => simp only [phaseWaker, Bool.false_eq_true, ↓reduceIte]; exact Trk.refl d a
  | true =>
    cases wk with
    | fail => simp only [phaseWaker, ↓reduceIte]; exact Trk.refl d a
    | again => simp only [phaseWaker, ↓reduceIte]; exact trk_sys d a _ (by rfl)
    | n k =>
      simp only [phaseWaker, ↓reduceIte]
      split
      · rename_i h
        exact trk_wake d a _ (by simpa using h) (Nat.min_le_right _ _)
      · exact trk_sys d a _ (by rfl)

/-- the decode loop appends, for the events `es`, the unhandled ones (and `Resize` entries), nothing else -/
theorem pushDecoded_spec (d : Dec ε σ) (es : List ε) (a : Acc ε σ) :
    ∃ ext, (pushDecoded d a es).st.evq = a.st.evq ++ ext ∧ (pushDecoded d a es).pushed = a.pushed ++ ext ∧
      (pushDecoded d a es).log = a.log ∧ (pushDecoded d a es).st.sizeEsc = a.st.sizeEsc ∧
      (pushDecoded d a es).st.dec = a.st.dec ∧ wakesIn ext = 0 ∧ inputsOf ext = es.filter (unhandled d) := by
  induction es generalizing a with
  | nil => exact ⟨[], by simp [pushDecoded], by simp [pushDecoded], rfl, rfl, rfl, by simp [wakesIn], by simp [inputsOf]⟩
  | cons e es ih =>
    simp only [pushDecoded]
    generalize ha1 : (if d.isSize e && a.st.sizeEsc then a.push .resize else a) = a1
    generalize ha2 : (if (d.handle e).2.isEmpty then a1 else a1.setWq (a1.st.wq.write (d.handle e).2)) = a2
    generalize ha3 : (if (d.handle e).1 then a2 else a2.push (.input e)) = a3
    obtain ⟨ext, q, p, g, z, dd, w, i⟩ := ih a3
    -- the three conditional updates
    have h1 : ∃ x1, a1.st.evq = a.st.evq ++ x1 ∧ a1.pushed = a.pushed ++ x1 ∧ a1.log = a.log ∧
        a1.st.sizeEsc = a.st.sizeEsc ∧ a1.st.dec = a.st.dec ∧ wakesIn x1 = 0 ∧ inputsOf x1 = [] := by
      subst ha1
      split
      · exact ⟨[.resize], by simp [Acc.push], by simp [Acc.push], rfl, rfl, rfl, by simp [wakesIn, isWake], by simp [inputsOf, inputOf]⟩
      · exact ⟨[], by simp, by simp, rfl, rfl, rfl, by simp [wakesIn], by simp [inputsOf]⟩
    have h2 : a2.st.evq = a1.st.evq ∧ a2.pushed = a1.pushed ∧ a2.log = a1.log ∧ a2.st.sizeEsc = a1.st.sizeEsc ∧
        a2.st.dec = a1.st.dec := by
      subst ha2
      split <;> simp [Acc.setWq]
    have h3 : ∃ x3, a3.st.evq = a2.st.evq ++ x3 ∧ a3.pushed = a2.pushed ++ x3 ∧ a3.log = a2.log ∧
        a3.st.sizeEsc = a2.st.sizeEsc ∧ a3.st.dec = a2.st.dec ∧ wakesIn x3 = 0 ∧
        inputsOf x3 = [e].filter (unhandled d) := by
      subst ha3
      by_cases hh : (d.handle e).1 = true
      · rw [if_pos hh]
        exact ⟨[], by simp, by simp, rfl, rfl, rfl, by simp [wakesIn], by simp [inputsOf, unhandled, hh]⟩
      · rw [if_neg hh]
        exact ⟨[.input e], by simp [Acc.push], by simp [Acc.push], rfl, rfl, rfl, by simp [wakesIn, isWake],
          by simp [inputsOf, inputOf, unhandled, hh]⟩
    obtain ⟨x1, q1, p1, g1, z1, d1, w1, i1⟩ := h1
    obtain ⟨q2, p2, g2, z2, d2⟩ := h2
    obtain ⟨x3, q3, p3, g3, z3, d3, w3, i3⟩ := h3
    refine ⟨x1 ++ x3 ++ ext, by rw [q, q3, q2, q1]; simp, by rw [p, p3, p2, p1]; simp, by rw [g, g3, g2, g1],
      by rw [z, z3, z2, z1], by rw [dd, d3, d2, d1], ?_, ?_⟩
    · simp only [wakesIn, List.countP_append] at *; omega
    · simp only [inputsOf, List.filterMap_append] at *
      rw [i1, i3, i]
      simp [List.filter_cons]
      split <;> simp

theorem trk_phaseInput (d : Dec ε σ) (a : Acc ε σ) (tr : Bool) (inp : InAns) : Trk d a (phaseInput d a tr inp).1 := by
  cases tr with
  | false => simp only [phaseInput, Bool.false_eq_true, ↓reduceIte]; exact Trk.refl d a
  | true =>
    cases inp with
    | fail => simp only [phaseInput, ↓reduceIte]; exact Trk.refl d a
    | again => simp only [phaseInput, ↓reduceIte]; exact trk_sys d a _ (by rfl)
    | bytes bs =>
      simp only [phaseInput, ↓reduceIte]
      split
      · exact trk_sys d a _ (by rfl)
      · rename_i hne
        obtain ⟨ext, q, p, g, z, dd, w, i⟩ := pushDecoded_spec d (d.feed a.st.dec (bs.take 1024)).2
          ((a.sys (.ttyRead (bs.take 1024))).setDec (d.feed a.st.dec (bs.take 1024)).1)
        have hc : chunks [Sys.ttyRead (bs.take 1024)] = [bs.take 1024] := by
          simp [chunks, chunkOf, hne]
        refine ⟨ext, [.ttyRead (bs.take 1024)], by rw [q]; simp [Acc.setDec, Acc.sys], by rw [p]; simp [Acc.setDec, Acc.sys],
          by rw [g]; simp [Acc.setDec, Acc.sys], by rw [z]; simp [Acc.setDec, Acc.sys], by rw [w]; simp [drains, isDrain],
          by simp, ?_, ?_⟩
        · rw [dd, hc]; simp [feedAll, Acc.setDec]
        · rw [i, hc]; simp [feedAll]

theorem trk_body (d : Dec ε σ) (a : Acc ε σ) (it : Iter) (wk sg tr tw : Bool) : Trk d a (body d a it wk sg tr tw).1 := by
  have h1 := trk_phaseWrite d a tw it.wr
  unfold body
  generalize phaseWrite a tw it.wr = r1 at h1 ⊢
  obtain ⟨a1, o1⟩ := r1
  cases o1 with
  | some e => exact h1
  | none =>
    simp only
    have h2 := trk_phaseSignals d a1 sg it.sigs it.sizeOk
    generalize phaseSignals a1 sg it.sigs it.sizeOk = r2 at h2 ⊢
    obtain ⟨a2, o2⟩ := r2
    cases o2 with
    | some e => exact h1.trans h2
    | none =>
      simp only
      have h3 := trk_phaseWaker d a2 wk it.wk
      generalize phaseWaker a2 wk it.wk = r3 at h3 ⊢
      obtain ⟨a3, o3⟩ := r3
      cases o3 with
      | some e => exact (h1.trans h2).trans h3
      | none => exact (h1.trans h2).trans (h3.trans (trk_phaseInput d a3 tr it.inp))

theorem trk_step (d : Dec ε σ) (dl : Option Nat) (it : Iter) (first : Bool) (a : Acc ε σ) :
    Trk d a (sacc (step d dl it first a)) := by
  unfold step
  generalize delayOf dl it.now first = dly
  cases dly with
  | brk => exact Trk.refl d a
  | wait delay =>
    have h0 : Trk d a (a.sys (.select delay (!a.st.wq.isEmpty))) := trk_sys d a _ (by trivial)
    dsimp only
    generalize it.sel = sel
    cases sel with
    | retry => exact h0
    | fail => exact h0
    | ready wk sg tr tw =>
      dsimp only
      have hb := trk_body d (a.sys (.select delay (!a.st.wq.isEmpty))) it wk sg tr (tw && !a.st.wq.isEmpty)
      generalize body d (a.sys (.select delay (!a.st.wq.isEmpty))) it wk sg tr (tw && !a.st.wq.isEmpty) = rb at hb ⊢
      obtain ⟨a1, o⟩ := rb
      cases o with
      | some e => exact h0.trans hb
      | none => exact h0.trans hb

theorem trk_loop (d : Dec ε σ) (dl : Option Nat) (its : List Iter) (first : Bool) (a : Acc ε σ) :
    Trk d a (loop d dl its first a).acc := by
  induction its generalizing first a with
  | nil => unfold loop; split <;> exact Trk.refl d a
  | cons it rest ih =>
    unfold loop
    split
    · have hs := trk_step d dl it first a
      generalize step d dl it first a = r at hs ⊢
      cases r with
      | next f a' => exact hs.trans (ih _ _)
      | stop a' ex => exact hs
    · exact Trk.refl d a

theorem trk_wakes_mono {d : Dec ε σ} {a a' : Acc ε σ} (h : Trk d a a') : wakesIn a.pushed ≤ wakesIn a'.pushed := by
  obtain ⟨ext, _, _, p, _⟩ := h
  rw [p]; simp [wakesIn, List.countP_append]

/-- bytes taken out of the waker pipe by a run of system calls -/
def drainedOf : Sys → Nat
  | .wakerRead k => k
  | _ => 0

def drained (l : List Sys) : Nat := (l.map drainedOf).sum

theorem drained_zero_of_drains_zero (l : List Sys) (h : drains l = 0) : drained l = 0 := by
  induction l with
  | nil => rfl
  | cons s l ih =>
    simp only [drains, List.countP_cons] at h
    have h1 : List.countP isDrain l = 0 := by omega
    have h2 : isDrain s = false := by
      cases hs : isDrain s
      · rfl
      · simp [hs] at h
    have : drainedOf s = 0 := by
      cases s <;> simp_all [isDrain, drainedOf]
    have ih' := ih h1
    simp only [drained, List.map_cons, List.sum_cons, this] at *
    omega

/-- an iteration whose `select` reports the waker pipe readable and whose read returns at least one byte
pushes `Wake`, unless it is not executed at all (deadline passed) or ends the poll with an error first -/
theorem step_wake_progress (d : Dec ε σ) (dl : Option Nat) (it : Iter) (first : Bool) (a : Acc ε σ)
    (sg tr tw : Bool) (k : Nat) (hsel : it.sel = .ready true sg tr tw) (hk : it.wk = .n k) (hk1 : 1 ≤ k) :
    step d dl it first a = .stop a .ok ∨ (∃ a' e, step d dl it first a = .stop a' (.err e)) ∨
      wakesIn a.pushed + 1 ≤ wakesIn (sacc (step d dl it first a)).pushed := by
  unfold step
  generalize delayOf dl it.now first = dly
  cases dly with
  | brk => exact Or.inl rfl
  | wait delay =>
    right
    dsimp only
    rw [hsel]
    dsimp only
    have e0 : wakesIn (a.sys (.select delay (!a.st.wq.isEmpty))).pushed = wakesIn a.pushed := rfl
    generalize (a.sys (.select delay (!a.st.wq.isEmpty))) = a0 at e0 ⊢
    unfold body
    have h1 := trk_wakes_mono (trk_phaseWrite d a0 (tw && !a.st.wq.isEmpty) it.wr)
    generalize phaseWrite a0 (tw && !a.st.wq.isEmpty) it.wr = r1 at h1 ⊢
    obtain ⟨a1, o1⟩ := r1
    cases o1 with
    | some e => exact Or.inl ⟨_, _, rfl⟩
    | none =>
      simp only
      have h2 := trk_wakes_mono (trk_phaseSignals d a1 sg it.sigs it.sizeOk)
      generalize phaseSignals a1 sg it.sigs it.sizeOk = r2 at h2 ⊢
      obtain ⟨a2, o2⟩ := r2
      cases o2 with
      | some e => exact Or.inl ⟨_, _, rfl⟩
      | none =>
        simp only
        have hw : phaseWaker a2 true it.wk = ((a2.sys (.wakerRead (min k 1024))).push .wake, none) := by
          rw [hk]
          have : (min k 1024 != 0) = true := by simp; omega
          simp [phaseWaker, this]
        rw [hw]
        simp only
        have h4 := trk_wakes_mono (trk_phaseInput d ((a2.sys (.wakerRead (min k 1024))).push .wake) tr it.inp)
        have h3 : wakesIn ((a2.sys (.wakerRead (min k 1024))).push .wake).pushed = wakesIn a2.pushed + 1 := by
          simp [Acc.push, Acc.sys, wakesIn, List.countP_append, isWake]
        generalize phaseInput d ((a2.sys (.wakerRead (min k 1024))).push .wake) tr it.inp = r4 at h4 ⊢
        obtain ⟨a4, o4⟩ := r4
        cases o4 with
        | some e => exact Or.inl ⟨_, _, rfl⟩
        | none =>
          right
          simp only [sacc] at *
          omega

/-- the fields of `poll`'s result in terms of the loop -/
theorem poll_fields (d : Dec ε σ) (st : St ε σ) (to : Option Nat) (env : PollEnv) :
    let a0 : Acc ε σ := ⟨{ st with wq := st.wq.flush }, [], []⟩
    let l := loop d (to.map (env.start + ·)) env.its true a0
    (poll d st to env).log = l.acc.log ∧ (poll d st to env).pushed = l.acc.pushed ∧
    (poll d st to env).st.dec = l.acc.st.dec ∧ (poll d st to env).st.wq = l.acc.st.wq ∧
    (poll d st to env).rest = l.rest ∧
    (match (poll d st to env).res with
     | .ok (some e) => l.exit = .ok ∧ l.acc.st.evq = e :: (poll d st to env).st.evq
     | .ok none => l.exit = .ok ∧ l.acc.st.evq = [] ∧ (poll d st to env).st.evq = []
     | .err e => l.exit = .err e ∧ (poll d st to env).st.evq = l.acc.st.evq
     | .blocked => l.exit = .blocked ∧ (poll d st to env).st.evq = l.acc.st.evq) := by
  intro a0 l
  unfold poll
  simp only
  split
  · rename_i hx
    split
    · rename_i he; exact ⟨rfl, rfl, rfl, rfl, rfl, hx, he, he⟩
    · rename_i e es he; exact ⟨rfl, rfl, rfl, rfl, rfl, hx, he⟩
  · rename_i e hx; exact ⟨rfl, rfl, rfl, rfl, rfl, hx, rfl⟩
  · rename_i hx; exact ⟨rfl, rfl, rfl, rfl, rfl, hx, rfl⟩

/-- a termination signal in the pending set ends the signal phase with `Quit` when `size()` does not fail -/
theorem signalLoop_quit (sigs : List Sig) (a : Acc ε σ)
    (h : ∃ s ∈ sigs, s = .term ∨ s = .int ∨ s = .quit) : (signalLoop a true sigs).2 = some .quit := by
  induction sigs generalizing a with
  | nil => obtain ⟨s, hs, _⟩ := h; cases hs
  | cons s rest ih =>
    have hrest : (s = .term ∨ s = .int ∨ s = .quit) ∨ ∃ s' ∈ rest, s' = .term ∨ s' = .int ∨ s' = .quit := by
      obtain ⟨s', hs, ht⟩ := h
      rcases List.mem_cons.mp hs with e | e
      · left; rw [← e]; exact ht
      · right; exact ⟨s', e, ht⟩
    cases s with
    | winch =>
      rcases hrest with h1 | h1
      · rcases h1 with h | h | h <;> cases h
      · simp only [signalLoop]
        split
        · exact ih _ h1
        · simp only [↓reduceIte]; exact ih _ h1
    | term => rfl
    | int => rfl
    | quit => rfl
    | other =>
      rcases hrest with h1 | h1
      · rcases h1 with h | h | h <;> cases h
      · exact ih _ h1

def isSelect : Sys → Bool
  | .select _ _ => true
  | _ => false

/-- the phases of an iteration never call `select` -/
def NoSel (a a' : Acc ε σ) : Prop := ∃ l, a'.log = a.log ++ l ∧ l.countP isSelect = 0

theorem NoSel.refl (a : Acc ε σ) : NoSel a a := ⟨[], by simp, rfl⟩
theorem NoSel.trans {a b c : Acc ε σ} (h1 : NoSel a b) (h2 : NoSel b c) : NoSel a c := by
  obtain ⟨l1, e1, c1⟩ := h1
  obtain ⟨l2, e2, c2⟩ := h2
  exact ⟨l1 ++ l2, by rw [e2, e1]; simp, by simp [List.countP_append, c1, c2]⟩
theorem nosel_sys (a : Acc ε σ) (s : Sys) (h : isSelect s = false) : NoSel a (a.sys s) :=
  ⟨[s], rfl, by simp [h]⟩
theorem nosel_of_log {a a' : Acc ε σ} (h : a'.log = a.log) : NoSel a a' := ⟨[], by simp [h], rfl⟩

theorem nosel_phaseWrite (a : Acc ε σ) (tw : Bool) (wr : IoAns) : NoSel a (phaseWrite a tw wr).1 := by
  cases tw with
  | false => simp only [phaseWrite, Bool.false_eq_true, ↓reduceIte]; exact NoSel.refl a
  | true =>
    cases wr with
    | fail => simp only [phaseWrite, ↓reduceIte]; exact nosel_sys a _ rfl
    | again => simp only [phaseWrite, ↓reduceIte]; exact (nosel_sys a _ rfl).trans (nosel_of_log rfl)
    | n k => simp only [phaseWrite, ↓reduceIte]; exact (nosel_sys a _ rfl).trans (nosel_of_log rfl)

theorem nosel_signalLoop (sizeOk : Bool) (sigs : List Sig) (a : Acc ε σ) : NoSel a (signalLoop a sizeOk sigs).1 := by
  induction sigs generalizing a with
  | nil => exact NoSel.refl a
  | cons s rest ih =>
    cases s with
    | winch =>
      simp only [signalLoop]
      split
      · exact (nosel_of_log (a' := a.setWq _) rfl).trans (ih _)
      · split
        · exact ((nosel_sys a .ioctlSize rfl).trans (nosel_of_log (a' := (a.sys .ioctlSize).push .resize) rfl)).trans (ih _)
        · exact nosel_sys a .ioctlSize rfl
    | term => exact NoSel.refl a
    | int => exact NoSel.refl a
    | quit => exact NoSel.refl a
    | other => exact ih a

theorem nosel_phaseSignals (a : Acc ε σ) (sr : Bool) (sigs : List Sig) (ok : Bool) :
    NoSel a (phaseSignals a sr sigs ok).1 := by
  cases sr with
  | false => simp only [phaseSignals, Bool.false_eq_true, ↓reduceIte]; exact NoSel.refl a
  | true =>
    simp only [phaseSignals, ↓reduceIte]
    exact (nosel_sys a .sigPending rfl).trans (nosel_signalLoop ok sigs _)

theorem nosel_phaseWaker (a : Acc ε σ) (wr : Bool) (wk : IoAns) : NoSel a (phaseWaker a wr wk).1 := by
  cases wr with
  | false => simp only [phaseWaker, Bool.false_eq_true, ↓reduceIte]; exact NoSel.refl a
  | true =>
    cases wk with
    | fail => simp only [phaseWaker, ↓reduceIte]; exact NoSel.refl a
    | again => simp only [phaseWaker, ↓reduceIte]; exact nosel_sys a _ rfl
    | n k =>
      simp only [phaseWaker, ↓reduceIte]
      split
      · exact (nosel_sys a _ rfl).trans (nosel_of_log rfl)
      · exact nosel_sys a _ rfl

theorem nosel_phaseInput (d : Dec ε σ) (a : Acc ε σ) (tr : Bool) (inp : InAns) : NoSel a (phaseInput d a tr inp).1 := by
  cases tr with
  | false => simp only [phaseInput, Bool.false_eq_true, ↓reduceIte]; exact NoSel.refl a
  | true =>
    cases inp with
    | fail => simp only [phaseInput, ↓reduceIte]; exact NoSel.refl a
    | again => simp only [phaseInput, ↓reduceIte]; exact nosel_sys a _ rfl
    | bytes bs =>
      simp only [phaseInput, ↓reduceIte]
      split
      · exact nosel_sys a _ rfl
      · obtain ⟨_, _, _, g, _⟩ := pushDecoded_spec d (d.feed a.st.dec (bs.take 1024)).2
          ((a.sys (.ttyRead (bs.take 1024))).setDec (d.feed a.st.dec (bs.take 1024)).1)
        exact (nosel_sys a (.ttyRead (bs.take 1024)) rfl).trans (nosel_of_log (by rw [g]; rfl))

theorem nosel_body (d : Dec ε σ) (a : Acc ε σ) (it : Iter) (wk sg tr tw : Bool) : NoSel a (body d a it wk sg tr tw).1 := by
  have h1 := nosel_phaseWrite a tw it.wr
  unfold body
  generalize phaseWrite a tw it.wr = r1 at h1 ⊢
  obtain ⟨a1, o1⟩ := r1
  cases o1 with
  | some e => exact h1
  | none =>
    simp only
    have h2 := nosel_phaseSignals a1 sg it.sigs it.sizeOk
    generalize phaseSignals a1 sg it.sigs it.sizeOk = r2 at h2 ⊢
    obtain ⟨a2, o2⟩ := r2
    cases o2 with
    | some e => exact h1.trans h2
    | none =>
      simp only
      have h3 := nosel_phaseWaker a2 wk it.wk
      generalize phaseWaker a2 wk it.wk = r3 at h3 ⊢
      obtain ⟨a3, o3⟩ := r3
      cases o3 with
      | some e => exact (h1.trans h2).trans h3
      | none => exact (h1.trans h2).trans (h3.trans (nosel_phaseInput d a3 tr it.inp))

/-- number of `select` calls in a log -/
def selects (l : List Sys) : Nat := l.countP isSelect

theorem body_no_select (d : Dec ε σ) (a : Acc ε σ) (it : Iter) (wk sg tr tw : Bool) :
    selects (body d a it wk sg tr tw).1.log = selects a.log := by
  obtain ⟨l, e, c⟩ := nosel_body d a it wk sg tr tw
  rw [e]; simp [selects, List.countP_append, c]

/-! ## window-size signals -/

def isResize : Ev ε → Bool
  | .resize => true
  | _ => false

/-- number of `Resize` entries in a list of queue entries -/
def resizesIn (l : List (Ev ε)) : Nat := l.countP isResize

def isTermSig : Sig → Bool
  | .term | .int | .quit => true
  | _ => false

/-- number of SIGWINCH in a pending set -/
def winches (sigs : List Sig) : Nat := sigs.countP (fun s => s == .winch)

theorem trk_resizes_mono {d : Dec ε σ} {a a' : Acc ε σ} (h : Trk d a a') : resizesIn a.pushed ≤ resizesIn a'.pushed := by
  obtain ⟨ext, _, _, p, _⟩ := h
  rw [p]; simp [resizesIn, List.countP_append]

theorem phaseWrite_ok (a : Acc ε σ) (tw : Bool) (wr : IoAns) (h : wr ≠ .fail) :
    (phaseWrite a tw wr).2 = none ∧ (phaseWrite a tw wr).1.pushed = a.pushed ∧
      (phaseWrite a tw wr).1.st.sizeEsc = a.st.sizeEsc ∧ (phaseWrite a tw wr).1.st.evq = a.st.evq := by
  cases tw with
  | false => simp [phaseWrite]
  | true =>
    cases wr with
    | fail => exact absurd rfl h
    | again => simp [phaseWrite, Acc.sys, Acc.setWq]
    | n k => simp [phaseWrite, Acc.sys, Acc.setWq]

/-- ioctl size: without termination signals in the pending set and with `size()` working, the signal phase queues
exactly one `Resize` per SIGWINCH, at the end of the queue, and reports no error -/
theorem signalLoop_winch_ioctl (sigs : List Sig) (a : Acc ε σ) (hm : a.st.sizeEsc = false)
    (hnt : ∀ s ∈ sigs, isTermSig s = false) :
    (signalLoop a true sigs).2 = none ∧
    (signalLoop a true sigs).1.pushed = a.pushed ++ List.replicate (winches sigs) .resize ∧
    (signalLoop a true sigs).1.st.evq = a.st.evq ++ List.replicate (winches sigs) .resize ∧
    (signalLoop a true sigs).1.st.sizeEsc = false := by
  induction sigs generalizing a with
  | nil => simp [signalLoop, winches, hm]
  | cons s rest ih =>
    have hrest : ∀ s ∈ rest, isTermSig s = false := fun x hx => hnt x (List.mem_cons_of_mem _ hx)
    have hs := hnt s (List.mem_cons_self ..)
    cases s with
    | winch =>
      simp only [signalLoop, hm, Bool.false_eq_true, ↓reduceIte]
      obtain ⟨h1, h2, h3, h4⟩ := ih ((a.sys .ioctlSize).push .resize) (by simp [Acc.push, Acc.sys, hm]) hrest
      refine ⟨h1, ?_, ?_, h4⟩
      · rw [h2]; simp [Acc.push, Acc.sys, winches, List.replicate_succ]
      · rw [h3]; simp [Acc.push, Acc.sys, winches, List.replicate_succ]
    | term => simp [isTermSig] at hs
    | int => simp [isTermSig] at hs
    | quit => simp [isTermSig] at hs
    | other =>
      obtain ⟨h1, h2, h3, h4⟩ := ih a hm hrest
      have hw : winches (Sig.other :: rest) = winches rest := by simp [winches]
      simp only [signalLoop, hw]
      exact ⟨h1, h2, h3, h4⟩

/-- escape-sequence size: every SIGWINCH appends the size query at the END of the write queue (behind whatever
output is pending); no event is queued by the signal phase itself -/
theorem signalLoop_winch_escape (sigs : List Sig) (a : Acc ε σ) (hm : a.st.sizeEsc = true)
    (hnt : ∀ s ∈ sigs, isTermSig s = false) (ok : Bool) :
    (signalLoop a ok sigs).2 = none ∧
    flat (signalLoop a ok sigs).1.st.wq = flat a.st.wq ++ (List.replicate (winches sigs) getTermSize).flatten ∧
    (signalLoop a ok sigs).1.pushed = a.pushed := by
  induction sigs generalizing a with
  | nil => simp [signalLoop, winches]
  | cons s rest ih =>
    have hrest : ∀ s ∈ rest, isTermSig s = false := fun x hx => hnt x (List.mem_cons_of_mem _ hx)
    have hs := hnt s (List.mem_cons_self ..)
    cases s with
    | winch =>
      simp only [signalLoop, hm, ↓reduceIte]
      obtain ⟨h1, h2, h3⟩ := ih (a.setWq (a.st.wq.write getTermSize)) (by simp [Acc.setWq, hm]) hrest
      refine ⟨h1, ?_, by rw [h3]; rfl⟩
      rw [h2]; simp [Acc.setWq, flat_write, winches, List.replicate_succ]
    | term => simp [isTermSig] at hs
    | int => simp [isTermSig] at hs
    | quit => simp [isTermSig] at hs
    | other =>
      obtain ⟨h1, h2, h3⟩ := ih a hm hrest
      have hw : winches (Sig.other :: rest) = winches rest := by simp [winches]
      simp only [signalLoop, hw]
      exact ⟨h1, h2, h3⟩

/-- escape-sequence size: a size report among the decoded events queues `Resize` -/
theorem pushDecoded_size (d : Dec ε σ) (es : List ε) (a : Acc ε σ) (hm : a.st.sizeEsc = true)
    (e : ε) (he : e ∈ es) (hs : d.isSize e = true) :
    resizesIn a.pushed + 1 ≤ resizesIn (pushDecoded d a es).pushed := by
  induction es generalizing a with
  | nil => cases he
  | cons x xs ih =>
    simp only [pushDecoded]
    generalize ha1 : (if d.isSize x && a.st.sizeEsc then a.push .resize else a) = a1
    generalize ha2 : (if (d.handle x).2.isEmpty then a1 else a1.setWq (a1.st.wq.write (d.handle x).2)) = a2
    generalize ha3 : (if (d.handle x).1 then a2 else a2.push (.input x)) = a3
    have m3 : a3.st.sizeEsc = a.st.sizeEsc ∧ resizesIn a1.pushed ≤ resizesIn a3.pushed := by
      subst ha3 ha2
      constructor
      · subst ha1; split <;> split <;> split <;> simp [Acc.push, Acc.setWq]
      · split <;> split <;> simp [Acc.push, Acc.setWq, resizesIn, List.countP_append]
    have m1 : resizesIn a.pushed ≤ resizesIn a1.pushed := by
      subst ha1; split <;> simp [Acc.push, resizesIn, List.countP_append]
    obtain ⟨ext, _, p, _⟩ := pushDecoded_spec d xs a3
    have mono : resizesIn a3.pushed ≤ resizesIn (pushDecoded d a3 xs).pushed := by
      rw [p]; simp [resizesIn, List.countP_append]
    rcases List.mem_cons.mp he with h | h
    · subst h
      have : resizesIn a1.pushed = resizesIn a.pushed + 1 := by
        subst ha1; simp [hs, hm, Acc.push, resizesIn, List.countP_append, isResize]
      omega
    · have := ih a3 (by rw [m3.1, hm]) h
      omega

/-! ## `position` -/

/-- with no time-out a poll that returns `Ok` returns an event -/
theorem poll_none_some (d : Dec ε σ) (st : St ε σ) (env : PollEnv) : (poll d st none env).res ≠ .ok none := by
  intro h
  obtain ⟨-, -, -, -, -, hres⟩ := poll_fields d st none env
  rw [h] at hres
  obtain ⟨hx, he, -⟩ := hres
  -- the loop left with `ok` although the queue is empty: impossible without a deadline
  have key : ∀ (its : List Iter) (first : Bool) (a : Acc ε σ),
      (loop d none its first a).exit = .ok → goOn (loop d none its first a).acc.st = false := by
    intro its
    induction its with
    | nil =>
      intro first a h
      unfold loop at h ⊢
      split at h
      · cases h
      · rename_i hg; simp only [hg]; simpa using hg
    | cons it rest ih =>
      intro first a h
      unfold loop at h ⊢
      split
      · rename_i hg
        simp only [hg, ↓reduceIte] at h
        have hnb : ∀ a', step d none it first a ≠ .stop a' .ok := by
          intro a'
          unfold step
          simp only [delayOf]
          generalize it.sel = sel
          cases sel with
          | retry => simp
          | fail => simp
          | ready wk sg tr tw =>
            dsimp only
            generalize body d _ it wk sg tr _ = rb
            obtain ⟨a1, o⟩ := rb
            cases o <;> simp
        generalize hst : step d none it first a = sr at h hnb ⊢
        cases sr with
        | next f a' => exact ih f a' h
        | stop a' ex =>
          simp only at h
          subst h
          exact absurd rfl (hnb a')
      · rename_i hg; simpa using hg
  have := key env.its true ⟨{ st with wq := st.wq.flush }, [], []⟩ hx
  simp only [Option.map_none] at he
  simp [goOn, he] at this

end SurfProofs.PollLoopLemmas
