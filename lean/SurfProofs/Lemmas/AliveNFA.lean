import SurfProofs.Lemmas.Tags
import SurfProofs.Lemmas.AliveGraph
namespace SurfProofs.Alive
open SurfModel.Automata SurfProofs.Graph SurfProofs.NFASem SurfProofs.NFAGraph SurfProofs.NFALang SurfProofs.ReMatch
open SurfProofs.ToNFA SurfProofs.Tags

theorem noTags_tagReach {n : NFA} (h : NoTags n.states) (w : List UInt8) (t : Nat) : ¬ TagReach n w t := by
  rintro ⟨q, _, ht⟩
  rw [h q] at ht; cases ht

theorem tagReach_lt {sts : List NState} {t q : Nat} (ht : tagAt sts q = some t) : q < sts.length := by
  rcases Nat.lt_or_ge q sts.length with h | h
  · exact h
  · rw [tagAt_none_of_ge _ _ h] at ht; cases ht

/-! ### `sequence` -/

theorem seqFrom_prefix (ns : List NFA) (hwf : ∀ n ∈ ns, WF n) (extra : List (Nat × Nat))
    (hextra : ∀ x y, (x, y) ∈ extra ↔ ∃ i, i + 1 < ns.length ∧ x = spOf 0 ns i ∧ y = stOf 0 ns (i + 1))
    (j : Nat) (hj : j < ns.length) {i s w t}
    (h : SeqFrom (fun i s u t => Path ((gr (assemble [] ns extra)).inside (Blk 0 ns i)) s u t)
      (stOf 0 ns) (spOf 0 ns) (j + 1) i s w t) :
    s = stOf 0 ns i → ∃ u v, w = u ++ v ∧ SeqLang ((ns.take j).drop i) u ∧
      Path ((gr (assemble [] ns extra)).inside (Blk 0 ns j)) (stOf 0 ns j) v t := by
  induction h with
  | @last i s w t hi hp =>
    intro hs
    have : i = j := by omega
    subst this
    subst hs
    refine ⟨[], w, rfl, ?_, hp⟩
    rw [List.drop_of_length_le (by simp; omega)]
    exact SeqLang.nil
  | @cons i s u v t hi hp _ ih =>
    intro hs
    have hlt : i < ns.length := by omega
    have hn : ns[i]? = some ns[i] := List.getElem?_eq_getElem hlt
    have hw := hwf ns[i] (List.getElem_mem hlt)
    have hl := seg_unlift [] ns extra i ns[i] hn hw (bridge_leaves ns hwf extra hextra i) hp
    rw [hs, stOf_eq 0 ns i _ hn, spOf_eq 0 ns i _ hn] at hl
    simp only [List.length_nil, Nat.add_sub_cancel] at hl
    obtain ⟨u', v', e, h1, h2⟩ := ih rfl
    refine ⟨u ++ u', v', by simp [e], ?_, h2⟩
    have hlt' : i < (ns.take j).length := by simp; omega
    rw [List.drop_eq_getElem_cons hlt']
    have e2 : (ns.take j)[i] = ns[i] := by simp
    rw [e2]
    exact SeqLang.cons hl h1

theorem prefix_path (ns : List NFA) (hwf : ∀ n ∈ ns, WF n) (extra : List (Nat × Nat))
    (hextra : ∀ x y, (x, y) ∈ extra ↔ ∃ i, i + 1 < ns.length ∧ x = spOf 0 ns i ∧ y = stOf 0 ns (i + 1)) :
    ∀ d i j u, i + d = j → j < ns.length → SeqLang ((ns.take j).drop i) u →
      Path (gr (assemble [] ns extra)) (stOf 0 ns i) u (stOf 0 ns j) := by
  intro d
  induction d with
  | zero =>
    intro i j u hij hj h
    have : i = j := by omega
    subst this
    rw [List.drop_of_length_le (by simp; omega)] at h
    cases h
    exact Path.refl _
  | succ d ih =>
    intro i j u hij hj h
    have hlt : i < ns.length := by omega
    have hn : ns[i]? = some ns[i] := List.getElem?_eq_getElem hlt
    have hw := hwf ns[i] (List.getElem_mem hlt)
    have hlt' : i < (ns.take j).length := by simp; omega
    rw [List.drop_eq_getElem_cons hlt'] at h
    have e : (ns.take j)[i] = ns[i] := by simp
    rw [e] at h
    cases h with
    | cons hu hv =>
      have p1 := seg_lift [] ns extra i ns[i] hn hw hu
      have p2 := ih (i + 1) j _ (by omega) hj hv
      have emb := emb_assemble [] ns extra i ns[i] hn hw.states
      have hb : (gr (assemble [] ns extra)).eps (spOf 0 ns i) (stOf 0 ns (i + 1)) := by
        rw [spOf_eq 0 ns i _ hn]
        refine (emb.eps_iff _ _ hw.stop).mpr (Or.inr ?_)
        refine (hextra _ _).mpr ⟨i, by omega, ?_, rfl⟩
        rw [spOf_eq 0 ns i _ hn]; simp
      rw [stOf_eq 0 ns i _ hn]
      rw [spOf_eq 0 ns i _ hn] at hb
      simp only [List.length_nil] at p1
      exact p1.trans (Path.eps hb p2)

/-- the tags alive in a sequence: some operand `i` has its tag alive on the rest of the input after the
    operands before it have matched a prefix -/
theorem sequence_tagReach (ns : List NFA) (hwf : ∀ n ∈ ns, WF n) (w : List UInt8) (t : Nat) :
    TagReach (NFA.sequence ns) w t ↔
      ∃ i n, ns[i]? = some n ∧ ∃ u v, w = u ++ v ∧ SeqLang (ns.take i) u ∧ TagReach n v t := by
  cases ns with
  | nil =>
    have : NFA.sequence [] = NFA.empty := rfl
    rw [this]
    constructor
    · intro h
      exact absurd h (noTags_tagReach (by rw [noTags_iff]; simp [NFA.empty, NState.new]) w t)
    · rintro ⟨i, n, h, _⟩; simp at h
  | cons m rest =>
    have hex := bridges_spec (m :: rest)
    unfold TagReach Reach
    rw [sequence_eq]
    simp only
    have hc := sequence_chain (m :: rest) hwf _ hex
    constructor
    · rintro ⟨q, hp, ht⟩
      have hq := tagReach_lt ht
      simp only [length_assemble, List.length_nil, Nat.zero_add] at hq
      obtain ⟨j, n, hn, h2, h3⟩ := cover (m :: rest) q hq
      have hj : j < (m :: rest).length := by
        rcases Nat.lt_or_ge j (m :: rest).length with h' | h'
        · exact h'
        · rw [List.getElem?_eq_none h'] at hn; cases hn
      have hblk : Blk 0 (m :: rest) j q := ⟨n, hn, by unfold InBlk; omega⟩
      have sf := hc.split' hp 0 j (by simp) hj (blk_st 0 _ hwf 0 (by simp)) hblk
      obtain ⟨u, v, e, h4, h5⟩ := seqFrom_prefix (m :: rest) hwf _ hex j hj sf rfl
      have hw := hwf n (List.mem_of_getElem? hn)
      have p := seg_unlift [] (m :: rest) _ j n hn hw (bridge_leaves (m :: rest) hwf _ hex j) h5
      rw [stOf_eq 0 _ j _ hn] at p
      simp only [List.length_nil, Nat.add_sub_cancel] at p
      refine ⟨j, n, hn, u, v, e, by simpa using h4, q - (0 + base (m :: rest) j), p, ?_⟩
      have := tagAt_assemble_blk [] (m :: rest) (NFA.bridges (NFA.mergeStates (m :: rest) 0).2) j n hn
        (q - (0 + base (m :: rest) j)) (by omega)
      simp only [List.length_nil] at this
      rw [show q - (0 + base (m :: rest) j) + (0 + base (m :: rest) j) = q by omega] at this
      rw [← this]; exact ht
    · rintro ⟨i, n, hn, u, v, rfl, hu, k, hp, ht⟩
      have hi : i < (m :: rest).length := by
        rcases Nat.lt_or_ge i (m :: rest).length with h' | h'
        · exact h'
        · rw [List.getElem?_eq_none h'] at hn; cases hn
      have hw := hwf n (List.mem_of_getElem? hn)
      have hk := tagReach_lt ht
      have p1 := prefix_path (m :: rest) hwf _ hex i 0 i u (by omega) hi (by simpa using hu)
      have p2 := seg_lift [] (m :: rest) (NFA.bridges (NFA.mergeStates (m :: rest) 0).2) i n hn hw hp
      rw [stOf_eq 0 _ i _ hn] at p1
      simp only [List.length_nil] at p2
      refine ⟨k + (0 + base (m :: rest) i), p1.trans p2, ?_⟩
      have := tagAt_assemble_blk [] (m :: rest) (NFA.bridges (NFA.mergeStates (m :: rest) 0).2) i n hn k hk
      simp only [List.length_nil] at this
      rw [this]; exact ht


/-! ### `some`, `many`, `optional`, `tag_stop_state` -/

theorem some_tagReach (n : NFA) (hwf : WF n) (w : List UInt8) (t : Nat) :
    TagReach (NFA.some n) w t ↔
      ∃ u v, w = u ++ v ∧ (u = [] ∨ Plus (Lang n) u) ∧ TagReach n v t := by
  unfold TagReach Reach
  constructor
  · rintro ⟨q, hp, ht⟩
    have hp' : Path ((gr n.states).addEps n.stop n.start) n.start w q := (some_path n hwf _ _ _).mp hp
    obtain ⟨u, v, e, hu, hv⟩ := (some_reach _ _ _ _ _).mp hp'
    refine ⟨u, v, e, hu, q, hv, ?_⟩
    simpa [NFA.some, tagAt_addEps] using ht
  · rintro ⟨u, v, e, hu, q, hv, ht⟩
    refine ⟨q, (some_path n hwf _ _ _).mpr ((some_reach _ _ _ _ _).mpr ⟨u, v, e, hu, hv⟩), ?_⟩
    simpa [NFA.some, tagAt_addEps] using ht

theorem many_tagReach (n : NFA) (hwf : WF n) (w : List UInt8) (t : Nat) :
    TagReach (NFA.many n) w t ↔ ∃ u v, w = u ++ v ∧ Star (Lang n) u ∧ TagReach n v t := by
  obtain ⟨h0e, h0, h1e, h1⟩ := many_graph n
  have emb := many_emb n hwf
  have hw : ∀ m ∈ [n], WF m := by intro m hm; simp at hm; subst hm; exact hwf
  unfold TagReach Reach
  rw [many_eq]
  simp only
  constructor
  · rintro ⟨q, hp, ht⟩
    have hq := tagReach_lt ht
    simp only [length_assemble, List.length_cons, List.length_nil] at hq
    by_cases hq2 : q < 2
    · rw [tagAt_assemble_pre _ _ _ q (by simpa using hq2)] at ht
      match q, hq2 with
      | 0, _ => simp [tagAt, manyStart] at ht
      | 1, _ => simp [tagAt, NState.new] at ht
    · have hql : q - 2 < n.states.length := by simp [total] at hq; omega
      have hblk : Blk 2 [n] 0 q := ⟨n, rfl, by unfold InBlk; simp; omega⟩
      have hf := fan_of_emb _ [n] (fun _ => (gr n.states).addEps n.stop n.start) (fun x y => x = n.stop + 2 ∧ y = 1) hw
        (fun i m hm => by
          cases i with
          | zero => simp at hm; subst hm; exact emb
          | succ i => simp at hm)
        (fun x y h => ⟨0, by simp, by simpa [spOf] using h.1, h.2⟩) h0e
        (fun t h => by
          rcases (h0 t).mp h with h | h
          · exact Or.inl ⟨0, by simp, by simpa [stOf] using h⟩
          · exact Or.inr h) h1e h1
      have p := hf.reach hp 0 (by simp) hblk
      have p' := fan_unlift _ [n] _ _ 0 n rfl emb (fun x y (h : x = n.stop + 2 ∧ y = 1) => h.2) p
      rw [stOf_eq 2 _ 0 n rfl] at p'
      simp only [base_zero, Nat.add_sub_cancel, Nat.add_zero] at p'
      obtain ⟨u, v, e, hu, hv⟩ := (some_reach _ _ _ _ _).mp p'
      refine ⟨u, v, e, star_iff_plus.mpr hu, q - 2, hv, ?_⟩
      have := tagAt_assemble_blk [manyStart n, NState.new] [n] [(n.stop + 2, 1), (n.stop + 2, n.start + 2)] 0 n rfl
        (q - 2) hql
      simp only [List.length_cons, List.length_nil, base_zero, Nat.add_zero] at this
      rw [show q - 2 + (0 + 1 + 1) = q by omega] at this
      rw [← this]; exact ht
  · rintro ⟨u, v, e, hu, k, hv, ht⟩
    have hk := tagReach_lt ht
    have p := emb.lift ((some_reach _ _ _ _ _).mpr ⟨u, v, e, star_iff_plus.mp hu, hv⟩)
    have e1 := (h0 (n.start + 2)).mpr (Or.inl rfl)
    simp only [base_zero, Nat.add_zero] at p
    refine ⟨k + 2, Path.eps e1 p, ?_⟩
    have := tagAt_assemble_blk [manyStart n, NState.new] [n] [(n.stop + 2, 1), (n.stop + 2, n.start + 2)] 0 n rfl k hk
    simp only [List.length_cons, List.length_nil, base_zero, Nat.add_zero] at this
    rw [show k + 2 = k + (0 + 1 + 1) by omega, this]; exact ht

theorem optional_tagReach (n : NFA) (hwf : WF n) (w : List UInt8) (t : Nat) :
    TagReach (NFA.optional n) w t ↔ TagReach n w t := by
  unfold NFA.optional
  rw [choice_tagReach [n, NFA.empty] (by intro x hx; simp at hx; rcases hx with rfl | rfl; exact hwf; exact empty_wf)]
  constructor
  · rintro ⟨m, hm, h⟩
    simp at hm
    rcases hm with rfl | rfl
    · exact h
    · exact absurd h (noTags_tagReach (by rw [noTags_iff]; simp [NFA.empty, NState.new]) w t)
  · intro h; exact ⟨n, by simp, h⟩

/-- `tag_stop_state(t0)`: `t0` is alive once the operand has matched; a tag that was on the stop state is
    overwritten; every other tag stays -/
theorem tagStop_tagReach (n : NFA) (hwf : WF n) (t0 : Nat) (w : List UInt8) (t : Nat) :
    TagReach (n.tagStop t0) w t ↔
      (t = t0 ∧ Lang n w) ∨ ∃ q, q ≠ n.stop ∧ Reach n w q ∧ tagAt n.states q = some t := by
  unfold TagReach
  constructor
  · rintro ⟨q, hp, ht⟩
    rw [tagStop_reach] at hp
    rw [tagAt_tagStop] at ht
    split at ht
    · rename_i hq
      simp only [Option.some.injEq] at ht
      have : q = n.stop := hq.1
      subst this
      exact Or.inl ⟨ht.symm, hp⟩
    · rename_i hq
      refine Or.inr ⟨q, ?_, hp, ht⟩
      intro e; subst e
      exact hq ⟨rfl, hwf.stop⟩
  · rintro (⟨rfl, h⟩ | ⟨q, hq, hp, ht⟩)
    · refine ⟨n.stop, by rw [tagStop_reach]; exact h, ?_⟩
      rw [tagAt_tagStop, if_pos ⟨rfl, hwf.stop⟩]
    · refine ⟨q, by rw [tagStop_reach]; exact hp, ?_⟩
      rw [tagAt_tagStop, if_neg (fun h => hq h.1)]; exact ht

end SurfProofs.Alive
