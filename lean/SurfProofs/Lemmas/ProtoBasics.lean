import SurfModel.Protocol
import SurfModel.Payload
import SurfProofs.Lemmas.Sgr
import SurfProofs.Lemmas.ReMatch
/-! Basic lemmas for C04: slices of framed byte strings, splitting at separators, decimal parameters, and
membership of printed strings in the repetition / sequence grammars. -/
namespace SurfProofs.ProtoBasics
open SurfModel.Vt SurfModel.Sgr SurfModel.Grammar SurfModel.Payload SurfModel.Protocol SurfModel.Automata
open SurfProofs.Lemmas.Vt SurfProofs.Lemmas.Sgr SurfProofs.ReMatch

/-! ## slices -/

theorem sub?_ok (a b : Nat) (h : b ≤ a) : sub? a b = .ok (a - b) := by simp [sub?, h]

/-- the body of `pre ++ body ++ suf` -/
theorem slice?_frame (pre body suf : List Nat) (a b : Nat) (ha : a = pre.length)
    (hb : b = pre.length + body.length) : slice? (pre ++ (body ++ suf)) a b = .ok body := by
  subst ha hb
  unfold slice?
  simp

theorem index?_frame (pre : List Nat) (x : Nat) (suf : List Nat) (i : Nat) (hi : i = pre.length) :
    index? (pre ++ x :: suf) i = .ok x := by
  subst hi
  simp [index?]

/-! ## separators -/

theorem showNat_no (sep : Nat) (h : sep < 48 ∨ 57 < sep) (n : Nat) : sep ∉ showNat n := by
  intro hm; have := showNat_digits n sep hm; omega

theorem splitBy_showNat_sep (sep : Nat) (h : sep < 48 ∨ 57 < sep) (n : Nat) (rest : List Nat) :
    splitBy sep (showNat n ++ sep :: rest) = showNat n :: splitBy sep rest :=
  splitBy_append_sep sep _ rest (showNat_no sep h n)

theorem splitBy_showNat (sep : Nat) (h : sep < 48 ∨ 57 < sep) (n : Nat) : splitBy sep (showNat n) = [showNat n] :=
  splitBy_no_sep sep _ (showNat_no sep h n)

theorem numbersDecode_cons (sep : Nat) (h : sep < 48 ∨ 57 < sep) (n : Nat) (hn : n ≤ usizeMax) (rest : List Nat) :
    numbersDecode (showNat n ++ sep :: rest) sep = n :: numbersDecode rest sep := by
  unfold numbersDecode
  rw [splitBy_showNat_sep sep h]
  simp [numberDecode_showNat_small n hn]

theorem numbersDecode_one (sep : Nat) (h : sep < 48 ∨ 57 < sep) (n : Nat) (hn : n ≤ usizeMax) :
    numbersDecode (showNat n) sep = [n] := by
  unfold numbersDecode
  rw [splitBy_showNat sep h]
  simp [numberDecode_showNat_small n hn]

/-! ## grammars -/

theorem bytes_append (a b : List Nat) : bytes (a ++ b) = bytes a ++ bytes b := by simp [bytes]
theorem bytes_cons (a : Nat) (b : List Nat) : bytes (a :: b) = UInt8.ofNat a :: bytes b := by simp [bytes]
theorem bytes_nil : bytes [] = [] := rfl

theorem lit_matches (l : List Nat) : (lit l).Matches (bytes l) := Re.Matches.lit _

/-- byte `b < 256` lies in the ranges iff its value does -/
theorem inRanges_ofNat (rs : List (UInt8 × UInt8)) (b : Nat) (hb : b < 256)
    (h : ∃ r ∈ rs, r.1.toNat ≤ b ∧ b ≤ r.2.toNat) : inRanges rs (UInt8.ofNat b) = true := by
  obtain ⟨r, hr, h1, h2⟩ := h
  unfold inRanges
  rw [List.any_eq_true]
  refine ⟨r, hr, ?_⟩
  have e : (UInt8.ofNat b).toNat = b := by simp [UInt8.toNat_ofNat, Nat.mod_eq_of_lt hb]
  simp only [Bool.and_eq_true, decide_eq_true_eq, UInt8.le_iff_toNat_le, e]
  exact ⟨h1, h2⟩

theorem pred_matches (rs : List (UInt8 × UInt8)) (b : Nat) (hb : b < 256)
    (h : ∃ r ∈ rs, r.1.toNat ≤ b ∧ b ≤ r.2.toNat) : (Re.pred rs).Matches (bytes [b]) :=
  Re.Matches.pred (inRanges_ofNat rs b hb h)

/-- `pred+` matches every non-empty string of bytes of the class -/
theorem plus_pred_matches (rs : List (UInt8 × UInt8)) (l : List Nat) (hne : l ≠ [])
    (h : ∀ b ∈ l, b < 256 ∧ ∃ r ∈ rs, r.1.toNat ≤ b ∧ b ≤ r.2.toNat) :
    (Re.plus (.pred rs)).Matches (bytes l) := by
  induction l with
  | nil => exact absurd rfl hne
  | cons b bs ih =>
    have hb := h b (by simp)
    cases bs with
    | nil => exact Re.Matches.plusOne (pred_matches rs b hb.1 hb.2)
    | cons c cs =>
      have := ih (by simp) (fun x hx => h x (by simp [hx]))
      have e : bytes (b :: c :: cs) = bytes [b] ++ bytes (c :: cs) := by simp [bytes]
      rw [e]
      exact Re.Matches.plusMore (pred_matches rs b hb.1 hb.2) this

/-- `pred*` matches every string of bytes of the class -/
theorem star_pred_matches (rs : List (UInt8 × UInt8)) (l : List Nat)
    (h : ∀ b ∈ l, b < 256 ∧ ∃ r ∈ rs, r.1.toNat ≤ b ∧ b ≤ r.2.toNat) :
    (Re.star (.pred rs)).Matches (bytes l) := by
  induction l with
  | nil => exact Re.Matches.starNil
  | cons b bs ih =>
    have hb := h b (by simp)
    have e : bytes (b :: bs) = bytes [b] ++ bytes bs := by simp [bytes]
    rw [e]
    exact Re.Matches.starMore (pred_matches rs b hb.1 hb.2) (ih (fun x hx => h x (by simp [hx])))

theorem number_matches (n : Nat) : number.Matches (bytes (showNat n)) := by
  apply plus_pred_matches _ _ (showNat_ne_nil n)
  intro b hb
  have := showNat_digits n b hb
  exact ⟨by omega, (48, 57), by simp, by simpa using this⟩

/-- sequence of two -/
theorem seq_cons_matches {e : Re} {es : List Re} {u v : List UInt8} (h1 : e.Matches u)
    (h2 : (Re.seq es).Matches v) : (Re.seq (e :: es)).Matches (u ++ v) := Re.Matches.seqCons h1 h2

theorem seq_nil_matches : (Re.seq []).Matches [] := Re.Matches.seqNil

theorem seq_one_matches {e : Re} {u : List UInt8} (h : e.Matches u) : (Re.seq [e]).Matches u := by
  have := Re.Matches.seqCons h Re.Matches.seqNil
  simpa using this

end SurfProofs.ProtoBasics
