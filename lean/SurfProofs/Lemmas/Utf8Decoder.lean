import SurfModel.Utf8
import SurfProofs.Lemmas.Subset
import SurfProofs.Lemmas.Utf8Stream
import SurfProofs.Lemmas.TokSpec
import SurfProofs.Lemmas.Tokenizer
/-!
Lemmas for the `Utf8Decoder` part of C02.

* `rankOk` / `rank_path`: a ranking of the NFA states (ε-edges do not decrease the rank, byte edges increase
  it) bounds the length of every word that keeps the automaton alive; `computeRanks` finds one by relaxation,
  and the check is run by the kernel on the model automaton of `utf8Re 0` (`utf8_short`: no live word is
  longer than four bytes — the size of `Utf8Decoder::buffer`).
* `ugo_total`: over any automaton whose live words have at most four bytes the stream function of
  `Utf8Decoder` never faults, and every character item is a word the automaton accepts.
-/
namespace SurfProofs.Utf8Dec
open SurfModel.Automata SurfModel.Utf8 SurfModel.Tokenizer SurfProofs.Graph SurfProofs.NFASem SurfProofs.Subset

/-! ## rankings -/

def rk (r : List Nat) (q : Nat) : Nat := r.getD q 0

/-- `r` ranks the states of `n`: byte edges go strictly up, ε-edges do not go down, no rank above `bound` -/
def rankOk (n : NFA) (r : List Nat) (bound : Nat) : Bool :=
  decide (r.length ≤ n.states.length) &&
  (List.range n.states.length).all fun i =>
    decide (rk r i ≤ bound) && (edgesOf n i).all (fun p => decide (rk r i + 1 ≤ rk r p.2)) &&
      (epsOf n i).all (fun t => decide (rk r i ≤ rk r t))

theorem edgesOf_ge (n : NFA) (q : Nat) (h : n.states.length ≤ q) : edgesOf n q = [] := by
  unfold edgesOf
  rw [List.getElem?_eq_none h]

theorem rank_path (n : NFA) (r : List Nat) (bound : Nat) (h : rankOk n r bound = true) {s t : Nat}
    {w : List UInt8} (p : Path (gr n.states) s w t) : rk r s + w.length ≤ rk r t := by
  simp only [rankOk, Bool.and_eq_true, decide_eq_true_eq, List.all_eq_true, List.mem_range] at h
  induction p with
  | refl s => simp
  | @eps s t u w he _ ih =>
    have hs : s < n.states.length := gr_eps_lt he
    have := (h.2 s hs).2 t ((eps_iff n s t).mp he)
    omega
  | @sym s t u b w he _ ih =>
    have hs : s < n.states.length := gr_edge_lt he
    have : rk r s + 1 ≤ rk r t := (h.2 s hs).1.2 (b, t) ((edge_iff n s b t).mp he)
    simp only [List.length_cons]
    omega

theorem rank_le (n : NFA) (r : List Nat) (bound : Nat) (h : rankOk n r bound = true) (q : Nat) :
    rk r q ≤ bound := by
  simp only [rankOk, Bool.and_eq_true, decide_eq_true_eq, List.all_eq_true, List.mem_range] at h
  rcases Nat.lt_or_ge q n.states.length with hq | hq
  · exact (h.2 q hq).1.1
  · have : r.length ≤ q := by omega
    simp [rk, List.getD, List.getElem?_eq_none this]

/-- with a ranking that starts at 0, a word on which some state is reachable has at most `bound` bytes -/
theorem reach_short (n : NFA) (r : List Nat) (bound : Nat) (h : rankOk n r bound = true)
    (w : List UInt8) (q : Nat) (hr : Reach n w q) : w.length ≤ bound := by
  have h1 := rank_path n r bound h hr
  have h2 := rank_le n r bound h q
  omega

/-- distinct targets of the byte edges of a state -/
def edgeTargets (n : NFA) (i : Nat) : List Nat := sortDedup ((edgesOf n i).map (·.2))

/-- one relaxation of the outgoing edges of state `i` -/
def relaxState (n : NFA) (r : List Nat) (i : Nat) : List Nat :=
  let ri := rk r i
  let r1 := (edgeTargets n i).foldl (fun r t => r.set t (max (rk r t) (ri + 1))) r
  (epsOf n i).foldl (fun r t => r.set t (max (rk r t) ri)) r1

def relaxRound (n : NFA) (r : List Nat) : List Nat := (List.range n.states.length).foldl (relaxState n) r

/-- longest-path ranks by `rounds` rounds of relaxation (only a candidate: `rankOk` judges it) -/
def computeRanks (n : NFA) (rounds : Nat) : List Nat :=
  (List.range rounds).foldl (fun r _ => relaxRound n r) (List.replicate n.states.length 0)

/-- ranks of the model automaton of `utf8_nfa(Canonical)` -/
def utf8Ranks : List Nat := computeRanks (utf8Re 0).toNFA 12

theorem utf8_rankOk : rankOk (utf8Re 0).toNFA utf8Ranks 4 = true := by decide +kernel

/-- no word longer than four bytes keeps the automaton of `utf8_nfa(Canonical)` alive -/
theorem utf8_reach_short (w : List UInt8) (q : Nat) (h : Reach (utf8Re 0).toNFA w q) : w.length ≤ 4 :=
  reach_short _ _ _ utf8_rankOk w q h

/-! ## the compiled automaton as a tokenizer automaton -/

theorem runA_dfaAuto (d : DFA) (S : DState) (w : List UInt8) : runA (dfaAuto d) S w = d.transitionMany S w := by
  induction w generalizing S with
  | nil => rfl
  | cons b r ih =>
    simp only [runA, DFA.transitionMany, dfaAuto]
    cases h : d.transition S b with
    | none => rfl
    | some S' => simpa [dfaAuto] using ih S'

/-- live words are short -/
def Short {σ} (A : Auto σ) : Prop := ∀ w q, runA A A.start w = some q → w.length ≤ 4

theorem utf8Auto_short : Short utf8Auto := by
  intro w S h
  have h1 : (utf8Re 0).toNFA.compile.run w = some S := by
    rw [← h]; exact (runA_dfaAuto _ _ w).symm
  have hne : (utf8Re 0).toNFA.compile.run w ≠ none := by rw [h1]; simp
  have : ¬ ∀ q, ¬ Reach (utf8Re 0).toNFA w q := fun hall => hne ((run_eq_none_iff _ w).mpr hall)
  have : ∃ q, Reach (utf8Re 0).toNFA w q := Classical.not_forall_not.mp this
  obtain ⟨q, hq⟩ := this
  exact utf8_reach_short w q hq

/-- a word accepted by the compiled automaton is a word the expression matches -/
theorem accepted_matches (e : Re) (w : List UInt8) (h : AcceptedFrom (dfaAuto e.toNFA.compile) e.toNFA.compile.start w) :
    e.toNFA.compile.matches w = true := by
  obtain ⟨S, h1, h2⟩ := h
  rw [runA_dfaAuto] at h1
  unfold DFA.matches DFA.run
  rw [h1]
  exact h2

/-! ## the stream function never faults over a short automaton -/

/-- what every result of the byte-level decoder satisfies -/
def UItemOk {σ} (A : Auto σ) : UItem → Prop
  | .chr b => AcceptedFrom A A.start b
  | .err b => b ≠ []

theorem ugo_total {σ} (A : Auto σ) (hS : Short A) (s : USt σ) (input : List UInt8)
    (hinv : runA A A.start s.buf = some s.st) :
    ∃ items s', ugo A s input = .ok (items, s') ∧ runA A A.start s'.buf = some s'.st ∧
      ∀ it ∈ items, UItemOk A it := by
  induction input generalizing s with
  | nil => exact ⟨[], s, rfl, hinv, by simp⟩
  | cons b rest ih =>
    simp only [ugo]
    have hinit : runA A A.start (uinit A).buf = some (uinit A).st := rfl
    cases hs : A.step s.st b with
    | none =>
      obtain ⟨items, s', h1, h2, h3⟩ := ih (uinit A) hinit
      refine ⟨.err (s.buf ++ [b]) :: items, s', by simp [h1, consU], h2, ?_⟩
      intro it hit
      rcases List.mem_cons.mp hit with rfl | hit
      · simp [UItemOk]
      · exact h3 it hit
    | some q =>
      have hrun : runA A A.start (s.buf ++ [b]) = some q := runA_snoc A A.start s.st q s.buf b hinv hs
      have hlen := hS _ _ hrun
      simp only [List.length_append, List.length_cons, List.length_nil] at hlen
      have h4 : ¬ 4 ≤ s.buf.length := by omega
      simp only [h4, if_false]
      by_cases ha : A.accepting q = true
      · simp only [ha, if_true]
        obtain ⟨items, s', h1, h2, h3⟩ := ih (uinit A) hinit
        refine ⟨.chr (s.buf ++ [b]) :: items, s', by simp [h1, consU], h2, ?_⟩
        intro it hit
        rcases List.mem_cons.mp hit with rfl | hit
        · exact ⟨q, hrun, ha⟩
        · exact h3 it hit
      · simp only [ha]
        exact ih { st := q, buf := s.buf ++ [b] } hrun

end SurfProofs.Utf8Dec
