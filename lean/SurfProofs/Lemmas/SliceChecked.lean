import SurfModel.SliceChecked
/-!
Lemmas for C08: the checked machine-integer model (`SurfModel.SliceChecked`) never faults on bounds of the
integer types up to 64 bits and computes what the `Int` model computes.
-/
namespace SurfProofs.Lemmas.SliceChecked
open SurfModel.Slice

/-- a bound value some integer type of up to 64 bits can hold -/
def B64 (x : Int) : Prop := -(2 ^ 63) ≤ x ∧ x < 2 ^ 64

theorem ck_ok {v : Int} (h : -(2 ^ 127) ≤ v ∧ v ≤ 2 ^ 127 - 1) : ck v = .ok v := by
  unfold ck i128Min i128Max; exact if_pos h

theorem clampI_range (v hi : Int) (h : 0 ≤ hi) : 0 ≤ clampI v 0 hi ∧ clampI v 0 hi ≤ hi := by
  unfold clampI; split
  · omega
  · split <;> omega

/-- Rust's truncating `%` and Lean's Euclidean `%` agree on a non-negative dividend -/
theorem rem_agree (a b : Int) (ha : 0 ≤ a) : Int.tmod a b = a % b := Int.tmod_eq_emod_of_nonneg ha

theorem remC_ok (a b : Int) (ha : 0 ≤ a) (hb : 0 < b) : remC a b = .ok (a % b) := by
  have h1 : b ≠ 0 := by omega
  have h2 : ¬ (a = i128Min ∧ b = -1) := by omega
  simp [remC, h1, h2, rem_agree a b ha]

/-- one normalised bound: no fault, the `Int` expression, and its range -/
theorem normC_ok (x off size : Int) (hx : B64 x) (hs : 0 < size ∧ size < 2 ^ 64) (ho : off = 0 ∨ off = 1) :
    normC x off size = .ok (clampI (x + size) 0 (2 * size - 1) % size + off) ∧
    0 ≤ clampI (x + size) 0 (2 * size - 1) % size + off ∧
    clampI (x + size) 0 (2 * size - 1) % size + off ≤ size := by
  obtain ⟨hx1, hx2⟩ := hx
  have hc := clampI_range (x + size) (2 * size - 1) (by omega)
  have hm0 := Int.emod_nonneg (clampI (x + size) 0 (2 * size - 1)) (b := size) (by omega)
  have hm1 := Int.emod_lt_of_pos (clampI (x + size) 0 (2 * size - 1)) (b := size) (by omega)
  refine ⟨?_, by omega, by omega⟩
  unfold normC addC mulC subC
  rw [ck_ok (v := x + size) (by omega)]
  simp only
  rw [ck_ok (v := 2 * size) (by omega)]
  simp only
  rw [ck_ok (v := 2 * size - 1) (by omega)]
  simp only
  rw [remC_ok _ _ hc.1 hs.1]
  simp only
  exact ck_ok (by omega)

theorem asUsize_ok (v : Int) (h : 0 ≤ v ∧ v < 2 ^ 64) : asUsize v = .ok v.toNat := by
  unfold asUsize usizeBits; exact if_pos h

theorem negC_ok (size : Int) (hs : 0 ≤ size ∧ size < 2 ^ 64) : negC size = .ok (-size) := by
  unfold negC; exact ck_ok (by omega)

/-- the pair `(value, offset)` the code reads off a start bound -/
def loPair : Bnd → Int × Int
  | .unbounded => (0, 0)
  | .included s => (s, 0)
  | .excluded s => (s, 1)

/-- … and off an end bound -/
def hiPair : Bnd → Int × Int
  | .unbounded => (-1, 1)
  | .included e => (e, 1)
  | .excluded e => (e, 0)

/-- bounds of a `RangeBounds<i128>` argument that come from a type of up to 64 bits -/
def BndOk : Bnd → Prop
  | .unbounded => True
  | .included s => B64 s
  | .excluded s => B64 s

/-- body of `rangeBoundsC` after the two `match`es on the bounds, `n > 0` -/
def coreC (s o1 e o2 n : Int) : Except Fault (Option (Nat × Nat)) :=
  match normC s (if s ≥ n then 1 else o1) n with
  | .error f => .error f
  | .ok start =>
    let offset? : Except Fault Int :=
      if e ≥ n then .ok 1
      else match negC n with
        | .error f => .error f
        | .ok m => .ok (if e < m then 0 else o2)
    match offset? with
    | .error f => .error f
    | .ok offset =>
      match normC e offset n with
      | .error f => .error f
      | .ok end_ =>
        if end_ ≤ start then .ok none
        else match asUsize start with
          | .error f => .error f
          | .ok s =>
            match asUsize end_ with
            | .error f => .error f
            | .ok e => .ok (some (s, e))

def coreI (s o1 e o2 n : Int) : Option (Int × Int) :=
  let start := clampI (s + n) 0 (2 * n - 1) % n + (if s ≥ n then 1 else o1)
  let end_ := clampI (e + n) 0 (2 * n - 1) % n + (if e ≥ n then 1 else if e < -n then 0 else o2)
  if end_ ≤ start then none else some (start, end_)

theorem rangeBoundsC_core (lo hi : Bnd) (n : Nat) (hn : 0 < n) :
    rangeBoundsC lo hi n = coreC (loPair lo).1 (loPair lo).2 (hiPair hi).1 (hiPair hi).2 n := by
  have hne : ((n : Int) == 0) = false := by simp; omega
  unfold rangeBoundsC coreC
  simp only [hne]
  cases lo <;> cases hi <;> rfl

theorem rangeBoundsI_core (lo hi : Bnd) (n : Nat) (hn : 0 < n) :
    rangeBoundsI lo hi n = coreI (loPair lo).1 (loPair lo).2 (hiPair hi).1 (hiPair hi).2 n := by
  have hne : ((n : Int) == 0) = false := by simp; omega
  unfold rangeBoundsI coreI
  simp only [hne]
  cases lo <;> cases hi <;> rfl

theorem map_ite {α β : Type} (c : Prop) [Decidable c] (f : α → β) (p : α) :
    (if c then none else some (f p)) = Option.map f (if c then none else some p) := by
  split <;> rfl

theorem rangeBounds_core (lo hi : Bnd) (n : Nat) (hn : 0 < n) :
    rangeBounds lo hi n =
      (coreI (loPair lo).1 (loPair lo).2 (hiPair hi).1 (hiPair hi).2 n).map fun p => (p.1.toNat, p.2.toNat) := by
  have hne : ((n : Int) == 0) = false := by simp; omega
  unfold rangeBounds coreI
  simp only [hne]
  cases lo <;> cases hi <;>
    (simp only [loPair, hiPair, Bool.false_eq_true, if_false]
     exact map_ite _ (fun p : Int × Int => (p.1.toNat, p.2.toNat)) (_, _))

theorem loPair_ok (b : Bnd) (h : BndOk b) : B64 (loPair b).1 ∧ ((loPair b).2 = 0 ∨ (loPair b).2 = 1) := by
  cases b <;> simp only [loPair, BndOk] at * <;> refine ⟨?_, by simp⟩ <;> first | exact h | (unfold B64; omega)

theorem hiPair_ok (b : Bnd) (h : BndOk b) : B64 (hiPair b).1 ∧ ((hiPair b).2 = 0 ∨ (hiPair b).2 = 1) := by
  cases b <;> simp only [hiPair, BndOk] at * <;> refine ⟨?_, by simp⟩ <;> first | exact h | (unfold B64; omega)

/-- the `Int` core, for ANY bound values: `0 ≤ start < end ≤ n` -/
theorem coreI_range (s o1 e o2 n : Int) (hn : 0 < n) (h1 : o1 = 0 ∨ o1 = 1) (h2 : o2 = 0 ∨ o2 = 1)
    (a b : Int) (hab : coreI s o1 e o2 n = some (a, b)) : 0 ≤ a ∧ a < b ∧ b ≤ n := by
  unfold coreI at hab
  simp only at hab
  have q1 : (if s ≥ n then (1 : Int) else o1) = 0 ∨ (if s ≥ n then (1 : Int) else o1) = 1 := by
    split <;> simp [h1]
  have q2 : (if e ≥ n then (1 : Int) else if e < -n then 0 else o2) = 0 ∨
      (if e ≥ n then (1 : Int) else if e < -n then 0 else o2) = 1 := by
    split
    · simp
    · split <;> simp [h2]
  generalize (if s ≥ n then (1 : Int) else o1) = f1 at hab q1
  generalize (if e ≥ n then (1 : Int) else if e < -n then 0 else o2) = f2 at hab q2
  have m1 := Int.emod_nonneg (clampI (s + n) 0 (2 * n - 1)) (b := n) (by omega)
  have m2 := Int.emod_lt_of_pos (clampI (s + n) 0 (2 * n - 1)) (b := n) (by omega)
  have m3 := Int.emod_nonneg (clampI (e + n) 0 (2 * n - 1)) (b := n) (by omega)
  have m4 := Int.emod_lt_of_pos (clampI (e + n) 0 (2 * n - 1)) (b := n) (by omega)
  by_cases h : clampI (e + n) 0 (2 * n - 1) % n + f2 ≤ clampI (s + n) 0 (2 * n - 1) % n + f1
  · simp [h] at hab
  · simp only [h, if_false, Option.some.injEq, Prod.mk.injEq] at hab
    obtain ⟨rfl, rfl⟩ := hab
    omega

/-- the core never faults; its value is the `Int` core converted, and the `Int` values are within `0 ..= n` -/
theorem coreC_ok (s o1 e o2 n : Int) (hs : B64 s) (he : B64 e) (h1 : o1 = 0 ∨ o1 = 1) (h2 : o2 = 0 ∨ o2 = 1)
    (hn : 0 < n ∧ n < 2 ^ 64) :
    coreC s o1 e o2 n = .ok ((coreI s o1 e o2 n).map fun p => (p.1.toNat, p.2.toNat)) ∧
    ∀ a b, coreI s o1 e o2 n = some (a, b) → 0 ≤ a ∧ a < b ∧ b ≤ n := by
  have ho1 : (if s ≥ n then (1 : Int) else o1) = 0 ∨ (if s ≥ n then (1 : Int) else o1) = 1 := by
    split <;> simp [h1]
  have ho2 : (if e ≥ n then (1 : Int) else if e < -n then 0 else o2) = 0 ∨
      (if e ≥ n then (1 : Int) else if e < -n then 0 else o2) = 1 := by
    split
    · simp
    · split <;> simp [h2]
  obtain ⟨g1, g2, g3⟩ := normC_ok s _ n hs hn ho1
  obtain ⟨k1, k2, k3⟩ := normC_ok e _ n he hn ho2
  have hoff : (if e ≥ n then (Except.ok 1 : Except Fault Int)
      else match negC n with
        | .error f => .error f
        | .ok m => .ok (if e < m then 0 else o2)) =
      .ok (if e ≥ n then (1 : Int) else if e < -n then 0 else o2) := by
    rw [negC_ok n (by omega)]
    split <;> rfl
  constructor
  · unfold coreC coreI
    rw [g1]
    simp only [hoff]
    rw [k1]
    simp only
    generalize (clampI (s + n) 0 (2 * n - 1) % n + if s ≥ n then 1 else o1) = S at g2 g3 ⊢
    generalize (clampI (e + n) 0 (2 * n - 1) % n + if e ≥ n then 1 else if e < -n then 0 else o2) = E at k2 k3 ⊢
    by_cases h : E ≤ S
    · simp only [h, if_true]; rfl
    · simp only [h, if_false]
      rw [asUsize_ok _ (by omega), asUsize_ok _ (by omega)]
      rfl
  · exact coreI_range s o1 e o2 n hn.1 h1 h2

theorem rangeBoundsC_ok (lo hi : Bnd) (n : Nat) (hn : n < 2 ^ 64) (hlo : BndOk lo) (hhi : BndOk hi) :
    rangeBoundsC lo hi n = .ok (rangeBounds lo hi n) := by
  rcases Nat.eq_zero_or_pos n with h0 | hpos
  · subst h0; simp [rangeBoundsC, rangeBounds]
  · obtain ⟨a1, a2⟩ := loPair_ok lo hlo
    obtain ⟨b1, b2⟩ := hiPair_ok hi hhi
    rw [rangeBoundsC_core lo hi n hpos, rangeBounds_core lo hi n hpos]
    exact (coreC_ok _ _ _ _ n a1 b1 a2 b2 (by omega)).1

theorem rangeBounds_eq_I (lo hi : Bnd) (n : Nat) :
    rangeBounds lo hi n = (rangeBoundsI lo hi n).map fun p => (p.1.toNat, p.2.toNat) := by
  rcases Nat.eq_zero_or_pos n with h0 | hpos
  · subst h0; simp [rangeBoundsI, rangeBounds]
  · rw [rangeBounds_core lo hi n hpos, rangeBoundsI_core lo hi n hpos]

/-- the `Int` values before `as usize`, for ANY bound values: `0 ≤ start < end ≤ n` -/
theorem rangeBoundsI_range (lo hi : Bnd) (n : Nat) (a b : Int) (h : rangeBoundsI lo hi n = some (a, b)) :
    0 ≤ a ∧ a < b ∧ b ≤ n := by
  rcases Nat.eq_zero_or_pos n with h0 | hpos
  · subst h0; simp [rangeBoundsI] at h
  · rw [rangeBoundsI_core lo hi n hpos] at h
    have o1 : (loPair lo).2 = 0 ∨ (loPair lo).2 = 1 := by cases lo <;> simp [loPair]
    have o2 : (hiPair hi).2 = 0 ∨ (hiPair hi).2 = 1 := by cases hi <;> simp [hiPair]
    exact coreI_range _ _ _ _ n (by omega) o1 o2 a b h

/-! ### single index -/

theorem indexSignedC_ok (i : Int) (n : Nat) (hi : B64 i) (hn : n < 2 ^ 64) :
    indexSignedC i n = .ok (indexSigned i n) := by
  obtain ⟨h1, h2⟩ := hi
  unfold indexSignedC indexSigned
  simp only
  rw [negC_ok (n : Int) (by omega)]
  simp only
  split
  · rfl
  · rename_i hc
    simp only [Bool.or_eq_true, decide_eq_true_eq, not_or] at hc
    by_cases hneg : i < 0
    · simp only [hneg, if_true, addC]
      rw [ck_ok (v := i + n) (by omega)]
      simp only
      rw [asUsize_ok _ (by omega)]
      simp only [addU, usizeBits]
      have : (i + (n : Int)).toNat + 1 < 2 ^ 64 := by omega
      simp [this]
    · simp only [hneg, if_false]
      rw [asUsize_ok _ (by omega)]
      simp only [addU, usizeBits]
      have : i.toNat + 1 < 2 ^ 64 := by omega
      simp [this]

theorem indexUnsignedC_ok (i n : Nat) (hn : n < 2 ^ 64) : indexUnsignedC i n = .ok (indexUnsigned i n) := by
  unfold indexUnsignedC indexUnsigned
  split
  · rfl
  · have : i + 1 < 2 ^ 64 := by omega
    simp [addU, usizeBits, this]

end SurfProofs.Lemmas.SliceChecked
