import SurfModel.KittyStream
import SurfProofs.C14
import SurfProofs.Lemmas.KittyB64Link
/-!
The streaming payload computation of `SurfModel/KittyStream.lean` (C14's `Base64Encoder` model fed one `write`
of four bytes per pixel, then `finish`) never panics and returns the result-based `payloadOf`; hence the
streaming handler functions are the result-based ones of `SurfModel/Kitty.lean`.
-/
namespace SurfProofs.Lemmas.KittyStream
open SurfModel.Kitty SurfModel.KittyStream
open SurfModel.Base64 (Enc EncRes writes encodeChunks)

/-- the pixel loop is the sequence of `write` calls with the 4-byte chunks of the iterated pixels -/
theorem streamGo_writes (img : Image) : ∀ (k index : Nat) (e : Enc),
    streamGo img k index e = writes e ((img.iterGo k index).map RGBA.bytes) := by
  intro k
  induction k with
  | zero => intro index e; rfl
  | succ k ih =>
    intro index e
    simp only [streamGo, Image.iterGo]
    cases hn : img.shape.nth index with
    | none => rfl
    | some rc =>
      obtain ⟨row, col⟩ := rc
      simp only []
      cases hd : img.data[img.shape.offset row col]? with
      | none => rfl
      | some c =>
        simp only [List.map_cons, writes]
        cases hw : SurfModel.Base64.write e c.bytes with
        | panic => rfl
        | ok e' => exact ih _ _

/-- new / one write per pixel / finish = C14's `encodeChunks` of the per-pixel chunks -/
theorem payloadStreaming_chunks (img : Image) :
    payloadStreaming img = encodeChunks (img.iter.map RGBA.bytes) := by
  unfold payloadStreaming encodeChunks Image.iter
  rw [streamGo_writes]
  rfl

/-- **the streamed payload is the result-based payload** (C14_encode for the partition "four bytes per pixel",
then C11's `rfcEncode` = C14's) -/
theorem payloadStreaming_eq (img : Image) : payloadStreaming img = .ok (payloadOf img) := by
  rw [payloadStreaming_chunks, SurfProofs.C14.C14_encode, payloadOf, SurfProofs.Lemmas.KittyB64Link.rfcEncode_eq,
    List.flatMap_def]

variable (hash : Image → UInt64)

theorem drawStreaming_eq (h : Handler) (img : Image) (row col : Nat) :
    drawStreaming hash h img row col = .ok (draw hash h img row col) := by
  unfold drawStreaming draw
  split
  · rfl
  · simp only [payloadStreaming_eq]
    split <;> simp

theorem handleEventStreaming_eq (h : Handler) (ev : Event) :
    handleEventStreaming hash h ev = .ok (handleEvent hash h ev) := by
  cases ev with
  | other => rfl
  | kittyImage id placement error =>
    cases error with
    | false => rfl
    | true =>
      simp only [handleEventStreaming, handleEvent, if_true]
      cases hl : h.imgs.lookup id with
      | none => rfl
      | some img =>
        cases placement with
        | none => rfl
        | some pl => simp only [Option.map_some, drawStreaming_eq]

theorem stepStreaming_eq (h : Handler) (ev : Ev) :
    stepStreaming hash h ev = .ok ((step hash h ev).1, (step hash h ev).2,
      match ev with
      | .draw .. | .erase .. => none
      | .resp id pl err => some (handleEvent hash h (.kittyImage id pl err)).2.2
      | .other => some (handleEvent hash h .other).2.2) := by
  cases ev with
  | draw img row col => simp only [stepStreaming, drawStreaming_eq, step]
  | erase img pos => rfl
  | resp id placement error => simp only [stepStreaming, handleEventStreaming_eq, step]
  | other => rfl

theorem runStreaming_eq : ∀ (evs : List Ev) (h : Handler), runStreaming hash h evs = .ok (run hash h evs)
  | [], _ => rfl
  | ev :: rest, h => by
    simp only [runStreaming, stepStreaming_eq, runStreaming_eq rest, run]

/-- the driver's printer over the streaming model prints what the printer over the result-based model prints -/
theorem showRunStreaming_eq : ∀ (evs : List Ev) (h : Handler), showRunStreaming hash h evs = showRun hash h evs
  | [], _ => rfl
  | ev :: rest, h => by
    simp only [showRunStreaming, stepStreaming_eq, showRunStreaming_eq rest, showRun]
    cases ev <;> simp <;> split <;> simp_all

end SurfProofs.Lemmas.KittyStream
