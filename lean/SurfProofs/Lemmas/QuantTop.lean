import SurfProofs.Lemmas.QuantInv
import SurfProofs.Lemmas.QuantKD
/-!
# C13 helper lemmas — `from_image` and `quantize`
-/
namespace SurfProofs.QuantTop
open SurfModel.Quant SurfProofs.QuantOct

theorem sampleGo_ne_nil (sample : Nat) (l : List RGB) :
    ∀ skip st, skip < l.length → sampleGo sample skip st l ≠ [] := by
  induction l with
  | nil => intro skip st h; simp at h
  | cons c rest ih =>
    intro skip st h
    cases skip with
    | zero => simp [sampleGo]
    | succ skip =>
      simp only [sampleGo]
      exact ih skip st (by simpa using h)

theorem samplePixels_ne_nil (sample : Nat) (px : List RGB) (h0 : 0 < sample) (hs : sample ≤ px.length) :
    samplePixels sample px ≠ [] := by
  unfold samplePixels
  exact sampleGo_ne_nil sample px _ _ (lt_of_lt_of_le (Nat.mod_lt _ h0) hs)

theorem sampleRate_some (h w k : Nat) (hk : 1 ≤ k) :
    ∃ s, sampleRate h w k = some s ∧ s ≤ h * w := by
  have hd : min (k * 100) (2 ^ 64 - 1) ≠ 0 := by
    have : 1 ≤ min (k * 100) (2 ^ 64 - 1) := by
      apply Nat.le_min.mpr; constructor <;> omega
    omega
  refine ⟨(h * w / min (k * 100) (2 ^ 64 - 1)) % 2 ^ 32, ?_, ?_⟩
  · simp only [sampleRate, hd, if_false]
  · exact le_trans (Nat.mod_le _ _) (Nat.div_le_self _ _)

/-- the pixels that go into the octree -/
def chosen (px : List RGB) (h w k : Nat) : List RGB :=
  match sampleRate h w k with
  | none => []
  | some sample => if sample < 2 then px else samplePixels sample px

theorem chosen_ne_nil (px : List RGB) (h w k : Nat) (hsize : px.length = h * w) (hne : px ≠ [])
    (hk : 1 ≤ k) : chosen px h w k ≠ [] := by
  obtain ⟨s, hs, hle⟩ := sampleRate_some h w k hk
  simp only [chosen, hs]
  split
  · exact hne
  · exact samplePixels_ne_nil s px (by omega) (by omega)

/-- `from_image` spelled out as a chain of the four stages -/
theorem fromImage_eq (px : List RGB) (h w k : Nat) (hne : px ≠ []) (hk : 1 ≤ k)
    (t0 t1 : OcTree) (pal : List RGB)
    (h1 : insertAll OcTree.new (chosen px h w k) = some t0)
    (h2 : t0.pruneUntil k = .ok t1) (h3 : t1.buildPalette = some pal) :
    fromImage px h w k = .ok (Palette.new pal) := by
  obtain ⟨s, hs, _⟩ := sampleRate_some h w k hk
  have he : px.isEmpty = false := by cases px <;> simp_all
  simp only [chosen, hs] at h1
  simp only [fromImage, he, hs, h1, h2, h3]
  rfl

/-- palette bounds of `from_image` -/
theorem fromImage_bounds (px : List RGB) (h w k : Nat) (hsize : px.length = h * w) (hne : px ≠ [])
    (hk : 1 ≤ k) :
    ∃ pal, fromImage px h w k = .ok (some ⟨pal, kdNew pal⟩) ∧ 1 ≤ pal.length ∧ pal.length ≤ max k 8 := by
  have hc := chosen_ne_nil px h w k hsize hne hk
  obtain ⟨t0, h1, hp0, hpos0⟩ := insertAll_spec (chosen px h w k) OcTree.new preInv_new
  have hr0 := rootInv_of_preInv t0 hp0 (hpos0 (Or.inl hc))
  obtain ⟨t1, h2, hr1, hle1⟩ := pruneUntil_spec t0 k hr0
  obtain ⟨pal, h3, hlen⟩ := buildPalette_spec t1 hr1
  have hl1 : 1 ≤ pal.length := by rw [hlen]; exact hr1.pos
  have hl2 : pal.length ≤ max k 8 := by rw [hlen]; exact le_trans hr1.le hle1
  refine ⟨pal, ?_, hl1, hl2⟩
  rw [fromImage_eq px h w k hne hk t0 t1 pal h1 h2 h3]
  have : pal.isEmpty = false := by
    cases pal with
    | nil => simp at hl1
    | cons a l => rfl
  simp [Palette.new, this]

/-! ### lookups per pixel -/

theorem find_spec (pal : List RGB) (hne : pal ≠ []) (q : RGB) :
    ∃ i c, (Palette.mk pal (kdNew pal)).find q = some (i, c) ∧ pal[i]? = some c ∧
      ∀ c' ∈ pal, dist q c ≤ dist q c' := by
  obtain ⟨i, c, hf, hi, hc, hmin⟩ := SurfProofs.QuantKD.kd_nearest pal hne q
  refine ⟨i, c, hf, by simp [hi, hc], ?_⟩
  intro c' hc'
  obtain ⟨j, hj, rfl⟩ := List.mem_iff_getElem.mp hc'
  rw [← hc]; exact hmin j hj

theorem quantizePlain_spec (pal : List RGB) (hne : pal ≠ []) (px : List RGB) :
    ∃ is, quantizePlain ⟨pal, kdNew pal⟩ px = some is ∧ is.length = px.length ∧
      ∀ p ∈ px.zip is, ∃ c, pal[p.2]? = some c ∧ ∀ c' ∈ pal, dist p.1 c ≤ dist p.1 c' := by
  induction px with
  | nil => exact ⟨[], rfl, rfl, by simp⟩
  | cons q qs ih =>
    obtain ⟨is, h1, hlen, hall⟩ := ih
    obtain ⟨i, c, hf, hc, hmin⟩ := find_spec pal hne q
    refine ⟨i :: is, by simp only [quantizePlain, hf, h1], by simp [hlen], ?_⟩
    intro p hp
    simp only [List.zip_cons_cons, List.mem_cons] at hp
    rcases hp with rfl | hp
    · exact ⟨c, hc, hmin⟩
    · exact hall p hp

/-- whatever colours are looked up: one valid index each -/
theorem quantizePlain_valid (pal : List RGB) (hne : pal ≠ []) (qs : List RGB) :
    ∃ is, quantizePlain ⟨pal, kdNew pal⟩ qs = some is ∧ is.length = qs.length ∧
      ∀ i ∈ is, i < pal.length := by
  induction qs with
  | nil => exact ⟨[], rfl, rfl, by simp⟩
  | cons q qs ih =>
    obtain ⟨is, h1, hlen, hall⟩ := ih
    obtain ⟨i, c, hf, hc, _⟩ := find_spec pal hne q
    refine ⟨i :: is, by simp only [quantizePlain, hf, h1], by simp [hlen], ?_⟩
    intro j hj
    rcases List.mem_cons.mp hj with rfl | hj
    · exact (List.getElem?_eq_some_iff.mp hc).1
    · exact hall j hj

theorem dist_self (q : RGB) : dist q q = 0 := by simp [dist, sqr]

theorem dist_eq_zero (a b : RGB) (h : dist a b = 0) : a = b := by
  unfold dist sqr at h
  have h1 := mul_self_nonneg ((a.r : Int) - b.r)
  have h2 := mul_self_nonneg ((a.g : Int) - b.g)
  have h3 := mul_self_nonneg ((a.b : Int) - b.b)
  have e1 : ((a.r : Int) - b.r) * ((a.r : Int) - b.r) = 0 := by linarith
  have e2 : ((a.g : Int) - b.g) * ((a.g : Int) - b.g) = 0 := by linarith
  have e3 : ((a.b : Int) - b.b) * ((a.b : Int) - b.b) = 0 := by linarith
  have r := mul_self_eq_zero.mp e1
  have g := mul_self_eq_zero.mp e2
  have b' := mul_self_eq_zero.mp e3
  cases a; cases b; simp only [RGB.mk.injEq]
  simp only at r g b'
  omega

/-- a pixel whose colour is in the palette is answered with that colour -/
theorem find_exact (pal : List RGB) (q : RGB) (hq : q ∈ pal) :
    ∃ i, (Palette.mk pal (kdNew pal)).find q = some (i, q) ∧ pal[i]? = some q := by
  have hne : pal ≠ [] := by rintro rfl; simp at hq
  obtain ⟨i, c, hf, hc, hmin⟩ := find_spec pal hne q
  have h0 := hmin q hq
  rw [dist_self] at h0
  have hnn : 0 ≤ dist q c := by
    unfold dist
    have := SurfProofs.QuantKD.sq_nonneg' ((q.r : Int) - c.r)
    have := SurfProofs.QuantKD.sq_nonneg' ((q.g : Int) - c.g)
    have := SurfProofs.QuantKD.sq_nonneg' ((q.b : Int) - c.b)
    linarith
  have : q = c := dist_eq_zero q c (by omega)
  subst this
  exact ⟨i, hf, hc⟩

theorem quantizePlain_exact (pal : List RGB) (px : List RGB) (hsub : ∀ q ∈ px, q ∈ pal) :
    ∃ is, quantizePlain ⟨pal, kdNew pal⟩ px = some is ∧ is.length = px.length ∧
      ∀ p ∈ px.zip is, pal[p.2]? = some p.1 := by
  induction px with
  | nil => exact ⟨[], rfl, rfl, by simp⟩
  | cons q qs ih =>
    obtain ⟨is, h1, hlen, hall⟩ := ih fun x hx => hsub x (List.mem_cons_of_mem _ hx)
    obtain ⟨i, hf, hc⟩ := find_exact pal q (hsub q List.mem_cons_self)
    refine ⟨i :: is, by simp only [quantizePlain, hf, h1], by simp [hlen], ?_⟩
    intro p hp
    simp only [List.zip_cons_cons, List.mem_cons] at hp
    rcases hp with rfl | hp
    · exact hc
    · exact hall p hp

theorem quantizeDither_exact (pal : List RGB) (px : List RGB) (hsub : ∀ q ∈ px, q ∈ pal) :
    ∃ is, quantizeDither ⟨pal, kdNew pal⟩ px = .ok is ∧ is.length = px.length ∧
      ∀ p ∈ px.zip is, pal[p.2]? = some p.1 := by
  induction px with
  | nil => exact ⟨[], rfl, rfl, by simp⟩
  | cons q qs ih =>
    obtain ⟨is, h1, hlen, hall⟩ := ih fun x hx => hsub x (List.mem_cons_of_mem _ hx)
    obtain ⟨i, hf, hc⟩ := find_exact pal q (hsub q List.mem_cons_self)
    refine ⟨i :: is, by simp only [quantizeDither, hf, h1, if_true], by simp [hlen], ?_⟩
    intro p hp
    simp only [List.zip_cons_cons, List.mem_cons] at hp
    rcases hp with rfl | hp
    · exact hc
    · exact hall p hp

/-- dithering in the modelled (zero-error) domain: never a panic; an `ok` answer has valid indices
    that reproduce the pixels -/
theorem quantizeDither_spec (pal : List RGB) (hne : pal ≠ []) (px : List RGB) :
    (quantizeDither ⟨pal, kdNew pal⟩ px = .inexact) ∨
    ∃ is, quantizeDither ⟨pal, kdNew pal⟩ px = .ok is ∧ is.length = px.length ∧
      ∀ p ∈ px.zip is, pal[p.2]? = some p.1 := by
  induction px with
  | nil => exact Or.inr ⟨[], rfl, rfl, by simp⟩
  | cons q qs ih =>
    obtain ⟨i, c, hf, hc, _⟩ := find_spec pal hne q
    by_cases hcq : c = q
    · subst hcq
      rcases ih with h | ⟨is, h1, hlen, hall⟩
      · left; simp only [quantizeDither, hf, h, if_true]
      · right
        refine ⟨i :: is, by simp only [quantizeDither, hf, h1, if_true], by simp [hlen], ?_⟩
        intro p hp
        simp only [List.zip_cons_cons, List.mem_cons] at hp
        rcases hp with rfl | hp
        · exact hc
        · exact hall p hp
    · left; simp only [quantizeDither, hf, hcq, if_false]

end SurfProofs.QuantTop
