import SurfModel.Sixel
/-!
# C12 helper lemmas, part 6: the cache of encoded images
-/
namespace SurfProofs.Lemmas.SixelCache
open SurfModel.Sixel

def total (imgs : List (Nat × List UInt8)) : Nat := (imgs.map (fun e => e.2.length)).sum

/-- the invariant of a handler: `size` is the sum of the cached lengths, keys are distinct -/
def Wf (hd : Handler) : Prop := hd.size = total hd.imgs ∧ (hd.imgs.map (·.1)).Nodup

theorem total_append (a b : List (Nat × List UInt8)) : total (a ++ b) = total a + total b := by
  simp [total]

theorem total_reverse (a : List (Nat × List UInt8)) : total a.reverse = total a := by
  simp [total, List.sum_reverse]

theorem evictLru_total (cap : Nat) : ∀ (l : List (Nat × List UInt8)) (size : Nat), size = total l →
    (evictLru cap l size).2 = total (evictLru cap l size).1 := by
  intro l
  induction l with
  | nil => intro size h; simpa [evictLru] using h
  | cons e rest ih =>
    intro size h
    obtain ⟨k, lru⟩ := e
    simp only [evictLru]
    split
    · apply ih
      simp [total] at h ⊢; omega
    · simpa using h

theorem evictLru_suffix (cap : Nat) : ∀ (l : List (Nat × List UInt8)) (size : Nat), (evictLru cap l size).1 <:+ l := by
  intro l
  induction l with
  | nil => intro size; simp [evictLru]
  | cons e rest ih =>
    intro size
    obtain ⟨k, lru⟩ := e
    simp only [evictLru]
    split
    · exact List.IsSuffix.trans (ih _) (List.suffix_cons _ _)
    · exact List.suffix_refl _

theorem evictLru_keeps_last (cap : Nat) (e : Nat × List UInt8) (he : e.2.length ≤ cap) :
    ∀ (pre : List (Nat × List UInt8)) (size : Nat), size = total (pre ++ [e]) →
    ∃ pre', (evictLru cap (pre ++ [e]) size).1 = pre' ++ [e] := by
  intro pre
  induction pre with
  | nil =>
    intro size h
    obtain ⟨k, v⟩ := e
    simp [total] at h
    refine ⟨[], ?_⟩
    simp only [List.nil_append, evictLru]
    have : ¬ size > cap := by simp at he; omega
    simp [this]
  | cons p pre ih =>
    intro size h
    obtain ⟨k, lru⟩ := p
    simp only [List.cons_append, evictLru]
    split
    · apply ih
      simp [total] at h ⊢; omega
    · exact ⟨(k, lru) :: pre, rfl⟩

theorem lookup_none_not_mem {key : Nat} : ∀ {imgs : List (Nat × List UInt8)}, imgs.lookup key = none →
    key ∉ imgs.map (·.1) := by
  intro imgs h
  rw [List.lookup_eq_none_iff] at h
  intro hm
  simp only [List.mem_map] at hm
  obtain ⟨p, hp, hk⟩ := hm
  have := h p hp
  simp [hk] at this

theorem filter_ne_self {key : Nat} : ∀ {imgs : List (Nat × List UInt8)}, key ∉ imgs.map (·.1) →
    imgs.filter (fun e => e.1 != key) = imgs := by
  intro imgs h
  rw [List.filter_eq_self]
  intro p hp
  simp only [bne_iff_ne, ne_eq]
  intro hk
  exact h (by simp only [List.mem_map]; exact ⟨p, hp, hk⟩)

theorem total_hit {key : Nat} {bytes : List UInt8} : ∀ {imgs : List (Nat × List UInt8)},
    (imgs.map (·.1)).Nodup → imgs.lookup key = some bytes →
    bytes.length + total (imgs.filter (fun e => e.1 != key)) = total imgs := by
  intro imgs
  induction imgs with
  | nil => intro _ h; simp at h
  | cons p rest ih =>
    intro hn hl
    obtain ⟨k, v⟩ := p
    simp only [List.map_cons, List.nodup_cons] at hn
    by_cases hk : key = k
    · subst hk
      simp [List.lookup] at hl
      subst hl
      have : ((key, v) :: rest).filter (fun e => e.1 != key) = rest := by
        simp [List.filter_cons, filter_ne_self hn.1]
      rw [this]; simp [total]
    · have hk' : (key == k) = false := by simp [hk]
      simp only [List.lookup, hk'] at hl
      have := ih hn.2 hl
      have hf : ((k, v) :: rest).filter (fun e => e.1 != key) = (k, v) :: rest.filter (fun e => e.1 != key) := by
        simp [List.filter_cons, Ne.symm hk]
      rw [hf]
      simp [total] at this ⊢; omega

theorem nodup_reverse' {α} {l : List α} : l.reverse.Nodup ↔ l.Nodup := by
  unfold List.Nodup
  rw [List.pairwise_reverse]
  constructor <;> intro h <;> exact h.imp (fun h => Ne.symm h)

/-- the invariant holds initially and is kept by `draw` -/
theorem wf_new : Wf Handler.new := by simp [Wf, Handler.new, total]

theorem wf_draw (hd : Handler) (key : Nat) (enc : List UInt8) (h : Wf hd) : Wf (hd.draw key enc).2 := by
  obtain ⟨hs, hn⟩ := h
  unfold Handler.draw
  split
  · rename_i bytes hl
    refine ⟨?_, ?_⟩
    · simp only [hs]
      have := total_hit hn hl
      simp [total] at this ⊢; omega
    · simp only [List.map_cons, List.nodup_cons]
      refine ⟨?_, ?_⟩
      · simp [List.mem_map, List.mem_filter]
      · exact List.Nodup.sublist (List.Sublist.map _ List.filter_sublist) hn
  · rename_i hl
    simp only [evict]
    have hsz : hd.size + enc.length = total ((key, enc) :: hd.imgs).reverse := by
      rw [total_reverse]; simp [total] at hs ⊢; omega
    refine ⟨?_, ?_⟩
    · simp only
      rw [total_reverse]
      exact evictLru_total _ _ _ hsz
    · simp only
      rw [List.map_reverse, nodup_reverse']
      have hsuf := evictLru_suffix hd.cap ((key, enc) :: hd.imgs).reverse (hd.size + enc.length)
      have hn' : (((key, enc) :: hd.imgs).reverse.map (·.1)).Nodup := by
        rw [List.map_reverse, nodup_reverse']
        simp only [List.map_cons, List.nodup_cons]
        exact ⟨lookup_none_not_mem hl, hn⟩
      exact List.Nodup.sublist (List.Sublist.map _ hsuf.sublist) hn'

/-- after a draw that wrote at most `IMAGE_CACHE_SIZE` bytes the image is cached with these bytes -/
theorem lookup_after_draw (hd : Handler) (key : Nat) (enc : List UInt8) (h : Wf hd)
    (hlen : (hd.draw key enc).1.length ≤ hd.cap) :
    (hd.draw key enc).2.imgs.lookup key = some (hd.draw key enc).1 := by
  obtain ⟨hs, hn⟩ := h
  unfold Handler.draw at hlen ⊢
  split
  · simp [List.lookup]
  · rename_i hl
    simp only [hl] at hlen
    simp only [evict]
    have hsz : hd.size + enc.length = total (hd.imgs.reverse ++ [(key, enc)]) := by
      rw [total_append, total_reverse]; simp [total] at hs ⊢; omega
    obtain ⟨pre', hpre⟩ := evictLru_keeps_last hd.cap (key, enc) hlen hd.imgs.reverse _ hsz
    simp only [List.reverse_cons]
    rw [hpre]
    simp [List.lookup]

/-! ## sessions: many draws on one handler within the budget -/

/-- a sequence of draws: `(key, what a fresh encoding would give)` -/
def drawAll (hd : Handler) : List (Nat × List UInt8) → Handler
  | [] => hd
  | (k, enc) :: ops => drawAll (hd.draw k enc).2 ops

theorem evictLru_noop (cap : Nat) (l : List (Nat × List UInt8)) (size : Nat) (h : size ≤ cap) :
    evictLru cap l size = (l, size) := by
  cases l with
  | nil => simp [evictLru]
  | cons e rest =>
    obtain ⟨k, v⟩ := e
    have : ¬ size > cap := by omega
    simp [evictLru, this]

theorem lookup_filter_ne {k key : Nat} (hk : k ≠ key) : ∀ imgs : List (Nat × List UInt8),
    (imgs.filter (fun e => e.1 != key)).lookup k = imgs.lookup k := by
  intro imgs
  induction imgs with
  | nil => simp
  | cons p rest ih =>
    obtain ⟨a, v⟩ := p
    by_cases ha : a = key
    · subst ha
      have : (k == a) = false := by simp [hk]
      simp [List.filter_cons, List.lookup, this, ih]
    · have hf : ((a, v) :: rest).filter (fun e => e.1 != key) = (a, v) :: rest.filter (fun e => e.1 != key) := by
        simp [List.filter_cons, ha]
      rw [hf]
      simp only [List.lookup]
      split <;> simp [ih]

/-- one draw within the budget keeps every cached entry and does not let `size` grow by more than the
encoding -/
theorem draw_keeps (hd : Handler) (key : Nat) (enc : List UInt8) (hb : hd.size + enc.length ≤ hd.cap) :
    (hd.draw key enc).2.size ≤ hd.size + enc.length ∧
      ∀ k b, hd.imgs.lookup k = some b → (hd.draw key enc).2.imgs.lookup k = some b := by
  unfold Handler.draw
  split
  · rename_i bytes hl
    refine ⟨by simp, ?_⟩
    intro k b hk
    by_cases h : k = key
    · subst h
      rw [hl] at hk
      simp [List.lookup, hk]
    · have : (k == key) = false := by simp [h]
      simp only [List.lookup, this]
      rw [lookup_filter_ne h]; exact hk
  · rename_i hl
    simp only [evict, evictLru_noop _ _ _ hb, List.reverse_reverse]
    refine ⟨Nat.le_refl _, ?_⟩
    intro k b hk
    by_cases h : k = key
    · subst h; rw [hl] at hk; simp at hk
    · have : (k == key) = false := by simp [h]
      simp [List.lookup, this, hk]

theorem draw_cap (hd : Handler) (key : Nat) (enc : List UInt8) : (hd.draw key enc).2.cap = hd.cap := by
  unfold Handler.draw
  split <;> rfl

theorem drawAll_keeps : ∀ (ops : List (Nat × List UInt8)) (hd : Handler),
    hd.size + total ops ≤ hd.cap →
    ∀ k b, hd.imgs.lookup k = some b → (drawAll hd ops).imgs.lookup k = some b := by
  intro ops
  induction ops with
  | nil => intro hd _ k b h; exact h
  | cons op ops ih =>
    intro hd hb k b h
    obtain ⟨key, enc⟩ := op
    simp only [drawAll]
    have hb' : hd.size + enc.length ≤ hd.cap := by simp [total] at hb; omega
    obtain ⟨hs, hk⟩ := draw_keeps hd key enc hb'
    exact ih _ (by rw [draw_cap]; simp [total] at hb ⊢; omega) k b (hk k b h)

/-- after a draw within the budget the image is cached with the bytes written -/
theorem lookup_after_draw_budget (hd : Handler) (key : Nat) (enc : List UInt8)
    (hb : hd.size + enc.length ≤ hd.cap) :
    (hd.draw key enc).2.imgs.lookup key = some (hd.draw key enc).1 := by
  unfold Handler.draw
  split
  · simp [List.lookup]
  · simp only [evict, evictLru_noop _ _ _ hb, List.reverse_reverse]
    simp [List.lookup]

end SurfProofs.Lemmas.SixelCache
