import Mathlib.Algebra.Order.Field.Basic
import Mathlib.Algebra.Order.Ring.Abs
import Mathlib.Algebra.Order.Ring.Basic
import Mathlib.Data.Rat.Cast.Order
import Mathlib.Tactic.Linarith
import Mathlib.Tactic.Ring
import Mathlib.Tactic.FieldSimp
import Mathlib.Tactic.NormNum
import SurfProofs.Lemmas.ColorTables

namespace SurfProofs.Lemmas.ColorExact
open SurfProofs.Lemmas.ColorTables SurfModel.Generated

variable {F : Type} [Field F] [LinearOrder F] [IsStrictOrderedRing F]

/-- `x` is the exact linear-light value of the sRGB byte `c`: `srgb_to_linear (c / 255)` with
`srgb_to_linear s = s / 12.92` for `s ≤ 0.04045` and `((s + 0.055) / 1.055) ^ 2.4` otherwise.  The power
is pinned down without real exponentiation: `x ^ 5 = u ^ 12` has exactly one solution in an ordered field
(odd powers are strictly increasing), in ℝ it is `u ^ 2.4`. -/
def IsSrgbLinear (c : Nat) (x : F) : Prop :=
  if (c : F) / 255 ≤ 4045 / 100000 then x = (c : F) / 255 / (1292 / 100)
  else x ^ 5 = (((c : F) / 255 + 55 / 1000) / (1055 / 1000)) ^ 12

/-- table integer as an element of `F` -/
def valF (n : Int) : F := ((val n : ℚ) : F)

theorem close_of_srgbClose {c : Nat} {y ε : ℚ} {x : F} (h : SrgbClose c y ε) (hx : IsSrgbLinear c x) :
    |(y : F) - x| ≤ (ε : F) := by
  simp only [SrgbClose] at h
  unfold IsSrgbLinear at hx
  rw [abs_le]
  by_cases hs : (c : ℚ) / 255 ≤ 4045 / 100000
  · have hsF : (c : F) / 255 ≤ 4045 / 100000 := by
      have := (Rat.cast_le (K := F)).mpr hs
      push_cast at this; exact this
    rw [if_pos hs] at h
    rw [if_pos hsF] at hx
    obtain ⟨h1, h2⟩ := h
    have h1F := (Rat.cast_le (K := F)).mpr h1
    have h2F := (Rat.cast_le (K := F)).mpr h2
    push_cast at h1F h2F
    rw [hx]
    constructor <;> linarith
  · have hsF : ¬ (c : F) / 255 ≤ 4045 / 100000 := by
      intro hc
      apply hs
      have : ((((c : ℚ) / 255 : ℚ)) : F) ≤ ((4045 / 100000 : ℚ) : F) := by push_cast; exact hc
      exact (Rat.cast_le (K := F)).mp this
    rw [if_neg hs] at h
    rw [if_neg hsF] at hx
    obtain ⟨h1, h2⟩ := h
    have h1F := (Rat.cast_le (K := F)).mpr h1
    have h2F := (Rat.cast_le (K := F)).mpr h2
    push_cast at h1F h2F
    rw [← hx] at h1F h2F
    have odd5 : Odd 5 := by decide
    have a := (odd5.pow_le_pow).mp h1F
    have b := (odd5.pow_le_pow).mp h2F
    constructor <;> linarith

theorem sq_perturb {a a' η : F} (h : |a' - a| ≤ η) (ha : |a| ≤ 1) : |a' ^ 2 - a ^ 2| ≤ η * (2 + η) := by
  have hη : 0 ≤ η := le_trans (abs_nonneg _) h
  have e : a' ^ 2 - a ^ 2 = (a' - a) * ((a' - a) + 2 * a) := by ring
  rw [e, abs_mul]
  have h2 : |(a' - a) + 2 * a| ≤ η + 2 := by
    calc |(a' - a) + 2 * a| ≤ |a' - a| + |2 * a| := abs_add_le _ _
      _ = |a' - a| + 2 * |a| := by rw [abs_mul]; norm_num
      _ ≤ η + 2 := by linarith
  calc |a' - a| * |(a' - a) + 2 * a| ≤ η * (η + 2) :=
        mul_le_mul h h2 (abs_nonneg _) hη
    _ = η * (2 + η) := by ring

/-- one channel: colour and entry both moved by at most `ε`, original values in `[0, 1]` -/
theorem chan_perturb {p q p' q' ε : F} (hp : |p' - p| ≤ ε) (hq : |q' - q| ≤ ε)
    (p0 : 0 ≤ p) (p1 : p ≤ 1) (q0 : 0 ≤ q) (q1 : q ≤ 1) :
    |(p' - q') ^ 2 - (p - q) ^ 2| ≤ 2 * ε * (2 + 2 * ε) := by
  apply sq_perturb
  · have : p' - q' - (p - q) = (p' - p) - (q' - q) := by ring
    rw [this]
    calc |(p' - p) - (q' - q)| ≤ |p' - p| + |q' - q| := abs_sub _ _
      _ ≤ 2 * ε := by linarith
  · rw [abs_le]; constructor <;> linarith

end SurfProofs.Lemmas.ColorExact
