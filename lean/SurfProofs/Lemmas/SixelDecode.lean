import SurfProofs.Lemmas.SixelEnc
import SurfProofs.Lemmas.SixelTable
import SurfProofs.Lemmas.SixelMap
/-!
# C12 helper lemmas, part 4: the interpreter on whole bands and on the whole output
-/
namespace SurfProofs.Lemmas.SixelDecode
open SurfModel.Sixel SurfProofs.Lemmas.SixelLine SurfProofs.Lemmas.SixelInterp SurfProofs.Lemmas.SixelEnc
open SurfProofs.Lemmas.SixelTable

theorem groundHead_append {a b : List Nat} (ha : GroundHead a) (hb : a = [] → GroundHead b) :
    GroundHead (a ++ b) := by
  cases a with
  | nil => simpa using hb rfl
  | cons x a => simpa [GroundHead] using ha

/-- the running state between chunks: nothing pending, raster declared, registers loaded, at the left
margin of band `b` -/
def Good (R : List (Nat × RGB)) (w h b : Nat) (st : St) : Prop :=
  Idle st ∧ st.rep = none ∧ st.declared = some (w, h) ∧ st.regs = R ∧ st.band = b ∧ st.x = 0

open Classical in
/-- one colour's line `#c … $` paints exactly the pixels of band `b` that have colour `c` -/
theorem exec_colorLine {R : List (Nat × RGB)} {q : QImg} {h b c : Nat} {rgb : RGB} {st : St}
    (hg : Good R q.w h b st) (hc : c < 256) (hreg : R.lookup c = some rgb) (hb : 6 * b + 6 ≤ h) :
    ∃ st', exec st (colorLine q b c) = some st' ∧ Good R q.w h b st' ∧ st'.outside = st.outside ∧
      ∀ x' y', canvasGet st'.canvas x' y' =
        if y' / 6 = b ∧ x' < q.w ∧ q.get y' x' = c then some rgb else canvasGet st.canvas x' y' := by
  obtain ⟨hi, hr, hd, hR, hband, hx⟩ := hg
  have htok : ∀ t ∈ encodeLine 0 (lineItems q b c), TokOk t :=
    tokOk_encodeLine 0 _ (lineItems_codes q b c)
  unfold colorLine colorLineOf
  rw [SurfProofs.Lemmas.SixelMap.bandLine_eq]
  rw [exec_append _ _ [36] (by simp [GroundHead, isParamByte]),
    exec_append _ _ _ (groundHead_tokBytes _ htok), exec_select c hc hi hr]
  simp only [Option.bind_some]
  obtain ⟨h1, h2, h3⟩ := hi
  obtain ⟨sd, e⟩ := exec_toks (k := c) (c := rgb) _ htok (st := { st with color := some c })
    (by simp [Idle, h1, h2, h3]) (by simp [hr]) (by simp) (by simp [hR, hreg])
  rw [e]
  simp only [Option.bind_some]
  rw [exec_cr (by simp [Idle, afterToks, h1, h2, h3]) (by simp [afterToks, hr])]
  refine ⟨_, rfl, ?_, ?_, ?_⟩
  · simp [Good, Idle, afterToks, h1, h2, h3, hr, hd, hR, hband]
  · simp only [afterToks, expand_encodeLine, hx, hd, hband]
    rw [paintCodes_dense _ _ _ _ _ _ (lineItems_asc q b c)]
    exact foldl_items_outside _ _ _ _ hb _ _ (fun it hit => by
      obtain ⟨x, code⟩ := it
      exact ((mem_lineItems q b c x code).1 hit).1)
  · intro x' y'
    simp only [afterToks, expand_encodeLine, hx, hd, hband]
    rw [paintCodes_dense _ _ _ _ _ _ (lineItems_asc q b c), foldl_items_get]
    have key : (∃ it ∈ lineItems q b c, it.1 = x' ∧ ∃ i, i < 6 ∧ y' = 6 * b + i ∧ (it.2 - 63).testBit i = true)
        ↔ (y' / 6 = b ∧ x' < q.w ∧ q.get y' x' = c) := by
      constructor
      · rintro ⟨⟨x, code⟩, hit, hx', i, hi6, hy, ht⟩
        simp only at hx' ht
        subst hx'
        obtain ⟨hxw, _, hcode⟩ := (mem_lineItems q b c x code).1 hit
        subst hcode
        rw [Nat.add_sub_cancel, codeOf_sixelAt_testBit q b x c i hi6] at ht
        simp only [decide_eq_true_eq] at ht
        refine ⟨by omega, hxw, ?_⟩
        rw [hy]; exact ht
      · rintro ⟨hy, hxw, hq⟩
        have hy' : y' = 6 * b + y' % 6 := by omega
        have hq' : q.get (6 * b + y' % 6) x' = c := by rw [← hy']; exact hq
        refine ⟨(x', codeOf c (sixelAt q b x') + 63), ?_, rfl, y' % 6, by omega, hy', ?_⟩
        · exact (mem_lineItems q b c x' _).2 ⟨hxw, (mem_sixelAt q b x' c).2 ⟨y' % 6, by omega, hq'⟩, rfl⟩
        · simp only [Nat.add_sub_cancel]
          rw [codeOf_sixelAt_testBit q b x' c _ (by omega)]
          simp [hq']
    simp only [key]

theorem groundHead_colorLines (q : QImg) (b : Nat) (cs : List Nat) :
    GroundHead (cs.flatMap (colorLine q b)) := by
  cases cs with
  | nil => simp [GroundHead]
  | cons c cs => simp [colorLine, colorLineOf, GroundHead, isParamByte]

open Classical in
/-- the lines of a list of colours paint exactly the pixels of band `b` whose colour is in the list -/
theorem exec_colorLines {R : List (Nat × RGB)} {q : QImg} {h b : Nat} (f : Nat → RGB) (hb : 6 * b + 6 ≤ h) :
    ∀ (cs : List Nat) {st : St}, Good R q.w h b st → (∀ c ∈ cs, c < 256 ∧ R.lookup c = some (f c)) →
    ∃ st', exec st (cs.flatMap (colorLine q b)) = some st' ∧ Good R q.w h b st' ∧ st'.outside = st.outside ∧
      ∀ x' y', canvasGet st'.canvas x' y' =
        if y' / 6 = b ∧ x' < q.w ∧ q.get y' x' ∈ cs then some (f (q.get y' x')) else canvasGet st.canvas x' y' := by
  intro cs
  induction cs with
  | nil =>
    intro st hg _
    refine ⟨st, ?_, hg, rfl, ?_⟩
    · simp [exec_nil, finalize_idle hg.1.1]
    · intro x' y'; simp
  | cons c cs ih =>
    intro st hg hcs
    obtain ⟨hc, hreg⟩ := hcs c (by simp)
    obtain ⟨st1, e1, hg1, ho1, hget1⟩ := exec_colorLine hg hc hreg hb
    obtain ⟨st2, e2, hg2, ho2, hget2⟩ := ih hg1 (fun c' hc' => hcs c' (by simp [hc']))
    refine ⟨st2, ?_, hg2, by rw [ho2, ho1], ?_⟩
    · simp only [List.flatMap_cons]
      rw [exec_append _ _ _ (groundHead_colorLines q b cs), e1]
      simpa using e2
    · intro x' y'
      rw [hget2, hget1]
      by_cases hm : y' / 6 = b ∧ x' < q.w
      · by_cases h2 : q.get y' x' ∈ cs
        · simp [hm, h2]
        · by_cases h1 : q.get y' x' = c
          · simp [hm, h2, h1]
          · have : ¬ q.get y' x' ∈ c :: cs := by simp [h1, h2]
            simp [hm, h2, h1]
      · have h3 : ¬ (y' / 6 = b ∧ x' < q.w ∧ q.get y' x' ∈ cs) := fun h => hm ⟨h.1, h.2.1⟩
        have h4 : ¬ (y' / 6 = b ∧ x' < q.w ∧ q.get y' x' = c) := fun h => hm ⟨h.1, h.2.1⟩
        have h5 : ¬ (y' / 6 = b ∧ x' < q.w ∧ q.get y' x' ∈ c :: cs) := fun h => hm ⟨h.1, h.2.1⟩
        rw [if_neg h3, if_neg h4, if_neg h5]

open Classical in
theorem exec_band {R : List (Nat × RGB)} {q : QImg} {h b : Nat} (f : Nat → RGB) (hb : 6 * b + 6 ≤ h)
    (cs : List Nat) {st : St} (hg : Good R q.w h b st) (hcs : ∀ c ∈ cs, c < 256 ∧ R.lookup c = some (f c)) :
    ∃ st', exec st (encodeBand q b cs) = some st' ∧ Good R q.w h (b + 1) st' ∧ st'.outside = st.outside ∧
      ∀ x' y', canvasGet st'.canvas x' y' =
        if y' / 6 = b ∧ x' < q.w ∧ q.get y' x' ∈ cs then some (f (q.get y' x')) else canvasGet st.canvas x' y' := by
  obtain ⟨st1, e1, hg1, ho1, hget1⟩ := exec_colorLines f hb cs hg hcs
  obtain ⟨hi, hr, hd, hR, hband, hx⟩ := hg1
  rw [encodeBand_def]
  rw [exec_append _ _ [45] (by simp [GroundHead, isParamByte]), e1]
  simp only [Option.bind_some]
  rw [exec_nl hi hr]
  refine ⟨_, rfl, ?_, ho1, hget1⟩
  obtain ⟨h1, h2, h3⟩ := hi
  simp [Good, Idle, h1, h2, h3, hr, hd, hR, hband]

theorem groundHead_band (q : QImg) (b : Nat) (cs : List Nat) : GroundHead (encodeBand q b cs) := by
  rw [encodeBand_def]
  apply groundHead_append (groundHead_colorLines q b cs)
  intro _; simp [GroundHead, isParamByte]

theorem groundHead_bands (q : QImg) (order : Nat → List Nat) (bs : List Nat) :
    GroundHead (bs.flatMap (fun b => encodeBand q b (order b))) := by
  cases bs with
  | nil => simp [GroundHead]
  | cons b bs =>
    simp only [List.flatMap_cons]
    apply groundHead_append (groundHead_band q b _)
    intro h
    simp [encodeBand_def] at h

open Classical in
/-- bands `b0 … b0+n-1` -/
theorem exec_bands {R : List (Nat × RGB)} {q : QImg} {h : Nat} (f : Nat → RGB) (order : Nat → List Nat)
    :
    ∀ (n b0 : Nat) {st : St}, Good R q.w h b0 st → 6 * (b0 + n) ≤ h →
    (∀ b, b0 ≤ b → b < b0 + n → ∀ c ∈ order b, c < 256 ∧ R.lookup c = some (f c)) →
    ∃ st', exec st ((List.range' b0 n).flatMap (fun b => encodeBand q b (order b))) = some st'
      ∧ Good R q.w h (b0 + n) st' ∧ st'.outside = st.outside ∧
      ∀ x' y', canvasGet st'.canvas x' y' =
        if b0 ≤ y' / 6 ∧ y' / 6 < b0 + n ∧ x' < q.w ∧ q.get y' x' ∈ order (y' / 6)
        then some (f (q.get y' x')) else canvasGet st.canvas x' y' := by
  intro n
  induction n with
  | zero =>
    intro b0 st hg _ _
    refine ⟨st, ?_, by simpa using hg, rfl, ?_⟩
    · simp [exec_nil, finalize_idle hg.1.1]
    · intro x' y'
      have : ¬ (b0 ≤ y' / 6 ∧ y' / 6 < b0 + 0 ∧ x' < q.w ∧ q.get y' x' ∈ order (y' / 6)) := by omega
      rw [if_neg this]
  | succ n ih =>
    intro b0 st hg hh hord
    obtain ⟨st1, e1, hg1, ho1, hget1⟩ := exec_band f (by omega : 6 * b0 + 6 ≤ h) (order b0) hg
      (hord b0 (by omega) (by omega))
    obtain ⟨st2, e2, hg2, ho2, hget2⟩ := ih (b0 + 1) hg1 (by omega)
      (fun b h1 h2 => hord b (by omega) (by omega))
    refine ⟨st2, ?_, ?_, by rw [ho2, ho1], ?_⟩
    · simp only [List.range'_succ, List.flatMap_cons]
      rw [exec_append _ _ _ (groundHead_bands q order _), e1]
      simpa using e2
    · have : b0 + 1 + n = b0 + (n + 1) := by omega
      rw [← this]; exact hg2
    · intro x' y'
      rw [hget2, hget1]
      by_cases hA : b0 + 1 ≤ y' / 6 ∧ y' / 6 < b0 + 1 + n ∧ x' < q.w ∧ q.get y' x' ∈ order (y' / 6)
      · have hB : b0 ≤ y' / 6 ∧ y' / 6 < b0 + (n + 1) ∧ x' < q.w ∧ q.get y' x' ∈ order (y' / 6) :=
          ⟨by omega, by omega, hA.2.2.1, hA.2.2.2⟩
        rw [if_pos hA, if_pos hB]
      · rw [if_neg hA]
        by_cases hC : y' / 6 = b0 ∧ x' < q.w ∧ q.get y' x' ∈ order b0
        · have hB : b0 ≤ y' / 6 ∧ y' / 6 < b0 + (n + 1) ∧ x' < q.w ∧ q.get y' x' ∈ order (y' / 6) :=
            ⟨by omega, by omega, hC.2.1, by rw [hC.1]; exact hC.2.2⟩
          rw [if_pos hC, if_pos hB]
        · have hB : ¬ (b0 ≤ y' / 6 ∧ y' / 6 < b0 + (n + 1) ∧ x' < q.w ∧ q.get y' x' ∈ order (y' / 6)) := by
            rintro ⟨h1, h2, h3, h4⟩
            by_cases h5 : y' / 6 = b0
            · exact hC ⟨h5, h3, by rw [← h5]; exact h4⟩
            · exact hA ⟨by omega, by omega, h3, h4⟩
          rw [if_neg hC, if_neg hB]



/-! ## palette definition -/

/-- registers after the definitions of `cs` numbered from `i` (latest first) -/
def palRegs : Nat → List RGB → List (Nat × RGB) → List (Nat × RGB)
  | _, [], acc => acc
  | i, c :: cs, acc => palRegs (i + 1) cs ((i, level c) :: acc)

theorem groundHead_palette (i : Nat) (cs : List RGB) : GroundHead (paletteDefFrom i cs) := by
  cases cs with
  | nil => simp [paletteDefFrom, GroundHead]
  | cons c cs => simp [paletteDefFrom, colorDef, GroundHead, isParamByte]

theorem exec_palette : ∀ (cs : List RGB) (i : Nat) {st : St}, Idle st → st.rep = none → i + cs.length ≤ 256 →
    ∃ col, exec st (paletteDefFrom i cs) = some { st with regs := palRegs i cs st.regs, color := col } := by
  intro cs
  induction cs with
  | nil =>
    intro i st hi hr _
    exact ⟨st.color, by simp [paletteDefFrom, exec_nil, finalize_idle hi.1, palRegs]⟩
  | cons c cs ih =>
    intro i st hi hr hlen
    simp only [List.length_cons] at hlen
    simp only [paletteDefFrom]
    rw [exec_append _ _ _ (groundHead_palette _ _)]
    have := exec_define i (level c) (by omega) (level_le c) hi hr
    simp only [colorDef]
    rw [this]
    simp only [Option.bind_some]
    obtain ⟨h1, h2, h3⟩ := hi
    obtain ⟨col, e⟩ := ih (i + 1) (st := { st with regs := (i, level c) :: st.regs, color := some i })
      (by simp [Idle, h1, h2, h3]) (by simp [hr]) (by omega)
    exact ⟨col, by rw [e]; simp [palRegs]⟩

theorem palRegs_lookup (k : Nat) : ∀ (cs : List RGB) (i : Nat) (acc : List (Nat × RGB)),
    (palRegs i cs acc).lookup k =
      if i ≤ k ∧ k < i + cs.length then some (level (cs.getD (k - i) default)) else acc.lookup k := by
  intro cs
  induction cs with
  | nil => intro i acc; simp [palRegs]; omega
  | cons c cs ih =>
    intro i acc
    simp only [palRegs, ih, List.length_cons]
    by_cases h1 : i + 1 ≤ k ∧ k < i + 1 + cs.length
    · have h2 : i ≤ k ∧ k < i + (cs.length + 1) := by omega
      rw [if_pos h1, if_pos h2]
      have : k - i = (k - (i + 1)) + 1 := by omega
      rw [this]; simp
    · rw [if_neg h1]
      by_cases h3 : k = i
      · subst h3
        have h2 : k ≤ k ∧ k < k + (cs.length + 1) := by omega
        rw [if_pos h2]; simp [List.lookup]
      · have h2 : ¬ (i ≤ k ∧ k < i + (cs.length + 1)) := by omega
        rw [if_neg h2]
        have : (k == i) = false := by simp [h3]
        simp [List.lookup, this]

theorem palRegs_length : ∀ (cs : List RGB) (i : Nat) (acc : List (Nat × RGB)),
    (palRegs i cs acc).length = cs.length + acc.length := by
  intro cs
  induction cs with
  | nil => intro i acc; simp [palRegs]
  | cons c cs ih => intro i acc; simp [palRegs, ih]; omega

/-! ## the envelope -/

theorem stripDCS_header (rest : List Nat) : stripDCS (header ++ rest) = some rest := by
  simp [header, stripDCS, stripParams]

theorem stripST_append (body : List Nat) : stripST (body ++ [0x1b, 92]) = some body := by
  simp [stripST]

/-! ## the finished raster -/

theorem toRaster_get {st : St} {w h : Nat} (hd : st.declared = some (w, h)) (x y : Nat) (hx : x < w) (hy : y < h) :
    st.toRaster.get x y = canvasGet st.canvas x y := by
  simp [St.toRaster, hd, Raster.get, hx, hy]



/-- a valid output of quantisation for palette `pal`: `h` rows of `w` indices below the palette length,
height a multiple of six -/
structure QOk (pal : List RGB) (q : QImg) : Prop where
  rows_len : q.rows.length = q.h
  row_len : ∀ r ∈ q.rows, r.length = q.w
  idx : ∀ r ∈ q.rows, ∀ i ∈ r, i < pal.length
  h6 : q.h % 6 = 0

theorem QOk.get_lt {pal : List RGB} {q : QImg} (hq : QOk pal q) {y x : Nat} (hy : y < q.h) (hx : x < q.w) :
    q.get y x < pal.length := by
  unfold QImg.get
  have hy' : y < q.rows.length := by rw [hq.rows_len]; exact hy
  rw [List.getElem?_eq_getElem hy']
  simp only [hx, if_true]
  have hm : q.rows[y] ∈ q.rows := List.getElem_mem hy'
  have hl := hq.row_len _ hm
  have hx' : x < (q.rows[y]).length := by rw [hl]; exact hx
  have : (q.rows[y]).getD x 0 = (q.rows[y])[x] := by simp [hx']
  rw [this]
  exact hq.idx _ hm _ (List.getElem_mem hx')

/-- `order b` lists exactly the colours that occur in band `b` -/
def OrderOk (q : QImg) (order : Nat → List Nat) : Prop :=
  ∀ b, 6 * b < q.h →
    (order b).Nodup ∧ ∀ c, c ∈ order b ↔ ∃ y x, y / 6 = b ∧ y < q.h ∧ x < q.w ∧ q.get y x = c

theorem sixelN_of_exec {bytes rest body : List Nat} {st : St} (h1 : stripDCS bytes = some rest)
    (h2 : stripST rest = some body) (h3 : exec {} body = some st) (h4 : st.rep = none) :
    sixelN bytes = some st.toRaster := by
  unfold sixelN
  simp only [h1, h2]
  unfold exec at h3
  cases hr : run {} body with
  | none => simp [hr] at h3
  | some s =>
    simp only [hr, Option.bind_some] at h3
    simp [h3, h4]

theorem sixelN_encodeN (pal : List RGB) (q : QImg) (order : Nat → List Nat)
    (hpal : pal.length ≤ 256) (hq : QOk pal q) (hord : OrderOk q order) :
    ∃ r, sixelN (encodeN pal q order) = some r ∧ r.width = q.w ∧ r.height = q.h
      ∧ (r.pix.length = q.h ∧ ∀ row ∈ r.pix, row.length = q.w) ∧ r.outside = 0
      ∧ r.registers.length = pal.length ∧ (∀ k c, (k, c) ∈ r.registers → k < pal.length)
      ∧ ∀ y x, y < q.h → x < q.w → r.get x y = some (level (pal.getD (q.get y x) default)) := by
  let f : Nat → RGB := fun k => level (pal.getD k default)
  let R := palRegs 0 pal []
  have hbc : bandCount q.h = q.h / 6 := by have := hq.h6; unfold bandCount; omega
  -- the three sections of the body
  have e0 : exec {} (rasterAttrs q.w q.h) = some { declared := some (q.w, q.h) } :=
    exec_raster q.w q.h (by simp [Idle]) rfl rfl
  obtain ⟨col, e1⟩ := exec_palette pal 0 (st := { declared := some (q.w, q.h) }) (by simp [Idle]) rfl (by omega)
  have hg1 : Good R q.w q.h 0 { declared := some (q.w, q.h), regs := R, color := col } := by
    simp [Good, Idle]
  have hlook : ∀ c, c < pal.length → R.lookup c = some (f c) := by
    intro c hc
    simp only [R, palRegs_lookup]
    have : 0 ≤ c ∧ c < 0 + pal.length := by omega
    rw [if_pos this]; rfl
  have hordR : ∀ b, 0 ≤ b → b < 0 + q.h / 6 → ∀ c ∈ order b, c < 256 ∧ R.lookup c = some (f c) := by
    intro b _ hb c hc
    obtain ⟨y, x, _, hy, hx, hget⟩ := ((hord b (by omega)).2 c).1 hc
    have := hq.get_lt hy hx
    rw [hget] at this
    exact ⟨by omega, hlook c this⟩
  obtain ⟨st2, e2, hg2, ho2, hget2⟩ := exec_bands (q := q) (h := q.h) f order (q.h / 6) 0 hg1
    (by have := hq.h6; omega) hordR
  have hbody : exec {} (rasterAttrs q.w q.h ++ (paletteDef pal
      ++ (List.range (bandCount q.h)).flatMap (fun b => encodeBand q b (order b)))) = some st2 := by
    unfold paletteDef
    rw [exec_append _ _ _ (groundHead_append (groundHead_palette 0 pal) (fun _ => groundHead_bands q order _)), e0]
    simp only [Option.bind_some]
    rw [exec_append _ _ _ (groundHead_bands q order _), e1]
    simp only [Option.bind_some]
    rw [hbc, List.range_eq_range']
    exact e2
  have hbytes : encodeN pal q order = header ++ ((rasterAttrs q.w q.h ++ (paletteDef pal
      ++ (List.range (bandCount q.h)).flatMap (fun b => encodeBand q b (order b)))) ++ [0x1b, 92]) := by
    simp [encodeN, List.append_assoc]
  obtain ⟨hi2, hr2, hd2, hR2, _, _⟩ := hg2
  refine ⟨st2.toRaster, ?_, ?_, ?_, ?_, ?_, ?_, ?_, ?_⟩
  · rw [hbytes]
    exact sixelN_of_exec (stripDCS_header _) (stripST_append _) hbody hr2
  · simp [St.toRaster, hd2]
  · simp [St.toRaster, hd2]
  · refine ⟨by simp [St.toRaster, hd2], ?_⟩
    intro row hrow
    simp only [St.toRaster, hd2, List.mem_map] at hrow
    obtain ⟨y, _, hy⟩ := hrow
    rw [← hy]; simp
  · simp [St.toRaster, ho2]
  · simp [St.toRaster, hR2, R, palRegs_length]
  · intro k c hkc
    simp only [St.toRaster, hR2] at hkc
    have hne : R.lookup k ≠ none := by
      intro hn
      have := List.lookup_eq_none_iff.1 hn (k, c) hkc
      simp at this
    simp only [R, palRegs_lookup] at hne
    by_cases hk : 0 ≤ k ∧ k < 0 + pal.length
    · omega
    · rw [if_neg hk] at hne
      simp at hne
  · intro y x hy hx
    rw [toRaster_get hd2 x y hx hy, hget2]
    have hm : q.get y x ∈ order (y / 6) := ((hord (y / 6) (by omega)).2 _).2 ⟨y, x, rfl, hy, hx, rfl⟩
    have : 0 ≤ y / 6 ∧ y / 6 < 0 + q.h / 6 ∧ x < q.w ∧ q.get y x ∈ order (y / 6) := by
      refine ⟨by omega, ?_, hx, hm⟩
      have := hq.h6; omega
    rw [if_pos this]



/-! ## every emitted code is a byte -/

theorem decimal_lt (n : Nat) : ∀ d ∈ decimal n, d < 256 := fun d hd => by
  have := decimal_digits n d hd; omega

theorem tokBytes_lt (ts : List Tok) (h : ∀ t ∈ ts, TokOk t) : ∀ b ∈ tokBytes ts, b < 256 := by
  intro b hb
  simp only [tokBytes, List.mem_flatMap] at hb
  obtain ⟨t, ht, hbt⟩ := hb
  have hok := h t ht
  cases t with
  | lit code => simp only [TokOk] at hok; simp [Tok.bytes] at hbt; omega
  | rep n code =>
    simp only [TokOk] at hok
    simp only [Tok.bytes, List.mem_append, List.mem_singleton] at hbt
    rcases hbt with (hbt | hbt) | hbt
    · omega
    · exact decimal_lt n b hbt
    · omega

theorem colorLine_lt (q : QImg) (b c : Nat) : ∀ x ∈ colorLine q b c, x < 256 := by
  intro x hx
  simp only [colorLine, colorLineOf, SurfProofs.Lemmas.SixelMap.bandLine_eq, List.mem_append, List.mem_singleton] at hx
  rcases hx with ((hx | hx) | hx) | hx
  · omega
  · exact decimal_lt c x hx
  · exact tokBytes_lt _ (tokOk_encodeLine 0 _ (lineItems_codes q b c)) x hx
  · omega

theorem colorDef_lt (i : Nat) (c : RGB) : ∀ x ∈ colorDef i c, x < 256 := by
  intro x hx
  simp only [colorDef, List.mem_append, List.mem_singleton, List.mem_cons, List.not_mem_nil, or_false] at hx
  rcases hx with ((((((hx | hx) | hx) | hx) | hx) | hx) | hx) | hx
  · omega
  · exact decimal_lt _ x hx
  · omega
  · exact decimal_lt _ x hx
  · omega
  · exact decimal_lt _ x hx
  · omega
  · exact decimal_lt _ x hx

theorem paletteDefFrom_lt : ∀ (cs : List RGB) (i : Nat), ∀ x ∈ paletteDefFrom i cs, x < 256 := by
  intro cs
  induction cs with
  | nil => intro i x hx; simp [paletteDefFrom] at hx
  | cons c cs ih =>
    intro i x hx
    simp only [paletteDefFrom, List.mem_append] at hx
    rcases hx with hx | hx
    · exact colorDef_lt i c x hx
    · exact ih _ x hx

theorem encodeN_lt (pal : List RGB) (q : QImg) (order : Nat → List Nat) :
    ∀ x ∈ encodeN pal q order, x < 256 := by
  intro x hx
  simp only [encodeN, List.mem_append, List.mem_flatMap] at hx
  rcases hx with (((hx | hx) | hx) | hx) | hx
  · simp [header] at hx; omega
  · simp only [rasterAttrs, List.mem_append] at hx
    rcases hx with ((hx | hx) | hx) | hx
    · simp at hx; omega
    · exact decimal_lt _ x hx
    · simp at hx; omega
    · exact decimal_lt _ x hx
  · exact paletteDefFrom_lt pal 0 x hx
  · obtain ⟨b, _, hb⟩ := hx
    simp only [encodeBand_def, List.mem_append, List.mem_flatMap, List.mem_singleton] at hb
    rcases hb with ⟨c, _, hc⟩ | hb
    · exact colorLine_lt q b c x hc
    · omega
  · simp at hx; omega

theorem map_toNat_ofNat (l : List Nat) (h : ∀ x ∈ l, x < 256) :
    (l.map UInt8.ofNat).map UInt8.toNat = l := by
  induction l with
  | nil => rfl
  | cons a l ih =>
    have ha := h a (by simp)
    simp only [List.map_cons, ih (fun x hx => h x (by simp [hx]))]
    congr 1
    simp [UInt8.toNat_ofNat']
    omega

theorem sixel_encode (pal : List RGB) (q : QImg) (order : Nat → List Nat) :
    sixel (encode pal q order) = sixelN (encodeN pal q order) := by
  unfold sixel encode
  rw [map_toNat_ofNat _ (encodeN_lt pal q order)]

end SurfProofs.Lemmas.SixelDecode
