import SurfProofs.Lemmas.SgrItems
/-! Colour items of well-formed SGR parameter strings and their certificates. -/
namespace SurfProofs.Lemmas.SgrSem
open SurfModel.Vt SurfModel.Sgr SurfProofs.Lemmas.Vt SurfProofs.Lemmas.Sgr

/-! ### the decoder's palette is total on 0..255 and is the xterm palette (re-checked on the regenerated tables) -/

theorem palette_total : ∀ n : Fin 256, (palette n.val).isSome = true := by decide +kernel

theorem palette_some (n : Nat) (h : n ≤ 255) : ∃ c, palette n = some c := by
  have := palette_total ⟨n, by omega⟩
  exact Option.isSome_iff_exists.mp this

/-- cube levels and grey ramp are xterm's: 0, 95, 135, 175, 215, 255 and 8 + 10·i -/
theorem tables_xterm :
    SurfModel.Generated.cube6 = [0, 95, 135, 175, 215, 255] ∧
    SurfModel.Generated.greys24 = (List.range 24).map (fun i => 8 + 10 * i) ∧
    SurfModel.Generated.colors16.length = 16 := by decide

/-! ### generic splitting at `:` -/

def joinWith (sep : Nat) : List (List Nat) → List Nat
  | [] => []
  | [c] => c
  | c :: cs => c ++ sep :: joinWith sep cs

theorem splitBy_joinWith (sep : Nat) (chunks : List (List Nat)) (hne : chunks ≠ []) (h : ∀ c ∈ chunks, sep ∉ c) :
    splitBy sep (joinWith sep chunks) = chunks := by
  induction chunks with
  | nil => exact absurd rfl hne
  | cons c cs ih =>
    cases cs with
    | nil => simp [joinWith, splitBy_no_sep sep c (h c (by simp))]
    | cons c2 cs2 =>
      rw [joinWith, splitBy_append_sep sep c _ (h c (by simp)), ih (by simp) (fun x hx => h x (by simp [hx]))]
      · simp

theorem showNat_no58 (n : Nat) : 58 ∉ showNat n := by
  intro h; have := showNat_digits n 58 h; omega

theorem joinWith_pb (chunks : List (List Nat)) (h : ∀ c ∈ chunks, ∀ b ∈ c, 48 ≤ b ∧ b ≤ 57) :
    PB (joinWith 58 chunks) := by
  induction chunks with
  | nil => intro b hb; simp [joinWith] at hb
  | cons c cs ih =>
    intro b hb
    cases cs with
    | nil => simp [joinWith] at hb; have := h c (by simp) b hb; omega
    | cons c2 cs2 =>
      simp only [joinWith, List.mem_append, List.mem_cons] at hb
      rcases hb with hb | hb | hb
      · have := h c (by simp) b hb; omega
      · omega
      · exact ih (fun x hx => h x (by simp [hx])) b hb

/-! ### role plumbing -/

def roleBytes : Role → List Nat | .fg => [51, 56] | .bg => [52, 56] | .ul => [53, 56]

theorem roleBytes_decode (role : Role) : numberDecode (roleBytes role) = some (roleCode role) := by
  cases role <;> decide
theorem roleBytes_digits (role : Role) : ∀ b ∈ roleBytes role, 48 ≤ b ∧ b ≤ 57 := by
  cases role <;> (intro b hb; simp [roleBytes] at hb; omega)
theorem roleBytes_read (role : Role) : readNat? (roleBytes role) = some (some (roleCode role)) := by
  cases role <;> decide
theorem roleBytes_split (role : Role) : splitBy 58 (roleBytes role) = [roleBytes role] := by
  cases role <;> decide
theorem roleBytes_chunkP (role : Role) : chunkP (roleBytes role) = some [some (roleCode role)] := by
  cases role <;> decide

/-- effect of a colour on the view, per role -/
theorem hom_color (role : Role) (c : Rgba) (fm : FMod) (a : Attr) (f : DFace) (hr : normAttr a = view fm f) :
    normAttr (applySgr a (colorOp role (.inl (c.r, c.g, c.b)))) = view (setColor role c fm) f := by
  cases role
  · simp only [setColor, view_fg, ← hr]; rfl
  · simp only [setColor, view_bg, ← hr]; rfl
  · simp only [setColor, view_ulc, ← hr]; rfl

theorem hom_index (role : Role) (n : Nat) (hn : n ≤ 255) (fm : FMod) (a : Attr) (f : DFace)
    (hr : normAttr a = view fm f) :
    normAttr (applySgr a (colorOp role (.inr n))) =
      view (match role with
        | .fg => { fm with fg := palette n }
        | .bg => { fm with bg := palette n }
        | .ul => { fm with underlineColor := palette n }) f := by
  obtain ⟨c, hc⟩ := palette_some n hn
  cases role
  · simp only [hc, view_fg, ← hr]; simp [colorOp, applySgr, normAttr, resolveColor, hc]
  · simp only [hc, view_bg, ← hr]; simp [colorOp, applySgr, normAttr, resolveColor, hc]
  · simp only [view_ulc, ← hr]; rfl

/-! ### semicolon forms `38;2;r;g;b` and `38;5;n` -/

def rgbSemi (role : Role) (r g b : Nat) : ItemSpec :=
  ⟨colorChunks ⟨r, g, b, 255, 0, 0⟩ .trueColor role, colorParams ⟨r, g, b, 255, 0, 0⟩ .trueColor role,
   [colorOp role (.inl (r, g, b))], setColor role ⟨r, g, b, 255⟩⟩

theorem rgbSemi_ok (role : Role) (r g b : Nat) (hr : r ≤ 255) (hg : g ≤ 255) (hb : b ≤ 255) :
    ItemOk (rgbSemi role r g b) where
  good := colorChunks_good ⟨r, g, b, 255, 0, 0⟩ .trueColor role
  ne := by simp [rgbSemi, colorChunks]
  par := colorChunks_params ⟨r, g, b, 255, 0, 0⟩ .trueColor role
  closed := colorParams_closed ⟨r, g, b, 255, 0, 0⟩ .trueColor role
  dclosed := color_closed ⟨r, g, b, 255, 0, 0⟩ role hr hg hb
  hom := by intro fm a f h; simpa [rgbSemi] using hom_color role ⟨r, g, b, 255⟩ fm a f h

def setIndex (role : Role) (n : Nat) (fm : FMod) : FMod :=
  match role with
  | .fg => { fm with fg := palette n }
  | .bg => { fm with bg := palette n }
  | .ul => { fm with underlineColor := palette n }

def idxSemi (role : Role) (n : Nat) : ItemSpec :=
  ⟨colorChunks ⟨0, 0, 0, 255, n, 0⟩ .eightBit role, colorParams ⟨0, 0, 0, 255, n, 0⟩ .eightBit role,
   [colorOp role (.inr n)], setIndex role n⟩

theorem idxSemi_dclosed (role : Role) (n : Nat) (hn : n ≤ 255) :
    DClosed (colorChunks ⟨0, 0, 0, 255, n, 0⟩ .eightBit role) (setIndex role n) := by
  intro fm rest
  have n38 : numberDecode [51, 56] = some 38 := by decide
  have n48 : numberDecode [52, 56] = some 48 := by decide
  have n58 : numberDecode [53, 56] = some 58 := by decide
  have n5 : numberDecode [53] = some 5 := by decide
  have s38 : splitBy 58 [51, 56] = [[51, 56]] := by decide
  have s48 : splitBy 58 [52, 56] = [[52, 56]] := by decide
  have s58 : splitBy 58 [53, 56] = [[53, 56]] := by decide
  have en := numberDecode_showNat_small n (u8_small _ hn)
  cases role <;>
    simp [colorChunks, sgrFaceLoop_cons, sgrFaceStep, sgrColor, n38, n48, n58, n5, s38, s48, s58, en, setIndex]

theorem idxSemi_ok (role : Role) (n : Nat) (hn : n ≤ 255) : ItemOk (idxSemi role n) where
  good := colorChunks_good ⟨0, 0, 0, 255, n, 0⟩ .eightBit role
  ne := by simp [idxSemi, colorChunks]
  par := colorChunks_params ⟨0, 0, 0, 255, n, 0⟩ .eightBit role
  closed := colorParams_closed ⟨0, 0, 0, 255, n, 0⟩ .eightBit role
  dclosed := idxSemi_dclosed role n hn
  hom := by
    intro fm a f h
    have := hom_index role n hn fm a f h
    simpa [idxSemi, setIndex] using this

/-! ### colon forms `38:2::r:g:b`, `38:2:r:g:b`, `38:5:n` -/

def colonChunk (parts : List (List Nat)) : List Nat := joinWith 58 parts

theorem colon_split (parts : List (List Nat)) (hne : parts ≠ []) (h : ∀ c ∈ parts, ∀ b ∈ c, 48 ≤ b ∧ b ≤ 57) :
    splitBy 58 (colonChunk parts) = parts :=
  splitBy_joinWith 58 parts hne (by intro c hc h58; have := h c hc 58 h58; omega)

theorem digits_of_parts {role : Role} {l : List (List Nat)}
    (h : ∀ c ∈ l, ∀ b ∈ c, 48 ≤ b ∧ b ≤ 57) : ∀ c ∈ roleBytes role :: l, ∀ b ∈ c, 48 ≤ b ∧ b ≤ 57 := by
  intro c hc b hb
  simp at hc
  rcases hc with rfl | hc
  · exact roleBytes_digits role b hb
  · exact h c hc b hb

def rgbColon4 (role : Role) (r g b : Nat) : ItemSpec :=
  ⟨[colonChunk [roleBytes role, [50], [], showNat r, showNat g, showNat b]],
   [[some (roleCode role), some 2, none, some r, some g, some b]],
   [colorOp role (.inl (r, g, b))], setColor role ⟨r, g, b, 255⟩⟩

def rgbColon3 (role : Role) (r g b : Nat) : ItemSpec :=
  ⟨[colonChunk [roleBytes role, [50], showNat r, showNat g, showNat b]],
   [[some (roleCode role), some 2, some r, some g, some b]],
   [colorOp role (.inl (r, g, b))], setColor role ⟨r, g, b, 255⟩⟩

def idxColon (role : Role) (n : Nat) : ItemSpec :=
  ⟨[colonChunk [roleBytes role, [53], showNat n]],
   [[some (roleCode role), some 5, some n]],
   [colorOp role (.inr n)], setIndex role n⟩

theorem parts4_digits (r g b : Nat) : ∀ c ∈ [[50], [], showNat r, showNat g, showNat b], ∀ x ∈ c, 48 ≤ x ∧ x ≤ 57 := by
  intro c hc x hx
  simp at hc
  rcases hc with rfl | rfl | rfl | rfl | rfl
  · simp at hx; omega
  · simp at hx
  · exact showNat_digits _ x hx
  · exact showNat_digits _ x hx
  · exact showNat_digits _ x hx

theorem parts3_digits (r g b : Nat) : ∀ c ∈ [[50], showNat r, showNat g, showNat b], ∀ x ∈ c, 48 ≤ x ∧ x ≤ 57 := by
  intro c hc x hx
  simp at hc
  rcases hc with rfl | rfl | rfl | rfl
  · simp at hx; omega
  · exact showNat_digits _ x hx
  · exact showNat_digits _ x hx
  · exact showNat_digits _ x hx

theorem partsI_digits (n : Nat) : ∀ c ∈ [[53], showNat n], ∀ x ∈ c, 48 ≤ x ∧ x ≤ 57 := by
  intro c hc x hx
  simp at hc
  rcases hc with rfl | rfl
  · simp at hx; omega
  · exact showNat_digits _ x hx

theorem rgbColon4_ok (role : Role) (r g b : Nat) (hr : r ≤ 255) (hg : g ≤ 255) (hb : b ≤ 255) :
    ItemOk (rgbColon4 role r g b) := by
  have hd := digits_of_parts (role := role) (parts4_digits r g b)
  have hsplit := colon_split _ (by simp) hd
  have n2 : numberDecode [50] = some 2 := by decide
  have n0 : numberDecode [] = some 0 := by decide
  have er := numberDecode_showNat_small r (u8_small _ hr)
  have eg := numberDecode_showNat_small g (u8_small _ hg)
  have eb := numberDecode_showNat_small b (u8_small _ hb)
  refine ⟨Good.single (joinWith_pb _ hd), by simp [rgbColon4], ?_, ?_, ?_, ?_⟩
  · have r2 : readNat? [50] = some (some 2) := by decide
    have r0 : readNat? [] = some none := by decide
    simp [rgbColon4, chunkP, hsplit, roleBytes_read, r2, r0, readNat?_showNat]
  · intro rest; cases role <;> simp [rgbColon4, roleCode, colorOp, sgrSem]
  · refine DClosed.single _ _ ?_
    intro fm rest
    have hcode := roleBytes_decode role
    cases role <;>
      simp [rgbColon4, sgrFaceStep, hsplit, hcode, roleCode, sgrColor, nextNum, toU8, n2, n0, er, eg, eb, hr, hg, hb, setColor]
  · intro fm a f h; simpa [rgbColon4] using hom_color role ⟨r, g, b, 255⟩ fm a f h

theorem rgbColon3_ok (role : Role) (r g b : Nat) (hr : r ≤ 255) (hg : g ≤ 255) (hb : b ≤ 255) :
    ItemOk (rgbColon3 role r g b) := by
  have hd := digits_of_parts (role := role) (parts3_digits r g b)
  have hsplit := colon_split _ (by simp) hd
  have n2 : numberDecode [50] = some 2 := by decide
  have er := numberDecode_showNat_small r (u8_small _ hr)
  have eg := numberDecode_showNat_small g (u8_small _ hg)
  have eb := numberDecode_showNat_small b (u8_small _ hb)
  refine ⟨Good.single (joinWith_pb _ hd), by simp [rgbColon3], ?_, ?_, ?_, ?_⟩
  · have r2 : readNat? [50] = some (some 2) := by decide
    simp [rgbColon3, chunkP, hsplit, roleBytes_read, r2, readNat?_showNat]
  · intro rest; cases role <;> simp [rgbColon3, roleCode, colorOp, sgrSem]
  · refine DClosed.single _ _ ?_
    intro fm rest
    have hcode := roleBytes_decode role
    cases role <;>
      simp [rgbColon3, sgrFaceStep, hsplit, hcode, roleCode, sgrColor, nextNum, toU8, n2, er, eg, eb, hr, hg, hb, setColor]
  · intro fm a f h; simpa [rgbColon3] using hom_color role ⟨r, g, b, 255⟩ fm a f h

theorem idxColon_ok (role : Role) (n : Nat) (hn : n ≤ 255) : ItemOk (idxColon role n) := by
  have hd := digits_of_parts (role := role) (partsI_digits n)
  have hsplit := colon_split _ (by simp) hd
  have n5 : numberDecode [53] = some 5 := by decide
  have en := numberDecode_showNat_small n (u8_small _ hn)
  refine ⟨Good.single (joinWith_pb _ hd), by simp [idxColon], ?_, ?_, ?_, ?_⟩
  · have r5 : readNat? [53] = some (some 5) := by decide
    simp [idxColon, chunkP, hsplit, roleBytes_read, r5, readNat?_showNat]
  · intro rest; cases role <;> simp [idxColon, roleCode, colorOp, sgrSem]
  · refine DClosed.single _ _ ?_
    intro fm rest
    have hcode := roleBytes_decode role
    cases role <;>
      simp [idxColon, sgrFaceStep, hsplit, hcode, roleCode, sgrColor, n5, en, setIndex]
  · intro fm a f h
    have := hom_index role n hn fm a f h
    simpa [idxColon, setIndex] using this

/-! ### named colours 30–37, 40–47, 90–97, 100–107 -/

/-- decimal spelling of the code -/
def codeBytes (c : Nat) : List Nat :=
  if c < 100 then [48 + c / 10, 48 + c % 10] else [48 + c / 100, 48 + c / 10 % 10, 48 + c % 10]

def namedCode (bg bright : Bool) (k : Nat) : Nat :=
  (if bright then (if bg then 100 else 90) else (if bg then 40 else 30)) + k

def namedIndex (bright : Bool) (k : Nat) : Nat := if bright then k + 8 else k

def named (bg bright : Bool) (k : Nat) : ItemSpec :=
  ⟨[codeBytes (namedCode bg bright k)], [[some (namedCode bg bright k)]],
   [colorOp (if bg then .bg else .fg) (.inr (namedIndex bright k))],
   setIndex (if bg then .bg else .fg) (namedIndex bright k)⟩

theorem named_facts : ∀ (bg bright : Bool) (k : Fin 8),
    splitBy 58 (codeBytes (namedCode bg bright k)) = [codeBytes (namedCode bg bright k)] ∧
    numberDecode (codeBytes (namedCode bg bright k)) = some (namedCode bg bright k) := by decide

theorem named_ok (bg bright : Bool) (k : Nat) (hk : k < 8) : ItemOk (named bg bright k) := by
  have hidx : namedIndex bright k ≤ 255 := by unfold namedIndex; split <;> omega
  refine ⟨?_, by simp [named], ?_, ?_, ?_, ?_⟩
  · apply Good.single
    rcases k with _ | _ | _ | _ | _ | _ | _ | _ | k <;> cases bg <;> cases bright <;>
      first | exact pb_lit _ (by decide) | omega
  · rcases k with _ | _ | _ | _ | _ | _ | _ | _ | k <;> cases bg <;> cases bright <;>
      first | decide | omega
  · intro rest
    rcases k with _ | _ | _ | _ | _ | _ | _ | _ | k <;> cases bg <;> cases bright <;>
      first | (simp [named, namedCode, namedIndex, colorOp, sgrSem]; done) | omega
  · refine DClosed.single _ _ ?_
    intro fm rest
    obtain ⟨hs, hn⟩ := named_facts bg bright ⟨k, hk⟩
    simp only at hs hn
    unfold sgrFaceStep
    simp only [hs, hn]
    rcases k with _ | _ | _ | _ | _ | _ | _ | _ | k <;> cases bg <;> cases bright <;>
      first
        | (simp [named, namedCode, namedIndex, setIndex, palette]; done)
        | omega
  · intro fm a f h
    have := hom_index (if bg then .bg else .fg) (namedIndex bright k) hidx fm a f h
    cases bg <;> simpa [named, setIndex] using this

end SurfProofs.Lemmas.SgrSem
