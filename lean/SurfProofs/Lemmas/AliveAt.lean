import SurfProofs.Lemmas.AliveRe
import SurfProofs.Lemmas.AliveNS
namespace SurfProofs.Alive
open SurfModel.Automata SurfProofs.Graph SurfProofs.NFASem SurfProofs.NFAGraph SurfProofs.NFALang SurfProofs.ReMatch
open SurfProofs.ToNFA SurfProofs.Tags

/-- `AliveAt false e w t`: tag `t` is reported after `w` (some `tag t e'` inside `e` has just been completed);
    `AliveAt true e w t`: the same, for a tag that does not sit on the stop state of `e`'s automaton — the tags
    that survive when `e` itself is given a tag, because `tag_stop_state` REPLACES the tag of the stop state.
    The stop state of a sequence is that of its last component, of a one-or-more that of its operand; choice,
    optional and zero-or-more have a fresh stop state. -/
inductive AliveAt : Bool → Re → List UInt8 → Nat → Prop
  | tagHere {t e w} : e.Matches w → AliveAt false (.tag t e) w t
  | tagIn {b t e w t'} : AliveAt true e w t' → AliveAt b (.tag t e) w t'
  | seqMid {b pre e post u v t} : post ≠ [] → (Re.seq pre).Matches u → AliveAt false e v t →
      AliveAt b (.seq (pre ++ e :: post)) (u ++ v) t
  | seqLast {b pre e u v t} : (Re.seq pre).Matches u → AliveAt b e v t → AliveAt b (.seq (pre ++ [e])) (u ++ v) t
  | alt {b e es w t} : e ∈ es → AliveAt false e w t → AliveAt b (.alt es) w t
  | opt {b e w t} : AliveAt false e w t → AliveAt b (.opt e) w t
  | plus {b e u v t} : (u = [] ∨ (Re.plus e).Matches u) → AliveAt b e v t → AliveAt b (.plus e) (u ++ v) t
  | star {b e u v t} : (Re.star e).Matches u → AliveAt false e v t → AliveAt b (.star e) (u ++ v) t

theorem choice_stop_untagged (ns : List NFA) : tagAt (NFA.choice ns).states (NFA.choice ns).stop = none := by
  cases ns with
  | nil =>
    have : NFA.choice [] = NFA.nothing := rfl
    rw [this]; simp [NFA.nothing, tagAt, NState.new]
  | cons m rest =>
    rw [choice_eq]
    simp only
    rw [tagAt_assemble_pre _ _ _ 1 (by simp)]
    simp [tagAt, NState.new]

theorem many_stop_untagged (n : NFA) : tagAt (NFA.many n).states (NFA.many n).stop = none := by
  rw [many_eq]
  simp only
  rw [tagAt_assemble_pre _ _ _ 1 (by simp)]
  simp [tagAt, NState.new]

/-- a tag-free automaton has no tags alive, on the stop state or elsewhere -/
theorem noTags_both {n : NFA} (h : NoTags n.states) (w : List UInt8) (t : Nat) :
    ¬ TagReach n w t ∧ ¬ TagReachNS n w t :=
  ⟨noTags_tagReach h w t, fun ⟨q, _, hp, ht⟩ => noTags_tagReach h w t ⟨q, hp, ht⟩⟩

/-- decomposition of a list at a position -/
theorem split_at (es : List Re) (i : Nat) (e : Re) (h : es[i]? = some e) :
    es = es.take i ++ e :: es.drop (i + 1) ∧ (es.drop (i + 1) = [] ↔ i + 1 = es.length) := by
  have hlt : i < es.length := by
    rcases Nat.lt_or_ge i es.length with h' | h'
    · exact h'
    · rw [List.getElem?_eq_none h'] at h; cases h
  have he : e = es[i] := by rw [List.getElem?_eq_getElem hlt] at h; exact (Option.some.inj h).symm
  constructor
  · rw [he, List.getElem_cons_drop, List.take_append_drop]
  · rw [List.drop_eq_nil_iff]; omega

/-- the tags the automaton of ANY expression has alive after `w` (all of them / those off the stop state) -/
theorem aliveAt_spec (e : Re) :
    (∀ w t, TagReach e.toNFA w t ↔ AliveAt false e w t) ∧ (∀ w t, TagReachNS e.toNFA w t ↔ AliveAt true e w t) := by
  induction e using Re.induct' with
  | lit s =>
    have h := fun w t => noTags_both (toNFA_noTags _ (TagFree.lit s)) w t
    exact ⟨fun w t => ⟨fun x => absurd x (h w t).1, fun x => by cases x⟩,
      fun w t => ⟨fun x => absurd x (h w t).2, fun x => by cases x⟩⟩
  | pred rs =>
    have h := fun w t => noTags_both (toNFA_noTags _ (TagFree.pred rs)) w t
    exact ⟨fun w t => ⟨fun x => absurd x (h w t).1, fun x => by cases x⟩,
      fun w t => ⟨fun x => absurd x (h w t).2, fun x => by cases x⟩⟩
  | empty =>
    have h := fun w t => noTags_both (toNFA_noTags _ TagFree.empty) w t
    exact ⟨fun w t => ⟨fun x => absurd x (h w t).1, fun x => by cases x⟩,
      fun w t => ⟨fun x => absurd x (h w t).2, fun x => by cases x⟩⟩
  | nothing =>
    have h := fun w t => noTags_both (toNFA_noTags _ TagFree.nothing) w t
    exact ⟨fun w t => ⟨fun x => absurd x (h w t).1, fun x => by cases x⟩,
      fun w t => ⟨fun x => absurd x (h w t).2, fun x => by cases x⟩⟩
  | seq es ih =>
    have hlen : (es.map Re.toNFA).length = es.length := by simp
    -- from the automaton to the expression, given what operand `i` contributes
    have fwd : ∀ (b : Bool) i n u v t, (es.map Re.toNFA)[i]? = some n → SeqLang ((es.map Re.toNFA).take i) u →
        ((i + 1 < es.length ∧ TagReach n v t) ∨ (i + 1 = es.length ∧ (if b then TagReachNS n v t else TagReach n v t))) →
        AliveAt b (.seq es) (u ++ v) t := by
      intro b i n u v t hn hu hcase
      rw [List.getElem?_map] at hn
      cases hi : es[i]? with
      | none => simp [hi] at hn
      | some e' =>
        simp [hi] at hn; subst hn
        have hmem : e' ∈ es := List.mem_of_getElem? hi
        obtain ⟨hes, hnil⟩ := split_at es i e' hi
        rw [← List.map_take] at hu
        have hm := (seqLang_iff (es.take i) (fun e _ => (toNFA_spec e).2) u).mp hu
        rcases hcase with ⟨hlt, h⟩ | ⟨heq, h⟩
        · have hpost : es.drop (i + 1) ≠ [] := fun h0 => by have := hnil.mp h0; omega
          have := AliveAt.seqMid (b := b) hpost hm (((ih e' hmem).1 v t).mp h)
          rw [← hes] at this; exact this
        · have hpost := hnil.mpr heq
          have hal : AliveAt b e' v t := by
            cases b with
            | false => exact ((ih e' hmem).1 v t).mp h
            | true => exact ((ih e' hmem).2 v t).mp h
          have := AliveAt.seqLast (b := b) hm hal
          rw [hpost] at hes
          rw [← hes] at this; exact this
    -- and back
    have bwd : ∀ (b : Bool) w t, AliveAt b (.seq es) w t →
        ∃ i n, (es.map Re.toNFA)[i]? = some n ∧ ∃ u v, w = u ++ v ∧ SeqLang ((es.map Re.toNFA).take i) u ∧
          ((i + 1 < es.length ∧ TagReach n v t) ∨
            (i + 1 = es.length ∧ (if b then TagReachNS n v t else TagReach n v t))) := by
      intro b w t h
      generalize hx : Re.seq es = x at h
      cases h with
      | tagHere _ => cases hx
      | tagIn _ => cases hx
      | alt _ _ => cases hx
      | opt _ => cases hx
      | plus _ _ => cases hx
      | star _ _ => cases hx
      | @seqMid _ pre e post u v t hpost hm ha =>
        cases hx
        have hmem : e ∈ pre ++ e :: post := by simp
        refine ⟨pre.length, e.toNFA, by simp, u, v, rfl, ?_, Or.inl ⟨?_, ((ih e hmem).1 v t).mpr ha⟩⟩
        · rw [← List.map_take]
          simp only [List.take_left']
          exact (seqLang_iff pre (fun e _ => (toNFA_spec e).2) u).mpr hm
        · cases post with
          | nil => exact absurd rfl hpost
          | cons p ps => simp
      | @seqLast _ pre e u v t hm ha =>
        cases hx
        have hmem : e ∈ pre ++ [e] := by simp
        refine ⟨pre.length, e.toNFA, by simp, u, v, rfl, ?_, Or.inr ⟨by simp, ?_⟩⟩
        · rw [← List.map_take]
          simp only [List.take_left']
          exact (seqLang_iff pre (fun e _ => (toNFA_spec e).2) u).mpr hm
        · cases b with
          | false => exact ((ih e hmem).1 v t).mpr ha
          | true => exact ((ih e hmem).2 v t).mpr ha
    constructor
    · intro w t
      rw [Re.toNFA, toNFAs_eq, sequence_tagReach _ (map_wf es)]
      constructor
      · rintro ⟨i, n, hn, u, v, rfl, hu, hv⟩
        have hi : i < es.length := by
          rcases Nat.lt_or_ge i (es.map Re.toNFA).length with h' | h'
          · simpa using h'
          · rw [List.getElem?_eq_none h'] at hn; cases hn
        refine fwd false i n u v t hn hu ?_
        by_cases h : i + 1 < es.length
        · exact Or.inl ⟨h, hv⟩
        · exact Or.inr ⟨by omega, hv⟩
      · intro h
        obtain ⟨i, n, hn, u, v, e, hu, hcase⟩ := bwd false w t h
        refine ⟨i, n, hn, u, v, e, hu, ?_⟩
        rcases hcase with ⟨_, h⟩ | ⟨_, h⟩
        · exact h
        · simpa using h
    · intro w t
      rw [Re.toNFA, toNFAs_eq, sequence_tagReachNS _ (map_wf es), hlen]
      constructor
      · rintro ⟨i, n, hn, u, v, rfl, hu, hcase⟩
        exact fwd true i n u v t hn hu (by simpa using hcase)
      · intro h
        obtain ⟨i, n, hn, u, v, e, hu, hcase⟩ := bwd true w t h
        exact ⟨i, n, hn, u, v, e, hu, by simpa using hcase⟩
  | alt es ih =>
    have main : ∀ b w t, TagReach (Re.alt es).toNFA w t ↔ AliveAt b (.alt es) w t := by
      intro b w t
      rw [Re.toNFA, toNFAs_eq, choice_tagReach _ (map_wf es)]
      constructor
      · rintro ⟨n, hn, h⟩
        obtain ⟨e, he, rfl⟩ := List.mem_map.mp hn
        exact AliveAt.alt he (((ih e he).1 w t).mp h)
      · intro h
        generalize hx : Re.alt es = x at h
        cases h with
        | tagHere _ => cases hx
        | tagIn _ => cases hx
        | seqMid _ _ _ => cases hx
        | seqLast _ _ => cases hx
        | opt _ => cases hx
        | plus _ _ => cases hx
        | star _ _ => cases hx
        | @alt _ e es' w t he ha =>
          cases hx
          exact ⟨e.toNFA, List.mem_map.mpr ⟨e, he, rfl⟩, ((ih e he).1 w t).mpr ha⟩
    refine ⟨main false, fun w t => ?_⟩
    rw [tagReachNS_of_untagged_stop (by rw [Re.toNFA]; exact choice_stop_untagged _)]
    exact main true w t
  | opt e ih =>
    have main : ∀ b w t, TagReach (Re.opt e).toNFA w t ↔ AliveAt b (.opt e) w t := by
      intro b w t
      rw [Re.toNFA, optional_tagReach _ (toNFA_spec e).1, ih.1]
      constructor
      · exact AliveAt.opt
      · intro h; cases h with | opt h => exact h
    refine ⟨main false, fun w t => ?_⟩
    rw [tagReachNS_of_untagged_stop (by rw [Re.toNFA]; exact choice_stop_untagged _)]
    exact main true w t
  | plus e ih =>
    have hl : ∀ u, Plus (Lang e.toNFA) u ↔ (Re.plus e).Matches u := by
      intro u; rw [matches_plus, plus_congr (toNFA_spec e).2]
    constructor
    · intro w t
      rw [Re.toNFA, some_tagReach _ (toNFA_spec e).1]
      constructor
      · rintro ⟨u, v, rfl, hu, hv⟩
        exact AliveAt.plus (hu.imp id (hl u).mp) ((ih.1 v t).mp hv)
      · intro h
        cases h with
        | plus hu ha => exact ⟨_, _, rfl, hu.imp id (hl _).mpr, (ih.1 _ t).mpr ha⟩
    · intro w t
      rw [Re.toNFA, some_tagReachNS _ (toNFA_spec e).1]
      constructor
      · rintro ⟨u, v, rfl, hu, hv⟩
        exact AliveAt.plus (hu.imp id (hl u).mp) ((ih.2 v t).mp hv)
      · intro h
        cases h with
        | plus hu ha => exact ⟨_, _, rfl, hu.imp id (hl _).mpr, (ih.2 _ t).mpr ha⟩
  | star e ih =>
    have hl : ∀ u, Star (Lang e.toNFA) u ↔ (Re.star e).Matches u := by
      intro u; rw [matches_star, star_congr (toNFA_spec e).2]
    have main : ∀ b w t, TagReach (Re.star e).toNFA w t ↔ AliveAt b (.star e) w t := by
      intro b w t
      rw [Re.toNFA, many_tagReach _ (toNFA_spec e).1]
      constructor
      · rintro ⟨u, v, rfl, hu, hv⟩
        exact AliveAt.star ((hl u).mp hu) ((ih.1 v t).mp hv)
      · intro h
        cases h with
        | star hu ha => exact ⟨_, _, rfl, (hl _).mpr hu, (ih.1 _ t).mpr ha⟩
    refine ⟨main false, fun w t => ?_⟩
    rw [tagReachNS_of_untagged_stop (by rw [Re.toNFA]; exact many_stop_untagged _)]
    exact main true w t
  | tag t0 e ih =>
    constructor
    · intro w t
      rw [Re.toNFA, tagStop_tagReach' _ (toNFA_spec e).1]
      constructor
      · rintro (⟨rfl, h⟩ | h)
        · exact AliveAt.tagHere (((toNFA_spec e).2 w).mp h)
        · exact AliveAt.tagIn ((ih.2 w t).mp h)
      · intro h
        cases h with
        | tagHere hm => exact Or.inl ⟨rfl, ((toNFA_spec e).2 w).mpr hm⟩
        | tagIn ha => exact Or.inr ((ih.2 w t).mpr ha)
    · intro w t
      rw [Re.toNFA, tagStop_tagReachNS]
      constructor
      · intro h; exact AliveAt.tagIn ((ih.2 w t).mp h)
      · intro h
        cases h with
        | tagIn ha => exact (ih.2 w t).mpr ha

end SurfProofs.Alive
