import SurfProofs.Lemmas.AliveNFA
namespace SurfProofs.Alive
open SurfModel.Automata SurfProofs.Graph SurfProofs.NFASem SurfProofs.NFAGraph SurfProofs.NFALang SurfProofs.ReMatch
open SurfProofs.ToNFA SurfProofs.Tags

/-! ### tags on states other than the stop state (`tag_stop_state` REPLACES the tag of the stop state, so these
are the tags that survive a re-tagging) -/

/-- tag `t` sits on a state other than the stop state that is reachable reading `w` -/
def TagReachNS (n : NFA) (w : List UInt8) (t : Nat) : Prop :=
  ∃ q, q ≠ n.stop ∧ Reach n w q ∧ tagAt n.states q = some t

theorem tagReachNS_of_untagged_stop {n : NFA} (h : tagAt n.states n.stop = none) (w : List UInt8) (t : Nat) :
    TagReachNS n w t ↔ TagReach n w t := by
  constructor
  · rintro ⟨q, _, hp, ht⟩; exact ⟨q, hp, ht⟩
  · rintro ⟨q, hp, ht⟩
    refine ⟨q, ?_, hp, ht⟩
    intro e; subst e; rw [h] at ht; cases ht

theorem tagStop_tagReach' (n : NFA) (hwf : WF n) (t0 : Nat) (w : List UInt8) (t : Nat) :
    TagReach (n.tagStop t0) w t ↔ (t = t0 ∧ Lang n w) ∨ TagReachNS n w t :=
  tagStop_tagReach n hwf t0 w t

theorem tagStop_tagReachNS (n : NFA) (t0 : Nat) (w : List UInt8) (t : Nat) :
    TagReachNS (n.tagStop t0) w t ↔ TagReachNS n w t := by
  unfold TagReachNS
  have hs : (n.tagStop t0).stop = n.stop := rfl
  constructor
  · rintro ⟨q, hq, hp, ht⟩
    rw [hs] at hq
    rw [tagStop_reach] at hp
    rw [tagAt_tagStop, if_neg (fun h => hq h.1)] at ht
    exact ⟨q, hq, hp, ht⟩
  · rintro ⟨q, hq, hp, ht⟩
    refine ⟨q, by rw [hs]; exact hq, by rw [tagStop_reach]; exact hp, ?_⟩
    rw [tagAt_tagStop, if_neg (fun h => hq h.1)]; exact ht

theorem some_tagReachNS (n : NFA) (hwf : WF n) (w : List UInt8) (t : Nat) :
    TagReachNS (NFA.some n) w t ↔
      ∃ u v, w = u ++ v ∧ (u = [] ∨ Plus (Lang n) u) ∧ TagReachNS n v t := by
  unfold TagReachNS Reach
  have hs : (NFA.some n).stop = n.stop := rfl
  have hst : (NFA.some n).start = n.start := rfl
  constructor
  · rintro ⟨q, hq, hp, ht⟩
    have hp' : Path ((gr n.states).addEps n.stop n.start) n.start w q := (some_path n hwf _ _ _).mp hp
    obtain ⟨u, v, e, hu, hv⟩ := (some_reach _ _ _ _ _).mp hp'
    refine ⟨u, v, e, hu, q, hq, hv, ?_⟩
    simpa [NFA.some, tagAt_addEps] using ht
  · rintro ⟨u, v, e, hu, q, hq, hv, ht⟩
    refine ⟨q, hq, (some_path n hwf _ _ _).mpr ((some_reach _ _ _ _ _).mpr ⟨u, v, e, hu, hv⟩), ?_⟩
    simpa [NFA.some, tagAt_addEps] using ht

/-- non-stop tags of a sequence: any tag of an operand that is not the last one, or a non-stop tag of the last -/
theorem sequence_tagReachNS (ns : List NFA) (hwf : ∀ n ∈ ns, WF n) (w : List UInt8) (t : Nat) :
    TagReachNS (NFA.sequence ns) w t ↔
      ∃ i n, ns[i]? = some n ∧ ∃ u v, w = u ++ v ∧ SeqLang (ns.take i) u ∧
        ((i + 1 < ns.length ∧ TagReach n v t) ∨ (i + 1 = ns.length ∧ TagReachNS n v t)) := by
  cases ns with
  | nil =>
    have : NFA.sequence [] = NFA.empty := rfl
    rw [this]
    constructor
    · rintro ⟨q, _, hp, ht⟩
      exact absurd ⟨q, hp, ht⟩ (noTags_tagReach (by rw [noTags_iff]; simp [NFA.empty, NState.new]) w t)
    · rintro ⟨i, n, h, _⟩; simp at h
  | cons m rest =>
    have hex := bridges_spec (m :: rest)
    unfold TagReachNS TagReach Reach
    rw [sequence_eq]
    simp only
    have hc := sequence_chain (m :: rest) hwf _ hex
    have hlastlt : rest.length < (m :: rest).length := by simp
    have hlast : (m :: rest)[rest.length]? = some (m :: rest)[rest.length] := List.getElem?_eq_getElem hlastlt
    constructor
    · rintro ⟨q, hqs, hp, ht⟩
      have hq := tagReach_lt ht
      simp only [length_assemble, List.length_nil, Nat.zero_add] at hq
      obtain ⟨j, n, hn, h2, h3⟩ := cover (m :: rest) q hq
      have hj : j < (m :: rest).length := by
        rcases Nat.lt_or_ge j (m :: rest).length with h' | h'
        · exact h'
        · rw [List.getElem?_eq_none h'] at hn; cases hn
      have hblk : Blk 0 (m :: rest) j q := ⟨n, hn, by unfold InBlk; omega⟩
      have sf := hc.split' hp 0 j (by simp) hj (blk_st 0 _ hwf 0 (by simp)) hblk
      obtain ⟨u, v, e, h4, h5⟩ := seqFrom_prefix (m :: rest) hwf _ hex j hj sf rfl
      have hw := hwf n (List.mem_of_getElem? hn)
      have p := seg_unlift [] (m :: rest) _ j n hn hw (bridge_leaves (m :: rest) hwf _ hex j) h5
      rw [stOf_eq 0 _ j _ hn] at p
      simp only [List.length_nil, Nat.add_sub_cancel] at p
      have htag : tagAt n.states (q - (0 + base (m :: rest) j)) = some t := by
        have := tagAt_assemble_blk [] (m :: rest) (NFA.bridges (NFA.mergeStates (m :: rest) 0).2) j n hn
          (q - (0 + base (m :: rest) j)) (by omega)
        simp only [List.length_nil] at this
        rw [show q - (0 + base (m :: rest) j) + (0 + base (m :: rest) j) = q by omega] at this
        rw [← this]; exact ht
      refine ⟨j, n, hn, u, v, e, by simpa using h4, ?_⟩
      by_cases hjl : j + 1 < (m :: rest).length
      · exact Or.inl ⟨hjl, _, p, htag⟩
      · have hjl' : j = rest.length := by simp at hj hjl ⊢; omega
        refine Or.inr ⟨by simp [hjl'], _, ?_, p, htag⟩
        intro hk
        apply hqs
        subst hjl'
        rw [spOf_eq 0 _ _ _ hn, ← hk]; omega
    · rintro ⟨i, n, hn, u, v, rfl, hu, hcase⟩
      have hi : i < (m :: rest).length := by
        rcases Nat.lt_or_ge i (m :: rest).length with h' | h'
        · exact h'
        · rw [List.getElem?_eq_none h'] at hn; cases hn
      have hw := hwf n (List.mem_of_getElem? hn)
      have main : ∀ k, Path (gr n.states) n.start v k → tagAt n.states k = some t →
          (i + 1 = (m :: rest).length → k ≠ n.stop) →
          ∃ q, q ≠ spOf 0 (m :: rest) rest.length ∧
            Path (gr (assemble [] (m :: rest) (NFA.bridges (NFA.mergeStates (m :: rest) 0).2)))
              (stOf 0 (m :: rest) 0) (u ++ v) q ∧
            tagAt (assemble [] (m :: rest) (NFA.bridges (NFA.mergeStates (m :: rest) 0).2)) q = some t := by
        intro k hp ht hne
        have hk := tagReach_lt ht
        have p1 := prefix_path (m :: rest) hwf _ hex i 0 i u (by omega) hi (by simpa using hu)
        have p2 := seg_lift [] (m :: rest) (NFA.bridges (NFA.mergeStates (m :: rest) 0).2) i n hn hw hp
        rw [stOf_eq 0 _ i _ hn] at p1
        simp only [List.length_nil] at p2
        refine ⟨k + (0 + base (m :: rest) i), ?_, p1.trans p2, ?_⟩
        · intro heq
          have hb1 : Blk 0 (m :: rest) i (k + (0 + base (m :: rest) i)) := ⟨n, hn, by unfold InBlk; omega⟩
          have hb2 := blk_sp 0 (m :: rest) hwf rest.length hlastlt
          rw [← heq] at hb2
          have hil : i = rest.length := blk_disj 0 _ _ _ _ hb1 hb2
          subst hil
          rw [spOf_eq 0 _ _ _ hn] at heq
          exact hne (by simp) (by omega)
        · have := tagAt_assemble_blk [] (m :: rest) (NFA.bridges (NFA.mergeStates (m :: rest) 0).2) i n hn k hk
          simp only [List.length_nil] at this
          rw [this]; exact ht
      rcases hcase with ⟨hlt, k, hp, ht⟩ | ⟨heq, k, hk, hp, ht⟩
      · exact main k hp ht (fun h => by omega)
      · exact main k hp ht (fun _ => hk)

end SurfProofs.Alive
