import SurfModel.TextLayout
/-!
Lemmas about `Cell::layout` (model `SurfModel.TextLayout.cellLayout` / `layoutRun`) for C09:
width tracking, agreement of layouts at widths between the reported and the available one, positions
inside the reported size, reading order, which cells get a position.
-/
namespace SurfProofs.Lemmas.TextLayout
open SurfModel.TextLayout

/-- reading order on positions `(row, col)` -/
def lexLt (p q : Nat × Nat) : Prop := p.1 < q.1 ∨ (p.1 = q.1 ∧ p.2 < q.2)
def lexLe (p q : Nat × Nat) : Prop := p.1 < q.1 ∨ (p.1 = q.1 ∧ p.2 ≤ q.2)

theorem lexLe_trans {a b c : Nat × Nat} (h1 : lexLe a b) (h2 : lexLe b c) : lexLe a c := by
  unfold lexLe at *; omega
theorem lexLe_lt_trans {a b c : Nat × Nat} (h1 : lexLe a b) (h2 : lexLt b c) : lexLt a c := by
  unfold lexLe lexLt at *; omega
theorem lexLt_le_trans {a b c : Nat × Nat} (h1 : lexLt a b) (h2 : lexLe b c) : lexLt a c := by
  unfold lexLe lexLt at *; omega

/-- what `Cell::layout` distinguishes in a cell -/
inductive Item where
  | nl | cr | tab
  /-- zero width or zero height: skipped -/
  | skip
  /-- a cell that occupies `h × w` cells, `h, w ≥ 1` -/
  | sized (h w : Nat)
  deriving Repr, DecidableEq

def classify (ctx : Ctx) : Kind → Item
  | .chr c =>
    if c = 10 then .nl else if c = 13 then .cr else if c = 9 then .tab
    else if ctx.width c = 0 then .skip else .sized 1 (ctx.width c)
  | k => if (k.size ctx).1 = 0 ∨ (k.size ctx).2 = 0 then .skip else .sized (k.size ctx).1 (k.size ctx).2

/-- `Cell::layout` on the classification -/
def step (W : Nat) (wraps : Bool) (s : LSt) : Item → LSt × Option (Nat × Nat)
  | .nl => (layoutNl s, none)
  | .cr => (layoutCr s, none)
  | .tab => (layoutTab W s, none)
  | .skip => (s, none)
  | .sized h w => layoutSized W wraps h w s

theorem cellLayout_eq_step (ctx : Ctx) (W : Nat) (wraps : Bool) (k : Kind) (s : LSt) :
    cellLayout ctx W wraps k s = step W wraps s (classify ctx k) := by
  cases k with
  | chr c =>
    simp only [cellLayout, classify]
    by_cases h10 : c = 10
    · simp [h10, step]
    · by_cases h13 : c = 13
      · simp [h13, step]
      · by_cases h9 : c = 9
        · simp [h9, step]
        · simp only [h10, h13, h9, if_false]
          by_cases hw : ctx.width c = 0
          · simp [hw, step, layoutSized]
          · simp [hw, step]
  | image ph pw =>
    simp only [cellLayout, classify]
    by_cases hz : (Kind.size ctx (.image ph pw)).1 = 0 ∨ (Kind.size ctx (.image ph pw)).2 = 0
    · simp only [hz, if_true, step]; simp [layoutSized, hz]
    · simp [hz, step]
  | glyph h w fb =>
    simp only [cellLayout, classify]
    by_cases hz : (Kind.size ctx (.glyph h w fb)).1 = 0 ∨ (Kind.size ctx (.glyph h w fb)).2 = 0
    · simp only [hz, if_true, step]; simp [layoutSized, hz]
    · simp [hz, step]

/-- a sized item really has a size -/
theorem classify_sized_pos (ctx : Ctx) (k : Kind) (h w : Nat) (hk : classify ctx k = .sized h w) : 1 ≤ h ∧ 1 ≤ w := by
  cases k with
  | chr c =>
    simp only [classify] at hk
    split at hk
    · cases hk
    · split at hk
      · cases hk
      · split at hk
        · cases hk
        · split at hk
          · cases hk
          · cases hk; omega
  | image ph pw =>
    simp only [classify] at hk
    split at hk
    · cases hk
    · cases hk; omega
  | glyph h' w' fb =>
    simp only [classify] at hk
    split at hk
    · cases hk
    · cases hk; omega

/-- the run on classified items -/
def run (W : Nat) (wraps : Bool) : List Item → LSt → LSt × List (Option (Nat × Nat))
  | [], s => (s, [])
  | c :: cs, s =>
    let r := step W wraps s c
    let t := run W wraps cs r.1
    (t.1, r.2 :: t.2)

theorem layoutRun_eq_run (ctx : Ctx) (W : Nat) (wraps : Bool) (ks : List Kind) (s : LSt) :
    layoutRun ctx W wraps ks s = run W wraps (ks.map (classify ctx)) s := by
  induction ks generalizing s with
  | nil => simp [layoutRun, run]
  | cons k ks ih => simp only [layoutRun, run, List.map_cons, cellLayout_eq_step, ih]

/-- items with positive sizes (what `classify` produces) -/
def ItemOk : Item → Prop
  | .sized h w => 1 ≤ h ∧ 1 ≤ w
  | _ => True

theorem classify_ok (ctx : Ctx) (k : Kind) : ItemOk (classify ctx k) := by
  cases hk : classify ctx k with
  | sized h w => exact classify_sized_pos ctx k h w hk
  | _ => trivial

/-! ### tracked width -/

theorem step_sw_mono (W wraps s c) : s.sw ≤ (step W wraps s c).1.sw := by
  cases c with
  | nl => simp [step, layoutNl]; omega
  | cr => simp [step, layoutCr]
  | tab => simp [step, layoutTab]; omega
  | skip => simp [step]
  | sized h w =>
    simp only [step, layoutSized]
    split
    · simp
    · split
      · simp; omega
      · split
        · simp
        · simp; omega

theorem step_sh_mono (W wraps s c) : s.sh ≤ (step W wraps s c).1.sh := by
  cases c with
  | nl => simp [step, layoutNl]; omega
  | cr => simp [step, layoutCr]
  | tab => simp [step, layoutTab]
  | skip => simp [step]
  | sized h w =>
    simp only [step, layoutSized]
    split
    · simp
    · split
      · simp; omega
      · split
        · simp
        · simp; omega

theorem run_sw_mono (W wraps) (cs : List Item) (s : LSt) : s.sw ≤ (run W wraps cs s).1.sw := by
  induction cs generalizing s with
  | nil => simp [run]
  | cons c cs ih => simp only [run]; exact Nat.le_trans (step_sw_mono W wraps s c) (ih _)

theorem run_sh_mono (W wraps) (cs : List Item) (s : LSt) : s.sh ≤ (run W wraps cs s).1.sh := by
  induction cs generalizing s with
  | nil => simp [run]
  | cons c cs ih => simp only [run]; exact Nat.le_trans (step_sh_mono W wraps s c) (ih _)

/-! ### agreement -/

theorem step_agree (W W2 : Nat) (wraps : Bool) (s : LSt) (c : Item)
    (h2 : W2 ≤ W) (hfit : (step W wraps s c).1.sw ≤ W2) :
    step W2 wraps s c = step W wraps s c := by
  cases c with
  | nl => simp [step]
  | cr => simp [step]
  | skip => simp [step]
  | tab =>
    simp only [step, layoutTab] at hfit ⊢
    have : min (8 - s.col % 8) (W2 - s.col) = min (8 - s.col % 8) (W - s.col) := by omega
    rw [this]
  | sized h w =>
    simp only [step, layoutSized] at hfit ⊢
    by_cases hz : h = 0 ∨ w = 0
    · simp [hz]
    · simp only [hz, if_false] at hfit ⊢
      by_cases hf : s.col + w < U ∧ s.col + w ≤ W
      · simp only [hf, and_self, if_true] at hfit ⊢
        have : s.col + w < U ∧ s.col + w ≤ W2 := by omega
        simp [this]
      · simp only [hf, if_false] at hfit ⊢
        have hf2 : ¬ (s.col + w < U ∧ s.col + w ≤ W2) := by omega
        simp only [hf2, if_false]
        cases wraps with
        | false => simp
        | true =>
          simp only [Bool.not_true, Bool.false_eq_true, if_false] at hfit ⊢
          have : min w W2 = min w W := by omega
          rw [this]

theorem run_agree (W W2 : Nat) (wraps : Bool) (cs : List Item) (s : LSt)
    (h2 : W2 ≤ W) (hfit : (run W wraps cs s).1.sw ≤ W2) :
    run W2 wraps cs s = run W wraps cs s := by
  induction cs generalizing s with
  | nil => simp [run]
  | cons c cs ih =>
    simp only [run] at hfit ⊢
    have hstep : (step W wraps s c).1.sw ≤ W2 := Nat.le_trans (run_sw_mono W wraps cs _) hfit
    rw [step_agree W W2 wraps s c h2 hstep, ih _ hfit]

/-! ### rows grow by at most one per cell -/

theorem step_row (W wraps s c) : s.row ≤ (step W wraps s c).1.row ∧ (step W wraps s c).1.row ≤ s.row + 1 := by
  cases c with
  | nl => simp [step, layoutNl]
  | cr => simp [step, layoutCr]
  | tab => simp [step, layoutTab]
  | skip => simp [step]
  | sized h w =>
    simp only [step, layoutSized]
    split
    · simp
    · split
      · simp
      · split
        · simp
        · simp

theorem run_row (W wraps) (cs : List Item) (s : LSt) : (run W wraps cs s).1.row ≤ s.row + cs.length := by
  induction cs generalizing s with
  | nil => simp [run]
  | cons c cs ih =>
    simp only [run, List.length_cons]
    have := ih (step W wraps s c).1
    have := (step_row W wraps s c).2
    omega

/-! ### positions lie inside the tracked size -/

theorem step_inside (W wraps s c) (hc : ItemOk c) (hW : 1 ≤ W) (hrow : s.row + 2 < U) :
    ∀ p, (step W wraps s c).2 = some p → p.1 < (step W wraps s c).1.sh ∧ p.2 < (step W wraps s c).1.sw := by
  intro p hp
  cases c with
  | nl => simp [step] at hp
  | cr => simp [step] at hp
  | tab => simp [step] at hp
  | skip => simp [step] at hp
  | sized h w =>
    obtain ⟨hh, hw⟩ : 1 ≤ h ∧ 1 ≤ w := hc
    simp only [step, layoutSized] at hp ⊢
    have hz : ¬ (h = 0 ∨ w = 0) := by omega
    simp only [hz, if_false] at hp ⊢
    by_cases hf : s.col + w < U ∧ s.col + w ≤ W
    · simp only [hf, and_self, if_true] at hp ⊢
      cases hp
      simp only [satAdd]
      split <;> first | omega | (simp; omega)
    · simp only [hf, if_false] at hp ⊢
      cases wraps with
      | false => simp at hp
      | true =>
        simp only [Bool.not_true, Bool.false_eq_true, if_false] at hp ⊢
        cases hp
        simp only [satAdd]
        split <;> first | omega | (simp; omega)

theorem run_inside (W wraps) (cs : List Item) (s : LSt) (hc : ∀ c ∈ cs, ItemOk c) (hW : 1 ≤ W)
    (hrow : s.row + cs.length + 1 < U) :
    ∀ p ∈ (run W wraps cs s).2.filterMap id, p.1 < (run W wraps cs s).1.sh ∧ p.2 < (run W wraps cs s).1.sw := by
  induction cs generalizing s with
  | nil => simp [run]
  | cons c cs ih =>
    intro p hp
    simp only [run, List.length_cons] at hp hrow ⊢
    have hrow' := (step_row W wraps s c).2
    cases hs : (step W wraps s c).2 with
    | none =>
      rw [hs] at hp
      simp only [List.filterMap_cons, id] at hp
      exact ih _ (fun c hc' => hc c (List.mem_cons_of_mem _ hc')) (by omega) p hp
    | some q =>
      rw [hs] at hp
      simp only [id, List.filterMap_cons, List.mem_cons] at hp
      rcases hp with rfl | hp
      · have := step_inside W wraps s c (hc c List.mem_cons_self) hW (by omega) p hs
        have h1 := run_sh_mono W wraps cs (step W wraps s c).1
        have h2 := run_sw_mono W wraps cs (step W wraps s c).1
        omega
      · exact ih _ (fun c hc' => hc c (List.mem_cons_of_mem _ hc')) (by omega) p hp

/-! ### reading order -/

def cur (s : LSt) : Nat × Nat := (s.row, s.col)

/-- without a carriage return the cursor never moves backwards, a position is at or after the cursor
and the cursor afterwards is strictly after it -/
theorem step_order (W wraps s c) (hc : ItemOk c) (hcr : c ≠ .cr) (hW : 1 ≤ W) :
    lexLe (cur s) (cur (step W wraps s c).1) ∧
    ∀ p, (step W wraps s c).2 = some p → lexLe (cur s) p ∧ lexLt p (cur (step W wraps s c).1) := by
  cases c with
  | nl => simp [step, layoutNl, cur, lexLe]
  | cr => exact absurd rfl hcr
  | tab => simp [step, layoutTab, cur, lexLe]
  | skip => simp [step, cur, lexLe]
  | sized h w =>
    obtain ⟨hh, hw⟩ : 1 ≤ h ∧ 1 ≤ w := hc
    simp only [step, layoutSized]
    have hz : ¬ (h = 0 ∨ w = 0) := by omega
    simp only [hz, if_false]
    by_cases hf : s.col + w < U ∧ s.col + w ≤ W
    · simp only [hf, and_self, if_true]
      refine ⟨by simp [cur, lexLe], ?_⟩
      intro p hp
      cases hp
      simp [cur, lexLe, lexLt]; omega
    · simp only [hf, if_false]
      cases wraps with
      | false => simp [cur, lexLe]
      | true =>
        simp only [Bool.not_true, Bool.false_eq_true, if_false]
        refine ⟨by simp [cur, lexLe], ?_⟩
        intro p hp
        cases hp
        simp only [cur, lexLe, lexLt]
        -- the cell is put unconditionally at column 0; the cursor moves to `min w W ≥ 1`
        simp; omega


theorem run_ge (W wraps) (cs : List Item) (s : LSt) (hc : ∀ c ∈ cs, ItemOk c) (hcr : ∀ c ∈ cs, c ≠ .cr) (hW : 1 ≤ W) :
    ∀ p ∈ (run W wraps cs s).2.filterMap id, lexLe (cur s) p := by
  induction cs generalizing s with
  | nil => simp [run]
  | cons c cs ih =>
    intro p hp
    simp only [run] at hp
    have hso := step_order W wraps s c (hc c List.mem_cons_self) (hcr c List.mem_cons_self) hW
    have htl := ih (step W wraps s c).1 (fun c hc' => hc c (List.mem_cons_of_mem _ hc'))
      (fun c hc' => hcr c (List.mem_cons_of_mem _ hc'))
    cases hs : (step W wraps s c).2 with
    | none =>
      rw [hs] at hp
      simp only [List.filterMap_cons, id] at hp
      exact lexLe_trans hso.1 (htl p hp)
    | some q =>
      rw [hs] at hp
      simp only [id, List.filterMap_cons, List.mem_cons] at hp
      rcases hp with rfl | hp
      · exact (hso.2 p hs).1
      · exact lexLe_trans hso.1 (htl p hp)

/-- positions are strictly increasing in reading order (hence pairwise distinct) -/
theorem run_increasing (W wraps) (cs : List Item) (s : LSt) (hc : ∀ c ∈ cs, ItemOk c) (hcr : ∀ c ∈ cs, c ≠ .cr)
    (hW : 1 ≤ W) : ((run W wraps cs s).2.filterMap id).Pairwise lexLt := by
  induction cs generalizing s with
  | nil => simp [run]
  | cons c cs ih =>
    simp only [run]
    have hso := step_order W wraps s c (hc c List.mem_cons_self) (hcr c List.mem_cons_self) hW
    have hc' : ∀ c ∈ cs, ItemOk c := fun c h => hc c (List.mem_cons_of_mem _ h)
    have hcr' : ∀ c ∈ cs, c ≠ .cr := fun c h => hcr c (List.mem_cons_of_mem _ h)
    cases hs : (step W wraps s c).2 with
    | none =>
      simp only [List.filterMap_cons, id]
      exact ih _ hc' hcr'
    | some q =>
      simp only [id, List.filterMap_cons, List.pairwise_cons]
      refine ⟨?_, ih _ hc' hcr'⟩
      intro p hp
      exact lexLt_le_trans (hso.2 q hs).2 (run_ge W wraps cs _ hc' hcr' hW p hp)

theorem lexLt_irrefl (p : Nat × Nat) : ¬ lexLt p p := by unfold lexLt; omega

theorem run_length (W wraps) (cs : List Item) (s : LSt) : (run W wraps cs s).2.length = cs.length := by
  induction cs generalizing s with
  | nil => simp [run]
  | cons c cs ih => simp [run, ih]

/-! ### which cells get a position -/

/-- with wrapping every sized cell gets a position, nothing else does -/
theorem run_wrap_complete (W : Nat) (cs : List Item) (s : LSt) (hc : ∀ c ∈ cs, ItemOk c) :
    (run W true cs s).2.map Option.isSome = cs.map fun c => match c with | .sized _ _ => true | _ => false := by
  induction cs generalizing s with
  | nil => simp [run]
  | cons c cs ih =>
    simp only [run, List.map_cons, ih _ (fun c h => hc c (List.mem_cons_of_mem _ h))]
    congr 1
    cases c with
    | nl => simp [step]
    | cr => simp [step]
    | tab => simp [step]
    | skip => simp [step]
    | sized h w =>
      obtain ⟨hh, hw⟩ : 1 ≤ h ∧ 1 ≤ w := hc _ List.mem_cons_self
      have hz : ¬ (h = 0 ∨ w = 0) := by omega
      simp only [step, layoutSized, hz, if_false]
      split <;> simp

/-- specification of a line layout without wrapping, column by column: a cell is kept exactly when its
right edge `col + w` does not exceed the available width; a dropped cell does not move the column; a tab
moves to the next multiple of 8, clipped to the available width -/
def keepNoWrap (W : Nat) : List Item → Nat → List Bool
  | [], _ => []
  | .nl :: cs, _ => false :: keepNoWrap W cs 0
  | .cr :: cs, _ => false :: keepNoWrap W cs 0
  | .tab :: cs, col => false :: keepNoWrap W cs (if col < W then min ((col / 8 + 1) * 8) W else col)
  | .skip :: cs, col => false :: keepNoWrap W cs col
  | .sized _ w :: cs, col => if col + w ≤ W then true :: keepNoWrap W cs (col + w) else false :: keepNoWrap W cs col

theorem run_nowrap (W : Nat) (hWU : W < U) (cs : List Item) (s : LSt) (hc : ∀ c ∈ cs, ItemOk c) :
    (run W false cs s).2.map Option.isSome = keepNoWrap W cs s.col := by
  induction cs generalizing s with
  | nil => simp [run, keepNoWrap]
  | cons c cs ih =>
    have ih' := fun s => ih s (fun c h => hc c (List.mem_cons_of_mem _ h))
    cases c with
    | nl => simp [run, step, keepNoWrap, ih', layoutNl]
    | cr => simp [run, step, keepNoWrap, ih', layoutCr]
    | skip => simp [run, step, keepNoWrap, ih']
    | tab =>
      simp only [run, step, keepNoWrap, ih', layoutTab, List.map_cons, Option.isSome_none]
      congr 2
      split <;> omega
    | sized h w =>
      obtain ⟨hh, hw⟩ : 1 ≤ h ∧ 1 ≤ w := hc _ List.mem_cons_self
      have hz : ¬ (h = 0 ∨ w = 0) := by omega
      simp only [run, step, layoutSized, hz, if_false, keepNoWrap]
      by_cases hf : s.col + w ≤ W
      · have : s.col + w < U ∧ s.col + w ≤ W := by omega
        simp [this, ih']
      · have : ¬ (s.col + w < U ∧ s.col + w ≤ W) := by omega
        simp [hf, ih']

theorem run_col_sw_le (W wraps) (cs : List Item) (s : LSt) (hc : s.col ≤ W) (hs : s.sw ≤ W) :
    (run W wraps cs s).1.sw ≤ W := by
  induction cs generalizing s with
  | nil => simpa [run]
  | cons c cs ih =>
    simp only [run]
    have : (step W wraps s c).1.col ≤ W ∧ (step W wraps s c).1.sw ≤ W := by
      cases c with
      | nl => simp [step, layoutNl]; omega
      | cr => simp [step, layoutCr]; omega
      | tab => simp [step, layoutTab]; omega
      | skip => simp [step]; omega
      | sized h w =>
        simp only [step, layoutSized]
        split
        · simp; omega
        · split
          · simp; omega
          · split
            · simp; omega
            · simp; omega
    exact ih _ this.1 this.2

end SurfProofs.Lemmas.TextLayout
