import SurfModel.Sixel
import SurfProofs.Lemmas.SixelLine
/-!
# C12 helper lemmas, part 2: the reference interpreter on the chunks the encoder writes
-/
namespace SurfProofs.Lemmas.SixelInterp
open SurfModel.Sixel SurfProofs.Lemmas.SixelLine

/-! ## decimal numerals -/

theorem decimal_digits (n : Nat) : ∀ d ∈ decimal n, 48 ≤ d ∧ d ≤ 57 := by
  fun_induction decimal n with
  | case1 n h => intro d hd; simp at hd; omega
  | case2 n h ih =>
    intro d hd
    simp only [List.mem_append, List.mem_singleton] at hd
    rcases hd with hd | hd
    · exact ih d hd
    · omega

theorem decimal_ne_nil (n : Nat) : decimal n ≠ [] := by
  unfold decimal; split <;> simp

/-! ## run / exec -/

def isParamByte (b : Nat) : Prop := (48 ≤ b ∧ b ≤ 57) ∨ b = 59

instance (b : Nat) : Decidable (isParamByte b) := by unfold isParamByte; infer_instance

/-- run, then let a pending control function take effect -/
def exec (st : St) (l : List Nat) : Option St := (run st l).bind finalize

theorem run_append (st : St) (a b : List Nat) :
    run st (a ++ b) = (run st a).bind (fun s => run s b) := by
  induction a generalizing st with
  | nil => simp [run]
  | cons x a ih =>
    simp only [List.cons_append, run]
    cases step st x with
    | none => simp
    | some s => simp [ih]

def Idle (st : St) : Prop := st.pend = .idle ∧ st.params = [] ∧ st.cur = none

theorem finalize_idle {st : St} (h : st.pend = .idle) : finalize st = some st := by
  unfold finalize; simp [h]

theorem clear_idle (st : St) : Idle st.clear := by simp [Idle, St.clear]

theorem finalize_gives_idle {st st' : St} (h : finalize st = some st') : st'.pend = .idle := by
  unfold finalize at h
  split at h
  · simp at h; subst h; assumption
  · split at h
    · simp at h
    · split at h <;> simp at h <;> subst h <;> simp [St.clear]
  · split at h
    · split at h <;> simp at h; subst h; simp [St.clear]
    · split at h <;> simp at h; subst h; simp [St.clear]
    · simp at h
  · split at h
    · simp at h; subst h; simp [St.clear]
    · simp at h

theorem finalize_idem {st st' : St} (h : finalize st = some st') : finalize st' = some st' :=
  finalize_idle (finalize_gives_idle h)

theorem step_ground {st : St} {b : Nat} (hb : ¬ isParamByte b) :
    step st b = (finalize st).bind (fun s => stepGround s b) := by
  unfold isParamByte at hb
  unfold step
  have h1 : ¬ (48 ≤ b ∧ b ≤ 57) := fun h => hb (Or.inl h)
  have h2 : ¬ b = 59 := fun h => hb (Or.inr h)
  simp only [h1, h2, if_false]
  cases finalize st <;> simp

theorem exec_nil (st : St) : exec st [] = finalize st := by simp [exec, run]

theorem exec_cons (st : St) (b : Nat) (l : List Nat) :
    exec st (b :: l) = (step st b).bind (fun s => exec s l) := by
  simp only [exec, run]
  cases step st b <;> simp

theorem exec_cons_ground {st : St} {b : Nat} (l : List Nat) (hb : ¬ isParamByte b) :
    exec st (b :: l) = (finalize st).bind (fun s => (stepGround s b).bind (fun s => exec s l)) := by
  rw [exec_cons, step_ground hb]
  cases finalize st <;> simp

/-- a list that does not start with a digit or `;` -/
def GroundHead : List Nat → Prop
  | [] => True
  | b :: _ => ¬ isParamByte b

theorem exec_append (st : St) (a b : List Nat) (hb : GroundHead b) :
    exec st (a ++ b) = (exec st a).bind (fun s => exec s b) := by
  induction a generalizing st with
  | nil =>
    simp only [List.nil_append, exec_nil]
    cases b with
    | nil =>
      simp only [exec_nil]
      cases h : finalize st with
      | none => simp
      | some s => simp [finalize_idem h]
    | cons x b =>
      simp only [GroundHead] at hb
      rw [exec_cons_ground b hb]
      cases h : finalize st with
      | none => simp
      | some s =>
        simp only [Option.bind_some]
        rw [exec_cons_ground b hb, finalize_idem h]
        simp
  | cons x a ih =>
    simp only [List.cons_append, exec_cons]
    cases step st x with
    | none => simp
    | some s => simp [ih]

/-- from an idle state: a ground byte acts directly -/
theorem exec_cons_idle {st : St} {b : Nat} (l : List Nat) (hb : ¬ isParamByte b)
    (hi : st.pend = .idle) :
    exec st (b :: l) = (stepGround st b).bind (fun s => exec s l) := by
  rw [exec_cons_ground l hb, finalize_idle hi]; simp

/-! ## numeric parameters -/

theorem step_digit {st : St} {d : Nat} (hd : 48 ≤ d ∧ d ≤ 57) (hp : st.pend ≠ .idle) :
    step st d = some { st with cur := some (st.cur.getD 0 * 10 + (d - 48)) } := by
  unfold step; simp [hd, hp]

theorem step_semi {st : St} (hp : st.pend ≠ .idle) :
    step st 59 = some { st with params := st.cur.getD 0 :: st.params, cur := none } := by
  unfold step; simp [hp]

theorem run_decimal_aux (n : Nat) : ∀ (st : St), st.pend ≠ .idle → st.cur = none →
    run st (decimal n) = some { st with cur := some n } := by
  fun_induction decimal n with
  | case1 n h =>
    intro st hp hc
    simp only [run]
    rw [step_digit (by omega) hp]
    simp [hc]
  | case2 n h ih =>
    intro st hp hc
    rw [run_append, ih st hp hc]
    simp only [Option.bind_some, run]
    rw [step_digit (by omega) (by simpa using hp)]
    simp
    omega

theorem run_decimal {st : St} (n : Nat) (hp : st.pend ≠ .idle) (hc : st.cur = none) :
    run st (decimal n) = some { st with cur := some n } := run_decimal_aux n st hp hc

/-! ## the chunks the encoder writes -/


theorem run_raster_prefix {st : St} (hi : Idle st) (hr : st.rep = none) :
    run st [34, 49, 59, 49, 59] = some { st with pend := .raster, params := [1, 1], cur := none } := by
  obtain ⟨h1, h2, h3⟩ := hi
  simp [run, step, finalize, stepGround, h1, h2, h3, hr]

theorem exec_raster {st : St} (w h : Nat) (hi : Idle st) (hr : st.rep = none) (hs : st.seenData = false) :
    exec st (rasterAttrs w h) = some { st with declared := some (w, h) } := by
  unfold exec rasterAttrs
  rw [List.append_assoc, List.append_assoc, run_append, run_raster_prefix hi hr]
  simp only [Option.bind_some]
  rw [run_append, run_decimal w (by simp) (by simp)]
  simp only [Option.bind_some]
  rw [run_append]
  simp only [run]
  rw [step_semi (by simp)]
  simp only [Option.bind_some]
  rw [run_decimal h (by simp) (by simp)]
  obtain ⟨h1, h2, h3⟩ := hi
  simp [finalize, hs, St.allParams, St.clear]
  cases st; simp_all



theorem run_hash {st : St} (hi : Idle st) (hr : st.rep = none) :
    run st [35] = some { st with pend := .color } := by
  obtain ⟨h1, h2, h3⟩ := hi
  simp [run, step, finalize, stepGround, h1, hr]

/-- `#c` -/
theorem exec_select {st : St} (c : Nat) (hc : c < 256) (hi : Idle st) (hr : st.rep = none) :
    exec st ([35] ++ decimal c) = some { st with color := some c } := by
  unfold exec
  rw [run_append, run_hash hi hr]
  simp only [Option.bind_some]
  obtain ⟨h1, h2, h3⟩ := hi
  rw [run_decimal c (by simp) (by simpa using h3)]
  simp [finalize, St.allParams, St.clear, h2, hc]
  cases st; simp_all

/-- `#i;2;r;g;b` with levels `l` -/
theorem exec_define {st : St} (i : Nat) (l : RGB) (hc : i < 256)
    (hl : l.r ≤ 100 ∧ l.g ≤ 100 ∧ l.b ≤ 100) (hi : Idle st) (hr : st.rep = none) :
    exec st ([35] ++ decimal i ++ [59, 50, 59] ++ decimal l.r ++ [59] ++ decimal l.g ++ [59] ++ decimal l.b)
      = some { st with regs := (i, l) :: st.regs, color := some i } := by
  unfold exec
  obtain ⟨h1, h2, h3⟩ := hi
  simp only [List.append_assoc]
  rw [run_append, run_hash ⟨h1, h2, h3⟩ hr]
  simp only [Option.bind_some]
  rw [run_append, run_decimal i (by simp) (by simpa using h3)]
  simp only [Option.bind_some]
  rw [run_append]
  have e : ∀ s : St, s.pend = .color → s.cur = some i →
      run s [59, 50, 59] = some { s with params := 2 :: i :: s.params, cur := none } := by
    intro s hp hcur
    simp [run, step, hp, hcur]
  rw [e _ (by simp) (by simp)]
  simp only [Option.bind_some]
  rw [run_append, run_decimal l.r (by simp) (by simp)]
  simp only [Option.bind_some, List.singleton_append, run]
  rw [step_semi (by simp)]
  simp only [Option.bind_some]
  rw [run_append, run_decimal l.g (by simp) (by simp)]
  simp only [Option.bind_some, run]
  rw [step_semi (by simp)]
  simp only [Option.bind_some]
  rw [run_decimal l.b (by simp) (by simp)]
  simp [finalize, St.allParams, St.clear, h2, hc, hl]
  cases st; cases l; simp_all

theorem exec_cr {st : St} (hi : Idle st) (hr : st.rep = none) :
    exec st [36] = some { st with x := 0 } := by
  obtain ⟨h1, h2, h3⟩ := hi
  simp [exec, run, step, finalize, stepGround, h1, hr]

theorem exec_nl {st : St} (hi : Idle st) (hr : st.rep = none) :
    exec st [45] = some { st with x := 0, band := st.band + 1 } := by
  obtain ⟨h1, h2, h3⟩ := hi
  simp [exec, run, step, finalize, stepGround, h1, hr]

/-- what a data character does to the state -/
def paintSt (st : St) (c : RGB) (n code : Nat) : St :=
  let r := paintRun st.declared c st.band (code - 63) st.x n (st.canvas, st.outside)
  { st with canvas := r.1, outside := r.2, x := st.x + n, rep := none, seenData := true }

theorem exec_lit {st : St} {k : Nat} {c : RGB} (code : Nat) (hcode : 63 ≤ code ∧ code ≤ 126)
    (hi : Idle st) (hr : st.rep = none) (hk : st.color = some k) (hreg : st.regs.lookup k = some c) :
    exec st [code] = some (paintSt st c 1 code) := by
  obtain ⟨h1, h2, h3⟩ := hi
  have hb : ¬ isParamByte code := by unfold isParamByte; omega
  rw [exec_cons_idle _ hb h1]
  simp [stepGround, hcode, hk, hreg, hr, exec_nil, paintSt]
  rw [finalize_idle (by simpa using h1)]

theorem exec_rep {st : St} {k : Nat} {c : RGB} (n code : Nat) (hn : n ≠ 0) (hcode : 63 ≤ code ∧ code ≤ 126)
    (hi : Idle st) (hr : st.rep = none) (hk : st.color = some k) (hreg : st.regs.lookup k = some c) :
    exec st ([33] ++ decimal n ++ [code]) = some (paintSt st c n code) := by
  obtain ⟨h1, h2, h3⟩ := hi
  have hb : ¬ isParamByte code := by unfold isParamByte; omega
  have e0 : run st [33] = some { st with pend := .repeat } := by
    simp [run, step, finalize, stepGround, h1, hr]
  unfold exec
  rw [List.append_assoc, run_append, e0]
  simp only [Option.bind_some]
  rw [run_append, run_decimal n (by simp) (by simpa using h3)]
  simp only [Option.bind_some, run]
  rw [step_ground hb]
  simp [finalize, St.allParams, St.clear, h2, hn, stepGround, hcode, hk, hreg, paintSt]
  exact ⟨h1.symm, h3.symm⟩



/-! ## painting -/

theorem getD_modifyPad {α} (d : α) (f : α → α) (l : List α) (i j : Nat) :
    (modifyPad d f l i)[j]?.getD d = if j = i then f (l[i]?.getD d) else l[j]?.getD d := by
  fun_induction modifyPad d f l i generalizing j with
  | case1 => cases j <;> simp
  | case2 i ih =>
    cases j with
    | zero => simp
    | succ j => simp [ih j]
  | case3 a l => cases j <;> simp
  | case4 a l i ih =>
    cases j with
    | zero => simp
    | succ j => simp [ih j]

theorem canvasGet_paintPixel (cv : List (List (Option RGB))) (x y : Nat) (c : RGB) (x' y' : Nat) :
    canvasGet (paintPixel cv x y c) x' y' = if x' = x ∧ y' = y then some c else canvasGet cv x' y' := by
  unfold canvasGet paintPixel
  simp only [List.getD_eq_getElem?_getD]
  rw [getD_modifyPad]
  by_cases hy : y' = y
  · subst hy
    simp only [if_true, and_true]
    rw [getD_modifyPad]
  · simp [hy]

theorem paintBits_get (declared : Option (Nat × Nat)) (c : RGB) (x band bits n : Nat)
    (acc : List (List (Option RGB)) × Nat) (x' y' : Nat) :
    canvasGet (paintBits declared c x band bits n acc).1 x' y' =
      if x' = x ∧ ∃ i, i < n ∧ y' = 6 * band + i ∧ bits.testBit i = true then some c
      else canvasGet acc.1 x' y' := by
  induction n with
  | zero => simp [paintBits]
  | succ n ih =>
    simp only [paintBits]
    split
    · rename_i hb
      simp only [canvasGet_paintPixel, ih]
      by_cases h1 : x' = x ∧ y' = 6 * band + n
      · have : x' = x ∧ ∃ i, i < n + 1 ∧ y' = 6 * band + i ∧ bits.testBit i = true :=
          ⟨h1.1, n, by omega, h1.2, hb⟩
        rw [if_pos h1, if_pos this]
      · simp only [h1, if_false]
        have : (x' = x ∧ ∃ i, i < n ∧ y' = 6 * band + i ∧ bits.testBit i = true) ↔
            (x' = x ∧ ∃ i, i < n + 1 ∧ y' = 6 * band + i ∧ bits.testBit i = true) := by
          constructor
          · rintro ⟨hx, i, hi, hy, ht⟩; exact ⟨hx, i, by omega, hy, ht⟩
          · rintro ⟨hx, i, hi, hy, ht⟩
            refine ⟨hx, i, ?_, hy, ht⟩
            by_cases hin : i = n
            · subst hin; exact absurd ⟨hx, hy⟩ h1
            · omega
        simp only [this]
    · rename_i hb
      rw [ih]
      have : (x' = x ∧ ∃ i, i < n ∧ y' = 6 * band + i ∧ bits.testBit i = true) ↔
          (x' = x ∧ ∃ i, i < n + 1 ∧ y' = 6 * band + i ∧ bits.testBit i = true) := by
        constructor
        · rintro ⟨hx, i, hi, hy, ht⟩; exact ⟨hx, i, by omega, hy, ht⟩
        · rintro ⟨hx, i, hi, hy, ht⟩
          refine ⟨hx, i, ?_, hy, ht⟩
          by_cases hin : i = n
          · subst hin; exact absurd ht hb
          · omega
      simp only [this]

theorem paintBits_outside (w h : Nat) (c : RGB) (x band bits n : Nat)
    (acc : List (List (Option RGB)) × Nat) (hx : x < w) (hb : 6 * band + n ≤ h) :
    (paintBits (some (w, h)) c x band bits n acc).2 = acc.2 := by
  induction n with
  | zero => simp [paintBits]
  | succ n ih =>
    simp only [paintBits]
    split
    · have : isOutside (some (w, h)) x (6 * band + n) = false := by
        simp [isOutside]; omega
      simp [this, ih (by omega)]
    · exact ih (by omega)

theorem paintBits_zero (declared : Option (Nat × Nat)) (c : RGB) (x band n : Nat)
    (acc : List (List (Option RGB)) × Nat) : paintBits declared c x band 0 n acc = acc := by
  induction n with
  | zero => simp [paintBits]
  | succ n ih => simp [paintBits, ih]

/-- successive columns take successive codes -/
def paintCodes (declared : Option (Nat × Nat)) (c : RGB) (band : Nat) :
    Nat → List Nat → List (List (Option RGB)) × Nat → List (List (Option RGB)) × Nat
  | _, [], acc => acc
  | x, code :: rest, acc =>
    paintCodes declared c band (x + 1) rest (paintBits declared c x band (code - 63) 6 acc)

theorem paintRun_eq (declared : Option (Nat × Nat)) (c : RGB) (band code x n : Nat)
    (acc : List (List (Option RGB)) × Nat) :
    paintRun declared c band (code - 63) x n acc
      = paintCodes declared c band x (List.replicate n code) acc := by
  induction n generalizing x acc with
  | zero => simp [paintRun, paintCodes]
  | succ n ih => simp [paintRun, paintCodes, List.replicate_succ, ih]

theorem paintCodes_append (declared : Option (Nat × Nat)) (c : RGB) (band x : Nat) (a b : List Nat)
    (acc : List (List (Option RGB)) × Nat) :
    paintCodes declared c band x (a ++ b) acc
      = paintCodes declared c band (x + a.length) b (paintCodes declared c band x a acc) := by
  induction a generalizing x acc with
  | nil => simp [paintCodes]
  | cons k a ih =>
    simp only [List.cons_append, paintCodes, ih, List.length_cons]
    congr 1; omega

theorem paintCodes_blank (declared : Option (Nat × Nat)) (c : RGB) (band x n : Nat)
    (acc : List (List (Option RGB)) × Nat) :
    paintCodes declared c band x (List.replicate n 63) acc = acc := by
  induction n generalizing x with
  | zero => simp [paintCodes]
  | succ n ih => simp [List.replicate_succ, paintCodes, paintBits_zero, ih]



/-! ## a token list -/

/-- a token the encoder may emit: data character in range, repeat count not zero -/
def TokOk : Tok → Prop
  | .lit code => 63 ≤ code ∧ code ≤ 126
  | .rep n code => n ≠ 0 ∧ 63 ≤ code ∧ code ≤ 126

theorem groundHead_tokBytes (ts : List Tok) (h : ∀ t ∈ ts, TokOk t) : GroundHead (tokBytes ts) := by
  cases ts with
  | nil => simp [tokBytes, GroundHead]
  | cons t ts =>
    have ht := h t (by simp)
    cases t with
    | lit code =>
      simp only [TokOk] at ht
      simp [tokBytes, Tok.bytes, GroundHead, isParamByte]; omega
    | rep n code => simp [tokBytes, Tok.bytes, GroundHead, isParamByte]

/-- the state after a token list: the expanded codes painted from the cursor on -/
def afterToks (st : St) (c : RGB) (ts : List Tok) (sd : Bool) : St :=
  let r := paintCodes st.declared c st.band st.x (expand ts) (st.canvas, st.outside)
  { st with canvas := r.1, outside := r.2, x := st.x + (expand ts).length, seenData := sd }

theorem exec_toks {k : Nat} {c : RGB} (ts : List Tok) (hts : ∀ t ∈ ts, TokOk t) :
    ∀ {st : St}, Idle st → st.rep = none → st.color = some k → st.regs.lookup k = some c →
    ∃ sd, exec st (tokBytes ts) = some (afterToks st c ts sd) := by
  induction ts with
  | nil =>
    intro st hi hr hk hreg
    refine ⟨st.seenData, ?_⟩
    simp [tokBytes, exec_nil, finalize_idle hi.1, afterToks, expand, paintCodes]
  | cons t ts ih =>
    intro st hi hr hk hreg
    have ht := hts t (by simp)
    have hts' : ∀ t ∈ ts, TokOk t := fun t h => hts t (by simp [h])
    have hsplit : tokBytes (t :: ts) = Tok.bytes t ++ tokBytes ts := by simp [tokBytes]
    rw [hsplit, exec_append _ _ _ (groundHead_tokBytes ts hts')]
    obtain ⟨h1, h2, h3⟩ := hi
    cases t with
    | lit code =>
      simp only [TokOk] at ht
      simp only [Tok.bytes]
      rw [exec_lit code ht ⟨h1, h2, h3⟩ hr hk hreg]
      simp only [Option.bind_some]
      obtain ⟨sd, e⟩ := ih hts' (st := paintSt st c 1 code) (by simp [Idle, paintSt, h1, h2, h3])
        (by simp [paintSt]) (by simp [paintSt, hk]) (by simp [paintSt, hreg])
      refine ⟨sd, ?_⟩
      rw [e]
      simp only [afterToks, paintSt, paintRun_eq, expand, List.flatMap_cons, Tok.expand,
        paintCodes_append, List.length_append, List.length_cons, List.length_nil,
        List.replicate_succ, List.replicate_zero]
      simp [Nat.add_assoc, hr]
    | rep n code =>
      simp only [TokOk] at ht
      simp only [Tok.bytes]
      rw [exec_rep n code ht.1 ht.2 ⟨h1, h2, h3⟩ hr hk hreg]
      simp only [Option.bind_some]
      obtain ⟨sd, e⟩ := ih hts' (st := paintSt st c n code) (by simp [Idle, paintSt, h1, h2, h3])
        (by simp [paintSt]) (by simp [paintSt, hk]) (by simp [paintSt, hreg])
      refine ⟨sd, ?_⟩
      rw [e]
      simp only [afterToks, paintSt, paintRun_eq, expand, List.flatMap_cons, Tok.expand,
        paintCodes_append, List.length_append, List.length_replicate]
      simp [Nat.add_assoc, hr]

/-! ## the dense row of a line -/

/-- items in strictly ascending column order, all at or right of `offset` -/
def Asc : Nat → List (Nat × Nat) → Prop
  | _, [] => True
  | offset, (col, _) :: rest => offset ≤ col ∧ Asc (col + 1) rest

/-- painting the dense row = painting each item at its column -/
theorem paintCodes_dense (declared : Option (Nat × Nat)) (c : RGB) (band : Nat) :
    ∀ (items : List (Nat × Nat)) (x : Nat) (acc : List (List (Option RGB)) × Nat), Asc x items →
    paintCodes declared c band x (dense x items) acc
      = items.foldl (fun acc it => paintBits declared c it.1 band (it.2 - 63) 6 acc) acc := by
  intro items
  induction items with
  | nil => intro x acc _; simp [dense, paintCodes]
  | cons it rest ih =>
    intro x acc h
    obtain ⟨col, code⟩ := it
    simp only [Asc] at h
    simp only [dense, List.append_assoc, paintCodes_append, paintCodes_blank, List.length_replicate,
      List.singleton_append, paintCodes, List.foldl_cons]
    have : x + (col - x) = col := by omega
    rw [this, ih (col + 1) _ h.2]

open Classical in
theorem foldl_items_get (declared : Option (Nat × Nat)) (c : RGB) (band : Nat) (x' y' : Nat) :
    ∀ (items : List (Nat × Nat)) (acc : List (List (Option RGB)) × Nat),
    canvasGet (items.foldl (fun acc it => paintBits declared c it.1 band (it.2 - 63) 6 acc) acc).1 x' y'
      = if (∃ it ∈ items, it.1 = x' ∧ ∃ i, i < 6 ∧ y' = 6 * band + i ∧ (it.2 - 63).testBit i = true)
        then some c else canvasGet acc.1 x' y' := by
  intro items
  induction items with
  | nil => intro acc; simp
  | cons it rest ih =>
    intro acc
    simp only [List.foldl_cons, ih, paintBits_get]
    by_cases h1 : ∃ it ∈ rest, it.1 = x' ∧ ∃ i, i < 6 ∧ y' = 6 * band + i ∧ (it.2 - 63).testBit i = true
    · have h2 : ∃ it' ∈ it :: rest, it'.1 = x' ∧ ∃ i, i < 6 ∧ y' = 6 * band + i ∧ (it'.2 - 63).testBit i = true := by
        obtain ⟨a, ha, hb⟩ := h1; exact ⟨a, by simp [ha], hb⟩
      rw [if_pos h1, if_pos h2]
    · rw [if_neg h1]
      by_cases h3 : x' = it.1 ∧ ∃ i, i < 6 ∧ y' = 6 * band + i ∧ (it.2 - 63).testBit i = true
      · have h2 : ∃ it' ∈ it :: rest, it'.1 = x' ∧ ∃ i, i < 6 ∧ y' = 6 * band + i ∧ (it'.2 - 63).testBit i = true :=
          ⟨it, by simp, h3.1.symm, h3.2⟩
        rw [if_pos h3, if_pos h2]
      · have h2 : ¬ ∃ it' ∈ it :: rest, it'.1 = x' ∧ ∃ i, i < 6 ∧ y' = 6 * band + i ∧ (it'.2 - 63).testBit i = true := by
          rintro ⟨a, ha, hb⟩
          simp only [List.mem_cons] at ha
          rcases ha with ha | ha
          · subst ha; exact h3 ⟨hb.1.symm, hb.2⟩
          · exact h1 ⟨a, ha, hb⟩
        rw [if_neg h3, if_neg h2]

theorem foldl_items_outside (w h : Nat) (c : RGB) (band : Nat) (hb : 6 * band + 6 ≤ h) :
    ∀ (items : List (Nat × Nat)) (acc : List (List (Option RGB)) × Nat), (∀ it ∈ items, it.1 < w) →
    (items.foldl (fun acc it => paintBits (some (w, h)) c it.1 band (it.2 - 63) 6 acc) acc).2 = acc.2 := by
  intro items
  induction items with
  | nil => intro acc _; simp
  | cons it rest ih =>
    intro acc hw
    simp only [List.foldl_cons]
    rw [ih _ (fun a ha => hw a (by simp [ha])), paintBits_outside _ _ _ _ _ _ _ _ (hw it (by simp)) hb]

end SurfProofs.Lemmas.SixelInterp
