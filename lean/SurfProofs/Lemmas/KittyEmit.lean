import SurfProofs.Lemmas.KittyParse
/-!
What the interpreter reads from the byte strings `draw` / `erase` / `handle` write.
-/
namespace SurfProofs.Lemmas.KittyEmit
open SurfModel.Kitty SurfModel.KittySpec SurfModel.KittyB64 SurfProofs.Lemmas.KittyB64
open SurfProofs.Lemmas.KittyParse

/-! ## composition over the three layers -/

/-- reading `bytes` with payload decoder `dec` yields exactly the commands `cmds` (leaving no transfer open) -/
def EmitsWith (dec : List UInt8 → Option (List UInt8)) (bytes : List UInt8) (cmds : List KCmd) : Prop :=
  ∃ bodies raws, Renders bytes bodies ∧ bodies.mapM parseBody = some raws ∧
    ∀ out, raws.foldl (asmStep dec) ⟨none, out, true⟩ = ⟨none, cmds.reverse ++ out, true⟩

/-- … with the strict RFC 4648 decoder -/
abbrev Emits (bytes : List UInt8) (cmds : List KCmd) : Prop := EmitsWith rfcDecode bytes cmds

variable {dec : List UInt8 → Option (List UInt8)}

theorem EmitsWith.kittyWith {bytes : List UInt8} {cmds : List KCmd} (h : EmitsWith dec bytes cmds) :
    kittyWith dec bytes = some cmds := by
  obtain ⟨bodies, raws, h1, h2, h3⟩ := h
  unfold SurfModel.KittySpec.kittyWith
  rw [h1.lex]
  simp only [h2]
  unfold assemble asmInit
  simp only [h3 []]
  simp

theorem EmitsWith.kitty {bytes : List UInt8} {cmds : List KCmd} (h : Emits bytes cmds) : kitty bytes = some cmds :=
  EmitsWith.kittyWith h

theorem EmitsWith.append {a b : List UInt8} {x y : List KCmd} (ha : EmitsWith dec a x) (hb : EmitsWith dec b y) :
    EmitsWith dec (a ++ b) (x ++ y) := by
  obtain ⟨b1, r1, h1, h2, h3⟩ := ha
  obtain ⟨b2, r2, k1, k2, k3⟩ := hb
  refine ⟨b1 ++ b2, r1 ++ r2, h1.append k1, ?_, ?_⟩
  · rw [List.mapM_append, h2, k2]; rfl
  · intro out
    rw [List.foldl_append, h3 out, k3]
    simp

theorem EmitsWith.silent {bytes : List UInt8} (h : Renders bytes []) : EmitsWith dec bytes [] :=
  ⟨[], [], h, rfl, fun _ => rfl⟩

theorem EmitsWith.nil : EmitsWith dec [] [] := EmitsWith.silent Renders.nil

theorem Emits.silent {bytes : List UInt8} (h : Renders bytes []) : Emits bytes [] := EmitsWith.silent h
theorem Emits.nil : Emits [] [] := EmitsWith.nil

/-- one command: body, its parse, its effect -/
theorem EmitsWith.one {body : List UInt8} {raw : Raw} {cmd : KCmd} (hb : ∀ b ∈ body, b ≠ 27)
    (hp : parseBody body = some raw)
    (ha : ∀ out, asmStep dec ⟨none, out, true⟩ raw = ⟨none, cmd :: out, true⟩) :
    EmitsWith dec ([27, 95, 71] ++ body ++ [27, 92]) [cmd] := by
  refine ⟨[body], [raw], Renders.apcBody body hb, ?_, ?_⟩
  · simp [List.mapM_cons, hp]
  · intro out; simp [ha out]

/-! ## clean control items -/

theorem clean_dec (k : UInt8) (n : Nat) (hk : k ≠ 27 ∧ k ≠ 44 ∧ k ≠ 59) : CleanItem (k, decimal n) :=
  ⟨hk, decimal_ne_nil n, fun b hb => dig_ne (decimal_dig n b hb)⟩

theorem parsed_dec (k : UInt8) (n : Nat) : parsedItem (k, decimal n) = (k, .num n) := by
  simp [parsedItem, parseVal_decimal]

/-! ## put and delete -/

theorem emits_put (id pid q : Nat) : EmitsWith dec (putBytes id pid q) [.put id pid] := by
  unfold putBytes apc
  have hc : Clean [((97 : UInt8), [(112 : UInt8)]), (105, decimal id), (67, [49]), (112, decimal pid), (113, decimal q)] := by
    intro kv hkv
    simp only [List.mem_cons, List.not_mem_nil, or_false] at hkv
    rcases hkv with h | h | h | h | h <;> subst h
    · unfold CleanItem; decide
    · exact clean_dec _ _ (by decide)
    · unfold CleanItem; decide
    · exact clean_dec _ _ (by decide)
    · exact clean_dec _ _ (by decide)
  have hp := parseBody_payload _ (by simp) hc []
  have hbody : ∀ b ∈ renderCtrl [((97 : UInt8), [(112 : UInt8)]), (105, decimal id), (67, [49]), (112, decimal pid), (113, decimal q)] ++ [59], b ≠ 27 := by
    intro b hb
    simp only [List.mem_append, List.mem_singleton] at hb
    rcases hb with hb | hb
    · exact (renderCtrl_clean _ hc b hb).1
    · subst hb; decide
  have := EmitsWith.one (dec := dec) (cmd := .put id pid) hbody hp (by
    intro out
    simp only [List.map_cons, List.map_nil, parsed_dec]
    simp [asmStep, asmEmit, Raw.chrD, Raw.numD, Raw.find, List.lookup, parsedItem, parseVal, isDigit, readNat])
  simpa [List.append_assoc] using this

theorem emits_erase_pos (id pid : Nat) :
    EmitsWith dec (apc [(97, [100]), (100, [105]), (105, decimal id), (112, decimal pid)] none) [.delete 105 id pid] := by
  unfold apc
  have hc : Clean [((97 : UInt8), [(100 : UInt8)]), (100, [105]), (105, decimal id), (112, decimal pid)] := by
    intro kv hkv
    simp only [List.mem_cons, List.not_mem_nil, or_false] at hkv
    rcases hkv with h | h | h | h <;> subst h
    · unfold CleanItem; decide
    · unfold CleanItem; decide
    · exact clean_dec _ _ (by decide)
    · exact clean_dec _ _ (by decide)
  have hp := parseBody_bare _ (by simp) hc
  have := EmitsWith.one (dec := dec) (cmd := .delete 105 id pid) (fun b hb => (renderCtrl_clean _ hc b hb).1) hp (by
    intro out
    simp only [List.map_cons, List.map_nil, parsed_dec]
    simp [asmStep, asmEmit, Raw.chrD, Raw.numD, Raw.find, List.lookup, parsedItem, parseVal, isDigit])
  simpa [List.append_assoc] using this

theorem emits_erase_all (id : Nat) :
    EmitsWith dec (apc [(97, [100]), (100, [105]), (105, decimal id)] none) [.delete 105 id 0] := by
  unfold apc
  have hc : Clean [((97 : UInt8), [(100 : UInt8)]), (100, [105]), (105, decimal id)] := by
    intro kv hkv
    simp only [List.mem_cons, List.not_mem_nil, or_false] at hkv
    rcases hkv with h | h | h <;> subst h
    · unfold CleanItem; decide
    · unfold CleanItem; decide
    · exact clean_dec _ _ (by decide)
  have hp := parseBody_bare _ (by simp) hc
  have := EmitsWith.one (dec := dec) (cmd := .delete 105 id 0) (fun b hb => (renderCtrl_clean _ hc b hb).1) hp (by
    intro out
    simp only [List.map_cons, List.map_nil, parsed_dec]
    simp [asmStep, asmEmit, Raw.chrD, Raw.numD, Raw.find, List.lookup, parsedItem, parseVal, isDigit])
  simpa [List.append_assoc] using this

/-! ## chunks -/

theorem chunksGo_flatten (n : Nat) (hn : 0 < n) : ∀ fuel (l : List UInt8), l.length ≤ fuel →
    (chunksGo n fuel l).flatten = l := by
  intro fuel
  induction fuel with
  | zero => intro l hl; have : l = [] := List.eq_nil_of_length_eq_zero (by omega); subst this; rfl
  | succ fuel ih =>
    intro l hl
    simp only [chunksGo]
    split
    · rename_i h; simp only [List.isEmpty_iff] at h; subst h; rfl
    · rename_i h
      have hne : l ≠ [] := by simpa [List.isEmpty_iff] using h
      have hpos : 0 < l.length := List.length_pos_iff.mpr hne
      simp only [List.flatten_cons]
      rw [ih (l.drop n) (by rw [List.length_drop]; omega), List.take_append_drop]

theorem chunksGo_sizes (n : Nat) (hn4 : n % 4 = 0) : ∀ fuel (l : List UInt8), l.length % 4 = 0 →
    ∀ c ∈ chunksGo n fuel l, c.length ≤ n ∧ c.length % 4 = 0 ∧ (∀ b ∈ c, b ∈ l) := by
  intro fuel
  induction fuel with
  | zero => intro l _ c hc; simp [chunksGo] at hc
  | succ fuel ih =>
    intro l hl c hc
    simp only [chunksGo] at hc
    split at hc
    · simp at hc
    · simp only [List.mem_cons] at hc
      rcases hc with hc | hc
      · subst hc
        refine ⟨by rw [List.length_take]; omega, ?_, fun b hb => List.mem_of_mem_take hb⟩
        rw [List.length_take]
        by_cases h : n ≤ l.length
        · rw [Nat.min_eq_left h]; exact hn4
        · rw [Nat.min_eq_right (by omega)]; exact hl
      · have := ih (l.drop n) (by rw [List.length_drop]; omega) c hc
        exact ⟨this.1, this.2.1, fun b hb => List.mem_of_mem_drop (this.2.2 b hb)⟩

theorem chunksGo_ne_nil (n : Nat) (fuel : Nat) (l : List UInt8) (hl : l ≠ []) (hf : l.length ≤ fuel) :
    chunksGo n fuel l ≠ [] := by
  cases fuel with
  | zero => have : l = [] := List.eq_nil_of_length_eq_zero (by omega); exact absurd this hl
  | succ fuel =>
    simp only [chunksGo]
    have : l.isEmpty = false := by simpa [List.isEmpty_iff] using hl
    simp [this]

/-! ## base64 text contains no ESC -/

theorem enc6_ne_esc_fin : ∀ i : Fin 64, enc6 i.val ≠ 27 := by decide

theorem enc6_ne_esc (i : Nat) : enc6 i ≠ 27 := by
  by_cases h : i < 64
  · exact enc6_ne_esc_fin ⟨i, h⟩
  · unfold enc6
    have : encTab.getD i 0 = 0 := by
      rw [List.getD_eq_getElem?_getD, List.getElem?_eq_none (by simp [encTab]; omega)]; rfl
    rw [this]; decide

theorem rfcEncode_no_esc : ∀ (d : List UInt8), ∀ b ∈ rfcEncode d, b ≠ 27
  | [] => by intro b hb; simp [rfcEncode] at hb
  | [_] => by
    intro b hb
    simp only [rfcEncode, List.mem_cons, List.not_mem_nil, or_false] at hb
    rcases hb with h | h | h | h <;> subst h <;> first | exact enc6_ne_esc _ | decide
  | [_, _] => by
    intro b hb
    simp only [rfcEncode, List.mem_cons, List.not_mem_nil, or_false] at hb
    rcases hb with h | h | h | h <;> subst h <;> first | exact enc6_ne_esc _ | decide
  | _ :: _ :: _ :: rest => by
    intro b hb
    simp only [rfcEncode, List.mem_cons] at hb
    rcases hb with h | h | h | h | h
    · subst h; exact enc6_ne_esc _
    · subst h; exact enc6_ne_esc _
    · subst h; exact enc6_ne_esc _
    · subst h; exact enc6_ne_esc _
    · exact rfcEncode_no_esc rest b h

/-! ## the transmission loop -/

def firstCtrl (id h w more q : Nat) : List (UInt8 × List UInt8) :=
  [(97, [116]), (102, [51, 50]), (105, decimal id), (118, decimal h), (115, decimal w),
   (109, decimal more), (113, decimal q)]

def contCtrl (more q : Nat) : List (UInt8 × List UInt8) := [(109, decimal more), (113, decimal q)]

def chunkCtrl (id h w q count index : Nat) : List (UInt8 × List UInt8) :=
  if index = 0 then firstCtrl id h w (if index + 1 < count then 1 else 0) q
  else contCtrl (if index + 1 < count then 1 else 0) q

theorem emitChunks_cons (id h w q count index : Nat) (c : List UInt8) (rest : List (List UInt8)) :
    emitChunks id h w q count index (c :: rest)
      = ([27, 95, 71] ++ (renderCtrl (chunkCtrl id h w q count index) ++ 59 :: c) ++ [27, 92])
        ++ emitChunks id h w q count (index + 1) rest := by
  simp only [emitChunks, chunkCtrl, firstCtrl, contCtrl, apc]
  split <;> simp [List.append_assoc]

theorem firstCtrl_clean (id h w more q : Nat) : Clean (firstCtrl id h w more q) := by
  intro kv hkv
  simp only [firstCtrl, List.mem_cons, List.not_mem_nil, or_false] at hkv
  rcases hkv with h | h | h | h | h | h | h <;> subst h
  · unfold CleanItem; decide
  · unfold CleanItem; decide
  · exact clean_dec _ _ (by decide)
  · exact clean_dec _ _ (by decide)
  · exact clean_dec _ _ (by decide)
  · exact clean_dec _ _ (by decide)
  · exact clean_dec _ _ (by decide)

theorem contCtrl_clean (more q : Nat) : Clean (contCtrl more q) := by
  intro kv hkv
  simp only [contCtrl, List.mem_cons, List.not_mem_nil, or_false] at hkv
  rcases hkv with h | h <;> subst h
  · exact clean_dec _ _ (by decide)
  · exact clean_dec _ _ (by decide)

theorem chunkCtrl_clean (id h w q count index : Nat) : Clean (chunkCtrl id h w q count index) := by
  unfold chunkCtrl; split
  · exact firstCtrl_clean _ _ _ _ _
  · exact contCtrl_clean _ _

theorem chunkCtrl_ne_nil (id h w q count index : Nat) : chunkCtrl id h w q count index ≠ [] := by
  unfold chunkCtrl firstCtrl contCtrl; split <;> simp

def chunkRaw (id h w q count index : Nat) (c : List UInt8) : Raw :=
  ⟨(chunkCtrl id h w q count index).map parsedItem, c⟩

def emitBodies (id h w q count : Nat) : Nat → List (List UInt8) → List (List UInt8)
  | _, [] => []
  | index, c :: rest =>
    (renderCtrl (chunkCtrl id h w q count index) ++ 59 :: c) :: emitBodies id h w q count (index + 1) rest

def emitRaws (id h w q count : Nat) : Nat → List (List UInt8) → List Raw
  | _, [] => []
  | index, c :: rest => chunkRaw id h w q count index c :: emitRaws id h w q count (index + 1) rest

theorem emit_renders (id h w q count : Nat) : ∀ (cs : List (List UInt8)) (index : Nat),
    (∀ c ∈ cs, ∀ b ∈ c, b ≠ 27) →
    Renders (emitChunks id h w q count index cs) (emitBodies id h w q count index cs) := by
  intro cs
  induction cs with
  | nil => intro _ _; exact Renders.nil
  | cons c rest ih =>
    intro index hcs
    rw [emitChunks_cons]
    have hbody : ∀ b ∈ renderCtrl (chunkCtrl id h w q count index) ++ 59 :: c, b ≠ 27 := by
      intro b hb
      simp only [List.mem_append, List.mem_cons] at hb
      rcases hb with hb | hb | hb
      · exact (renderCtrl_clean _ (chunkCtrl_clean _ _ _ _ _ _) b hb).1
      · subst hb; decide
      · exact hcs c (by simp) b hb
    have := (Renders.apcBody _ hbody).append (ih (index + 1) (fun c' hc' => hcs c' (by simp [hc'])))
    simpa [emitBodies] using this

theorem emit_parse (id h w q count : Nat) : ∀ (cs : List (List UInt8)) (index : Nat),
    (emitBodies id h w q count index cs).mapM parseBody = some (emitRaws id h w q count index cs) := by
  intro cs
  induction cs with
  | nil => intro _; rfl
  | cons c rest ih =>
    intro index
    simp only [emitBodies, emitRaws, List.mapM_cons]
    rw [parseBody_payload _ (chunkCtrl_ne_nil _ _ _ _ _ _) (chunkCtrl_clean _ _ _ _ _ _), ih]
    rfl

/-- the keys of the first command, read back -/
theorem finishTx_first (id h w q more : Nat) (c : List UInt8) (chunks : List (List UInt8)) (data : List UInt8)
    (hd : dec chunks.flatten = some data) :
    finishTx dec ⟨(firstCtrl id h w more q).map parsedItem, c⟩ chunks
      = some (.transmit false id 32 w h none data (chunks.map List.length)) := by
  simp only [firstCtrl, List.map_cons, List.map_nil, parsed_dec]
  simp [finishTx, Raw.chrD, Raw.numD, Raw.find, List.lookup, parsedItem, parseVal, isDigit, readNat, hd]

theorem cont_fold (id h w q count : Nat) (first : Raw) (cmd : KCmd) (out : List KCmd) :
    ∀ (rest acc : List (List UInt8)) (index : Nat), 1 ≤ index → rest ≠ [] → index + rest.length = count →
      finishTx dec first (acc.reverse ++ rest) = some cmd →
      (emitRaws id h w q count index rest).foldl (asmStep dec) ⟨some (first, acc), out, true⟩
        = ⟨none, cmd :: out, true⟩ := by
  intro rest
  induction rest with
  | nil => intro _ _ _ h; exact absurd rfl h
  | cons c rest ih =>
    intro acc index hi _ hcount hfin
    have hidx : index ≠ 0 := by omega
    cases rest with
    | nil =>
      have hmore : ¬ (index + 1 < count) := by simp at hcount; omega
      simp only [emitRaws, List.foldl_cons, List.foldl_nil, chunkRaw, chunkCtrl, hidx, if_false, hmore,
        contCtrl, List.map_cons, List.map_nil, parsed_dec]
      have : (c :: acc).reverse = acc.reverse ++ [c] := by simp
      simp [asmStep, Raw.numD, Raw.find, List.lookup, this, hfin, asmEmit]
    | cons c2 rest2 =>
      have hmore : index + 1 < count := by simp at hcount; omega
      simp only [emitRaws, List.foldl_cons]
      have hstep : asmStep dec ⟨some (first, acc), out, true⟩ (chunkRaw id h w q count index c)
          = ⟨some (first, c :: acc), out, true⟩ := by
        simp only [chunkRaw, chunkCtrl, hidx, if_false, hmore, if_true, contCtrl, List.map_cons, List.map_nil,
          parsed_dec]
        simp [asmStep, Raw.numD, Raw.find, List.lookup]
      rw [hstep]
      have := ih (c :: acc) (index + 1) (by omega) (by simp) (by simp at hcount ⊢; omega)
        (by simpa using hfin)
      simpa [emitRaws] using this

/-- all chunks of one transmission, assembled -/
theorem emit_assemble (id h w q : Nat) (cs : List (List UInt8)) (hne : cs ≠ []) (data : List UInt8)
    (hd : dec cs.flatten = some data) (out : List KCmd) :
    (emitRaws id h w q cs.length 0 cs).foldl (asmStep dec) ⟨none, out, true⟩
      = ⟨none, .transmit false id 32 w h none data (cs.map List.length) :: out, true⟩ := by
  cases cs with
  | nil => exact absurd rfl hne
  | cons c rest =>
    cases rest with
    | nil =>
      have hfin := finishTx_first id h w q 0 c [c] data hd
      simp only [emitRaws, List.foldl_cons, List.foldl_nil, chunkRaw, chunkCtrl, if_true, List.length_cons,
        List.length_nil, Nat.lt_irrefl, if_false]
      have hkeys : asmStep dec ⟨none, out, true⟩ ⟨(firstCtrl id h w 0 q).map parsedItem, c⟩
          = asmEmit ⟨none, out, true⟩ (finishTx dec ⟨(firstCtrl id h w 0 q).map parsedItem, c⟩ [c]) := by
        simp only [firstCtrl, List.map_cons, List.map_nil, parsed_dec]
        simp [asmStep, Raw.chrD, Raw.numD, Raw.find, List.lookup, parsedItem, parseVal, isDigit]
      rw [hkeys, hfin]
      rfl
    | cons c2 rest2 =>
      have hfin := finishTx_first id h w q 1 c (c :: c2 :: rest2) data hd
      have hmore : 0 + 1 < (c :: c2 :: rest2).length := by simp
      simp only [emitRaws, List.foldl_cons]
      have hstep : asmStep dec ⟨none, out, true⟩ (chunkRaw id h w q (c :: c2 :: rest2).length 0 c)
          = ⟨some (⟨(firstCtrl id h w 1 q).map parsedItem, c⟩, [c]), out, true⟩ := by
        simp only [chunkRaw, chunkCtrl, if_true, hmore, firstCtrl, List.map_cons, List.map_nil, parsed_dec]
        simp [asmStep, Raw.chrD, Raw.numD, Raw.find, List.lookup, parsedItem, parseVal, isDigit]
      rw [hstep]
      have := cont_fold id h w q (c :: c2 :: rest2).length ⟨(firstCtrl id h w 1 q).map parsedItem, c⟩ _ out
        (c2 :: rest2) [c] 1 (by omega) (by simp) (by simp; omega) (by simpa using hfin)
      simpa [emitRaws] using this

/-- the transmission part of `draw`, read back -/
theorem emits_transmit (id h w q : Nat) (cs : List (List UInt8)) (hne : cs ≠ []) (data : List UInt8)
    (hd : dec cs.flatten = some data) (hesc : ∀ c ∈ cs, ∀ b ∈ c, b ≠ 27) :
    EmitsWith dec (emitChunks id h w q cs.length 0 cs) [.transmit false id 32 w h none data (cs.map List.length)] :=
  ⟨_, _, emit_renders id h w q cs.length cs 0 hesc, emit_parse id h w q cs.length cs 0,
    fun out => by rw [emit_assemble id h w q cs hne data hd out]; rfl⟩

end SurfProofs.Lemmas.KittyEmit
