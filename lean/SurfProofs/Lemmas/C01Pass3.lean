import SurfProofs.Lemmas.C01DisplayWP
/-!
C01, helper lemmas 6: the image pass.
-/
namespace SurfProofs.C01
open SurfModel.Screen SurfModel.Renderer

/-! ### the image pass -/

def eraseRows (r c w : Nat) (n : Nat) : List Cmd :=
  (List.range n).flatMap fun k => [Cmd.cursorTo (r + k) c, Cmd.erase w]

theorem eraseRows_effect (P : Params) (r c w : Nat) (hw : 1 ≤ w) (scr : Screen) (n : Nat) :
    (execAll P scr (eraseRows r c w n)).face = scr.face ∧
    (execAll P scr (eraseRows r c w n)).place = scr.place ∧
    ∀ r', (execAll P scr (eraseRows r c w n)).grid r' =
      if r ≤ r' ∧ r' < r + n then over (scr.grid r') c (c + w) (fun _ => blankOf P scr.face) else scr.grid r' := by
  induction n with
  | zero =>
    refine ⟨rfl, rfl, ?_⟩
    intro r'
    have : ¬ (r ≤ r' ∧ r' < r + 0) := by omega
    rw [if_neg this]
    rfl
  | succ n ih =>
    obtain ⟨i1, i2, i3⟩ := ih
    have hsplit : eraseRows r c w (n + 1) = eraseRows r c w n ++ [Cmd.cursorTo (r + n) c, Cmd.erase w] := by
      simp [eraseRows, List.range_succ, List.flatMap_append]
    rw [hsplit, execAll_append]
    generalize execAll P scr (eraseRows r c w n) = sn at i1 i2 i3
    simp only [execAll_cons, execAll_nil]
    obtain ⟨e1, e2, e3, e4, e5⟩ := exec_erase P (exec P sn (.cursorTo (r + n) c)) w hw
    have hc : (exec P sn (.cursorTo (r + n) c)).cur = (r + n, c) := rfl
    have hg : (exec P sn (.cursorTo (r + n) c)).grid = sn.grid := rfl
    have hf : (exec P sn (.cursorTo (r + n) c)).face = sn.face := rfl
    have hp : (exec P sn (.cursorTo (r + n) c)).place = sn.place := rfl
    rw [hc] at e1 e2
    simp only [hg, hf] at e1 e2
    refine ⟨by rw [e5, hf, i1], by rw [e3, hp, i2], ?_⟩
    intro r'
    by_cases h : r' = r + n
    · subst h
      rw [e1, i3, i1]
      have a : ¬ (r ≤ r + n ∧ r + n < r + n) := by omega
      have b : r ≤ r + n ∧ r + n < r + (n + 1) := by omega
      simp [a, b]
    · rw [e2 r' h, i3]
      have : (r ≤ r' ∧ r' < r + n) ↔ (r ≤ r' ∧ r' < r + (n + 1)) := by omega
      simp only [this]

theorem imageCmds_eq (P : Params) (e : Nat × Nat × Nat × Nat) :
    imageCmds P e = [Cmd.face e.2.2.1] ++ eraseRows e.1 e.2.1 (P.size e.2.2.2).2 (P.size e.2.2.2).1 ++
      [Cmd.cursorTo e.1 e.2.1, Cmd.image e.2.2.2 e.1 e.2.1] := rfl

theorem imageCmds_effect (P : Params) (e : Nat × Nat × Nat × Nat) (hw : 1 ≤ (P.size e.2.2.2).2) (scr : Screen) :
    (execAll P scr (imageCmds P e)).place = (fun r' c' => if r' = e.1 ∧ c' = e.2.1 then some e.2.2.2 else scr.place r' c') ∧
    ∀ r', (execAll P scr (imageCmds P e)).grid r' =
      if e.1 ≤ r' ∧ r' < e.1 + (P.size e.2.2.2).1 then
        over (scr.grid r') e.2.1 (e.2.1 + (P.size e.2.2.2).2) (fun _ => blankOf P e.2.2.1)
      else scr.grid r' := by
  rw [imageCmds_eq, execAll_append, execAll_append]
  simp only [execAll_cons, execAll_nil]
  obtain ⟨i1, i2, i3⟩ := eraseRows_effect P e.1 e.2.1 (P.size e.2.2.2).2 hw (exec P scr (.face e.2.2.1)) (P.size e.2.2.2).1
  generalize execAll P (exec P scr (.face e.2.2.1)) (eraseRows e.1 e.2.1 (P.size e.2.2.2).2 (P.size e.2.2.2).1) = s2 at i1 i2 i3
  constructor
  · simp only [exec]
    rw [i2]
    rfl
  · intro r'
    simp only [exec]
    rw [i3]
    rfl


/-- where the specification shows a right half, the cell to the left holds a wide character -/
theorem display_cont (P : Params) (hP : ParamsOk P) (H W : Nat) (s : Surface) (hs : WellPlaced P H W s)
    (r c : Nat) (hr : r < H) (hc : c < W) (h : (display P H W s).grid r c = .cont) :
    ∃ c', c = c' + 1 ∧ isWide P (s r c') = true := by
  obtain ⟨d1, d2⟩ := display_wp P hP H W s hs r c hr hc
  by_cases hcov : ∃ q : Nat × Nat, q.1 < H ∧ q.2 < W ∧ covers P s q (r, c) = true
  · obtain ⟨q, q1, q2, q3⟩ := hcov
    rw [d1 q q1 q2 q3] at h; exact absurd h (blankOf_ne_cont P _)
  · have hno : ∀ q : Nat × Nat, q.1 < H → q.2 < W → covers P s q (r, c) = false := by
      intro q q1 q2
      cases hq : covers P s q (r, c)
      · rfl
      · exact absurd ⟨q, q1, q2, hq⟩ hcov
    rw [d2 hno] at h
    obtain ⟨ch, hk, hw⟩ := dispN_cont P _ h
    simp only [normD] at hk
    cases hsh : shadowed P H W s r c
    · exfalso
      simp only [hsh, Bool.false_eq_true, if_false] at hk
      have hk' : (s r c).kind = .chr ch := by
        cases hk0 : (s r c).kind <;> simp [rasterise, hk0] at hk
        rw [hk]
      obtain ⟨w1, _⟩ := hs
      rcases w1 r c ch hr hc hk' with h' | h' <;> omega
    · cases c with
      | zero => simp [shadowed] at hsh
      | succ c' =>
        simp only [shadowed, Bool.and_eq_true] at hsh
        exact ⟨c', rfl, hsh.1.1⟩

/-- where the specification shows a wide glyph, the surface has a wide character -/
theorem display_wide (P : Params) (hP : ParamsOk P) (H W : Nat) (s : Surface) (hs : WellPlaced P H W s)
    (r c : Nat) (hr : r < H) (hc : c < W) (h : WideGlyph P ((display P H W s).grid r c)) :
    isWide P (s r c) = true := by
  obtain ⟨d1, d2⟩ := display_wp P hP H W s hs r c hr hc
  by_cases hcov : ∃ q : Nat × Nat, q.1 < H ∧ q.2 < W ∧ covers P s q (r, c) = true
  · obtain ⟨q, q1, q2, q3⟩ := hcov
    rw [d1 q q1 q2 q3] at h
    exact absurd h (blankOf_not_wide P hP _)
  · have hno : ∀ q : Nat × Nat, q.1 < H → q.2 < W → covers P s q (r, c) = false := by
      intro q q1 q2
      cases hq : covers P s q (r, c)
      · rfl
      · exact absurd ⟨q, q1, q2, hq⟩ hcov
    rw [d2 hno] at h
    have := dispN_wide P _ h
    simp only [normD] at this
    cases hsh : shadowed P H W s r c
    · simpa [hsh, isWide_rasterise] using this
    · simp [hsh, isWide, nulCell, hP.nul] at this

theorem pass3_correct (P : Params) (hP : ParamsOk P) (H W : Nat) (s : Surface) (hs : WellPlaced P H W s)
    (I : List (Nat × Nat × Nat × Nat))
    (hI : ∀ e ∈ I, e.1 < H ∧ e.2.1 < W ∧ rasterise P (s e.1 e.2.1) = ⟨e.2.2.1, .img e.2.2.2⟩)
    (scr : Screen) (hwf : WF P scr)
    (hset : ∀ r c, r < H → c < W → (∀ e ∈ I, covers P s (e.1, e.2.1) (r, c) = false) →
      scr.grid r c = (display P H W s).grid r c) :
    WF P (execAll P scr (I.flatMap (imageCmds P))) ∧
    (∀ r c, r < H → c < W → (execAll P scr (I.flatMap (imageCmds P))).grid r c = (display P H W s).grid r c) ∧
    (∀ r c, ¬ posIn I (r, c) → (execAll P scr (I.flatMap (imageCmds P))).place r c = scr.place r c) ∧
    (∀ e ∈ I, (execAll P scr (I.flatMap (imageCmds P))).place e.1 e.2.1 = some e.2.2.2) := by
  induction I generalizing scr with
  | nil =>
    refine ⟨hwf, fun r c hr hc => hset r c hr hc (fun e he => by simp at he), fun _ _ _ => rfl, fun e he => by simp at he⟩
  | cons e rest ih =>
    obtain ⟨w1, w2, w3, w4, w5⟩ := hs
    have hs' : WellPlaced P H W s := ⟨w1, w2, w3, w4, w5⟩
    obtain ⟨e1, e2, e3⟩ := hI e List.mem_cons_self
    have himg : imgOf P (s e.1 e.2.1) = some e.2.2.2 := by
      rw [← imgOf_rasterise, e3]; rfl
    have hface : (s e.1 e.2.1).face = e.2.2.1 := by
      rw [← rasterise_face P, e3]
    obtain ⟨z1, z2, z3, z4⟩ := w3 e.1 e.2.1 e.2.2.2 e1 e2 himg
    obtain ⟨f1, f2⟩ := imageCmds_effect P e z2 scr
    have hcov : ∀ r c, covers P s (e.1, e.2.1) (r, c) = true ↔
        (e.1 ≤ r ∧ r < e.1 + (P.size e.2.2.2).1 ∧ e.2.1 ≤ c ∧ c < e.2.1 + (P.size e.2.2.2).2) := by
      intro r c; simp [covers, himg]
    simp only [List.flatMap_cons, execAll_append]
    generalize execAll P scr (imageCmds P e) = scr1 at f1 f2
    have hblank : ¬ WideGlyph P (blankOf P e.2.2.1) := blankOf_not_wide P hP _
    have hwf1 : WF P scr1 := by
      intro r'
      rw [f2 r']
      split
      · apply over_wf P _ _ _ (fun _ => blankOf P e.2.2.1) (by omega) (hwf r') (blankOf_ne_cont P _)
        · intro k _ _
          constructor
          · intro h; exact absurd h (blankOf_ne_cont P _)
          · intro h; exact absurd h hblank
        · exact hblank
      · exact hwf r'
    have hset1 : ∀ r c, r < H → c < W → (∀ e' ∈ rest, covers P s (e'.1, e'.2.1) (r, c) = false) →
        scr1.grid r c = (display P H W s).grid r c := by
      intro r c hr hc hrest
      rw [f2 r]
      by_cases hce : covers P s (e.1, e.2.1) (r, c) = true
      · have hin := (hcov r c).1 hce
        rw [if_pos ⟨hin.1, hin.2.1⟩]
        simp only [over, hin.2.2, and_self, if_true]
        rw [(display_wp P hP H W s hs' r c hr hc).1 (e.1, e.2.1) e1 e2 hce, hface]
      · have hce' : covers P s (e.1, e.2.1) (r, c) = false := by
          cases h : covers P s (e.1, e.2.1) (r, c)
          · rfl
          · exact absurd h hce
        have hold := hset r c hr hc (by
          intro e' he'
          rcases List.mem_cons.1 he' with rfl | h
          · exact hce'
          · exact hrest e' h)
        by_cases hrow : e.1 ≤ r ∧ r < e.1 + (P.size e.2.2.2).1
        · rw [if_pos hrow]
          have hnin : ¬ (e.2.1 ≤ c ∧ c < e.2.1 + (P.size e.2.2.2).2) := by
            intro h
            exact hce ((hcov r c).2 ⟨hrow.1, hrow.2, h.1, h.2⟩)
          simp only [over, hnin, if_false]
          by_cases hl : c + 1 = e.2.1 ∧ scr.grid r e.2.1 = .cont
          · -- the wide character left of the area would be cut: excluded by the domain
            exfalso
            have hwg : WideGlyph P (scr.grid r c) := ((hwf r).2 c).1 (by rw [hl.1]; exact hl.2)
            rw [hold] at hwg
            have hw := display_wide P hP H W s hs' r c hr hc hwg
            have := w5 (e.1, e.2.1) r c e1 e2 hr hc hw
            rw [(hcov r (c + 1)).2 ⟨hrow.1, hrow.2, by omega, by omega⟩, hce'] at this
            cases this
          · rw [if_neg hl]
            by_cases hrr : c = e.2.1 + (P.size e.2.2.2).2 ∧ scr.grid r (e.2.1 + (P.size e.2.2.2).2) = .cont
            · exfalso
              have hcc : scr.grid r c = .cont := by rw [hrr.1]; exact hrr.2
              rw [hold] at hcc
              obtain ⟨c', hc', hw⟩ := display_cont P hP H W s hs' r c hr hc hcc
              have := w5 (e.1, e.2.1) r c' e1 e2 hr (by omega) hw
              rw [(hcov r c').2 ⟨hrow.1, hrow.2, by omega, by omega⟩, ← hc', hce'] at this
              cases this
            · rw [if_neg hrr]; exact hold
        · rw [if_neg hrow]; exact hold
    obtain ⟨g1, g2, g3, g4⟩ := ih (fun e' he' => hI e' (List.mem_cons_of_mem _ he')) scr1 hwf1 hset1
    refine ⟨g1, g2, ?_, ?_⟩
    · intro r c hnp
      have hnr : ¬ posIn rest (r, c) := fun ⟨e', h1, h2⟩ => hnp ⟨e', List.mem_cons_of_mem _ h1, h2⟩
      rw [g3 r c hnr, f1]
      have : ¬ (r = e.1 ∧ c = e.2.1) := by
        intro h
        exact hnp ⟨e, List.mem_cons_self, by rw [h.1, h.2]⟩
      simp [this]
    · intro e' he'
      rcases List.mem_cons.1 he' with rfl | h
      · by_cases hp : posIn rest (e'.1, e'.2.1)
        · obtain ⟨e'', h1, h2⟩ := hp
          have := g4 e'' h1
          have hpos : e''.1 = e'.1 ∧ e''.2.1 = e'.2.1 := by
            simpa using h2
          rw [hpos.1, hpos.2] at this
          rw [this]
          obtain ⟨_, _, e3''⟩ := hI e'' (List.mem_cons_of_mem _ h1)
          rw [hpos.1, hpos.2, e3] at e3''
          simp at e3''
          rw [e3''.2]
        · rw [g3 e'.1 e'.2.1 hp, f1]; simp
      · exact g4 e' h

end SurfProofs.C01
