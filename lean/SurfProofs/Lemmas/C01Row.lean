import SurfProofs.Lemmas.C01Screen
/-!
C01, helper lemmas 2: one row of the second pass (`paintRow`) against the reference terminal.
-/
namespace SurfProofs.C01
open SurfModel.Screen SurfModel.Renderer

/-- what the model assumes about `unicode-width`: at most two columns, a space takes one, NUL none -/
structure ParamsOk (P : Params) : Prop where
  le2 : ∀ ch, P.width ch ≤ 2
  sp : P.width 32 = 1
  nul : P.width 0 = 0

/-- what a cell of a *normalised* surface (cells under wide characters are zero-width) shows -/
def dispN (P : Params) (c : Cell) : SCell :=
  match c.kind with
  | .chr ch => if P.width ch = 0 then .cont else .glyph ch c.face
  | _ => .orphan

theorem dispN_cont (P : Params) (c : Cell) (h : dispN P c = .cont) :
    ∃ ch, c.kind = .chr ch ∧ P.width ch = 0 := by
  unfold dispN at h
  split at h
  · rename_i ch hk
    by_cases hw : P.width ch = 0
    · exact ⟨ch, hk, hw⟩
    · simp [hw] at h
  · cases h

theorem dispN_wide (P : Params) (c : Cell) (h : WideGlyph P (dispN P c)) : isWide P c = true := by
  obtain ⟨ch, f, he, hw⟩ := h
  unfold dispN at he
  split at he
  · rename_i ch' hk
    by_cases hw0 : P.width ch' = 0
    · simp [hw0] at he
    · simp [hw0] at he
      simp [isWide, hk, he.1, hw]
  · cases he

theorem isWide_chr (P : Params) (c : Cell) (h : isWide P c = true) :
    ∃ ch, c.kind = .chr ch ∧ P.width ch ≥ 2 := by
  unfold isWide at h
  split at h
  · rename_i ch hk; exact ⟨ch, hk, by simpa using h⟩
  · cases h

/-- Assumptions on the front row after the first pass and its marks.  `free k`: the content of cell
`k` after the second pass does not matter (it lies in the area of an image that the image pass is
going to erase and draw). -/
structure RowOk (P : Params) (W : Nat) (new : Nat → Cell) (mk : Nat → Mark) (free : Nat → Prop) : Prop where
  /-- a zero-width cell is the right neighbour of a painted wide character -/
  nul : ∀ k ch, k < W → mk k ≠ .ignored → ¬ free k → (new k).kind = .chr ch → P.width ch = 0 →
    ∃ k', k' + 1 = k ∧ isWide P (new k') = true ∧ mk k' ≠ .ignored ∧ ¬ free k'
  /-- a painted wide character is followed by a zero-width cell -/
  wide : ∀ k, k < W → isWide P (new k) = true → mk k ≠ .ignored → ¬ free k →
    k + 1 < W ∧ (∃ ch, (new (k + 1)).kind = .chr ch ∧ P.width ch = 0) ∧ mk (k + 1) ≠ .ignored ∧ ¬ free (k + 1)
  /-- image cells are ignored by the second pass -/
  img : ∀ k, k < W → (∀ ch, (new k).kind ≠ .chr ch) → mk k = .ignored
  /-- a wide character in a free cell has its right half in a free cell -/
  fwide : ∀ k, k < W → free k → isWide P (new k) = true → k + 1 < W ∧ free (k + 1)
  /-- free cells are marked -/
  fmark : ∀ k, free k → mk k ≠ .empty

structure RowInv (P : Params) (H W r : Nat) (old new : Nat → Cell) (mk : Nat → Mark) (free : Nat → Prop)
    (col : Nat) (t : Tr) (s : Screen) : Prop where
  wf : WF P s
  cur : t.cur = s.cur ∨ ¬ (t.cur.1 < H ∧ t.cur.2 < W)
  face : ∀ f, t.face = some f → s.face = f
  done : ∀ k, k < col → k < W → mk k ≠ .ignored → ¬ free k → s.grid r k = dispN P (new k)
  todo : ∀ k, col < k → k < W → mk k = .empty → s.grid r k = dispN P (old k)
  here : col < W → mk col = .empty →
    s.grid r col = dispN P (old col) ∨
    (s.grid r col = .orphan ∧ old col ≠ new col ∧ ∃ ch, (new col).kind = .chr ch ∧ P.width ch ≠ 0)

theorem run_spec (new : Nat → Cell) (mk : Nat → Mark) (c : Cell) (W col : Nat) :
    col + run new mk c W col ≤ max W col ∧
    ∀ k, col ≤ k → k < col + run new mk c W col → new k = c ∧ mk k ≠ .ignored := by
  fun_induction run new mk c W col with
  | case1 col h hc ih =>
    obtain ⟨ih1, ih2⟩ := ih
    refine ⟨by omega, ?_⟩
    intro k hk1 hk2
    by_cases hk : k = col
    · subst hk; exact hc
    · exact ih2 k (by omega) (by omega)
  | case2 col h hc => exact ⟨by omega, fun k a b => by omega⟩
  | case3 col h => exact ⟨by omega, fun k a b => by omega⟩

/-! ### effect of the commands of one paint step -/

theorem pre_ok (P : Params) (H W : Nat) (t : Tr) (s : Screen) (f r c : Nat) (hr : r < H) (hc : c < W)
    (hcur : t.cur = s.cur ∨ ¬ (t.cur.1 < H ∧ t.cur.2 < W)) (hface : ∀ f, t.face = some f → s.face = f) :
    let s' := execAll P s (faceCmd t f ++ curCmd t (r, c))
    s'.grid = s.grid ∧ s'.place = s.place ∧ s'.cur = (r, c) ∧ s'.face = f := by
  by_cases hf : t.face = some f <;> by_cases hcc : t.cur = (r, c)
  · have h1 := hface f hf
    have h2 : s.cur = (r, c) := by
      rcases hcur with h | h
      · rw [← h]; exact hcc
      · rw [hcc] at h; exact absurd ⟨hr, hc⟩ h
    simp [faceCmd, curCmd, hf, hcc, execAll, h1, h2]
  · have h1 := hface f hf
    simp [faceCmd, curCmd, hf, hcc, execAll, exec, h1]
  · have h2 : s.cur = (r, c) := by
      rcases hcur with h | h
      · rw [← h]; exact hcc
      · rw [hcc] at h; exact absurd ⟨hr, hc⟩ h
    simp [faceCmd, curCmd, hf, hcc, execAll, exec, h2]
  · simp [faceCmd, curCmd, hf, hcc, execAll, exec]

theorem exec_erase (P : Params) (s : Screen) (n : Nat) (hn : 1 ≤ n) :
    let s' := exec P s (.erase n)
    s'.grid s.cur.1 = over (s.grid s.cur.1) s.cur.2 (s.cur.2 + n) (fun _ => blankOf P s.face) ∧
    (∀ r', r' ≠ s.cur.1 → s'.grid r' = s.grid r') ∧
    s'.place = s.place ∧ s'.cur = s.cur ∧ s'.face = s.face := by
  have hm : n ≠ 0 := by omega
  refine ⟨?_, ?_, ?_, ?_, ?_⟩
  · simp only [exec, hm, if_false]; exact fill_clobber_row _ _ _ _ _
  · intro r' h; simp only [exec, hm, if_false]; exact fill_clobber_other _ _ _ _ _ r' h
  all_goals simp [exec, hm]

theorem exec_narrow (P : Params) (s : Screen) (ch : Nat) (hw : P.width ch = 1) :
    let s' := exec P s (.char ch)
    s'.grid s.cur.1 = over (s.grid s.cur.1) s.cur.2 (s.cur.2 + 1) (fun _ => .glyph ch s.face) ∧
    (∀ r', r' ≠ s.cur.1 → s'.grid r' = s.grid r') ∧
    s'.place = s.place ∧ s'.cur = (s.cur.1, s.cur.2 + 1) ∧ s'.face = s.face := by
  have h2 : ¬ P.width ch ≥ 2 := by omega
  refine ⟨?_, ?_, ?_, ?_, ?_⟩
  · simp only [exec, h2, hw, if_false, if_true]; exact narrow_clobber_row _ _ _ _
  · intro r' h; simp only [exec, h2, hw, if_false, if_true]; exact narrow_clobber_other _ _ _ _ r' h
  all_goals simp [exec, h2, hw]

theorem exec_wide (P : Params) (s : Screen) (ch : Nat) (hw : P.width ch ≥ 2) :
    let s' := exec P s (.char ch)
    s'.grid s.cur.1 = over (s.grid s.cur.1) s.cur.2 (s.cur.2 + 2) (wideVal s.cur.2 (.glyph ch s.face)) ∧
    (∀ r', r' ≠ s.cur.1 → s'.grid r' = s.grid r') ∧
    s'.place = s.place ∧ s'.cur = (s.cur.1, s.cur.2 + 2) ∧ s'.face = s.face := by
  refine ⟨?_, ?_, ?_, ?_, ?_⟩
  · simp only [exec, hw, if_true]; exact wide_clobber_row _ _ _ _
  · intro r' h; simp only [exec, hw, if_true]; exact wide_clobber_other _ _ _ _ r' h
  all_goals simp [exec, hw]

/-- composing two adjacent overwrites with constant values -/
theorem over_over (ρ : Nat → SCell) (a b c : Nat) (v : SCell) (hab : a < b) (hbc : b < c) (hv : v ≠ .cont) :
    over (over ρ a b (fun _ => v)) b c (fun _ => v) = over ρ a c (fun _ => v) := by
  funext k
  unfold over
  by_cases h1 : b ≤ k ∧ k < c
  · have : a ≤ k ∧ k < c := by omega
    simp [h1, this]
  · rw [if_neg h1]
    have hb1 : ¬ (a ≤ b ∧ b < b) := by omega
    have hb2 : ¬ (b + 1 = a) := by omega
    by_cases h2 : a ≤ k ∧ k < b
    · have h3 : a ≤ k ∧ k < c := by omega
      have h4 : ¬ (k = c) := by omega
      simp only [h2, h3, and_self, if_true]
      by_cases h5 : k + 1 = b
      · by_cases hρ : ρ b = .cont <;> simp [h5, hb2, hv, hρ, h4]
      · simp [h5, h4]
    · have h3 : ¬ (a ≤ k ∧ k < c) := by omega
      have h5 : ¬ (k + 1 = b) := by omega
      have hc1 : ¬ (a ≤ c ∧ c < b) := by omega
      have hc2 : ¬ (c + 1 = a) := by omega
      have hc3 : ¬ (c = b) := by omega
      simp only [h2, h3, h5, hc1, hc2, hc3, false_and, if_false]
      by_cases h6 : k = c
      · subst h6; simp [hc2, hc3]
      · have h7 : ¬ (k = b) := by omega
        simp [h6, h7]

theorem exec_blanks (P : Params) (hP : ParamsOk P) (n : Nat) (s : Screen) :
    let s' := execAll P s (List.replicate (n + 1) (.char 32))
    s'.grid s.cur.1 = over (s.grid s.cur.1) s.cur.2 (s.cur.2 + (n + 1)) (fun _ => .glyph 32 s.face) ∧
    (∀ r', r' ≠ s.cur.1 → s'.grid r' = s.grid r') ∧
    s'.place = s.place ∧ s'.cur = (s.cur.1, s.cur.2 + (n + 1)) ∧ s'.face = s.face := by
  induction n generalizing s with
  | zero =>
    have := exec_narrow P s 32 hP.sp
    simpa [execAll] using this
  | succ n ih =>
    obtain ⟨a1, a2, a3, a4, a5⟩ := exec_narrow P s 32 hP.sp
    have := ih (exec P s (.char 32))
    rw [List.replicate_succ, execAll_cons]
    obtain ⟨b1, b2, b3, b4, b5⟩ := this
    simp only [a4, a5] at b1 b2 b3 b4 b5
    refine ⟨?_, ?_, by rw [b3, a3], by rw [b4]; simp; omega, by rw [b5]⟩
    · rw [b1, a1]
      have := over_over (s.grid s.cur.1) s.cur.2 (s.cur.2 + 1) (s.cur.2 + 1 + (n + 1)) (.glyph 32 s.face)
        (by omega) (by omega) (by simp)
      rw [this]
      congr 1
      omega
    · intro r' h
      rw [b2 r' h, a2 r' h]

/-! ### one paint step preserves the row invariant -/

/-- the cell left of a painted live cell is never orphaned unless it is ignored or free -/
theorem left_safe (P : Params) (H W r : Nat) (old new : Nat → Cell) (mk : Nat → Mark) (free : Nat → Prop)
    (col : Nat) (t : Tr)
    (s : Screen) (hok : RowOk P W new mk free) (hinv : RowInv P H W r old new mk free col t s) (hcW : col < W)
    (ch : Nat) (hk : (new col).kind = .chr ch) (hw : P.width ch ≠ 0) :
    s.grid r col = .cont → ∀ c', c' + 1 = col → mk c' = .ignored ∨ free c' := by
  intro hc c' hc'
  subst hc'
  apply Classical.byContradiction
  intro hni
  have hni1 : mk c' ≠ .ignored := fun h => hni (Or.inl h)
  have hni2 : ¬ free c' := fun h => hni (Or.inr h)
  have hwg : WideGlyph P (s.grid r c') := ((hinv.wf r).2 c').1 hc
  rw [hinv.done c' (by omega) (by omega) hni1 hni2] at hwg
  have hwide := dispN_wide P _ hwg
  obtain ⟨_, ⟨ch', hk', hw'⟩, _⟩ := hok.wide c' (by omega) hwide hni1 hni2
  rw [hk] at hk'
  cases hk'
  exact hw hw'

/-- the cell right of a painted range is a character of positive width unless ignored or damaged -/
theorem right_live (P : Params) (W : Nat) (new : Nat → Cell) (mk : Nat → Mark) (free : Nat → Prop)
    (hok : RowOk P W new mk free)
    (b : Nat) (hb : b < W) (hm : mk b = .empty) (b' : Nat) (hb' : b' + 1 = b)
    (hnw : isWide P (new b') = false ∨ free b') :
    ∃ ch, (new b).kind = .chr ch ∧ P.width ch ≠ 0 := by
  have hnf : ¬ free b := fun h => hok.fmark b h hm
  by_cases hc : ∃ ch, (new b).kind = .chr ch
  · obtain ⟨ch, hk⟩ := hc
    refine ⟨ch, hk, ?_⟩
    intro hw
    obtain ⟨k', hk1, hk2, _, hk4⟩ := hok.nul b ch hb (by rw [hm]; simp) hnf hk hw
    have : k' = b' := by omega
    subst this
    rcases hnw with h | h
    · rw [hk2] at h; cases h
    · exact hk4 h
  · have := hok.img b hb (fun ch h => hc ⟨ch, h⟩)
    rw [hm] at this
    cases this

theorem over_step (P : Params) (H W r : Nat) (old new : Nat → Cell) (mk : Nat → Mark) (free : Nat → Prop)
    (col : Nat) (t : Tr)
    (s : Screen) (hok : RowOk P W new mk free) (hinv : RowInv P H W r old new mk free col t s)
    (b : Nat) (val : Nat → SCell) (hcb : col < b) (hbW : b ≤ W)
    (s2 : Screen) (hg : s2.grid r = over (s.grid r) col b val)
    (hother : ∀ r', r' ≠ r → s2.grid r' = s.grid r')
    (hval : ∀ k, col ≤ k → k < b → (mk k = .ignored → free k) ∧ (¬ free k → val k = dispN P (new k)))
    (hv0 : val col ≠ .cont)
    (hv : ∀ k, col ≤ k → k + 1 < b → (val (k + 1) = .cont ↔ WideGlyph P (val k)))
    (hvl : ¬ WideGlyph P (val (b - 1)))
    (hleft : s.grid r col = .cont → ∀ c', c' + 1 = col → mk c' = .ignored ∨ free c')
    (hnw : ∀ b', b' + 1 = b → isWide P (new b') = false ∨ free b')
    (t2 : Tr) (hc2 : t2.cur = s2.cur ∨ ¬ (t2.cur.1 < H ∧ t2.cur.2 < W))
    (hf2 : ∀ f, t2.face = some f → s2.face = f) :
    RowInv P H W r old new mk free b t2 s2 ∧
    (∀ k, mk k = .ignored → ¬ free k → s.grid r k ≠ .cont → ¬ WideGlyph P (s.grid r k) →
      s2.grid r k = s.grid r k) := by
  refine ⟨⟨?_, hc2, hf2, ?_, ?_, ?_⟩, ?_⟩
  · intro r'
    by_cases hr : r' = r
    · subst hr; rw [hg]; exact over_wf P _ _ _ _ hcb (hinv.wf r') hv0 hv hvl
    · rw [hother r' hr]; exact hinv.wf r'
  · intro k hk hkW hm hfr
    rw [hg]
    by_cases hkc : col ≤ k
    · have : col ≤ k ∧ k < b := ⟨hkc, hk⟩
      simp only [over, this, and_self, if_true]
      exact (hval k hkc hk).2 hfr
    · have h1 : ¬ (col ≤ k ∧ k < b) := by omega
      have h3 : ¬ (k = b) := by omega
      simp only [over, h1, h3, false_and, if_false]
      by_cases h2 : k + 1 = col ∧ s.grid r col = .cont
      · rcases hleft h2.2 k h2.1 with h | h
        · exact absurd h hm
        · exact absurd h hfr
      · rw [if_neg h2]; exact hinv.done k (by omega) hkW hm hfr
  · intro k hk hkW hm
    rw [hg]
    have h1 : ¬ (col ≤ k ∧ k < b) := by omega
    have h2 : ¬ (k + 1 = col) := by omega
    have h3 : ¬ (k = b) := by omega
    simp only [over, h1, h2, h3, false_and, if_false]
    exact hinv.todo k (by omega) hkW hm
  · intro hb hm
    rw [hg]
    have h1 : ¬ (col ≤ b ∧ b < b) := by omega
    have h2 : ¬ (b + 1 = col) := by omega
    simp only [over, h1, h2, false_and, if_false, true_and]
    have htodo := hinv.todo b hcb hb hm
    by_cases hc : s.grid r b = .cont
    · right
      simp only [hc, if_true, true_and]
      rw [htodo] at hc
      obtain ⟨cho, hko, hwo⟩ := dispN_cont P _ hc
      obtain ⟨b', hb'⟩ : ∃ b', b' + 1 = b := ⟨b - 1, by omega⟩
      obtain ⟨chn, hkn, hwn⟩ := right_live P W new mk free hok b hb hm b' hb' (hnw b' hb')
      refine ⟨?_, chn, hkn, hwn⟩
      intro heq
      rw [heq, hkn] at hko
      cases hko
      exact hwn hwo
    · left
      simp only [hc, if_false]
      exact htodo
  · intro k hm hfr hnc hnwg
    rw [hg]
    have h1 : ¬ (col ≤ k ∧ k < b) := fun h => hfr ((hval k h.1 h.2).1 hm)
    simp only [over, h1, if_false]
    by_cases h2 : k + 1 = col ∧ s.grid r col = .cont
    · exfalso
      apply hnwg
      have := ((hinv.wf r).2 k).1 (by rw [h2.1]; exact h2.2)
      exact this
    · rw [if_neg h2]
      by_cases h3 : k = b ∧ s.grid r b = .cont
      · exfalso; apply hnc; rw [h3.1]; exact h3.2
      · rw [if_neg h3]

/-- result of painting row `r` from screen `s` to screen `s'` -/
structure RowDone (P : Params) (H W r : Nat) (new : Nat → Cell) (mk : Nat → Mark) (free : Nat → Prop) (t : Tr)
    (s s' : Screen) : Prop where
  wf : WF P s'
  cur : t.cur = s'.cur ∨ ¬ (t.cur.1 < H ∧ t.cur.2 < W)
  face : ∀ f, t.face = some f → s'.face = f
  done : ∀ k, k < W → mk k ≠ .ignored → ¬ free k → s'.grid r k = dispN P (new k)
  other : ∀ r', r' ≠ r → s'.grid r' = s.grid r'
  place : s'.place = s.place
  ign : ∀ k, mk k = .ignored → ¬ free k → s.grid r k ≠ .cont → ¬ WideGlyph P (s.grid r k) →
    s'.grid r k = s.grid r k

theorem RowDone.after_step {P : Params} {H W r : Nat} {new : Nat → Cell} {mk : Nat → Mark} {free : Nat → Prop}
    {t : Tr} {s s2 s' : Screen}
    (hd : RowDone P H W r new mk free t s2 s')
    (hother : ∀ r', r' ≠ r → s2.grid r' = s.grid r') (hplace : s2.place = s.place)
    (hign : ∀ k, mk k = .ignored → ¬ free k → s.grid r k ≠ .cont → ¬ WideGlyph P (s.grid r k) →
      s2.grid r k = s.grid r k) :
    RowDone P H W r new mk free t s s' := by
  refine ⟨hd.wf, hd.cur, hd.face, hd.done, ?_, by rw [hd.place, hplace], ?_⟩
  · intro r' h; rw [hd.other r' h, hother r' h]
  · intro k hm hfr h1 h2
    have e := hign k hm hfr h1 h2
    rw [hd.ign k hm hfr (by rw [e]; exact h1) (by rw [e]; exact h2), e]

theorem not_skip_live {mk : Nat → Mark} {old new : Nat → Cell} {col : Nat}
    (h : ¬(mk col ≠ Mark.damaged ∧ (mk col = Mark.ignored ∨ old col = new col))) : mk col ≠ .ignored := by
  intro hi
  apply h
  rw [hi]
  exact ⟨by simp, Or.inl rfl⟩

theorem isWide_dispN (P : Params) (c : Cell) (h : isWide P c = true) : WideGlyph P (dispN P c) := by
  obtain ⟨ch, hk, hw⟩ := isWide_chr P c h
  have : P.width ch ≠ 0 := by omega
  exact ⟨ch, c.face, by simp [dispN, hk, this], hw⟩

theorem dispN_chr (P : Params) (c : Cell) (ch : Nat) (hk : c.kind = .chr ch) (hw : P.width ch ≠ 0) :
    dispN P c = .glyph ch c.face := by
  simp [dispN, hk, hw]

theorem dispN_nul (P : Params) (c : Cell) (ch : Nat) (hk : c.kind = .chr ch) (hw : P.width ch = 0) :
    dispN P c = .cont := by
  simp [dispN, hk, hw]

theorem not_wide_glyph (P : Params) (ch f : Nat) (h : P.width ch < 2) : ¬ WideGlyph P (.glyph ch f) := by
  rintro ⟨ch', f', he, hw⟩
  cases he
  omega

theorem blankOf_ne_cont (P : Params) (f : Nat) : blankOf P f ≠ .cont := by
  unfold blankOf; split <;> simp

theorem blankOf_not_wide (P : Params) (hP : ParamsOk P) (f : Nat) : ¬ WideGlyph P (blankOf P f) := by
  unfold blankOf
  split
  · exact not_wide_glyph P 32 f (by rw [hP.sp]; omega)
  · rintro ⟨ch, f', he, _⟩; cases he

theorem skip_inv (P : Params) (H W r : Nat) (old new : Nat → Cell) (mk : Nat → Mark) (free : Nat → Prop)
    (col : Nat) (t : Tr)
    (s : Screen) (hinv : RowInv P H W r old new mk free col t s)
    (hcol : mk col ≠ .ignored → ¬ free col → s.grid r col = dispN P (new col)) :
    RowInv P H W r old new mk free (col + 1) t s := by
  refine ⟨hinv.wf, hinv.cur, hinv.face, ?_, ?_, ?_⟩
  · intro k hk hkW hm hfr
    by_cases h : k = col
    · subst h; exact hcol hm hfr
    · exact hinv.done k (by omega) hkW hm hfr
  · intro k hk hkW hm; exact hinv.todo k (by omega) hkW hm
  · intro hW hm; exact Or.inl (hinv.todo (col + 1) (by omega) hW hm)

theorem paintRow_correct (P : Params) (hP : ParamsOk P) (H W r : Nat) (hr : r < H) (old new : Nat → Cell)
    (mk : Nat → Mark) (free : Nat → Prop) (hok : RowOk P W new mk free) (col : Nat) (t : Tr) (s : Screen)
    (hinv : RowInv P H W r old new mk free col t s) :
    RowDone P H W r new mk free (paintRow P old new mk W r col t).2 s
      (execAll P s (paintRow P old new mk W r col t).1) := by
  fun_induction paintRow P old new mk W r col t generalizing s with
  | case1 col t h hskip ih =>
    apply ih s
    apply skip_inv _ _ _ _ _ _ _ _ _ _ _ hinv
    intro hm _
    have he : mk col = .empty := by
      cases hmc : mk col
      · rfl
      · exact absurd hmc hm
      · exact absurd hmc hskip.1
    rcases hskip.2 with hi | ho
    · exact absurd hi hm
    · rcases hinv.here h he with h1 | ⟨_, h2, _⟩
      · rw [h1, ho]
      · exact absurd ho h2
  | case2 col t h hskip ch hk hw ih =>
    apply ih s
    apply skip_inv _ _ _ _ _ _ _ _ _ _ _ hinv
    intro hm hfr
    obtain ⟨k', hk1, hk2, hk3, hk4⟩ := hok.nul col ch h hm hfr hk hw
    subst hk1
    have hg := hinv.done k' (by omega) (by omega) hk3 hk4
    have hwg : WideGlyph P (s.grid r k') := by rw [hg]; exact isWide_dispN P _ hk2
    rw [((hinv.wf r).2 k').2 hwg, dispN_nul P _ ch hk hw]
  | case3 col t h hskip f pre rep hrep q hk hw ih =>
    have hlive := not_skip_live hskip
    obtain ⟨p1, p2, p3, p4⟩ : (execAll P s pre).grid = s.grid ∧ (execAll P s pre).place = s.place ∧
        (execAll P s pre).cur = (r, col) ∧ (execAll P s pre).face = f :=
      pre_ok P H W t s f r col hr h hinv.cur hinv.face
    have hrun := run_spec new mk (new col) W (col + 1)
    have hnew : ∀ k, col ≤ k → k < col + rep → new k = new col ∧ mk k ≠ .ignored := by
      intro k h1 h2
      by_cases hkc : k = col
      · subst hkc; exact ⟨rfl, hlive⟩
      · exact hrun.2 k (by omega) (by simp only [rep] at h2; omega)
    have hbW : col + rep ≤ W := by have := hrun.1; simp only [rep]; omega
    obtain ⟨e1, e2, e3, e4, e5⟩ := exec_erase P (execAll P s pre) rep (by simp only [rep]; omega)
    rw [p3] at e1 e2
    simp only [p1, p4] at e1 e2
    have hbl : blankOf P f = .glyph 32 f := by simp [blankOf, hrep.2]
    rw [hbl] at e1
    obtain ⟨i2, ign2⟩ := over_step P H W r old new mk free col t s hok hinv (col + rep) (fun _ => .glyph 32 f)
      (by simp only [rep]; omega) hbW (exec P (execAll P s pre) (.erase rep)) e1 e2
      (fun k h1 h2 => ⟨fun hi => absurd hi (hnew k h1 h2).2,
        fun _ => by rw [(hnew k h1 h2).1, dispN_chr P _ 32 hk hw]⟩)
      (by simp) (fun k _ _ => by
        constructor
        · intro hc; cases hc
        · intro hc; exact absurd hc (not_wide_glyph P 32 f (by rw [hP.sp]; omega)))
      (not_wide_glyph P 32 f (by rw [hP.sp]; omega))
      (left_safe P H W r old new mk free col t s hok hinv h 32 hk hw)
      (fun b' hb' => Or.inl (by
        rw [(hnew b' (by omega) (by omega)).1]
        simp [isWide, hk, hP.sp]))
      { cur := (r, col), face := some f } (Or.inl (by rw [e4, p3])) (fun f' hf' => by simp at hf'; rw [e5, p4, hf'])
    have := ih _ i2
    simp only [execAll_append, execAll_cons, execAll_nil]
    exact this.after_step e2 (by rw [e3, p2]) ign2
  | case4 col t h hskip f pre rep hrep q hk hw ih =>
    have hlive := not_skip_live hskip
    obtain ⟨p1, p2, p3, p4⟩ : (execAll P s pre).grid = s.grid ∧ (execAll P s pre).place = s.place ∧
        (execAll P s pre).cur = (r, col) ∧ (execAll P s pre).face = f :=
      pre_ok P H W t s f r col hr h hinv.cur hinv.face
    have hrun := run_spec new mk (new col) W (col + 1)
    have hnew : ∀ k, col ≤ k → k < col + rep → new k = new col ∧ mk k ≠ .ignored := by
      intro k h1 h2
      by_cases hkc : k = col
      · subst hkc; exact ⟨rfl, hlive⟩
      · exact hrun.2 k (by omega) (by simp only [rep] at h2; omega)
    have hbW : col + rep ≤ W := by have := hrun.1; simp only [rep]; omega
    have hrep1 : rep = run new mk (new col) W (col + 1) + 1 := by simp only [rep]; omega
    obtain ⟨e1, e2, e3, e4, e5⟩ := exec_blanks P hP (run new mk (new col) W (col + 1)) (execAll P s pre)
    rw [← hrep1] at e1 e2 e3 e4 e5
    rw [p3] at e1 e2 e4
    simp only [p1, p4] at e1 e2
    obtain ⟨i2, ign2⟩ := over_step P H W r old new mk free col t s hok hinv (col + rep) (fun _ => .glyph 32 f)
      (by simp only [rep]; omega) hbW (execAll P (execAll P s pre) (List.replicate rep (.char 32))) e1
      e2
      (fun k h1 h2 => ⟨fun hi => absurd hi (hnew k h1 h2).2,
        fun _ => by rw [(hnew k h1 h2).1, dispN_chr P _ 32 hk hw]⟩)
      (by simp) (fun k _ _ => by
        constructor
        · intro hc; cases hc
        · intro hc; exact absurd hc (not_wide_glyph P 32 f (by rw [hP.sp]; omega)))
      (not_wide_glyph P 32 f (by rw [hP.sp]; omega))
      (left_safe P H W r old new mk free col t s hok hinv h 32 hk hw)
      (fun b' hb' => Or.inl (by
        rw [(hnew b' (by omega) (by omega)).1]
        simp [isWide, hk, hP.sp]))
      { cur := (r, col + rep), face := some f } (Or.inl (by rw [e4])) (fun f' hf' => by simp at hf'; rw [e5, p4, hf'])
    have := ih _ i2
    simp only [execAll_append]
    exact this.after_step e2 (by rw [e3, p2]) ign2
  | case5 col t h hskip ch hk hw f pre hsp q ih =>
    have hlive := not_skip_live hskip
    obtain ⟨p1, p2, p3, p4⟩ : (execAll P s pre).grid = s.grid ∧ (execAll P s pre).place = s.place ∧
        (execAll P s pre).cur = (r, col) ∧ (execAll P s pre).face = f :=
      pre_ok P H W t s f r col hr h hinv.cur hinv.face
    have hle := hP.le2 ch
    by_cases hw1 : P.width ch = 1
    · obtain ⟨e1, e2, e3, e4, e5⟩ := exec_narrow P (execAll P s pre) ch hw1
      rw [p3] at e1 e2 e4
      simp only [p1, p4] at e1 e2
      have hq : q = paintRow P old new mk W r (col + 1) { cur := (r, col + 1), face := some f } := by
        simp only [q, hw1]
      simp only [hw1] at ih
      obtain ⟨i2, ign2⟩ := over_step P H W r old new mk free col t s hok hinv (col + 1) (fun _ => .glyph ch f)
        (by omega) (by omega) (exec P (execAll P s pre) (.char ch)) e1
        e2
        (fun k h1 h2 => by
          have : k = col := by omega
          subst this
          exact ⟨fun hi => absurd hi hlive, fun _ => by rw [dispN_chr P _ ch hk hw]⟩)
        (by simp) (fun k _ _ => by omega)
        (not_wide_glyph P ch f (by omega))
        (left_safe P H W r old new mk free col t s hok hinv h ch hk hw)
        (fun b' hb' => Or.inl (by
          have : b' = col := by omega
          subst this
          simp [isWide, hk]; omega))
        { cur := (r, col + 1), face := some f } (Or.inl (by rw [e4])) (fun f' hf' => by simp at hf'; rw [e5, p4, hf'])
      have := ih _ i2
      simp only [execAll_append, execAll_cons, execAll_nil, hq]
      exact this.after_step e2 (by rw [e3, p2]) ign2
    · have hw2 : P.width ch = 2 := by omega
      obtain ⟨e1, e2, e3, e4, e5⟩ := exec_wide P (execAll P s pre) ch (by omega)
      rw [p3] at e1 e2 e4
      simp only [p1, p4] at e1 e2
      have hq : q = paintRow P old new mk W r (col + 2) { cur := (r, col + 2), face := some f } := by
        simp only [q, hw2]
      simp only [hw2] at ih
      have hwide : isWide P (new col) = true := by simp [isWide, hk, hw2]
      have hnext : col + 1 < W ∧ ((mk (col + 1) = .ignored → free (col + 1)) ∧
          (¬ free (col + 1) → SCell.cont = dispN P (new (col + 1)))) ∧
          (isWide P (new (col + 1)) = false ∨ free (col + 1)) := by
        by_cases hfr : free col
        · obtain ⟨w1, wf1⟩ := hok.fwide col h hfr hwide
          exact ⟨w1, ⟨fun _ => wf1, fun nf => absurd wf1 nf⟩, Or.inr wf1⟩
        · obtain ⟨w1, ⟨chn, w2, w3⟩, w4, _⟩ := hok.wide col h hwide hlive hfr
          exact ⟨w1, ⟨fun hi => absurd hi w4, fun _ => by rw [dispN_nul P _ chn w2 w3]⟩,
            Or.inl (by simp [isWide, w2, w3])⟩
      obtain ⟨w1, wv, wn⟩ := hnext
      obtain ⟨i2, ign2⟩ := over_step P H W r old new mk free col t s hok hinv (col + 2) (wideVal col (.glyph ch f))
        (by omega) (by omega) (exec P (execAll P s pre) (.char ch)) e1
        e2
        (fun k h1 h2 => by
          by_cases hkc : k = col
          · subst hkc
            exact ⟨fun hi => absurd hi hlive, fun _ => by simp only [wideVal, if_true]; rw [dispN_chr P _ ch hk hw]⟩
          · have : k = col + 1 := by omega
            subst this
            exact ⟨wv.1, fun nf => by simp only [wideVal]; simp; exact wv.2 nf⟩)
        (by simp [wideVal])
        (fun k h1 h2 => by
          have : k = col := by omega
          subst this
          simp only [wideVal, if_true]
          constructor
          · intro _; exact ⟨ch, f, rfl, by omega⟩
          · intro _; simp)
        (by
          have : col + 2 - 1 = col + 1 := by omega
          rw [this]
          simp only [wideVal]
          rintro ⟨c1, f1, he, _⟩
          simp at he)
        (left_safe P H W r old new mk free col t s hok hinv h ch hk hw)
        (fun b' hb' => by
          have : b' = col + 1 := by omega
          subst this
          exact wn)
        { cur := (r, col + 2), face := some f } (Or.inl (by rw [e4])) (fun f' hf' => by simp at hf'; rw [e5, p4, hf'])
      have := ih _ i2
      simp only [execAll_append, execAll_cons, execAll_nil, hq]
      exact this.after_step e2 (by rw [e3, p2]) ign2
  | case6 col t h hskip hk ih =>
    exfalso
    have := hok.img col h (fun ch hc => hk ch hc)
    exact not_skip_live hskip this
  | case7 col t h =>
    simp only [execAll_nil]
    exact ⟨hinv.wf, hinv.cur, hinv.face, fun k hk hm hfr => hinv.done k (by omega) hk hm hfr, fun _ _ => rfl, rfl,
      fun _ _ _ _ _ => rfl⟩

/-! ### all rows of the second pass -/

def pass2Step (P : Params) (old new : Surface) (mk : Nat → Nat → Mark) (W : Nat)
    (acc : List Cmd × Tr) (r : Nat) : List Cmd × Tr :=
  let q := paintRow P (old r) (new r) (mk r) W r 0 acc.2
  (acc.1 ++ q.1, q.2)

theorem pass2_eq (P : Params) (old new : Surface) (mk : Nat → Nat → Mark) (H W : Nat) :
    pass2 P old new mk H W = ((List.range H).foldl (pass2Step P old new mk W) ([], Tr.init)).1 := rfl

structure Pass2Inv (P : Params) (H W : Nat) (old new : Surface) (mk : Nat → Nat → Mark)
    (free : Nat → Nat → Prop) (n : Nat) (t : Tr) (s sn : Screen) : Prop where
  wf : WF P sn
  cur : t.cur = sn.cur ∨ ¬ (t.cur.1 < H ∧ t.cur.2 < W)
  face : ∀ f, t.face = some f → sn.face = f
  place : sn.place = s.place
  done : ∀ r k, r < n → k < W → mk r k ≠ .ignored → ¬ free r k → sn.grid r k = dispN P (new r k)
  rest : ∀ r, n ≤ r → sn.grid r = s.grid r
  ign : ∀ r k, r < n → mk r k = .ignored → ¬ free r k → s.grid r k ≠ .cont → ¬ WideGlyph P (s.grid r k) →
    sn.grid r k = s.grid r k

theorem pass2_prefix (P : Params) (hP : ParamsOk P) (H W : Nat) (hsz : H ≤ 123456 ∨ W ≤ 654123)
    (old new : Surface) (mk : Nat → Nat → Mark) (free : Nat → Nat → Prop)
    (hok : ∀ r, r < H → RowOk P W (new r) (mk r) (free r))
    (s : Screen) (hwf : WF P s)
    (hold : ∀ r k, r < H → k < W → mk r k = .empty → s.grid r k = dispN P (old r k))
    (n : Nat) (hn : n ≤ H) :
    Pass2Inv P H W old new mk free n ((List.range n).foldl (pass2Step P old new mk W) ([], Tr.init)).2 s
      (execAll P s ((List.range n).foldl (pass2Step P old new mk W) ([], Tr.init)).1) := by
  induction n with
  | zero =>
    simp only [List.range_zero, List.foldl_nil, execAll_nil]
    refine ⟨hwf, Or.inr ?_, ?_, rfl, ?_, fun _ _ => rfl, ?_⟩
    · simp only [Tr.init]; omega
    · intro f hf; simp [Tr.init] at hf
    · intro r k hr; omega
    · intro r k hr; omega
  | succ n ih =>
    have J := ih (by omega)
    rw [List.range_succ, List.foldl_append]
    simp only [List.foldl_cons, List.foldl_nil]
    generalize (List.range n).foldl (pass2Step P old new mk W) ([], Tr.init) = acc at J ⊢
    simp only [pass2Step, execAll_append]
    generalize hsn : execAll P s acc.1 = sn at J ⊢
    have hrow : RowInv P H W n (old n) (new n) (mk n) (free n) 0 acc.2 sn := by
      refine ⟨J.wf, J.cur, J.face, ?_, ?_, ?_⟩
      · intro k hk; omega
      · intro k _ hkW hm; rw [J.rest n (by omega)]; exact hold n k (by omega) hkW hm
      · intro hW hm; left; rw [J.rest n (by omega)]; exact hold n 0 (by omega) hW hm
    have D := paintRow_correct P hP H W n (by omega) (old n) (new n) (mk n) (free n) (hok n (by omega)) 0 acc.2 sn hrow
    refine ⟨D.wf, D.cur, D.face, by rw [D.place, J.place], ?_, ?_, ?_⟩
    · intro r k hr hk hm hfr
      by_cases h : r = n
      · subst h; exact D.done k hk hm hfr
      · rw [D.other r h]; exact J.done r k (by omega) hk hm hfr
    · intro r hr
      rw [D.other r (by omega)]; exact J.rest r (by omega)
    · intro r k hr hm hfr h1 h2
      by_cases h : r = n
      · subst h
        have e := J.rest r (by omega)
        rw [D.ign k hm hfr (by rw [e]; exact h1) (by rw [e]; exact h2), e]
      · rw [D.other r h]; exact J.ign r k (by omega) hm hfr h1 h2

end SurfProofs.C01
