import SurfModel.Sixel
/-!
# C12 helper lemmas: the per-band hash map holds, per colour, the items of that colour
-/
namespace SurfProofs.Lemmas.SixelMap
open SurfModel.Sixel

theorem mem_uniqueColours (x : Nat) : ∀ l : List Nat, x ∈ uniqueColours l ↔ x ∈ l := by
  intro l
  induction l with
  | nil => simp [uniqueColours]
  | cons a l ih =>
    simp only [uniqueColours]
    split
    · rename_i h
      rw [ih]
      constructor
      · intro hx; exact List.mem_cons_of_mem _ hx
      · intro hx
        rcases List.mem_cons.1 hx with hx | hx
        · subst hx; exact h
        · exact hx
    · simp [ih]

theorem nodup_uniqueColours : ∀ l : List Nat, (uniqueColours l).Nodup := by
  intro l
  induction l with
  | nil => simp [uniqueColours]
  | cons a l ih =>
    simp only [uniqueColours]
    split
    · exact ih
    · rename_i h
      exact List.nodup_cons.2 ⟨by rw [mem_uniqueColours]; exact h, ih⟩

theorem lookup_pushItem (c' c : Nat) (it : Nat × Nat) : ∀ m : List (Nat × List (Nat × Nat)),
    ((pushItem m c it).lookup c').getD [] = (m.lookup c').getD [] ++ (if c' = c then [it] else []) := by
  intro m
  induction m with
  | nil =>
    by_cases h : c' = c
    · subst h; simp [pushItem, List.lookup]
    · have : (c' == c) = false := by simp [h]
      simp [pushItem, List.lookup, this, h]
  | cons p rest ih =>
    obtain ⟨k, v⟩ := p
    simp only [pushItem]
    by_cases hk : k = c
    · subst hk
      simp only [if_true]
      by_cases h : c' = k
      · subst h; simp [List.lookup]
      · have : (c' == k) = false := by simp [h]
        simp [List.lookup, this, h]
    · simp only [hk, if_false]
      by_cases h : c' = k
      · subst h
        have : ¬ c' = c := fun e => hk (by rw [e])
        simp [List.lookup, this]
      · have hb : (c' == k) = false := by simp [h]
        simp only [List.lookup, hb]
        exact ih

theorem lookup_foldl_push (c' col : Nat) (code : Nat → Nat) : ∀ (us : List Nat) (m : List (Nat × List (Nat × Nat))),
    us.Nodup →
    ((us.foldl (fun m c => pushItem m c (col, code c)) m).lookup c').getD []
      = (m.lookup c').getD [] ++ (if c' ∈ us then [(col, code c')] else []) := by
  intro us
  induction us with
  | nil => intro m _; simp
  | cons u us ih =>
    intro m hn
    rw [List.nodup_cons] at hn
    simp only [List.foldl_cons]
    rw [ih _ hn.2, lookup_pushItem]
    by_cases h1 : c' = u
    · subst h1
      simp [hn.1]
    · by_cases h2 : c' ∈ us
      · simp [h1, h2]
      · simp [h1, h2]

theorem lookup_collectColumn (q : QImg) (b c col : Nat) (m : List (Nat × List (Nat × Nat))) :
    ((collectColumn q b m col).lookup c).getD []
      = (m.lookup c).getD [] ++
        (if c ∈ sixelAt q b col then [(col, codeOf c (sixelAt q b col) + 63)] else []) := by
  unfold collectColumn
  simp only
  rw [lookup_foldl_push c col (fun c => codeOf c (sixelAt q b col) + 63) _ m (nodup_uniqueColours _)]
  simp only [mem_uniqueColours]

theorem lookup_foldl_collect (q : QImg) (b c : Nat) : ∀ (cols : List Nat) (m : List (Nat × List (Nat × Nat))),
    ((cols.foldl (collectColumn q b) m).lookup c).getD []
      = (m.lookup c).getD [] ++ cols.filterMap (fun col =>
          let six := sixelAt q b col
          if c ∈ six then some (col, codeOf c six + 63) else none) := by
  intro cols
  induction cols with
  | nil => intro m; simp
  | cons col cols ih =>
    intro m
    simp only [List.foldl_cons]
    rw [ih, lookup_collectColumn]
    by_cases h : c ∈ sixelAt q b col
    · simp [h, List.filterMap_cons]
    · simp [h, List.filterMap_cons]

/-- the vector stored under `c` is the list of `c`'s items in column order -/
theorem bandLine_eq (q : QImg) (b c : Nat) : bandLine q b c = lineItems q b c := by
  unfold bandLine collectBand lineItems
  rw [lookup_foldl_collect]
  simp [List.lookup]

end SurfProofs.Lemmas.SixelMap
