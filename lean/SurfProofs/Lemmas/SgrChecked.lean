import SurfModel.SgrChecked
/-!
The index-out-of-bounds panics of `sgr_color` / `sgr_face` are unreachable: every index is guarded by the range
test in front of it and the regenerated tables have the lengths the guards assume (16, 6, 24 — re-decided by the
kernel whenever `SurfModel.Generated.SgrTables` changes).  Hence the checked functions are `.ok` of C06's.
-/
namespace SurfProofs.SgrChecked
open SurfModel SurfModel.Sgr SurfModel.SgrChecked SurfModel.Vt

theorem colors16_length : Generated.colors16.length = 16 := by decide
theorem cube6_length : Generated.cube6.length = 6 := by decide
theorem greys24_length : Generated.greys24.length = 24 := by decide

theorem tableGet_ok {α : Type} (t : List α) (i : Nat) (h : i < t.length) : tableGet t i = .ok t[i] := by
  simp [tableGet, List.getElem?_eq_getElem h]

theorem paletteChecked_eq (index : Nat) : paletteChecked index = .ok (palette index) := by
  unfold paletteChecked palette
  by_cases h1 : index < 16
  · simp only [h1, if_true]
    have hl : index < Generated.colors16.length := by rw [colors16_length]; exact h1
    rw [tableGet_ok _ _ hl]
    simp [List.getElem?_eq_getElem hl]
  · simp only [h1, if_false]
    by_cases h2 : index < 232
    · simp only [h2, if_true]
      have hr : (index - 16) / 36 < Generated.cube6.length := by rw [cube6_length]; omega
      have hg : (index - 16 - (index - 16) / 36 * 36) / 6 < Generated.cube6.length := by rw [cube6_length]; omega
      have hb : index - 16 - (index - 16) / 36 * 36 - (index - 16 - (index - 16) / 36 * 36) / 6 * 6 < Generated.cube6.length := by
        rw [cube6_length]; omega
      rw [tableGet_ok _ _ hr, tableGet_ok _ _ hg, tableGet_ok _ _ hb]
      simp [List.getElem?_eq_getElem hr, List.getElem?_eq_getElem hg, List.getElem?_eq_getElem hb]
    · simp only [h2, if_false]
      by_cases h3 : index < 256
      · simp only [h3, if_true]
        have hl : index - 232 < Generated.greys24.length := by rw [greys24_length]; omega
        rw [tableGet_ok _ _ hl]
        simp [List.getElem?_eq_getElem hl]
      · simp [h3]

theorem sgrColorLookups_ok (cmds : List (List Nat)) : sgrColorLookups cmds = .ok () := by
  unfold sgrColorLookups
  split
  · rfl
  · split
    · split
      · rfl
      · split
        · rfl
        · rename_i index _
          rw [paletteChecked_eq]
    · rfl

theorem sgrColorChecked_eq (cmds : List (List Nat)) (colon : Bool) :
    sgrColorChecked cmds colon = .ok (sgrColor cmds colon).1 := by
  simp [sgrColorChecked, sgrColorLookups_ok]

theorem namedLookup_ok (i : Nat) (h : i < 16) : namedLookup i = .ok () := by
  have hl : i < Generated.colors16.length := by rw [colors16_length]; exact h
  simp [namedLookup, tableGet_ok _ _ hl]

theorem sgrFaceStepLookups_ok (group : List Nat) (rest : List (List Nat)) : sgrFaceStepLookups group rest = .ok () := by
  unfold sgrFaceStepLookups
  simp only
  split
  · rfl
  · rename_i v _
    split
    · split <;> exact sgrColorLookups_ok _
    · split
      · exact namedLookup_ok _ (by omega)
      · split
        · exact namedLookup_ok _ (by omega)
        · split
          · exact namedLookup_ok _ (by omega)
          · split
            · exact namedLookup_ok _ (by omega)
            · rfl

theorem sgrFaceStepChecked_eq (face : FMod) (group : List Nat) (rest : List (List Nat)) :
    sgrFaceStepChecked face group rest = .ok (sgrFaceStep face group rest).1 := by
  simp [sgrFaceStepChecked, sgrFaceStepLookups_ok]

theorem sgrFaceLoopChecked_eq (n : Nat) : ∀ (face : FMod) (groups : List (List Nat)), groups.length ≤ n →
    sgrFaceLoopChecked face groups = .ok (sgrFaceLoop face groups) := by
  induction n with
  | zero =>
    intro face groups h
    have : groups = [] := List.length_eq_zero_iff.mp (by omega)
    subst this
    rw [sgrFaceLoopChecked, sgrFaceLoop]
  | succ n ih =>
    intro face groups h
    cases groups with
    | nil => rw [sgrFaceLoopChecked, sgrFaceLoop]
    | cons g rest =>
      rw [sgrFaceLoopChecked, sgrFaceLoop, sgrFaceStepChecked_eq]
      simp only
      apply ih
      have := sgrFaceStep_length face g rest
      simp only [List.length_cons] at h
      omega

/-- **no table index of `sgr_face` / `sgr_color` is ever out of range**, and the checked function is C06's -/
theorem sgrFaceChecked_eq (data : List Nat) : sgrFaceChecked data = .ok (sgrFace data) := by
  unfold sgrFaceChecked sgrFace
  exact sgrFaceLoopChecked_eq _ _ _ (Nat.le_refl _)

end SurfProofs.SgrChecked
