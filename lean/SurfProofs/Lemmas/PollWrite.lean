import SurfProofs.Lemmas.IOQueue
/-! Helper lemmas for C16: the terminal-level calls (write / flush / frames_drop / poll under an arbitrary
schedule) are sequences of queue calls, hence simulated by the specification stream. -/
namespace SurfProofs.C16Spec
open SurfModel.IOQueue SurfModel.PollWrite

theorem sim_cons {s : Spec} {ev : Ev} {r : Option (Q × List Ev)} {w1 w2 : List UInt8} {n1 n2 : Bool}
    (hl : s.Legal ev) (hw : written [ev] = w1) (hn : n1 = true → noDrop [ev])
    (h2 : Sim (s.apply ev) r w2 n2) :
    ∃ q2 e2, r = some (q2, e2) ∧ Sim s (some (q2, ev :: e2)) (w1 ++ w2) (n1 && n2) := by
  obtain ⟨q2, e2, hr, ha, hR, hw2, hn2⟩ := sim_seq (s := s) (e1 := [ev]) ⟨hl, trivial⟩ hw hn h2
  exact ⟨q2, e2, hr, q2, ev :: e2, rfl, ha, hR, hw2, hn2⟩

theorem injectAll_sim {q : Q} {s : Spec} (bs : List (List UInt8)) (h : R q s)
    (hb : s.size + bs.flatten.length ≤ usizeMax) : Sim s (injectAll? q bs) bs.flatten true := by
  induction bs generalizing q s with
  | nil => exact sim_nil h _
  | cons b bs ih =>
    simp only [List.flatten_cons, List.length_append] at hb
    obtain ⟨hw, hr⟩ := write_R b h (by omega)
    have hl : s.Legal (.write b) := trivial
    have hsz := size_apply_le hl
    simp only [written, List.append_nil] at hsz
    obtain ⟨q2, e2, hr2, hs⟩ := sim_cons (n1 := true) hl (w1 := b) (by simp [written]) (by simp [noDrop])
      (ih hr (by omega))
    simpa [injectAll?, hw, hr2] using hs

theorem pollIter_sim {q : Q} {s : Spec} (it : Iter) (h : R q s)
    (hb : s.size + it.inject.flatten.length ≤ usizeMax) :
    Sim s (pollIter? q it) it.inject.flatten true := by
  unfold pollIter?
  cases hw : (if q.isEmpty = true then none else it.writable) with
  | none => exact injectAll_sim _ h hb
  | some k =>
    obtain ⟨sl, hsl, _, _⟩ := asSlice_of_R h
    obtain ⟨q', sl', hsl', hq, hleg, hr, _⟩ := consume_R (min k sl.length) h (by omega)
    have e : sl' = sl := by rw [hsl] at hsl'; exact (Option.some.inj hsl').symm
    subst e
    have hsz := size_apply_le hleg
    simp only [written, List.length_nil, Nat.add_zero] at hsz
    obtain ⟨q2, e2, hr2, hs⟩ := sim_cons (n1 := true) hleg (w1 := []) (by simp [written]) (by simp [noDrop])
      (injectAll_sim it.inject hr (by omega))
    simpa [hsl, Q.consumeWith?, hq, hr2] using hs

theorem pollLoop_sim {q : Q} {s : Spec} (its : List Iter) (h : R q s)
    (hb : s.size + ((its.map fun it => it.inject.flatten).flatten).length ≤ usizeMax) :
    Sim s (pollLoop? q its) ((its.map fun it => it.inject.flatten).flatten) true := by
  induction its generalizing q s with
  | nil => exact sim_nil h _
  | cons it its ih =>
    simp only [List.map_cons, List.flatten_cons, List.length_append] at hb
    obtain ⟨q1, e1, h1, ha1, hr1, hw1, hn1⟩ := pollIter_sim it h (by omega)
    obtain ⟨q2, e2, h2, ha, hR, hw, hn⟩ := sim_seq ha1 hw1 hn1 (ih hr1 (sim_budget ha1 hw1 hb))
    exact ⟨q2, e1 ++ e2, by simp [pollLoop?, h1, h2], ha, hR, by simpa using hw, by simpa using hn⟩

theorem poll_sim {q : Q} {s : Spec} (its : List Iter) (h : R q s)
    (hb : s.size + ((its.map fun it => it.inject.flatten).flatten).length ≤ usizeMax) :
    Sim s (poll? q its) ((its.map fun it => it.inject.flatten).flatten) true := by
  obtain ⟨q1, hq1, hr1, _⟩ := flush_R h
  have hl : s.Legal .flush := trivial
  have hsz := size_apply_le hl
  simp only [written, List.length_nil, Nat.add_zero] at hsz
  obtain ⟨q2, e2, hr2, hs⟩ := sim_cons (n1 := true) hl (w1 := []) (by simp [written]) (by simp [noDrop])
    (pollLoop_sim its hr1 (by omega))
  simpa [poll?, hq1, hr2] using hs

theorem framesDrop_sim {q : Q} {s : Spec} (sizeEsc : Bool) (h : R q s)
    (hb : s.size + (opWritten sizeEsc .drop).length ≤ usizeMax) :
    Sim s (framesDrop? sizeEsc q) (opWritten sizeEsc .drop) false := by
  obtain ⟨q', hq, hleg, hr, _⟩ := clear_R h
  have hsz := size_apply_le hleg
  simp only [written, List.length_nil, Nat.add_zero] at hsz
  cases sizeEsc with
  | false =>
    simp only [framesDrop?, hq, opWritten]
    exact sim_one hleg hr (by simp [written]) (by simp)
  | true =>
    simp only [opWritten, if_true] at hb
    obtain ⟨hw, hr2⟩ := write_R getTermSize hr (by omega)
    simp only [framesDrop?, hq, if_true, hw, opWritten]
    exact ⟨_, _, rfl, ⟨hleg, trivial, trivial⟩, hr2, by simp [written], by simp⟩

theorem tstep_sim {q : Q} {s : Spec} (sizeEsc : Bool) (op : TOp) (h : R q s)
    (hb : s.size + (opWritten sizeEsc op).length ≤ usizeMax) :
    Sim s (tstep? sizeEsc q op) (opWritten sizeEsc op) (!isDrop op) := by
  cases op with
  | write b =>
    obtain ⟨hw, hr⟩ := write_R b h hb
    simp only [tstep?, hw]
    exact sim_one trivial hr (by simp [written, opWritten]) (by simp [noDrop])
  | flush =>
    obtain ⟨q', hq, hr, _⟩ := flush_R h
    simp only [tstep?, hq]
    exact sim_one trivial hr (by simp [written, opWritten]) (by simp [noDrop])
  | drop => exact framesDrop_sim sizeEsc h hb
  | poll its => exact poll_sim its h hb

theorem trun_sim {q : Q} {s : Spec} (sizeEsc : Bool) (ops : List TOp) (h : R q s)
    (hb : s.size + (progWritten sizeEsc ops).length ≤ usizeMax) :
    Sim s (trun? sizeEsc q ops) (progWritten sizeEsc ops) (ops.all fun op => !isDrop op) := by
  induction ops generalizing q s with
  | nil => exact sim_nil h _
  | cons op ops ih =>
    have hsplit : progWritten sizeEsc (op :: ops) = opWritten sizeEsc op ++ progWritten sizeEsc ops := by
      simp [progWritten]
    rw [hsplit, List.length_append] at hb
    obtain ⟨q1, e1, h1, ha1, hr1, hw1, hn1⟩ := tstep_sim sizeEsc op h (by omega)
    obtain ⟨q2, e2, h2, ha, hR, hw, hn⟩ := sim_seq ha1 hw1 hn1 (ih hr1 (sim_budget ha1 hw1 hb))
    exact ⟨q2, e1 ++ e2, by simp [trun?, h1, h2], ha, hR, by rw [hw, hsplit], by simpa using hn⟩

end SurfProofs.C16Spec
