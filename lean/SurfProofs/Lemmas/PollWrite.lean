import SurfProofs.Lemmas.IOQueue
/-! Helper lemmas for C16: the terminal-level calls (write / flush / frames_drop / poll under an arbitrary
schedule) are sequences of queue calls, hence simulated by the specification stream. -/
namespace SurfProofs.C16Spec
open SurfModel.IOQueue SurfModel.PollWrite

theorem written_append (a b : List Ev) : written (a ++ b) = written a ++ written b := by
  induction a with
  | nil => simp [written]
  | cons e es ih => cases e <;> simp [written, ih]

theorem noDrop_append (a b : List Ev) : noDrop (a ++ b) ↔ noDrop a ∧ noDrop b := by
  induction a with
  | nil => simp [noDrop]
  | cons e es ih => cases e <;> simp [noDrop, ih]

theorem sim_nil {q : Q} {s : Spec} (h : R q s) : Sim s (some (q, [])) := ⟨q, [], rfl, trivial, h⟩

theorem sim_cons {s : Spec} {ev : Ev} {q2 : Q} {evs : List Ev} (hl : s.Legal ev)
    (h2 : Sim (s.apply ev) (some (q2, evs))) : Sim s (some (q2, ev :: evs)) := by
  obtain ⟨q', evs', he, ha, hR⟩ := h2
  obtain ⟨rfl, rfl⟩ := Prod.mk.inj (Option.some.inj he)
  exact ⟨_, _, rfl, ⟨hl, ha⟩, hR⟩

theorem injectAll_sim {q : Q} {s : Spec} (bs : List (List UInt8)) (h : R q s) :
    Sim s (some (injectAll q bs)) := by
  induction bs generalizing q s with
  | nil => exact sim_nil h
  | cons b bs ih => exact sim_cons trivial (ih (write_R b h))

theorem injectAll_written (q : Q) (bs : List (List UInt8)) :
    written (injectAll q bs).2 = bs.flatten ∧ noDrop (injectAll q bs).2 := by
  induction bs generalizing q with
  | nil => simp [injectAll, written, noDrop]
  | cons b bs ih => simp [injectAll, written, noDrop, ih]

theorem pollIter_sim {q : Q} {s : Spec} (it : Iter) (h : R q s) : Sim s (pollIter? q it) := by
  unfold pollIter?
  cases hw : (if q.isEmpty = true then none else it.writable) with
  | none => exact injectAll_sim _ h
  | some k =>
    obtain ⟨sl, hsl, _, _⟩ := asSlice_of_R h
    obtain ⟨q', sl', hsl', hq, hleg, hr, _⟩ := consume_R (min k sl.length) h
    have e : sl' = sl := by rw [hsl] at hsl'; exact (Option.some.inj hsl').symm
    subst e
    simp only [hsl, Q.consumeWith?, hq]
    exact sim_cons hleg (injectAll_sim _ hr)

theorem pollLoop_sim {q : Q} {s : Spec} (its : List Iter) (h : R q s) : Sim s (pollLoop? q its) := by
  induction its generalizing q s with
  | nil => exact sim_nil h
  | cons it its ih =>
    obtain ⟨q1, e1, h1, ha1, hr1⟩ := pollIter_sim it h
    obtain ⟨q2, e2, h2, ha, hR⟩ := sim_bind ha1 hr1 (ih hr1)
    exact ⟨q2, e1 ++ e2, by simp [pollLoop?, h1, h2], ha, hR⟩

theorem poll_sim {q : Q} {s : Spec} (its : List Iter) (h : R q s) : Sim s (poll? q its) := by
  obtain ⟨q1, hq1, hr1, _⟩ := flush_R h
  obtain ⟨q2, evs, h2, ha, hR⟩ := pollLoop_sim its hr1
  exact ⟨q2, .flush :: evs, by simp [poll?, hq1, h2], ⟨trivial, ha⟩, hR⟩

theorem tstep_sim {q : Q} {s : Spec} (op : TOp) (h : R q s) : Sim s (tstep? q op) := by
  cases op with
  | write b => exact sim_one trivial (write_R b h)
  | flush =>
    obtain ⟨q', hq, hr, _⟩ := flush_R h
    simp only [tstep?, hq]
    exact sim_one trivial hr
  | drop =>
    obtain ⟨q', hq, hleg, hr, _⟩ := clear_R h
    simp only [tstep?, hq]
    exact sim_one hleg hr
  | poll its => exact poll_sim its h

theorem trun_sim {q : Q} {s : Spec} (ops : List TOp) (h : R q s) : Sim s (trun? q ops) := by
  induction ops generalizing q s with
  | nil => exact sim_nil h
  | cons op ops ih =>
    obtain ⟨q1, e1, h1, ha1, hr1⟩ := tstep_sim op h
    obtain ⟨q2, e2, h2, ha, hR⟩ := sim_bind ha1 hr1 (ih hr1)
    exact ⟨q2, e1 ++ e2, by simp [trun?, h1, h2], ha, hR⟩

/-! ### which bytes a call queues -/

theorem pollIter_written {q q' : Q} {evs : List Ev} (it : Iter) (h : pollIter? q it = some (q', evs)) :
    written evs = it.inject.flatten ∧ noDrop evs := by
  unfold pollIter? at h
  split at h
  · have e : (injectAll q it.inject).2 = evs := congrArg Prod.snd (Option.some.inj h)
    rw [← e]; exact injectAll_written _ _
  · split at h
    · cases h
    · simp only at h
      split at h
      · cases h
      · have e := congrArg Prod.snd (Option.some.inj h)
        simp only at e
        rw [← e]; simp [written, noDrop, injectAll_written]

theorem pollLoop_written {q q' : Q} {evs : List Ev} (its : List Iter) (h : pollLoop? q its = some (q', evs)) :
    written evs = (its.map fun it => it.inject.flatten).flatten ∧ noDrop evs := by
  induction its generalizing q q' evs with
  | nil => simp only [pollLoop?] at h; cases h; simp [written, noDrop]
  | cons it its ih =>
    simp only [pollLoop?] at h
    split at h
    · cases h
    · rename_i q1 e1 h1
      split at h
      · cases h
      · rename_i q2 e2 h2
        cases h
        have a := pollIter_written it h1
        have b := ih h2
        simp [written_append, noDrop_append, a, b]

theorem tstep_written {q q' : Q} {evs : List Ev} (op : TOp) (h : tstep? q op = some (q', evs)) :
    written evs = opWritten op ∧ (isDrop op = false → noDrop evs) := by
  cases op with
  | write b => simp only [tstep?] at h; cases h; simp [written, opWritten, noDrop]
  | flush =>
    simp only [tstep?] at h
    split at h
    · cases h; simp [written, opWritten, noDrop]
    · cases h
  | drop =>
    simp only [tstep?] at h
    split at h
    · cases h; simp [written, opWritten, isDrop]
    · cases h
  | poll its =>
    simp only [tstep?, poll?] at h
    split at h
    · cases h
    · split at h
      · cases h
      · rename_i q2 e2 h2
        cases h
        have a := pollLoop_written its h2
        simp [written, opWritten, noDrop, a]

theorem trun_written {q q' : Q} {evs : List Ev} (ops : List TOp) (h : trun? q ops = some (q', evs)) :
    written evs = progWritten ops ∧ ((∀ op ∈ ops, isDrop op = false) → noDrop evs) := by
  induction ops generalizing q q' evs with
  | nil => simp only [trun?] at h; cases h; simp [written, progWritten, noDrop]
  | cons op ops ih =>
    simp only [trun?] at h
    split at h
    · cases h
    · rename_i q1 e1 h1
      split at h
      · cases h
      · rename_i q2 e2 h2
        cases h
        have a := tstep_written op h1
        have b := ih h2
        refine ⟨by simp [written_append, progWritten, a.1, b.1], ?_⟩
        intro hall
        rw [noDrop_append]
        exact ⟨a.2 (hall op (by simp)), b.2 (fun o ho => hall o (by simp [ho]))⟩

end SurfProofs.C16Spec
