import SurfModel.Sgr
import SurfProofs.Lemmas.VtSgr
/-! Lemmas for C06: `number_decode`, one step of `sgr_face` on the chunks the encoder writes. -/
namespace SurfProofs.Lemmas.Sgr
open SurfModel.Vt SurfModel.Sgr SurfProofs.Lemmas.Vt

/-! ### number_decode computes the clamped decimal value -/

/-- value of a least-significant-first digit string -/
def valRev : List Nat → Nat
  | [] => 0
  | d :: ds => (d - 48) + 10 * valRev ds

theorem min_mul_sat (M d m : Nat) : min M (d * min M m) = min M (d * m) := by
  by_cases hm : m ≤ M
  · rw [Nat.min_eq_right hm]
  · have hm' : M < m := Nat.lt_of_not_le hm
    rw [Nat.min_eq_left (Nat.le_of_lt hm')]
    cases d with
    | zero => simp
    | succ d =>
      have h1 : M ≤ (d + 1) * M := Nat.le_mul_of_pos_left M (Nat.succ_pos d)
      have h2 : M ≤ (d + 1) * m := Nat.le_trans h1 (Nat.mul_le_mul_left _ (Nat.le_of_lt hm'))
      rw [Nat.min_eq_left h1, Nat.min_eq_left h2]

theorem min_mul10_sat (M m : Nat) : min M (min M m * 10) = min M (m * 10) := by
  have := min_mul_sat M 10 m
  simpa [Nat.mul_comm] using this

theorem numberDecodeRev_sat (ds : List Nat) (h : ∀ d ∈ ds, 48 ≤ d ∧ d ≤ 57) (m a : Nat) :
    numberDecodeRev ds (min usizeMax m) (min usizeMax a) = some (min usizeMax (a + m * valRev ds)) := by
  induction ds generalizing m a with
  | nil => simp [numberDecodeRev, valRev]
  | cons d ds ih =>
    have hd := h d (by simp)
    simp only [numberDecodeRev, hd.1, hd.2, and_self, if_true, satMul, satAdd, valRev]
    rw [min_mul10_sat, min_mul_sat]
    have hacc : min usizeMax (min usizeMax a + min usizeMax ((d - 48) * m)) = min usizeMax (a + (d - 48) * m) := by omega
    rw [hacc, ih (fun x hx => h x (by simp [hx])) (m * 10) (a + (d - 48) * m)]
    congr 2
    rw [Nat.mul_add, Nat.mul_comm m (d - 48)]
    have : m * (10 * valRev ds) = m * 10 * valRev ds := by rw [Nat.mul_assoc]
    omega

theorem valRev_eq (l : List Nat) : valRev l = readDec l.reverse := by
  induction l with
  | nil => rfl
  | cons d l ih => rw [List.reverse_cons, readDec_append, valRev, ih]; omega

theorem valRev_reverse (ds : List Nat) : valRev ds.reverse = readDec ds := by
  rw [valRev_eq, List.reverse_reverse]

/-- **number_decode**: on a digit string of any length the result is the decimal value clamped at
`usize::MAX` — never a wrapped value. -/
theorem numberDecode_digits (ds : List Nat) (h : ∀ d ∈ ds, 48 ≤ d ∧ d ≤ 57) :
    numberDecode ds = some (min usizeMax (readDec ds)) := by
  have := numberDecodeRev_sat ds.reverse (by intro d hd; exact h d (List.mem_reverse.mp hd)) 1 0
  have e1 : min usizeMax 1 = 1 := by decide
  have e0 : min usizeMax 0 = 0 := by decide
  rw [e1, e0] at this
  simpa [numberDecode, valRev_reverse] using this

theorem numberDecode_none (ds : List Nat) (h : ∃ d ∈ ds, ¬ (48 ≤ d ∧ d ≤ 57)) : numberDecode ds = none := by
  have key : ∀ (l : List Nat) (m a : Nat), (∃ d ∈ l, ¬ (48 ≤ d ∧ d ≤ 57)) → numberDecodeRev l m a = none := by
    intro l
    induction l with
    | nil => intro m a h; simp at h
    | cons x xs ih =>
      intro m a h
      by_cases hx : 48 ≤ x ∧ x ≤ 57
      · simp only [numberDecodeRev, hx, and_self, if_true]
        apply ih
        obtain ⟨d, hd, hnd⟩ := h
        simp at hd
        rcases hd with rfl | hd
        · exact absurd hx hnd
        · exact ⟨d, hd, hnd⟩
      · simp [numberDecodeRev, hx]
  obtain ⟨d, hd, hnd⟩ := h
  exact key ds.reverse 1 0 ⟨d, List.mem_reverse.mpr hd, hnd⟩

theorem numberDecode_showNat (n : Nat) : numberDecode (showNat n) = some (min usizeMax n) := by
  rw [numberDecode_digits _ (showNat_digits n), readDec_showNat]

theorem numberDecode_showNat_small (n : Nat) (h : n ≤ usizeMax) : numberDecode (showNat n) = some n := by
  rw [numberDecode_showNat, Nat.min_eq_right h]

/-! ### one record per SGR sequence: groups the encoder writes are read back field by field -/

theorem sgrFaceLoop_nil (fm : FMod) : sgrFaceLoop fm [] = fm := by rw [sgrFaceLoop]

theorem sgrFaceLoop_cons (fm : FMod) (g : List Nat) (rest : List (List Nat)) :
    sgrFaceLoop fm (g :: rest) = sgrFaceLoop (sgrFaceStep fm g rest).1 (sgrFaceStep fm g rest).2 := by
  rw [sgrFaceLoop]

/-- the groups `grp` are consumed together and change the record by `upd`, whatever follows -/
def DClosed (grp : List (List Nat)) (upd : FMod → FMod) : Prop :=
  ∀ fm rest, sgrFaceLoop fm (grp ++ rest) = sgrFaceLoop (upd fm) rest

theorem DClosed.nil : DClosed [] id := by intro fm rest; rfl

theorem DClosed.append {a b : List (List Nat)} {ua ub : FMod → FMod} (ha : DClosed a ua) (hb : DClosed b ub) :
    DClosed (a ++ b) (ub ∘ ua) := by
  intro fm rest
  rw [List.append_assoc, ha, hb]; rfl

theorem DClosed.single (g : List Nat) (upd : FMod → FMod)
    (h : ∀ fm rest, sgrFaceStep fm g rest = (upd fm, rest)) : DClosed [g] upd := by
  intro fm rest
  simp only [List.singleton_append, sgrFaceLoop_cons, h]

theorem DClosed.eval {grp : List (List Nat)} {upd : FMod → FMod} (h : DClosed grp upd) (fm : FMod) :
    sgrFaceLoop fm grp = upd fm := by
  have := h fm []
  simpa [sgrFaceLoop_nil] using this

def setColor (role : Role) (c : Rgba) (fm : FMod) : FMod :=
  match role with
  | .fg => { fm with fg := some c }
  | .bg => { fm with bg := some c }
  | .ul => { fm with underlineColor := some c }

theorem u8_small (n : Nat) (h : n ≤ 255) : n ≤ usizeMax := by unfold usizeMax; omega

/-- a true-colour group `38;2;r;g;b` (also 48, 58) is read back as that colour -/
theorem color_closed (c : Color) (role : Role) (hr : c.r ≤ 255) (hg : c.g ≤ 255) (hb : c.b ≤ 255) :
    DClosed (colorChunks c .trueColor role) (setColor role ⟨c.r, c.g, c.b, 255⟩) := by
  intro fm rest
  have n38 : numberDecode [51, 56] = some 38 := by decide
  have n48 : numberDecode [52, 56] = some 48 := by decide
  have n58 : numberDecode [53, 56] = some 58 := by decide
  have n2 : numberDecode [50] = some 2 := by decide
  have s38 : splitBy 58 [51, 56] = [[51, 56]] := by decide
  have s48 : splitBy 58 [52, 56] = [[52, 56]] := by decide
  have s58 : splitBy 58 [53, 56] = [[53, 56]] := by decide
  have er := numberDecode_showNat_small c.r (u8_small _ hr)
  have eg := numberDecode_showNat_small c.g (u8_small _ hg)
  have eb := numberDecode_showNat_small c.b (u8_small _ hb)
  cases role <;>
    simp [colorChunks, sgrFaceLoop_cons, sgrFaceStep, sgrColor, nextNum, toU8, n38, n48, n58, n2, s38, s48, s58,
      er, eg, eb, hr, hg, hb, setColor]

def updColor (role : Role) (c : Option Color) (fm : FMod) : FMod :=
  match c with | none => fm | some c => setColor role ⟨c.r, c.g, c.b, 255⟩ fm

theorem optColor_closed (c : Option Color) (role : Role)
    (h : ∀ col, c = some col → col.r ≤ 255 ∧ col.g ≤ 255 ∧ col.b ≤ 255) :
    DClosed (optChunks c .trueColor role) (updColor role c) := by
  cases c with
  | none => exact DClosed.nil
  | some col =>
    obtain ⟨hr, hg, hb⟩ := h col rfl
    exact color_closed col role hr hg hb

def orKeep {α : Type} (v : Option α) (cur : Option α) : Option α := match v with | none => cur | some x => some x

@[simp] theorem orKeep_none {α : Type} (v : Option α) : orKeep v none = v := by cases v <;> rfl

theorem tri_closed (v : Option Bool) (on off : List Nat) (set : FMod → Option Bool → FMod)
    (hon : ∀ fm rest, sgrFaceStep fm on rest = (set fm (some true), rest))
    (hoff : ∀ fm rest, sgrFaceStep fm off rest = (set fm (some false), rest))
    (hkeep : ∀ fm cur, set fm cur = set fm cur) :
    DClosed (triChunk v on off) (fun fm => match v with | none => fm | some b => set fm (some b)) := by
  rcases v with _ | _ | _
  · exact DClosed.nil
  · exact DClosed.single off _ (by intro fm rest; simp [hoff])
  · exact DClosed.single on _ (by intro fm rest; simp [hon])

theorem step_lit (fm : FMod) (g : List Nat) (rest : List (List Nat)) (n : Nat) (args : List (List Nat))
    (hs : splitBy 58 g = args) : sgrFaceStep fm g rest = sgrFaceStep fm g rest := rfl

theorem bold_on (fm : FMod) (rest : List (List Nat)) :
    sgrFaceStep fm [49] rest = ({ fm with bold := some true }, rest) := by
  have n : numberDecode [49] = some 1 := by decide
  have s : splitBy 58 [49] = [[49]] := by decide
  simp [sgrFaceStep, n, s]
theorem bold_off (fm : FMod) (rest : List (List Nat)) :
    sgrFaceStep fm [50, 50] rest = ({ fm with bold := some false }, rest) := by
  have n : numberDecode [50, 50] = some 22 := by decide
  have s : splitBy 58 [50, 50] = [[50, 50]] := by decide
  simp [sgrFaceStep, n, s]
theorem italic_on (fm : FMod) (rest : List (List Nat)) :
    sgrFaceStep fm [51] rest = ({ fm with italic := some true }, rest) := by
  have n : numberDecode [51] = some 3 := by decide
  have s : splitBy 58 [51] = [[51]] := by decide
  simp [sgrFaceStep, n, s]
theorem italic_off (fm : FMod) (rest : List (List Nat)) :
    sgrFaceStep fm [50, 51] rest = ({ fm with italic := some false }, rest) := by
  have n : numberDecode [50, 51] = some 23 := by decide
  have s : splitBy 58 [50, 51] = [[50, 51]] := by decide
  simp [sgrFaceStep, n, s]
theorem blink_on (fm : FMod) (rest : List (List Nat)) :
    sgrFaceStep fm [53] rest = ({ fm with blink := some true }, rest) := by
  have n : numberDecode [53] = some 5 := by decide
  have s : splitBy 58 [53] = [[53]] := by decide
  simp [sgrFaceStep, n, s]
theorem blink_off (fm : FMod) (rest : List (List Nat)) :
    sgrFaceStep fm [50, 53] rest = ({ fm with blink := some false }, rest) := by
  have n : numberDecode [50, 53] = some 25 := by decide
  have s : splitBy 58 [50, 53] = [[50, 53]] := by decide
  simp [sgrFaceStep, n, s]
theorem strike_on (fm : FMod) (rest : List (List Nat)) :
    sgrFaceStep fm [57] rest = ({ fm with strike := some true }, rest) := by
  have n : numberDecode [57] = some 9 := by decide
  have s : splitBy 58 [57] = [[57]] := by decide
  simp [sgrFaceStep, n, s]
theorem strike_off (fm : FMod) (rest : List (List Nat)) :
    sgrFaceStep fm [50, 57] rest = ({ fm with strike := some false }, rest) := by
  have n : numberDecode [50, 57] = some 29 := by decide
  have s : splitBy 58 [50, 57] = [[50, 57]] := by decide
  simp [sgrFaceStep, n, s]
theorem reset_step (fm : FMod) (rest : List (List Nat)) :
    sgrFaceStep fm [48] rest = ({ reset := true }, rest) := by
  have n : numberDecode [48] = some 0 := by decide
  have s : splitBy 58 [48] = [[48]] := by decide
  simp [sgrFaceStep, n, s]

/-- underline groups `24`, `4`, `4:2` … `4:5` -/
theorem underline_closed (u : Option Nat) :
    DClosed (match u with | none => [] | some 0 => [[50, 52]] | some k => underChunk k)
      (fun fm => match u with | none => fm | some k => if k ≤ 5 then { fm with underline := some k } else fm) := by
  have n24 : numberDecode [50, 52] = some 24 := by decide
  have s24 : splitBy 58 [50, 52] = [[50, 52]] := by decide
  have n4 : numberDecode [52] = some 4 := by decide
  have s4 : splitBy 58 [52] = [[52]] := by decide
  have s42 : splitBy 58 [52, 58, 50] = [[52], [50]] := by decide
  have s43 : splitBy 58 [52, 58, 51] = [[52], [51]] := by decide
  have s44 : splitBy 58 [52, 58, 52] = [[52], [52]] := by decide
  have s45 : splitBy 58 [52, 58, 53] = [[52], [53]] := by decide
  have d2 : numberDecode [50] = some 2 := by decide
  have d3 : numberDecode [51] = some 3 := by decide
  have d5 : numberDecode [53] = some 5 := by decide
  rcases u with _ | _ | _ | _ | _ | _ | _ | k
  · exact DClosed.nil
  · exact DClosed.single _ _ (by intro fm rest; simp [sgrFaceStep, n24, s24])
  · exact DClosed.single _ _ (by intro fm rest; simp [sgrFaceStep, n4, s4, nextNum])
  · exact DClosed.single _ _ (by intro fm rest; simp [sgrFaceStep, n4, s42, nextNum, d2])
  · exact DClosed.single _ _ (by intro fm rest; simp [sgrFaceStep, n4, s43, nextNum, d3])
  · exact DClosed.single _ _ (by intro fm rest; simp [sgrFaceStep, n4, s44, nextNum])
  · exact DClosed.single _ _ (by intro fm rest; simp [sgrFaceStep, n4, s45, nextNum, d5])
  · have e : ¬ (k + 1 + 1 + 1 + 1 + 1 + 1 ≤ 5) := by omega
    simp only [underChunk, e, if_false]
    exact DClosed.nil

end SurfProofs.Lemmas.Sgr
