import SurfModel.ScreenVt
import SurfProofs.C05
import SurfProofs.Lemmas.C01General
/-!
C01 ∘ C05, helper lemmas: the byte-level terminal (`SurfModel.ScreenVt`) simulates the abstract one
(`SurfModel.Screen`) on the renderer's text commands, through the encoder model and the reference
interpreter of C05.
-/
namespace SurfProofs.C01
open SurfModel.Screen SurfModel.Renderer SurfModel.ScreenVt
open SurfModel.Vt (Caps Depth Face Attr Op encode interp meaning applySgr faceMeaning printable usizeMax satSucc)

/-- the cell of the byte-level terminal `b` is what the abstract cell `s` stands for: the face
identifier is replaced by the attribute state it selects; an erased cell stands for `blankOf` -/
def CellRel (P : Params) (aof : Nat → Attr) (b : BCell) (s : SCell) : Prop :=
  match b with
  | .glyph cp a => ∃ f, s = .glyph cp f ∧ a = aof f
  | .cont => s = .cont
  | .orphan => s = .orphan
  | .erased a => ∃ f, a = aof f ∧ s = blankOf P f

theorem CellRel.cont_iff {P : Params} {aof : Nat → Attr} {b : BCell} {s : SCell} (h : CellRel P aof b s) :
    b = .cont ↔ s = .cont := by
  cases b with
  | glyph cp a => obtain ⟨f, rfl, _⟩ := h; simp
  | cont => simp [CellRel] at h; simp [h]
  | orphan => simp [CellRel] at h; simp [h]
  | erased a =>
    obtain ⟨f, _, rfl⟩ := h
    simp only [reduceCtorEq, false_iff]
    exact blankOf_ne_cont P f

/-- the byte-level terminal `b` and the abstract terminal `s` show the same -/
structure BRel (P : Params) (aof : Nat → Attr) (b : BScreen) (s : Screen) : Prop where
  grid : ∀ r c, CellRel P aof (b.grid r c) (s.grid r c)
  cur : b.cur = s.cur
  attr : b.attr = aof s.face
  place : b.place = s.place

theorem rel_clobber {P : Params} {aof : Nat → Attr} {bg : Nat → Nat → BCell} {sg : Nat → Nat → SCell}
    (h : ∀ r c, CellRel P aof (bg r c) (sg r c)) (r a b : Nat) :
    ∀ r' c', CellRel P aof (bclobber bg r a b r' c') (clobber sg r a b r' c') := by
  intro r' c'
  have ea : bg r a = .cont ↔ sg r a = .cont := (h r a).cont_iff
  have eb : bg r b = .cont ↔ sg r b = .cont := (h r b).cont_iff
  simp only [bclobber, clobber]
  by_cases hr : r' = r
  · simp only [hr, if_true]
    by_cases h1 : c' + 1 = a ∧ sg r a = .cont
    · have h1' : c' + 1 = a ∧ bg r a = .cont := ⟨h1.1, ea.2 h1.2⟩
      rw [if_pos h1, if_pos h1']; simp [CellRel]
    · have h1' : ¬ (c' + 1 = a ∧ bg r a = .cont) := fun x => h1 ⟨x.1, ea.1 x.2⟩
      rw [if_neg h1, if_neg h1']
      by_cases h2 : c' = b ∧ sg r b = .cont
      · have h2' : c' = b ∧ bg r b = .cont := ⟨h2.1, eb.2 h2.2⟩
        rw [if_pos h2, if_pos h2']; simp [CellRel]
      · have h2' : ¬ (c' = b ∧ bg r b = .cont) := fun x => h2 ⟨x.1, eb.1 x.2⟩
        rw [if_neg h2, if_neg h2']; exact h r c'
  · simp only [hr, if_false]; exact h r' c'

theorem rel_fill {P : Params} {aof : Nat → Attr} {bg : Nat → Nat → BCell} {sg : Nat → Nat → SCell}
    (h : ∀ r c, CellRel P aof (bg r c) (sg r c)) (r a b : Nat) (bv : BCell) (sv : SCell)
    (hv : CellRel P aof bv sv) :
    ∀ r' c', CellRel P aof (bfillRow bg r a b bv r' c') (fillRow sg r a b sv r' c') := by
  intro r' c'
  simp only [bfillRow, fillRow]
  split
  · exact hv
  · exact h r' c'

theorem rel_set {P : Params} {aof : Nat → Attr} {bg : Nat → Nat → BCell} {sg : Nat → Nat → SCell}
    (h : ∀ r c, CellRel P aof (bg r c) (sg r c)) (r c : Nat) (bv : BCell) (sv : SCell)
    (hv : CellRel P aof bv sv) :
    ∀ r' c', CellRel P aof (bsetCell bg r c bv r' c') (setCell sg r c sv r' c') := by
  intro r' c'
  simp only [bsetCell, setCell]
  split
  · exact hv
  · exact h r' c'

/-- what the byte-level theorems need beyond C01: the colour depth, the faces behind the identifiers
(underline styles in range), printable characters, coordinates that can be written one-based -/
structure BytesOk (P : Params) (caps : Caps) (faceOf : Nat → Face) : Prop where
  under : ∀ f, (faceOf f).under ≤ 5
  print : ∀ ch, P.width ch ≠ 0 → printable ch

/-- the attribute state behind a face identifier -/
def aofOf (caps : Caps) (faceOf : Nat → Face) : Nat → Attr := fun f => attrOf caps.depth (faceOf f)

/-- conditions on one command: coordinates inside an `H × W` terminal, characters of non-zero width -/
def TextOk (P : Params) (H W : Nat) : SurfModel.Screen.Cmd → Prop
  | .cursorTo r c => r < H ∧ c < W
  | .char ch => P.width ch ≠ 0
  | _ => True

/-- one command on the byte-level terminal: a text command by the MEANING of its bytes, an image
command abstractly -/
def stepB (P : Params) (caps : Caps) (faceOf : Nat → Face) (b : BScreen) (c : SurfModel.Screen.Cmd) : BScreen :=
  match toVt faceOf c with
  | some v => (meaning caps v).foldl (execOp P.width) b
  | none => imageOp b c

theorem toVt_valid (P : Params) (caps : Caps) (faceOf : Nat → Face) (hb : BytesOk P caps faceOf)
    (H W : Nat) (c : SurfModel.Screen.Cmd) (hc : TextOk P H W c) (v : SurfModel.Vt.Cmd) (hv : toVt faceOf c = some v) :
    SurfProofs.C05.Valid v := by
  cases c <;> simp [toVt] at hv <;> subst hv <;> simp [SurfProofs.C05.Valid]
  exact hb.print _ hc

/-- **simulation, one command**: the operations that the bytes of a text command mean (C05), executed
on the byte-level terminal, do what `Screen.exec` says the command does -/
theorem sim_cmd (P : Params) (caps : Caps) (faceOf : Nat → Face) (hb : BytesOk P caps faceOf)
    (H W : Nat) (hH : H ≤ usizeMax) (hW : W ≤ usizeMax)
    (b : BScreen) (s : Screen) (hrel : BRel P (aofOf caps faceOf) b s) (c : SurfModel.Screen.Cmd) (hc : TextOk P H W c) :
    BRel P (aofOf caps faceOf) (stepB P caps faceOf b c) (exec P s c) := by
  obtain ⟨hg, hcur, hattr, hplace⟩ := hrel
  cases c with
  | face f =>
    simp only [stepB, toVt, meaning, List.foldl_cons, List.foldl_nil, execOp, exec]
    refine ⟨hg, hcur, ?_, hplace⟩
    show (faceMeaning (faceOf f) caps.depth).foldl applySgr b.attr = aofOf caps faceOf f
    rw [SurfProofs.C05.C05_face_exact_depth caps.depth (faceOf f) (hb.under f) b.attr]
    simp only [aofOf, attrOf]
    rw [SurfProofs.C05.C05_face_exact_depth caps.depth (faceOf f) (hb.under f) Attr.default]
  | cursorTo r c =>
    simp only [stepB, toVt, meaning, List.foldl_cons, List.foldl_nil, execOp, exec]
    have hr : satSucc r - 1 = r := by
      have : r < H := hc.1
      unfold satSucc; split <;> omega
    have hc' : satSucc c - 1 = c := by
      have : c < W := hc.2
      unfold satSucc; split <;> omega
    exact ⟨hg, by simp [hr, hc'], hattr, hplace⟩
  | char ch =>
    simp only [stepB, toVt, meaning, List.foldl_cons, List.foldl_nil, execOp, exec]
    by_cases h2 : P.width ch ≥ 2
    · simp only [h2, if_true]
      refine ⟨?_, by simp [hcur], hattr, hplace⟩
      rw [hcur]
      apply rel_set _ _ _ _ _ (by simp [CellRel])
      apply rel_set (rel_clobber hg _ _ _)
      exact ⟨s.face, rfl, hattr⟩
    · simp only [h2, if_false]
      by_cases h1 : P.width ch = 1
      · simp only [h1, if_true]
        refine ⟨?_, by simp [hcur], hattr, hplace⟩
        rw [hcur]
        apply rel_set (rel_clobber hg _ _ _)
        exact ⟨s.face, rfl, hattr⟩
      · simp only [h1, if_false]
        exact ⟨hg, hcur, hattr, hplace⟩
  | erase n =>
    simp only [stepB, toVt, meaning]
    by_cases hn : n = 0
    · simp only [hn, if_true, List.foldl_nil, exec]
      exact ⟨hg, hcur, hattr, hplace⟩
    · simp only [hn, if_false, List.foldl_cons, List.foldl_nil, execOp, exec]
      have hm : max n 1 = n := by omega
      rw [hm, hcur]
      refine ⟨?_, rfl, hattr, hplace⟩
      apply rel_fill (rel_clobber hg _ _ _)
      exact ⟨s.face, hattr, rfl⟩
  | image i r c =>
    simp only [stepB, toVt, imageOp, exec]
    exact ⟨hg, hcur, hattr, by simp [hplace]⟩
  | imageErase i r c =>
    simp only [stepB, toVt, imageOp, exec]
    exact ⟨hg, hcur, hattr, by simp [hplace]⟩

theorem sim_cmds (P : Params) (caps : Caps) (faceOf : Nat → Face) (hb : BytesOk P caps faceOf)
    (H W : Nat) (hH : H ≤ usizeMax) (hW : W ≤ usizeMax) (cmds : List SurfModel.Screen.Cmd)
    (hc : ∀ c ∈ cmds, TextOk P H W c) (b : BScreen) (s : Screen) (hrel : BRel P (aofOf caps faceOf) b s) :
    BRel P (aofOf caps faceOf) (cmds.foldl (stepB P caps faceOf) b) (execAll P s cmds) := by
  induction cmds generalizing b s with
  | nil => exact hrel
  | cons c cs ih =>
    simp only [List.foldl_cons, execAll]
    exact ih (fun x hx => hc x (List.mem_cons_of_mem _ hx)) _ _
      (sim_cmd P caps faceOf hb H W hH hW b s hrel c (hc c List.mem_cons_self))

/-! ### the concatenated byte stream -/

theorem interp_cons_cmd (caps : Caps) (v : SurfModel.Vt.Cmd) (hv : SurfProofs.C05.Valid v) (bs : List Nat) :
    interp (encode caps v ++ bs) = (interp bs).map fun ops => meaning caps v ++ ops := by
  have := SurfProofs.C05.C05_self_contained caps v hv [] bs [] rfl
  simpa using this

/-- **the stream is read command by command**: parsing the concatenated bytes of consecutive text
commands (C05_self_contained / C05_stream) and executing the operations equals executing the commands'
meanings one after the other -/
theorem runChunks_chunks (P : Params) (caps : Caps) (faceOf : Nat → Face) (hb : BytesOk P caps faceOf)
    (H W : Nat) (cmds : List SurfModel.Screen.Cmd) (hc : ∀ c ∈ cmds, TextOk P H W c) (b : BScreen) :
    runChunks P.width b (chunks caps faceOf cmds) = some (cmds.foldl (stepB P caps faceOf) b) := by
  induction cmds generalizing b with
  | nil => rfl
  | cons c cs ih =>
    have ih' := ih (fun x hx => hc x (List.mem_cons_of_mem _ hx))
    simp only [List.foldl_cons]
    cases hv : toVt faceOf c with
    | none =>
      simp only [chunks, hv, runChunks, runChunk]
      rw [ih']
      simp [stepB, hv]
    | some v =>
      have hval := toVt_valid P caps faceOf hb H W c (hc c List.mem_cons_self) v hv
      have hstep : stepB P caps faceOf b c = (meaning caps v).foldl (execOp P.width) b := by simp [stepB, hv]
      simp only [chunks, hv]
      cases hch : chunks caps faceOf cs with
      | nil =>
        have e := ih' (stepB P caps faceOf b c)
        rw [hch] at e
        simp only [runChunks, runChunk, SurfProofs.C05.C05_meaning caps v hval, Option.map_some, ← hstep]
        exact e
      | cons ch rest =>
        cases ch with
        | bytes bs =>
          have e := ih' (stepB P caps faceOf b c)
          rw [hch] at e
          simp only [runChunks, runChunk, interp_cons_cmd caps v hval bs] at e ⊢
          cases hi : interp bs with
          | none => simp [hi] at e
          | some ops =>
            simp only [hi, Option.map_some, List.foldl_append, ← hstep] at e ⊢
            exact e
        | img c' =>
          have e := ih' (stepB P caps faceOf b c)
          rw [hch] at e
          simp only [runChunks, runChunk, SurfProofs.C05.C05_meaning caps v hval, Option.map_some, ← hstep]
          exact e

/-- the text bytes of a command list without image commands are ONE byte string, and it means the
concatenation of the commands' meanings (C05_stream) -/
theorem chunks_text (caps : Caps) (faceOf : Nat → Face) (cmds : List SurfModel.Screen.Cmd)
    (ht : ∀ c ∈ cmds, (toVt faceOf c).isSome) (hne : cmds ≠ []) :
    chunks caps faceOf cmds = [.bytes ((cmds.filterMap (toVt faceOf)).flatMap (encode caps))] := by
  induction cmds with
  | nil => exact absurd rfl hne
  | cons c cs ih =>
    obtain ⟨v, hv⟩ := Option.isSome_iff_exists.1 (ht c List.mem_cons_self)
    by_cases hcs : cs = []
    · subst hcs; simp [chunks, hv]
    · have := ih (fun x hx => ht x (List.mem_cons_of_mem _ hx)) hcs
      simp [chunks, hv, this]

end SurfProofs.C01
