import SurfProofs.Lemmas.ProtoBasics
import SurfProofs.Lemmas.ProtoPalette
/-! C04, SGR families: the SGR command `CSI … m` and the DECRPSS report `DCS 1 $ r … m ST`. For each: the
printed message is in the grammar of its family and the payload decoder returns the denoted event. -/
namespace SurfProofs.ProtoSgr
open SurfModel.Vt SurfModel.Sgr SurfModel.Grammar SurfModel.Payload SurfModel.Protocol SurfModel.Automata
open SurfProofs.Lemmas.Vt SurfProofs.Lemmas.Sgr SurfProofs.ReMatch SurfProofs.ProtoBasics SurfProofs.ProtoPalette

private theorem sep59 : (59 : Nat) < 48 ∨ 57 < 59 := by omega
private theorem sep58 : (58 : Nat) < 48 ∨ 57 < 58 := by omega

private theorem joinWith_mem (sep : Nat) (cs : List (List Nat)) (b : Nat) (hb : b ∈ joinWith sep cs) :
    b = sep ∨ ∃ c ∈ cs, b ∈ c := by
  induction cs with
  | nil => simp [joinWith] at hb
  | cons c rest ih =>
    cases rest with
    | nil => simp only [joinWith] at hb; exact Or.inr ⟨c, by simp, hb⟩
    | cons d rest' =>
      simp only [joinWith, List.mem_append, List.mem_cons] at hb
      rcases hb with hb | hb | hb
      · exact Or.inr ⟨c, by simp, hb⟩
      · exact Or.inl hb
      · rcases ih hb with h | ⟨x, hx, hbx⟩
        · exact Or.inl h
        · exact Or.inr ⟨x, by simp [hx], hbx⟩

/-! ## `;` groups of the printed items -/

/-- the `;`-separated groups of one printed item -/
def itemGroups : SgrItem → List (List Nat)
  | .rgb role r g b .semi => [showNat (roleCode role), [50], showNat r, showNat g, showNat b]
  | .palette role i false => [showNat (roleCode role), [53], showNat i]
  | it => [it.print]

theorem itemGroups_ne_nil (it : SgrItem) : itemGroups it ≠ [] := by
  unfold itemGroups; split <;> simp

theorem print_eq_join (it : SgrItem) : it.print = joinWith 59 (itemGroups it) := by
  unfold itemGroups
  split
  · simp [SgrItem.print, joinWith]
  · simp [SgrItem.print, joinWith]
  · simp [joinWith]

theorem joinWith_eq_joinSemi (cs : List (List Nat)) : joinWith 59 cs = joinSemi cs := by
  induction cs with
  | nil => rfl
  | cons c rest ih =>
    cases rest with
    | nil => rfl
    | cons d rest' => simp only [joinWith, joinSemi]; rw [ih]

theorem joinWith_append (sep : Nat) (a b : List (List Nat)) (ha : a ≠ []) (hb : b ≠ []) :
    joinWith sep (a ++ b) = joinWith sep a ++ sep :: joinWith sep b := by
  induction a with
  | nil => exact absurd rfl ha
  | cons c rest ih =>
    cases rest with
    | nil =>
      cases b with
      | nil => exact absurd rfl hb
      | cons d b' => simp [joinWith]
    | cons d rest' =>
      have := ih (by simp)
      simp only [List.cons_append, joinWith, List.append_assoc] at this ⊢
      rw [this]

theorem flatMap_groups_ne_nil (items : List SgrItem) (hne : items ≠ []) : items.flatMap itemGroups ≠ [] := by
  cases items with
  | nil => exact absurd rfl hne
  | cons it rest =>
    have := itemGroups_ne_nil it
    simp [this]

theorem sgrParams_eq_join (items : List SgrItem) :
    sgrParams items = joinWith 59 (items.flatMap itemGroups) := by
  unfold sgrParams
  induction items with
  | nil => rfl
  | cons it rest ih =>
    cases rest with
    | nil => simp [joinWith, print_eq_join]
    | cons it2 rest' =>
      simp only [List.map_cons, joinWith, List.flatMap_cons] at ih ⊢
      rw [joinWith_append 59 _ _ (itemGroups_ne_nil it)
        (by have := itemGroups_ne_nil it2; simp [this]), ← ih, print_eq_join]

/-- every byte of a printed item is a digit, `:` or `;` -/
theorem print_bytes (it : SgrItem) : ∀ b ∈ it.print, 48 ≤ b ∧ b ≤ 59 := by
  intro b hb
  have hd : ∀ n, b ∈ showNat n → 48 ≤ b ∧ b ≤ 59 := fun n h => by
    have := showNat_digits n b h; omega
  cases it with
  | reset => simp [SgrItem.print] at hb; omega
  | bold on => cases on <;> simp [SgrItem.print] at hb <;> omega
  | italic on => cases on <;> simp [SgrItem.print] at hb <;> omega
  | blink on => cases on <;> simp [SgrItem.print] at hb <;> omega
  | strike on => cases on <;> simp [SgrItem.print] at hb <;> omega
  | underline s =>
    rcases s with _ | _ | s
    · simp [SgrItem.print] at hb; omega
    · simp [SgrItem.print] at hb; omega
    · simp only [SgrItem.print, List.mem_append, List.mem_cons, List.not_mem_nil, or_false] at hb
      rcases hb with (hb | hb) | hb
      · omega
      · omega
      · exact hd _ hb
  | rgb role r g b' form =>
    cases form <;>
    · simp only [SgrItem.print, List.mem_append, List.mem_cons, List.not_mem_nil, or_false, or_assoc] at hb
      repeat' (rcases hb with hb | hb)
      all_goals first | omega | exact hd _ hb
  | palette role i colon =>
    cases colon <;>
    · simp only [SgrItem.print, List.mem_append, List.mem_cons, List.not_mem_nil, or_false, or_assoc] at hb
      repeat' (rcases hb with hb | hb)
      all_goals first | omega | exact hd _ hb
  | named bg i => cases bg <;> (simp only [SgrItem.print] at hb; exact hd _ hb)
  | doubleUnderline => simp [SgrItem.print] at hb; omega
  | underlineColon s =>
    simp only [SgrItem.print, List.mem_append, List.mem_cons, List.not_mem_nil, or_false] at hb
    rcases hb with (hb | hb) | hb
    · omega
    · omega
    · exact hd _ hb
  | empty => simp [SgrItem.print] at hb

/-- no group contains `;` -/
theorem groups_no59 (it : SgrItem) : ∀ g ∈ itemGroups it, 59 ∉ g := by
  intro g hg h59
  have hd : ∀ n, 59 ∉ showNat n := showNat_no59
  cases it with
  | reset => simp [itemGroups, SgrItem.print] at hg; subst hg; simp at h59
  | bold on => cases on <;> simp [itemGroups, SgrItem.print] at hg <;> subst hg <;> simp at h59
  | italic on => cases on <;> simp [itemGroups, SgrItem.print] at hg <;> subst hg <;> simp at h59
  | blink on => cases on <;> simp [itemGroups, SgrItem.print] at hg <;> subst hg <;> simp at h59
  | strike on => cases on <;> simp [itemGroups, SgrItem.print] at hg <;> subst hg <;> simp at h59
  | underline s =>
    rcases s with _ | _ | s
    · simp [itemGroups, SgrItem.print] at hg; subst hg; simp at h59
    · simp [itemGroups, SgrItem.print] at hg; subst hg; simp at h59
    · simp [itemGroups, SgrItem.print] at hg; subst hg
      simp at h59
      exact hd _ h59
  | rgb role r g' b form =>
    cases form
    · simp only [itemGroups, List.mem_cons, List.not_mem_nil, or_false] at hg
      rcases hg with rfl | rfl | rfl | rfl | rfl
      · exact hd _ h59
      · simp at h59
      · exact hd _ h59
      · exact hd _ h59
      · exact hd _ h59
    all_goals
      simp only [itemGroups, SgrItem.print, List.mem_cons, List.not_mem_nil, or_false] at hg
      subst hg
      simp only [List.mem_append, List.mem_cons, List.not_mem_nil, or_false, or_assoc] at h59
      repeat' (rcases h59 with h59 | h59)
      all_goals first | omega | exact hd _ h59
  | palette role i colon =>
    cases colon
    · simp only [itemGroups, List.mem_cons, List.not_mem_nil, or_false] at hg
      rcases hg with rfl | rfl | rfl
      · exact hd _ h59
      · simp at h59
      · exact hd _ h59
    · simp only [itemGroups, SgrItem.print, List.mem_cons, List.not_mem_nil, or_false] at hg
      subst hg
      simp only [List.mem_append, List.mem_cons, List.not_mem_nil, or_false, or_assoc] at h59
      repeat' (rcases h59 with h59 | h59)
      all_goals first | omega | exact hd _ h59
  | named bg i =>
    cases bg <;>
    · simp only [itemGroups, SgrItem.print, List.mem_cons, List.not_mem_nil, or_false] at hg
      subst hg
      exact hd _ h59
  | doubleUnderline => simp [itemGroups, SgrItem.print] at hg; subst hg; simp at h59
  | underlineColon s =>
    simp [itemGroups, SgrItem.print] at hg; subst hg
    simp at h59
    exact hd _ h59
  | empty => simp [itemGroups, SgrItem.print] at hg; subst hg; simp at h59

theorem splitBy_sgrParams (items : List SgrItem) (hne : items ≠ []) :
    splitBy 59 (sgrParams items) = items.flatMap itemGroups := by
  rw [sgrParams_eq_join, joinWith_eq_joinSemi]
  apply splitBy_joinSemi _ (flatMap_groups_ne_nil items hne)
  intro c hc
  obtain ⟨it, _, hit⟩ := List.mem_flatMap.mp hc
  exact groups_no59 it c hit

/-! ## every item is read back as its meaning -/

theorem splitBy58_showNat_colon (n : Nat) (rest : List Nat) :
    splitBy 58 (showNat n ++ 58 :: rest) = showNat n :: splitBy 58 rest :=
  splitBy_showNat_sep 58 sep58 n rest

theorem underline_item_closed (s : Nat) (hs : s ≤ 5) :
    DClosed (itemGroups (.underline s)) (fun m => SgrItem.apply m (.underline s)) := by
  have h := underline_closed (some s)
  rcases s with _ | _ | _ | _ | _ | _ | s
  all_goals first
    | omega
    | (intro fm rest
       have := h fm rest
       simpa [itemGroups, SgrItem.print, SgrItem.apply, underChunk, showNat] using this)

theorem u8_lt (n : Nat) (h : n < 256) : n ≤ usizeMax := u8_small n (by omega)

theorem rgb_semi_closed (role r g b : Nat) (hrole : role ≤ 2) (hr : r < 256) (hg : g < 256) (hb : b < 256) :
    DClosed (itemGroups (.rgb role r g b .semi)) (fun m => SgrItem.apply m (.rgb role r g b .semi)) := by
  intro fm rest
  have n38 : numberDecode [51, 56] = some 38 := by decide
  have n48 : numberDecode [52, 56] = some 48 := by decide
  have n58 : numberDecode [53, 56] = some 58 := by decide
  have n2 : numberDecode [50] = some 2 := by decide
  have s38 : splitBy 58 [51, 56] = [[51, 56]] := by decide
  have s48 : splitBy 58 [52, 56] = [[52, 56]] := by decide
  have s58 : splitBy 58 [53, 56] = [[53, 56]] := by decide
  have e38 : showNat 38 = [51, 56] := by simp [showNat]
  have e48 : showNat 48 = [52, 56] := by simp [showNat]
  have e58 : showNat 58 = [53, 56] := by simp [showNat]
  have er := numberDecode_showNat_small r (u8_lt _ hr)
  have eg := numberDecode_showNat_small g (u8_lt _ hg)
  have eb := numberDecode_showNat_small b (u8_lt _ hb)
  have hr' : r ≤ 255 := by omega
  have hg' : g ≤ 255 := by omega
  have hb' : b ≤ 255 := by omega
  rcases role with _ | _ | _ | role
  all_goals first
    | omega
    | simp [itemGroups, SurfModel.Protocol.roleCode, SgrItem.apply, sgrFaceLoop_cons, sgrFaceStep, sgrColor, nextNum, toU8,
        n38, n48, n58, n2, s38, s48, s58, e38, e48, e58, er, eg, eb, hr', hg', hb']

theorem showNat_no58 (n : Nat) : 58 ∉ showNat n := showNat_no 58 sep58 n

theorem split_colon (c : List Nat) (hc : 58 ∉ c) (r g b : Nat) :
    splitBy 58 (c ++ [58, 50, 58] ++ showNat r ++ [58] ++ showNat g ++ [58] ++ showNat b) =
      [c, [50], showNat r, showNat g, showNat b] := by
  have e : c ++ [58, 50, 58] ++ showNat r ++ [58] ++ showNat g ++ [58] ++ showNat b =
      c ++ 58 :: ([50] ++ 58 :: (showNat r ++ 58 :: (showNat g ++ 58 :: showNat b))) := by simp
  rw [e, splitBy_append_sep 58 c _ hc, splitBy_append_sep 58 [50] _ (by simp),
    splitBy_showNat_sep 58 sep58, splitBy_showNat_sep 58 sep58, splitBy_showNat 58 sep58]

theorem split_colonSpace (c : List Nat) (hc : 58 ∉ c) (r g b : Nat) :
    splitBy 58 (c ++ [58, 50, 58, 58] ++ showNat r ++ [58] ++ showNat g ++ [58] ++ showNat b) =
      [c, [50], [], showNat r, showNat g, showNat b] := by
  have e : c ++ [58, 50, 58, 58] ++ showNat r ++ [58] ++ showNat g ++ [58] ++ showNat b =
      c ++ 58 :: ([50] ++ 58 :: ([] ++ 58 :: (showNat r ++ 58 :: (showNat g ++ 58 :: showNat b)))) := by simp
  rw [e, splitBy_append_sep 58 c _ hc, splitBy_append_sep 58 [50] _ (by simp),
    splitBy_append_sep 58 [] _ (by simp),
    splitBy_showNat_sep 58 sep58, splitBy_showNat_sep 58 sep58, splitBy_showNat 58 sep58]

theorem rgb_colon_closed (role r g b : Nat) (hrole : role ≤ 2) (hr : r < 256) (hg : g < 256) (hb : b < 256) :
    DClosed (itemGroups (.rgb role r g b .colon)) (fun m => SgrItem.apply m (.rgb role r g b .colon)) := by
  have n38 : numberDecode [51, 56] = some 38 := by decide
  have n48 : numberDecode [52, 56] = some 48 := by decide
  have n58 : numberDecode [53, 56] = some 58 := by decide
  have n2 : numberDecode [50] = some 2 := by decide
  have e38 : showNat 38 = [51, 56] := by simp [showNat]
  have e48 : showNat 48 = [52, 56] := by simp [showNat]
  have e58 : showNat 58 = [53, 56] := by simp [showNat]
  have er := numberDecode_showNat_small r (u8_lt _ hr)
  have eg := numberDecode_showNat_small g (u8_lt _ hg)
  have eb := numberDecode_showNat_small b (u8_lt _ hb)
  have hr' : r ≤ 255 := by omega
  have hg' : g ≤ 255 := by omega
  have hb' : b ≤ 255 := by omega
  apply DClosed.single
  intro fm rest
  rcases role with _ | _ | _ | role
  all_goals first
    | omega
    | (simp only [SgrItem.print, SurfModel.Protocol.roleCode, e38, e48, e58, sgrFaceStep,
         split_colon [51, 56] (by decide), split_colon [52, 56] (by decide), split_colon [53, 56] (by decide)]
       simp [sgrColor, nextNum, toU8, SgrItem.apply,
         n38, n48, n58, n2, er, eg, eb, hr', hg', hb'])

theorem rgb_colonSpace_closed (role r g b : Nat) (hrole : role ≤ 2) (hr : r < 256) (hg : g < 256) (hb : b < 256) :
    DClosed (itemGroups (.rgb role r g b .colonSpace))
      (fun m => SgrItem.apply m (.rgb role r g b .colonSpace)) := by
  have n38 : numberDecode [51, 56] = some 38 := by decide
  have n48 : numberDecode [52, 56] = some 48 := by decide
  have n58 : numberDecode [53, 56] = some 58 := by decide
  have n2 : numberDecode [50] = some 2 := by decide
  have n0 : numberDecode [] = some 0 := by decide
  have e38 : showNat 38 = [51, 56] := by simp [showNat]
  have e48 : showNat 48 = [52, 56] := by simp [showNat]
  have e58 : showNat 58 = [53, 56] := by simp [showNat]
  have er := numberDecode_showNat_small r (u8_lt _ hr)
  have eg := numberDecode_showNat_small g (u8_lt _ hg)
  have eb := numberDecode_showNat_small b (u8_lt _ hb)
  have hr' : r ≤ 255 := by omega
  have hg' : g ≤ 255 := by omega
  have hb' : b ≤ 255 := by omega
  apply DClosed.single
  intro fm rest
  rcases role with _ | _ | _ | role
  all_goals first
    | omega
    | (simp only [SgrItem.print, SurfModel.Protocol.roleCode, e38, e48, e58, sgrFaceStep,
         split_colonSpace [51, 56] (by decide), split_colonSpace [52, 56] (by decide), split_colonSpace [53, 56] (by decide)]
       simp [sgrColor, nextNum, toU8, SgrItem.apply,
         n38, n48, n58, n2, n0, er, eg, eb, hr', hg', hb'])

theorem split_palette (c : List Nat) (hc : 58 ∉ c) (i : Nat) :
    splitBy 58 (c ++ [58, 53, 58] ++ showNat i) = [c, [53], showNat i] := by
  have e : c ++ [58, 53, 58] ++ showNat i = c ++ 58 :: ([53] ++ 58 :: showNat i) := by simp
  rw [e, splitBy_append_sep 58 c _ hc, splitBy_append_sep 58 [53] _ (by simp), splitBy_showNat 58 sep58]

theorem palette_closed (role i : Nat) (colon : Bool) (hrole : role ≤ 2) (hi : i < 256) :
    DClosed (itemGroups (.palette role i colon)) (fun m => SgrItem.apply m (.palette role i colon)) := by
  have n38 : numberDecode [51, 56] = some 38 := by decide
  have n48 : numberDecode [52, 56] = some 48 := by decide
  have n58 : numberDecode [53, 56] = some 58 := by decide
  have n5 : numberDecode [53] = some 5 := by decide
  have s38 : splitBy 58 [51, 56] = [[51, 56]] := by decide
  have s48 : splitBy 58 [52, 56] = [[52, 56]] := by decide
  have s58 : splitBy 58 [53, 56] = [[53, 56]] := by decide
  have e38 : showNat 38 = [51, 56] := by simp [showNat]
  have e48 : showNat 48 = [52, 56] := by simp [showNat]
  have e58 : showNat 58 = [53, 56] := by simp [showNat]
  have ei := numberDecode_showNat_small i (u8_lt _ hi)
  have ep := palette_eq i hi
  cases colon
  · intro fm rest
    rcases role with _ | _ | _ | role
    all_goals first
      | omega
      | simp [itemGroups, SurfModel.Protocol.roleCode, SgrItem.apply, setRole, sgrFaceLoop_cons, sgrFaceStep,
          sgrColor, n38, n48, n58, n5, s38, s48, s58, e38, e48, e58, ei, ep]
  · apply DClosed.single
    intro fm rest
    rcases role with _ | _ | _ | role
    all_goals first
      | omega
      | (simp only [SgrItem.print, SurfModel.Protocol.roleCode, e38, e48, e58, sgrFaceStep,
           split_palette [51, 56] (by decide), split_palette [52, 56] (by decide),
           split_palette [53, 56] (by decide)]
         simp [sgrColor, SgrItem.apply, setRole, n38, n48, n58, n5, ei, ep])

theorem named_closed (bg : Bool) (i : Nat) (hi : i < 16) :
    DClosed (itemGroups (.named bg i)) (fun m => SgrItem.apply m (.named bg i)) := by
  apply DClosed.single
  intro fm rest
  have hs : ∀ v, splitBy 58 (showNat v) = [showNat v] := splitBy_showNat 58 sep58
  have hn : ∀ v, v ≤ 255 → numberDecode (showNat v) = some v := fun v hv =>
    numberDecode_showNat_small v (u8_small v hv)
  have hc : ∀ k, k < 16 → Option.map colorOf SurfModel.Generated.colors16[k]? = some (xtermPalette k) := named_eq
  cases bg
  · rcases i with _ | _ | _ | _ | _ | _ | _ | _ | _ | _ | _ | _ | _ | _ | _ | _ | i
    all_goals first
      | omega
      | (simp only [SgrItem.print, SgrItem.apply, sgrFaceStep, hs]
         simp [hn, hc])
  · rcases i with _ | _ | _ | _ | _ | _ | _ | _ | _ | _ | _ | _ | _ | _ | _ | _ | i
    all_goals first
      | omega
      | (simp only [SgrItem.print, SgrItem.apply, sgrFaceStep, hs]
         simp [hn, hc])

theorem doubleUnderline_step (fm : FMod) (rest : List (List Nat)) :
    sgrFaceStep fm [50, 49] rest = ({ fm with underline := some 2 }, rest) := by
  have n : numberDecode [50, 49] = some 21 := by decide
  have s : splitBy 58 [50, 49] = [[50, 49]] := by decide
  simp [sgrFaceStep, n, s]

theorem empty_step (fm : FMod) (rest : List (List Nat)) :
    sgrFaceStep fm [] rest = ({ reset := true }, rest) := by
  have n : numberDecode [] = some 0 := by decide
  have s : splitBy 58 [] = [[]] := by decide
  simp [sgrFaceStep, n, s]

theorem underlineColon_closed (s : Nat) (hs : s ≤ 5) :
    DClosed (itemGroups (.underlineColon s)) (fun m => SgrItem.apply m (.underlineColon s)) := by
  have n4 : numberDecode [52] = some 4 := by decide
  have s0 : splitBy 58 [52, 58, 48] = [[52], [48]] := by decide
  have s1 : splitBy 58 [52, 58, 49] = [[52], [49]] := by decide
  have s2 : splitBy 58 [52, 58, 50] = [[52], [50]] := by decide
  have s3 : splitBy 58 [52, 58, 51] = [[52], [51]] := by decide
  have s4 : splitBy 58 [52, 58, 52] = [[52], [52]] := by decide
  have s5 : splitBy 58 [52, 58, 53] = [[52], [53]] := by decide
  have d0 : numberDecode [48] = some 0 := by decide
  have d1 : numberDecode [49] = some 1 := by decide
  have d2 : numberDecode [50] = some 2 := by decide
  have d3 : numberDecode [51] = some 3 := by decide
  have d5 : numberDecode [53] = some 5 := by decide
  apply DClosed.single
  intro fm rest
  rcases s with _ | _ | _ | _ | _ | _ | s
  all_goals first
    | omega
    | simp [SgrItem.print, SgrItem.apply, showNat, sgrFaceStep, nextNum, n4, s0, s1, s2, s3, s4, s5,
        d0, d1, d2, d3, d5]

/-- the groups of a valid item are consumed together and change the record as the item says -/
theorem item_closed (it : SgrItem) (h : it.Valid) :
    DClosed (itemGroups it) (fun m => SgrItem.apply m it) := by
  cases it with
  | reset => exact DClosed.single _ _ (fun fm rest => by simpa [SgrItem.print, SgrItem.apply] using reset_step fm rest)
  | bold on =>
    cases on
    · exact DClosed.single _ _ (fun fm rest => by simpa [SgrItem.print, SgrItem.apply] using bold_off fm rest)
    · exact DClosed.single _ _ (fun fm rest => by simpa [SgrItem.print, SgrItem.apply] using bold_on fm rest)
  | italic on =>
    cases on
    · exact DClosed.single _ _ (fun fm rest => by simpa [SgrItem.print, SgrItem.apply] using italic_off fm rest)
    · exact DClosed.single _ _ (fun fm rest => by simpa [SgrItem.print, SgrItem.apply] using italic_on fm rest)
  | blink on =>
    cases on
    · exact DClosed.single _ _ (fun fm rest => by simpa [SgrItem.print, SgrItem.apply] using blink_off fm rest)
    · exact DClosed.single _ _ (fun fm rest => by simpa [SgrItem.print, SgrItem.apply] using blink_on fm rest)
  | strike on =>
    cases on
    · exact DClosed.single _ _ (fun fm rest => by simpa [SgrItem.print, SgrItem.apply] using strike_off fm rest)
    · exact DClosed.single _ _ (fun fm rest => by simpa [SgrItem.print, SgrItem.apply] using strike_on fm rest)
  | underline s => exact underline_item_closed s h
  | rgb role r g b form =>
    obtain ⟨h0, h1, h2, h3⟩ := h
    cases form
    · exact rgb_semi_closed role r g b h0 h1 h2 h3
    · exact rgb_colon_closed role r g b h0 h1 h2 h3
    · exact rgb_colonSpace_closed role r g b h0 h1 h2 h3
  | palette role i colon => exact palette_closed role i colon h.1 h.2
  | named bg i => exact named_closed bg i h
  | doubleUnderline =>
    exact DClosed.single _ _ (fun fm rest => by
      simpa [SgrItem.print, SgrItem.apply] using doubleUnderline_step fm rest)
  | underlineColon s => exact underlineColon_closed s h
  | empty =>
    exact DClosed.single _ _ (fun fm rest => by simpa [SgrItem.print, SgrItem.apply] using empty_step fm rest)

/-- the loop over the groups of valid items computes the fold of their meanings -/
theorem items_closed (items : List SgrItem) (h : ∀ it ∈ items, it.Valid) :
    DClosed (items.flatMap itemGroups) (fun m => items.foldl SgrItem.apply m) := by
  induction items with
  | nil => exact DClosed.nil
  | cons it rest ih =>
    have h1 := item_closed it (h it (by simp))
    have h2 := ih (fun x hx => h x (by simp [hx]))
    have := DClosed.append h1 h2
    simpa [List.flatMap_cons, Function.comp_def] using this

theorem sgrFace_sgrParams (items : List SgrItem) (hne : items ≠ []) (h : ∀ it ∈ items, it.Valid) :
    sgrFace (sgrParams items) = sgrMeaning items := by
  unfold sgrFace sgrMeaning
  rw [splitBy_sgrParams items hne]
  exact (items_closed items h).eval {}

/-! ## SGR command -/

theorem sgr_print (items : List SgrItem) : print (.sgr items) = [27, 91] ++ (sgrParams items ++ [109]) := by
  simp [print, CSI]

theorem sgr_payload (items : List SgrItem) (h : (Msg.sgr items).Valid) :
    decode .sgr (print (.sgr items)) = .ok (some (denote (.sgr items))) := by
  obtain ⟨hne, hv⟩ := h
  have hs : slice? (print (.sgr items)) 2 ((print (.sgr items)).length - 1) = .ok (sgrParams items) := by
    rw [sgr_print]
    exact slice?_frame _ _ _ _ _ rfl (by simp; omega)
  simp only [decode]
  unfold decodeSgr decodeSgrBody
  rw [sub?_ok _ _ (by rw [sgr_print]; simp)]
  simp only [hs, sgrFace_sgrParams items hne hv, denote]

/-- `([0-9:]* ;?)+` matches every string of digits, `:` and `;` -/
theorem sgrBlocks_matches (p l : List Nat) (hp : ∀ b ∈ p, 48 ≤ b ∧ b ≤ 58) (hl : ∀ b ∈ l, 48 ≤ b ∧ b ≤ 59) :
    (Re.plus (.seq [.star (.pred [(48, 58)]), .opt (lit [59])])).Matches (bytes (p ++ l)) := by
  have hstar : ∀ q : List Nat, (∀ b ∈ q, 48 ≤ b ∧ b ≤ 58) → (Re.star (.pred [(48, 58)])).Matches (bytes q) := by
    intro q hq
    apply star_pred_matches
    intro b hb
    have := hq b hb
    exact ⟨by omega, (48, 58), by simp, by simpa using this⟩
  induction l generalizing p with
  | nil =>
    have e : bytes (p ++ []) = bytes p ++ ([] ++ []) := by simp
    rw [e]
    exact Re.Matches.plusOne (seq_cons_matches (hstar p hp) (seq_cons_matches Re.Matches.optNone seq_nil_matches))
  | cons b l ih =>
    have hb := hl b (by simp)
    have hl' : ∀ x ∈ l, 48 ≤ x ∧ x ≤ 59 := fun x hx => hl x (by simp [hx])
    by_cases h59 : b = 59
    · subst h59
      have e : bytes (p ++ 59 :: l) = (bytes p ++ (bytes [59] ++ [])) ++ bytes ([] ++ l) := by simp [bytes]
      rw [e]
      exact Re.Matches.plusMore
        (seq_cons_matches (hstar p hp) (seq_cons_matches (Re.Matches.optSome (lit_matches _)) seq_nil_matches))
        (ih [] (by simp) hl')
    · have e : p ++ b :: l = (p ++ [b]) ++ l := by simp
      rw [e]
      apply ih _ _ hl'
      intro x hx
      rw [List.mem_append] at hx
      rcases hx with hx | hx
      · exact hp x hx
      · simp at hx; subst hx; omega

theorem sgrParams_bytes (items : List SgrItem) : ∀ b ∈ sgrParams items, 48 ≤ b ∧ b ≤ 59 := by
  intro b hb
  rcases joinWith_mem 59 _ b hb with h | ⟨c, hc, hbc⟩
  · omega
  · obtain ⟨it, _, rfl⟩ := List.mem_map.mp hc
    exact print_bytes it b hbc

set_option linter.unusedVariables false in
theorem sgr_member (items : List SgrItem) (h : (Msg.sgr items).Valid) :
    sgrRe.Matches (bytes (print (.sgr items))) := by
  have : bytes (print (.sgr items)) =
      bytes [27, 91] ++ (bytes ([] ++ sgrParams items) ++ (bytes [109] ++ [])) := by
    rw [sgr_print]; simp [bytes]
  rw [this]
  exact seq_cons_matches (lit_matches _) (seq_cons_matches (sgrBlocks_matches [] _ (by simp) (sgrParams_bytes items))
    (seq_cons_matches (lit_matches _) seq_nil_matches))

/-! ## DECRPSS report of the rendition -/

/-- a record of changes applied to the default face gives the SGR reading of the record -/
theorem apply_default (m : FMod) : SurfModel.Sgr.apply m {} = faceOf m := by
  obtain ⟨reset, fg, bg, underline, underlineColor, bold, italic, blink, strike⟩ := m
  cases reset <;> cases fg <;> cases bg <;> cases bold <;> cases italic <;> cases blink <;> cases strike <;>
    rcases underline with _ | _ | k <;> simp [SurfModel.Sgr.apply, faceOf, setFlag]

theorem sgrFace_nil : sgrFace [] = { reset := true } := by
  have n : numberDecode [] = some 0 := by decide
  have s : splitBy 58 [] = [[]] := by decide
  have s' : splitBy 59 [] = [[]] := by decide
  simp [sgrFace, s', sgrFaceLoop_cons, sgrFaceLoop_nil, sgrFaceStep, n, s]

/-- the face the report decoder reads from the parameters of valid items -/
theorem reportFace (items : List SgrItem) (h : ∀ it ∈ items, it.Valid) :
    SurfModel.Sgr.apply (sgrFace (sgrParams items)) {} = faceOf (sgrMeaning items) := by
  cases items with
  | nil =>
    have : sgrParams [] = [] := rfl
    rw [this, sgrFace_nil]
    decide
  | cons it rest => rw [sgrFace_sgrParams _ (by simp) h, apply_default]

theorem faceReport_print (items : List SgrItem) :
    print (.faceReport items) = [27, 80, 49, 36, 114] ++ ((sgrParams items ++ [109]) ++ [27, 92]) := by
  simp [print, SurfModel.Protocol.ST]

theorem faceReport_payload (items : List SgrItem) (h : (Msg.faceReport items).Valid) :
    decode .reportSetting (print (.faceReport items)) = .ok (some (denote (.faceReport items))) := by
  have hs : slice? (print (.faceReport items)) 5 ((print (.faceReport items)).length - 2) =
      .ok (sgrParams items ++ [109]) := by
    rw [faceReport_print]
    exact slice?_frame _ _ _ _ _ rfl (by simp; omega)
  have hi : index? (print (.faceReport items)) 2 = .ok 49 := by
    have : print (.faceReport items) = [27, 80] ++ 49 :: ([36, 114] ++ sgrParams items ++ [109] ++ SurfModel.Protocol.ST) := by
      simp [print]
    rw [this]
    exact index?_frame _ _ _ _ rfl
  simp only [decode]
  unfold decodeReportSetting
  rw [hi]
  simp only
  rw [sub?_ok _ _ (by rw [faceReport_print]; simp)]
  simp only [hs]
  simp [reportFace items h, denote]

set_option linter.unusedVariables false in
theorem faceReport_member (items : List SgrItem) (h : (Msg.faceReport items).Valid) :
    reportSettingRe.Matches (bytes (print (.faceReport items))) := by
  have : bytes (print (.faceReport items)) =
      bytes [27, 80] ++ (bytes [49] ++ (bytes [36, 114] ++ (bytes (sgrParams items ++ [109]) ++
        (bytes [27, 92] ++ [])))) := by
    rw [faceReport_print]; simp [bytes]
  rw [this]
  refine seq_cons_matches (lit_matches _) (seq_cons_matches ?_ (seq_cons_matches (lit_matches _)
    (seq_cons_matches ?_ (seq_cons_matches (lit_matches _) seq_nil_matches))))
  · exact Re.Matches.alt (e := lit [49]) (by simp) (lit_matches _)
  · apply star_pred_matches
    intro b hb
    have hr : 48 ≤ b ∧ b ≤ 109 := by
      rw [List.mem_append] at hb
      rcases hb with hb | hb
      · have := sgrParams_bytes items b hb; omega
      · simp at hb; omega
    exact ⟨by omega, (28, 255), by simp, by
      show (28 : UInt8).toNat ≤ b ∧ b ≤ (255 : UInt8).toNat
      simp; omega⟩

end SurfProofs.ProtoSgr
