import SurfModel.TextLayout
import SurfProofs.Lemmas.TextLayout
import SurfProofs.Lemmas.TextWriter
/-!
Lemmas for `C09_text_complete_partial`: a run of `put_cell` calls whose layout positions all lie inside the window
stores every placed cell at the offset of its position; glyph fallback and the short-circuiting `all`.
-/
namespace SurfProofs.Lemmas.TextRender
open SurfModel.Shape SurfModel.TextLayout SurfProofs.Lemmas.TextLayout SurfProofs.Lemmas.TextWriter

set_option linter.unusedSimpArgs false

/-- `put_cell` (after the fallback branch) for every cell in turn, all of them reporting `true` -/
def putAllTrue (w : Writer) : List Cell → Option Writer
  | [] => some w
  | c :: cs =>
    match putPlain w c with
    | some (w', true) => putAllTrue w' cs
    | _ => none

theorem putAllTrue_append (w : Writer) (l1 l2 : List Cell) :
    putAllTrue w (l1 ++ l2) = (putAllTrue w l1).bind fun w' => putAllTrue w' l2 := by
  induction l1 generalizing w with
  | nil => simp [putAllTrue]
  | cons c cs ih =>
    simp only [List.cons_append, putAllTrue]
    cases putPlain w c with
    | none => rfl
    | some r =>
      obtain ⟨w', b⟩ := r
      cases b with
      | false => rfl
      | true => exact ih w'

theorem putPlain_ctx (w : Writer) (cell : Cell) (w' : Writer) (b : Bool) (h : putPlain w cell = some (w', b)) :
    w'.ctx = w.ctx := by
  unfold putPlain at h
  simp only at h
  split at h
  · split at h <;> (simp only [Option.some.injEq, Prod.mk.injEq] at h; rw [← h.1])
  · split at h
    · split at h
      · cases h
      · simp only [Option.some.injEq, Prod.mk.injEq] at h; rw [← h.1]
    · simp only [Option.some.injEq, Prod.mk.injEq] at h; rw [← h.1]

theorem putAllTrue_ctx (w : Writer) (cells : List Cell) (w' : Writer) (h : putAllTrue w cells = some w') :
    w'.ctx = w.ctx := by
  induction cells generalizing w with
  | nil => simp [putAllTrue] at h; rw [h]
  | cons c cs ih =>
    simp only [putAllTrue] at h
    split at h
    · rename_i w1 hp
      rw [ih w1 h, putPlain_ctx w c w1 true hp]
    · cases h

theorem putFallback_of_allTrue (w : Writer) (face : Face) (fb : List Nat) (w' : Writer)
    (h : putAllTrue w (fb.map fun c => ⟨face, .chr c⟩) = some w') : putFallback w face fb = some (w', true) := by
  induction fb generalizing w with
  | nil => simp [putAllTrue] at h; simp [putFallback, h]
  | cons c cs ih =>
    simp only [List.map_cons, putAllTrue] at h
    split at h
    · rename_i w1 hp
      simp only [putFallback, hp]
      exact ih w1 h
    · cases h

/-- the cell by cell loop of `Text::render`, given that the expanded stream goes through -/
theorem putCells_of_allTrue (w : Writer) (cells : List Cell) (w' : Writer)
    (h : putAllTrue w (cells.flatMap (expandCell w.ctx)) = some w') : putCells w cells = some w' := by
  induction cells generalizing w with
  | nil => simp [putAllTrue] at h; simp [putCells, h]
  | cons c cs ih =>
    simp only [List.flatMap_cons, putAllTrue_append] at h
    cases h1 : putAllTrue w (expandCell w.ctx c) with
    | none => rw [h1] at h; cases h
    | some w1 =>
      rw [h1] at h
      simp only [Option.bind_some] at h
      have hctx := putAllTrue_ctx w _ w1 h1
      rw [← hctx] at h
      have hput : ∃ b, putCell w c = some (w1, b) := by
        unfold putCell
        unfold expandCell at h1
        cases hk : c.kind with
        | chr ch =>
          simp only [hk, putAllTrue] at h1 ⊢
          split at h1
          · rename_i w2 hp; cases h1; exact ⟨true, hp⟩
          · cases h1
        | image ph pw =>
          simp only [hk, putAllTrue] at h1 ⊢
          split at h1
          · rename_i w2 hp; cases h1; exact ⟨true, hp⟩
          · cases h1
        | glyph gh gw fb =>
          simp only [hk] at h1 ⊢
          by_cases hg : w.ctx.hasGlyphs = true
          · simp only [hg, if_true, putAllTrue] at h1 ⊢
            split at h1
            · rename_i w2 hp; cases h1; exact ⟨true, hp⟩
            · cases h1
          · simp only [hg, if_false] at h1 ⊢
            exact ⟨true, putFallback_of_allTrue w c.face fb w1 h1⟩
      obtain ⟨b, hb⟩ := hput
      simp only [putCells, hb]
      exact ih w1 h

/-! ### what the surface holds afterwards -/

/-- kind found at offset `i` after storing the `placed` cells in order (the last store wins) -/
def foldK (sh : Shape) (i : Nat) (placed : List ((Nat × Nat) × Kind)) (acc : Option Kind) : Option Kind :=
  placed.foldl (fun a q => if sh.offset q.1.1 q.1.2 = i then some q.2 else a) acc

/-- the cells that got a position, with it -/
def placedOf (poss : List (Option (Nat × Nat))) (ks : List Kind) : List ((Nat × Nat) × Kind) :=
  (poss.zip ks).filterMap fun x => x.1.map fun p => (p, x.2)

theorem putAllTrue_run (w : Writer) (cells : List Cell) (hok : ShOk w.shape w.data.length)
    (hin : ∀ p ∈ (layoutRun w.ctx w.shape.width w.wraps (cells.map (·.kind)) w.st).2.filterMap id,
      p.1 < w.shape.height ∧ p.2 < w.shape.width) :
    ∃ w', putAllTrue w cells = some w' ∧
      w'.st = (layoutRun w.ctx w.shape.width w.wraps (cells.map (·.kind)) w.st).1 ∧ w'.shape = w.shape ∧
      w'.data.length = w.data.length ∧
      ∀ i : Nat, (w'.data[i]?).map Cell.kind =
        foldK w.shape i (placedOf (layoutRun w.ctx w.shape.width w.wraps (cells.map (·.kind)) w.st).2 (cells.map (·.kind)))
          ((w.data[i]?).map Cell.kind) := by
  induction cells generalizing w with
  | nil => exact ⟨w, rfl, rfl, rfl, rfl, fun i => rfl⟩
  | cons c cs ih =>
    obtain ⟨w1, b, t, hp, he, hst, hm⟩ := putPlain_ok w c hok
    simp only [List.map_cons, layoutRun] at hin ⊢
    have hok1 : ShOk w1.shape w1.data.length := ShOk_of_ext he hok
    have hrew : layoutRun w1.ctx w1.shape.width w1.wraps (cs.map (·.kind)) w1.st
        = layoutRun w.ctx w.shape.width w.wraps (cs.map (·.kind)) (cellLayout w.ctx w.shape.width w.wraps c.kind w.st).1 := by
      rw [he.ctx, he.shape, he.wraps, hst]
    cases hpos : (cellLayout w.ctx w.shape.width w.wraps c.kind w.st).2 with
    | none =>
      rw [hpos] at hm hin
      simp only at hm
      obtain ⟨rfl, hk⟩ := hm
      simp only [List.filterMap_cons, id] at hin
      obtain ⟨w', h1, h2, h3, h4, h5⟩ := ih w1 hok1 (by rw [hrew, he.shape]; exact hin)
      refine ⟨w', by simp only [putAllTrue, hp]; exact h1, by rw [h2, hrew], h3.trans he.shape, h4.trans he.data.len, ?_⟩
      intro i
      rw [h5 i, hrew, he.shape, hk i]
      simp [placedOf, List.zip_cons_cons, List.filterMap_cons]
    | some p =>
      obtain ⟨r, cc⟩ := p
      rw [hpos] at hm hin
      simp only [List.filterMap_cons, id, List.mem_cons] at hin
      have hwin := hin (r, cc) (Or.inl rfl)
      simp only at hwin hm
      simp only [hwin, and_self, if_true] at hm
      obtain ⟨rfl, rfl, hk⟩ := hm
      obtain ⟨w', h1, h2, h3, h4, h5⟩ := ih w1 hok1 (by rw [hrew, he.shape]; exact fun q hq => hin q (Or.inr hq))
      refine ⟨w', by simp only [putAllTrue, hp]; exact h1, by rw [h2, hrew], h3.trans he.shape, h4.trans he.data.len, ?_⟩
      intro i
      rw [h5 i, hrew, he.shape]
      simp only [placedOf, List.zip_cons_cons, List.filterMap_cons, Option.map_some, foldK, List.foldl_cons]
      congr 1
      by_cases hi : w.shape.offset r cc = i
      · subst hi
        simp [hk]
      · simp only [hi, if_false]
        rw [he.data.frame i (by simp; exact Ne.symm hi)]

theorem foldK_none (sh : Shape) (i : Nat) (placed : List ((Nat × Nat) × Kind)) (acc : Option Kind)
    (h : ∀ q ∈ placed, sh.offset q.1.1 q.1.2 ≠ i) : foldK sh i placed acc = acc := by
  induction placed generalizing acc with
  | nil => rfl
  | cons q rest ih =>
    simp only [foldK, List.foldl_cons, h q List.mem_cons_self, if_false]
    exact ih acc (fun q' hq' => h q' (List.mem_cons_of_mem _ hq'))

theorem foldK_last (sh : Shape) (i : Nat) (l1 l2 : List ((Nat × Nat) × Kind)) (p : Nat × Nat) (k : Kind)
    (acc : Option Kind) (hp : sh.offset p.1 p.2 = i) (h2 : ∀ q ∈ l2, sh.offset q.1.1 q.1.2 ≠ i) :
    foldK sh i (l1 ++ (p, k) :: l2) acc = some k := by
  simp only [foldK, List.foldl_append, List.foldl_cons, hp, if_true]
  exact foldK_none sh i l2 (some k) h2

theorem placedOf_fst (poss : List (Option (Nat × Nat))) (ks : List Kind) (h : poss.length = ks.length) :
    (placedOf poss ks).map (·.1) = poss.filterMap id := by
  induction poss generalizing ks with
  | nil => simp [placedOf]
  | cons p ps ih =>
    cases ks with
    | nil => simp at h
    | cons k ks =>
      simp only [List.length_cons, Nat.add_right_cancel_iff] at h
      have := ih ks h
      simp only [placedOf] at this
      cases p with
      | none => simp [placedOf, List.zip_cons_cons, List.filterMap_cons, this]
      | some q => simp [placedOf, List.zip_cons_cons, List.filterMap_cons, this]

/-- the kinds that got a position are the sized ones, in order -/
theorem placedOf_snd (poss : List (Option (Nat × Nat))) (ks : List Kind) (f : Kind → Bool)
    (h : poss.map Option.isSome = ks.map f) : (placedOf poss ks).map (·.2) = ks.filter f := by
  induction poss generalizing ks with
  | nil => cases ks with
    | nil => simp [placedOf]
    | cons k ks => simp at h
  | cons p ps ih =>
    cases ks with
    | nil => simp at h
    | cons k ks =>
      simp only [List.map_cons, List.cons.injEq] at h
      have := ih ks h.2
      simp only [placedOf] at this
      cases p with
      | none =>
        have hf : f k = false := by simpa using h.1.symm
        simp [placedOf, List.zip_cons_cons, List.filterMap_cons, this, List.filter_cons, hf]
      | some q =>
        have hf : f k = true := by simpa using h.1.symm
        simp [placedOf, List.zip_cons_cons, List.filterMap_cons, this, List.filter_cons, hf]

/-- the kinds that got a position, by the mask "got a position" -/
theorem placedOf_snd_mask (poss : List (Option (Nat × Nat))) (ks : List Kind) (h : poss.length = ks.length) :
    (placedOf poss ks).map (·.2) =
      (ks.zip (poss.map Option.isSome)).filterMap fun x => if x.2 then some x.1 else none := by
  induction poss generalizing ks with
  | nil => cases ks with
    | nil => simp [placedOf]
    | cons k ks => simp at h
  | cons p ps ih =>
    cases ks with
    | nil => simp at h
    | cons k ks =>
      simp only [List.length_cons, Nat.add_right_cancel_iff] at h
      have := ih ks h
      simp only [placedOf] at this
      cases p with
      | none => simp [placedOf, List.zip_cons_cons, List.filterMap_cons, this]
      | some q => simp [placedOf, List.zip_cons_cons, List.filterMap_cons, this]

theorem mask_filter (ks : List Kind) (f : Kind → Bool) :
    ((ks.zip (ks.map f)).filterMap fun x => if x.2 then some x.1 else none) = ks.filter f := by
  induction ks with
  | nil => rfl
  | cons k ks ih =>
    simp only [List.map_cons, List.zip_cons_cons, List.filterMap_cons, List.filter_cons]
    cases hf : f k <;> simp [ih]

end SurfProofs.Lemmas.TextRender
