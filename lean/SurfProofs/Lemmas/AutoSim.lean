import SurfModel.Tokenizer
import SurfModel.Automata
import SurfProofs.Lemmas.NFALang
/-!
Bisimulation of two automata seen through the `DFA` API (`SurfModel.Tokenizer.Auto`), with an executable
checker: a finite relation `rel` between the states of `A` and of `B` that contains the pair of start states
and is closed under every byte (both sides step or both are stuck, flags agree) relates everything reachable.
The relation itself is found by a product exploration (`explore`) that needs no proof — the checker judges
whatever it is given.  Used to tie a small hand-written automaton to the subset automaton compiled from the
Lean grammar (kernel evaluation, `decide +kernel`).
-/
namespace SurfProofs.AutoSim
open SurfModel.Tokenizer SurfModel.Automata

variable {σ τ : Type}

/-- `R` relates start states, is closed under every byte, and related states carry the same flags -/
structure Bisim (A : Auto σ) (B : Auto τ) (R : σ → τ → Prop) : Prop where
  start : R A.start B.start
  acc : ∀ s S, R s S → A.accepting s = B.accepting S
  term : ∀ s S, R s S → A.terminal s = B.terminal S
  step : ∀ s S b, R s S →
    match A.step s b, B.step S b with
    | some t, some T => R t T
    | none, none => True
    | _, _ => False

/-- δ* on related states: both runs die or both survive in related states -/
theorem Bisim.run {A : Auto σ} {B : Auto τ} {R : σ → τ → Prop} (h : Bisim A B R) (w : List UInt8) (s : σ) (S : τ)
    (hr : R s S) :
    match runA A s w, runA B S w with
    | some t, some T => R t T
    | none, none => True
    | _, _ => False := by
  induction w generalizing s S with
  | nil => simpa [runA] using hr
  | cons b r ih =>
    simp only [runA]
    have hs := h.step s S b hr
    cases ha : A.step s b with
    | none =>
      cases hb : B.step S b with
      | none => simp
      | some T => rw [ha, hb] at hs; exact hs.elim
    | some t =>
      cases hb : B.step S b with
      | none => rw [ha, hb] at hs; exact hs.elim
      | some T =>
        rw [ha, hb] at hs
        simpa using ih t T hs

/-- a run of `A` from its start state is mirrored by `B` -/
theorem Bisim.run_some {A : Auto σ} {B : Auto τ} {R : σ → τ → Prop} (h : Bisim A B R) (w : List UInt8) (t : σ)
    (ht : runA A A.start w = some t) : ∃ T, runA B B.start w = some T ∧ R t T := by
  have := h.run w A.start B.start h.start
  rw [ht] at this
  cases hb : runA B B.start w with
  | none => rw [hb] at this; exact this.elim
  | some T => rw [hb] at this; exact ⟨T, rfl, this⟩

/-! ## executable check -/

section check
variable [DecidableEq σ] [DecidableEq τ]

/-- one pair of the relation: flags agree, and for every byte both sides are stuck or step into the relation -/
def pairOk (A : Auto σ) (B : Auto τ) (rel : List (σ × τ)) (p : σ × τ) : Bool :=
  (A.accepting p.1 == B.accepting p.2) && (A.terminal p.1 == B.terminal p.2) &&
  NFA.allBytes.all fun b =>
    match A.step p.1 b, B.step p.2 b with
    | some t, some T => rel.contains (t, T)
    | none, none => true
    | _, _ => false

def bisimCheck (A : Auto σ) (B : Auto τ) (rel : List (σ × τ)) : Bool :=
  rel.contains (A.start, B.start) && rel.all (pairOk A B rel)

theorem bisimCheck_sound (A : Auto σ) (B : Auto τ) (rel : List (σ × τ)) (h : bisimCheck A B rel = true) :
    Bisim A B (fun s S => (s, S) ∈ rel) := by
  simp only [bisimCheck, Bool.and_eq_true, List.contains_iff_mem, List.all_eq_true] at h
  obtain ⟨h0, hall⟩ := h
  have key : ∀ s S, (s, S) ∈ rel → pairOk A B rel (s, S) = true := fun s S hm => hall _ hm
  refine ⟨h0, ?_, ?_, ?_⟩
  · intro s S hm
    have := key s S hm
    simp only [pairOk, Bool.and_eq_true, beq_iff_eq] at this
    exact this.1.1
  · intro s S hm
    have := key s S hm
    simp only [pairOk, Bool.and_eq_true, beq_iff_eq] at this
    exact this.1.2
  · intro s S b hm
    have := key s S hm
    simp only [pairOk, Bool.and_eq_true, List.all_eq_true] at this
    have hb := this.2 b (SurfProofs.NFALang.mem_allBytes b)
    cases ha : A.step s b with
    | none =>
      cases hB : B.step S b with
      | none => trivial
      | some T => simp [ha, hB] at hb
    | some t =>
      cases hB : B.step S b with
      | none => simp [ha, hB] at hb
      | some T => simpa [ha, hB] using hb

/-- pairs reachable in one step from `p` -/
def succs (A : Auto σ) (B : Auto τ) (p : σ × τ) : List (σ × τ) :=
  NFA.allBytes.filterMap fun b =>
    match A.step p.1 b, B.step p.2 b with
    | some t, some T => some (t, T)
    | _, _ => none

/-- work-list exploration of the product from the pair of start states (a candidate relation only:
    `bisimCheck` judges it) -/
def exploreAux (A : Auto σ) (B : Auto τ) : Nat → List (σ × τ) → List (σ × τ) → List (σ × τ)
  | 0, _, vis => vis
  | _ + 1, [], vis => vis
  | fuel + 1, p :: work, vis =>
    let fresh := (succs A B p).foldl (fun acc q => if vis.contains q || acc.contains q then acc else acc ++ [q]) []
    exploreAux A B fuel (work ++ fresh) (vis ++ fresh)

def explore (A : Auto σ) (B : Auto τ) (fuel : Nat) : List (σ × τ) :=
  exploreAux A B fuel [(A.start, B.start)] [(A.start, B.start)]

end check

end SurfProofs.AutoSim
