import SurfProofs.Lemmas.Sgr
/-!
Lemmas for C06_apply_sgr: the decoder (`sgrFace` then `apply`) and the reference SGR machine
(`params?`, `sgrSem`, `applySgr`) agree item by item on well-formed parameter strings.
-/
namespace SurfProofs.Lemmas.SgrSem
open SurfModel.Vt SurfModel.Sgr SurfProofs.Lemmas.Vt SurfProofs.Lemmas.Sgr

/-- what the cell writer shows of a face after the record `fm` has been applied to `f` -/
def view (fm : FMod) (f : DFace) : Attr := attrOfDFace (apply fm f)

/-- one well-formed item of an SGR parameter string, seen from both sides -/
structure ItemSpec where
  /-- the `;`-separated groups (bytes) -/
  chunks : List (List Nat)
  /-- their numeric reading -/
  params : List (List (Option Nat))
  /-- reference meaning -/
  ops : List SgrOp
  /-- effect on the decoder's record -/
  upd : FMod → FMod

structure ItemOk (s : ItemSpec) : Prop where
  good : Good s.chunks
  ne : s.chunks ≠ []
  par : s.chunks.mapM chunkP = some s.params
  closed : Closed s.params s.ops
  dclosed : DClosed s.chunks s.upd
  hom : ∀ fm a f, normAttr a = view fm f → normAttr (s.ops.foldl applySgr a) = view (s.upd fm) f

/-! ### generic composition over a list of items -/

theorem flat_good (l : List ItemSpec) (h : ∀ s ∈ l, ItemOk s) : Good (l.flatMap (·.chunks)) := by
  induction l with
  | nil => exact Good.nil
  | cons s l ih =>
    simp only [List.flatMap_cons]
    exact Good.append (h s (by simp)).good (ih (fun x hx => h x (by simp [hx])))

theorem flat_par (l : List ItemSpec) (h : ∀ s ∈ l, ItemOk s) :
    (l.flatMap (·.chunks)).mapM chunkP = some (l.flatMap (·.params)) := by
  induction l with
  | nil => rfl
  | cons s l ih =>
    simp only [List.flatMap_cons]
    exact mapM_append_some _ _ _ _ _ (h s (by simp)).par (ih (fun x hx => h x (by simp [hx])))

theorem flat_closed (l : List ItemSpec) (h : ∀ s ∈ l, ItemOk s) :
    Closed (l.flatMap (·.params)) (l.flatMap (·.ops)) := by
  induction l with
  | nil => exact Closed.nil
  | cons s l ih =>
    simp only [List.flatMap_cons]
    exact Closed.append (h s (by simp)).closed (ih (fun x hx => h x (by simp [hx])))

theorem flat_dclosed (l : List ItemSpec) (h : ∀ s ∈ l, ItemOk s) :
    DClosed (l.flatMap (·.chunks)) (fun fm => l.foldl (fun fm s => s.upd fm) fm) := by
  induction l with
  | nil => exact DClosed.nil
  | cons s l ih =>
    simp only [List.flatMap_cons, List.foldl_cons]
    have := DClosed.append (h s (by simp)).dclosed (ih (fun x hx => h x (by simp [hx])))
    exact this

theorem flat_hom (l : List ItemSpec) (h : ∀ s ∈ l, ItemOk s) (fm : FMod) (a : Attr) (f : DFace)
    (hr : normAttr a = view fm f) :
    normAttr ((l.flatMap (·.ops)).foldl applySgr a) = view (l.foldl (fun fm s => s.upd fm) fm) f := by
  induction l generalizing fm a with
  | nil => simpa using hr
  | cons s l ih =>
    simp only [List.flatMap_cons, List.foldl_append, List.foldl_cons]
    exact ih (fun x hx => h x (by simp [hx])) _ _ ((h s (by simp)).hom fm a f hr)

theorem view_init (f : DFace) : normAttr (attrOfDFace f) = view {} f := by
  obtain ⟨fg, bg, under, bold, italic, blink, reverse, strike⟩ := f
  cases fg <;> cases bg <;> simp [view, apply, attrOfDFace, normAttr, resolveColor, setFlag]

/-- the whole string: joined chunks of well-formed items -/
theorem items_agree (l : List ItemSpec) (h : ∀ s ∈ l, ItemOk s) (hne : l ≠ []) (f : DFace) :
    refApply (joinSemi (l.flatMap (·.chunks))) f =
      some (view (sgrFace (joinSemi (l.flatMap (·.chunks)))) f) := by
  have hg := flat_good l h
  have hcne : l.flatMap (·.chunks) ≠ [] := by
    cases l with
    | nil => exact absurd rfl hne
    | cons s l =>
      simp only [List.flatMap_cons]
      intro e
      have := (h s (by simp)).ne
      cases hc : s.chunks with
      | nil => exact this hc
      | cons c cs => rw [hc] at e; simp at e
  unfold refApply sgrFace
  rw [params?_joinSemi _ hcne hg.no59, flat_par l h, splitBy_joinSemi _ hcne hg.no59,
    (flat_dclosed l h).eval]
  simp only [Option.map_some, (flat_closed l h).sem]
  congr 1
  exact flat_hom l h {} (attrOfDFace f) f (view_init f)

end SurfProofs.Lemmas.SgrSem
