import SurfModel.KittyB64
import SurfProofs.Lemmas.KittyB64
import SurfProofs.C14
/-!
# C11's local RFC 4648 pieces are C14's specification

`SurfModel.KittyB64` (the base64 step of the kitty reference interpreter: `rfcEncode` written with sextet
arithmetic on bytes, strict decoder `rfcDecode`) against `SurfModel.Base64.rfcEncode` (C14's specification:
24-bit groups as numbers, alphabet by character ranges) and the tables compiled into the crate:

* `encTab_eq_encodeTable` : the alphabet literal of `KittyB64` = `BASE64_ENCODE` of the crate
                            (through `C14_tables`: the regenerated table is the RFC alphabet);
* `rfcEncode_eq`          : the two encoders agree on every input;
* `rfcDecode_iff`         : the strict decoder is exactly the inverse of C14's `rfcEncode`:
                            `rfcDecode t = some d ↔ t = rfcEncode d` (so it accepts canonical RFC 4648 text only);
* `rfcDecode_stream`      : whatever the strict decoder accepts, the crate's `Base64Decoder` model reads as the
                            same bytes followed by end of input — under any reader schedule (`C14_decode_all`).
-/
namespace SurfProofs.Lemmas.KittyB64Link
open SurfModel.KittyB64 SurfProofs.Lemmas.KittyB64

/-! ## alphabet -/

theorem encTab_eq_rfcAlphabet : encTab = SurfModel.Base64.rfcAlphabet := by decide

/-- the alphabet written in `SurfModel/KittyB64.lean` is the table compiled into the crate -/
theorem encTab_eq_encodeTable : encTab = SurfModel.Generated.Base64Tables.encodeTable := by
  rw [SurfProofs.C14.C14_tables.1]; exact encTab_eq_rfcAlphabet

theorem enc6_eq_rfcChar (i : Nat) : enc6 i = SurfModel.Base64.rfcChar i := by
  unfold enc6 SurfModel.Base64.rfcChar; rw [encTab_eq_rfcAlphabet]

theorem pad_eq : pad = SurfModel.Base64.pad := rfl

/-! ## encoder -/

/-- C11's `rfcEncode` (sextets by byte arithmetic) and C14's (24-bit group as one number) are the same function -/
theorem rfcEncode_eq : ∀ d : List UInt8, rfcEncode d = SurfModel.Base64.rfcEncode d
  | [] => rfl
  | [a] => by
    simp only [rfcEncode, SurfModel.Base64.rfcEncode, enc6_eq_rfcChar, pad]
    have e1 : a.toNat * 16 / 64 = a.toNat / 4 := by omega
    have e2 : a.toNat * 16 % 64 = a.toNat % 4 * 16 := by omega
    rw [e1, e2]
  | [a, b] => by
    have hb := toNat_lt b
    simp only [rfcEncode, SurfModel.Base64.rfcEncode, enc6_eq_rfcChar, pad]
    have e1 : (a.toNat * 256 + b.toNat) * 4 / 4096 = a.toNat / 4 := by omega
    have e2 : (a.toNat * 256 + b.toNat) * 4 / 64 % 64 = a.toNat % 4 * 16 + b.toNat / 16 := by omega
    have e3 : (a.toNat * 256 + b.toNat) * 4 % 64 = b.toNat % 16 * 4 := by omega
    rw [e1, e2, e3]
  | a :: b :: c :: rest => by
    have hb := toNat_lt b; have hc := toNat_lt c
    simp only [rfcEncode, SurfModel.Base64.rfcEncode, enc6_eq_rfcChar, rfcEncode_eq rest]
    have e1 : (a.toNat * 65536 + b.toNat * 256 + c.toNat) / 262144 = a.toNat / 4 := by omega
    have e2 : (a.toNat * 65536 + b.toNat * 256 + c.toNat) / 4096 % 64 = a.toNat % 4 * 16 + b.toNat / 16 := by omega
    have e3 : (a.toNat * 65536 + b.toNat * 256 + c.toNat) / 64 % 64 = b.toNat % 16 * 4 + c.toNat / 64 := by omega
    have e4 : (a.toNat * 65536 + b.toNat * 256 + c.toNat) % 64 = c.toNat % 64 := by omega
    rw [e1, e2, e3, e4]

/-! ## strict decoder -/

/-- `dec6` inverts `enc6` from the other side as well: it accepts alphabet characters only -/
theorem enc6_dec6_fin : ∀ c : Fin 256, ∀ s : Fin 64, dec6 (UInt8.ofNat c.val) = some s.val → enc6 s.val = UInt8.ofNat c.val := by
  decide +kernel

theorem dec6_lt_fin : ∀ c : Fin 256, (dec6 (UInt8.ofNat c.val)).getD 0 < 64 := by
  decide +kernel

theorem dec6_lt {c : UInt8} {s : Nat} (h : dec6 c = some s) : s < 64 := by
  have := dec6_lt_fin ⟨c.toNat, toNat_lt c⟩
  simpa only [ofNat_toNat, h, Option.getD_some] using this

theorem enc6_dec6 {c : UInt8} {s : Nat} (h : dec6 c = some s) : enc6 s = c := by
  have hs := dec6_lt h
  have := enc6_dec6_fin ⟨c.toNat, toNat_lt c⟩ ⟨s, hs⟩
  simp only [ofNat_toNat] at this
  exact this h

theorem dec6_pad : dec6 pad = none := by decide

theorem toNat_ofNat_lt {n : Nat} (h : n < 256) : (UInt8.ofNat n).toNat = n := by
  simp [Nat.mod_eq_of_lt h]

/-- a full group accepted by the decoder is the encoding of its three bytes -/
theorem decGroup_inv {x0 x1 x2 x3 : UInt8} {g : List UInt8} (h : decGroup x0 x1 x2 x3 = some g) :
    ∃ a b c, g = [a, b, c] ∧ ∀ rest, rfcEncode (a :: b :: c :: rest) = x0 :: x1 :: x2 :: x3 :: rfcEncode rest := by
  unfold decGroup at h
  split at h
  · rename_i s0 s1 s2 s3 h0 h1 h2 h3
    have l0 := dec6_lt h0; have l1 := dec6_lt h1; have l2 := dec6_lt h2; have l3 := dec6_lt h3
    simp only [Option.some.injEq] at h
    refine ⟨_, _, _, h.symm, fun rest => ?_⟩
    simp only [rfcEncode]
    rw [toNat_ofNat_lt (by omega), toNat_ofNat_lt (by omega), toNat_ofNat_lt (by omega)]
    have e0 : (s0 * 4 + s1 / 16) / 4 = s0 := by omega
    have e1 : (s0 * 4 + s1 / 16) % 4 * 16 + (s1 % 16 * 16 + s2 / 4) / 16 = s1 := by omega
    have e2 : (s1 % 16 * 16 + s2 / 4) % 16 * 4 + (s2 % 4 * 64 + s3) / 64 = s2 := by omega
    have e3 : (s2 % 4 * 64 + s3) % 64 = s3 := by omega
    rw [e0, e1, e2, e3, enc6_dec6 h0, enc6_dec6 h1, enc6_dec6 h2, enc6_dec6 h3]
  · exact absurd h (by simp)

/-- the last group accepted by the decoder is the encoding of its one, two or three bytes -/
theorem decLast_inv {x0 x1 x2 x3 : UInt8} {g : List UInt8} (h : decLast x0 x1 x2 x3 = some g) :
    rfcEncode g = [x0, x1, x2, x3] := by
  unfold decLast at h
  split at h
  · rename_i hp
    obtain ⟨hp2, hp3⟩ := hp
    split at h
    · rename_i s0 s1 h0 h1
      have l0 := dec6_lt h0; have l1 := dec6_lt h1
      split at h
      · rename_i hz
        simp only [Option.some.injEq] at h
        subst h
        simp only [rfcEncode]
        rw [toNat_ofNat_lt (by omega)]
        have e0 : (s0 * 4 + s1 / 16) / 4 = s0 := by omega
        have e1 : (s0 * 4 + s1 / 16) % 4 * 16 = s1 := by omega
        rw [e0, e1, enc6_dec6 h0, enc6_dec6 h1, hp2, hp3]
      · exact absurd h (by simp)
    · exact absurd h (by simp)
  · split at h
    · rename_i hp3
      split at h
      · rename_i s0 s1 s2 h0 h1 h2
        have l0 := dec6_lt h0; have l1 := dec6_lt h1; have l2 := dec6_lt h2
        split at h
        · rename_i hz
          simp only [Option.some.injEq] at h
          subst h
          simp only [rfcEncode]
          rw [toNat_ofNat_lt (by omega), toNat_ofNat_lt (by omega)]
          have e0 : (s0 * 4 + s1 / 16) / 4 = s0 := by omega
          have e1 : (s0 * 4 + s1 / 16) % 4 * 16 + (s1 % 16 * 16 + s2 / 4) / 16 = s1 := by omega
          have e2 : (s1 % 16 * 16 + s2 / 4) % 16 * 4 = s2 := by omega
          rw [e0, e1, e2, enc6_dec6 h0, enc6_dec6 h1, enc6_dec6 h2, hp3]
        · exact absurd h (by simp)
      · exact absurd h (by simp)
    · obtain ⟨a, b, c, hg, he⟩ := decGroup_inv h
      subst hg
      simpa [rfcEncode] using he []

/-- everything the strict decoder accepts is the (canonical) RFC 4648 text of what it returns -/
theorem rfcDecode_inv : ∀ (t d : List UInt8), rfcDecode t = some d → t = rfcEncode d
  | [], d, h => by
    simp only [rfcDecode, Option.some.injEq] at h; subst h; rfl
  | [x0, x1, x2, x3], d, h => by
    simp only [rfcDecode] at h
    exact (decLast_inv h).symm
  | x0 :: x1 :: x2 :: x3 :: y :: rest, d, h => by
    simp only [rfcDecode] at h
    split at h
    · rename_i g r hg hr
      simp only [Option.some.injEq] at h
      subst h
      obtain ⟨a, b, c, hgl, he⟩ := decGroup_inv hg
      subst hgl
      have ih := rfcDecode_inv (y :: rest) r hr
      simp only [List.cons_append, List.nil_append]
      rw [he r, ← ih]
    · exact absurd h (by simp)
  | [_], _, h => by simp [rfcDecode] at h
  | [_, _], _, h => by simp [rfcDecode] at h
  | [_, _, _], _, h => by simp [rfcDecode] at h

/-- **the strict decoder of the reference interpreter is the inverse of C14's specification** -/
theorem rfcDecode_iff (t d : List UInt8) : rfcDecode t = some d ↔ t = SurfModel.Base64.rfcEncode d := by
  rw [← rfcEncode_eq]
  exact ⟨rfcDecode_inv t d, fun h => by rw [h]; exact rfcDecode_encode d⟩

/-- round trip against C14's specification -/
theorem rfcDecode_rfcEncode (d : List UInt8) : rfcDecode (SurfModel.Base64.rfcEncode d) = some d :=
  (rfcDecode_iff _ d).mpr rfl

/-- whatever text the interpreter's strict decoder accepts as `d`, the model of the crate's streaming
`Base64Decoder` reads as exactly `d` and then end of input — for every schedule of the underlying reader and
every (sufficient) sequence of destination buffer sizes -/
theorem rfcDecode_stream {t d : List UInt8} (h : rfcDecode t = some d) (sched : List Nat) (tail : Nat)
    (pre post : List Nat) (s : Nat) (hs : 0 < s) (hpre : d.length ≤ pre.sum) :
    SurfModel.Base64.readAll (SurfModel.Base64.Dec.new ⟨t, sched, tail⟩) (pre ++ s :: post) = .eof d := by
  rw [(rfcDecode_iff t d).mp h]
  exact SurfProofs.C14.C14_decode_all d sched tail pre post s hs hpre

end SurfProofs.Lemmas.KittyB64Link
