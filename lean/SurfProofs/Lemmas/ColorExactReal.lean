import Mathlib.Analysis.SpecialFunctions.Pow.Real
import SurfProofs.Lemmas.ColorExact
/-! Non-vacuity of the exact sRGB palette: over ℝ every sRGB byte has its exact linear-light value. -/
namespace SurfProofs.Lemmas.ColorExact

theorem exists_srgbLinear (c : Nat) : ∃ x : ℝ, IsSrgbLinear c x := by
  unfold IsSrgbLinear
  split_ifs with h
  · exact ⟨_, rfl⟩
  · refine ⟨((((c : ℝ) / 255 + 55 / 1000) / (1055 / 1000)) ^ 12) ^ ((5 : ℕ) : ℝ)⁻¹, ?_⟩
    exact Real.rpow_inv_natCast_pow (by positivity) (by norm_num)

/-- the exact linear-light value of byte `c` (`srgb_to_linear (c / 255)`) as a real number -/
noncomputable def srgbLinear (c : Nat) : ℝ := Classical.choose (exists_srgbLinear c)

theorem srgbLinear_spec (c : Nat) : IsSrgbLinear c (srgbLinear c) := Classical.choose_spec (exists_srgbLinear c)

end SurfProofs.Lemmas.ColorExact
