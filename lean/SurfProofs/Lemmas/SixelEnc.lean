import SurfProofs.Lemmas.SixelInterp
/-!
# C12 helper lemmas, part 3: facts about what the encoder emits (codes, items, tokens)
-/
namespace SurfProofs.Lemmas.SixelEnc
open SurfModel.Sixel SurfProofs.Lemmas.SixelLine SurfProofs.Lemmas.SixelInterp

/-! ## sixel codes -/

def code6 (p0 p1 p2 p3 p4 p5 : Bool) : Nat :=
  (if p0 then 1 else 0) + ((if p1 then 2 else 0) + ((if p2 then 4 else 0) + ((if p3 then 8 else 0)
    + ((if p4 then 16 else 0) + ((if p5 then 32 else 0) + 0)))))

theorem code6_testBit : ∀ p0 p1 p2 p3 p4 p5 : Bool, ∀ i : Fin 6,
    (code6 p0 p1 p2 p3 p4 p5).testBit i.val = [p0, p1, p2, p3, p4, p5][i.val]! := by decide

theorem code6_le : ∀ p0 p1 p2 p3 p4 p5 : Bool, code6 p0 p1 p2 p3 p4 p5 ≤ 63 := by decide

theorem codeOf_six (c a0 a1 a2 a3 a4 a5 : Nat) :
    codeOf c [a0, a1, a2, a3, a4, a5]
      = code6 (decide (a0 = c)) (decide (a1 = c)) (decide (a2 = c)) (decide (a3 = c)) (decide (a4 = c)) (decide (a5 = c)) := by
  simp [codeOf, codeFrom, code6]

theorem sixelAt_eq (q : QImg) (b x : Nat) :
    sixelAt q b x = [q.get (6 * b + 0) x, q.get (6 * b + 1) x, q.get (6 * b + 2) x, q.get (6 * b + 3) x,
      q.get (6 * b + 4) x, q.get (6 * b + 5) x] := by
  simp [sixelAt, List.range, List.range.loop]

theorem codeOf_sixelAt_le (q : QImg) (b x c : Nat) : codeOf c (sixelAt q b x) ≤ 63 := by
  rw [sixelAt_eq, codeOf_six]; exact code6_le _ _ _ _ _ _

/-- bit `i` of colour `c`'s code in column `x` is set exactly when pixel `(x, 6b + i)` has colour `c` -/
theorem codeOf_sixelAt_testBit (q : QImg) (b x c i : Nat) (hi : i < 6) :
    (codeOf c (sixelAt q b x)).testBit i = decide (q.get (6 * b + i) x = c) := by
  rw [sixelAt_eq, codeOf_six, code6_testBit _ _ _ _ _ _ ⟨i, hi⟩]
  have : i = 0 ∨ i = 1 ∨ i = 2 ∨ i = 3 ∨ i = 4 ∨ i = 5 := by omega
  rcases this with h | h | h | h | h | h <;> subst h <;> simp

theorem mem_sixelAt (q : QImg) (b x c : Nat) :
    c ∈ sixelAt q b x ↔ ∃ i, i < 6 ∧ q.get (6 * b + i) x = c := by
  simp only [sixelAt, List.mem_map, List.mem_range]

/-! ## the items of one colour -/

theorem mem_lineItems (q : QImg) (b c x code : Nat) :
    (x, code) ∈ lineItems q b c ↔ x < q.w ∧ c ∈ sixelAt q b x ∧ code = codeOf c (sixelAt q b x) + 63 := by
  simp only [lineItems, List.mem_filterMap, List.mem_range]
  constructor
  · rintro ⟨col, hcol, h⟩
    split at h
    · simp at h; obtain ⟨h1, h2⟩ := h; subst h1; exact ⟨hcol, by assumption, h2.symm⟩
    · simp at h
  · rintro ⟨hx, hc, hcode⟩
    exact ⟨x, hx, by simp [hc, hcode]⟩

theorem asc_mono {s s' : Nat} (h : s ≤ s') : ∀ {l : List (Nat × Nat)}, Asc s' l → Asc s l
  | [], _ => trivial
  | (col, _) :: _, ⟨h1, h2⟩ => ⟨by omega, h2⟩

theorem asc_filterMap (f : Nat → Option (Nat × Nat)) (hf : ∀ col it, f col = some it → it.1 = col) :
    ∀ (n s : Nat), Asc s ((List.range' s n).filterMap f) := by
  intro n
  induction n with
  | zero => intro s; simp [Asc]
  | succ n ih =>
    intro s
    simp only [List.range'_succ, List.filterMap_cons]
    split
    · exact asc_mono (by omega) (ih (s + 1))
    · rename_i it hit
      obtain ⟨col, code⟩ := it
      have := hf s _ hit
      simp only at this
      subst this
      exact ⟨by omega, ih _⟩

theorem lineItems_asc (q : QImg) (b c : Nat) : Asc 0 (lineItems q b c) := by
  unfold lineItems
  rw [List.range_eq_range']
  apply asc_filterMap
  intro col it h
  by_cases hc : c ∈ sixelAt q b col
  · simp [hc] at h; rw [← h]
  · simp [hc] at h

/-! ## tokens of a line are well formed -/

theorem tokOk_emit (n code : Nat) (hc : 63 ≤ code ∧ code ≤ 126) : ∀ t ∈ emit n code, TokOk t := by
  intro t ht
  unfold emit at ht
  split at ht
  · simp at ht; subst ht; exact ⟨by omega, hc⟩
  · simp at ht; obtain ⟨_, h⟩ := ht; subst h; exact hc

theorem mem_dropRun (col code : Nat) : ∀ (l : List (Nat × Nat)) (it : Nat × Nat), it ∈ dropRun col code l → it ∈ l := by
  intro l
  induction l generalizing col with
  | nil => intro it h; simp [dropRun] at h
  | cons p r ih =>
    intro it h
    obtain ⟨c, k⟩ := p
    simp only [dropRun] at h
    split at h
    · exact List.mem_cons_of_mem _ (ih _ it h)
    · exact h

theorem tokOk_encodeLine (offset : Nat) (items : List (Nat × Nat))
    (h : ∀ it ∈ items, 63 ≤ it.2 ∧ it.2 ≤ 126) : ∀ t ∈ encodeLine offset items, TokOk t := by
  fun_induction encodeLine offset items with
  | case1 => intro t ht; simp at ht
  | case2 offset col code rest reps ih =>
    intro t ht
    simp only [List.mem_append] at ht
    have hc := h (col, code) (by simp)
    rcases ht with (ht | ht) | ht
    · exact tokOk_emit _ _ (by omega) t ht
    · exact tokOk_emit _ _ hc t ht
    · exact ih (fun it hit => h it (List.mem_cons_of_mem _ (mem_dropRun _ _ _ it hit))) t ht

theorem lineItems_codes (q : QImg) (b c : Nat) : ∀ it ∈ lineItems q b c, 63 ≤ it.2 ∧ it.2 ≤ 126 := by
  rintro ⟨x, code⟩ h
  rw [mem_lineItems] at h
  have := codeOf_sixelAt_le q b x c
  simp only; omega

end SurfProofs.Lemmas.SixelEnc
