import SurfModel.KeyMap
/-!
# C18 — the specification side: a last-writer-wins, prefix-free dictionary of chords

Nothing here mentions the trie.  A dictionary is a plain list of (chord, value) pairs; registering a chord
removes every chord that is a prefix or an extension of it (in particular the chord itself) and adds the pair.
-/
namespace SurfProofs.C18

/-- a dictionary of chords: (chord, value) pairs -/
abbrev Dict (V : Type) := List (List Nat × V)

/-- one chord is a prefix of the other (equal chords included) -/
def related (a b : List Nat) : Bool := a.isPrefixOf b || b.isPrefixOf a

/-- registration in the specification: the empty chord registers nothing; otherwise every prefix-related chord
    is dropped and the new pair is bound -/
def bind {V : Type} (c : List Nat) (v : V) (d : Dict V) : Dict V :=
  if c = [] then d else (c, v) :: d.filter (fun e => !related c e.1)

/-- replay a history of registrations on a dictionary -/
def bindAll {V : Type} (d : Dict V) (h : List (List Nat × V)) : Dict V :=
  h.foldl (fun d cv => bind cv.1 cv.2 d) d

/-- the answer of a dictionary to a (non-empty) chord: its value if it is bound, "more keys" if it is a proper
    prefix of a bound chord, failure otherwise -/
def answer {V : Type} (d : Dict V) (q : List Nat) : SurfModel.KeyMap.Res V :=
  match d.find? (fun e => e.1 == q) with
  | some e => .success e.2
  | none => if d.any (fun e => q.isPrefixOf e.1) then .continue_ else .failure

/-- reading of "bound and not superseded" directly on the history: `q ↦ w` was registered at some point and no
    later registration was of a chord that is a prefix or an extension of `q` (or `q` itself) -/
def Live {V : Type} (h : List (List Nat × V)) (q : List Nat) (w : V) : Prop :=
  ∃ h1 h2, h = h1 ++ (q, w) :: h2 ∧ q ≠ [] ∧ ∀ e ∈ h2, e.1 = [] ∨ related e.1 q = false

/-- no chord of the dictionary is a prefix of another one -/
def PrefixFree {V : Type} (d : Dict V) : Prop := d.Pairwise (fun x y => related x.1 y.1 = false)

/-- `q` is a proper prefix of `c` -/
def ProperPrefix (q c : List Nat) : Prop := q <+: c ∧ q ≠ c

/-- the order of Rust slices (`Ord for [Key]`): lexicographic, a proper prefix first -/
def chordLt : List Nat → List Nat → Prop
  | [], [] => False
  | [], _ :: _ => True
  | _ :: _, [] => False
  | a :: as, b :: bs => a < b ∨ (a = b ∧ chordLt as bs)

/-- a key that begins no bound chord -/
def Unbound {V : Type} (d : Dict V) (u : Nat) : Prop := ∀ c w, (c, w) ∈ d → c.head? ≠ some u

/-- what a user types: a bound chord, or one key that begins no bound chord -/
inductive Seg where
  | chord (c : List Nat)
  | junk (u : Nat)

def Seg.keys : Seg → List Nat
  | .chord c => c
  | .junk u => [u]

/-- the segment is legitimate for the dictionary -/
def Seg.Ok {V : Type} (d : Dict V) : Seg → Prop
  | .chord c => ∃ v, (c, v) ∈ d
  | .junk u => Unbound d u

/-- what the matcher has to answer key by key: nothing, except the chord's value at its last key -/
def Seg.expect {V : Type} (d : Dict V) : Seg → List (Option V) → Prop
  | .chord c, outs => ∃ v, (c, v) ∈ d ∧ outs = List.replicate (c.length - 1) none ++ [some v]
  | .junk _, outs => outs = [none]

/-- soundness of fires on an arbitrary key stream: `p` = the keys pending since the last fire or reset; whenever
    a value fires, a chord bound to it is a suffix of the pending keys including the current one, and the pending
    keys start afresh -/
def FiresSound {V : Type} (d : Dict V) : List Nat → List Nat → List (Option V) → Prop
  | _, [], outs => outs = []
  | _, _ :: _, [] => False
  | p, k :: ks, none :: outs => FiresSound d (p ++ [k]) ks outs
  | p, k :: ks, some v :: outs => (∃ c, (c, v) ∈ d ∧ c <:+ p ++ [k]) ∧ FiresSound d [] ks outs

/-- the answers to a whole stream of segments, segment by segment -/
def expectAll {V : Type} (d : Dict V) : List Seg → List (Option V) → Prop
  | [], outs => outs = []
  | s :: rest, outs => ∃ o1 o2, outs = o1 ++ o2 ∧ s.expect d o1 ∧ expectAll d rest o2

end SurfProofs.C18

namespace SurfProofs.C18
open SurfModel.KeyMap

/-- the answer a list of bindings imposes on a chord `q`, on top of an earlier answer `old`: bound → its value;
    proper prefix of a bound chord → more keys needed; extension of a bound chord → failure; unrelated to all of
    them → the earlier answer stands -/
def overlay {V : Type} (l : Dict V) (old : Res V) (q : List Nat) : Res V :=
  match l.find? (fun e => e.1 == q) with
  | some e => .success e.2
  | none =>
    if l.any (fun e => q.isPrefixOf e.1) then .continue_
    else if l.any (fun e => e.1.isPrefixOf q) then .failure
    else old

end SurfProofs.C18

/-! ## line protocol of the specification (`c18 spec <op> …`)

The same scripts as `c18 km`, restricted to what the specification speaks about, run on two dictionaries:
`ra=<chord>=<v>` / `rb=…` (`bind`, answer `r`), `o` (`bindAll` of the other dictionary), `c` (empty dictionary),
`e` / `eb` (the dictionary, sorted by the wire text of the chords for comparison), `l=<chord>` (`answer`).  The harness sends what the
implementation answered as the expected answers of an *oracle* line. -/
namespace SurfProofs.C18
open SurfModel.KeyMap

/-- enumeration in a canonical order that does not depend on any ordering of keys: by the wire text of the chord -/
def insertSorted (e : String × Nat) : List (String × Nat) → List (String × Nat)
  | [] => [e]
  | x :: r => if e.1 < x.1 then e :: x :: r else x :: insertSorted e r

def showSortedDict (st : St) (d : Dict Nat) : String :=
  let l := (d.map fun e => (st.showChord e.1, e.2)).foldr insertSorted []
  ";".intercalate (l.map fun e => s!"{e.1}={e.2}")

structure SpecSt where
  st : St := {}
  da : Dict Nat := []
  db : Dict Nat := []

def specStep (s : SpecSt) (op : String) : SpecSt × String :=
  match op.splitOn "=" with
  | ["ra", c, v] =>
    match readChord c, v.toNat? with
    | some c, some v => let (st, c) := s.st.intern c; ({ s with st := st, da := bind c v s.da }, "r")
    | _, _ => (s, "bad-op")
  | ["rb", c, v] =>
    match readChord c, v.toNat? with
    | some c, some v => let (st, c) := s.st.intern c; ({ s with st := st, db := bind c v s.db }, "r")
    | _, _ => (s, "bad-op")
  | ["l", c] =>
    match readChord c with
    | some c => let (st, c) := s.st.intern c; ({ s with st := st }, showRes (answer s.da c))
    | none => (s, "bad-op")
  | ["e"] => (s, s!"[{showSortedDict s.st s.da}]")
  | ["eb"] => (s, s!"[{showSortedDict s.st s.db}]")
  | ["o"] => ({ s with da := bindAll s.da s.db }, "o")
  | ["c"] => ({ s with da := [] }, "c")
  | _ => (s, "bad-op")

def specRun : SpecSt → List String → List String → List String
  | _, [], acc => acc.reverse
  | s, op :: ops, acc => let r := specStep s op; specRun r.1 ops (r.2 :: acc)

def specHandle (ops : List String) : String := " ".intercalate (specRun {} ops [])

end SurfProofs.C18
