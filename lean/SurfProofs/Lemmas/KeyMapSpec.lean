import SurfModel.KeyMap
/-!
# C18 — the specification side: a last-writer-wins, prefix-free dictionary of chords

Nothing here mentions the trie.  A dictionary is a plain list of (chord, value) pairs; registering a chord
removes every chord that is a prefix or an extension of it (in particular the chord itself) and adds the pair.
-/
namespace SurfProofs.C18

/-- a dictionary of chords: (chord, value) pairs -/
abbrev Dict (V : Type) := List (List Nat × V)

/-- one chord is a prefix of the other (equal chords included) -/
def related (a b : List Nat) : Bool := a.isPrefixOf b || b.isPrefixOf a

/-- registration in the specification: the empty chord registers nothing; otherwise every prefix-related chord
    is dropped and the new pair is bound -/
def bind {V : Type} (c : List Nat) (v : V) (d : Dict V) : Dict V :=
  if c = [] then d else (c, v) :: d.filter (fun e => !related c e.1)

/-- replay a history of registrations on a dictionary -/
def bindAll {V : Type} (d : Dict V) (h : List (List Nat × V)) : Dict V :=
  h.foldl (fun d cv => bind cv.1 cv.2 d) d

/-- reading of "bound and not superseded" directly on the history: `q ↦ w` was registered at some point and no
    later registration was of a chord that is a prefix or an extension of `q` (or `q` itself) -/
def Live {V : Type} (h : List (List Nat × V)) (q : List Nat) (w : V) : Prop :=
  ∃ h1 h2, h = h1 ++ (q, w) :: h2 ∧ q ≠ [] ∧ ∀ e ∈ h2, e.1 = [] ∨ related e.1 q = false

/-- no chord of the dictionary is a prefix of another one -/
def PrefixFree {V : Type} (d : Dict V) : Prop := d.Pairwise (fun x y => related x.1 y.1 = false)

/-- `q` is a proper prefix of `c` -/
def ProperPrefix (q c : List Nat) : Prop := q <+: c ∧ q ≠ c

/-- the order of Rust slices (`Ord for [Key]`): lexicographic, a proper prefix first -/
def chordLt : List Nat → List Nat → Prop
  | [], [] => False
  | [], _ :: _ => True
  | _ :: _, [] => False
  | a :: as, b :: bs => a < b ∨ (a = b ∧ chordLt as bs)

/-- a key that begins no bound chord -/
def Unbound {V : Type} (d : Dict V) (u : Nat) : Prop := ∀ c w, (c, w) ∈ d → c.head? ≠ some u

/-- what a user types: a bound chord, or one key that begins no bound chord -/
inductive Seg where
  | chord (c : List Nat)
  | junk (u : Nat)

def Seg.keys : Seg → List Nat
  | .chord c => c
  | .junk u => [u]

/-- the segment is legitimate for the dictionary -/
def Seg.Ok {V : Type} (d : Dict V) : Seg → Prop
  | .chord c => ∃ v, (c, v) ∈ d
  | .junk u => Unbound d u

/-- what the matcher has to answer key by key: nothing, except the chord's value at its last key -/
def Seg.expect {V : Type} (d : Dict V) : Seg → List (Option V) → Prop
  | .chord c, outs => ∃ v, (c, v) ∈ d ∧ outs = List.replicate (c.length - 1) none ++ [some v]
  | .junk _, outs => outs = [none]

/-- the answers to a whole stream of segments, segment by segment -/
def expectAll {V : Type} (d : Dict V) : List Seg → List (Option V) → Prop
  | [], outs => outs = []
  | s :: rest, outs => ∃ o1 o2, outs = o1 ++ o2 ∧ s.expect d o1 ∧ expectAll d rest o2

end SurfProofs.C18
