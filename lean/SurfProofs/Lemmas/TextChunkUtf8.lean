import SurfProofs.Lemmas.TextChunk
import SurfProofs.Lemmas.Utf8Decoder
import SurfProofs.Lemmas.AutoSim
import SurfProofs.Lemmas.Utf8AutoBisim
/-!
Lemmas for `C09_chunking_writer_utf8` / `C09_chunking_text_utf8`: over an automaton whose live words have at
most four bytes (`Short`, proved for the UTF-8 automaton in C02) the `write` loop of `TerminalWriter` /
`Utf8CellWriter` never faults — the decoder's four byte buffer is not overrun, `utf8_decode` gets one to four
bytes, the loop bound is not exhausted — as long as `put_char` does not panic; and two bisimilar automata give
the same session.
-/
namespace SurfProofs.Lemmas.TextChunkUtf8
open SurfModel.Tokenizer SurfModel.Shape SurfModel.TextLayout SurfProofs.Lemmas.TextWriter
  SurfProofs.Lemmas.TextChunk SurfProofs.Utf8Dec SurfProofs.AutoSim

variable {σ τ π : Type}

/-- closes `a = a` or what `simp` made of it -/
macro "tr" : tactic => `(tactic| first | rfl | trivial)

/-- the decoder's invariant: the automaton state is the one reached on the bytes held back -/
def DInv (A : Auto σ) (d : USt σ) : Prop := runA A A.start d.buf = some d.st

theorem dinv_uinit (A : Auto σ) : DInv A (uinit A) := rfl

/-- `utf8_decode` on one to four bytes does not reach its `panic!` arm -/
theorem utf8Decode_some (bs : List UInt8) (h1 : bs ≠ []) (h4 : bs.length ≤ 4) : ∃ ch, utf8Decode bs = some ch := by
  match bs, h1, h4 with
  | [a], _, _ => exact ⟨_, rfl⟩
  | [a, b], _, _ => exact ⟨_, rfl⟩
  | [a, b, c], _, _ => exact ⟨_, rfl⟩
  | [a, b, c, d], _, _ => exact ⟨_, rfl⟩
  | _ :: _ :: _ :: _ :: _ :: _, _, h => simp at h

/-- one `decode` call over a short automaton: no fault; a character has one to four bytes -/
theorem udecode_total (A : Auto σ) (hS : Short A) (d : USt σ) (buf : List UInt8) (hd : DInv A d) :
    (∃ d', udecode A d buf = .ok (none, d', []) ∧ DInv A d') ∨
    (∃ bs rest, udecode A d buf = .ok (some (.err bs), uinit A, rest) ∧ rest.length < buf.length) ∨
    (∃ bs rest, udecode A d buf = .ok (some (.chr bs), uinit A, rest) ∧ rest.length < buf.length ∧
      bs ≠ [] ∧ bs.length ≤ 4) := by
  induction buf generalizing d with
  | nil => exact Or.inl ⟨d, rfl, hd⟩
  | cons b rest ih =>
    simp only [udecode]
    cases hs : A.step d.st b with
    | none => exact Or.inr (Or.inl ⟨_, rest, rfl, by simp⟩)
    | some q =>
      have hrun : runA A A.start (d.buf ++ [b]) = some q := runA_snoc A A.start d.st q d.buf b hd hs
      have hlen := hS _ _ hrun
      simp only [List.length_append, List.length_cons, List.length_nil] at hlen
      have h4 : ¬ 4 ≤ d.buf.length := by omega
      simp only [h4, if_false]
      by_cases ha : A.accepting q = true
      · simp only [ha, if_true]
        exact Or.inr (Or.inr ⟨_, rest, rfl, by simp, by simp, by simp; omega⟩)
      · simp only [ha]
        rcases ih { st := q, buf := d.buf ++ [b] } hrun with ⟨d', h1, h2⟩ | ⟨bs, r, h1, h2⟩ | ⟨bs, r, h1, h2, h3⟩
        · exact Or.inl ⟨d', h1, h2⟩
        · exact Or.inr (Or.inl ⟨bs, r, h1, by simp; omega⟩)
        · exact Or.inr (Or.inr ⟨bs, r, h1, by simp; omega, h3⟩)

/-- one `write` call: no fault, invariants kept -/
theorem writeGo_total (A : Auto σ) (hS : Short A) (put : π → Nat → Option (π × Bool)) (I : π → Prop)
    (hput : ∀ p c, I p → ∃ p' b, put p c = some (p', b) ∧ I p')
    (fuel : Nat) (p : π) (d : USt σ) (buf : List UInt8) (hI : I p) (hd : DInv A d) (hf : buf.length < fuel) :
    ∃ p' d' b, writeGo A put fuel p d buf = .ok (p', d', b) ∧ I p' ∧ DInv A d' := by
  induction fuel generalizing p d buf with
  | zero => omega
  | succ fuel ih =>
    simp only [writeGo]
    rcases udecode_total A hS d buf hd with ⟨d', h1, h2⟩ | ⟨bs, r, h1, _⟩ | ⟨bs, r, h1, h2, h3, h4⟩
    · rw [h1]; exact ⟨p, d', true, rfl, hI, h2⟩
    · rw [h1]; exact ⟨p, _, false, rfl, hI, dinv_uinit A⟩
    · rw [h1]
      obtain ⟨ch, hch⟩ := utf8Decode_some bs h3 h4
      obtain ⟨p', b, hp, hI'⟩ := hput p ch hI
      simp only [hch, hp]
      cases b with
      | false => exact ⟨p', _, true, rfl, hI', dinv_uinit A⟩
      | true => exact ih p' (uinit A) r hI' (dinv_uinit A) (by omega)

/-- a whole session: no fault -/
theorem session_total (A : Auto σ) (hS : Short A) (put : π → Nat → Option (π × Bool)) (I : π → Prop)
    (hput : ∀ p c, I p → ∃ p' b, put p c = some (p', b) ∧ I p')
    (chunks : List (List UInt8)) (p : π) (d : USt σ) (hI : I p) (hd : DInv A d) :
    ∃ p' rs, session A put p d chunks = .ok (p', rs) := by
  induction chunks generalizing p d with
  | nil => exact ⟨p, [], rfl⟩
  | cons chunk cs ih =>
    obtain ⟨p', d', b, hw, hI', hd'⟩ := writeGo_total A hS put I hput (chunk.length + 1) p d chunk hI hd (by omega)
    simp only [session, write, hw]
    cases b with
    | false => exact ⟨p', [false], rfl⟩
    | true =>
      obtain ⟨p'', rs, hs⟩ := ih p' d' hI' hd'
      exact ⟨p'', true :: rs, by simp only [hs]⟩

/-- the decoder alone, fed read by read: no fault -/
theorem ufeedAll_total (A : Auto σ) (hS : Short A) (chunks : List (List UInt8)) :
    ∃ per dEnd, ufeedAll A (uinit A) chunks = .ok (per, dEnd) := by
  obtain ⟨items, s', h1, _, _⟩ := ugo_total A hS (uinit A) chunks.flatten rfl
  have h4 := ufeedAll_ugo A chunks (uinit A)
  rw [h1] at h4
  cases hf : ufeedAll A (uinit A) chunks with
  | error e => rw [hf] at h4; simp [flatU] at h4
  | ok q => exact ⟨q.1, q.2, rfl⟩

/-- `TerminalWriter::put_char` never panics on a writer whose window lies inside its backing slice -/
theorem putChar_total (w : Writer) (c : Nat) (hok : ShOk w.shape w.data.length) :
    ∃ w' b, putChar w c = some (w', b) ∧ ShOk w'.shape w'.data.length := by
  obtain ⟨w', b, h, hc⟩ := putChar_contained w c hok
  exact ⟨w', b, h, hc.shOk hok⟩

theorem textPutChar_total (t : Text) (c : Nat) : ∃ t' b, Text.putChar t c = some (t', b) ∧ True :=
  ⟨_, _, rfl, trivial⟩

/-! ## bisimilar automata give the same session -/

theorem udecode_bisim {A : Auto σ} {B : Auto τ} {R : σ → τ → Prop} (h : Bisim A B R) (d : USt σ) (e : USt τ)
    (buf : List UInt8) (hr : R d.st e.st) (hb : d.buf = e.buf) :
    match udecode A d buf, udecode B e buf with
    | .error x, .error y => x = y
    | .ok (o, d', r), .ok (o', e', r') => o = o' ∧ r = r' ∧ R d'.st e'.st ∧ d'.buf = e'.buf
    | _, _ => False := by
  induction buf generalizing d e with
  | nil => simp only [udecode]; exact ⟨by tr, by tr, hr, hb⟩
  | cons b rest ih =>
    simp only [udecode]
    have hs := h.step d.st e.st b hr
    cases ha : A.step d.st b with
    | none =>
      cases hB : B.step e.st b with
      | some T => rw [ha, hB] at hs; exact hs.elim
      | none =>
        simp only
        exact ⟨by rw [hb], by tr, h.start, by tr⟩
    | some t =>
      cases hB : B.step e.st b with
      | none => rw [ha, hB] at hs; exact hs.elim
      | some T =>
        rw [ha, hB] at hs
        simp only [← hb]
        by_cases h4 : 4 ≤ d.buf.length
        · simp [h4]
        · simp only [h4, if_false]
          have hacc := h.acc t T hs
          by_cases hat : A.accepting t = true
          · have hbt : B.accepting T = true := by rw [← hacc]; exact hat
            simp only [hat, hbt, if_true]
            exact ⟨by tr, by tr, h.start, by tr⟩
          · have hbt : ¬ B.accepting T = true := by rw [← hacc]; exact hat
            simp only [hat, hbt]
            exact ih { st := t, buf := d.buf ++ [b] } { st := T, buf := d.buf ++ [b] } hs rfl

theorem writeGo_bisim {A : Auto σ} {B : Auto τ} {R : σ → τ → Prop} (h : Bisim A B R)
    (put : π → Nat → Option (π × Bool)) (fuel : Nat) (p : π) (d : USt σ) (e : USt τ) (buf : List UInt8)
    (hr : R d.st e.st) (hb : d.buf = e.buf) :
    match writeGo A put fuel p d buf, writeGo B put fuel p e buf with
    | .error x, .error y => x = y
    | .ok (p1, d', f1), .ok (p2, e', f2) => p1 = p2 ∧ f1 = f2 ∧ R d'.st e'.st ∧ d'.buf = e'.buf
    | _, _ => False := by
  induction fuel generalizing p d e buf with
  | zero => simp [writeGo]
  | succ fuel ih =>
    simp only [writeGo]
    have hu := udecode_bisim h d e buf hr hb
    cases hA : udecode A d buf with
    | error x =>
      cases hB : udecode B e buf with
      | error y => rw [hA, hB] at hu; simpa using hu
      | ok q => rw [hA, hB] at hu; exact hu.elim
    | ok q =>
      obtain ⟨o, d', r⟩ := q
      cases hB : udecode B e buf with
      | error y => rw [hA, hB] at hu; exact hu.elim
      | ok q' =>
        obtain ⟨o', e', r'⟩ := q'
        rw [hA, hB] at hu
        obtain ⟨rfl, rfl, hr', hb'⟩ := hu
        cases o with
        | none => exact ⟨rfl, rfl, hr', hb'⟩
        | some it =>
          cases it with
          | err bs => exact ⟨rfl, rfl, hr', hb'⟩
          | chr bs =>
            simp only
            cases utf8Decode bs with
            | none => simp
            | some ch =>
              simp only
              cases put p ch with
              | none => simp
              | some res =>
                obtain ⟨p', fl⟩ := res
                cases fl with
                | false => exact ⟨rfl, rfl, hr', hb'⟩
                | true => exact ih p' d' e' r hr' hb'

/-- **two bisimilar automata give the same session**, whatever the sink and the partition -/
theorem session_bisim {A : Auto σ} {B : Auto τ} {R : σ → τ → Prop} (h : Bisim A B R)
    (put : π → Nat → Option (π × Bool)) (chunks : List (List UInt8)) (p : π) (d : USt σ) (e : USt τ)
    (hr : R d.st e.st) (hb : d.buf = e.buf) :
    session A put p d chunks = session B put p e chunks := by
  induction chunks generalizing p d e with
  | nil => rfl
  | cons chunk cs ih =>
    simp only [session, write]
    have hw := writeGo_bisim h put (chunk.length + 1) p d e chunk hr hb
    cases hA : writeGo A put (chunk.length + 1) p d chunk with
    | error x =>
      cases hB : writeGo B put (chunk.length + 1) p e chunk with
      | error y => rw [hA, hB] at hw; simp only at hw; rw [hw]
      | ok q => rw [hA, hB] at hw; exact hw.elim
    | ok q =>
      obtain ⟨p1, d', f1⟩ := q
      cases hB : writeGo B put (chunk.length + 1) p e chunk with
      | error y => rw [hA, hB] at hw; exact hw.elim
      | ok q' =>
        obtain ⟨p2, e', f2⟩ := q'
        rw [hA, hB] at hw
        obtain ⟨rfl, rfl, hr', hb'⟩ := hw
        cases f1 with
        | false => rfl
        | true => simp only; rw [ih p1 d' e' hr' hb']

/-- live words of the hand-written Table 3-7 automaton have at most four bytes (through the bisimulation
    with the compiled automaton, for which C02 proved it by a ranking of the NFA) -/
theorem handAuto_short : Short SurfModel.TextLayout.utf8Auto := by
  intro w q hq
  obtain ⟨T, hT, _⟩ := SurfProofs.Utf8AutoBisim.utf8_bisim.run_some w q hq
  exact utf8Auto_short w T hT

end SurfProofs.Lemmas.TextChunkUtf8
