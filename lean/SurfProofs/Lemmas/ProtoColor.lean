import SurfProofs.Lemmas.ProtoNumeric
/-! C04: OSC 4 / 10 / 11 colour replies in `#rrggbb` and `rgb:h/h/h` (1–4 digits) form. -/
namespace SurfProofs.ProtoColor
open SurfModel.Vt SurfModel.Sgr SurfModel.Grammar SurfModel.Payload SurfModel.Protocol SurfModel.Automata
open SurfProofs.Lemmas.Vt SurfProofs.Lemmas.Sgr SurfProofs.ReMatch SurfProofs.ProtoBasics SurfProofs.ProtoNumeric

/-! ## hexadecimal -/

theorem hexDigit_range (d : Nat) (h : d < 16) : (48 ≤ hexDigit d ∧ hexDigit d ≤ 57) ∨ (97 ≤ hexDigit d ∧ hexDigit d ≤ 102) := by
  unfold hexDigit; split <;> omega

/-- a hex digit in either case -/
def IsHexC (b : Nat) : Prop := (48 ≤ b ∧ b ≤ 57) ∨ (65 ≤ b ∧ b ≤ 70) ∨ (97 ≤ b ∧ b ≤ 102)

theorem hexDigitC_range (upper : Bool) (d : Nat) (h : d < 16) : IsHexC (hexDigitC upper d) := by
  unfold IsHexC hexDigitC hexDigitUpper hexDigit
  cases upper <;> simp <;> split <;> omega

theorem hexVal_hexDigit (d : Nat) (h : d < 16) : hexVal? (hexDigit d) = some d := by
  unfold hexDigit hexVal?
  by_cases h10 : d < 10
  · have a : ¬ (65 ≤ 48 + d ∧ 48 + d ≤ 70) := by omega
    have b : ¬ (97 ≤ 48 + d ∧ 48 + d ≤ 102) := by omega
    have c : 48 ≤ 48 + d ∧ 48 + d ≤ 57 := by omega
    simp [h10, a, b, c]
  · have a : ¬ (65 ≤ 87 + d ∧ 87 + d ≤ 70) := by omega
    have b : 97 ≤ 87 + d ∧ 87 + d ≤ 102 := by omega
    simp [h10, a, b]
    omega

theorem hexVal_hexDigitUpper (d : Nat) (h : d < 16) : hexVal? (hexDigitUpper d) = some d := by
  unfold hexDigitUpper hexVal?
  by_cases h10 : d < 10
  · have a : ¬ (65 ≤ 48 + d ∧ 48 + d ≤ 70) := by omega
    have b : ¬ (97 ≤ 48 + d ∧ 48 + d ≤ 102) := by omega
    have c : 48 ≤ 48 + d ∧ 48 + d ≤ 57 := by omega
    simp [h10, a, b, c]
  · have a : 65 ≤ 55 + d ∧ 55 + d ≤ 70 := by omega
    simp [h10, a]
    omega

theorem hexVal_hexDigitC (upper : Bool) (d : Nat) (h : d < 16) : hexVal? (hexDigitC upper d) = some d := by
  cases upper
  · simpa [hexDigitC] using hexVal_hexDigit d h
  · simpa [hexDigitC] using hexVal_hexDigitUpper d h

theorem hexFixed_length (upper : Bool) (n v : Nat) : (hexFixedC upper n v).length = n := by
  induction n generalizing v with
  | zero => rfl
  | succ n ih => simp [hexFixedC, ih]

theorem hexFixed_bytes (upper : Bool) (n v : Nat) : ∀ b ∈ hexFixedC upper n v, IsHexC b := by
  induction n generalizing v with
  | zero => intro b hb; simp [hexFixedC] at hb
  | succ n ih =>
    intro b hb
    simp only [hexFixedC, List.mem_append, List.mem_singleton] at hb
    rcases hb with hb | rfl
    · exact ih _ b hb
    · exact hexDigitC_range upper _ (by omega)

theorem hexValue_snoc (l : List Nat) (x : Nat) :
    hexValue (l ++ [x]) = match hexValue l, hexVal? x with
      | some a, some v => some (a * 16 + v)
      | _, _ => none := by
  unfold hexValue
  rw [List.foldl_append]
  rfl

theorem hexValue_hexFixed (upper : Bool) (n v : Nat) (h : v < 16 ^ n) : hexValue (hexFixedC upper n v) = some v := by
  induction n generalizing v with
  | zero => simp at h; subst h; rfl
  | succ n ih =>
    have h1 : v / 16 < 16 ^ n := by
      rw [Nat.pow_succ] at h
      exact Nat.div_lt_of_lt_mul (by rw [Nat.mul_comm]; exact h)
    rw [hexFixedC, hexValue_snoc, ih _ h1, hexVal_hexDigitC _ _ (by omega)]
    simp
    omega

/-! ## one channel -/

theorem parseComponent_fixed (upper : Bool) (d v : Nat) (h1 : 1 ≤ d) (h4 : d ≤ 4) (hv : v < 16 ^ d) :
    parseComponent (hexFixedC upper d v) = some (Channel.byte ⟨d, v⟩) := by
  have hlen := hexFixed_length upper d v
  have hhead : (hexFixedC upper d v).head? ≠ some 43 := by
    intro e
    have hm : 43 ∈ hexFixedC upper d v := by
      cases hl : hexFixedC upper d v with
      | nil => rw [hl] at e; simp at e
      | cons x xs => rw [hl] at e; simp at e; subst e; simp
    have := hexFixed_bytes _ _ _ 43 hm
    unfold IsHexC at this
    omega
  have hne : (hexFixedC upper d v).isEmpty = false := by
    cases hl : hexFixedC upper d v with
    | nil => rw [hl] at hlen; simp at hlen; omega
    | cons x xs => rfl
  unfold parseComponent
  have hc : ¬ ((hexFixedC upper d v).length < 1 ∨ 4 < (hexFixedC upper d v).length) := by
    rw [hlen]; omega
  simp only [hc, if_false, beq_iff_eq, hhead, hne, hexValue_hexFixed _ _ _ hv, Bool.false_eq_true, hlen]
  have hd : d = 1 ∨ d = 2 ∨ d = 3 ∨ d = 4 := by omega
  rcases hd with rfl | rfl | rfl | rfl
  · simp only [Channel.byte]
    simp at hv
    split
    · omega
    · simp only [Option.some.injEq]; omega
  · simp only [Channel.byte]
    simp at hv
    split
    · omega
    · simp only [Option.some.injEq]; omega
  · simp only [Channel.byte]
    simp at hv
    split
    · omega
    · simp only [Option.some.injEq]; omega
  · simp only [Channel.byte]
    simp at hv
    split
    · omega
    · simp only [Option.some.injEq]; omega

theorem parseComponent_channel (upper : Bool) (c : Channel) (h : c.Valid) :
    parseComponent (hexFixedC upper c.digits c.value) = some c.byte := by
  obtain ⟨d, v⟩ := c
  exact parseComponent_fixed upper d v h.1 h.2.1 h.2.2

/-! ## the last `/` -/

theorem rfindSlash_none (s : List Nat) (h : 47 ∉ s) : rfindSlash s = none := by
  induction s with
  | nil => rfl
  | cons b rest ih =>
    have hb : b ≠ 47 := fun e => h (by simp [e])
    have hr : 47 ∉ rest := fun e => h (by simp [e])
    simp [rfindSlash, ih hr, hb]

theorem rfindSlash_append (a b : List Nat) (h : 47 ∉ b) : rfindSlash (a ++ 47 :: b) = some a.length := by
  induction a with
  | nil => simp [rfindSlash, rfindSlash_none b h]
  | cons x xs ih => simp [rfindSlash, ih]

/-! ## ASCII is well-formed UTF-8 -/

theorem validUtf8_ascii (l : List Nat) (h : ∀ b ∈ l, b < 128) : validUtf8 l = true := by
  induction l with
  | nil => rw [validUtf8]
  | cons b rest ih =>
    have hb : b < 128 := h b (by simp)
    rw [validUtf8]
    simp [utf8Head, hb, ih (fun x hx => h x (by simp [hx]))]

/-! ## colour specifications -/

theorem hexPair_fixed2 (upper : Bool) (r : Nat) (h : r < 256) :
    hexFixedC upper 2 r = [hexDigitC upper (r / 16), hexDigitC upper (r % 16)] ∧
      hexPair? (hexDigitC upper (r / 16)) (hexDigitC upper (r % 16)) = some r := by
  constructor
  · have : r / 16 % 16 = r / 16 := by omega
    simp [hexFixedC, this]
  · unfold hexPair?
    rw [hexVal_hexDigitC _ _ (by omega), hexVal_hexDigitC _ _ (by omega)]
    simp
    omega

theorem isHexC_ne (b x : Nat) (h : IsHexC b) (hx : x < 48 ∨ (57 < x ∧ x < 65) ∨ (70 < x ∧ x < 97) ∨ 102 < x) : b ≠ x := by
  unfold IsHexC at h; omega

theorem parseColor_hash (r g b : Nat) (upper : Bool) (h : (ColorSpec.hash r g b upper).Valid) :
    SurfModel.Payload.parseColor (ColorSpec.hash r g b upper).print = .ok (some (ColorSpec.hash r g b upper).rgba) := by
  obtain ⟨hr, hg, hb⟩ := h
  have hp : (ColorSpec.hash r g b upper).print =
      [35, hexDigitC upper (r / 16), hexDigitC upper (r % 16), hexDigitC upper (g / 16), hexDigitC upper (g % 16),
        hexDigitC upper (b / 16), hexDigitC upper (b % 16)] := by
    simp [ColorSpec.print, (hexPair_fixed2 upper r hr).1, (hexPair_fixed2 upper g hg).1, (hexPair_fixed2 upper b hb).1]
  have hno : 47 ∉ (ColorSpec.hash r g b upper).print := by
    rw [hp]
    simp only [List.mem_cons, List.not_mem_nil, or_false, not_or]
    refine ⟨by omega, ?_, ?_, ?_, ?_, ?_, ?_⟩ <;>
      exact fun e => isHexC_ne _ 47 (hexDigitC_range upper _ (by omega)) (by omega) e.symm
  unfold SurfModel.Payload.parseColor rasterParse
  rw [rfindSlash_none _ hno]
  rw [hp]
  simp [(hexPair_fixed2 upper r hr).2, (hexPair_fixed2 upper g hg).2, (hexPair_fixed2 upper b hb).2, ColorSpec.rgba]

theorem hexFixed_no (sep : Nat) (hs : sep < 48 ∨ (57 < sep ∧ sep < 65) ∨ (70 < sep ∧ sep < 97) ∨ 102 < sep)
    (upper : Bool) (n v : Nat) : sep ∉ hexFixedC upper n v := by
  intro hm; exact isHexC_ne _ sep (hexFixed_bytes upper n v sep hm) hs rfl

theorem parseColor_rgb (r g b : Channel) (upper : Bool) (h : (ColorSpec.rgb r g b upper).Valid) :
    SurfModel.Payload.parseColor (ColorSpec.rgb r g b upper).print = .ok (some (ColorSpec.rgb r g b upper).rgba) := by
  obtain ⟨hr, hg, hb⟩ := h
  let hr' := hexFixedC upper r.digits r.value
  let hg' := hexFixedC upper g.digits g.value
  let hb' := hexFixedC upper b.digits b.value
  have h47 : ∀ n v, 47 ∉ hexFixedC upper n v := hexFixed_no 47 (by omega) upper
  have hp : (ColorSpec.rgb r g b upper).print = ([114, 103, 98, 58] ++ (hr' ++ 47 :: hg')) ++ 47 :: hb' := by
    simp [ColorSpec.print, hr', hg', hb']
  have hraster : rasterParse (ColorSpec.rgb r g b upper).print = .err := by
    unfold rasterParse
    rw [hp, rfindSlash_append _ _ (h47 _ _)]
    simp [isNameByte]
  have hstrip : stripPrefixN [114, 103, 98, 58] (ColorSpec.rgb r g b upper).print = some (hr' ++ 47 :: (hg' ++ 47 :: hb')) := by
    rw [hp]
    simp [stripPrefixN]
  have hsplit : splitBy 47 (hr' ++ 47 :: (hg' ++ 47 :: hb')) = [hr', hg', hb'] := by
    rw [splitBy_append_sep 47 _ _ (h47 _ _), splitBy_append_sep 47 _ _ (h47 _ _), splitBy_no_sep 47 _ (h47 _ _)]
  unfold SurfModel.Payload.parseColor
  rw [hraster]
  simp only [hstrip, hsplit, hr', hg', hb', parseComponent_channel upper r hr, parseComponent_channel upper g hg,
    parseComponent_channel upper b hb, ColorSpec.rgba]

theorem parseColor_spec (spec : ColorSpec) (h : spec.Valid) : SurfModel.Payload.parseColor spec.print = .ok (some spec.rgba) := by
  cases spec with
  | hash r g b upper => exact parseColor_hash r g b upper h
  | rgb r g b upper => exact parseColor_rgb r g b upper h

theorem spec_bytes (spec : ColorSpec) (h : spec.Valid) :
    ∀ x ∈ spec.print, x < 128 ∧ x ≠ 59 ∧ x ≠ 27 ∧ x ≠ 7 := by
  intro x hx
  have hex : ∀ y, IsHexC y → y < 128 ∧ y ≠ 59 ∧ y ≠ 27 ∧ y ≠ 7 := by
    intro y hy; unfold IsHexC at hy; omega
  cases spec with
  | hash r g b upper =>
    simp only [ColorSpec.print, List.mem_cons, List.mem_append] at hx
    rcases hx with rfl | (hx | hx) | hx
    · omega
    all_goals exact hex x (hexFixed_bytes _ _ _ x hx)
  | rgb r g b upper =>
    simp only [ColorSpec.print, List.mem_cons, List.mem_append, List.not_mem_nil, or_false] at hx
    rcases hx with ((((hx | hx) | hx) | hx) | hx) | hx
    · rcases hx with rfl | rfl | rfl | rfl <;> omega
    · exact hex x (hexFixed_bytes _ _ _ x hx)
    · omega
    · exact hex x (hexFixed_bytes _ _ _ x hx)
    · omega
    · exact hex x (hexFixed_bytes _ _ _ x hx)

theorem spec_ne_nil (spec : ColorSpec) : spec.print ≠ [] := by
  cases spec <;> simp [ColorSpec.print]

/-! ## the OSC reply -/

theorem color_print (name : ColorName) (spec : ColorSpec) (fin : OscEnd) :
    print (.color name spec fin) = [27, 93] ++ ((oscNumber name ++ 59 :: spec.print) ++ fin.bytes) := by
  simp [print]

theorem color_payload (name : ColorName) (spec : ColorSpec) (fin : OscEnd) (h : (Msg.color name spec fin).Valid) :
    decode .osc (print (.color name spec fin)) = .ok (some (denote (.color name spec fin))) := by
  obtain ⟨hspec, hname⟩ := h
  let body := oscNumber name ++ 59 :: spec.print
  have hp : print (.color name spec fin) = [27, 93] ++ (body ++ fin.bytes) := color_print name spec fin
  have h59 : 59 ∉ spec.print := fun hm => (spec_bytes spec hspec 59 hm).2.1 rfl
  have hvalid : validUtf8 spec.print = true := validUtf8_ascii _ (fun x hx => (spec_bytes spec hspec x hx).1)
  -- the fields of the body
  have hfields : ∃ idBytes args, splitBy 59 body = idBytes :: args ∧
      ((name = .foreground ∧ numberDecode idBytes = some 10 ∧ args = [spec.print]) ∨
       (name = .background ∧ numberDecode idBytes = some 11 ∧ args = [spec.print]) ∨
       (∃ i, name = .palette i ∧ numberDecode idBytes = some 4 ∧ args = [showNat i, spec.print] ∧
          numberDecode (showNat i) = some i)) := by
    cases name with
    | foreground =>
      refine ⟨showNat 10, [spec.print], ?_, Or.inl ⟨rfl, numberDecode_showNat_small 10 (by decide), rfl⟩⟩
      simp only [body, oscNumber]
      rw [splitBy_showNat_sep 59 sep59, splitBy_no_sep 59 _ h59]
    | background =>
      refine ⟨showNat 11, [spec.print], ?_, Or.inr (Or.inl ⟨rfl, numberDecode_showNat_small 11 (by decide), rfl⟩)⟩
      simp only [body, oscNumber]
      rw [splitBy_showNat_sep 59 sep59, splitBy_no_sep 59 _ h59]
    | palette i =>
      refine ⟨showNat 4, [showNat i, spec.print], ?_, Or.inr (Or.inr ⟨i, rfl, numberDecode_showNat_small 4 (by decide), rfl,
        numberDecode_showNat_small i (hname i rfl)⟩)⟩
      simp only [body, oscNumber, List.append_assoc, List.cons_append, List.nil_append]
      rw [splitBy_showNat_sep 59 sep59, splitBy_showNat_sep 59 sep59, splitBy_no_sep 59 _ h59]
  obtain ⟨idBytes, args, hsplit, hcases⟩ := hfields
  simp only [decode]
  unfold decodeOsc
  cases fin with
  | bel =>
    have hp' : print (.color name spec .bel) = ([27, 93] ++ body) ++ 7 :: [] := by rw [hp]; simp [OscEnd.bytes]
    have hlen : (print (.color name spec .bel)).length - 1 = 2 + body.length := by rw [hp']; simp; omega
    have hi : index? (print (.color name spec .bel)) ((print (.color name spec .bel)).length - 1) = .ok 7 := by
      rw [hlen, hp']; exact index?_frame _ _ _ _ (by simp; omega)
    have hs : slice? (print (.color name spec .bel)) 2 ((print (.color name spec .bel)).length - 1) = .ok body := by
      rw [hlen, hp]; exact slice?_frame _ _ _ _ _ rfl rfl
    rw [sub?_ok _ _ (by rw [hp']; simp)]
    simp only [hi, if_true, hs, hsplit]
    rcases hcases with ⟨rfl, hid, rfl⟩ | ⟨rfl, hid, rfl⟩ | ⟨i, rfl, hid, rfl, hix⟩
    · simp [hid, hvalid, parseColor_spec spec hspec, denote]
    · simp [hid, hvalid, parseColor_spec spec hspec, denote]
    · simp [hid, hix, hvalid, parseColor_spec spec hspec, denote]
  | st =>
    have hp' : print (.color name spec .st) = ([27, 93] ++ body ++ [27]) ++ 92 :: [] := by
      rw [hp]; simp [OscEnd.bytes, SurfModel.Protocol.ST]
    have hlen : (print (.color name spec .st)).length - 1 = 2 + body.length + 1 := by rw [hp']; simp; omega
    have hlen2 : (print (.color name spec .st)).length - 2 = 2 + body.length := by rw [hp']; simp; omega
    have hi : index? (print (.color name spec .st)) ((print (.color name spec .st)).length - 1) = .ok 92 := by
      rw [hlen, hp']; exact index?_frame _ _ _ _ (by simp; omega)
    have hs : slice? (print (.color name spec .st)) 2 ((print (.color name spec .st)).length - 2) = .ok body := by
      rw [hlen2, hp]; exact slice?_frame _ _ _ _ _ rfl rfl
    rw [sub?_ok _ _ (by rw [hp']; simp)]
    have h92 : (92 : Nat) ≠ 7 := by decide
    simp only [hi, h92, if_false]
    rw [sub?_ok _ _ (by rw [hp']; simp)]
    simp only [hs, hsplit]
    rcases hcases with ⟨rfl, hid, rfl⟩ | ⟨rfl, hid, rfl⟩ | ⟨i, rfl, hid, rfl, hix⟩
    · simp [hid, hvalid, parseColor_spec spec hspec, denote]
    · simp [hid, hvalid, parseColor_spec spec hspec, denote]
    · simp [hid, hix, hvalid, parseColor_spec spec hspec, denote]

theorem notEscBel_matches (t : List Nat) (hne : t ≠ []) (h : ∀ b ∈ t, b < 256 ∧ b ≠ 27 ∧ b ≠ 7) :
    (Re.plus notEscBel).Matches (bytes t) := by
  apply plus_pred_matches _ _ hne
  intro b hb
  obtain ⟨h1, h2, h3⟩ := h b hb
  refine ⟨h1, ?_⟩
  by_cases k1 : b ≤ 6
  · exact ⟨(0, 6), by simp, by simpa using k1⟩
  by_cases k2 : b ≤ 26
  · exact ⟨(8, 26), by simp, by simp; omega⟩
  · exact ⟨(28, 255), by simp, by simp; omega⟩

theorem color_member (name : ColorName) (spec : ColorSpec) (fin : OscEnd) (h : (Msg.color name spec fin).Valid) :
    oscRe.Matches (bytes (print (.color name spec fin))) := by
  obtain ⟨hspec, _⟩ := h
  -- `number ; rest` where the rest may start with the palette index
  obtain ⟨n, rest, hnum, hrest⟩ : ∃ n rest, oscNumber name ++ 59 :: spec.print = showNat n ++ 59 :: rest ∧
      rest ≠ [] ∧ ∀ b ∈ rest, b < 256 ∧ b ≠ 27 ∧ b ≠ 7 := by
    have hb := spec_bytes spec hspec
    cases name with
    | foreground => exact ⟨10, spec.print, rfl, spec_ne_nil spec, fun b hb' => by have := hb b hb'; omega⟩
    | background => exact ⟨11, spec.print, rfl, spec_ne_nil spec, fun b hb' => by have := hb b hb'; omega⟩
    | palette i =>
      refine ⟨4, showNat i ++ 59 :: spec.print, by simp [oscNumber], by simp, ?_⟩
      intro b hb'
      simp only [List.mem_append, List.mem_cons] at hb'
      rcases hb' with hb' | rfl | hb'
      · have := showNat_digits i b hb'; omega
      · omega
      · have := hb b hb'; omega
  have : bytes (print (.color name spec fin)) =
      bytes [27, 93] ++ (bytes (showNat n) ++ (bytes [59] ++ (bytes rest ++ (bytes fin.bytes ++ [])))) := by
    rw [color_print, hnum]; simp [bytes]
  rw [this]
  refine seq_cons_matches (lit_matches _) (seq_cons_matches (number_matches n) (seq_cons_matches (lit_matches _)
    (seq_cons_matches (notEscBel_matches rest hrest.1 hrest.2) (seq_cons_matches ?_ seq_nil_matches))))
  cases fin with
  | st => exact Re.Matches.alt (e := lit [27, 92]) (by simp) (lit_matches _)
  | bel => exact Re.Matches.alt (e := lit [7]) (by simp) (lit_matches _)

end SurfProofs.ProtoColor
