import SurfProofs.Lemmas.NFALang
import SurfProofs.Lemmas.ReMatch
namespace SurfProofs.ToNFA
open SurfModel.Automata SurfProofs.Graph SurfProofs.NFASem SurfProofs.NFAGraph SurfProofs.NFALang SurfProofs.ReMatch

theorem toNFAs_eq (es : List Re) : toNFAs es = es.map Re.toNFA := by
  induction es with
  | nil => simp [toNFAs]
  | cons e es ih => simp [toNFAs, ih]

theorem plus_congr {L L' : List UInt8 → Prop} (h : ∀ w, L w ↔ L' w) (w : List UInt8) : Plus L w ↔ Plus L' w := by
  constructor
  · intro p
    induction p with
    | one h1 => exact Plus.one ((h _).mp h1)
    | more h1 _ ih => exact Plus.more ((h _).mp h1) ih
  · intro p
    induction p with
    | one h1 => exact Plus.one ((h _).mpr h1)
    | more h1 _ ih => exact Plus.more ((h _).mpr h1) ih

theorem star_congr {L L' : List UInt8 → Prop} (h : ∀ w, L w ↔ L' w) (w : List UInt8) : Star L w ↔ Star L' w := by
  rw [star_iff_plus, star_iff_plus, plus_congr h]

theorem seqLang_iff (es : List Re) (ih : ∀ e ∈ es, ∀ w, Lang e.toNFA w ↔ e.Matches w) (w : List UInt8) :
    SeqLang (es.map Re.toNFA) w ↔ (Re.seq es).Matches w := by
  induction es generalizing w with
  | nil =>
    rw [matches_seq_nil]
    constructor
    · intro h; cases h; rfl
    · rintro rfl; exact SeqLang.nil
  | cons e es ihs =>
    rw [matches_seq_cons]
    constructor
    · intro h
      cases h with
      | cons hu hv =>
        exact ⟨_, _, rfl, (ih e (by simp) _).mp hu, (ihs (fun e he => ih e (by simp [he])) _).mp hv⟩
    · rintro ⟨u, v, rfl, hu, hv⟩
      exact SeqLang.cons ((ih e (by simp) _).mpr hu) ((ihs (fun e he => ih e (by simp [he])) _).mpr hv)

/-- the automaton built for an expression is well formed and its language is the expression's -/
theorem toNFA_spec (e : Re) : WF e.toNFA ∧ ∀ w, Lang e.toNFA w ↔ e.Matches w := by
  induction e using Re.induct' with
  | lit s =>
    rw [Re.toNFA]
    exact ⟨ofStr_wf s, fun w => by rw [ofStr_lang, matches_lit]⟩
  | pred rs =>
    rw [Re.toNFA]
    exact ⟨predicate_wf rs, fun w => by rw [predicate_lang, matches_pred]⟩
  | seq es ih =>
    rw [Re.toNFA, toNFAs_eq]
    have hwf : ∀ n ∈ es.map Re.toNFA, WF n := by
      intro n hn
      obtain ⟨e, he, rfl⟩ := List.mem_map.mp hn
      exact (ih e he).1
    exact ⟨sequence_wf _ hwf, fun w => by rw [sequence_lang _ hwf, seqLang_iff es (fun e he => (ih e he).2)]⟩
  | alt es ih =>
    rw [Re.toNFA, toNFAs_eq]
    have hwf : ∀ n ∈ es.map Re.toNFA, WF n := by
      intro n hn
      obtain ⟨e, he, rfl⟩ := List.mem_map.mp hn
      exact (ih e he).1
    refine ⟨choice_wf _ hwf, fun w => ?_⟩
    rw [choice_lang _ hwf, matches_alt]
    constructor
    · rintro ⟨n, hn, h⟩
      obtain ⟨e, he, rfl⟩ := List.mem_map.mp hn
      exact ⟨e, he, ((ih e he).2 w).mp h⟩
    · rintro ⟨e, he, h⟩
      exact ⟨e.toNFA, List.mem_map.mpr ⟨e, he, rfl⟩, ((ih e he).2 w).mpr h⟩
  | opt e ih =>
    rw [Re.toNFA]
    exact ⟨optional_wf _ ih.1, fun w => by rw [optional_lang _ ih.1, matches_opt, ih.2]⟩
  | plus e ih =>
    rw [Re.toNFA]
    exact ⟨some_wf _ ih.1, fun w => by rw [some_lang' _ ih.1, matches_plus, plus_congr ih.2]⟩
  | star e ih =>
    rw [Re.toNFA]
    exact ⟨many_wf _ ih.1, fun w => by rw [many_lang _ ih.1, matches_star, star_congr ih.2]⟩
  | empty =>
    rw [Re.toNFA]
    exact ⟨empty_wf, fun w => by rw [empty_lang, matches_empty]⟩
  | nothing =>
    rw [Re.toNFA]
    exact ⟨nothing_wf, fun w => by simp [nothing_lang, matches_nothing]⟩
  | tag t e ih =>
    rw [Re.toNFA]
    exact ⟨tagStop_wf _ t ih.1, fun w => by rw [tagStop_lang, matches_tag, ih.2]⟩

end SurfProofs.ToNFA
