import SurfProofs.Lemmas.ProtoBasics
/-! C04, numeric families: cursor position, SGR mouse, size report, DECRPM, DA1, kitty keyboard. For each:
the printed message is in the grammar of its family and the payload decoder returns the denoted event. -/
namespace SurfProofs.ProtoNumeric
open SurfModel.Vt SurfModel.Sgr SurfModel.Grammar SurfModel.Payload SurfModel.Protocol SurfModel.Automata
open SurfProofs.Lemmas.Vt SurfProofs.Lemmas.Sgr SurfProofs.ReMatch SurfProofs.ProtoBasics

theorem sep59 : (59 : Nat) < 48 ∨ 57 < 59 := by omega
theorem sep58 : (58 : Nat) < 48 ∨ 57 < 58 := by omega

/-! ## joined parameter lists -/

theorem numbersDecode_nil (sep : Nat) : numbersDecode [] sep = [0] := by
  simp [numbersDecode, splitBy, numberDecode, numberDecodeRev]

theorem numbersDecode_joinWith (sep : Nat) (hs : sep < 48 ∨ 57 < sep) (ns : List Nat) (hne : ns ≠ [])
    (h : ∀ n ∈ ns, n ≤ usizeMax) : numbersDecode (joinWith sep (ns.map showNat)) sep = ns := by
  induction ns with
  | nil => exact absurd rfl hne
  | cons n rest ih =>
    cases rest with
    | nil => simpa [joinWith] using numbersDecode_one sep hs n (h n (by simp))
    | cons m rest' =>
      have := ih (by simp) (fun x hx => h x (by simp [hx]))
      simp only [List.map_cons, joinWith] at this ⊢
      rw [numbersDecode_cons sep hs n (h n (by simp)), this]

theorem numbersDecode_joinWith_sep (sep : Nat) (hs : sep < 48 ∨ 57 < sep) (ns : List Nat) (hne : ns ≠ [])
    (h : ∀ n ∈ ns, n ≤ usizeMax) : numbersDecode (joinWith sep (ns.map showNat) ++ [sep]) sep = ns ++ [0] := by
  induction ns with
  | nil => exact absurd rfl hne
  | cons n rest ih =>
    cases rest with
    | nil =>
      simp only [List.map_cons, List.map_nil, joinWith]
      rw [numbersDecode_cons sep hs n (h n (by simp)), numbersDecode_nil]
      try rfl
    | cons m rest' =>
      have := ih (by simp) (fun x hx => h x (by simp [hx]))
      simp only [List.map_cons, joinWith, List.append_assoc, List.cons_append] at this ⊢
      rw [numbersDecode_cons sep hs n (h n (by simp)), this]
      try rfl

theorem joinWith_mem (sep : Nat) (cs : List (List Nat)) (b : Nat) (hb : b ∈ joinWith sep cs) :
    b = sep ∨ ∃ c ∈ cs, b ∈ c := by
  induction cs with
  | nil => simp [joinWith] at hb
  | cons c rest ih =>
    cases rest with
    | nil => simp only [joinWith] at hb; exact Or.inr ⟨c, by simp, hb⟩
    | cons d rest' =>
      simp only [joinWith, List.mem_append, List.mem_cons] at hb
      rcases hb with hb | hb | hb
      · exact Or.inr ⟨c, by simp, hb⟩
      · exact Or.inl hb
      · rcases ih hb with h | ⟨x, hx, hbx⟩
        · exact Or.inl h
        · exact Or.inr ⟨x, by simp [hx], hbx⟩

theorem joinWith_showNat_bytes (sep : Nat) (ns : List Nat) (b : Nat) (hb : b ∈ joinWith sep (ns.map showNat)) :
    b = sep ∨ (48 ≤ b ∧ b ≤ 57) := by
  rcases joinWith_mem sep _ b hb with h | ⟨c, hc, hbc⟩
  · exact Or.inl h
  · obtain ⟨n, _, rfl⟩ := List.mem_map.mp hc
    exact Or.inr (showNat_digits n b hbc)

/-! ## cursor position report -/

theorem cursor_payload (r c : Nat) (h : (Msg.cursor r c).Valid) :
    decode .cursorPosition (print (.cursor r c)) = .ok (some (denote (.cursor r c))) := by
  obtain ⟨h1, h2, h3, h4⟩ := h
  have hs : slice? (print (.cursor r c)) 2 ((print (.cursor r c)).length - 1) =
      .ok (showNat r ++ 59 :: showNat c) := by
    have : print (.cursor r c) = [27, 91] ++ ((showNat r ++ 59 :: showNat c) ++ [82]) := by simp [print, CSI]
    rw [this]
    exact slice?_frame _ _ _ _ _ rfl (by simp; omega)
  simp only [decode]
  unfold decodeCursorPosition
  rw [sub?_ok _ _ (by simp [print]; omega)]
  simp only [hs]
  rw [numbersDecode_cons 59 sep59 r h2, numbersDecode_one 59 sep59 c h4]
  have hr : r ≠ 0 := by omega
  have hc : c ≠ 0 := by omega
  simp [hr, hc, denote]

theorem cursor_member (r c : Nat) : cursorPositionRe.Matches (bytes (print (.cursor r c))) := by
  have : bytes (print (.cursor r c)) =
      bytes [27, 91] ++ (bytes (showNat r) ++ (bytes [59] ++ (bytes (showNat c) ++ (bytes [82] ++ [])))) := by
    simp [print, CSI, bytes]
  rw [this]
  exact seq_cons_matches (lit_matches _) (seq_cons_matches (number_matches r) (seq_cons_matches (lit_matches _)
    (seq_cons_matches (number_matches c) (seq_cons_matches (lit_matches _) seq_nil_matches))))

/-! ## SGR mouse -/

theorem mouseName_eq (code : Nat) : mouseName code = buttonName code := by
  unfold mouseName buttonName
  have h1 : code / 64 % 2 = 0 ∨ code / 64 % 2 = 1 := by omega
  have h2 : code % 4 = 0 ∨ code % 4 = 1 ∨ code % 4 = 2 ∨ code % 4 = 3 := by omega
  rcases h1 with h1 | h1 <;> rcases h2 with h2 | h2 | h2 | h2 <;> simp [h1, h2]

theorem mouse_payload (code x y : Nat) (press : Bool) (h : (Msg.mouse code x y press).Valid) :
    decode .mouse (print (.mouse code x y press)) = .ok (some (denote (.mouse code x y press))) := by
  obtain ⟨h0, h1, h2, h3, h4⟩ := h
  let fin := if press then 77 else 109
  have hp : print (.mouse code x y press) =
      [27, 91, 60] ++ ((showNat code ++ 59 :: (showNat x ++ 59 :: showNat y)) ++ [fin]) := by
    simp [print, CSI, fin]
  have hlen : (print (.mouse code x y press)).length - 1 =
      3 + (showNat code ++ 59 :: (showNat x ++ 59 :: showNat y)).length := by
    rw [hp]; simp; omega
  have hs : slice? (print (.mouse code x y press)) 3 ((print (.mouse code x y press)).length - 1) =
      .ok (showNat code ++ 59 :: (showNat x ++ 59 :: showNat y)) := by
    rw [hlen, hp]
    exact slice?_frame _ _ _ _ _ rfl rfl
  have hi : index? (print (.mouse code x y press)) ((print (.mouse code x y press)).length - 1) = .ok fin := by
    rw [hlen, hp]
    have : [27, 91, 60] ++ ((showNat code ++ 59 :: (showNat x ++ 59 :: showNat y)) ++ [fin]) =
        ([27, 91, 60] ++ (showNat code ++ 59 :: (showNat x ++ 59 :: showNat y))) ++ fin :: [] := by simp
    rw [this]
    exact index?_frame _ _ _ _ (by simp; omega)
  simp only [decode]
  unfold decodeMouse
  rw [sub?_ok _ _ (by rw [hp]; simp)]
  simp only [hs]
  rw [numbersDecode_cons 59 sep59 code h0, numbersDecode_cons 59 sep59 x h2, numbersDecode_one 59 sep59 y h4]
  have hx : x ≠ 0 := by omega
  have hy : y ≠ 0 := by omega
  simp only [List.getElem?_cons_zero, List.getElem?_cons_succ, hx, hy, if_false, hi]
  cases press <;> simp [fin, denote, mouseName_eq, modPress]

theorem mouse_member (code x y : Nat) (press : Bool) : mouseRe.Matches (bytes (print (.mouse code x y press))) := by
  have : bytes (print (.mouse code x y press)) =
      bytes [27, 91, 60] ++ (bytes (showNat code) ++ (bytes [59] ++ (bytes (showNat x) ++ (bytes [59] ++
        (bytes (showNat y) ++ (bytes [if press then 77 else 109] ++ [])))))) := by
    simp [print, CSI, bytes]
  rw [this]
  refine seq_cons_matches (lit_matches _) (seq_cons_matches (number_matches code) (seq_cons_matches (lit_matches _)
    (seq_cons_matches (number_matches x) (seq_cons_matches (lit_matches _) (seq_cons_matches (number_matches y)
    (seq_cons_matches ?_ seq_nil_matches))))))
  cases press
  · exact pred_matches _ 109 (by omega) ⟨(109, 109), by simp, by decide⟩
  · exact pred_matches _ 77 (by omega) ⟨(77, 77), by simp, by decide⟩

/-! ## size report -/

theorem splitBy_sep_cons (sep : Nat) (rest : List Nat) : splitBy sep (sep :: rest) = [] :: splitBy sep rest := by
  rw [splitBy]; simp

theorem sizePair_ok (k h w : Nat) (hh : h ≤ usizeMax) (hw : w ≤ usizeMax) :
    sizePair (91 :: k :: 59 :: (showNat h ++ 59 :: (showNat w ++ [116]))) = .ok (some (h, w)) := by
  have hp : (91 :: k :: 59 :: (showNat h ++ 59 :: (showNat w ++ [116]))) =
      [91, k, 59] ++ ((showNat h ++ 59 :: showNat w) ++ [116]) := by simp
  unfold sizePair
  rw [sub?_ok _ _ (by simp)]
  have hs : slice? (91 :: k :: 59 :: (showNat h ++ 59 :: (showNat w ++ [116]))) 3
      ((91 :: k :: 59 :: (showNat h ++ 59 :: (showNat w ++ [116]))).length - 1) = .ok (showNat h ++ 59 :: showNat w) := by
    rw [hp]
    exact slice?_frame _ _ _ _ _ rfl (by simp; omega)
  simp only [hs]
  rw [numbersDecode_cons 59 sep59 h hh, numbersDecode_one 59 sep59 w hw]
  simp

theorem size_payload (ch cw ph pw : Nat) (h : (Msg.size ch cw ph pw).Valid) :
    decode .termSize (print (.size ch cw ph pw)) = .ok (some (denote (.size ch cw ph pw))) := by
  obtain ⟨h1, h2, h3, h4⟩ := h
  have hp : print (.size ch cw ph pw) =
      27 :: ((91 :: 56 :: 59 :: (showNat ch ++ 59 :: (showNat cw ++ [116]))) ++
        27 :: (91 :: 52 :: 59 :: (showNat ph ++ 59 :: (showNat pw ++ [116])))) := by
    simp [print, CSI]
  have hno : ∀ (k a b : Nat), 27 ∉ (91 :: k :: 59 :: (showNat a ++ 59 :: (showNat b ++ [116]))) → True := fun _ _ _ _ => trivial
  have hA : ∀ (k a b : Nat), k ≠ 27 → 27 ∉ (91 :: k :: 59 :: (showNat a ++ 59 :: (showNat b ++ [116]))) := by
    intro k a b hk hm
    simp only [List.mem_cons, List.mem_append] at hm
    rcases hm with hm | hm | hm | hm | hm | hm | hm
    · omega
    · omega
    · omega
    · have := showNat_digits a 27 hm; omega
    · omega
    · have := showNat_digits b 27 hm; omega
    · simp at hm
  simp only [decode]
  unfold decodeTermSize
  rw [hp, splitBy_sep_cons, splitBy_append_sep 27 _ _ (hA 56 ch cw (by omega)),
    splitBy_no_sep 27 _ (hA 52 ph pw (by omega))]
  simp only [sizePair_ok 56 ch cw h1 h2, sizePair_ok 52 ph pw h3 h4, denote]

theorem sizeTail_matches (h w : Nat) : sizeTail.Matches (bytes (59 :: (showNat h ++ 59 :: (showNat w ++ [116])))) := by
  have : bytes (59 :: (showNat h ++ 59 :: (showNat w ++ [116]))) =
      bytes [59] ++ (bytes (showNat h) ++ (bytes [59] ++ (bytes (showNat w) ++ (bytes [116] ++ [])))) := by
    simp [bytes]
  rw [this]
  exact seq_cons_matches (lit_matches _) (seq_cons_matches (number_matches h) (seq_cons_matches (lit_matches _)
    (seq_cons_matches (number_matches w) (seq_cons_matches (lit_matches _) seq_nil_matches))))

theorem size_member (ch cw ph pw : Nat) : termSizeRe.Matches (bytes (print (.size ch cw ph pw))) := by
  have : bytes (print (.size ch cw ph pw)) =
      bytes [27, 91, 56] ++ (bytes (59 :: (showNat ch ++ 59 :: (showNat cw ++ [116]))) ++ (bytes [27, 91, 52] ++
        (bytes (59 :: (showNat ph ++ 59 :: (showNat pw ++ [116]))) ++ []))) := by
    simp [print, CSI, bytes]
  rw [this]
  exact seq_cons_matches (lit_matches _) (seq_cons_matches (sizeTail_matches ch cw) (seq_cons_matches (lit_matches _)
    (seq_cons_matches (sizeTail_matches ph pw) seq_nil_matches)))

/-! ## DECRPM -/

/-- the library's table of DEC private modes agrees with the numbers of the protocol documents -/
theorem decMode_fromUsize (m : PrivateMode) : DecMode.fromUsize m.number = some m.name := by cases m <;> rfl
theorem decStatus_fromUsize (s : ReportStatus) : DecModeStatus.fromUsize s.value = some s.name := by cases s <;> rfl
theorem decMode_small (m : PrivateMode) : m.number ≤ usizeMax := by cases m <;> decide
theorem decStatus_small (s : ReportStatus) : s.value ≤ usizeMax := by cases s <;> decide

theorem decMode_payload (m : PrivateMode) (s : ReportStatus) :
    decode .decMode (print (.decMode m s)) = .ok (some (denote (.decMode m s))) := by
  have hp : print (.decMode m s) = [27, 91, 63] ++ ((showNat m.number ++ 59 :: showNat s.value) ++ [36, 121]) := by
    simp [print, CSI]
  have hs : slice? (print (.decMode m s)) 3 ((print (.decMode m s)).length - 2) =
      .ok (showNat m.number ++ 59 :: showNat s.value) := by
    rw [hp]
    exact slice?_frame _ _ _ _ _ rfl (by simp; omega)
  simp only [decode]
  unfold decodeDecMode
  rw [sub?_ok _ _ (by rw [hp]; simp)]
  simp only [hs]
  rw [numbersDecode_cons 59 sep59 _ (decMode_small m), numbersDecode_one 59 sep59 _ (decStatus_small s)]
  simp [decMode_fromUsize, decStatus_fromUsize, denote]

theorem decMode_member (m : PrivateMode) (s : ReportStatus) : decModeRe.Matches (bytes (print (.decMode m s))) := by
  have : bytes (print (.decMode m s)) =
      bytes [27, 91, 63] ++ (bytes (showNat m.number) ++ (bytes [59] ++ (bytes (showNat s.value) ++ (bytes [36, 121] ++ [])))) := by
    simp [print, CSI, bytes]
  rw [this]
  exact seq_cons_matches (lit_matches _) (seq_cons_matches (number_matches _) (seq_cons_matches (lit_matches _)
    (seq_cons_matches (number_matches _) (seq_cons_matches (lit_matches _) seq_nil_matches))))

/-! ## kitty keyboard level -/

theorem keyboardLevel_payload (flags : Nat) (h : flags ≤ usizeMax) :
    decode .kittyKeyboard (print (.keyboardLevel flags)) = .ok (some (denote (.keyboardLevel flags))) := by
  have hp : print (.keyboardLevel flags) = [27, 91] ++ ((63 :: showNat flags) ++ [117]) := by simp [print, CSI]
  have hs : slice? (print (.keyboardLevel flags)) 2 ((print (.keyboardLevel flags)).length - 1) =
      .ok (63 :: showNat flags) := by
    rw [hp]
    exact slice?_frame _ _ _ _ _ rfl (by simp; omega)
  have hs2 : slice? (63 :: showNat flags) 1 (63 :: showNat flags).length = .ok (showNat flags) := by
    have : (63 :: showNat flags) = [63] ++ (showNat flags ++ []) := by simp
    rw [this]
    exact slice?_frame _ _ _ _ _ rfl (by simp; omega)
  simp only [decode]
  unfold decodeKittyKeyboard
  rw [sub?_ok _ _ (by rw [hp]; simp)]
  simp only [hs, List.head?_cons, if_true, hs2, numberDecode_showNat_small flags h, denote]

theorem keyboardLevel_member (flags : Nat) : kittyKeyboardRe.Matches (bytes (print (.keyboardLevel flags))) := by
  have : bytes (print (.keyboardLevel flags)) =
      bytes [27, 91] ++ ((bytes [63] ++ (bytes (showNat flags) ++ [])) ++ (bytes [117] ++ [])) := by
    simp [print, CSI, bytes]
  rw [this]
  refine seq_cons_matches (lit_matches _) (seq_cons_matches ?_ (seq_cons_matches (lit_matches _) seq_nil_matches))
  refine Re.Matches.alt (e := .seq [lit [63], .plus digit]) (by simp) ?_
  exact seq_cons_matches (lit_matches _) (seq_cons_matches (number_matches flags) seq_nil_matches)


/-! ## DA1 -/

def daTail (trailing : Bool) : List Nat := if trailing then [59] else []

theorem da_print (attrs : List Nat) (trailing : Bool) :
    print (.deviceAttrs attrs trailing) =
      [27, 91, 63] ++ ((joinWith 59 (attrs.map showNat) ++ daTail trailing) ++ [99]) := by
  simp [print, CSI, daTail]

theorem filter_pos_self (l : List Nat) (h : ∀ a ∈ l, 1 ≤ a) : l.filter (0 < ·) = l := by
  rw [List.filter_eq_self]
  intro a ha
  have := h a ha
  simp; omega

theorem deviceAttrs_payload (attrs : List Nat) (trailing : Bool) (h : (Msg.deviceAttrs attrs trailing).Valid) :
    decode .deviceAttrs (print (.deviceAttrs attrs trailing)) = .ok (some (denote (.deviceAttrs attrs trailing))) := by
  obtain ⟨hne, hr⟩ := h
  have hs : slice? (print (.deviceAttrs attrs trailing)) 3 ((print (.deviceAttrs attrs trailing)).length - 1) =
      .ok (joinWith 59 (attrs.map showNat) ++ daTail trailing) := by
    rw [da_print]
    exact slice?_frame _ _ _ _ _ rfl (by simp; omega)
  simp only [decode]
  unfold decodeDeviceAttrs
  rw [sub?_ok _ _ (by rw [da_print]; simp)]
  simp only [hs]
  have hb : ∀ n ∈ attrs, n ≤ usizeMax := fun n hn => (hr n hn).2
  have hp : ∀ n ∈ attrs, 1 ≤ n := fun n hn => (hr n hn).1
  cases trailing with
  | false =>
    simp only [daTail, Bool.false_eq_true, if_false, List.append_nil]
    rw [numbersDecode_joinWith 59 sep59 attrs hne hb, filter_pos_self attrs hp]
    rfl
  | true =>
    simp only [daTail, if_true]
    rw [numbersDecode_joinWith_sep 59 sep59 attrs hne hb, List.filter_append, filter_pos_self attrs hp]
    simp [denote]

theorem daBlocks_matches (attrs : List Nat) (hne : attrs ≠ []) (trailing : Bool) :
    (Re.plus (.seq [number, .opt (lit [59])])).Matches (bytes (joinWith 59 (attrs.map showNat) ++ daTail trailing)) := by
  induction attrs with
  | nil => exact absurd rfl hne
  | cons n rest ih =>
    cases rest with
    | nil =>
      apply Re.Matches.plusOne
      have : bytes (joinWith 59 ([n].map showNat) ++ daTail trailing) =
          bytes (showNat n) ++ (bytes (daTail trailing) ++ []) := by simp [joinWith, bytes]
      rw [this]
      refine seq_cons_matches (number_matches n) (seq_cons_matches ?_ seq_nil_matches)
      cases trailing
      · exact Re.Matches.optNone
      · exact Re.Matches.optSome (lit_matches _)
    | cons m rest' =>
      have := ih (by simp)
      have e : bytes (joinWith 59 ((n :: m :: rest').map showNat) ++ daTail trailing) =
          (bytes (showNat n) ++ (bytes [59] ++ [])) ++ bytes (joinWith 59 ((m :: rest').map showNat) ++ daTail trailing) := by
        simp [joinWith, bytes]
      rw [e]
      exact Re.Matches.plusMore
        (seq_cons_matches (number_matches n) (seq_cons_matches (Re.Matches.optSome (lit_matches _)) seq_nil_matches)) this

theorem deviceAttrs_member (attrs : List Nat) (trailing : Bool) (hne : attrs ≠ []) :
    deviceAttrsRe.Matches (bytes (print (.deviceAttrs attrs trailing))) := by
  have : bytes (print (.deviceAttrs attrs trailing)) =
      bytes [27, 91, 63] ++ (bytes (joinWith 59 (attrs.map showNat) ++ daTail trailing) ++ (bytes [99] ++ [])) := by
    rw [da_print]; simp [bytes]
  rw [this]
  exact seq_cons_matches (lit_matches _) (seq_cons_matches (daBlocks_matches attrs hne trailing)
    (seq_cons_matches (lit_matches _) seq_nil_matches))

/-! ## kitty keyboard `CSI … u` -/

def csiUMods : Option Nat → List Nat
  | some m => 59 :: showNat (m + 1)
  | none => []

theorem csiU_print (code : Nat) (alts : List Nat) (mods : Option Nat) :
    print (.csiU code alts mods) = [27, 91] ++ ((csiUCodes code alts ++ csiUMods mods) ++ [117]) := by
  cases mods <;> simp [print, CSI, csiUMods]

theorem keyboardDecodeKey_ok (code : Nat) (h : CsiUCodeOk code) : keyboardDecodeKey code = some (csiUName code) := by
  obtain ⟨hs, hp⟩ := h
  have hlt : code < 0x110000 := by
    unfold Scalar at hs
    omega
  unfold keyboardDecodeKey csiUName
  by_cases h1 : code = 27
  · simp [h1]
  by_cases h2 : code = 13
  · simp [h2]
  by_cases h3 : code = 9
  · simp [h3]
  by_cases h4 : code = 127
  · simp [h4]
  by_cases h5 : 57376 ≤ code ∧ code ≤ 57398
  · simp [h1, h2, h3, h4, h5]
  · have h6 : code ≤ 4294967295 ∧ ¬ (57344 ≤ code ∧ code ≤ 63743) := by
      refine ⟨by omega, fun hh => h5 (hp hh)⟩
    have hs' : isScalar code = true := by
      unfold isScalar; unfold Scalar at hs; simp; omega
    simp [h1, h2, h3, h4, h5, h6, hs']

theorem showNat_head (n : Nat) : ∃ x xs, showNat n = x :: xs ∧ 48 ≤ x ∧ x ≤ 57 := by
  cases hsn : showNat n with
  | nil => exact absurd hsn (showNat_ne_nil n)
  | cons x xs => exact ⟨x, xs, rfl, showNat_digits n x (by rw [hsn]; simp)⟩

theorem csiUCodes_head (code : Nat) (alts : List Nat) :
    ∃ x xs, csiUCodes code alts = x :: xs ∧ 48 ≤ x ∧ x ≤ 57 := by
  obtain ⟨x, xs, hx, hd⟩ := showNat_head code
  unfold csiUCodes
  cases alts with
  | nil => exact ⟨x, xs, by simp [joinWith, hx], hd⟩
  | cons a rest => exact ⟨x, xs ++ 58 :: joinWith 58 ((a :: rest).map showNat), by simp [joinWith, hx], hd⟩

theorem csiUCodes_bytes (code : Nat) (alts : List Nat) (b : Nat) (hb : b ∈ csiUCodes code alts) : 48 ≤ b ∧ b ≤ 58 := by
  rcases joinWith_showNat_bytes 58 (code :: alts) b hb with h | h <;> omega

theorem csiU_payload (code : Nat) (alts : List Nat) (mods : Option Nat) (h : (Msg.csiU code alts mods).Valid) :
    decode .kittyKeyboard (print (.csiU code alts mods)) = .ok (some (denote (.csiU code alts mods))) := by
  obtain ⟨hc, ha, hm⟩ := h
  have hcode : code ≤ usizeMax := by
    have := hc.1
    unfold Scalar at this
    unfold usizeMax
    omega
  have hs : slice? (print (.csiU code alts mods)) 2 ((print (.csiU code alts mods)).length - 1) =
      .ok (csiUCodes code alts ++ csiUMods mods) := by
    rw [csiU_print]
    exact slice?_frame _ _ _ _ _ rfl (by simp; omega)
  obtain ⟨x, xs, hx, hxd⟩ := csiUCodes_head code alts
  have h59 : 59 ∉ csiUCodes code alts := fun hm => by have := csiUCodes_bytes code alts 59 hm; omega
  have hnums : numbersDecode (csiUCodes code alts) 58 = code :: alts := by
    unfold csiUCodes
    exact numbersDecode_joinWith 58 sep58 (code :: alts) (by simp) (by
      intro n hn
      simp at hn
      rcases hn with rfl | hn
      · exact hcode
      · exact ha n hn)
  simp only [decode]
  unfold decodeKittyKeyboard
  rw [sub?_ok _ _ (by rw [csiU_print]; simp)]
  simp only [hs]
  have hhead : (csiUCodes code alts ++ csiUMods mods).head? ≠ some 63 := by
    rw [hx]; simp; omega
  simp only [hhead, if_false]
  cases mods with
  | none =>
    simp only [csiUMods, List.append_nil]
    rw [splitBy_no_sep 59 _ h59]
    simp [hnums, keyboardDecodeKey_ok code hc, denote]
  | some m =>
    have hm' : m < 256 := hm m rfl
    simp only [csiUMods]
    rw [splitBy_append_sep 59 _ _ h59, splitBy_showNat 59 sep59]
    have hms : numbersDecode (showNat (m + 1)) 58 = [m + 1] :=
      numbersDecode_one 58 sep58 (m + 1) (by unfold usizeMax; omega)
    simp only [hnums, List.head?_cons, Option.getD_some, keyboardDecodeKey_ok code hc, hms]
    by_cases h0 : m = 0
    · subst h0; simp [denote]
    · have : m + 1 > 1 := by omega
      simp [this, denote]
      omega

theorem csiU_member (code : Nat) (alts : List Nat) (mods : Option Nat) :
    kittyKeyboardRe.Matches (bytes (print (.csiU code alts mods))) := by
  have : bytes (print (.csiU code alts mods)) =
      bytes [27, 91] ++ (bytes (csiUCodes code alts ++ csiUMods mods) ++ (bytes [117] ++ [])) := by
    rw [csiU_print]; simp [bytes]
  rw [this]
  refine seq_cons_matches (lit_matches _) (seq_cons_matches ?_ (seq_cons_matches (lit_matches _) seq_nil_matches))
  refine Re.Matches.alt (e := .star (.pred [(48, 59)])) (by simp) ?_
  apply star_pred_matches
  intro b hb
  have hr : 48 ≤ b ∧ b ≤ 59 := by
    rw [List.mem_append] at hb
    rcases hb with hb | hb
    · have := csiUCodes_bytes code alts b hb; omega
    · cases mods with
      | none => simp [csiUMods] at hb
      | some m =>
        simp only [csiUMods, List.mem_cons] at hb
        rcases hb with rfl | hb
        · omega
        · have := showNat_digits (m + 1) b hb; omega
  exact ⟨by omega, (48, 59), by simp, by simpa using hr⟩

end SurfProofs.ProtoNumeric
