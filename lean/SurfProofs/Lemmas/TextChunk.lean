import SurfModel.TextLayout
import SurfProofs.Lemmas.Utf8Stream
import SurfProofs.Lemmas.TextWriter
import SurfProofs.Lemmas.TextLayout
/-!
Lemmas for `C09_chunking`: the `write` loop of `TerminalWriter` / `Utf8CellWriter` in terms of the items
`Utf8Decoder` produces, sinks that stop accepting (`put_char` returned `false`), and the instance for
`TerminalWriter`.
-/
namespace SurfProofs.Lemmas.TextChunk
open SurfModel.Tokenizer SurfModel.Shape SurfModel.TextLayout SurfProofs.Lemmas.TextWriter

variable {σ π O : Type}

/-- how far a stream of decoder results gets -/
inductive Flag where
  | run       -- everything was put
  | stopped   -- `put_char` returned `false`
  | err       -- the decoder reported invalid input
  deriving DecidableEq

/-- the decoder's results handed to the sink in order, up to the first refusal or decoding error;
`none` = `put_char` panicked -/
def feed (put : π → Nat → Option (π × Bool)) : π → List UItem → Option (π × Flag)
  | p, [] => some (p, .run)
  | p, .err _ :: _ => some (p, .err)
  | p, .chr bs :: rest =>
    match utf8Decode bs with
    | none => none
    | some ch =>
      match put p ch with
      | none => none
      | some (p', false) => some (p', .stopped)
      | some (p', true) => feed put p' rest

theorem feed_append (put : π → Nat → Option (π × Bool)) (p : π) (l1 l2 : List UItem) :
    feed put p (l1 ++ l2) = match feed put p l1 with
      | some (p', .run) => feed put p' l2
      | r => r := by
  induction l1 generalizing p with
  | nil => simp [feed]
  | cons it rest ih =>
    cases it with
    | err b => simp [feed]
    | chr bs =>
      simp only [List.cons_append, feed]
      cases utf8Decode bs with
      | none => rfl
      | some ch =>
        simp only
        cases put p ch with
        | none => rfl
        | some r =>
          obtain ⟨p', b⟩ := r
          cases b with
          | false => rfl
          | true => exact ih p'

/-- one `write` call, given what the decoder makes of the buffer -/
theorem writeGo_feed (A : Auto σ) (put : π → Nat → Option (π × Bool)) (fuel : Nat) (p : π) (d d' : USt σ)
    (buf : List UInt8) (items : List UItem) (hf : buf.length < fuel) (hu : ugo A d buf = .ok (items, d')) :
    match feed put p items with
    | none => writeGo A put fuel p d buf = .error .panic
    | some (p', .run) => writeGo A put fuel p d buf = .ok (p', d', true)
    | some (p', .stopped) => ∃ d'', writeGo A put fuel p d buf = .ok (p', d'', true)
    | some (p', .err) => ∃ d'', writeGo A put fuel p d buf = .ok (p', d'', false) := by
  induction fuel generalizing p d buf items with
  | zero => omega
  | succ fuel ih =>
    simp only [writeGo]
    have hdu := udecode_ugo A d buf
    split at hdu
    · rename_i e he
      rw [hu] at hdu; cases hdu
    · rename_i s' rest' he
      rw [hu] at hdu
      obtain ⟨_, h2⟩ := hdu
      cases h2
      simp [he, feed]
    · rename_i it s' rest' he
      obtain ⟨hlen, h2⟩ := hdu
      rw [hu] at h2
      cases hr : ugo A s' rest' with
      | error e => rw [hr] at h2; simp [consU] at h2
      | ok q =>
        obtain ⟨items', d2⟩ := q
        rw [hr] at h2
        simp only [consU, Except.ok.injEq, Prod.mk.injEq] at h2
        obtain ⟨hi, hd⟩ := h2
        subst hi; subst hd
        simp only [he]
        cases it with
        | err b => simp [feed]
        | chr bs =>
          simp only [feed]
          cases utf8Decode bs with
          | none => simp
          | some ch =>
            simp only
            cases put p ch with
            | none => simp
            | some r =>
              obtain ⟨p', b⟩ := r
              cases b with
              | false => exact ⟨s', rfl⟩
              | true => exact ih p' s' rest' items' (by omega) hr

/-- laws of a sink: an invariant kept by `put_char`; after a refusal the sink is dead; a dead sink stays
dead and what is observed of it never changes again -/
structure SinkLaws (put : π → Nat → Option (π × Bool)) (obs : π → O) (I Dead : π → Prop) : Prop where
  inv : ∀ p c p' b, I p → put p c = some (p', b) → I p'
  stop : ∀ p c p', I p → put p c = some (p', false) → Dead p'
  dead : ∀ p c p' b, I p → Dead p → put p c = some (p', b) → Dead p' ∧ obs p' = obs p

theorem feed_inv {put : π → Nat → Option (π × Bool)} {obs : π → O} {I Dead : π → Prop}
    (L : SinkLaws put obs I Dead) (p : π) (items : List UItem) (hI : I p) :
    ∀ p' f, feed put p items = some (p', f) → I p' ∧ (f = .stopped → Dead p') := by
  induction items generalizing p with
  | nil => intro p' f h; simp [feed] at h; obtain ⟨rfl, rfl⟩ := h; exact ⟨hI, by simp⟩
  | cons it rest ih =>
    intro p' f h
    cases it with
    | err b => simp [feed] at h; obtain ⟨rfl, rfl⟩ := h; exact ⟨hI, by simp⟩
    | chr bs =>
      simp only [feed] at h
      cases hd : utf8Decode bs with
      | none => simp [hd] at h
      | some ch =>
        simp only [hd] at h
        cases hp : put p ch with
        | none => simp [hp] at h
        | some r =>
          obtain ⟨p1, b⟩ := r
          simp only [hp] at h
          cases b with
          | false =>
            simp at h
            obtain ⟨rfl, rfl⟩ := h
            exact ⟨L.inv p ch _ _ hI hp, fun _ => L.stop p ch _ hI hp⟩
          | true => exact ih p1 (L.inv p ch _ _ hI hp) p' f h

theorem dead_writeGo {put : π → Nat → Option (π × Bool)} {obs : π → O} {I Dead : π → Prop}
    (L : SinkLaws put obs I Dead) (A : Auto σ) (fuel : Nat) (p : π) (d : USt σ) (buf : List UInt8)
    (hI : I p) (hD : Dead p) :
    ∀ p' d' b, writeGo A put fuel p d buf = .ok (p', d', b) → I p' ∧ Dead p' ∧ obs p' = obs p := by
  induction fuel generalizing p d buf with
  | zero => intro p' d' b h; simp [writeGo] at h
  | succ fuel ih =>
    intro p' d' b h
    simp only [writeGo] at h
    split at h
    · cases h
    · cases h; exact ⟨hI, hD, rfl⟩
    · cases h; exact ⟨hI, hD, rfl⟩
    · split at h
      · cases h
      · rename_i ch _
        split at h
        · cases h
        · rename_i p1 hp
          cases h
          have := L.dead p ch p' false hI hD hp
          exact ⟨L.inv p ch _ _ hI hp, this.1, this.2⟩
        · rename_i p1 hp
          have h1 := L.dead p ch p1 true hI hD hp
          have := ih p1 _ _ (L.inv p ch _ _ hI hp) h1.1 p' d' b h
          exact ⟨this.1, this.2.1, this.2.2.trans h1.2⟩

theorem dead_session {put : π → Nat → Option (π × Bool)} {obs : π → O} {I Dead : π → Prop}
    (L : SinkLaws put obs I Dead) (A : Auto σ) (chunks : List (List UInt8)) (p : π) (d : USt σ)
    (hI : I p) (hD : Dead p) :
    ∀ p' rs, session A put p d chunks = .ok (p', rs) → obs p' = obs p := by
  induction chunks generalizing p d with
  | nil => intro p' rs h; simp [session] at h; rw [h.1]
  | cons chunk cs ih =>
    intro p' rs h
    simp only [session] at h
    split at h
    · cases h
    · rename_i p1 d1 hw
      cases h
      exact (dead_writeGo L A _ p d chunk hI hD _ _ _ hw).2.2
    · rename_i p1 d1 hw
      have h1 := dead_writeGo L A _ p d chunk hI hD _ _ _ hw
      split at h
      · cases h
      · rename_i p2 rs2 hs
        cases h
        exact (ih p1 d1 h1.1 h1.2.1 _ _ hs).trans h1.2.2

/-- the chunked session against the items of the whole stream -/
theorem session_feed {put : π → Nat → Option (π × Bool)} {obs : π → O} {I Dead : π → Prop}
    (L : SinkLaws put obs I Dead) (A : Auto σ) (chunks : List (List UInt8)) (p : π) (d dEnd : USt σ)
    (per : List (List UItem)) (hI : I p)
    (hdec : ufeedAll A d chunks = .ok (per, dEnd)) :
    ∀ p1 rs, session A put p d chunks = .ok (p1, rs) →
      ∃ p2 f, feed put p per.flatten = some (p2, f) ∧ obs p1 = obs p2 := by
  induction chunks generalizing p d per with
  | nil =>
    intro p1 rs h
    simp [session] at h
    simp [ufeedAll] at hdec
    rw [hdec.1]
    exact ⟨p, .run, by simp [feed], by rw [h.1]⟩
  | cons chunk cs ih =>
    intro p1 rs h
    simp only [ufeedAll] at hdec
    cases hu : ufeed A d chunk with
    | error e => rw [hu] at hdec; cases hdec
    | ok q =>
      obtain ⟨items, d1⟩ := q
      rw [hu] at hdec
      simp only at hdec
      cases hrest : ufeedAll A d1 cs with
      | error e => rw [hrest] at hdec; cases hdec
      | ok q2 =>
        obtain ⟨more, dE⟩ := q2
        rw [hrest] at hdec
        simp only [Except.ok.injEq, Prod.mk.injEq] at hdec
        obtain ⟨hper, hdE⟩ := hdec
        subst hper; subst hdE
        rw [ufeed_ugo] at hu
        have hw := writeGo_feed A put (chunk.length + 1) p d d1 chunk items (by omega) hu
        simp only [session, write] at h
        simp only [List.flatten_cons, feed_append]
        cases hfd : feed put p items with
        | none =>
          rw [hfd] at hw
          simp only at hw
          rw [hw] at h
          cases h
        | some r =>
          obtain ⟨p', f⟩ := r
          have hfi := feed_inv L p items hI p' f hfd
          rw [hfd] at hw
          cases f with
          | run =>
            simp only at hw ⊢
            rw [hw] at h
            simp only at h
            split at h
            · cases h
            · rename_i p2 rs2 hs
              cases h
              exact ih p' d1 more hfi.1 hrest p1 rs2 hs
          | stopped =>
            simp only at hw ⊢
            obtain ⟨d'', hw⟩ := hw
            rw [hw] at h
            simp only at h
            split at h
            · cases h
            · rename_i p2 rs2 hs
              cases h
              exact ⟨p', .stopped, rfl, dead_session L A cs p' d'' hfi.1 (hfi.2 rfl) p1 rs2 hs⟩
          | err =>
            simp only at hw ⊢
            obtain ⟨d'', hw⟩ := hw
            rw [hw] at h
            simp only at h
            cases h
            exact ⟨_, .err, rfl, rfl⟩

/-- one write of the whole stream against the items of the whole stream -/
theorem single_feed (A : Auto σ) (put : π → Nat → Option (π × Bool)) (p : π) (d dEnd : USt σ)
    (buf : List UInt8) (items : List UItem) (hu : ugo A d buf = .ok (items, dEnd)) :
    ∀ p2 rs, session A put p d [buf] = .ok (p2, rs) → ∃ f, feed put p items = some (p2, f) := by
  intro p2 rs h
  have hw := writeGo_feed A put (buf.length + 1) p d dEnd buf items (by omega) hu
  simp only [session, write] at h
  cases hfd : feed put p items with
  | none => rw [hfd] at hw; simp only at hw; rw [hw] at h; cases h
  | some r =>
    obtain ⟨p', f⟩ := r
    rw [hfd] at hw
    cases f with
    | run => simp only at hw; rw [hw] at h; simp at h; exact ⟨.run, by rw [h.1]⟩
    | stopped => obtain ⟨d'', hw⟩ := hw; rw [hw] at h; simp at h; exact ⟨.stopped, by rw [h.1]⟩
    | err => obtain ⟨d'', hw⟩ := hw; rw [hw] at h; simp at h; exact ⟨.err, by rw [h.1]⟩


/-! ### `TerminalWriter` as a sink -/

open SurfProofs.Lemmas.TextLayout

/-- no further `put_cell` can reach the surface: the cursor is below the last row, or there are no columns -/
def WDead (w : Writer) : Prop := w.shape.height ≤ w.st.row ∨ w.shape.width = 0

theorem step_pos (W : Nat) (wraps : Bool) (s : LSt) (it : Item) (hok : ItemOk it) (r c : Nat)
    (h : (step W wraps s it).2 = some (r, c)) :
    (step W wraps s it).1.row = r ∧ s.row ≤ r ∧ (c < W ∨ c = 0) := by
  cases it with
  | nl => simp [step] at h
  | cr => simp [step] at h
  | tab => simp [step] at h
  | skip => simp [step] at h
  | sized ih iw =>
    obtain ⟨hh, hw⟩ : 1 ≤ ih ∧ 1 ≤ iw := hok
    have hz : ¬ (ih = 0 ∨ iw = 0) := by omega
    simp only [step, layoutSized, hz, if_false] at h ⊢
    by_cases hf : s.col + iw < U ∧ s.col + iw ≤ W
    · simp only [hf, and_self, if_true] at h ⊢
      simp only [Option.some.injEq, Prod.mk.injEq] at h
      obtain ⟨rfl, rfl⟩ := h
      simp; omega
    · simp only [hf, if_false] at h ⊢
      cases wraps with
      | false => simp at h
      | true =>
        simp only [Bool.not_true, Bool.false_eq_true, if_false, Option.some.injEq, Prod.mk.injEq] at h ⊢
        obtain ⟨rfl, rfl⟩ := h
        simp

theorem forIn?_id {ι τ : Type} (l : List ι) (f : ι → τ → Option τ) (s : τ) (h : ∀ i ∈ l, ∀ s, f i s = some s) :
    forIn? l f s = some s := by
  induction l with
  | nil => rfl
  | cons i rest ih =>
    simp only [forIn?, h i List.mem_cons_self s]
    exact ih (fun j hj => h j (List.mem_cons_of_mem _ hj))

theorem fillFace_dead (sh : Shape) (face : Face) (sr sc er ec : Nat) (m : MutSt Cell)
    (hd : sh.height ≤ sr ∨ sh.width = 0) : fillFace sh face sr sc er ec m = some m := by
  unfold fillFace
  simp only
  rcases hd with hd | hd
  · have : min (er + 1) sh.height - sr = 0 := by omega
    rw [this]
    rfl
  · rw [hd]
    exact forIn?_id _ _ _ (fun i _ s => rfl)

theorem putPlain_dead (w : Writer) (cell : Cell) (hD : WDead w) :
    ∀ w' b, putPlain w cell = some (w', b) → WDead w' ∧ w'.data = w.data ∧ w'.shape = w.shape := by
  intro w' b h
  unfold putPlain at h
  simp only at h
  have hrow := (step_row w.shape.width w.wraps w.st (classify w.ctx cell.kind)).1
  rw [← cellLayout_eq_step] at hrow
  cases hpos : (cellLayout w.ctx w.shape.width w.wraps cell.kind w.st).2 with
  | some p =>
    obtain ⟨r, c⟩ := p
    have hsp := step_pos w.shape.width w.wraps w.st (classify w.ctx cell.kind) (classify_ok _ _) r c
      (by rw [← cellLayout_eq_step]; exact hpos)
    rw [← cellLayout_eq_step] at hsp
    have hout : (r ≥ w.shape.height || c ≥ w.shape.width) = true := by
      simp only [Bool.or_eq_true, decide_eq_true_eq]
      rcases hD with hD | hD <;> omega
    simp only [hpos, SurfModel.Shape.get, hout, if_true] at h
    simp only [Option.some.injEq, Prod.mk.injEq] at h
    obtain ⟨rfl, _⟩ := h
    refine ⟨?_, rfl, rfl⟩
    unfold WDead at hD ⊢
    simp only
    rcases hD with hD | hD
    · left; omega
    · right; exact hD
  | none =>
    simp only [hpos] at h
    have hfill := fillFace_dead w.shape (w.face.overlay cell.face) w.st.row w.st.col
      (cellLayout w.ctx w.shape.width w.wraps cell.kind w.st).1.row
      (cellLayout w.ctx w.shape.width w.wraps cell.kind w.st).1.col
      { data := w.data, touched := w.touched } hD
    split at h
    · rw [hfill] at h
      simp only [Option.some.injEq, Prod.mk.injEq] at h
      obtain ⟨rfl, _⟩ := h
      refine ⟨?_, rfl, rfl⟩
      unfold WDead at hD ⊢
      simp only
      rcases hD with hD | hD
      · left; omega
      · right; exact hD
    · simp only [Option.some.injEq, Prod.mk.injEq] at h
      obtain ⟨rfl, _⟩ := h
      refine ⟨?_, rfl, rfl⟩
      unfold WDead at hD ⊢
      simp only
      rcases hD with hD | hD
      · left; omega
      · right; exact hD

theorem putPlain_stop (w : Writer) (cell : Cell) (hok : ShOk w.shape w.data.length) :
    ∀ w', putPlain w cell = some (w', false) → WDead w' := by
  intro w' h
  obtain ⟨w1, b, t, h1, he, hst, hm⟩ := putPlain_ok w cell hok
  rw [h] at h1
  simp only [Option.some.injEq, Prod.mk.injEq] at h1
  obtain ⟨rfl, rfl⟩ := h1
  cases hpos : (cellLayout w.ctx w.shape.width w.wraps cell.kind w.st).2 with
  | none => rw [hpos] at hm; simp at hm
  | some p =>
    obtain ⟨r, c⟩ := p
    rw [hpos] at hm
    simp only at hm
    have hsp := step_pos w.shape.width w.wraps w.st (classify w.ctx cell.kind) (classify_ok _ _) r c
      (by rw [← cellLayout_eq_step]; exact hpos)
    rw [← cellLayout_eq_step] at hsp
    by_cases hin : r < w.shape.height ∧ c < w.shape.width
    · simp [hin] at hm
    · unfold WDead
      rw [he.shape, hst]
      omega

theorem putChar_eq (w : Writer) (c : Nat) : putChar w c = putPlain w ⟨w.face, .chr c⟩ := rfl

/-- `TerminalWriter` with `put_char` is a lawful sink; what is observed is the backing slice -/
theorem writer_laws : SinkLaws putChar (fun w : Writer => w.data) (fun w => ShOk w.shape w.data.length) WDead where
  inv := by
    intro p c p' b hI h
    rw [putChar_eq] at h
    obtain ⟨w1, b1, t, h1, he, _⟩ := putPlain_ok p ⟨p.face, .chr c⟩ hI
    rw [h] at h1
    simp only [Option.some.injEq, Prod.mk.injEq] at h1
    obtain ⟨rfl, rfl⟩ := h1
    exact ShOk_of_ext he hI
  stop := by
    intro p c p' hI h
    rw [putChar_eq] at h
    exact putPlain_stop p _ hI p' h
  dead := by
    intro p c p' b _ hD h
    rw [putChar_eq] at h
    have := putPlain_dead p _ hD p' b h
    exact ⟨this.1, this.2.1⟩

/-- `Text` with `put_char` is a lawful sink that never refuses -/
theorem text_laws : SinkLaws Text.putChar (fun t : Text => t.cells) (fun _ => True) (fun _ => False) where
  inv := by intros; trivial
  stop := by
    intro p c p' _ h
    simp [Text.putChar, Text.putCell] at h
  dead := by intro p c p' b _ hD; exact absurd hD id


/-! ### `TTYCellWriter` -/

theorem applyCmds_append (w : Writer) (l1 l2 : List Cmd) :
    applyCmds w (l1 ++ l2) = (applyCmds w l1).bind fun w' => applyCmds w' l2 := by
  induction l1 generalizing w with
  | nil => simp [applyCmds]
  | cons c cs ih =>
    simp only [List.cons_append, applyCmds]
    cases applyCmd w c with
    | none => rfl
    | some w' => exact ih w'

/-- the session in terms of all decoded items, when the decoder does not fail -/
theorem ttySession_items (A : Auto σ) (interp : Item σ → Cmd) (chunks : List (List UInt8)) (w : Writer)
    (d dEnd : DSt σ) (per : List (List (Item σ))) (h : feedAll A d chunks = .ok (per, dEnd)) :
    ttySession A interp w d chunks =
      match applyCmds w (per.flatten.map interp) with
      | none => .error .panic
      | some w' => .ok (w', dEnd) := by
  induction chunks generalizing w d per with
  | nil =>
    simp [feedAll] at h
    obtain ⟨rfl, rfl⟩ := h
    simp [ttySession, applyCmds]
  | cons chunk cs ih =>
    simp only [feedAll] at h
    cases hd : decodeInto A d chunk with
    | error e => rw [hd] at h; cases h
    | ok q =>
      obtain ⟨items, d1⟩ := q
      rw [hd] at h
      simp only at h
      cases hr : feedAll A d1 cs with
      | error e => rw [hr] at h; cases h
      | ok q2 =>
        obtain ⟨more, dE⟩ := q2
        rw [hr] at h
        simp only [Except.ok.injEq, Prod.mk.injEq] at h
        obtain ⟨rfl, rfl⟩ := h
        simp only [ttySession, ttyWrite, hd, List.flatten_cons, List.map_append, applyCmds_append]
        cases applyCmds w (items.map interp) with
        | none => rfl
        | some w1 =>
          simp only [Option.bind_some]
          exact ih w1 d1 more hr


/-! ### containment of the byte writers -/

/-- same surface; data changed only at in-window offsets appended to `touched` -/
def Contained (w w' : Writer) : Prop :=
  w'.shape = w.shape ∧ ∃ t, w'.touched = w.touched ++ t ∧ DExt w.shape w.data w'.data t

theorem Contained.refl (w : Writer) : Contained w w := ⟨rfl, [], by simp, DExt.refl _ _⟩

theorem Contained.trans {a b c : Writer} (h1 : Contained a b) (h2 : Contained b c) : Contained a c := by
  obtain ⟨s1, t1, e1, d1⟩ := h1
  obtain ⟨s2, t2, e2, d2⟩ := h2
  exact ⟨s2.trans s1, t1 ++ t2, by rw [e2, e1, List.append_assoc], d1.trans (s1 ▸ d2)⟩

theorem Contained.of_ext {w w' : Writer} {t : List Nat} (h : WExt w w' t) : Contained w w' :=
  ⟨h.shape, t, h.touched, h.data⟩

theorem Contained.shOk {w w' : Writer} (h : Contained w w') (hok : ShOk w.shape w.data.length) :
    ShOk w'.shape w'.data.length := by
  obtain ⟨s, t, _, d⟩ := h
  rw [s, d.len]; exact hok

theorem putChar_contained (w : Writer) (c : Nat) (hok : ShOk w.shape w.data.length) :
    ∃ w' b, putChar w c = some (w', b) ∧ Contained w w' := by
  obtain ⟨w', b, t, h, he, _⟩ := putPlain_ok w ⟨w.face, .chr c⟩ hok
  exact ⟨w', b, h, Contained.of_ext he⟩

theorem writeGo_contained (A : Auto σ) (fuel : Nat) (w : Writer) (d : USt σ) (buf : List UInt8)
    (hok : ShOk w.shape w.data.length) :
    ∀ w' d' b, writeGo A putChar fuel w d buf = .ok (w', d', b) → Contained w w' := by
  induction fuel generalizing w d buf with
  | zero => intro w' d' b h; simp [writeGo] at h
  | succ fuel ih =>
    intro w' d' b h
    simp only [writeGo] at h
    split at h
    · cases h
    · cases h; exact Contained.refl w
    · cases h; exact Contained.refl w
    · split at h
      · cases h
      · rename_i ch _
        obtain ⟨w1, b1, hp, hc⟩ := putChar_contained w ch hok
        rw [hp] at h
        cases b1 with
        | false => simp only at h; cases h; exact hc
        | true => simp only at h; exact hc.trans (ih w1 _ _ (hc.shOk hok) w' d' b h)

theorem session_contained (A : Auto σ) (chunks : List (List UInt8)) (w : Writer) (d : USt σ)
    (hok : ShOk w.shape w.data.length) :
    ∀ w' rs, session A putChar w d chunks = .ok (w', rs) → Contained w w' := by
  induction chunks generalizing w d with
  | nil => intro w' rs h; simp [session] at h; rw [← h.1]; exact Contained.refl w
  | cons chunk cs ih =>
    intro w' rs h
    simp only [session, write] at h
    split at h
    · cases h
    · rename_i w1 d1 hw
      cases h
      exact writeGo_contained A _ w d chunk hok _ _ _ hw
    · rename_i w1 d1 hw
      have h1 := writeGo_contained A _ w d chunk hok _ _ _ hw
      split at h
      · cases h
      · rename_i w2 rs2 hs
        cases h
        exact h1.trans (ih w1 d1 (h1.shOk hok) _ _ hs)

theorem applyCmds_contained (w : Writer) (cmds : List Cmd) (hok : ShOk w.shape w.data.length) :
    ∃ w', applyCmds w cmds = some w' ∧ Contained w w' := by
  induction cmds generalizing w with
  | nil => exact ⟨w, rfl, Contained.refl w⟩
  | cons c cs ih =>
    have h1 : ∃ w1, applyCmd w c = some w1 ∧ Contained w w1 := by
      cases c with
      | char ch =>
        obtain ⟨w1, b1, hp, hc⟩ := putChar_contained w ch hok
        exact ⟨w1, by simp [applyCmd, hp], hc⟩
      | face f => exact ⟨_, rfl, rfl, [], by simp, DExt.refl _ _⟩
      | image ph pw =>
        obtain ⟨w1, b1, t, hp, he⟩ := putCell_ok w ⟨Face.dflt, .image ph pw⟩ hok
        exact ⟨w1, by simp [applyCmd, hp], Contained.of_ext he⟩
      | other => exact ⟨w, rfl, Contained.refl w⟩
    obtain ⟨w1, hp, hc⟩ := h1
    obtain ⟨w2, hp2, hc2⟩ := ih w1 (hc.shOk hok)
    exact ⟨w2, by simp only [applyCmds, hp, hp2], hc.trans hc2⟩

end SurfProofs.Lemmas.TextChunk
