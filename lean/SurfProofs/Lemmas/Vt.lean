import SurfModel.Vt
/-! Helper lemmas for C05 (decimal printing, parser runs over structured byte strings). -/
namespace SurfProofs.Lemmas.Vt
open SurfModel.Vt

/-! ### decimal -/

theorem showNat_digits (n : Nat) : ∀ d ∈ showNat n, 48 ≤ d ∧ d ≤ 57 := by
  induction n using Nat.strongRecOn with
  | _ n ih =>
    intro d hd
    rw [showNat] at hd
    split at hd
    · simp at hd; omega
    · simp at hd
      rcases hd with hd | hd
      · exact ih (n / 10) (by omega) d hd
      · omega

theorem showNat_ne_nil (n : Nat) : showNat n ≠ [] := by
  rw [showNat]; split <;> simp

def readDec (ds : List Nat) : Nat := ds.foldl (fun acc d => acc * 10 + (d - 48)) 0

theorem readDec_append (a : List Nat) (d : Nat) : readDec (a ++ [d]) = readDec a * 10 + (d - 48) := by
  simp [readDec, List.foldl_append]

theorem readDec_showNat (n : Nat) : readDec (showNat n) = n := by
  induction n using Nat.strongRecOn with
  | _ n ih =>
    rw [showNat]
    split
    · simp [readDec]
    · rw [readDec_append, ih (n / 10) (by omega)]; omega

theorem all_isDigit_showNat (n : Nat) : (showNat n).all isDigit = true := by
  rw [List.all_eq_true]
  intro d hd
  have := showNat_digits n d hd
  simp [isDigit]; omega

theorem readNat?_showNat (n : Nat) : readNat? (showNat n) = some (some n) := by
  unfold readNat?
  simp only [showNat_ne_nil, if_false, all_isDigit_showNat, if_true]
  have := readDec_showNat n
  unfold readDec at this
  rw [this]

/-! ### the parser over appended strings -/

theorem run_append (s : PState) (a b : List Nat) :
    run s (a ++ b) = ((run (run s a).1 b).1, (run s a).2 ++ (run (run s a).1 b).2) := by
  induction a generalizing s with
  | nil => simp [run]
  | cons x xs ih => simp [run, ih, List.append_assoc]

/-- parameter bytes accumulate -/
theorem run_csi_params (ps ds rest : List Nat) (h : ∀ d ∈ ds, 0x30 ≤ d ∧ d < 0x40) :
    run (.csi ps []) (ds ++ rest) = run (.csi (ps ++ ds) []) rest := by
  induction ds generalizing ps with
  | nil => simp
  | cons d ds ih =>
    have hd := h d (by simp)
    have h27 : d ≠ 27 := by omega
    simp only [List.cons_append, run, step]
    simp only [h27, if_false, hd.1, hd.2, and_self, if_true]
    rw [ih (ps ++ [d]) (fun x hx => h x (by simp [hx]))]
    simp [List.append_assoc]

/-- OSC payload bytes accumulate -/
theorem run_osc_data (data ds rest : List Nat) (h : ∀ d ∈ ds, d ≠ 7 ∧ d ≠ 27) :
    run (.osc data) (ds ++ rest) = run (.osc (data ++ ds)) rest := by
  induction ds generalizing data with
  | nil => simp
  | cons d ds ih =>
    have hd := h d (by simp)
    simp only [List.cons_append, run, step]
    simp only [hd.1, hd.2, if_false]
    rw [ih (data ++ [d]) (fun x hx => h x (by simp [hx]))]
    simp [List.append_assoc]

theorem run_dcs_data (data ds rest : List Nat) (h : ∀ d ∈ ds, d ≠ 27) :
    run (.dcs data) (ds ++ rest) = run (.dcs (data ++ ds)) rest := by
  induction ds generalizing data with
  | nil => simp
  | cons d ds ih =>
    have hd := h d (by simp)
    simp only [List.cons_append, run, step]
    simp only [hd, if_false]
    rw [ih (data ++ [d]) (fun x hx => h x (by simp [hx]))]
    simp [List.append_assoc]

theorem run_csiB (rest : List Nat) : run .ground (csiB ++ rest) = run (.csi [] []) rest := by
  simp [csiB, run, step, stepGround, stepEscape]

theorem run_csi_final (ps inter : List Nat) (fin : Nat) (hf : 0x40 ≤ fin ∧ fin < 0x7f) (rest : List Nat) :
    run (.csi ps inter) (fin :: rest) = ((run .ground rest).1, .csi ps inter fin :: (run .ground rest).2) := by
  have h1 : fin ≠ 27 := by omega
  have h2 : ¬ (0x30 ≤ fin ∧ fin < 0x40) := by omega
  have h3 : ¬ (0x20 ≤ fin ∧ fin < 0x30) := by omega
  simp [run, step, h1, h2, h3, hf.1, hf.2]

theorem run_csi_inter1 (ps : List Nat) (i : Nat) (hi : 0x20 ≤ i ∧ i < 0x30) (rest : List Nat) :
    run (.csi ps []) (i :: rest) = run (.csi ps [i]) rest := by
  have i1 : i ≠ 27 := by omega
  have i2 : ¬ (0x30 ≤ i ∧ i < 0x40) := by omega
  simp [run, step, i1, i2, hi.1, hi.2]

/-- a whole CSI sequence with parameter bytes only and a final byte, followed by anything -/
theorem run_csi (ps : List Nat) (fin : Nat) (rest : List Nat) (hp : ∀ d ∈ ps, 0x30 ≤ d ∧ d < 0x40)
    (hf : 0x40 ≤ fin ∧ fin < 0x7f) :
    run .ground (csiB ++ ps ++ fin :: rest) = ((run .ground rest).1, .csi ps [] fin :: (run .ground rest).2) := by
  rw [List.append_assoc, run_csiB, run_csi_params [] ps _ hp, List.nil_append, run_csi_final _ _ _ hf]

/-- CSI with one intermediate byte -/
theorem run_csi_inter (ps : List Nat) (i fin : Nat) (rest : List Nat) (hp : ∀ d ∈ ps, 0x30 ≤ d ∧ d < 0x40)
    (hi : 0x20 ≤ i ∧ i < 0x30) (hf : 0x40 ≤ fin ∧ fin < 0x7f) :
    run .ground (csiB ++ ps ++ i :: fin :: rest) = ((run .ground rest).1, .csi ps [i] fin :: (run .ground rest).2) := by
  rw [List.append_assoc, run_csiB, run_csi_params [] ps _ hp, List.nil_append, run_csi_inter1 _ _ hi,
    run_csi_final _ _ _ hf]

theorem run_nil (s : PState) : run s [] = (s, []) := rfl

/-! ### splitting parameters -/

theorem splitBy_ne_nil (sep : Nat) (l : List Nat) : splitBy sep l ≠ [] := by
  induction l with
  | nil => simp [splitBy]
  | cons b bs ih =>
    unfold splitBy
    split
    · simp
    · split <;> simp

theorem splitBy_no_sep (sep : Nat) (c : List Nat) (h : sep ∉ c) : splitBy sep c = [c] := by
  induction c with
  | nil => simp [splitBy]
  | cons b bs ih =>
    have hb : b ≠ sep := by intro e; apply h; simp [e]
    have hbs : sep ∉ bs := by intro e; apply h; simp [e]
    unfold splitBy
    simp [hb, ih hbs]

theorem splitBy_append_sep (sep : Nat) (c rest : List Nat) (h : sep ∉ c) :
    splitBy sep (c ++ sep :: rest) = c :: splitBy sep rest := by
  induction c with
  | nil => simp [splitBy]
  | cons b bs ih =>
    have hb : b ≠ sep := by intro e; apply h; simp [e]
    have hbs : sep ∉ bs := by intro e; apply h; simp [e]
    simp only [List.cons_append]
    rw [splitBy]
    simp [hb, ih hbs]

theorem splitBy_joinSemi (chunks : List (List Nat)) (hne : chunks ≠ []) (h : ∀ c ∈ chunks, 59 ∉ c) :
    splitBy 59 (joinSemi chunks) = chunks := by
  induction chunks with
  | nil => exact absurd rfl hne
  | cons c cs ih =>
    cases cs with
    | nil => simp [joinSemi, splitBy_no_sep 59 c (h c (by simp))]
    | cons c2 cs2 =>
      rw [joinSemi, splitBy_append_sep 59 c _ (h c (by simp)), ih (by simp) (fun x hx => h x (by simp [hx]))]
      · simp

/-- one `;`-separated parameter with its `:`-separated sub-parameters -/
def chunkP (c : List Nat) : Option (List (Option Nat)) := (splitBy 58 c).mapM readNat?

theorem params?_joinSemi (chunks : List (List Nat)) (hne : chunks ≠ []) (h : ∀ c ∈ chunks, 59 ∉ c) :
    params? (joinSemi chunks) = chunks.mapM chunkP := by
  unfold params?
  rw [splitBy_joinSemi chunks hne h]
  rfl

theorem mapM_append_some {α β : Type} (f : α → Option β) (l1 l2 : List α) (a b : List β)
    (h1 : l1.mapM f = some a) (h2 : l2.mapM f = some b) : (l1 ++ l2).mapM f = some (a ++ b) := by
  induction l1 generalizing a with
  | nil => simp at h1; subst h1; simpa using h2
  | cons x xs ih =>
    simp only [List.cons_append, List.mapM_cons] at h1 ⊢
    cases hx : f x with
    | none => simp [hx] at h1
    | some y =>
      simp [hx] at h1 ⊢
      cases hxs : xs.mapM f with
      | none => simp [hxs] at h1
      | some ys =>
        simp [hxs] at h1
        subst h1
        simp [h2]

theorem chunkP_showNat (n : Nat) : chunkP (showNat n) = some [some n] := by
  unfold chunkP
  rw [splitBy_no_sep 58 _ (by intro h; have := showNat_digits n 58 h; omega)]
  simp [readNat?_showNat]

theorem showNat_no59 (n : Nat) : 59 ∉ showNat n := by
  intro h; have := showNat_digits n 59 h; omega

theorem showNat_param (n : Nat) : ∀ d ∈ showNat n, 0x30 ≤ d ∧ d < 0x40 := by
  intro d hd; have := showNat_digits n d hd; omega

/-! ### SGR semantics is compositional over closed parameter groups -/

/-- `ps` is a group of SGR parameters whose meaning `ops` does not depend on what follows -/
def Closed (ps : List (List (Option Nat))) (ops : List SgrOp) : Prop :=
  ∀ rest, sgrSem (ps ++ rest) = ops ++ sgrSem rest

theorem Closed.nil : Closed [] [] := by intro rest; simp

theorem Closed.append {a b : List (List (Option Nat))} {oa ob : List SgrOp}
    (ha : Closed a oa) (hb : Closed b ob) : Closed (a ++ b) (oa ++ ob) := by
  intro rest
  rw [List.append_assoc, ha, hb, List.append_assoc]

theorem Closed.sem {ps : List (List (Option Nat))} {ops : List SgrOp} (h : Closed ps ops) : sgrSem ps = ops := by
  have := h []
  simpa [sgrSem] using this

end SurfProofs.Lemmas.Vt
