import SurfModel.Tokenizer
/-!
The ingredients of `tokenize` mean what their names say: `longestAcc` is the longest non-empty accepted
prefix (textbook maximal munch), `liveLen` the longest prefix on which the automaton does not get stuck.
Also: the executable check `Table.termOk` establishes `Auto.TermOk` for a table driven automaton.
-/
namespace SurfModel.Tokenizer

variable {σ : Type}

set_option linter.unusedVariables false

/-- `w` is accepted from `q` -/
def AcceptedFrom (A : Auto σ) (q : σ) (w : List UInt8) : Prop :=
  ∃ qa, runA A q w = some qa ∧ A.accepting qa = true

theorem acceptedFrom_cons (A : Auto σ) (q q' : σ) (b : UInt8) (w : List UInt8) (hs : A.step q b = some q') :
    AcceptedFrom A q (b :: w) ↔ AcceptedFrom A q' w := by
  simp [AcceptedFrom, runA, hs]

theorem not_acceptedFrom_cons (A : Auto σ) (q : σ) (b : UInt8) (w : List UInt8) (hs : A.step q b = none) :
    ¬ AcceptedFrom A q (b :: w) := by
  simp [AcceptedFrom, runA, hs]

theorem longestAcc_spec (A : Auto σ) (q : σ) (w : List UInt8) :
    match longestAcc A q w with
    | some (n, qa) =>
      0 < n ∧ n ≤ w.length ∧ runA A q (w.take n) = some qa ∧ A.accepting qa = true ∧
        ∀ k, n < k → k ≤ w.length → ¬ AcceptedFrom A q (w.take k)
    | none => ∀ k, 0 < k → k ≤ w.length → ¬ AcceptedFrom A q (w.take k) := by
  induction w generalizing q with
  | nil => simp [longestAcc]; intro k h1 h2; omega
  | cons b r ih =>
    simp only [longestAcc]
    cases hs : A.step q b with
    | none =>
      simp only
      intro k hk _
      cases k with
      | zero => omega
      | succ k => rw [List.take_succ_cons]; exact not_acceptedFrom_cons A q b _ hs
    | some q' =>
      simp only
      have := ih q'
      cases hl : longestAcc A q' r with
      | some p =>
        obtain ⟨m, qm⟩ := p
        rw [hl] at this
        simp only at this ⊢
        obtain ⟨h1, h2, h3, h4, h5⟩ := this
        refine ⟨by omega, by simp; omega, by simp [runA, hs, h3], h4, ?_⟩
        intro k hk1 hk2
        cases k with
        | zero => omega
        | succ k =>
          rw [List.take_succ_cons, acceptedFrom_cons A q q' b _ hs]
          exact h5 k (by omega) (by simp at hk2; omega)
      | none =>
        rw [hl] at this
        simp only at this ⊢
        have hrest : ∀ k, 1 < k → k ≤ (b :: r).length → ¬ AcceptedFrom A q ((b :: r).take k) := by
          intro k hk1 hk2
          cases k with
          | zero => omega
          | succ k =>
            rw [List.take_succ_cons, acceptedFrom_cons A q q' b _ hs]
            exact this k (by omega) (by simp at hk2; omega)
        by_cases ha : A.accepting q' = true
        · simp only [ha, if_true]
          exact ⟨by omega, by simp, by simp [runA, hs], trivial, hrest⟩
        · simp only [ha]
          intro k hk1 hk2
          by_cases h1 : k = 1
          · subst h1
            simp only [List.take_succ_cons, List.take_zero]
            intro ⟨qa, hq, hacc⟩
            simp [runA, hs] at hq
            subst hq; exact ha hacc
          · exact hrest k (by omega) hk2

theorem liveLen_spec (A : Auto σ) (q : σ) (w : List UInt8) :
    (runA A q (w.take (liveLen A q w))).isSome = true ∧
      (liveLen A q w < w.length → runA A q (w.take (liveLen A q w + 1)) = none) := by
  induction w generalizing q with
  | nil => simp [liveLen, runA]
  | cons b r ih =>
    simp only [liveLen]
    cases hs : A.step q b with
    | none => simp [runA, hs]
    | some q' =>
      have := ih q'
      simp only [List.take_succ_cons, runA, hs, Option.bind_some, List.length_cons]
      exact ⟨this.1, fun h => this.2 (by omega)⟩

/-- every item of the specification is non-empty, and a token is a word accepted in the state it carries -/
def ItemOk (A : Auto σ) : Item σ → Prop
  | .tok b q => b ≠ [] ∧ runA A A.start b = some q ∧ A.accepting q = true
  | .raw b => b ≠ []

theorem tokenize_sound (A : Auto σ) (w : List UInt8) : ∀ it ∈ (tokenize A w).1, ItemOk A it := by
  fun_induction tokenize A w with
  | case1 => simp
  | case2 input hne hp => simp
  | case3 input hne hd n q hl r ih =>
    intro it hit
    simp only [List.mem_cons] at hit
    rcases hit with rfl | hit
    · have := longestAcc_spec A A.start input
      rw [hl] at this
      obtain ⟨h1, h2, h3, h4, _⟩ := this
      refine ⟨?_, h3, h4⟩
      intro h0
      have := congrArg List.length h0
      simp only [List.length_take, List.length_nil] at this
      omega
    · exact ih it hit
  | case4 input hne hd hl m r ih =>
    intro it hit
    simp only [List.mem_cons] at hit
    rcases hit with rfl | hit
    · simp only [ItemOk]
      intro h0
      have := congrArg List.length h0
      have hpos : 0 < input.length := List.length_pos_iff.mpr hne
      simp only [List.length_take, List.length_nil] at this
      omega
    · exact ih it hit

/-- the specification itself covers the input: items in order, then the pending rest -/
theorem tokenize_cover (A : Auto σ) (w : List UInt8) :
    (tokenize A w).1.flatMap Item.bytes ++ (tokenize A w).2 = w := by
  fun_induction tokenize A w with
  | case1 => simp
  | case2 input hne hp => simp
  | case3 input hne hd n q hl r ih =>
    simp only [List.flatMap_cons, Item.bytes, List.append_assoc]
    rw [ih, List.take_append_drop]
  | case4 input hne hd hl m r ih =>
    simp only [List.flatMap_cons, Item.bytes, List.append_assoc]
    rw [ih, List.take_append_drop]

/-- the check run by the driver on every installed table is sound -/
theorem Table.termOk_sound (t : Table) (h : t.termOk = true) : t.auto.TermOk := by
  intro s hterm b
  simp only [Table.auto] at hterm ⊢
  have hs : s < t.flags.size := by
    by_cases hlt : s < t.flags.size
    · exact hlt
    · exfalso
      have : t.flags.getD s 0 = 0 := by
        simp [Array.getD, hlt]
      simp [Table.terminal, this] at hterm
  simp only [Table.termOk, List.all_eq_true, List.mem_range] at h
  have h1 := h s hs
  simp only [hterm, Bool.not_true, Bool.false_or, List.all_eq_true, List.mem_range] at h1
  have hb : b.toNat < 256 := UInt8.toNat_lt b
  have h2 := h1 b.toNat hb
  simp only [Table.step]
  simp at h2
  simp [h2]

end SurfModel.Tokenizer
