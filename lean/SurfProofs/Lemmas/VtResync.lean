import SurfProofs.Lemmas.VtEmit
/-! Resynchronisation: from which parser states the bytes of a command are still read correctly.
The reference interpreter follows the VT500 rule "ESC cancels whatever sequence is in progress and
starts a new one"; every command except `Char` is emitted as sequences that start with ESC. -/
namespace SurfProofs.Lemmas.Vt
open SurfModel.Vt

/-- what the interpreter reports about the sequence it was in the middle of when an ESC arrives:
nothing for a pending escape / CSI sequence (silently cancelled), a `bad 27` item for a pending UTF-8
character or an unterminated OSC / DCS string (which is dropped) -/
def abortMark : PState → List Seq
  | .ground | .escape _ | .csi _ _ => []
  | _ => [.bad 27]

/-- **ESC restarts the parser from every state**: `ESC b …` (b ≠ `\`) is read from any state exactly as
from the ground state, after the abort mark of the interrupted sequence -/
theorem run_esc_restart (s : PState) (b : Nat) (rest : List Nat) (hb : b ≠ 92) :
    run s (27 :: b :: rest)
      = ((run .ground (27 :: b :: rest)).1, abortMark s ++ (run .ground (27 :: b :: rest)).2) := by
  cases s <;> simp [run, step, stepGround, stepEscape, abortMark, hb]

/-- the byte string is empty or starts with `ESC b`, `b ≠ \` -/
def escInitial (bs : List Nat) : Prop := bs = [] ∨ ∃ b t, bs = 27 :: b :: t ∧ b ≠ 92

theorem escInitial_append (a b : List Nat) (ha : escInitial a) (hb : escInitial b) :
    escInitial (a ++ b) := by
  rcases ha with rfl | ⟨x, t, rfl, hx⟩
  · simpa using hb
  · exact .inr ⟨x, t ++ b, by simp, hx⟩

theorem escInitial_run (bs : List Nat) (h : escInitial bs) (hne : bs ≠ []) (s : PState) (rest : List Nat) :
    run s (bs ++ rest) = ((run .ground (bs ++ rest)).1, abortMark s ++ (run .ground (bs ++ rest)).2) := by
  rcases h with rfl | ⟨x, t, rfl, hx⟩
  · exact absurd rfl hne
  · exact run_esc_restart s x (t ++ rest) hx

theorem escInitial_csiB (rest : List Nat) : escInitial (csiB ++ rest) :=
  .inr ⟨91, rest, rfl, by omega⟩

theorem escInitial_nil : escInitial [] := .inl rfl

theorem escInitial_kitty (caps : Caps) (level : Nat) : escInitial (kittyLevel caps level) := by
  unfold kittyLevel
  split
  · simp only [List.append_assoc]; exact escInitial_csiB _
  · exact escInitial_nil

theorem escInitial_move (c : Prop) [Decidable c] (d : Prop) [Decidable d] (x y : List Nat) :
    escInitial (if c then csiB ++ x else if d then csiB ++ y else []) := by
  split
  · exact escInitial_csiB _
  · split
    · exact escInitial_csiB _
    · exact escInitial_nil

/-- every command other than `Char` is emitted as nothing at all or as bytes that start with ESC -/
theorem encode_escInitial (caps : Caps) (cmd : Cmd) (hc : ∀ cp, cmd ≠ .char cp) :
    escInitial (encode caps cmd) := by
  cases cmd with
  | char cp => exact absurd rfl (hc cp)
  | decModeSet enable mode =>
    simp only [encode, List.append_assoc]
    apply escInitial_append
    · split
      · exact escInitial_kitty _ _
      · exact escInitial_nil
    · exact escInitial_csiB _
  | cursorMove row col =>
    simp only [encode, List.append_assoc]
    exact escInitial_append _ _ (escInitial_move _ _ _ _) (escInitial_move _ _ _ _)
  | faceModify m =>
    simp only [encode, List.append_assoc]
    split
    · exact escInitial_nil
    · exact escInitial_csiB _
  | eraseChars n =>
    simp only [encode, List.append_assoc]
    split
    · exact escInitial_nil
    · exact escInitial_csiB _
  | scroll n =>
    simp only [encode, List.append_assoc]
    exact escInitial_move _ _ _ _
  | scrollRegion start stop =>
    simp only [encode, List.append_assoc]
    split <;> exact escInitial_csiB _
  | keyboardLevel n => exact escInitial_kitty _ _
  | face f => simp only [encode, List.append_assoc]; exact escInitial_csiB _
  | decModeGet mode => simp only [encode, List.append_assoc]; exact escInitial_csiB _
  | cursorTo row col => simp only [encode, List.append_assoc]; exact escInitial_csiB _
  | cursorGet => exact escInitial_csiB _
  | eraseLineLeft => exact escInitial_csiB _
  | eraseLineRight => exact escInitial_csiB _
  | eraseLine => exact escInitial_csiB _
  | eraseScreen => exact escInitial_csiB _
  | deviceAttrs => exact escInitial_csiB _
  | cursorSave => exact .inr ⟨55, [], rfl, by omega⟩
  | cursorRestore => exact .inr ⟨56, [], rfl, by omega⟩
  | reset => exact .inr ⟨99, [], rfl, by omega⟩
  | faceGet => exact .inr ⟨80, _, rfl, by omega⟩
  | termcap names => exact .inr ⟨80, _, by simp [encode]; rfl, by omega⟩
  | color name c => exact .inr ⟨93, _, by simp [encode]; rfl, by omega⟩
  | title text => exact .inr ⟨93, _, by simp [encode]; rfl, by omega⟩

end SurfProofs.Lemmas.Vt
