import SurfProofs.Lemmas.QuantTop
import SurfProofs.Lemmas.QuantPath
/-!
# C13 helper lemmas — the unpruned octree is a trie of the inserted colours

`Trie n pre r`: below `n` (reached by the path items `pre`, with `r` items left) every leaf sits at
the end of the path of exactly one colour and holds `count` copies of it; every summary is exact.
-/
namespace SurfProofs.QuantLossless
open SurfModel.Quant SurfProofs.QuantOct SurfProofs.QuantPath

/-- the leaf accumulates `n` copies of `c` -/
def IsMult (l : Leaf) (n : Nat) (c : RGB) : Prop :=
  l.redAcc = n * c.r ∧ l.greenAcc = n * c.g ∧ l.blueAcc = n * c.b ∧ l.colorCount = n

/-- `to_rgba` without the division-by-zero check -/
def leafCol (l : Leaf) : RGB :=
  ⟨l.redAcc / l.colorCount % 256, l.greenAcc / l.colorCount % 256, l.blueAcc / l.colorCount % 256⟩

theorem leafCol_mult (l : Leaf) (n : Nat) (c : RGB) (hn : 1 ≤ n) (h : IsMult l n c) (hv : validC c) :
    leafCol l = c ∧ l.toRgb = some c := by
  obtain ⟨h1, h2, h3, h4⟩ := h
  obtain ⟨v1, v2, v3⟩ := hv
  have hpos : 0 < n := hn
  have e : leafCol l = c := by
    simp only [leafCol, h1, h2, h3, h4, Nat.mul_div_cancel_left _ hpos]
    cases c; simp only [RGB.mk.injEq]
    simp only at v1 v2 v3
    omega
  refine ⟨e, ?_⟩
  have : l.colorCount ≠ 0 := by omega
  simp only [Leaf.toRgb, this, if_false]
  exact congrArg some e

def cols (n : Node) : List RGB := n.leaves.map leafCol

def Trie : Node → List (Fin 8) → Nat → Prop
  | .empty, _, _ => True
  | .leaf l, pre, r => r = 0 ∧ ∃ c n, 1 ≤ n ∧ IsMult l n c ∧ validC c ∧ pathOf c = pre
  | .tree info _ c0 c1 c2 c3 c4 c5 c6 c7, pre, r =>
    ∃ r', r = r' + 1 ∧ info = fromSlice ⟨c0, c1, c2, c3, c4, c5, c6, c7⟩ ∧
      Trie c0 (pre ++ [0]) r' ∧ Trie c1 (pre ++ [1]) r' ∧ Trie c2 (pre ++ [2]) r' ∧
      Trie c3 (pre ++ [3]) r' ∧ Trie c4 (pre ++ [4]) r' ∧ Trie c5 (pre ++ [5]) r' ∧
      Trie c6 (pre ++ [6]) r' ∧ Trie c7 (pre ++ [7]) r'

theorem trie_mkTree (info removed cs pre r) :
    Trie (Node.mkTree info removed cs) pre r ↔
      ∃ r', r = r' + 1 ∧ info = fromSlice cs ∧ ∀ i, Trie (cs.get i) (pre ++ [i]) r' := by
  constructor
  · rintro ⟨r', hr, hi, h⟩
    exact ⟨r', hr, hi, (forall_fin8 (fun i => Trie (cs.get i) (pre ++ [i]) r')).mpr h⟩
  · rintro ⟨r', hr, hi, h⟩
    exact ⟨r', hr, hi, (forall_fin8 (fun i => Trie (cs.get i) (pre ++ [i]) r')).mp h⟩

theorem leaves_mkTree (info removed cs) :
    (Node.mkTree info removed cs).leaves = allIdx.flatMap fun i => (cs.get i).leaves := by
  simp [Node.mkTree, Node.leaves, allIdx, List.flatMap_cons, Ch.get, List.append_assoc]

theorem cols_mkTree (info removed cs) :
    cols (Node.mkTree info removed cs) = allIdx.flatMap fun i => cols (cs.get i) := by
  simp only [cols, leaves_mkTree, List.map_flatMap]

theorem mem_cols_mkTree (info removed cs) (x : RGB) :
    x ∈ cols (Node.mkTree info removed cs) ↔ ∃ i, x ∈ cols (cs.get i) := by
  rw [cols_mkTree, List.mem_flatMap]
  constructor
  · rintro ⟨i, _, h⟩; exact ⟨i, h⟩
  · rintro ⟨i, h⟩; exact ⟨i, mem_allIdx i, h⟩

@[simp] theorem cols_empty : cols .empty = [] := rfl
@[simp] theorem cols_leaf (l : Leaf) : cols (.leaf l) = [leafCol l] := rfl

/-- every leaf below a trie node is a multiple of a valid colour whose path starts with `pre` -/
theorem trie_leaves (n : Node) : ∀ pre r, Trie n pre r →
    ∀ l ∈ n.leaves, ∃ c k, 1 ≤ k ∧ IsMult l k c ∧ validC c ∧ pre <+: pathOf c := by
  induction n using node_ind with
  | hempty => intro pre r _ l hl; simp [Node.leaves] at hl
  | hleaf l0 =>
    intro pre r h l hl
    simp only [Node.leaves, List.mem_singleton] at hl; subst hl
    obtain ⟨_, c, k, hk, hm, hv, hp⟩ := h
    exact ⟨c, k, hk, hm, hv, by rw [hp]; exact List.prefix_refl _⟩
  | htree info removed cs ih =>
    intro pre r h l hl
    obtain ⟨r', _, _, hch⟩ := (trie_mkTree _ _ _ _ _).mp h
    obtain ⟨i, hi⟩ := (mem_leaves_mkTree _ _ _ _).mp hl
    obtain ⟨c, k, hk, hm, hv, hp⟩ := ih i _ _ (hch i) l hi
    exact ⟨c, k, hk, hm, hv, (List.prefix_append pre [i]).trans hp⟩

theorem trie_cols (n : Node) (pre r) (h : Trie n pre r) :
    ∀ x ∈ cols n, validC x ∧ pre <+: pathOf x := by
  intro x hx
  obtain ⟨l, hl, rfl⟩ := List.mem_map.mp hx
  obtain ⟨c, k, hk, hm, hv, hp⟩ := trie_leaves n pre r h l hl
  rw [(leafCol_mult l k c hk hm hv).1]
  exact ⟨hv, hp⟩

theorem prefix_snoc_inj {α} (pre p : List α) (i j : α) (h1 : (pre ++ [i]) <+: p) (h2 : (pre ++ [j]) <+: p) :
    i = j := by
  have hp := List.prefix_of_prefix_length_le h1 h2 (by simp)
  have he := hp.eq_of_length (by simp)
  have := List.append_cancel_left he
  simpa using this

theorem nodup_flatMap {ι α} (L : List ι) (f : ι → List α) (hL : L.Nodup) (h1 : ∀ i, (f i).Nodup)
    (h2 : ∀ i j, i ≠ j → ∀ x ∈ f i, x ∉ f j) : (L.flatMap f).Nodup := by
  induction L with
  | nil => simp
  | cons i L ih =>
    obtain ⟨hi, hL'⟩ := List.nodup_cons.mp hL
    rw [List.flatMap_cons, List.nodup_append]
    refine ⟨h1 i, ih hL', ?_⟩
    intro a ha b hb hab
    subst hab
    obtain ⟨j, hj, hbj⟩ := List.mem_flatMap.mp hb
    have hne : i ≠ j := by rintro rfl; exact hi hj
    exact h2 i j hne a ha hbj

theorem allIdx_nodup : allIdx.Nodup := by decide

theorem trie_nodup (n : Node) : ∀ pre r, Trie n pre r → (cols n).Nodup := by
  induction n using node_ind with
  | hempty => intro _ _ _; simp
  | hleaf l => intro _ _ _; simp
  | htree info removed cs ih =>
    intro pre r h
    obtain ⟨r', _, _, hch⟩ := (trie_mkTree _ _ _ _ _).mp h
    rw [cols_mkTree]
    refine nodup_flatMap allIdx _ allIdx_nodup (fun i => ih i _ _ (hch i)) ?_
    intro i j hij x hx hx'
    have p1 := (trie_cols _ _ _ (hch i) x hx).2
    have p2 := (trie_cols _ _ _ (hch j) x hx').2
    exact hij (prefix_snoc_inj pre (pathOf x) i j p1 p2)

theorem trie_exact (n : Node) : ∀ pre r, Trie n pre r → claimed n = al n := by
  induction n using node_ind with
  | hempty => intro _ _ _; rfl
  | hleaf l => intro _ _ _; rfl
  | htree info removed cs ih =>
    intro pre r h
    obtain ⟨r', _, hinfo, hch⟩ := (trie_mkTree _ _ _ _ _).mp h
    rw [al_mkTree]
    show info.leafCount = _
    rw [hinfo, fromSlice_leafCount]
    congr 1; funext i
    exact ih i _ _ (hch i)

theorem mem_cols_set (cs : Ch) (index : Fin 8) (n : Node) (x : RGB) :
    (∃ j, x ∈ cols ((cs.set index n).get j)) ↔ x ∈ cols n ∨ ∃ j, j ≠ index ∧ x ∈ cols (cs.get j) := by
  constructor
  · rintro ⟨j, hj⟩
    rw [get_set] at hj
    split at hj
    · exact Or.inl hj
    · exact Or.inr ⟨j, by assumption, hj⟩
  · rintro (h | ⟨j, hne, hj⟩)
    · exact ⟨index, by simpa using h⟩
    · exact ⟨j, by rw [get_set_ne _ _ _ _ hne]; exact hj⟩

theorem isMult_addRgb (l : Leaf) (n : Nat) (c : RGB) (h : IsMult l n c) : IsMult (l.addRgb c) (n + 1) c := by
  obtain ⟨h1, h2, h3, h4⟩ := h
  refine ⟨?_, ?_, ?_, ?_⟩ <;> simp only [Leaf.addRgb, h1, h2, h3, h4, Nat.succ_mul]

theorem insertRec_nil_empty (c : RGB) : insertRec .empty [] c = some (.leaf (Leaf.fromRgb c)) := by
  rw [insertRec]
theorem insertRec_nil_leaf (l : Leaf) (c : RGB) : insertRec (.leaf l) [] c = some (.leaf (l.addRgb c)) := by
  rw [insertRec]

/-- inserting a colour whose remaining path is `rest` keeps the trie and adds exactly that colour -/
theorem trie_insert (rest : List (Fin 8)) (c : RGB) (hv : validC c) :
    ∀ n pre, Trie n pre rest.length → pathOf c = pre ++ rest →
      ∃ n', insertRec n rest c = some n' ∧ Trie n' pre rest.length ∧
        ∀ x, x ∈ cols n' ↔ x ∈ cols n ∨ x = c := by
  induction rest with
  | nil =>
    intro n pre ht hp
    rw [List.append_nil] at hp
    rcases node_cases n with rfl | ⟨l, rfl⟩ | ⟨info, removed, cs, rfl⟩
    · refine ⟨_, insertRec_nil_empty c, ⟨rfl, c, 1, le_refl _, ?_, hv, hp⟩, ?_⟩
      · simp [IsMult, Leaf.fromRgb]
      · intro x
        have : leafCol (Leaf.fromRgb c) = c :=
          (leafCol_mult _ 1 c (le_refl _) (by simp [IsMult, Leaf.fromRgb]) hv).1
        simp [this]
    · obtain ⟨_, c', k, hk, hm, hv', hp'⟩ := ht
      have hcc : c' = c := pathOf_inj c' c hv' hv (by rw [hp', hp])
      subst hcc
      have hm' := isMult_addRgb l k c' hm
      refine ⟨_, insertRec_nil_leaf l c', ⟨rfl, c', k + 1, by omega, hm', hv, hp⟩, ?_⟩
      intro x
      have e1 : leafCol (l.addRgb c') = c' := (leafCol_mult _ (k + 1) c' (by omega) hm' hv).1
      have e2 : leafCol l = c' := (leafCol_mult _ k c' hk hm hv).1
      simp [e1, e2]
    · obtain ⟨r', hr, _⟩ := (trie_mkTree _ _ _ _ _).mp ht
      simp at hr
  | cons index rest ih =>
    intro n pre ht hp
    have hp' : pathOf c = (pre ++ [index]) ++ rest := by rw [hp]; simp
    rcases node_cases n with rfl | ⟨l, rfl⟩ | ⟨info, removed, cs, rfl⟩
    · obtain ⟨n1, h1, ht1, hc1⟩ := ih .empty (pre ++ [index]) trivial hp'
      rw [insertRec_cons_empty, h1]
      refine ⟨_, rfl, ?_, ?_⟩
      · rw [trie_mkTree]
        refine ⟨rest.length, rfl, rfl, fun i => ?_⟩
        rw [get_set]; split
        · rename_i h; subst h; exact ht1
        · rw [get_empty]; trivial
      · intro x
        dsimp only
        rw [mem_cols_mkTree, mem_cols_set, hc1]
        simp
    · obtain ⟨hr, _⟩ := ht
      simp at hr
    · obtain ⟨r', hr, hinfo, hch⟩ := (trie_mkTree _ _ _ _ _).mp ht
      have hr' : r' = rest.length := by simp at hr; omega
      subst hr'
      obtain ⟨n1, h1, ht1, hc1⟩ := ih (cs.get index) (pre ++ [index]) (hch index) hp'
      rw [insertRec_cons_tree, h1]
      refine ⟨_, rfl, ?_, ?_⟩
      · rw [trie_mkTree]
        refine ⟨rest.length, rfl, rfl, fun i => ?_⟩
        rw [get_set]; split
        · rename_i h; subst h; exact ht1
        · exact hch i
      · intro x
        dsimp only
        rw [mem_cols_mkTree, mem_cols_set, hc1, mem_cols_mkTree]
        constructor
        · rintro ((h | h) | ⟨j, _, hj⟩)
          · exact Or.inl ⟨index, h⟩
          · exact Or.inr h
          · exact Or.inl ⟨j, hj⟩
        · rintro (⟨j, hj⟩ | h)
          · by_cases hji : j = index
            · subst hji; exact Or.inl (Or.inl hj)
            · exact Or.inr ⟨j, hji, hj⟩
          · exact Or.inl (Or.inr h)

/-! ### the root -/

theorem trie_new : Trie OcTree.new.toNode [] 8 := by
  show Trie (Node.mkTree Info.empty Leaf.new Ch.empty) [] 8
  rw [trie_mkTree]
  exact ⟨7, rfl, by decide, fun i => by rw [get_empty]; trivial⟩

theorem cols_new : cols OcTree.new.toNode = [] := by
  show cols (Node.mkTree Info.empty Leaf.new Ch.empty) = []
  rw [cols_mkTree]; simp [allIdx]

theorem insert_trie (t : OcTree) (c : RGB) (hv : validC c) (ht : Trie t.toNode [] 8) :
    ∃ t', t.insert c = some t' ∧ Trie t'.toNode [] 8 ∧
      ∀ x, x ∈ cols t'.toNode ↔ x ∈ cols t.toNode ∨ x = c := by
  have hlen := pathOf_length c
  obtain ⟨n', h1, ht', hc'⟩ := trie_insert (pathOf c) c hv t.toNode [] (by rw [hlen]; exact ht) (by simp)
  rw [hlen] at ht'
  obtain ⟨index, rest, hp, _⟩ := pathOf_cons c
  rw [hp] at h1
  have h1' : insertRec (Node.mkTree t.info t.removed t.children) (index :: rest) c = some n' := h1
  rw [insertRec_cons_tree] at h1'
  cases hi : insertRec (t.children.get index) rest c with
  | none => rw [hi] at h1'; simp at h1'
  | some n1 =>
    rw [hi, Option.map_some, Option.some.injEq] at h1'
    refine ⟨t.nodeUpdate index n1, by simp only [OcTree.insert, hp, hi], ?_, ?_⟩
    · show Trie (Node.mkTree (fromSlice (t.children.set index n1)) t.removed (t.children.set index n1)) [] 8
      rw [h1']; exact ht'
    · show ∀ x, x ∈ cols (Node.mkTree (fromSlice (t.children.set index n1)) t.removed (t.children.set index n1)) ↔ _
      rw [h1']; exact hc'

theorem insertAll_trie (l : List RGB) : ∀ t, (∀ c ∈ l, validC c) → Trie t.toNode [] 8 →
    ∃ t', insertAll t l = some t' ∧ Trie t'.toNode [] 8 ∧
      ∀ x, x ∈ cols t'.toNode ↔ x ∈ cols t.toNode ∨ x ∈ l := by
  induction l with
  | nil => intro t _ ht; exact ⟨t, rfl, ht, by simp⟩
  | cons c cs ih =>
    intro t hv ht
    obtain ⟨t1, h1, ht1, hc1⟩ := insert_trie t c (hv c List.mem_cons_self) ht
    obtain ⟨t2, h2, ht2, hc2⟩ := ih t1 (fun x hx => hv x (List.mem_cons_of_mem _ hx)) ht1
    refine ⟨t2, by simp only [insertAll, h1, h2], ht2, ?_⟩
    intro x
    rw [hc2, hc1, List.mem_cons]
    constructor
    · rintro ((h | h) | h)
      · exact Or.inl h
      · exact Or.inr (Or.inl h)
      · exact Or.inr (Or.inr h)
    · rintro (h | h | h)
      · exact Or.inl (Or.inl h)
      · exact Or.inl (Or.inr h)
      · exact Or.inr h

theorem mapToRgb_cols (ls : List Leaf)
    (h : ∀ l ∈ ls, ∃ c k, 1 ≤ k ∧ IsMult l k c ∧ validC c) : mapToRgb ls = some (ls.map leafCol) := by
  induction ls with
  | nil => rfl
  | cons l ls ih =>
    obtain ⟨c, k, hk, hm, hv⟩ := h l List.mem_cons_self
    obtain ⟨e1, e2⟩ := leafCol_mult l k c hk hm hv
    simp only [mapToRgb, e2, ih fun x hx => h x (List.mem_cons_of_mem _ hx), List.map_cons, e1]

theorem sample_small (h w k : Nat) (hk : 1 ≤ k) (h64 : h * w < 2 ^ 64) (hsmall : h * w < 200 * k) :
    ∃ s, sampleRate h w k = some s ∧ s < 2 := by
  have hd : min (k * 100) (2 ^ 64 - 1) ≠ 0 := by
    have : 1 ≤ min (k * 100) (2 ^ 64 - 1) := by
      apply Nat.le_min.mpr; constructor <;> omega
    omega
  refine ⟨(h * w / min (k * 100) (2 ^ 64 - 1)) % 2 ^ 32, ?_, ?_⟩
  · simp only [sampleRate, hd, if_false]
  · apply lt_of_le_of_lt (Nat.mod_le _ _)
    rw [Nat.div_lt_iff_lt_mul (by omega)]
    rcases Nat.le_total (k * 100) (2 ^ 64 - 1) with hle | hle
    · rw [Nat.min_eq_left hle]; omega
    · rw [Nat.min_eq_right hle]; omega

/-- the lossless case of `from_image`: no pruning, the palette lists the distinct colours once each -/
theorem fromImage_lossless (px : List RGB) (h w k : Nat) (hne : px ≠ []) (hk : 1 ≤ k)
    (hvalid : ∀ c ∈ px, validC c)
    (hfit : ∀ S : List RGB, S.Nodup → (∀ c ∈ S, c ∈ px) → S.length ≤ k)
    (h64 : h * w < 2 ^ 64) (hsmall : h * w < 200 * k) :
    ∃ pal, fromImage px h w k = .ok (some ⟨pal, kdNew pal⟩) ∧ pal.Nodup ∧ ∀ c, c ∈ pal ↔ c ∈ px := by
  obtain ⟨s, hs, hs2⟩ := sample_small h w k hk h64 hsmall
  have hchosen : SurfProofs.QuantTop.chosen px h w k = px := by
    simp only [SurfProofs.QuantTop.chosen, hs, hs2, if_true]
  obtain ⟨t0, h1, ht0, hc0⟩ := insertAll_trie px OcTree.new hvalid trie_new
  have hmem : ∀ x, x ∈ cols t0.toNode ↔ x ∈ px := by
    intro x; rw [hc0, cols_new]; simp
  have hnd := trie_nodup _ _ _ ht0
  have hlen : (cols t0.toNode).length ≤ k := hfit _ hnd fun c hc => (hmem c).mp hc
  have hexact : t0.info.leafCount = (cols t0.toNode).length := by
    have := trie_exact _ _ _ ht0
    simp only [cols, List.length_map]
    exact this
  have h2 : t0.pruneUntil k = .ok t0 := by
    have hle : ¬ t0.info.leafCount > max k 8 := by omega
    simp only [OcTree.pruneUntil, pruneLoop, hle, if_false]
  have h3 : t0.buildPalette = some (cols t0.toNode) :=
    mapToRgb_cols _ fun l hl => by
      obtain ⟨c, k', hk', hm, hv, _⟩ := trie_leaves _ _ _ ht0 l hl
      exact ⟨c, k', hk', hm, hv⟩
  refine ⟨cols t0.toNode, ?_, hnd, hmem⟩
  rw [SurfProofs.QuantTop.fromImage_eq px h w k hne hk t0 t0 _ (by rw [hchosen]; exact h1) h2 h3]
  have : (cols t0.toNode).isEmpty = false := by
    cases hcl : cols t0.toNode with
    | nil =>
      obtain ⟨q, qs, rfl⟩ := List.exists_cons_of_ne_nil hne
      have := (hmem q).mpr List.mem_cons_self
      rw [hcl] at this; simp at this
    | cons a l => rfl
  simp [Palette.new, this]

end SurfProofs.QuantLossless
