import SurfProofs.Lemmas.KittyDraw
/-!
The handler model keeps the monitor of `SurfModel.KittySpec` satisfied: invariant and one step.
-/
namespace SurfProofs.Lemmas.KittyMon
open SurfModel.Kitty SurfModel.KittySpec
open SurfProofs.Lemmas.KittyParse SurfProofs.Lemmas.KittyEmit SurfProofs.Lemmas.KittyIter
open SurfProofs.Lemmas.KittyDraw

/-- positions of the property's domain except the recorded corner -/
def Dom (row col : Nat) : Prop := row < 65536 ∧ col < 65536 ∧ ¬ (row = 65535 ∧ col = 65535)

theorem placementId_dom (row col : Nat) (h : Dom row col) : placementId row col = row + col * 65536 + 1 := by
  obtain ⟨hr, hc, hne⟩ := h
  unfold placementId KITTY_MAX_DIM KITTY_MAX_ID
  rw [Nat.mod_eq_of_lt hr, Nat.mod_eq_of_lt hc]
  have hlt : row + col * 65536 < 4294967295 := by
    by_cases h1 : row = 65535
    · have : col ≠ 65535 := fun h2 => hne ⟨h1, h2⟩
      omega
    · omega
  rw [Nat.mod_eq_of_lt hlt]

theorem placementId_inj {r c r' c' : Nat} (h : Dom r c) (h' : Dom r' c')
    (e : placementId r c = placementId r' c') : r = r' ∧ c = c' := by
  rw [placementId_dom r c h, placementId_dom r' c' h'] at e
  obtain ⟨hr, hc, _⟩ := h
  obtain ⟨hr', hc', _⟩ := h'
  omega

theorem placementId_ne_zero (r c : Nat) : placementId r c ≠ 0 := by unfold placementId; omega
theorem idOf_ne_zero (hash : Image → UInt64) (img : Image) : idOf hash img ≠ 0 := by
  unfold idOf imageId; omega

/-- distinct pixel contents get distinct image ids (no collision of `hash mod 2^32−1` among the images of
the history), and equal contents the same id (the hash is a function of the content) -/
def IdFaithful (hash : Image → UInt64) (S : List Image) : Prop :=
  ∀ a ∈ S, ∀ b ∈ S, (idOf hash a = idOf hash b ↔ content a = content b)

/-! ## association lists -/

theorem lookup_map {α β : Type} (l : List (Nat × α)) (f : α → β) (k : Nat) :
    (l.map (fun e => (e.1, f e.2))).lookup k = (l.lookup k).map f := by
  induction l with
  | nil => rfl
  | cons e l ih =>
    obtain ⟨a, b⟩ := e
    simp only [List.map_cons, List.lookup_cons]
    cases h : k == a <;> simp [ih]

theorem lookup_filter_self {α : Type} (l : List (Nat × α)) (k : Nat) :
    (l.filter (fun e => e.1 != k)).lookup k = none := by
  induction l with
  | nil => rfl
  | cons e l ih =>
    obtain ⟨a, b⟩ := e
    simp only [List.filter_cons]
    by_cases h : a = k
    · simp [h, ih]
    · have : (k == a) = false := by simp; omega
      simp [h, List.lookup_cons, this, ih]

theorem lookup_mem {α : Type} (l : List (Nat × α)) (k : Nat) (v : α) (h : l.lookup k = some v) : (k, v) ∈ l := by
  induction l with
  | nil => simp at h
  | cons e l ih =>
    obtain ⟨a, b⟩ := e
    simp only [List.lookup_cons] at h
    cases hk : k == a
    · rw [hk] at h; exact List.mem_cons_of_mem _ (ih h)
    · rw [hk] at h
      have : k = a := by simpa using hk
      simp only [Option.some.injEq] at h
      subst this; subst h; simp

theorem mem_lookup_isSome {α : Type} (l : List (Nat × α)) (k : Nat) (v : α) (h : (k, v) ∈ l) :
    (l.lookup k).isSome = true := by
  induction l with
  | nil => simp at h
  | cons e l ih =>
    obtain ⟨a, b⟩ := e
    simp only [List.lookup_cons]
    cases hk : k == a
    · have hne : k ≠ a := by simpa using hk
      simp only [List.mem_cons, Prod.mk.injEq] at h
      rcases h with h | h
      · exact absurd h.1 hne
      · exact ih h
    · rfl

/-- own placement ids decode to a domain position and encode back -/
theorem own_roundtrip (p : Nat) (h : ownPlacement p = true) :
    Dom (placementToPos p).1 (placementToPos p).2 ∧
    placementId (placementToPos p).1 (placementToPos p).2 = p ∧
    (placementToPos p).1 + 1 < 18446744073709551616 ∧ (placementToPos p).2 + 1 < 18446744073709551616 := by
  simp only [ownPlacement, Bool.and_eq_true, decide_eq_true_eq] at h
  have hd : Dom (placementToPos p).1 (placementToPos p).2 := by
    simp only [Dom, placementToPos, KITTY_MAX_DIM]; omega
  refine ⟨hd, ?_, ?_, ?_⟩
  · rw [placementId_dom _ _ hd]; simp only [placementToPos, KITTY_MAX_DIM]; omega
  · simp only [placementToPos, KITTY_MAX_DIM]; omega
  · simp only [placementToPos, KITTY_MAX_DIM]; omega

theorem placementToPos_id (row col : Nat) (hdom : Dom row col) : placementToPos (placementId row col) = (row, col) := by
  rw [placementId_dom row col hdom]
  obtain ⟨hr, hc, _⟩ := hdom
  simp only [placementToPos, KITTY_MAX_DIM, Nat.add_sub_cancel]
  ext <;> simp <;> omega

/-! ## the invariant -/

structure Inv (hash : Image → UInt64) (S : List Image) (h : Handler) (m : Mon) : Prop where
  live : m.live = h.imgs.map (fun e => (e.1, content e.2))
  imgs : ∀ e ∈ h.imgs, e.1 = idOf hash e.2 ∧ e.2 ∈ S ∧ e.2.isEmpty = false
  placed : ∀ p ∈ m.placed, ∃ img ∈ S, p.ct = content img ∧ p.id = idOf hash img ∧
    p.pid = placementId p.row p.col ∧ Dom p.row p.col

theorem Inv.contains {hash : Image → UInt64} {S : List Image} {h : Handler} {m : Mon} (inv : Inv hash S h m)
    (id : Nat) : (m.live.lookup id).isSome = h.contains id := by
  rw [inv.live, lookup_map]; unfold Handler.contains; simp

/-- an image whose id the handler does not hold has a content the terminal does not hold under any id -/
theorem Inv.fresh_content {hash : Image → UInt64} {S : List Image} {h : Handler} {m : Mon} (inv : Inv hash S h m)
    (hid : IdFaithful hash S) (img : Image) (hS : img ∈ S) (hc : h.contains (idOf hash img) = false) :
    ∀ e ∈ m.live, e.2 ≠ content img := by
  intro e he hce
  rw [inv.live] at he
  obtain ⟨e2, he2, rfl⟩ := List.mem_map.mp he
  obtain ⟨h1, h2, _⟩ := inv.imgs e2 he2
  have hq : idOf hash e2.2 = idOf hash img := (hid e2.2 h2 img hS).mpr hce
  have : (h.imgs.lookup (idOf hash img)).isSome = true := by
    apply mem_lookup_isSome _ _ e2.2
    rw [← hq, ← h1]
    exact he2
  unfold Handler.contains at hc
  rw [this] at hc; cases hc

/-! ## feeding single commands -/

theorem feed_put (m : Mon) (id pid : Nat) (h1 : id ≠ 0) (h2 : pid ≠ 0) (h3 : (m.live.lookup id).isSome = true) :
    m.feed (.put id pid) = some m := by
  simp [Mon.feed, h1, h2, h3]

theorem feed_delete (m : Mon) (id pid : Nat) (h1 : id ≠ 0) : m.feed (.delete 105 id pid) = some m := by
  simp [Mon.feed, h1]

theorem chunkRules_ok (img : Image) : chunkRules (chunkSizes img) = true := by
  unfold chunkRules
  simp only [Bool.and_eq_true, List.all_eq_true, decide_eq_true_eq, beq_iff_eq]
  exact ⟨fun n hn => (chunkSizes_ok img n hn).1, fun n hn => (chunkSizes_ok img n hn).2⟩

theorem feed_tx (m : Mon) (id : Nat) {img : Image} (wf : WF img) (hne : img.isEmpty = false) (h1 : id ≠ 0)
    (h2 : (m.live.lookup id).isSome = false) (h3 : ∀ e ∈ m.live, e.2 ≠ content img) :
    m.feed (txCmd id img) = some { m with live := (id, content img) :: m.live } := by
  have hd := nonempty_dims wf hne
  have hl := content_length img wf
  have hn : m.live.lookup id = none := by
    cases h : m.live.lookup id with
    | none => rfl
    | some v => rw [h] at h2; simp at h2
  simp only [txCmd, Mon.feed]
  rw [if_pos]
  · rfl
  · refine ⟨h1, trivial, trivial, trivial, by rw [hn]; rfl, ?_, chunkRules_ok img, hl, hd.1, hd.2⟩
    rw [List.all_eq_true]
    intro e he
    exact bne_iff_ne.mpr (h3 e he)

/-! ## one step of the history -/

section
variable (hash : Image → UInt64) (S : List Image) (hwf : ∀ img ∈ S, WF img) (hid : IdFaithful hash S)
include hwf hid

theorem step_draw {h : Handler} {m : Mon} (inv : Inv hash S h m) (img : Image) (hS : img ∈ S)
    (row col : Nat) (hdom : Dom row col) :
    ∃ m', m.step (.draw (content img) row col) (draw hash h img row col).2 = some m' ∧
      Inv hash S (draw hash h img row col).1 m' := by
  have wf := hwf img hS
  cases he : img.isEmpty with
  | true =>
    rw [draw_empty hash h img he]
    refine ⟨m, ?_, inv⟩
    have hk := Emits.nil.kitty
    have hz : (content img).w = 0 ∨ (content img).h = 0 := wf.empty_iff.mp he
    simp only [Mon.step, hk, Mon.feedAll, hz, if_true]
  | false =>
    have hd := nonempty_dims wf he
    have hk := (emits_draw hash h wf he row col).kitty
    have hnz : ¬ ((content img).w = 0 ∨ (content img).h = 0) := by
      simp only [content]; omega
    rw [draw_state hash h img he]
    by_cases hc : h.contains (idOf hash img) = true
    · -- already transmitted: one placement, the id holds this content
      have hlive : (m.live.lookup (idOf hash img)).isSome = true := by rw [inv.contains]; exact hc
      have hcmds : drawCmds hash h img row col = [.put (idOf hash img) (placementId row col)] := by
        simp [drawCmds, hc]
      rw [hcmds] at hk
      have hct : m.live.lookup (idOf hash img) = some (content img) := by
        rw [inv.live, lookup_map]
        unfold Handler.contains at hc
        cases hl : h.imgs.lookup (idOf hash img) with
        | none => rw [hl] at hc; simp at hc
        | some img2 =>
          have hmem := lookup_mem _ _ _ hl
          have h2 := inv.imgs _ hmem
          have : content img2 = content img := (hid img2 h2.2.1 img hS).mp h2.1.symm
          simp [this]
      refine ⟨{ m with placed := ⟨content img, row, col, idOf hash img, placementId row col⟩ :: m.placed }, ?_, ?_⟩
      · simp only [Mon.step, hk, Mon.feedAll, feed_put m _ _ (idOf_ne_zero hash img) (placementId_ne_zero row col) hlive,
          hnz, if_false, drawShape, hct, if_true]
      · simp only [hc, if_true]
        refine ⟨inv.live, inv.imgs, ?_⟩
        intro p hp
        simp only [List.mem_cons] at hp
        rcases hp with hp | hp
        · subst hp; exact ⟨img, hS, rfl, rfl, rfl, hdom⟩
        · exact inv.placed p hp
    · -- first transmission
      have hc' : h.contains (idOf hash img) = false := by simpa using hc
      have hlive : (m.live.lookup (idOf hash img)).isSome = false := by rw [inv.contains]; exact hc'
      have hcmds : drawCmds hash h img row col
          = [txCmd (idOf hash img) img, .put (idOf hash img) (placementId row col)] := by
        simp [drawCmds, hc']
      rw [hcmds] at hk
      have hf1 := feed_tx m (idOf hash img) wf he (idOf_ne_zero hash img) hlive
        (inv.fresh_content hid img hS hc')
      simp only [txCmd] at hf1
      have hlook : (((idOf hash img, content img) :: m.live).lookup (idOf hash img)) = some (content img) := by
        simp
      have hf2 := feed_put { m with live := (idOf hash img, content img) :: m.live } (idOf hash img)
        (placementId row col) (idOf_ne_zero hash img) (placementId_ne_zero row col) (by simp [hlook])
      refine ⟨{ live := (idOf hash img, content img) :: m.live,
                placed := ⟨content img, row, col, idOf hash img, placementId row col⟩ :: m.placed }, ?_, ?_⟩
      · simp only [Mon.step, hk, Mon.feedAll, hf1, hf2, hnz, if_false, txCmd, drawShape, if_true, hlook]
      · simp only [hc', Bool.false_eq_true, if_false]
        refine ⟨?_, ?_, ?_⟩
        · simp [inv.live]
        · intro e he'
          simp only [List.mem_cons] at he'
          rcases he' with he' | he'
          · subst he'; exact ⟨rfl, hS, he⟩
          · exact inv.imgs e he'
        · intro p hp
          simp only [List.mem_cons] at hp
          rcases hp with hp | hp
          · subst hp; exact ⟨img, hS, rfl, rfl, rfl, hdom⟩
          · exact inv.placed p hp

omit hwf in
theorem deletes_iff {m : Mon} {h : Handler} (inv : Inv hash S h m) (img : Image) (hS : img ∈ S)
    (p : Placed) (hp : p ∈ m.placed) (row col : Nat) (hdom : Dom row col) :
    deletes 105 (idOf hash img) (placementId row col) (p.id, p.pid)
      = (p.ct == content img && p.row == row && p.col == col) := by
  obtain ⟨img', hS', hct, hpid, hppid, hpdom⟩ := inv.placed p hp
  have hnz := placementId_ne_zero row col
  by_cases hA : p.ct = content img ∧ p.row = row ∧ p.col = col
  · obtain ⟨h1, h2, h3⟩ := hA
    have hidq : idOf hash img = p.id := by
      rw [hpid]; exact (hid img hS img' hS').mpr (by rw [← hct, h1])
    have hpq : placementId row col = p.pid := by rw [hppid, h2, h3]
    simp [deletes, hidq, hpq, h1, h2, h3]
  · have hB : ¬ (idOf hash img = p.id ∧ placementId row col = p.pid) := by
      intro ⟨e1, e2⟩
      apply hA
      have hc : content img = content img' := (hid img hS img' hS').mp (by rw [e1, hpid])
      rw [hppid] at e2
      have := placementId_inj hdom hpdom e2
      exact ⟨by rw [hct, hc], this.1.symm, this.2.symm⟩
    have lhs : deletes 105 (idOf hash img) (placementId row col) (p.id, p.pid) = false := by
      simp only [deletes, beq_self_eq_true, Bool.true_and, Bool.and_eq_false_imp, beq_iff_eq, Bool.or_eq_false_iff,
        beq_eq_false_iff_ne, ne_eq]
      intro e1
      exact ⟨hnz, fun e2 => hB ⟨e1, e2⟩⟩
    have rhs : (p.ct == content img && p.row == row && p.col == col) = false := by
      rw [Bool.eq_false_iff]
      intro hh
      simp only [Bool.and_eq_true, beq_iff_eq] at hh
      exact hA ⟨hh.1.1, hh.1.2, hh.2⟩
    rw [lhs, rhs]

omit hwf in
theorem deletes_all_iff {m : Mon} {h : Handler} (inv : Inv hash S h m) (img : Image) (hS : img ∈ S)
    (p : Placed) (hp : p ∈ m.placed) :
    deletes 105 (idOf hash img) 0 (p.id, p.pid) = (p.ct == content img) := by
  obtain ⟨img', hS', hct, hpid, _, _⟩ := inv.placed p hp
  have hdel : deletes 105 (idOf hash img) 0 (p.id, p.pid) = (idOf hash img == p.id) := by simp [deletes]
  rw [hdel]
  by_cases hA : p.ct = content img
  · have hidq : idOf hash img = p.id := by
      rw [hpid]; exact (hid img hS img' hS').mpr (by rw [← hct, hA])
    simp [hidq, hA]
  · have hB : ¬ idOf hash img = p.id := by
      intro e1
      apply hA
      have hc : content img = content img' := (hid img hS img' hS').mp (by rw [e1, hpid])
      rw [hct, hc]
    rw [beq_eq_false_iff_ne.mpr hB, beq_eq_false_iff_ne.mpr hA]

omit hwf in
theorem step_erase {h : Handler} {m : Mon} (inv : Inv hash S h m) (img : Image) (hS : img ∈ S)
    (pos : Option (Nat × Nat)) (hpos : ∀ r c, pos = some (r, c) → Dom r c) :
    ∃ m', m.step (.erase (content img) pos) (erase hash img pos) = some m' ∧ Inv hash S h m' := by
  have hk := (emits_erase hash img pos).kitty
  have hf := fun pid => feed_delete m (idOf hash img) pid (idOf_ne_zero hash img)
  have h105 : (105 : UInt8).toNat = 105 := by decide
  cases pos with
  | none =>
    simp only at hk
    refine ⟨{ m with placed := m.placed.filter (fun p => !deletes 105 (idOf hash img) 0 (p.id, p.pid)) }, ?_, ?_⟩
    · have hall : m.placed.all (fun p => deletes 105 (idOf hash img) 0 (p.id, p.pid) == (p.ct == content img)) = true := by
        rw [List.all_eq_true]
        intro p hp
        rw [deletes_all_iff hash S hid inv img hS p hp]; simp
      simp only [Mon.step, hk, Mon.feedAll, hf, h105, hall, if_true]
    · exact ⟨inv.live, inv.imgs, fun p hp => inv.placed p (List.mem_filter.mp hp).1⟩
  | some rc =>
    obtain ⟨row, col⟩ := rc
    simp only at hk
    have hdom := hpos row col rfl
    refine ⟨{ m with placed := m.placed.filter (fun p => !deletes 105 (idOf hash img) (placementId row col) (p.id, p.pid)) }, ?_, ?_⟩
    · have hall : m.placed.all (fun p => deletes 105 (idOf hash img) (placementId row col) (p.id, p.pid)
          == (p.ct == content img && p.row == row && p.col == col)) = true := by
        rw [List.all_eq_true]
        intro p hp
        rw [deletes_iff hash S hid inv img hS p hp row col hdom]; simp
      simp only [Mon.step, hk, Mon.feedAll, hf, h105, hall, placementId_ne_zero row col, ne_eq, not_false_eq_true,
        and_self, if_true]
    · exact ⟨inv.live, inv.imgs, fun p hp => inv.placed p (List.mem_filter.mp hp).1⟩

omit hwf hid in
theorem Inv.remove {h : Handler} {m : Mon} (inv : Inv hash S h m) (id : Nat) :
    Inv hash S { h with imgs := h.imgs.filter (fun e => e.1 != id) }
      { m with live := m.live.filter (fun e => e.1 != id) } := by
  refine ⟨?_, fun e he => inv.imgs e (List.mem_filter.mp he).1, inv.placed⟩
  simp only [inv.live, List.filter_map]
  rfl

theorem step_resp {h : Handler} {m : Mon} (inv : Inv hash S h m) (id : Nat) (placement : Option Nat)
    (error : Bool) :
    ∃ m', m.step (toSpec (.resp id placement error)) (step hash h (.resp id placement error)).2 = some m' ∧
      Inv hash S (step hash h (.resp id placement error)).1 m' := by
  have hk0 := Emits.nil.kitty
  cases error with
  | false =>
    refine ⟨m, ?_, ?_⟩
    · simp only [toSpec, step, handleEvent, Bool.false_eq_true, if_false, Mon.step, hk0, Mon.feedAll]
    · simpa [step, handleEvent] using inv
  | true =>
    have inv1 := inv.remove hash S id
    cases hl : h.imgs.lookup id with
    | none =>
      refine ⟨{ m with live := m.live.filter (fun e => e.1 != id) }, ?_, ?_⟩
      · cases placement <;>
          simp [toSpec, step, handleEvent, hl, Mon.step, hk0, Mon.feedAll]
      · simpa [step, handleEvent, hl] using inv1
    | some img =>
      cases placement with
      | none =>
        refine ⟨{ m with live := m.live.filter (fun e => e.1 != id) }, ?_, ?_⟩
        · simp only [toSpec, step, handleEvent, if_true, hl, Option.map_none, Mon.step, hk0, Mon.feedAll]
        · simpa [step, handleEvent, hl] using inv1
      | some pl =>
        have hmem := lookup_mem _ _ _ hl
        obtain ⟨hidq, hS, hne⟩ := inv.imgs _ hmem
        simp only at hidq hS hne
        have wf := hwf img hS
        let h2 : Handler := { imgs := h.imgs.filter (fun e => e.1 != id), suppress := some 2 }
        have hc2 : h2.contains id = false := by
          show (List.lookup id (h.imgs.filter (fun e => e.1 != id))).isSome = false
          rw [lookup_filter_self]; rfl
        have hem := emits_wrapped (placementToPos pl).1 (placementToPos pl).2
          (emits_draw hash h2 wf hne (placementToPos pl).1 (placementToPos pl).2)
        have hcmds : drawCmds hash h2 img (placementToPos pl).1 (placementToPos pl).2
            = [txCmd id img, .put id (placementId (placementToPos pl).1 (placementToPos pl).2)] := by
          rw [drawCmds, ← hidq]; simp [hc2]
        rw [hcmds] at hem
        have hk := hem.kitty
        have hidnz : id ≠ 0 := by rw [hidq]; exact idOf_ne_zero hash img
        have hlive : (({ m with live := m.live.filter (fun e => e.1 != id) } : Mon).live.lookup id).isSome = false := by
          rw [inv1.contains]
          show (List.lookup id (h.imgs.filter (fun e => e.1 != id))).isSome = false
          rw [lookup_filter_self]; rfl
        have hfresh := inv1.fresh_content hid img hS (by rw [← hidq]; exact hc2)
        have hf1 := feed_tx { m with live := m.live.filter (fun e => e.1 != id) } id wf hne hidnz hlive hfresh
        have hf2 := feed_put { live := (id, content img) :: m.live.filter (fun e => e.1 != id), placed := m.placed } id
          (placementId (placementToPos pl).1 (placementToPos pl).2) hidnz (placementId_ne_zero _ _) (by simp)
        have hstate : (step hash h (.resp id (some pl) true)).1.imgs
            = (id, img) :: h.imgs.filter (fun e => e.1 != id) := by
          simp only [step, handleEvent, if_true, hl, Option.map_some]
          rw [draw_state hash _ img hne]
          have hc2' : Handler.contains { imgs := h.imgs.filter (fun e => e.1 != id), suppress := some 2 } id = false := hc2
          rw [← hidq]; simp [hc2']
        have hbytes : (step hash h (.resp id (some pl) true)).2
            = [27, 55] ++ cursorTo (placementToPos pl).1 (placementToPos pl).2
              ++ (draw hash h2 img (placementToPos pl).1 (placementToPos pl).2).2 ++ [27, 56] := by
          simp only [step, handleEvent, if_true, hl, Option.map_some]
          rfl
        have hlook : List.lookup id ((id, content img) :: m.live.filter (fun e => e.1 != id)) = some (content img) := by
          simp
        have himgs : ∀ e ∈ (step hash h (.resp id (some pl) true)).1.imgs,
            e.1 = idOf hash e.2 ∧ e.2 ∈ S ∧ e.2.isEmpty = false := by
          rw [hstate]
          intro e he
          simp only [List.mem_cons] at he
          rcases he with he | he
          · subst he; exact ⟨hidq, hS, hne⟩
          · exact inv1.imgs e he
        have hlivemap : (id, content img) :: m.live.filter (fun e => e.1 != id)
            = (step hash h (.resp id (some pl) true)).1.imgs.map (fun e => (e.1, content e.2)) := by
          rw [hstate, List.map_cons]
          exact congrArg _ inv1.live
        simp only [txCmd] at hf1 hk
        cases hown : ownPlacement pl with
        | false =>
          refine ⟨{ live := (id, content img) :: m.live.filter (fun e => e.1 != id), placed := m.placed }, ?_, ?_⟩
          · rw [hbytes]
            simp only [toSpec, Mon.step, hk, Mon.feedAll, hf1, hf2, hown, or_true, if_true]
          · exact ⟨hlivemap, himgs, inv.placed⟩
        | true =>
          obtain ⟨hdom, hrt, hb1, hb2⟩ := own_roundtrip pl hown
          have hct := cursorTarget_wrapped (placementToPos pl).1 (placementToPos pl).2 hb1 hb2
            ((draw hash h2 img (placementToPos pl).1 (placementToPos pl).2).2 ++ [27, 56])
          rw [← List.append_assoc] at hct
          rw [hrt] at hk hf2
          have hall : m.placed.all (fun q => !(q.id == id && q.pid == pl)
              || (q.row == (placementToPos pl).1 && q.col == (placementToPos pl).2)) = true := by
            rw [List.all_eq_true]
            intro q hq
            obtain ⟨_, _, _, _, hqp, hqd⟩ := inv.placed q hq
            by_cases hh : q.id = id ∧ q.pid = pl
            · have := placementToPos_id q.row q.col hqd
              rw [← hqp, hh.2] at this
              simp [this]
            · have : (q.id == id && q.pid == pl) = false := by
                rw [Bool.eq_false_iff]; intro hc; simp only [Bool.and_eq_true, beq_iff_eq] at hc; exact hh hc
              simp [this]
          refine ⟨{ live := (id, content img) :: m.live.filter (fun e => e.1 != id),
                    placed := ⟨content img, (placementToPos pl).1, (placementToPos pl).2, id, pl⟩ :: m.placed }, ?_, ?_⟩
          · rw [hbytes]
            simp only [toSpec, Mon.step, hk, Mon.feedAll, hf1, hf2, hown, drawShape, hct, hlook, hall,
              Bool.true_eq_false, or_false, if_true, and_self, if_false, List.cons_ne_nil]
          · refine ⟨hlivemap, himgs, ?_⟩
            intro q hq
            simp only [List.mem_cons] at hq
            rcases hq with hq | hq
            · subst hq; exact ⟨img, hS, rfl, hidq, hrt.symm, hdom⟩
            · exact inv.placed q hq

omit hwf hid in
theorem step_other {h : Handler} {m : Mon} (inv : Inv hash S h m) :
    ∃ m', m.step (toSpec .other) (step hash h .other).2 = some m' ∧ Inv hash S (step hash h .other).1 m' := by
  have hk0 := Emits.nil.kitty
  refine ⟨m, ?_, ?_⟩
  · simp only [toSpec, step, handleEvent, Mon.step, hk0, Mon.feedAll]
  · simpa [step, handleEvent] using inv

end

end SurfProofs.Lemmas.KittyMon
