import SurfProofs.Lemmas.ProtoBasics
/-! C04: text.  The specification says what text is — a sequence of Unicode scalar values other than ESC, UTF-8
encoded (`TextOk`); the decoder model asks `validUtf8` (Rust's `from_utf8`).  Here: encoded text is well formed,
contains no ESC byte and consists of bytes. -/
namespace SurfProofs.ProtoUtf8
open SurfModel.Vt SurfModel.Payload SurfModel.Protocol

theorem scalar_iff (c : Nat) : Scalar c ↔ isScalar c = true := by
  unfold Scalar isScalar
  simp

theorem scalar_lt (c : Nat) (h : Scalar c) : c < 0x110000 ∧ ¬ (0xD800 ≤ c ∧ c < 0xE000) := by
  unfold Scalar at h; omega

/-- one encoded scalar value is one well-formed sequence -/
theorem validUtf8_utf8_append (c : Nat) (h : Scalar c) (rest : List Nat) :
    validUtf8 (utf8 c ++ rest) = validUtf8 rest := by
  obtain ⟨hlt, hsur⟩ := scalar_lt c h
  unfold utf8
  by_cases h1 : c < 0x80
  · simp only [h1, if_true, List.singleton_append]
    rw [validUtf8]
    simp [utf8Head, h1]
  by_cases h2 : c < 0x800
  · simp only [h1, h2, if_true, if_false, List.cons_append, List.nil_append]
    rw [validUtf8]
    have a : ¬ (0xC0 + c / 64 < 128) := by omega
    have b : 0xC2 ≤ 0xC0 + c / 64 ∧ 0xC0 + c / 64 ≤ 0xDF := by omega
    have k : isCont (0x80 + c % 64) = true := by simp [isCont]; omega
    simp [utf8Head, a, b, k]
  by_cases h3 : c < 0x10000
  · simp only [h1, h2, h3, if_true, if_false, List.cons_append, List.nil_append]
    rw [validUtf8]
    have a : ¬ (0xE0 + c / 4096 < 128) := by omega
    have b : ¬ (0xC2 ≤ 0xE0 + c / 4096 ∧ 0xE0 + c / 4096 ≤ 0xDF) := by omega
    have b2 : 0xE0 ≤ 0xE0 + c / 4096 ∧ 0xE0 + c / 4096 ≤ 0xEF := by omega
    have k : isCont (0x80 + c % 64) = true := by simp [isCont]; omega
    have s3 : second3 (0xE0 + c / 4096) (0x80 + c / 64 % 64) = true := by
      simp only [second3, isCont, Bool.or_eq_true, Bool.and_eq_true, beq_iff_eq, decide_eq_true_eq]
      omega
    simp [utf8Head, a, b, b2, k, s3]
  · simp only [h1, h2, h3, if_false, List.cons_append, List.nil_append]
    rw [validUtf8]
    have a : ¬ (0xF0 + c / 262144 < 128) := by omega
    have b : ¬ (0xC2 ≤ 0xF0 + c / 262144 ∧ 0xF0 + c / 262144 ≤ 0xDF) := by omega
    have b2 : ¬ (0xE0 ≤ 0xF0 + c / 262144 ∧ 0xF0 + c / 262144 ≤ 0xEF) := by omega
    have b3 : 0xF0 ≤ 0xF0 + c / 262144 ∧ 0xF0 + c / 262144 ≤ 0xF4 := by omega
    have k1 : isCont (0x80 + c / 64 % 64) = true := by simp [isCont]; omega
    have k2 : isCont (0x80 + c % 64) = true := by simp [isCont]; omega
    have s4 : second4 (0xF0 + c / 262144) (0x80 + c / 4096 % 64) = true := by
      simp only [second4, isCont, Bool.or_eq_true, Bool.and_eq_true, beq_iff_eq, decide_eq_true_eq]
      omega
    simp [utf8Head, a, b, b2, b3, k1, k2, s4]

theorem utf8_bytes (c : Nat) (h : Scalar c) (hne : c ≠ 27) : ∀ b ∈ utf8 c, b < 256 ∧ b ≠ 27 := by
  obtain ⟨hlt, _⟩ := scalar_lt c h
  intro b hb
  unfold utf8 at hb
  split at hb
  · simp at hb; omega
  · split at hb
    · simp at hb; omega
    · split at hb
      · simp at hb; omega
      · simp at hb; omega

/-- **Text is well-formed UTF-8 without ESC.** -/
theorem textOk_facts (t : List Nat) (h : TextOk t) : validUtf8 t = true ∧ 27 ∉ t ∧ ∀ b ∈ t, b < 256 := by
  obtain ⟨cps, hc, rfl⟩ := h
  induction cps with
  | nil => simp [encText, validUtf8]
  | cons c rest ih =>
    have hcs := hc c (by simp)
    obtain ⟨i1, i2, i3⟩ := ih (fun x hx => hc x (by simp [hx]))
    have e : encText (c :: rest) = utf8 c ++ encText rest := by simp [encText]
    rw [e]
    refine ⟨by rw [validUtf8_utf8_append c hcs.1]; exact i1, ?_, ?_⟩
    · intro hm
      rcases List.mem_append.mp hm with hm | hm
      · exact (utf8_bytes c hcs.1 hcs.2 27 hm).2 rfl
      · exact i2 hm
    · intro b hb
      rcases List.mem_append.mp hb with hb | hb
      · exact (utf8_bytes c hcs.1 hcs.2 b hb).1
      · exact i3 b hb

end SurfProofs.ProtoUtf8
