import SurfModel.KittyB64
/-!
RFC 4648: the strict decoder inverts the encoder (local copy for C11; C14 owns the general development).
-/
namespace SurfProofs.Lemmas.KittyB64
open SurfModel.KittyB64

theorem dec6_enc6_fin : ∀ i : Fin 64, dec6 (enc6 i.val) = some i.val := by decide
theorem enc6_ne_pad_fin : ∀ i : Fin 64, enc6 i.val ≠ pad := by decide

theorem dec6_enc6 {i : Nat} (h : i < 64) : dec6 (enc6 i) = some i := dec6_enc6_fin ⟨i, h⟩
theorem enc6_ne_pad {i : Nat} (h : i < 64) : enc6 i ≠ pad := enc6_ne_pad_fin ⟨i, h⟩

theorem ofNat_toNat (b : UInt8) : UInt8.ofNat b.toNat = b := by
  cases b with | ofBitVec v => simp

theorem toNat_lt (b : UInt8) : b.toNat < 256 := by
  cases b with | ofBitVec v => exact v.isLt

theorem decGroup_enc (a b c : UInt8) :
    decGroup (enc6 (a.toNat / 4)) (enc6 ((a.toNat % 4) * 16 + b.toNat / 16))
      (enc6 ((b.toNat % 16) * 4 + c.toNat / 64)) (enc6 (c.toNat % 64)) = some [a, b, c] := by
  have ha := toNat_lt a; have hb := toNat_lt b; have hc := toNat_lt c
  unfold decGroup
  rw [dec6_enc6 (by omega), dec6_enc6 (by omega), dec6_enc6 (by omega), dec6_enc6 (by omega)]
  simp only
  have e1 : a.toNat / 4 * 4 + (a.toNat % 4 * 16 + b.toNat / 16) / 16 = a.toNat := by omega
  have e2 : (a.toNat % 4 * 16 + b.toNat / 16) % 16 * 16 + (b.toNat % 16 * 4 + c.toNat / 64) / 4 = b.toNat := by omega
  have e3 : (b.toNat % 16 * 4 + c.toNat / 64) % 4 * 64 + c.toNat % 64 = c.toNat := by omega
  rw [e1, e2, e3, ofNat_toNat, ofNat_toNat, ofNat_toNat]

theorem decLast_enc3 (a b c : UInt8) :
    decLast (enc6 (a.toNat / 4)) (enc6 ((a.toNat % 4) * 16 + b.toNat / 16))
      (enc6 ((b.toNat % 16) * 4 + c.toNat / 64)) (enc6 (c.toNat % 64)) = some [a, b, c] := by
  have hb := toNat_lt b; have hc := toNat_lt c
  unfold decLast
  have h2 : enc6 ((b.toNat % 16) * 4 + c.toNat / 64) ≠ pad := enc6_ne_pad (by omega)
  have h3 : enc6 (c.toNat % 64) ≠ pad := enc6_ne_pad (by omega)
  simp only [h2, h3, false_and, if_false]
  exact decGroup_enc a b c

theorem decLast_enc1 (a : UInt8) :
    decLast (enc6 (a.toNat / 4)) (enc6 ((a.toNat % 4) * 16)) pad pad = some [a] := by
  have ha := toNat_lt a
  unfold decLast
  simp only [and_self, if_true]
  rw [dec6_enc6 (by omega), dec6_enc6 (by omega)]
  simp only
  have e0 : a.toNat % 4 * 16 % 16 = 0 := by omega
  have e1 : a.toNat / 4 * 4 + a.toNat % 4 * 16 / 16 = a.toNat := by omega
  rw [if_pos e0, e1, ofNat_toNat]

theorem decLast_enc2 (a b : UInt8) :
    decLast (enc6 (a.toNat / 4)) (enc6 ((a.toNat % 4) * 16 + b.toNat / 16)) (enc6 ((b.toNat % 16) * 4)) pad
      = some [a, b] := by
  have ha := toNat_lt a; have hb := toNat_lt b
  unfold decLast
  have h2 : enc6 ((b.toNat % 16) * 4) ≠ pad := enc6_ne_pad (by omega)
  simp only [h2, false_and, if_false, if_true]
  rw [dec6_enc6 (by omega), dec6_enc6 (by omega), dec6_enc6 (by omega)]
  simp only
  have e0 : b.toNat % 16 * 4 % 4 = 0 := by omega
  have e1 : a.toNat / 4 * 4 + (a.toNat % 4 * 16 + b.toNat / 16) / 16 = a.toNat := by omega
  have e2 : (a.toNat % 4 * 16 + b.toNat / 16) % 16 * 16 + b.toNat % 16 * 4 / 4 = b.toNat := by omega
  rw [if_pos e0, e1, e2, ofNat_toNat, ofNat_toNat]

theorem rfcEncode_ne_nil : ∀ (d : List UInt8), d ≠ [] → ∃ y ys, rfcEncode d = y :: ys
  | [], h => absurd rfl h
  | [_], _ => ⟨_, _, rfl⟩
  | [_, _], _ => ⟨_, _, rfl⟩
  | _ :: _ :: _ :: _, _ => ⟨_, _, rfl⟩

/-- length of the text: four characters per started group of three -/
theorem rfcEncode_length : ∀ (d : List UInt8), (rfcEncode d).length = 4 * ((d.length + 2) / 3)
  | [] => by simp [rfcEncode]
  | [_] => by simp [rfcEncode]
  | [_, _] => by simp [rfcEncode]
  | _ :: _ :: _ :: rest => by
    simp only [rfcEncode, List.length_cons, rfcEncode_length rest]
    omega

/-- RFC 4648 round trip -/
theorem rfcDecode_encode : ∀ (d : List UInt8), rfcDecode (rfcEncode d) = some d
  | [] => rfl
  | [a] => by simp only [rfcEncode, rfcDecode]; exact decLast_enc1 a
  | [a, b] => by simp only [rfcEncode, rfcDecode]; exact decLast_enc2 a b
  | a :: b :: c :: rest => by
    simp only [rfcEncode]
    by_cases hr : rest = []
    · subst hr
      simp only [rfcEncode, rfcDecode]
      exact decLast_enc3 a b c
    · obtain ⟨y, ys, hy⟩ := rfcEncode_ne_nil rest hr
      have ih := rfcDecode_encode rest
      rw [hy] at ih ⊢
      simp only [rfcDecode]
      rw [decGroup_enc, ih]
      rfl

end SurfProofs.Lemmas.KittyB64
