import SurfProofs.Lemmas.ProtoKeyTable
import SurfProofs.Lemmas.ProtoBasics
/-! C04: literal keys — every spelling of the naming table is accepted by the key grammar with the tag of its
key, and the tag decodes to the key. -/
namespace SurfProofs.ProtoKeys
open SurfModel SurfModel.Grammar SurfModel.Payload SurfModel.Protocol SurfModel.Automata
open SurfProofs.ProtoKeyTable SurfProofs.ProtoBasics

theorem lookup_entry (w : List Nat) (c : Nat) (h : keyLookup w = some c) :
    ∃ e ∈ Generated.keyTable, e.1 = w ∧ keyCode3 e.2.1 e.2.2.1 e.2.2.2 = c := by
  unfold keyLookup at h
  cases hf : Generated.keyTable.find? (fun e => e.1 == w) with
  | none => rw [hf] at h; simp at h
  | some e =>
    rw [hf] at h
    simp at h
    have hm := List.mem_of_find?_eq_some hf
    have hp := List.find?_some hf
    simp at hp
    exact ⟨e, hm, hp, h⟩

theorem proto_entry (i : Nat) (h : i < protoKeys.length) :
    ∃ p, protoKeys[i]? = some p ∧ keyLookup p.1 = some p.2.code ∧ Key.ofCode p.2.code = some p.2 := by
  have hm : protoKeys[i] ∈ protoKeys := List.getElem_mem h
  have h1 := List.all_eq_true.mp protoKeys_lookup _ hm
  have h2 := List.all_eq_true.mp protoKeys_ofCode _ hm
  refine ⟨protoKeys[i], by simp [h], ?_, ?_⟩
  · simpa using h1
  · simpa using h2

theorem key_print (i : Nat) (p : List Nat × Key) (h : protoKeys[i]? = some p) : print (.key i) = p.1 := by
  simp [print, h]

theorem key_denote (i : Nat) (p : List Nat × Key) (h : protoKeys[i]? = some p) : denote (.key i) = .key p.2 := by
  simp [denote, h]

theorem key_tag (i : Nat) (p : List Nat × Key) (h : protoKeys[i]? = some p) : Msg.tag (.key i) = p.2.code := by
  simp [Msg.tag, h]

/-- an entry of the key table is an alternative of the key grammar -/
theorem entry_matches (e : List Nat × Nat × Nat × Nat) (he : e ∈ Generated.keyTable) :
    keysRe.Matches (bytes e.1) := by
  unfold keysRe Re.altT
  refine Re.Matches.alt (e := Re.tagged (lit e.1, some (keyCode3 e.2.1 e.2.2.1 e.2.2.2))) ?_ ?_
  · refine List.mem_map.mpr ⟨(lit e.1, some (keyCode3 e.2.1 e.2.2.1 e.2.2.2)), ?_, rfl⟩
    exact List.mem_map.mpr ⟨e, he, rfl⟩
  · exact Re.Matches.tag (lit_matches _)

theorem key_member (i : Nat) (h : (Msg.key i).Valid) : keysRe.Matches (bytes (print (.key i))) := by
  obtain ⟨p, hp, hl, _⟩ := proto_entry i h
  obtain ⟨e, he, hw, _⟩ := lookup_entry _ _ hl
  rw [key_print i p hp, ← hw]
  exact entry_matches e he

theorem key_code_small (i : Nat) (p : List Nat × Key) (h : i < protoKeys.length) (hp : protoKeys[i]? = some p) :
    p.2.code < matcherBase := by
  obtain ⟨p', hp', hl, _⟩ := proto_entry i h
  rw [hp] at hp'
  cases hp'
  obtain ⟨e, he, _, hc⟩ := lookup_entry _ _ hl
  have := List.all_eq_true.mp keyTable_codes_small e he
  rw [← hc]
  simpa using this

theorem key_payload (i : Nat) (h : (Msg.key i).Valid) :
    decodeTok (Msg.tag (.key i)) (print (.key i)) = .ok (some (denote (.key i))) := by
  obtain ⟨p, hp, _, ho⟩ := proto_entry i h
  have hs := key_code_small i p h hp
  rw [key_tag i p hp, key_denote i p hp]
  unfold decodeTok
  simp [hs, ho]

end SurfProofs.ProtoKeys
