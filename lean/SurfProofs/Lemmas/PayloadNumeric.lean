import SurfProofs.Lemmas.ProtoBasics
import SurfProofs.Lemmas.ProtoTermcap
import SurfProofs.Lemmas.ProtoColor
import SurfProofs.Lemmas.PayloadTotal
/-!
Numeric fields of decoded events for parameters written as digit strings of ANY length (C02): the field is
the decimal value of the text clamped at `usize::MAX` (`clampDec`), a zero coordinate makes the report
unrecognised (`None`, hence `Raw`) — never a wrapped or underflowed value.
-/
namespace SurfProofs.PayloadNumeric
open SurfModel.Vt SurfModel.Sgr SurfModel.Grammar SurfModel.Payload
open SurfProofs.Lemmas.Vt SurfProofs.Lemmas.Sgr SurfProofs.ProtoBasics

/-- a string of ASCII digits -/
def Digits (ds : List Nat) : Prop := ∀ d ∈ ds, 48 ≤ d ∧ d ≤ 57

/-- the decimal value of a digit string (`readDec`: textbook left-to-right evaluation), clamped at `usize::MAX` -/
def clampDec (ds : List Nat) : Nat := min usizeMax (readDec ds)

theorem digits_no (sep : Nat) (h : sep < 48 ∨ 57 < sep) (ds : List Nat) (hd : Digits ds) : sep ∉ ds := by
  intro hm; have := hd sep hm; omega

theorem numbersDecode_cons_digits (sep : Nat) (h : sep < 48 ∨ 57 < sep) (ds : List Nat) (hd : Digits ds)
    (rest : List Nat) : numbersDecode (ds ++ sep :: rest) sep = clampDec ds :: numbersDecode rest sep := by
  unfold numbersDecode
  rw [splitBy_append_sep sep _ rest (digits_no sep h ds hd)]
  simp [numberDecode_digits ds hd, clampDec]

theorem numbersDecode_one_digits (sep : Nat) (h : sep < 48 ∨ 57 < sep) (ds : List Nat) (hd : Digits ds) :
    numbersDecode ds sep = [clampDec ds] := by
  unfold numbersDecode
  rw [splitBy_no_sep sep _ (digits_no sep h ds hd)]
  simp [numberDecode_digits ds hd, clampDec]

theorem sep59 : (59 : Nat) < 48 ∨ 57 < 59 := by omega

/-- `&data[pre.len() .. data.len() - 1]` of `pre ++ body ++ [x]` -/
theorem slice?_body (pre body : List Nat) (x : Nat) (a : Nat) (ha : a = pre.length) :
    slice? (pre ++ (body ++ [x])) a ((pre ++ (body ++ [x])).length - 1) = .ok body :=
  slice?_frame pre body [x] a _ ha (by simp)

/-- `data[data.len() - 1]` of `pre ++ body ++ [x]` -/
theorem index?_last (pre body : List Nat) (x : Nat) :
    index? (pre ++ (body ++ [x])) ((pre ++ (body ++ [x])).length - 1) = .ok x := by
  have h : (pre ++ (body ++ [x])).length - 1 = (pre ++ body).length := by simp
  rw [h, ← List.append_assoc]
  exact index?_frame (pre ++ body) x [] _ rfl

/-- `ESC [ row ; col R` -/
theorem cursorPosition_numeric (r c : List Nat) (hr : Digits r) (hc : Digits c) :
    decodeCursorPosition ([27, 91] ++ ((r ++ 59 :: c) ++ [82])) =
      if clampDec r = 0 ∨ clampDec c = 0 then .ok none
      else .ok (some (.cursorPosition (clampDec r - 1) (clampDec c - 1))) := by
  unfold decodeCursorPosition
  rw [sub?_ok _ _ (by simp)]
  simp only
  rw [slice?_body [27, 91] (r ++ 59 :: c) 82 2 rfl]
  simp only
  rw [numbersDecode_cons_digits 59 sep59 r hr, numbersDecode_one_digits 59 sep59 c hc]
  simp only [List.getElem?_cons_zero, List.getElem?_cons_succ]
  by_cases h1 : clampDec r = 0
  · simp [h1]
  · by_cases h2 : clampDec c = 0
    · simp [h1, h2]
    · simp [h1, h2]

/-- `ESC [ < event ; col ; row (M|m)` -/
theorem mouse_numeric (e x y : List Nat) (fin : Nat) (he : Digits e) (hx : Digits x) (hy : Digits y) :
    decodeMouse ([27, 91, 60] ++ ((e ++ 59 :: (x ++ 59 :: y)) ++ [fin])) =
      if clampDec x = 0 ∨ clampDec y = 0 then .ok none
      else .ok (some (.mouse (mouseName (clampDec e))
        (clampDec e / 4 % 8 + (if fin = 77 then modPress else 0)) (clampDec y - 1) (clampDec x - 1))) := by
  unfold decodeMouse
  rw [sub?_ok _ _ (by simp)]
  simp only
  rw [slice?_body [27, 91, 60] (e ++ 59 :: (x ++ 59 :: y)) fin 3 rfl]
  simp only
  rw [numbersDecode_cons_digits 59 sep59 e he, numbersDecode_cons_digits 59 sep59 x hx,
    numbersDecode_one_digits 59 sep59 y hy]
  rw [index?_last [27, 91, 60] (e ++ 59 :: (x ++ 59 :: y)) fin]
  simp only [List.getElem?_cons_zero, List.getElem?_cons_succ]
  by_cases h1 : clampDec x = 0
  · simp [h1]
  · by_cases h2 : clampDec y = 0
    · simp [h1, h2]
    · simp [h1, h2]

/-- `ESC [ ? level u` -/
theorem keyboardLevel_numeric (n : List Nat) (hn : Digits n) :
    decodeKittyKeyboard ([27, 91] ++ ((63 :: n) ++ [117])) = .ok (some (.keyboardLevel (clampDec n))) := by
  unfold decodeKittyKeyboard
  rw [sub?_ok _ _ (by simp)]
  simp only
  rw [slice?_body [27, 91] (63 :: n) 117 2 rfl]
  simp only [List.head?_cons, if_true]
  have : slice? (63 :: n) 1 (63 :: n).length = .ok n := by
    have := slice?_frame [63] n [] 1 (1 + n.length) rfl rfl
    simpa [Nat.add_comm] using this
  rw [this]
  simp [numberDecode_digits n hn, clampDec]

/-- one half of the size report: `[ k ; h ; w t` -/
theorem sizePair_numeric (k h w : List Nat) (hk : Digits k) (hh : Digits h) (hw : Digits w) (hk1 : k.length = 1) :
    sizePair (91 :: (k ++ ((59 :: (h ++ 59 :: w)) ++ [116]))) = .ok (some (clampDec h, clampDec w)) := by
  match k, hk1 with
  | [d], _ =>
    unfold sizePair
    rw [sub?_ok _ _ (by simp)]
    simp only
    have := slice?_frame [91, d, 59] (h ++ 59 :: w) [116] 3 (3 + (h ++ 59 :: w).length) rfl rfl
    have e : 91 :: ([d] ++ ((59 :: (h ++ 59 :: w)) ++ [116])) = [91, d, 59] ++ ((h ++ 59 :: w) ++ [116]) := by simp
    rw [e]
    have e2 : ([91, d, 59] ++ ((h ++ 59 :: w) ++ [116])).length - 1 = 3 + (h ++ 59 :: w).length := by
      simp; omega
    rw [e2, this]
    simp only
    rw [numbersDecode_cons_digits 59 sep59 h hh, numbersDecode_one_digits 59 sep59 w hw]
    simp

theorem numberDecode_two : numberDecode [50] = some 2 := by decide

/-- `38;2;r;g;b` (semicolon form, after the `38`): the colour is the three transmitted components when all of
    them are at most 255, otherwise it is unrecognised — never a component taken modulo 256 -/
theorem sgrColor_semicolon_numeric (r g b : List Nat) (hr : Digits r) (hg : Digits g) (hb : Digits b)
    (rest : List (List Nat)) :
    (sgrColor ([50] :: r :: g :: b :: rest) false).1 =
      if clampDec r ≤ 255 ∧ clampDec g ≤ 255 ∧ clampDec b ≤ 255
      then some ⟨clampDec r, clampDec g, clampDec b, 255⟩ else none := by
  simp only [sgrColor, numberDecode_two, nextNum, numberDecode_digits r hr, numberDecode_digits g hg,
    numberDecode_digits b hb, Bool.not_false, if_true, Option.bind_some, toU8]
  unfold clampDec
  by_cases h1 : min usizeMax (readDec r) ≤ 255
  · by_cases h2 : min usizeMax (readDec g) ≤ 255
    · by_cases h3 : min usizeMax (readDec b) ≤ 255
      · simp [h1, h2, h3]
      · simp [h1, h2, h3]
    · simp [h1, h2]
  · simp [h1]

/-- the colon form `38:2:r:g:b` -/
theorem sgrColor_colon_numeric (r g b : List Nat) (hr : Digits r) (hg : Digits g) (hb : Digits b) :
    (sgrColor [[50], r, g, b] true).1 =
      if clampDec r ≤ 255 ∧ clampDec g ≤ 255 ∧ clampDec b ≤ 255
      then some ⟨clampDec r, clampDec g, clampDec b, 255⟩ else none := by
  simp only [sgrColor, numberDecode_two, nextNum, numberDecode_digits r hr, numberDecode_digits g hg,
    numberDecode_digits b hb, Bool.not_true, toU8]
  unfold clampDec
  by_cases h1 : min usizeMax (readDec r) ≤ 255
  · by_cases h2 : min usizeMax (readDec g) ≤ 255
    · by_cases h3 : min usizeMax (readDec b) ≤ 255
      · simp [h1, h2, h3]
      · simp [h1, h2, h3]
    · simp [h1, h2]
  · simp [h1]

open SurfModel.Protocol in
theorem numbersDecode_joinWith (ps : List (List Nat)) (hne : ps ≠ []) (hd : ∀ p ∈ ps, Digits p) :
    numbersDecode (joinWith 59 ps) 59 = ps.map clampDec := by
  induction ps with
  | nil => exact absurd rfl hne
  | cons p rest ih =>
    cases rest with
    | nil => simp [joinWith, numbersDecode_one_digits 59 sep59 p (hd p (by simp))]
    | cons q rest' =>
      rw [joinWith, numbersDecode_cons_digits 59 sep59 p (hd p (by simp)),
        ih (by simp) (fun x hx => hd x (List.mem_cons_of_mem _ hx))]
      · simp
      · simp

open SurfModel.Protocol in
/-- `ESC [ ? a ; b ; … c` -/
theorem deviceAttrs_numeric (ps : List (List Nat)) (hne : ps ≠ []) (hd : ∀ p ∈ ps, Digits p) :
    decodeDeviceAttrs ([27, 91, 63] ++ (joinWith 59 ps ++ [99])) =
      .ok (some (.deviceAttrs (SurfModel.Automata.sortDedup ((ps.map clampDec).filter (0 < ·))))) := by
  unfold decodeDeviceAttrs
  rw [sub?_ok _ _ (by simp)]
  simp only
  rw [slice?_body [27, 91, 63] (joinWith 59 ps) 99 3 rfl]
  simp only
  rw [numbersDecode_joinWith ps hne hd]

/-- `ESC [ code u`: a key code that is a scalar value outside the private use block is the character itself -/
theorem kittyKey_numeric (c : List Nat) (hc : Digits c) (h32 : clampDec c ≤ 4294967295)
    (hs : SurfModel.Payload.isScalar (clampDec c) = true) (hp : ¬ (57344 ≤ clampDec c ∧ clampDec c ≤ 63743))
    (hn : clampDec c ∉ [27, 13, 9, 127]) :
    decodeKittyKeyboard ([27, 91] ++ (c ++ [117])) = .ok (some (.key ⟨.char (clampDec c), 0⟩)) := by
  unfold decodeKittyKeyboard
  rw [sub?_ok _ _ (by simp)]
  simp only
  rw [slice?_body [27, 91] c 117 2 rfl]
  simp only
  have hhead : c.head? ≠ some 63 := by
    cases c with
    | nil => simp
    | cons a r =>
      have := hc a (by simp)
      simp only [List.head?_cons, ne_eq, Option.some.injEq]
      omega
  rw [if_neg hhead]
  rw [splitBy_no_sep 59 c (digits_no 59 sep59 c hc)]
  simp only
  rw [numbersDecode_one_digits 58 (by omega) c hc]
  simp only [List.head?_cons, Option.getD_some]
  simp only [List.mem_cons, List.not_mem_nil, or_false, not_or] at hn
  have hk : keyboardDecodeKey (clampDec c) = some (.char (clampDec c)) := by
    unfold keyboardDecodeKey
    rw [if_neg hn.1, if_neg hn.2.1, if_neg hn.2.2.1, if_neg hn.2.2.2, if_neg (by omega), if_pos ⟨h32, hp⟩, if_pos hs]
  rw [hk]

/-- `ESC _ G i=<id>,p=<placement>;<message> ESC \` -/
theorem kittyImage_numeric (i p msg : List Nat) (hi : Digits i) (hp : Digits p) :
    ∃ e, decodeKittyImage ([27, 95, 71] ++ ((([105, 61] ++ i ++ [44, 112, 61] ++ p) ++ 59 :: msg) ++ [27, 92])) =
      .ok (some (.kittyImage (clampDec i) (some (clampDec p)) e)) := by
  unfold decodeKittyImage
  rw [sub?_ok _ _ (by simp)]
  simp only
  rw [slice?_frame [27, 95, 71] (([105, 61] ++ i ++ [44, 112, 61] ++ p) ++ 59 :: msg) [27, 92] 3 _ rfl (by simp; omega)]
  simp only
  have h59 : 59 ∉ ([105, 61] ++ i ++ [44, 112, 61] ++ p) := by
    intro hm
    simp only [List.mem_append, List.mem_cons, List.not_mem_nil, or_false] at hm
    rcases hm with ((h | h) | h) | h
    · omega
    · exact digits_no 59 sep59 i hi h
    · omega
    · exact digits_no 59 sep59 p hp h
  rw [SurfProofs.ProtoTermcap.splitn2_append_sep 59 _ msg h59]
  simp only
  have hkv : keyValueDecode 44 ([105, 61] ++ i ++ [44, 112, 61] ++ p) = [([105], i), ([112], p)] := by
    have := SurfProofs.ProtoTermcap.keyValueDecode_joinWith 44 [([105], i), ([112], p)] (by
      intro q hq
      simp only [List.mem_cons, List.not_mem_nil, or_false] at hq
      rcases hq with rfl | rfl
      · exact ⟨by simp, by simp, digits_no 44 (by omega) i hi⟩
      · exact ⟨by simp, by simp, digits_no 44 (by omega) p hp⟩) (by omega)
    simp only [List.map_cons, List.map_nil, SurfModel.Protocol.joinWith] at this
    rw [← this]
    congr 1
    simp
  rw [hkv]
  simp only [kittyFields, numberDecode_digits i hi, numberDecode_digits p hp]
  simp only [if_true, show ¬ ([112] : List Nat) = [105] by decide, if_false]
  exact ⟨_, rfl⟩

theorem numberDecode_four : numberDecode [52] = some 4 := by decide

/-- `ESC ] 4 ; index ; #000000 BEL`: the palette index -/
theorem palette_numeric (i : List Nat) (hi : Digits i) :
    decodeOsc ([27, 93] ++ (([52, 59] ++ i ++ [59, 35, 48, 48, 48, 48, 48, 48]) ++ [7])) =
      .ok (some (.color (.palette (clampDec i)) ⟨0, 0, 0, 255⟩)) := by
  unfold decodeOsc
  rw [sub?_ok _ _ (by simp)]
  simp only
  rw [index?_last [27, 93] ([52, 59] ++ i ++ [59, 35, 48, 48, 48, 48, 48, 48]) 7]
  simp only [if_true]
  rw [slice?_body [27, 93] ([52, 59] ++ i ++ [59, 35, 48, 48, 48, 48, 48, 48]) 7 2 rfl]
  simp only
  have hsplit : splitBy 59 ([52, 59] ++ i ++ [59, 35, 48, 48, 48, 48, 48, 48]) = [[52], i, [35, 48, 48, 48, 48, 48, 48]] := by
    have e : [52, 59] ++ i ++ [59, 35, 48, 48, 48, 48, 48, 48] = [52] ++ 59 :: (i ++ 59 :: [35, 48, 48, 48, 48, 48, 48]) := by simp
    rw [e, splitBy_append_sep 59 [52] _ (by simp), splitBy_append_sep 59 i _ (digits_no 59 sep59 i hi),
      splitBy_no_sep 59 _ (by decide)]
  rw [hsplit]
  simp only [numberDecode_four, numberDecode_digits i hi]
  have hv : validUtf8 [35, 48, 48, 48, 48, 48, 48] = true :=
    SurfProofs.ProtoColor.validUtf8_ascii _ (by decide)
  have hc : SurfModel.Payload.parseColor [35, 48, 48, 48, 48, 48, 48] = .ok (some ⟨0, 0, 0, 255⟩) := by
    simp [SurfModel.Payload.parseColor, rasterParse, rfindSlash, isNameByte, hexPair?, hexVal?]
  simp [hv, hc, clampDec]

theorem numberDecode_five : numberDecode [53] = some 5 := by decide

/-- `38;5;n`: the palette entry of the clamped index; an index above 255 selects nothing (never `n mod 256`) -/
theorem sgrColor_indexed_numeric (n : List Nat) (hn : Digits n) (rest : List (List Nat)) (colon : Bool) :
    (sgrColor ([53] :: n :: rest) colon).1 = palette (clampDec n) ∧
      (256 ≤ clampDec n → palette (clampDec n) = none) := by
  constructor
  · simp [sgrColor, numberDecode_five, numberDecode_digits n hn, clampDec]
  · intro h
    unfold palette
    rw [if_neg (by omega), if_neg (by omega), if_neg (by omega)]

end SurfProofs.PayloadNumeric
