import SurfProofs.Lemmas.ProtoBasics
import SurfProofs.Lemmas.ProtoTermcap
import SurfProofs.Lemmas.ProtoColor
import SurfProofs.Lemmas.PayloadTotal
/-!
Numeric fields of decoded events for parameters written as digit strings of ANY length (C02): the field is
the decimal value of the text clamped at `usize::MAX` (`clampDec`), a zero coordinate makes the report
unrecognised (`None`, hence `Raw`) — never a wrapped or underflowed value.
-/
namespace SurfProofs.PayloadNumeric
open SurfModel.Vt SurfModel.Sgr SurfModel.Grammar SurfModel.Payload
open SurfProofs.Lemmas.Vt SurfProofs.Lemmas.Sgr SurfProofs.ProtoBasics

/-- a string of ASCII digits -/
def Digits (ds : List Nat) : Prop := ∀ d ∈ ds, 48 ≤ d ∧ d ≤ 57

/-- the decimal value of a digit string (`readDec`: textbook left-to-right evaluation), clamped at `usize::MAX` -/
def clampDec (ds : List Nat) : Nat := min usizeMax (readDec ds)

theorem digits_no (sep : Nat) (h : sep < 48 ∨ 57 < sep) (ds : List Nat) (hd : Digits ds) : sep ∉ ds := by
  intro hm; have := hd sep hm; omega

theorem numbersDecode_cons_digits (sep : Nat) (h : sep < 48 ∨ 57 < sep) (ds : List Nat) (hd : Digits ds)
    (rest : List Nat) : numbersDecode (ds ++ sep :: rest) sep = clampDec ds :: numbersDecode rest sep := by
  unfold numbersDecode
  rw [splitBy_append_sep sep _ rest (digits_no sep h ds hd)]
  simp [numberDecode_digits ds hd, clampDec]

theorem numbersDecode_one_digits (sep : Nat) (h : sep < 48 ∨ 57 < sep) (ds : List Nat) (hd : Digits ds) :
    numbersDecode ds sep = [clampDec ds] := by
  unfold numbersDecode
  rw [splitBy_no_sep sep _ (digits_no sep h ds hd)]
  simp [numberDecode_digits ds hd, clampDec]

theorem sep59 : (59 : Nat) < 48 ∨ 57 < 59 := by omega

/-- `&data[pre.len() .. data.len() - 1]` of `pre ++ body ++ [x]` -/
theorem slice?_body (pre body : List Nat) (x : Nat) (a : Nat) (ha : a = pre.length) :
    slice? (pre ++ (body ++ [x])) a ((pre ++ (body ++ [x])).length - 1) = .ok body :=
  slice?_frame pre body [x] a _ ha (by simp)

/-- `data[data.len() - 1]` of `pre ++ body ++ [x]` -/
theorem index?_last (pre body : List Nat) (x : Nat) :
    index? (pre ++ (body ++ [x])) ((pre ++ (body ++ [x])).length - 1) = .ok x := by
  have h : (pre ++ (body ++ [x])).length - 1 = (pre ++ body).length := by simp
  rw [h, ← List.append_assoc]
  exact index?_frame (pre ++ body) x [] _ rfl

/-- `ESC [ row ; col R` -/
theorem cursorPosition_numeric (r c : List Nat) (hr : Digits r) (hc : Digits c) :
    decodeCursorPosition ([27, 91] ++ ((r ++ 59 :: c) ++ [82])) =
      if clampDec r = 0 ∨ clampDec c = 0 then .ok none
      else .ok (some (.cursorPosition (clampDec r - 1) (clampDec c - 1))) := by
  unfold decodeCursorPosition
  rw [sub?_ok _ _ (by simp)]
  simp only
  rw [slice?_body [27, 91] (r ++ 59 :: c) 82 2 rfl]
  simp only
  rw [numbersDecode_cons_digits 59 sep59 r hr, numbersDecode_one_digits 59 sep59 c hc]
  simp only [List.getElem?_cons_zero, List.getElem?_cons_succ]
  by_cases h1 : clampDec r = 0
  · simp [h1]
  · by_cases h2 : clampDec c = 0
    · simp [h1, h2]
    · simp [h1, h2]

/-- `ESC [ < event ; col ; row (M|m)` -/
theorem mouse_numeric (e x y : List Nat) (fin : Nat) (he : Digits e) (hx : Digits x) (hy : Digits y) :
    decodeMouse ([27, 91, 60] ++ ((e ++ 59 :: (x ++ 59 :: y)) ++ [fin])) =
      if clampDec x = 0 ∨ clampDec y = 0 then .ok none
      else .ok (some (.mouse (mouseName (clampDec e))
        (clampDec e / 4 % 8 + (if fin = 77 then modPress else 0)) (clampDec y - 1) (clampDec x - 1))) := by
  unfold decodeMouse
  rw [sub?_ok _ _ (by simp)]
  simp only
  rw [slice?_body [27, 91, 60] (e ++ 59 :: (x ++ 59 :: y)) fin 3 rfl]
  simp only
  rw [numbersDecode_cons_digits 59 sep59 e he, numbersDecode_cons_digits 59 sep59 x hx,
    numbersDecode_one_digits 59 sep59 y hy]
  rw [index?_last [27, 91, 60] (e ++ 59 :: (x ++ 59 :: y)) fin]
  simp only [List.getElem?_cons_zero, List.getElem?_cons_succ]
  by_cases h1 : clampDec x = 0
  · simp [h1]
  · by_cases h2 : clampDec y = 0
    · simp [h1, h2]
    · simp [h1, h2]

/-- `ESC [ ? level u` -/
theorem keyboardLevel_numeric (n : List Nat) (hn : Digits n) :
    decodeKittyKeyboard ([27, 91] ++ ((63 :: n) ++ [117])) = .ok (some (.keyboardLevel (clampDec n))) := by
  unfold decodeKittyKeyboard
  rw [sub?_ok _ _ (by simp)]
  simp only
  rw [slice?_body [27, 91] (63 :: n) 117 2 rfl]
  simp only [List.head?_cons, if_true]
  have : slice? (63 :: n) 1 (63 :: n).length = .ok n := by
    have := slice?_frame [63] n [] 1 (1 + n.length) rfl rfl
    simpa [Nat.add_comm] using this
  rw [this]
  simp [numberDecode_digits n hn, clampDec]

/-- one half of the size report: `[ k ; h ; w t` -/
theorem sizePair_numeric (k h w : List Nat) (hk : Digits k) (hh : Digits h) (hw : Digits w) (hk1 : k.length = 1) :
    sizePair (91 :: (k ++ ((59 :: (h ++ 59 :: w)) ++ [116]))) = .ok (some (clampDec h, clampDec w)) := by
  match k, hk1 with
  | [d], _ =>
    unfold sizePair
    rw [sub?_ok _ _ (by simp)]
    simp only
    have := slice?_frame [91, d, 59] (h ++ 59 :: w) [116] 3 (3 + (h ++ 59 :: w).length) rfl rfl
    have e : 91 :: ([d] ++ ((59 :: (h ++ 59 :: w)) ++ [116])) = [91, d, 59] ++ ((h ++ 59 :: w) ++ [116]) := by simp
    rw [e]
    have e2 : ([91, d, 59] ++ ((h ++ 59 :: w) ++ [116])).length - 1 = 3 + (h ++ 59 :: w).length := by
      simp; omega
    rw [e2, this]
    simp only
    rw [numbersDecode_cons_digits 59 sep59 h hh, numbersDecode_one_digits 59 sep59 w hw]
    simp

theorem numberDecode_two : numberDecode [50] = some 2 := by decide

/-- `38;2;r;g;b` (semicolon form, after the `38`): the colour is the three transmitted components when all of
    them are at most 255, otherwise it is unrecognised — never a component taken modulo 256 -/
theorem sgrColor_semicolon_numeric (r g b : List Nat) (hr : Digits r) (hg : Digits g) (hb : Digits b)
    (rest : List (List Nat)) :
    (sgrColor ([50] :: r :: g :: b :: rest) false).1 =
      if clampDec r ≤ 255 ∧ clampDec g ≤ 255 ∧ clampDec b ≤ 255
      then some ⟨clampDec r, clampDec g, clampDec b, 255⟩ else none := by
  simp only [sgrColor, numberDecode_two, nextNum, numberDecode_digits r hr, numberDecode_digits g hg,
    numberDecode_digits b hb, Bool.not_false, if_true, Option.bind_some, toU8]
  unfold clampDec
  by_cases h1 : min usizeMax (readDec r) ≤ 255
  · by_cases h2 : min usizeMax (readDec g) ≤ 255
    · by_cases h3 : min usizeMax (readDec b) ≤ 255
      · simp [h1, h2, h3]
      · simp [h1, h2, h3]
    · simp [h1, h2]
  · simp [h1]

/-- the colon form `38:2:r:g:b` -/
theorem sgrColor_colon_numeric (r g b : List Nat) (hr : Digits r) (hg : Digits g) (hb : Digits b) :
    (sgrColor [[50], r, g, b] true).1 =
      if clampDec r ≤ 255 ∧ clampDec g ≤ 255 ∧ clampDec b ≤ 255
      then some ⟨clampDec r, clampDec g, clampDec b, 255⟩ else none := by
  simp only [sgrColor, numberDecode_two, nextNum, numberDecode_digits r hr, numberDecode_digits g hg,
    numberDecode_digits b hb, Bool.not_true, toU8]
  unfold clampDec
  by_cases h1 : min usizeMax (readDec r) ≤ 255
  · by_cases h2 : min usizeMax (readDec g) ≤ 255
    · by_cases h3 : min usizeMax (readDec b) ≤ 255
      · simp [h1, h2, h3]
      · simp [h1, h2, h3]
    · simp [h1, h2]
  · simp [h1]

open SurfModel.Protocol in
theorem numbersDecode_joinWith (ps : List (List Nat)) (hne : ps ≠ []) (hd : ∀ p ∈ ps, Digits p) :
    numbersDecode (joinWith 59 ps) 59 = ps.map clampDec := by
  induction ps with
  | nil => exact absurd rfl hne
  | cons p rest ih =>
    cases rest with
    | nil => simp [joinWith, numbersDecode_one_digits 59 sep59 p (hd p (by simp))]
    | cons q rest' =>
      rw [joinWith, numbersDecode_cons_digits 59 sep59 p (hd p (by simp)),
        ih (by simp) (fun x hx => hd x (List.mem_cons_of_mem _ hx))]
      · simp
      · simp

open SurfModel.Protocol in
/-- `ESC [ ? a ; b ; … c` -/
theorem deviceAttrs_numeric (ps : List (List Nat)) (hne : ps ≠ []) (hd : ∀ p ∈ ps, Digits p) :
    decodeDeviceAttrs ([27, 91, 63] ++ (joinWith 59 ps ++ [99])) =
      .ok (some (.deviceAttrs (SurfModel.Automata.sortDedup ((ps.map clampDec).filter (0 < ·))))) := by
  unfold decodeDeviceAttrs
  rw [sub?_ok _ _ (by simp)]
  simp only
  rw [slice?_body [27, 91, 63] (joinWith 59 ps) 99 3 rfl]
  simp only
  rw [numbersDecode_joinWith ps hne hd]

/-- `ESC [ code u`: a key code that is a scalar value outside the private use block is the character itself -/
theorem kittyKey_numeric (c : List Nat) (hc : Digits c) (h32 : clampDec c ≤ 4294967295)
    (hs : SurfModel.Payload.isScalar (clampDec c) = true) (hp : ¬ (57344 ≤ clampDec c ∧ clampDec c ≤ 63743))
    (hn : clampDec c ∉ [27, 13, 9, 127]) :
    decodeKittyKeyboard ([27, 91] ++ (c ++ [117])) = .ok (some (.key ⟨.char (clampDec c), 0⟩)) := by
  unfold decodeKittyKeyboard
  rw [sub?_ok _ _ (by simp)]
  simp only
  rw [slice?_body [27, 91] c 117 2 rfl]
  simp only
  have hhead : c.head? ≠ some 63 := by
    cases c with
    | nil => simp
    | cons a r =>
      have := hc a (by simp)
      simp only [List.head?_cons, ne_eq, Option.some.injEq]
      omega
  rw [if_neg hhead]
  rw [splitBy_no_sep 59 c (digits_no 59 sep59 c hc)]
  simp only
  rw [numbersDecode_one_digits 58 (by omega) c hc]
  simp only [List.head?_cons, Option.getD_some]
  simp only [List.mem_cons, List.not_mem_nil, or_false, not_or] at hn
  have hk : keyboardDecodeKey (clampDec c) = some (.char (clampDec c)) := by
    unfold keyboardDecodeKey
    rw [if_neg hn.1, if_neg hn.2.1, if_neg hn.2.2.1, if_neg hn.2.2.2, if_neg (by omega), if_pos ⟨h32, hp⟩, if_pos hs]
  rw [hk]

/-- `ESC _ G i=<id>,p=<placement>;<message> ESC \` -/
theorem kittyImage_numeric (i p msg : List Nat) (hi : Digits i) (hp : Digits p) :
    ∃ e, decodeKittyImage ([27, 95, 71] ++ ((([105, 61] ++ i ++ [44, 112, 61] ++ p) ++ 59 :: msg) ++ [27, 92])) =
      .ok (some (.kittyImage (clampDec i) (some (clampDec p)) e)) := by
  unfold decodeKittyImage
  rw [sub?_ok _ _ (by simp)]
  simp only
  rw [slice?_frame [27, 95, 71] (([105, 61] ++ i ++ [44, 112, 61] ++ p) ++ 59 :: msg) [27, 92] 3 _ rfl (by simp; omega)]
  simp only
  have h59 : 59 ∉ ([105, 61] ++ i ++ [44, 112, 61] ++ p) := by
    intro hm
    simp only [List.mem_append, List.mem_cons, List.not_mem_nil, or_false] at hm
    rcases hm with ((h | h) | h) | h
    · omega
    · exact digits_no 59 sep59 i hi h
    · omega
    · exact digits_no 59 sep59 p hp h
  rw [SurfProofs.ProtoTermcap.splitn2_append_sep 59 _ msg h59]
  simp only
  have hkv : keyValueDecode 44 ([105, 61] ++ i ++ [44, 112, 61] ++ p) = [([105], i), ([112], p)] := by
    have := SurfProofs.ProtoTermcap.keyValueDecode_joinWith 44 [([105], i), ([112], p)] (by
      intro q hq
      simp only [List.mem_cons, List.not_mem_nil, or_false] at hq
      rcases hq with rfl | rfl
      · exact ⟨by simp, by simp, digits_no 44 (by omega) i hi⟩
      · exact ⟨by simp, by simp, digits_no 44 (by omega) p hp⟩) (by omega)
    simp only [List.map_cons, List.map_nil, SurfModel.Protocol.joinWith] at this
    rw [← this]
    congr 1
    simp
  rw [hkv]
  simp only [kittyFields, numberDecode_digits i hi, numberDecode_digits p hp]
  simp only [if_true, show ¬ ([112] : List Nat) = [105] by decide, if_false]
  exact ⟨_, rfl⟩

theorem numberDecode_four : numberDecode [52] = some 4 := by decide

/-- `ESC ] 4 ; index ; #000000 BEL`: the palette index -/
theorem palette_numeric (i : List Nat) (hi : Digits i) :
    decodeOsc ([27, 93] ++ (([52, 59] ++ i ++ [59, 35, 48, 48, 48, 48, 48, 48]) ++ [7])) =
      .ok (some (.color (.palette (clampDec i)) ⟨0, 0, 0, 255⟩)) := by
  unfold decodeOsc
  rw [sub?_ok _ _ (by simp)]
  simp only
  rw [index?_last [27, 93] ([52, 59] ++ i ++ [59, 35, 48, 48, 48, 48, 48, 48]) 7]
  simp only [if_true]
  rw [slice?_body [27, 93] ([52, 59] ++ i ++ [59, 35, 48, 48, 48, 48, 48, 48]) 7 2 rfl]
  simp only
  have hsplit : splitBy 59 ([52, 59] ++ i ++ [59, 35, 48, 48, 48, 48, 48, 48]) = [[52], i, [35, 48, 48, 48, 48, 48, 48]] := by
    have e : [52, 59] ++ i ++ [59, 35, 48, 48, 48, 48, 48, 48] = [52] ++ 59 :: (i ++ 59 :: [35, 48, 48, 48, 48, 48, 48]) := by simp
    rw [e, splitBy_append_sep 59 [52] _ (by simp), splitBy_append_sep 59 i _ (digits_no 59 sep59 i hi),
      splitBy_no_sep 59 _ (by decide)]
  rw [hsplit]
  simp only [numberDecode_four, numberDecode_digits i hi]
  have hv : validUtf8 [35, 48, 48, 48, 48, 48, 48] = true :=
    SurfProofs.ProtoColor.validUtf8_ascii _ (by decide)
  have hc : SurfModel.Payload.parseColor [35, 48, 48, 48, 48, 48, 48] = .ok (some ⟨0, 0, 0, 255⟩) := by
    simp [SurfModel.Payload.parseColor, rasterParse, rfindSlash, isNameByte, hexPair?, hexVal?]
  simp [hv, hc, clampDec]

theorem numberDecode_five : numberDecode [53] = some 5 := by decide

/-- `38;5;n`: the palette entry of the clamped index; an index above 255 selects nothing (never `n mod 256`) -/
theorem sgrColor_indexed_numeric (n : List Nat) (hn : Digits n) (rest : List (List Nat)) (colon : Bool) :
    (sgrColor ([53] :: n :: rest) colon).1 = palette (clampDec n) ∧
      (256 ≤ clampDec n → palette (clampDec n) = none) := by
  constructor
  · simp [sgrColor, numberDecode_five, numberDecode_digits n hn, clampDec]
  · intro h
    unfold palette
    rw [if_neg (by omega), if_neg (by omega), if_neg (by omega)]

/-! ## byte level: SGR true colour, the whole size report, kitty key codes that are not characters -/

theorem n38 : numberDecode [51, 56] = some 38 := by decide
theorem s38 : splitBy 58 [51, 56] = [[51, 56]] := by decide
theorem s2 : splitBy 58 [50] = [[50]] := by decide

theorem digits_split58 (ds : List Nat) (hd : Digits ds) : splitBy 58 ds = [ds] :=
  splitBy_no_sep 58 ds (digits_no 58 (by omega) ds hd)

/-- `ESC [ 38 ; 2 ; r ; g ; b m`, all components in range: exactly that colour -/
theorem sgr_truecolor_bytes (r g b : List Nat) (hr : Digits r) (hg : Digits g) (hb : Digits b)
    (h : clampDec r ≤ 255 ∧ clampDec g ≤ 255 ∧ clampDec b ≤ 255) :
    decodeSgr ([27, 91] ++ (([51, 56] ++ 59 :: ([50] ++ 59 :: (r ++ 59 :: (g ++ 59 :: b)))) ++ [109])) =
      .ok (some (.command { fg := some ⟨clampDec r, clampDec g, clampDec b, 255⟩ })) := by
  unfold decodeSgr decodeSgrBody
  rw [sub?_ok _ _ (by simp)]
  simp only
  rw [slice?_body [27, 91] _ 109 2 rfl]
  simp only
  unfold sgrFace
  rw [splitBy_append_sep 59 [51, 56] _ (by decide), splitBy_append_sep 59 [50] _ (by decide),
    splitBy_append_sep 59 r _ (digits_no 59 sep59 r hr), splitBy_append_sep 59 g _ (digits_no 59 sep59 g hg),
    splitBy_no_sep 59 b (digits_no 59 sep59 b hb)]
  have e := sgrColor_semicolon_numeric r g b hr hg hb []
  rw [if_pos h] at e
  have hr' := h.1
  have hg' := h.2.1
  have hb' := h.2.2
  unfold clampDec at hr' hg' hb'
  simp [sgrFaceLoop_cons, sgrFaceLoop_nil, sgrFaceStep, s38, n38, sgrColor, numberDecode_two, nextNum, toU8,
    numberDecode_digits r hr, numberDecode_digits g hg, numberDecode_digits b hb, hr', hg', hb', clampDec]

/-- the same sequence with the last component above 255: no colour (and nothing else) — not `b mod 256` -/
theorem sgr_truecolor_bytes_high (r g b : List Nat) (hr : Digits r) (hg : Digits g) (hb : Digits b)
    (h1 : clampDec r ≤ 255) (h2 : clampDec g ≤ 255) (h3 : 255 < clampDec b) :
    decodeSgr ([27, 91] ++ (([51, 56] ++ 59 :: ([50] ++ 59 :: (r ++ 59 :: (g ++ 59 :: b)))) ++ [109])) =
      .ok (some (.command {})) := by
  unfold decodeSgr decodeSgrBody
  rw [sub?_ok _ _ (by simp)]
  simp only
  rw [slice?_body [27, 91] _ 109 2 rfl]
  simp only
  unfold sgrFace
  rw [splitBy_append_sep 59 [51, 56] _ (by decide), splitBy_append_sep 59 [50] _ (by decide),
    splitBy_append_sep 59 r _ (digits_no 59 sep59 r hr), splitBy_append_sep 59 g _ (digits_no 59 sep59 g hg),
    splitBy_no_sep 59 b (digits_no 59 sep59 b hb)]
  unfold clampDec at h1 h2 h3
  have h3' : ¬ min usizeMax (readDec b) ≤ 255 := by omega
  simp [sgrFaceLoop_cons, sgrFaceLoop_nil, sgrFaceStep, s38, n38, sgrColor, numberDecode_two, nextNum, toU8,
    numberDecode_digits r hr, numberDecode_digits g hg, numberDecode_digits b hb, h1, h2, h3']

/-- colon forms `ESC [ 38 : 2 : r : g : b m` and `ESC [ 38 : 2 : cs : r : g : b m` (four components: the
    colour space id is skipped): the colour when all three components are in range, else none -/
theorem sgr_truecolor_colon_bytes (cs : Option (List Nat)) (r g b : List Nat) (hcs : ∀ c, cs = some c → Digits c)
    (hr : Digits r) (hg : Digits g) (hb : Digits b) :
    decodeSgr ([27, 91] ++ (([51, 56] ++ 58 :: ([50] ++ 58 ::
        ((match cs with | some c => c ++ [58] | none => []) ++ (r ++ 58 :: (g ++ 58 :: b))))) ++ [109])) =
      .ok (some (.command { fg := (if clampDec r ≤ 255 ∧ clampDec g ≤ 255 ∧ clampDec b ≤ 255
        then some (Rgba.mk (clampDec r) (clampDec g) (clampDec b) 255) else none) })) := by
  unfold decodeSgr decodeSgrBody
  rw [sub?_ok _ _ (by simp)]
  simp only
  rw [slice?_body [27, 91] _ 109 2 rfl]
  simp only
  unfold sgrFace
  have d58 : ∀ ds, Digits ds → 58 ∉ ds := fun ds h => digits_no 58 (by omega) ds h
  have d59 : ∀ ds, Digits ds → 59 ∉ ds := fun ds h => digits_no 59 sep59 ds h
  cases cs with
  | none =>
    simp only [List.nil_append]
    have hno : 59 ∉ [51, 56] ++ 58 :: ([50] ++ 58 :: (r ++ 58 :: (g ++ 58 :: b))) := by
      simp only [List.mem_append, List.mem_cons, List.not_mem_nil, or_false, not_or]
      exact ⟨by omega, by omega, by omega, by omega, d59 r hr, by omega, d59 g hg, by omega, d59 b hb⟩
    rw [splitBy_no_sep 59 _ hno]
    have hsplit : splitBy 58 ([51, 56] ++ 58 :: ([50] ++ 58 :: (r ++ 58 :: (g ++ 58 :: b)))) = [[51, 56], [50], r, g, b] := by
      rw [splitBy_append_sep 58 [51, 56] _ (by decide), splitBy_append_sep 58 [50] _ (by decide),
        splitBy_append_sep 58 r _ (d58 r hr), splitBy_append_sep 58 g _ (d58 g hg), splitBy_no_sep 58 b (d58 b hb)]
    have e := sgrColor_colon_numeric r g b hr hg hb
    simp only [List.cons_append, List.nil_append, List.append_assoc] at hsplit
    simp [sgrFaceLoop_cons, sgrFaceLoop_nil, sgrFaceStep, hsplit, n38, e]
  | some c =>
    have hc := hcs c rfl
    simp only
    have hno : 59 ∉ [51, 56] ++ 58 :: ([50] ++ 58 :: (c ++ [58] ++ (r ++ 58 :: (g ++ 58 :: b)))) := by
      simp only [List.mem_append, List.mem_cons, List.not_mem_nil, or_false, not_or]
      exact ⟨by omega, by omega, by omega, by omega, ⟨d59 c hc, by omega⟩, d59 r hr, by omega, d59 g hg, by omega, d59 b hb⟩
    rw [splitBy_no_sep 59 _ hno]
    have hsplit : splitBy 58 ([51, 56] ++ 58 :: ([50] ++ 58 :: (c ++ [58] ++ (r ++ 58 :: (g ++ 58 :: b))))) =
        [[51, 56], [50], c, r, g, b] := by
      have e : c ++ [58] ++ (r ++ 58 :: (g ++ 58 :: b)) = c ++ 58 :: (r ++ 58 :: (g ++ 58 :: b)) := by simp
      rw [e, splitBy_append_sep 58 [51, 56] _ (by decide), splitBy_append_sep 58 [50] _ (by decide),
        splitBy_append_sep 58 c _ (d58 c hc),
        splitBy_append_sep 58 r _ (d58 r hr), splitBy_append_sep 58 g _ (d58 g hg), splitBy_no_sep 58 b (d58 b hb)]
    simp only [List.cons_append, List.nil_append, List.append_assoc] at hsplit
    unfold clampDec
    by_cases h1 : min usizeMax (readDec r) ≤ 255
    · by_cases h2 : min usizeMax (readDec g) ≤ 255
      · by_cases h3 : min usizeMax (readDec b) ≤ 255
        · simp [sgrFaceLoop_cons, sgrFaceLoop_nil, sgrFaceStep, hsplit, n38, sgrColor, numberDecode_two, nextNum, toU8,
            numberDecode_digits c hc, numberDecode_digits r hr, numberDecode_digits g hg, numberDecode_digits b hb, h1, h2, h3]
        · simp [sgrFaceLoop_cons, sgrFaceLoop_nil, sgrFaceStep, hsplit, n38, sgrColor, numberDecode_two, nextNum, toU8,
            numberDecode_digits c hc, numberDecode_digits r hr, numberDecode_digits g hg, numberDecode_digits b hb, h1, h2, h3]
      · simp [sgrFaceLoop_cons, sgrFaceLoop_nil, sgrFaceStep, hsplit, n38, sgrColor, numberDecode_two, nextNum, toU8,
          numberDecode_digits c hc, numberDecode_digits r hr, numberDecode_digits g hg, numberDecode_digits b hb, h1, h2]
    · simp [sgrFaceLoop_cons, sgrFaceLoop_nil, sgrFaceStep, hsplit, n38, sgrColor, numberDecode_two, nextNum, toU8,
        numberDecode_digits c hc, numberDecode_digits r hr, numberDecode_digits g hg, numberDecode_digits b hb, h1]

/-- the whole size report `ESC [ 8 ; h ; w t ESC [ 4 ; h ; w t` -/
theorem termSize_numeric (h1 w1 h2 w2 : List Nat) (a1 : Digits h1) (b1 : Digits w1) (a2 : Digits h2) (b2 : Digits w2) :
    decodeTermSize (27 :: ((91 :: ([56] ++ ((59 :: (h1 ++ 59 :: w1)) ++ [116]))) ++
        27 :: (91 :: ([52] ++ ((59 :: (h2 ++ 59 :: w2)) ++ [116]))))) =
      .ok (some (.size (clampDec h1) (clampDec w1) (clampDec h2) (clampDec w2))) := by
  have no27 : ∀ (k : Nat) (h w : List Nat), k ≠ 27 → Digits h → Digits w →
      27 ∉ (91 :: ([k] ++ ((59 :: (h ++ 59 :: w)) ++ [116]))) := by
    intro k h w hk dh dw hm
    simp only [List.mem_cons, List.mem_append, List.not_mem_nil, or_false] at hm
    rcases hm with hm | hm | (hm | hm | hm | hm) | hm
    · omega
    · omega
    · omega
    · exact digits_no 27 (by omega) h dh hm
    · omega
    · exact digits_no 27 (by omega) w dw hm
    · omega
  unfold decodeTermSize
  rw [splitBy]
  simp only [if_true]
  rw [splitBy_append_sep 27 _ _ (no27 56 h1 w1 (by omega) a1 b1), splitBy_no_sep 27 _ (no27 52 h2 w2 (by omega) a2 b2)]
  simp only
  rw [sizePair_numeric [56] h1 w1 (by intro d hd; simp at hd; omega) a1 b1 rfl,
    sizePair_numeric [52] h2 w2 (by intro d hd; simp at hd; omega) a2 b2 rfl]

/-- `ESC [ code u` with a code that is not a character: above `u32::MAX` (incl. every value clamped at
    `usize::MAX`), a surrogate or beyond U+10FFFF, or in the private use block outside the function keys — the
    sequence is unrecognised (`None`, hence `Raw`); never a truncated or wrapped character -/
theorem kittyKey_rejected (c : List Nat) (hc : Digits c) (hn : clampDec c ∉ [27, 13, 9, 127])
    (hf : ¬ (57376 ≤ clampDec c ∧ clampDec c ≤ 57398))
    (h : 4294967295 < clampDec c ∨ SurfModel.Payload.isScalar (clampDec c) = false ∨
      (57344 ≤ clampDec c ∧ clampDec c ≤ 63743)) :
    decodeKittyKeyboard ([27, 91] ++ (c ++ [117])) = .ok none := by
  unfold decodeKittyKeyboard
  rw [sub?_ok _ _ (by simp)]
  simp only
  rw [slice?_body [27, 91] c 117 2 rfl]
  simp only
  have hhead : c.head? ≠ some 63 := by
    cases c with
    | nil => simp
    | cons a r =>
      have := hc a (by simp)
      simp only [List.head?_cons, ne_eq, Option.some.injEq]
      omega
  rw [if_neg hhead, splitBy_no_sep 59 c (digits_no 59 sep59 c hc)]
  simp only
  rw [numbersDecode_one_digits 58 (by omega) c hc]
  simp only [List.head?_cons, Option.getD_some]
  simp only [List.mem_cons, List.not_mem_nil, or_false, not_or] at hn
  have hk : keyboardDecodeKey (clampDec c) = none := by
    unfold keyboardDecodeKey
    rw [if_neg hn.1, if_neg hn.2.1, if_neg hn.2.2.1, if_neg hn.2.2.2, if_neg hf]
    rcases h with h | h | h
    · rw [if_neg (by omega)]
    · by_cases hp : clampDec c ≤ 4294967295 ∧ ¬ (57344 ≤ clampDec c ∧ clampDec c ≤ 63743)
      · rw [if_pos hp, h]; rfl
      · rw [if_neg hp]
    · rw [if_neg (by omega)]
  rw [hk]

/-- `ESC [ code ; modifiers u`: the modifier word is the field minus one, cut to 32 bits and masked with
    `KeyMod::ALL` (511) — whatever the field (513, 2^16, 2^32 ± 1, values clamped at `usize::MAX`), no bit
    outside the nine defined flags -/
theorem kittyKey_modifiers (c ms : List Nat) (hc : Digits c) (hms : Digits ms) (h32 : clampDec c ≤ 4294967295)
    (hs : SurfModel.Payload.isScalar (clampDec c) = true) (hp : ¬ (57344 ≤ clampDec c ∧ clampDec c ≤ 63743))
    (hn : clampDec c ∉ [27, 13, 9, 127]) :
    decodeKittyKeyboard ([27, 91] ++ ((c ++ 59 :: ms) ++ [117])) =
      .ok (some (.key ⟨.char (clampDec c), if clampDec ms > 1 then (clampDec ms - 1) % 4294967296 % 512 else 0⟩)) := by
  unfold decodeKittyKeyboard
  rw [sub?_ok _ _ (by simp)]
  simp only
  rw [slice?_body [27, 91] (c ++ 59 :: ms) 117 2 rfl]
  simp only
  have hhead : (c ++ 59 :: ms).head? ≠ some 63 := by
    cases c with
    | nil => simp
    | cons a r =>
      have := hc a (by simp)
      simp only [List.cons_append, List.head?_cons, ne_eq, Option.some.injEq]
      omega
  rw [if_neg hhead, splitBy_append_sep 59 c ms (digits_no 59 sep59 c hc), splitBy_no_sep 59 ms (digits_no 59 sep59 ms hms)]
  simp only
  rw [numbersDecode_one_digits 58 (by omega) c hc, numbersDecode_one_digits 58 (by omega) ms hms]
  simp only [List.head?_cons, Option.getD_some]
  simp only [List.mem_cons, List.not_mem_nil, or_false, not_or] at hn
  have hk : keyboardDecodeKey (clampDec c) = some (.char (clampDec c)) := by
    unfold keyboardDecodeKey
    rw [if_neg hn.1, if_neg hn.2.1, if_neg hn.2.2.1, if_neg hn.2.2.2, if_neg (by omega), if_pos ⟨h32, hp⟩, if_pos hs]
  rw [hk]
  simp

end SurfProofs.PayloadNumeric
