import SurfProofs.Lemmas.ToNFA
import SurfProofs.Lemmas.Subset
namespace SurfProofs.Tags
open SurfModel.Automata SurfProofs.Graph SurfProofs.NFASem SurfProofs.NFAGraph SurfProofs.NFALang SurfProofs.ReMatch SurfProofs.ToNFA

/-- tag `t` sits on a state reachable reading `w` -/
def TagReach (n : NFA) (w : List UInt8) (t : Nat) : Prop := ∃ q, Reach n w q ∧ tagAt n.states q = some t

/-- the DFA's tag report after `w`, in terms of the NFA -/
theorem mem_tagsAfter_iff (n : NFA) (w : List UInt8) (t : Nat) : t ∈ n.compile.tagsAfter w ↔ TagReach n w t := by
  rw [SurfProofs.Subset.mem_tagsAfter]
  unfold TagReach
  simp only [tagOf_eq]

theorem tagAt_none_of_ge (sts : List NState) (q : Nat) (h : sts.length ≤ q) : tagAt sts q = none := by
  simp [tagAt, List.getElem?_eq_none h]

/-- the tags alive in a choice after `w` are those alive in its alternatives after `w` -/
theorem choice_tagReach (ns : List NFA) (hwf : ∀ n ∈ ns, WF n) (w : List UInt8) (t : Nat) :
    TagReach (NFA.choice ns) w t ↔ ∃ n ∈ ns, TagReach n w t := by
  cases ns with
  | nil =>
    have : NFA.choice [] = NFA.nothing := rfl
    rw [this]
    simp only [List.not_mem_nil, false_and, exists_false, iff_false]
    rintro ⟨q, _, h⟩
    match q with
    | 0 => simp [tagAt, NFA.nothing, NState.new] at h
    | 1 => simp [tagAt, NFA.nothing, NState.new] at h
    | q + 2 => simp [tagAt, NFA.nothing] at h
  | cons m rest =>
    obtain ⟨h0e, h0, h1e, h1, hex⟩ := choice_graph (m :: rest) hwf
    have emb := fun i n (hn : (m :: rest)[i]? = some n) =>
      emb_assemble [choiceStart (NFA.mergeStates (m :: rest) 2).2, NState.new] (m :: rest)
        ((NFA.mergeStates (m :: rest) 2).2.map fun x => (x.2, 1)) i n hn (hwf n (List.mem_of_getElem? hn)).states
    unfold TagReach Reach
    rw [choice_eq]
    simp only
    constructor
    · rintro ⟨q, hp, ht⟩
      by_cases hq2 : q < 2
      · rw [tagAt_assemble_pre _ _ _ q (by simpa using hq2)] at ht
        match q, hq2 with
        | 0, _ => simp [tagAt, choiceStart] at ht
        | 1, _ => simp [tagAt, NState.new] at ht
      · by_cases hql : q < 2 + total (m :: rest)
        · obtain ⟨i, n, hn, h2, h3⟩ := cover (m :: rest) (q - 2) (by omega)
          have hi : i < (m :: rest).length := by
            rcases Nat.lt_or_ge i (m :: rest).length with h' | h'
            · exact h'
            · rw [List.getElem?_eq_none h'] at hn; cases hn
          have hblk : Blk 2 (m :: rest) i q := ⟨n, hn, by unfold InBlk; omega⟩
          have hf := fan_of_emb _ (m :: rest) (fun i => gr ((m :: rest)[i]?.getD m).states) _ hwf
            (fun i n hn => by simpa [hn] using emb i n hn)
            (fun x y h => (hex x y).mp h) h0e (fun t h => Or.inl ((h0 t).mp h)) h1e h1
          have p := hf.reach hp i hi hblk
          have p' := fan_unlift _ (m :: rest) _ _ i _ hn (emb i _ hn)
            (fun x y h => ((hex x y).mp h).choose_spec.2.2) p
          rw [stOf_eq 2 _ i _ hn] at p'
          simp only [Nat.add_sub_cancel] at p'
          refine ⟨n, List.mem_of_getElem? hn, q - (2 + base (m :: rest) i), p', ?_⟩
          have := tagAt_assemble_blk [choiceStart (NFA.mergeStates (m :: rest) 2).2, NState.new] (m :: rest)
            ((NFA.mergeStates (m :: rest) 2).2.map fun x => (x.2, 1)) i n hn (q - (2 + base (m :: rest) i))
            (by omega)
          simp only [List.length_cons, List.length_nil] at this
          rw [show q - (2 + base (m :: rest) i) + (0 + 1 + 1 + base (m :: rest) i) = q by omega] at this
          rw [← this]; exact ht
        · rw [tagAt_none_of_ge _ _ (by simp; omega)] at ht
          cases ht
    · rintro ⟨n, hn, k, hp, ht⟩
      obtain ⟨i, hi, rfl⟩ := List.getElem_of_mem hn
      have hn : (m :: rest)[i]? = some (m :: rest)[i] := List.getElem?_eq_getElem hi
      have hk : k < (m :: rest)[i].states.length := by
        rcases Nat.lt_or_ge k (m :: rest)[i].states.length with h | h
        · exact h
        · rw [tagAt_none_of_ge _ _ h] at ht; cases ht
      have p := (emb i _ hn).lift hp
      have e1 := (h0 (stOf 2 (m :: rest) i)).mpr ⟨i, hi, rfl⟩
      rw [stOf_eq 2 _ i _ hn] at e1
      simp only [List.length_cons, List.length_nil] at p
      refine ⟨k + (2 + base (m :: rest) i), Path.eps e1 p, ?_⟩
      have := tagAt_assemble_blk [choiceStart (NFA.mergeStates (m :: rest) 2).2, NState.new] (m :: rest)
        ((NFA.mergeStates (m :: rest) 2).2.map fun x => (x.2, 1)) i _ hn k hk
      simp only [List.length_cons, List.length_nil] at this
      rw [show k + (2 + base (m :: rest) i) = k + (0 + 1 + 1 + base (m :: rest) i) by omega, this]
      exact ht


/-! ### expressions without tags build automata without tags -/

/-- no `tag` constructor inside -/
inductive TagFree : Re → Prop
  | lit (s) : TagFree (.lit s)
  | pred (rs) : TagFree (.pred rs)
  | seq {es} : (∀ e ∈ es, TagFree e) → TagFree (.seq es)
  | alt {es} : (∀ e ∈ es, TagFree e) → TagFree (.alt es)
  | opt {e} : TagFree e → TagFree (.opt e)
  | plus {e} : TagFree e → TagFree (.plus e)
  | star {e} : TagFree e → TagFree (.star e)
  | empty : TagFree .empty
  | nothing : TagFree .nothing

def NoTags (sts : List NState) : Prop := ∀ q, tagAt sts q = none

theorem noTags_iff (sts : List NState) : NoTags sts ↔ ∀ st ∈ sts, st.tag = none := by
  constructor
  · intro h st hst
    obtain ⟨q, hq⟩ := List.mem_iff_getElem?.mp hst
    have := h q
    simpa [tagAt, hq] using this
  · intro h q
    unfold tagAt
    cases hq : sts[q]? with
    | none => rfl
    | some st => exact h st (List.mem_of_getElem? hq)

theorem assemble_noTags (pre : List NState) (ns : List NFA) (extra : List (Nat × Nat)) (hpre : NoTags pre)
    (hns : ∀ n ∈ ns, NoTags n.states) : NoTags (assemble pre ns extra) := by
  intro q
  by_cases hq : q < pre.length
  · rw [tagAt_assemble_pre _ _ _ q hq]; exact hpre q
  · by_cases hql : q < pre.length + total ns
    · obtain ⟨i, n, hn, h2, h3⟩ := cover ns (q - pre.length) (by omega)
      have := tagAt_assemble_blk pre ns extra i n hn (q - (pre.length + base ns i)) (by omega)
      rw [show q - (pre.length + base ns i) + (pre.length + base ns i) = q by omega] at this
      rw [this]; exact hns n (List.mem_of_getElem? hn) _
    · exact tagAt_none_of_ge _ _ (by simp; omega)

theorem strStates_noTags (s : List UInt8) (i : Nat) : NoTags (NFA.strStates s i) := by
  rw [noTags_iff]
  induction s generalizing i with
  | nil => simp [NFA.strStates, NState.new]
  | cons b bs ih =>
    intro st hst
    simp only [NFA.strStates, List.mem_cons] at hst
    rcases hst with rfl | hst
    · rfl
    · exact ih _ st hst

theorem choice_noTags (ns : List NFA) (hns : ∀ n ∈ ns, NoTags n.states) : NoTags (NFA.choice ns).states := by
  cases ns with
  | nil =>
    have : NFA.choice [] = NFA.nothing := rfl
    rw [this, noTags_iff]; simp [NFA.nothing, NState.new]
  | cons m rest =>
    rw [choice_eq]
    refine assemble_noTags _ _ _ ?_ hns
    rw [noTags_iff]; simp [choiceStart, NState.new]

theorem toNFA_noTags (e : Re) (h : TagFree e) : NoTags e.toNFA.states := by
  induction e using Re.induct' with
  | lit s => rw [Re.toNFA]; exact strStates_noTags s 0
  | pred rs => rw [Re.toNFA, noTags_iff]; simp [NFA.predicate, NState.new]
  | seq es ih =>
    cases h with
    | seq h =>
      rw [Re.toNFA, toNFAs_eq]
      cases es with
      | nil =>
        have : NFA.sequence [] = NFA.empty := rfl
        simp only [List.map_nil, this, noTags_iff]; simp [NFA.empty, NState.new]
      | cons e es =>
        simp only [List.map_cons]
        rw [sequence_eq]
        refine assemble_noTags _ _ _ (fun q => by simp [tagAt]) ?_
        intro n hn
        rw [← List.map_cons] at hn
        obtain ⟨e', he', rfl⟩ := List.mem_map.mp hn
        exact ih e' he' (h e' he')
  | alt es ih =>
    cases h with
    | alt h =>
      rw [Re.toNFA, toNFAs_eq]
      refine choice_noTags _ ?_
      intro n hn
      obtain ⟨e', he', rfl⟩ := List.mem_map.mp hn
      exact ih e' he' (h e' he')
  | opt e ih =>
    cases h with
    | opt h =>
      rw [Re.toNFA]
      refine choice_noTags _ ?_
      intro n hn
      simp at hn
      rcases hn with rfl | rfl
      · exact ih h
      · rw [noTags_iff]; simp [NFA.empty, NState.new]
  | plus e ih =>
    cases h with
    | plus h =>
      rw [Re.toNFA]
      intro q
      simp only [NFA.some, tagAt_addEps]
      exact ih h q
  | star e ih =>
    cases h with
    | star h =>
      rw [Re.toNFA, many_eq]
      refine assemble_noTags _ _ _ ?_ ?_
      · rw [noTags_iff]; simp [manyStart, NState.new]
      · intro n hn; simp at hn; subst hn; exact ih h
  | empty => rw [Re.toNFA, noTags_iff]; simp [NFA.empty, NState.new]
  | nothing => rw [Re.toNFA, noTags_iff]; simp [NFA.nothing, NState.new]
  | tag t e ih => cases h

/-- a tagged alternative with a tag-free body shows its tag exactly when the body has matched -/
theorem tagged_tagReach (a : Re × Option Nat) (htf : TagFree a.1) (w : List UInt8) (t : Nat) :
    TagReach (Re.tagged a).toNFA w t ↔ a.2 = some t ∧ a.1.Matches w := by
  obtain ⟨e, tg⟩ := a
  cases tg with
  | none =>
    simp only [Re.tagged, reduceCtorEq, false_and, iff_false]
    rintro ⟨q, _, h⟩
    rw [toNFA_noTags e htf q] at h; cases h
  | some t' =>
    simp only [Re.tagged, Option.some.injEq]
    rw [Re.toNFA]
    unfold TagReach
    constructor
    · rintro ⟨q, hp, ht⟩
      rw [tagAt_tagStop] at ht
      split at ht
      · rename_i hq
        simp only [Option.some.injEq] at ht
        refine ⟨ht, ?_⟩
        rw [tagStop_reach, hq.1] at hp
        exact ((toNFA_spec e).2 w).mp hp
      · rw [toNFA_noTags e htf q] at ht; cases ht
    · rintro ⟨rfl, hm⟩
      refine ⟨e.toNFA.stop, ?_, ?_⟩
      · rw [tagStop_reach]; exact ((toNFA_spec e).2 w).mpr hm
      · rw [tagAt_tagStop]; simp [(toNFA_spec e).1.stop]


/-! ### `tags_map` changes tags only -/

theorem tagsMap_edge (n : NFA) (f : Nat → Nat) (x : Nat) (c : UInt8) (y : Nat) :
    (gr (n.tagsMap f).states).edge x c y ↔ (gr n.states).edge x c y := by
  simp only [gr, NFA.tagsMap, List.getElem?_map]
  cases n.states[x]? <;> simp

theorem tagsMap_eps (n : NFA) (f : Nat → Nat) (x y : Nat) :
    (gr (n.tagsMap f).states).eps x y ↔ (gr n.states).eps x y := by
  simp only [gr, NFA.tagsMap, List.getElem?_map]
  cases n.states[x]? <;> simp

theorem tagsMap_path (n : NFA) (f : Nat → Nat) (s q : Nat) (w : List UInt8) :
    Path (gr (n.tagsMap f).states) s w q ↔ Path (gr n.states) s w q := by
  constructor
  · exact Path.mono (g := gr (n.tagsMap f).states) (g' := gr n.states)
      (fun s c t h => (tagsMap_edge _ _ _ _ _).mp h) (fun s t h => (tagsMap_eps _ _ _ _).mp h)
  · exact Path.mono (g := gr n.states) (g' := gr (n.tagsMap f).states)
      (fun s c t h => (tagsMap_edge _ _ _ _ _).mpr h) (fun s t h => (tagsMap_eps _ _ _ _).mpr h)

theorem tagsMap_lang (n : NFA) (f : Nat → Nat) (w : List UInt8) : Lang (n.tagsMap f) w ↔ Lang n w :=
  tagsMap_path n f _ _ w

theorem tagsMap_wf (n : NFA) (f : Nat → Nat) (hwf : WF n) : WF (n.tagsMap f) := by
  refine ⟨by simpa [NFA.tagsMap] using hwf.start, by simpa [NFA.tagsMap] using hwf.stop, ?_⟩
  rw [wfs_iff]
  constructor
  · intro s c y h
    simpa [NFA.tagsMap] using hwf.states.edge ((tagsMap_edge _ _ _ _ _).mp h)
  · intro s y h
    simpa [NFA.tagsMap] using hwf.states.eps ((tagsMap_eps _ _ _ _).mp h)

theorem tagAt_tagsMap (n : NFA) (f : Nat → Nat) (q : Nat) :
    tagAt (n.tagsMap f).states q = (tagAt n.states q).map f := by
  simp only [tagAt, NFA.tagsMap, List.getElem?_map]
  cases n.states[q]? <;> simp

/-- the tags alive after `w` in `n.tags_map(f)` are the images of those alive in `n` -/
theorem tagsMap_tagReach (n : NFA) (f : Nat → Nat) (w : List UInt8) (t : Nat) :
    TagReach (n.tagsMap f) w t ↔ ∃ t', TagReach n w t' ∧ f t' = t := by
  unfold TagReach Reach
  constructor
  · rintro ⟨q, hp, ht⟩
    rw [tagAt_tagsMap] at ht
    cases h : tagAt n.states q with
    | none => simp [h] at ht
    | some t' =>
      simp [h] at ht
      exact ⟨t', ⟨q, (tagsMap_path n f _ _ w).mp hp, h⟩, ht⟩
  · rintro ⟨t', ⟨q, hp, ht⟩, rfl⟩
    exact ⟨q, (tagsMap_path n f _ _ w).mpr hp, by rw [tagAt_tagsMap, ht]; rfl⟩


/-- in a well-formed automaton every reachable state is a state id (no lookup of the model ever takes the
    `none` branch that stands for Rust's index panic) -/
theorem reach_lt (n : NFA) (hwf : WF n) {w : List UInt8} {q : Nat} (h : Reach n w q) : q < n.states.length := by
  have key : ∀ {s t : Nat} {w : List UInt8}, Path (gr n.states) s w t → s < n.states.length → t < n.states.length := by
    intro s t w p
    induction p with
    | refl => exact id
    | eps he _ ih => exact fun _ => ih (hwf.states.eps he)
    | sym he _ ih => exact fun _ => ih (hwf.states.edge he)
  exact key h hwf.start

/-! ### the production shape: `MatcherAutomata::new` -/

/-- `tags_map(|_| c).tag_stop_state(c)`: tag `c` is alive exactly when the operand has matched or one of its
    own tags is alive -/
theorem constTag_tagReach (n : NFA) (hwf : WF n) (c : Nat) (w : List UInt8) (t : Nat) :
    TagReach ((n.tagsMap fun _ => c).tagStop c) w t ↔ t = c ∧ (Lang n w ∨ ∃ t', TagReach n w t') := by
  unfold TagReach
  constructor
  · rintro ⟨q, hp, ht⟩
    rw [tagStop_reach] at hp
    have hp' : Reach n w q := (tagsMap_path n _ _ _ w).mp hp
    rw [tagAt_tagStop] at ht
    split at ht
    · rename_i hq
      simp only [Option.some.injEq] at ht
      refine ⟨ht.symm, Or.inl ?_⟩
      have : q = n.stop := hq.1
      subst this; exact hp'
    · rw [tagAt_tagsMap] at ht
      cases h : tagAt n.states q with
      | none => simp [h] at ht
      | some t' =>
        simp [h] at ht
        exact ⟨ht.symm, Or.inr ⟨t', q, hp', h⟩⟩
  · rintro ⟨rfl, h⟩
    have hstop : (n.tagsMap fun _ => t).stop < (n.tagsMap fun _ => t).states.length := by
      simpa [NFA.tagsMap] using hwf.stop
    rcases h with h | ⟨t', q, hp, ht⟩
    · refine ⟨n.stop, ?_, ?_⟩
      · rw [tagStop_reach]; exact (tagsMap_path n _ _ _ w).mpr h
      · rw [tagAt_tagStop, if_pos ⟨rfl, hstop⟩]
    · refine ⟨q, ?_, ?_⟩
      · rw [tagStop_reach]; exact (tagsMap_path n _ _ _ w).mpr hp
      · rw [tagAt_tagStop]
        split
        · rfl
        · rw [tagAt_tagsMap, ht]; rfl

/-- one registered matcher: `Either::Left` (payload decoded later; the automaton's own tags are erased) or
    `Either::Right` (the automaton's tags are the items) -/
inductive MatcherNFA where
  | parsed (n : NFA)
  | items (n : NFA)

def MatcherNFA.nfa : MatcherNFA → NFA
  | .parsed n => n
  | .items n => n

/-- the closure body of `MatcherAutomata::new`; `mk i` encodes `MatcherTag::Matcher(i)`, `it t` encodes
    `MatcherTag::Item(t)` -/
def wrapMatcher (mk it : Nat → Nat) (i : Nat) : MatcherNFA → NFA
  | .parsed n => (n.tagsMap fun _ => mk i).tagStop (mk i)
  | .items n => n.tagsMap it

/-- `MatcherAutomata::new`, before `compile` -/
def matcherAutomaton (mk it : Nat → Nat) (ms : List MatcherNFA) : NFA :=
  NFA.choice (ms.mapIdx fun i m => wrapMatcher mk it i m)

theorem wrapMatcher_wf (mk it : Nat → Nat) (i : Nat) (m : MatcherNFA) (h : WF m.nfa) : WF (wrapMatcher mk it i m) := by
  cases m with
  | parsed n => exact tagStop_wf _ _ (tagsMap_wf n _ h)
  | items n => exact tagsMap_wf n _ h

theorem wrapMatcher_lang (mk it : Nat → Nat) (i : Nat) (m : MatcherNFA) (w : List UInt8) :
    Lang (wrapMatcher mk it i m) w ↔ Lang m.nfa w := by
  cases m with
  | parsed n => simp only [wrapMatcher, MatcherNFA.nfa]; rw [tagStop_lang, tagsMap_lang]
  | items n => simp only [wrapMatcher, MatcherNFA.nfa]; rw [tagsMap_lang]

/-- when matcher `i` makes tag `t` alive after `w`: a parsed matcher shows `Matcher(i)` once it has matched
    (or while one of its own, erased, tags is alive — none in production, the tag type there is `Void`); an item
    matcher shows its own tags, wrapped -/
def Reported (mk it : Nat → Nat) (i : Nat) (m : MatcherNFA) (w : List UInt8) (t : Nat) : Prop :=
  match m with
  | .parsed n => t = mk i ∧ (Lang n w ∨ ∃ t', TagReach n w t')
  | .items n => ∃ t', TagReach n w t' ∧ it t' = t

/-- when which tag is alive in the production automaton -/
theorem matcherAutomaton_tagReach (mk it : Nat → Nat) (ms : List MatcherNFA) (hwf : ∀ m ∈ ms, WF m.nfa)
    (w : List UInt8) (t : Nat) :
    TagReach (matcherAutomaton mk it ms) w t ↔
      ∃ i m, ms[i]? = some m ∧ Reported mk it i m w t := by
  unfold matcherAutomaton
  have hw : ∀ n ∈ ms.mapIdx (fun i m => wrapMatcher mk it i m), WF n := by
    intro n hn
    obtain ⟨i, hi⟩ := List.mem_iff_getElem?.mp hn
    rw [List.getElem?_mapIdx] at hi
    cases hm : ms[i]? with
    | none => simp [hm] at hi
    | some m =>
      simp [hm] at hi; subst hi
      exact wrapMatcher_wf mk it i m (hwf m (List.mem_of_getElem? hm))
  rw [choice_tagReach _ hw]
  constructor
  · rintro ⟨n, hn, h⟩
    obtain ⟨i, hi⟩ := List.mem_iff_getElem?.mp hn
    rw [List.getElem?_mapIdx] at hi
    cases hm : ms[i]? with
    | none => simp [hm] at hi
    | some m =>
      simp [hm] at hi; subst hi
      refine ⟨i, m, hm, ?_⟩
      cases m with
      | parsed n => exact (constTag_tagReach n (hwf _ (List.mem_of_getElem? hm)) (mk i) w t).mp h
      | items n => exact (tagsMap_tagReach n it w t).mp h
  · rintro ⟨i, m, hm, h⟩
    refine ⟨wrapMatcher mk it i m, List.mem_iff_getElem?.mpr ⟨i, by rw [List.getElem?_mapIdx, hm]; rfl⟩, ?_⟩
    cases m with
    | parsed n => exact (constTag_tagReach n (hwf _ (List.mem_of_getElem? hm)) (mk i) w t).mpr h
    | items n => exact (tagsMap_tagReach n it w t).mpr h

theorem matcherAutomaton_lang (mk it : Nat → Nat) (ms : List MatcherNFA) (hwf : ∀ m ∈ ms, WF m.nfa)
    (w : List UInt8) : Lang (matcherAutomaton mk it ms) w ↔ ∃ m ∈ ms, Lang m.nfa w := by
  unfold matcherAutomaton
  have hw : ∀ n ∈ ms.mapIdx (fun i m => wrapMatcher mk it i m), WF n := by
    intro n hn
    obtain ⟨i, hi⟩ := List.mem_iff_getElem?.mp hn
    rw [List.getElem?_mapIdx] at hi
    cases hm : ms[i]? with
    | none => simp [hm] at hi
    | some m =>
      simp [hm] at hi; subst hi
      exact wrapMatcher_wf mk it i m (hwf m (List.mem_of_getElem? hm))
  rw [choice_lang _ hw]
  constructor
  · rintro ⟨n, hn, h⟩
    obtain ⟨i, hi⟩ := List.mem_iff_getElem?.mp hn
    rw [List.getElem?_mapIdx] at hi
    cases hm : ms[i]? with
    | none => simp [hm] at hi
    | some m =>
      simp [hm] at hi; subst hi
      exact ⟨m, List.mem_of_getElem? hm, (wrapMatcher_lang mk it i m w).mp h⟩
  · rintro ⟨m, hm, h⟩
    obtain ⟨i, hi⟩ := List.mem_iff_getElem?.mp hm
    exact ⟨wrapMatcher mk it i m, List.mem_iff_getElem?.mpr ⟨i, by rw [List.getElem?_mapIdx, hi]; rfl⟩,
      (wrapMatcher_lang mk it i m w).mpr h⟩


/-- `Reported` through the DFA API of the operand -/
def ReportedD (mk it : Nat → Nat) (i : Nat) (m : MatcherNFA) (w : List UInt8) (t : Nat) : Prop :=
  match m with
  | .parsed n => t = mk i ∧ (n.compile.matches w = true ∨ ∃ t', t' ∈ n.compile.tagsAfter w)
  | .items n => ∃ t', t' ∈ n.compile.tagsAfter w ∧ it t' = t

theorem reportedD_iff (mk it : Nat → Nat) (i : Nat) (m : MatcherNFA) (w : List UInt8) (t : Nat) :
    ReportedD mk it i m w t ↔ Reported mk it i m w t := by
  cases m with
  | parsed n => simp only [ReportedD, Reported, mem_tagsAfter_iff, SurfProofs.Subset.matches_iff_lang]
  | items n => simp only [ReportedD, Reported, mem_tagsAfter_iff]

/-- the production shape over expressions: parsed matchers have tag-free grammars, the item matcher is a
    choice of tagged tag-free alternatives (the literal key table) -/
inductive MatcherRe where
  | parsed (e : Re)
  | items (alts : List (Re × Option Nat))

def MatcherRe.toMatcherNFA : MatcherRe → MatcherNFA
  | .parsed e => .parsed e.toNFA
  | .items alts => .items (Re.altT alts).toNFA

def MatcherRe.TagFree : MatcherRe → Prop
  | .parsed e => Tags.TagFree e
  | .items alts => ∀ a ∈ alts, Tags.TagFree a.1

/-- specification of the production tag report -/
def ReportedRe (mk it : Nat → Nat) (i : Nat) (m : MatcherRe) (w : List UInt8) (t : Nat) : Prop :=
  match m with
  | .parsed e => t = mk i ∧ e.Matches w
  | .items alts => ∃ a ∈ alts, ∃ t', a.2 = some t' ∧ it t' = t ∧ a.1.Matches w

theorem matcherRe_wf (m : MatcherRe) : WF m.toMatcherNFA.nfa := by
  cases m with
  | parsed e => exact (toNFA_spec e).1
  | items alts => exact (toNFA_spec _).1

theorem altT_tagReach (alts : List (Re × Option Nat)) (htf : ∀ a ∈ alts, TagFree a.1) (w : List UInt8) (t : Nat) :
    TagReach (Re.altT alts).toNFA w t ↔ ∃ a ∈ alts, a.2 = some t ∧ a.1.Matches w := by
  have hwf : ∀ n ∈ (alts.map Re.tagged).map Re.toNFA, WF n := by
    intro n hn
    obtain ⟨e, _, rfl⟩ := List.mem_map.mp hn
    exact (toNFA_spec e).1
  rw [Re.altT, Re.toNFA, toNFAs_eq, choice_tagReach _ hwf]
  constructor
  · rintro ⟨n, hn, h⟩
    obtain ⟨e, he, rfl⟩ := List.mem_map.mp hn
    obtain ⟨a, ha, rfl⟩ := List.mem_map.mp he
    exact ⟨a, ha, (tagged_tagReach a (htf a ha) w t).mp h⟩
  · rintro ⟨a, ha, h⟩
    exact ⟨_, List.mem_map.mpr ⟨_, List.mem_map.mpr ⟨a, ha, rfl⟩, rfl⟩, (tagged_tagReach a (htf a ha) w t).mpr h⟩

theorem reportedRe_iff (mk it : Nat → Nat) (i : Nat) (m : MatcherRe) (htf : m.TagFree) (w : List UInt8) (t : Nat) :
    Reported mk it i m.toMatcherNFA w t ↔ ReportedRe mk it i m w t := by
  cases m with
  | parsed e =>
    simp only [MatcherRe.toMatcherNFA, Reported, ReportedRe]
    have hno : ¬ ∃ t', TagReach e.toNFA w t' := by
      rintro ⟨t', q, _, h⟩
      rw [toNFA_noTags e htf q] at h; cases h
    rw [(toNFA_spec e).2 w]
    simp [hno]
  | items alts =>
    simp only [MatcherRe.toMatcherNFA, Reported, ReportedRe]
    constructor
    · rintro ⟨t', h, rfl⟩
      obtain ⟨a, ha, h1, h2⟩ := (altT_tagReach alts htf w t').mp h
      exact ⟨a, ha, t', h1, rfl, h2⟩
    · rintro ⟨a, ha, t', h1, rfl, h2⟩
      exact ⟨t', (altT_tagReach alts htf w t').mpr ⟨a, ha, h1, h2⟩, rfl⟩


/-- the production-shaped automaton of the line protocol is the one the production theorem speaks about -/
theorem prodNFA_eq (ms : List (Bool × Re)) :
    Wire.prodNFA ms = matcherAutomaton (1000 + ·) id
      (ms.map fun m => if m.1 then MatcherNFA.parsed m.2.toNFA else MatcherNFA.items m.2.toNFA) := by
  unfold Wire.prodNFA matcherAutomaton
  congr 1
  apply List.ext_getElem?
  intro i
  simp only [List.getElem?_mapIdx, List.getElem?_map]
  cases ms[i]? with
  | none => rfl
  | some m =>
    obtain ⟨b, e⟩ := m
    cases b <;> simp [wrapMatcher]
end SurfProofs.Tags
