import SurfProofs.Lemmas.ToNFA
import SurfProofs.Lemmas.Subset
namespace SurfProofs.Tags
open SurfModel.Automata SurfProofs.Graph SurfProofs.NFASem SurfProofs.NFAGraph SurfProofs.NFALang SurfProofs.ReMatch SurfProofs.ToNFA

/-- tag `t` sits on a state reachable reading `w` -/
def TagReach (n : NFA) (w : List UInt8) (t : Nat) : Prop := ∃ q, Reach n w q ∧ tagAt n.states q = some t

/-- the DFA's tag report after `w`, in terms of the NFA -/
theorem mem_tagsAfter_iff (n : NFA) (w : List UInt8) (t : Nat) : t ∈ n.compile.tagsAfter w ↔ TagReach n w t := by
  rw [SurfProofs.Subset.mem_tagsAfter]
  unfold TagReach
  simp only [tagOf_eq]

theorem tagAt_none_of_ge (sts : List NState) (q : Nat) (h : sts.length ≤ q) : tagAt sts q = none := by
  simp [tagAt, List.getElem?_eq_none h]

/-- the tags alive in a choice after `w` are those alive in its alternatives after `w` -/
theorem choice_tagReach (ns : List NFA) (hwf : ∀ n ∈ ns, WF n) (w : List UInt8) (t : Nat) :
    TagReach (NFA.choice ns) w t ↔ ∃ n ∈ ns, TagReach n w t := by
  cases ns with
  | nil =>
    have : NFA.choice [] = NFA.nothing := rfl
    rw [this]
    simp only [List.not_mem_nil, false_and, exists_false, iff_false]
    rintro ⟨q, _, h⟩
    match q with
    | 0 => simp [tagAt, NFA.nothing, NState.new] at h
    | 1 => simp [tagAt, NFA.nothing, NState.new] at h
    | q + 2 => simp [tagAt, NFA.nothing] at h
  | cons m rest =>
    obtain ⟨h0e, h0, h1e, h1, hex⟩ := choice_graph (m :: rest) hwf
    have emb := fun i n (hn : (m :: rest)[i]? = some n) =>
      emb_assemble [choiceStart (NFA.mergeStates (m :: rest) 2).2, NState.new] (m :: rest)
        ((NFA.mergeStates (m :: rest) 2).2.map fun x => (x.2, 1)) i n hn (hwf n (List.mem_of_getElem? hn)).states
    unfold TagReach Reach
    rw [choice_eq]
    simp only
    constructor
    · rintro ⟨q, hp, ht⟩
      by_cases hq2 : q < 2
      · rw [tagAt_assemble_pre _ _ _ q (by simpa using hq2)] at ht
        match q, hq2 with
        | 0, _ => simp [tagAt, choiceStart] at ht
        | 1, _ => simp [tagAt, NState.new] at ht
      · by_cases hql : q < 2 + total (m :: rest)
        · obtain ⟨i, n, hn, h2, h3⟩ := cover (m :: rest) (q - 2) (by omega)
          have hi : i < (m :: rest).length := by
            rcases Nat.lt_or_ge i (m :: rest).length with h' | h'
            · exact h'
            · rw [List.getElem?_eq_none h'] at hn; cases hn
          have hblk : Blk 2 (m :: rest) i q := ⟨n, hn, by unfold InBlk; omega⟩
          have hf := fan_of_emb _ (m :: rest) (fun i => gr ((m :: rest)[i]?.getD m).states) _ hwf
            (fun i n hn => by simpa [hn] using emb i n hn)
            (fun x y h => (hex x y).mp h) h0e (fun t h => Or.inl ((h0 t).mp h)) h1e h1
          have p := hf.reach hp i hi hblk
          have p' := fan_unlift _ (m :: rest) _ _ i _ hn (emb i _ hn)
            (fun x y h => ((hex x y).mp h).choose_spec.2.2) p
          rw [stOf_eq 2 _ i _ hn] at p'
          simp only [Nat.add_sub_cancel] at p'
          refine ⟨n, List.mem_of_getElem? hn, q - (2 + base (m :: rest) i), p', ?_⟩
          have := tagAt_assemble_blk [choiceStart (NFA.mergeStates (m :: rest) 2).2, NState.new] (m :: rest)
            ((NFA.mergeStates (m :: rest) 2).2.map fun x => (x.2, 1)) i n hn (q - (2 + base (m :: rest) i))
            (by omega)
          simp only [List.length_cons, List.length_nil] at this
          rw [show q - (2 + base (m :: rest) i) + (0 + 1 + 1 + base (m :: rest) i) = q by omega] at this
          rw [← this]; exact ht
        · rw [tagAt_none_of_ge _ _ (by simp; omega)] at ht
          cases ht
    · rintro ⟨n, hn, k, hp, ht⟩
      obtain ⟨i, hi, rfl⟩ := List.getElem_of_mem hn
      have hn : (m :: rest)[i]? = some (m :: rest)[i] := List.getElem?_eq_getElem hi
      have hk : k < (m :: rest)[i].states.length := by
        rcases Nat.lt_or_ge k (m :: rest)[i].states.length with h | h
        · exact h
        · rw [tagAt_none_of_ge _ _ h] at ht; cases ht
      have p := (emb i _ hn).lift hp
      have e1 := (h0 (stOf 2 (m :: rest) i)).mpr ⟨i, hi, rfl⟩
      rw [stOf_eq 2 _ i _ hn] at e1
      simp only [List.length_cons, List.length_nil] at p
      refine ⟨k + (2 + base (m :: rest) i), Path.eps e1 p, ?_⟩
      have := tagAt_assemble_blk [choiceStart (NFA.mergeStates (m :: rest) 2).2, NState.new] (m :: rest)
        ((NFA.mergeStates (m :: rest) 2).2.map fun x => (x.2, 1)) i _ hn k hk
      simp only [List.length_cons, List.length_nil] at this
      rw [show k + (2 + base (m :: rest) i) = k + (0 + 1 + 1 + base (m :: rest) i) by omega, this]
      exact ht


/-! ### expressions without tags build automata without tags -/

/-- no `tag` constructor inside -/
inductive TagFree : Re → Prop
  | lit (s) : TagFree (.lit s)
  | pred (rs) : TagFree (.pred rs)
  | seq {es} : (∀ e ∈ es, TagFree e) → TagFree (.seq es)
  | alt {es} : (∀ e ∈ es, TagFree e) → TagFree (.alt es)
  | opt {e} : TagFree e → TagFree (.opt e)
  | plus {e} : TagFree e → TagFree (.plus e)
  | star {e} : TagFree e → TagFree (.star e)
  | empty : TagFree .empty
  | nothing : TagFree .nothing

def NoTags (sts : List NState) : Prop := ∀ q, tagAt sts q = none

theorem noTags_iff (sts : List NState) : NoTags sts ↔ ∀ st ∈ sts, st.tag = none := by
  constructor
  · intro h st hst
    obtain ⟨q, hq⟩ := List.mem_iff_getElem?.mp hst
    have := h q
    simpa [tagAt, hq] using this
  · intro h q
    unfold tagAt
    cases hq : sts[q]? with
    | none => rfl
    | some st => exact h st (List.mem_of_getElem? hq)

theorem assemble_noTags (pre : List NState) (ns : List NFA) (extra : List (Nat × Nat)) (hpre : NoTags pre)
    (hns : ∀ n ∈ ns, NoTags n.states) : NoTags (assemble pre ns extra) := by
  intro q
  by_cases hq : q < pre.length
  · rw [tagAt_assemble_pre _ _ _ q hq]; exact hpre q
  · by_cases hql : q < pre.length + total ns
    · obtain ⟨i, n, hn, h2, h3⟩ := cover ns (q - pre.length) (by omega)
      have := tagAt_assemble_blk pre ns extra i n hn (q - (pre.length + base ns i)) (by omega)
      rw [show q - (pre.length + base ns i) + (pre.length + base ns i) = q by omega] at this
      rw [this]; exact hns n (List.mem_of_getElem? hn) _
    · exact tagAt_none_of_ge _ _ (by simp; omega)

theorem strStates_noTags (s : List UInt8) (i : Nat) : NoTags (NFA.strStates s i) := by
  rw [noTags_iff]
  induction s generalizing i with
  | nil => simp [NFA.strStates, NState.new]
  | cons b bs ih =>
    intro st hst
    simp only [NFA.strStates, List.mem_cons] at hst
    rcases hst with rfl | hst
    · rfl
    · exact ih _ st hst

theorem choice_noTags (ns : List NFA) (hns : ∀ n ∈ ns, NoTags n.states) : NoTags (NFA.choice ns).states := by
  cases ns with
  | nil =>
    have : NFA.choice [] = NFA.nothing := rfl
    rw [this, noTags_iff]; simp [NFA.nothing, NState.new]
  | cons m rest =>
    rw [choice_eq]
    refine assemble_noTags _ _ _ ?_ hns
    rw [noTags_iff]; simp [choiceStart, NState.new]

theorem toNFA_noTags (e : Re) (h : TagFree e) : NoTags e.toNFA.states := by
  induction e using Re.induct' with
  | lit s => rw [Re.toNFA]; exact strStates_noTags s 0
  | pred rs => rw [Re.toNFA, noTags_iff]; simp [NFA.predicate, NState.new]
  | seq es ih =>
    cases h with
    | seq h =>
      rw [Re.toNFA, toNFAs_eq]
      cases es with
      | nil =>
        have : NFA.sequence [] = NFA.empty := rfl
        simp only [List.map_nil, this, noTags_iff]; simp [NFA.empty, NState.new]
      | cons e es =>
        simp only [List.map_cons]
        rw [sequence_eq]
        refine assemble_noTags _ _ _ (fun q => by simp [tagAt]) ?_
        intro n hn
        rw [← List.map_cons] at hn
        obtain ⟨e', he', rfl⟩ := List.mem_map.mp hn
        exact ih e' he' (h e' he')
  | alt es ih =>
    cases h with
    | alt h =>
      rw [Re.toNFA, toNFAs_eq]
      refine choice_noTags _ ?_
      intro n hn
      obtain ⟨e', he', rfl⟩ := List.mem_map.mp hn
      exact ih e' he' (h e' he')
  | opt e ih =>
    cases h with
    | opt h =>
      rw [Re.toNFA]
      refine choice_noTags _ ?_
      intro n hn
      simp at hn
      rcases hn with rfl | rfl
      · exact ih h
      · rw [noTags_iff]; simp [NFA.empty, NState.new]
  | plus e ih =>
    cases h with
    | plus h =>
      rw [Re.toNFA]
      intro q
      simp only [NFA.some, tagAt_addEps]
      exact ih h q
  | star e ih =>
    cases h with
    | star h =>
      rw [Re.toNFA, many_eq]
      refine assemble_noTags _ _ _ ?_ ?_
      · rw [noTags_iff]; simp [manyStart, NState.new]
      · intro n hn; simp at hn; subst hn; exact ih h
  | empty => rw [Re.toNFA, noTags_iff]; simp [NFA.empty, NState.new]
  | nothing => rw [Re.toNFA, noTags_iff]; simp [NFA.nothing, NState.new]
  | tag t e ih => cases h

/-- a tagged alternative with a tag-free body shows its tag exactly when the body has matched -/
theorem tagged_tagReach (a : Re × Option Nat) (htf : TagFree a.1) (w : List UInt8) (t : Nat) :
    TagReach (Re.tagged a).toNFA w t ↔ a.2 = some t ∧ a.1.Matches w := by
  obtain ⟨e, tg⟩ := a
  cases tg with
  | none =>
    simp only [Re.tagged, reduceCtorEq, false_and, iff_false]
    rintro ⟨q, _, h⟩
    rw [toNFA_noTags e htf q] at h; cases h
  | some t' =>
    simp only [Re.tagged, Option.some.injEq]
    rw [Re.toNFA]
    unfold TagReach
    constructor
    · rintro ⟨q, hp, ht⟩
      rw [tagAt_tagStop] at ht
      split at ht
      · rename_i hq
        simp only [Option.some.injEq] at ht
        refine ⟨ht, ?_⟩
        rw [tagStop_reach, hq.1] at hp
        exact ((toNFA_spec e).2 w).mp hp
      · rw [toNFA_noTags e htf q] at ht; cases ht
    · rintro ⟨rfl, hm⟩
      refine ⟨e.toNFA.stop, ?_, ?_⟩
      · rw [tagStop_reach]; exact ((toNFA_spec e).2 w).mpr hm
      · rw [tagAt_tagStop]; simp [(toNFA_spec e).1.stop]


/-! ### `tags_map` changes tags only -/

theorem tagsMap_edge (n : NFA) (f : Nat → Nat) (x : Nat) (c : UInt8) (y : Nat) :
    (gr (n.tagsMap f).states).edge x c y ↔ (gr n.states).edge x c y := by
  simp only [gr, NFA.tagsMap, List.getElem?_map]
  cases n.states[x]? <;> simp

theorem tagsMap_eps (n : NFA) (f : Nat → Nat) (x y : Nat) :
    (gr (n.tagsMap f).states).eps x y ↔ (gr n.states).eps x y := by
  simp only [gr, NFA.tagsMap, List.getElem?_map]
  cases n.states[x]? <;> simp

theorem tagsMap_path (n : NFA) (f : Nat → Nat) (s q : Nat) (w : List UInt8) :
    Path (gr (n.tagsMap f).states) s w q ↔ Path (gr n.states) s w q := by
  constructor
  · exact Path.mono (g := gr (n.tagsMap f).states) (g' := gr n.states)
      (fun s c t h => (tagsMap_edge _ _ _ _ _).mp h) (fun s t h => (tagsMap_eps _ _ _ _).mp h)
  · exact Path.mono (g := gr n.states) (g' := gr (n.tagsMap f).states)
      (fun s c t h => (tagsMap_edge _ _ _ _ _).mpr h) (fun s t h => (tagsMap_eps _ _ _ _).mpr h)

theorem tagsMap_lang (n : NFA) (f : Nat → Nat) (w : List UInt8) : Lang (n.tagsMap f) w ↔ Lang n w :=
  tagsMap_path n f _ _ w

theorem tagsMap_wf (n : NFA) (f : Nat → Nat) (hwf : WF n) : WF (n.tagsMap f) := by
  refine ⟨by simpa [NFA.tagsMap] using hwf.start, by simpa [NFA.tagsMap] using hwf.stop, ?_⟩
  rw [wfs_iff]
  constructor
  · intro s c y h
    simpa [NFA.tagsMap] using hwf.states.edge ((tagsMap_edge _ _ _ _ _).mp h)
  · intro s y h
    simpa [NFA.tagsMap] using hwf.states.eps ((tagsMap_eps _ _ _ _).mp h)

theorem tagAt_tagsMap (n : NFA) (f : Nat → Nat) (q : Nat) :
    tagAt (n.tagsMap f).states q = (tagAt n.states q).map f := by
  simp only [tagAt, NFA.tagsMap, List.getElem?_map]
  cases n.states[q]? <;> simp

/-- the tags alive after `w` in `n.tags_map(f)` are the images of those alive in `n` -/
theorem tagsMap_tagReach (n : NFA) (f : Nat → Nat) (w : List UInt8) (t : Nat) :
    TagReach (n.tagsMap f) w t ↔ ∃ t', TagReach n w t' ∧ f t' = t := by
  unfold TagReach Reach
  constructor
  · rintro ⟨q, hp, ht⟩
    rw [tagAt_tagsMap] at ht
    cases h : tagAt n.states q with
    | none => simp [h] at ht
    | some t' =>
      simp [h] at ht
      exact ⟨t', ⟨q, (tagsMap_path n f _ _ w).mp hp, h⟩, ht⟩
  · rintro ⟨t', ⟨q, hp, ht⟩, rfl⟩
    exact ⟨q, (tagsMap_path n f _ _ w).mpr hp, by rw [tagAt_tagsMap, ht]; rfl⟩

end SurfProofs.Tags
