import SurfProofs.Lemmas.SixelEnc
import SurfProofs.Lemmas.SixelMap
import SurfProofs.Lemmas.SixelCache
/-!
# C12 helper lemmas, part 8: the `usize` subtractions of `draw` cannot overflow
-/
namespace SurfProofs.Lemmas.SixelNoPanic
open SurfModel.Sixel SurfProofs.Lemmas.SixelInterp SurfProofs.Lemmas.SixelEnc SurfProofs.Lemmas.SixelCache

theorem asc_dropRun (code : Nat) : ∀ (rest : List (Nat × Nat)) (col : Nat), Asc (col + 1) rest →
    Asc (col + 1 + runLen col code rest) (dropRun col code rest) := by
  intro rest
  induction rest with
  | nil => intro col _; simp [dropRun, Asc]
  | cons p r ih =>
    intro col h
    obtain ⟨c, k⟩ := p
    simp only [Asc] at h
    simp only [runLen, dropRun]
    split
    · rename_i hc
      obtain ⟨hc1, _⟩ := hc
      subst hc1
      have := ih (col + 1) h.2
      have e : col + 1 + (1 + runLen (col + 1) code r) = col + 1 + 1 + runLen (col + 1) code r := by omega
      rw [e]; exact this
    · simp only [Nat.add_zero, Asc]
      exact h

/-- for items in ascending column order starting at or after `offset` no `column - offset` overflows -/
theorem encodeLine?_eq (offset : Nat) (items : List (Nat × Nat)) (h : Asc offset items) :
    encodeLine? offset items = some (encodeLine offset items) := by
  fun_induction encodeLine offset items with
  | case1 => simp [encodeLine?]
  | case2 offset col code rest reps ih =>
    simp only [Asc] at h
    have hlt : ¬ col < offset := by omega
    have hasc : Asc (col + reps) (dropRun col code rest) := by
      have := asc_dropRun code rest col h.2
      have e : col + reps = col + 1 + runLen col code rest := by simp [reps]; omega
      rw [e]; exact this
    rw [encodeLine?]
    simp only [hlt, if_false]
    rw [ih hasc]

theorem bandLine_no_underflow (q : QImg) (b c : Nat) :
    encodeLine? 0 (bandLine q b c) = some (encodeLine 0 (bandLine q b c)) := by
  apply encodeLine?_eq
  rw [SurfProofs.Lemmas.SixelMap.bandLine_eq]
  exact lineItems_asc q b c

/-- when `size` is the sum of the cached lengths no `self.size -= lru_image.len()` overflows -/
theorem evictLru?_eq (cap : Nat) : ∀ (l : List (Nat × List UInt8)) (size : Nat), size = total l →
    evictLru? cap l size = some (evictLru cap l size) := by
  intro l
  induction l with
  | nil => intro size _; simp [evictLru?, evictLru]
  | cons e rest ih =>
    intro size h
    obtain ⟨k, lru⟩ := e
    simp only [evictLru?, evictLru]
    split
    · have hle : ¬ size < lru.length := by simp [total] at h; omega
      simp only [hle, if_false]
      exact ih _ (by simp [total] at h ⊢; omega)
    · rfl

theorem draw_no_underflow (hd : Handler) (key : Nat) (enc : List UInt8) (h : Wf hd) :
    evictLru? hd.cap ((key, enc) :: hd.imgs).reverse (hd.size + enc.length)
      = some (evictLru hd.cap ((key, enc) :: hd.imgs).reverse (hd.size + enc.length)) := by
  apply evictLru?_eq
  rw [total_reverse]
  have := h.1
  simp [total] at this ⊢; omega

end SurfProofs.Lemmas.SixelNoPanic
