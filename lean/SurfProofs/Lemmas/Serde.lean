import SurfModel.Serde
import SurfProofs.Lemmas.KeyParse
/-!
# C19 — helper lemmas about `SurfModel.Serde`: attribute words, `Face` text form
-/
namespace SurfProofs.C19
open SurfModel.Serde SurfModel.Serde.FaceAttrs
open SurfModel.KeyParse (splitOn utf8Len)
open SurfProofs.C18 (splitOn_no_sep splitOn_append_sep splitOn_ne_nil)

/-! ## attribute words -/

/-- a canonical attribute word: the underline field holds one of the six styles and no bit above the five
    flags is set -/
def Canonical (a : FaceAttrs) : Prop := (a.bits &&& 7) ≤ 5 ∧ a.bits < 256

instance (a : FaceAttrs) : Decidable (Canonical a) := by unfold Canonical; infer_instance

theorem pack_fin : ∀ u : Fin 6, ∀ fl : Fin 32,
    (pack u.val fl.val).underline = u.val ∧ (pack u.val fl.val).bits >>> 3 = fl.val ∧
      Canonical (pack u.val fl.val) := by
  decide

theorem pack_canonical {u fl : Nat} (hu : u ≤ 5) (hf : fl < 32) : Canonical (pack u fl) :=
  (pack_fin ⟨u, by omega⟩ ⟨fl, hf⟩).2.2

theorem unpack_fin : ∀ b : Fin 256, (b.val &&& 7) ≤ 5 → pack (b.val &&& 7) (b.val >>> 3) = ⟨b.val⟩ := by
  decide +kernel

theorem canonical_cases {a : FaceAttrs} (h : Canonical a) : ∃ u : Fin 6, ∃ fl : Fin 32, a = pack u.val fl.val := by
  obtain ⟨h1, h2⟩ := h
  have hfl : a.bits >>> 3 < 32 := by rw [Nat.shiftRight_eq_div_pow]; omega
  refine ⟨⟨a.bits &&& 7, by omega⟩, ⟨a.bits >>> 3, hfl⟩, ?_⟩
  have := unpack_fin ⟨a.bits, h2⟩ h1
  cases a; simpa using this.symm

theorem underline_le (a : FaceAttrs) : a.underline ≤ 5 := by
  unfold underline; split <;> omega

theorem flags_lt {a : FaceAttrs} (h : Canonical a) : a.bits >>> 3 < 32 := by
  rw [Nat.shiftRight_eq_div_pow]; have := h.2; omega

theorem bitor_canonical {a b : FaceAttrs} (ha : Canonical a) (hb : Canonical b) : Canonical (a.bitor b) := by
  unfold bitor unpack
  refine pack_canonical ?_ (Nat.or_lt_two_pow (n := 5) (flags_lt ha) (flags_lt hb))
  split <;> exact underline_le _

theorem bitand_canonical {a b : FaceAttrs} (ha : Canonical a) (_hb : Canonical b) : Canonical (a.bitand b) := by
  unfold bitand unpack
  refine pack_canonical ?_ (Nat.lt_of_le_of_lt Nat.and_le_left (flags_lt ha))
  split
  · exact underline_le _
  · omega

theorem bitxor_canonical {a b : FaceAttrs} (ha : Canonical a) (hb : Canonical b) : Canonical (a.bitxor b) := by
  unfold bitxor unpack
  refine pack_canonical ?_ (Nat.xor_lt_two_pow (n := 5) (flags_lt ha) (flags_lt hb))
  split <;> exact underline_le _

theorem insert_canonical {a b : FaceAttrs} (ha : Canonical a) (hb : Canonical b) : Canonical (a.insert b) := by
  unfold FaceAttrs.insert unpack
  refine pack_canonical ?_ (Nat.or_lt_two_pow (n := 5) (flags_lt ha) (flags_lt hb))
  split <;> exact underline_le _

theorem remove_canonical {a b : FaceAttrs} (ha : Canonical a) (_hb : Canonical b) : Canonical (a.remove b) := by
  unfold FaceAttrs.remove unpack
  refine pack_canonical ?_ (Nat.lt_of_le_of_lt Nat.and_le_left (flags_lt ha))
  split
  · omega
  · exact underline_le _

/-! ## characters of the printed form -/

/-- neither white space, nor one of the separators, one byte in UTF-8 -/
def plainCh (c : Char) : Bool :=
  !isWs c && c != '/' && c != ',' && c != '=' && c.utf8Size == 1

theorem hexDigit_plain : ∀ n : Fin 16, plainCh (hexDigitChar n.val) = true := by decide

theorem hexDigit_val : ∀ n : Fin 16, hexVal? (hexDigitChar n.val) = some n.val := by decide

theorem byte_join : ∀ b : Fin 256, (((b.val / 16) <<< 4) ||| (b.val % 16)) = b.val := by decide +kernel

theorem hexPairs_hex2 (b : UInt8) (rest : List Char) (tl : List UInt8) (h : hexPairs rest = some tl) :
    hexPairs (hex2 b ++ rest) = some (b :: tl) := by
  have h1 := hexDigit_val ⟨b.toNat / 16, by have := b.toNat_lt; omega⟩
  have h2 := hexDigit_val ⟨b.toNat % 16, by omega⟩
  have h3 := byte_join ⟨b.toNat, b.toNat_lt⟩
  simp only at h1 h2 h3
  simp only [hex2, List.cons_append, List.nil_append, hexPairs, h1, h2, h, h3, UInt8.ofNat_toNat]

theorem hex2_plain (b : UInt8) : (hex2 b).all plainCh = true := by
  have h1 := hexDigit_plain ⟨b.toNat / 16, by have := b.toNat_lt; omega⟩
  have h2 := hexDigit_plain ⟨b.toNat % 16, by omega⟩
  simp only at h1 h2
  simp [hex2, h1, h2]

theorem hex2_length (b : UInt8) : (hex2 b).length = 2 := rfl

/-- the digits after `#` -/
def rgbaDigits (c : RGBA) : List Char :=
  hex2 c.r ++ hex2 c.g ++ hex2 c.b ++ (if c.a ≠ 255 then hex2 c.a else [])

theorem printRGBA_eq (c : RGBA) : printRGBA c = '#' :: rgbaDigits c := rfl

theorem rgbaDigits_plain (c : RGBA) : (rgbaDigits c).all plainCh = true := by
  unfold rgbaDigits
  split <;> simp [List.all_append, hex2_plain]

theorem rgbaDigits_length (c : RGBA) : (rgbaDigits c).length = 6 ∨ (rgbaDigits c).length = 8 := by
  unfold rgbaDigits
  split <;> simp [hex2_length]

theorem utf8Len_plain (s : List Char) (h : s.all plainCh = true) : utf8Len s = s.length := by
  induction s with
  | nil => rfl
  | cons c r ih =>
    simp only [List.all_cons, Bool.and_eq_true] at h
    have hc : c.utf8Size = 1 := by
      have := h.1; simp only [plainCh, Bool.and_eq_true, beq_iff_eq] at this; exact this.2
    simp only [utf8Len, List.map_cons, List.sum_cons, List.length_cons, hc] at ih ⊢
    have := ih h.2
    omega

theorem hexPairs_digits (c : RGBA) :
    hexPairs (rgbaDigits c) = some (if c.a ≠ 255 then [c.r, c.g, c.b, c.a] else [c.r, c.g, c.b]) := by
  unfold rgbaDigits
  split
  · rw [List.append_assoc, List.append_assoc]
    exact hexPairs_hex2 _ _ _ (hexPairs_hex2 _ _ _ (hexPairs_hex2 _ _ _
      (by simpa using hexPairs_hex2 c.a [] [] rfl)))
  · rw [List.append_nil, List.append_assoc]
    exact hexPairs_hex2 _ _ _ (hexPairs_hex2 _ _ _ (by simpa using hexPairs_hex2 c.b [] [] rfl))

theorem not_contains_of_plain {s : List Char} (h : s.all plainCh = true) (x : Char) (hx : plainCh x = false) :
    s.contains x = false := by
  induction s with
  | nil => rfl
  | cons c r ih =>
    simp only [List.all_cons, Bool.and_eq_true] at h
    have : c ≠ x := by rintro rfl; rw [hx] at h; exact absurd h.1 (by simp)
    simp only [List.contains_cons, ih h.2, Bool.or_false, beq_eq_false_iff_ne, ne_eq]
    exact fun e => this e.symm

/-- `RGBA::from_str_named` reads back what `Display for RGBA` writes, whatever the colour table -/
theorem parse_printRGBA (named : List Char → Option RGBA) (c : RGBA) : parseRGBA named (printRGBA c) = .ok c := by
  have hpl := rgbaDigits_plain c
  have hall : (printRGBA c).all plainCh = true := by
    rw [printRGBA_eq, List.all_cons, hpl]; decide
  have hslash : (printRGBA c).contains '/' = false := not_contains_of_plain hall '/' (by decide)
  have hlen : utf8Len (printRGBA c) = 7 ∨ utf8Len (printRGBA c) = 9 := by
    rw [utf8Len_plain _ hall, printRGBA_eq, List.length_cons]
    rcases rgbaDigits_length c with h | h <;> omega
  unfold parseRGBA
  rw [hslash]
  simp only [Bool.false_eq_true, if_false]
  unfold parseRGBACore
  rw [if_pos ⟨by rw [printRGBA_eq]; rfl, hlen⟩]
  rw [printRGBA_eq, List.tail_cons, hexPairs_digits]
  by_cases ha : c.a = 255
  · simp only [ha, ne_eq, not_true_eq_false, if_false]
    cases c; simp_all
  · simp only [ne_eq, ha, not_false_eq_true, if_true]

/-! ## `trim`, `split`, `splitn` on the printed pieces -/

theorem dropWhile_isWs_id {s : List Char} (h : s.all (fun c => !isWs c) = true) : s.dropWhile isWs = s := by
  cases s with
  | nil => rfl
  | cons c r =>
    simp only [List.all_cons, Bool.and_eq_true, Bool.not_eq_true'] at h
    simp [List.dropWhile, h.1]

theorem trim_id {s : List Char} (h : s.all (fun c => !isWs c) = true) : trim s = s := by
  unfold trim
  rw [dropWhile_isWs_id h, dropWhile_isWs_id (by rw [List.all_reverse]; exact h), List.reverse_reverse]

theorem plain_not_ws {s : List Char} (h : s.all plainCh = true) : s.all (fun c => !isWs c) = true := by
  rw [List.all_eq_true] at h ⊢
  intro c hc
  have := h c hc
  simp only [plainCh, Bool.and_eq_true] at this
  exact this.1.1.1.1

theorem joinComma_cons_cons (p q : List Char) (r : List (List Char)) :
    joinComma (p :: q :: r) = p ++ ',' :: joinComma (q :: r) := rfl

/-- `split(',')` undoes the joining of comma-free pieces -/
theorem splitOn_joinComma (ps : List (List Char)) (hne : ps ≠ []) (h : ∀ p ∈ ps, ',' ∉ p) :
    splitOn ',' (joinComma ps) = ps := by
  induction ps with
  | nil => exact absurd rfl hne
  | cons p r ih =>
    cases r with
    | nil => simpa [joinComma] using splitOn_no_sep (h p (by simp))
    | cons q r' =>
      rw [joinComma_cons_cons, splitOn_append_sep, splitOn_no_sep (h p (by simp)),
        ih (by simp) (fun x hx => h x (List.mem_cons_of_mem _ hx))]
      rfl

theorem faceFold_append (named : List Char → Except PErr RGBA) (xs ys : List (List Char)) (face : Face) :
    faceFold named (xs ++ ys) face =
      match faceFold named xs face with
      | .ok f' => faceFold named ys f'
      | .error e => .error e := by
  induction xs generalizing face with
  | nil => rfl
  | cons x r ih =>
    simp only [List.cons_append, faceFold]
    cases faceStep named face x with
    | ok f' => exact ih f'
    | error e => rfl

/-! ## attribute names -/

/-- what `faceStep` needs of an attribute name: no `=`, no white space at the ends, not `fg`/`bg`, a key of
    the table, no comma -/
def isAttrName (n : List Char) : Bool :=
  beforeFirst '=' n == n && trim n == n && n != sFg && n != sBg && (attrKeys.lookup n).isSome && !n.contains ','

/-- the fold `|=` performs over a list of attribute names -/
def foldNames (ns : List (List Char)) (a : FaceAttrs) : FaceAttrs :=
  ns.foldl (fun a n => match attrKeys.lookup n with | some c => a.bitorAssign c | none => a) a

theorem names_fin : ∀ u : Fin 6, ∀ fl : Fin 32,
    foldNames (pack u.val fl.val).names EMPTY = pack u.val fl.val ∧
      (pack u.val fl.val).names.all isAttrName = true := by
  decide

theorem faceStep_name (named : List Char → Except PErr RGBA) (face : Face) (n : List Char) (h : isAttrName n = true) :
    faceStep named face n =
      .ok { face with attrs := match attrKeys.lookup n with | some c => face.attrs.bitorAssign c | none => face.attrs } := by
  simp only [isAttrName, Bool.and_eq_true, beq_iff_eq, bne_iff_ne, ne_eq, Option.isSome_iff_exists] at h
  obtain ⟨⟨⟨⟨⟨h1, h2⟩, h3⟩, h4⟩, ⟨c, h5⟩⟩, _⟩ := h
  unfold faceStep
  simp only [h1, h2, h3, h4, if_false, h5]

theorem faceFold_names (named : List Char → Except PErr RGBA) (ns : List (List Char)) (face : Face)
    (h : ns.all isAttrName = true) :
    faceFold named ns face = .ok { face with attrs := foldNames ns face.attrs } := by
  induction ns generalizing face with
  | nil => rfl
  | cons n r ih =>
    simp only [List.all_cons, Bool.and_eq_true] at h
    simp only [faceFold, faceStep_name named face n h.1]
    rw [ih _ h.2]
    rfl

/-! ## the colour pieces -/

theorem fg_piece (named : List Char → Except PErr RGBA) (hpc : ∀ c, named (printRGBA c) = .ok c) (face : Face) (c : RGBA) :
    faceStep named face (sFg ++ '=' :: printRGBA c) = .ok { face with fg := some c } := by
  have hpl : (printRGBA c).all plainCh = true := by
    rw [printRGBA_eq, List.all_cons, rgbaDigits_plain]; decide
  have h1 : beforeFirst '=' (sFg ++ '=' :: printRGBA c) = sFg := by
    simp [beforeFirst, sFg, List.takeWhile]
  have h2 : afterFirst '=' (sFg ++ '=' :: printRGBA c) = printRGBA c := by
    simp [afterFirst, sFg]
  unfold faceStep
  simp only [h1, h2, trim_id (plain_not_ws hpl)]
  rw [show trim sFg = sFg by decide, if_pos rfl, hpc]

theorem bg_piece (named : List Char → Except PErr RGBA) (hpc : ∀ c, named (printRGBA c) = .ok c) (face : Face) (c : RGBA) :
    faceStep named face (sBg ++ '=' :: printRGBA c) = .ok { face with bg := some c } := by
  have hpl : (printRGBA c).all plainCh = true := by
    rw [printRGBA_eq, List.all_cons, rgbaDigits_plain]; decide
  have h1 : beforeFirst '=' (sBg ++ '=' :: printRGBA c) = sBg := by
    simp [beforeFirst, sBg, List.takeWhile]
  have h2 : afterFirst '=' (sBg ++ '=' :: printRGBA c) = printRGBA c := by
    simp [afterFirst, sBg]
  unfold faceStep
  simp only [h1, h2, trim_id (plain_not_ws hpl)]
  rw [show trim sBg = sBg by decide, if_neg (by decide), if_pos rfl, hpc]

theorem color_piece_no_comma (k : List Char) (hk : ',' ∉ k) (c : RGBA) : ',' ∉ k ++ '=' :: printRGBA c := by
  have hpl : (printRGBA c).all plainCh = true := by
    rw [printRGBA_eq, List.all_cons, rgbaDigits_plain]; decide
  have := not_contains_of_plain hpl ',' (by decide)
  simp only [List.mem_append, List.mem_cons, not_or]
  refine ⟨hk, by decide, ?_⟩
  intro hm
  have : (printRGBA c).contains ',' = true := List.contains_iff_mem.2 hm
  simp_all

/-- an empty piece (as in the empty string, or between two commas) changes nothing -/
theorem faceStep_empty (named : List Char → Except PErr RGBA) (face : Face) : faceStep named face [] = .ok face := by
  unfold faceStep
  have h1 : trim (beforeFirst '=' []) = [] := by decide
  have h2 : attrKeys.lookup ([] : List Char) = none := by decide
  simp only [h1]
  rw [if_neg (by decide), if_neg (by decide), h2]
  simp

/-! ## the `/alpha` suffix -/

theorem splitLast_none {sep : Char} {s : List Char} (h : sep ∉ s) : splitLast sep s = none := by
  induction s with
  | nil => rfl
  | cons c r ih =>
    simp only [List.mem_cons, not_or] at h
    simp only [splitLast, ih h.2, if_neg (Ne.symm h.1)]

/-- the full parser reads back what `Display for RGBA` writes (which never has a suffix) -/
theorem parseWith_printRGBA (alpha : List Char → Option (UInt8 → UInt8)) (named : List Char → Option RGBA) (c : RGBA) :
    parseRGBAWith alpha named (printRGBA c) = .ok c := by
  have hall : (printRGBA c).all plainCh = true := by
    rw [printRGBA_eq, List.all_cons, rgbaDigits_plain]; decide
  have hslash : '/' ∉ printRGBA c := by
    intro hm
    have h1 := not_contains_of_plain hall '/' (by decide)
    have h2 : (printRGBA c).contains '/' = true := List.contains_iff_mem.2 hm
    rw [h1] at h2; exact absurd h2 (by simp)
  have hp := parse_printRGBA named c
  unfold parseRGBA at hp
  rw [not_contains_of_plain hall '/' (by decide)] at hp
  simp only [Bool.false_eq_true, if_false] at hp
  unfold parseRGBAWith
  rw [splitLast_none hslash]
  exact hp

theorem parseRGBACore_total (named : List Char → Option RGBA) (color : List Char) :
    (∃ c, parseRGBACore named color = .ok c) ∨ parseRGBACore named color = .error .parseError := by
  unfold parseRGBACore
  split
  · split <;> simp
  · split <;> simp

/-- the full colour parser returns a colour or a parse error -/
theorem parseRGBAWith_total (alpha : List Char → Option (UInt8 → UInt8)) (named : List Char → Option RGBA)
    (color : List Char) :
    (∃ c, parseRGBAWith alpha named color = .ok c) ∨ parseRGBAWith alpha named color = .error .parseError := by
  unfold parseRGBAWith
  split
  · exact parseRGBACore_total named _
  · split
    · right; rfl
    · rename_i color' _ _ _ scale _
      rcases parseRGBACore_total named color' with ⟨c, h⟩ | h <;> simp [h]

theorem faceStep_total (pc : List Char → Except PErr RGBA)
    (hpc : ∀ v, (∃ c, pc v = .ok c) ∨ pc v = .error .parseError) (face : Face) (p : List Char) :
    (∃ f, faceStep pc face p = .ok f) ∨ faceStep pc face p = .error .parseError := by
  unfold faceStep
  simp only
  split
  · rcases hpc (trim (afterFirst '=' p)) with ⟨c, h⟩ | h <;> simp [h]
  · split
    · rcases hpc (trim (afterFirst '=' p)) with ⟨c, h⟩ | h <;> simp [h]
    · split
      · simp
      · split <;> simp

theorem faceFold_total (pc : List Char → Except PErr RGBA)
    (hpc : ∀ v, (∃ c, pc v = .ok c) ∨ pc v = .error .parseError) (ps : List (List Char)) :
    ∀ face, (∃ f, faceFold pc ps face = .ok f) ∨ faceFold pc ps face = .error .parseError := by
  induction ps with
  | nil => intro face; left; exact ⟨face, rfl⟩
  | cons p r ih =>
    intro face
    simp only [faceFold]
    rcases faceStep_total pc hpc face p with ⟨f, h⟩ | h
    · rw [h]; exact ih f
    · rw [h]; right; rfl

/-! ## print, then parse — over any colour parser that reads back what `Display for RGBA` writes -/

theorem face_roundtrip (pc : List Char → Except PErr RGBA) (hpc : ∀ c, pc (printRGBA c) = .ok c) (f : Face)
    (h : Canonical f.attrs) : parseFaceP pc (printFace f) = .ok f := by
  obtain ⟨fg, bg, attrs⟩ := f
  obtain ⟨u, fl, rfl⟩ := canonical_cases h
  obtain ⟨hfold, hnames⟩ := names_fin u fl
  -- the fold over the pieces
  have hfoldAll : faceFold pc (facePieces ⟨fg, bg, pack u.val fl.val⟩) Face.default
      = .ok ⟨fg, bg, pack u.val fl.val⟩ := by
    unfold facePieces
    rw [faceFold_append, faceFold_append]
    cases fg with
    | none =>
      cases bg with
      | none =>
        simp only [faceFold]
        rw [faceFold_names pc _ _ hnames]
        simp only [Face.default, hfold]
      | some cb =>
        simp only [faceFold, bg_piece pc hpc]
        rw [faceFold_names pc _ _ hnames]
        simp only [Face.default, hfold]
    | some cf =>
      cases bg with
      | none =>
        simp only [faceFold, fg_piece pc hpc]
        rw [faceFold_names pc _ _ hnames]
        simp only [Face.default, hfold]
      | some cb =>
        simp only [faceFold, fg_piece pc hpc, bg_piece pc hpc]
        rw [faceFold_names pc _ _ hnames]
        simp only [Face.default, hfold]
  -- no piece contains a comma
  have hcomma : ∀ p ∈ facePieces ⟨fg, bg, pack u.val fl.val⟩, ',' ∉ p := by
    intro p hp
    simp only [facePieces, List.mem_append] at hp
    rcases hp with (hp | hp) | hp
    · cases fg with
      | none => simp at hp
      | some c =>
        simp only [List.mem_cons, List.not_mem_nil, or_false] at hp
        subst hp; exact color_piece_no_comma sFg (by decide) c
    · cases bg with
      | none => simp at hp
      | some c =>
        simp only [List.mem_cons, List.not_mem_nil, or_false] at hp
        subst hp; exact color_piece_no_comma sBg (by decide) c
    · have := (List.all_eq_true.1 hnames) p hp
      simp only [isAttrName, Bool.and_eq_true, Bool.not_eq_true'] at this
      intro hm
      have hc : p.contains ',' = true := List.contains_iff_mem.2 hm
      rw [this.2] at hc; exact absurd hc (by simp)
  unfold parseFaceP printFace
  by_cases hne : facePieces ⟨fg, bg, pack u.val fl.val⟩ = []
  · -- the default face prints as the empty string, which splits into one empty piece
    rw [hne] at hfoldAll ⊢
    simp only [faceFold] at hfoldAll
    rw [← Except.ok.inj hfoldAll]
    show faceFold pc [[]] Face.default = _
    simp only [faceFold, faceStep_empty]
  · rw [splitOn_joinComma _ hne hcomma]; exact hfoldAll

end SurfProofs.C19
