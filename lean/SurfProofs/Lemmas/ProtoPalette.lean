import SurfModel.Protocol
import SurfModel.Sgr
/-! C04: the decoder's colour tables (regenerated from the implementation into
`SurfModel.Generated.SgrTables`) are the xterm 256 colour palette of the protocol description.  Kernel-checked
table facts; they are re-checked whenever the generated tables change. -/
namespace SurfProofs.ProtoPalette
open SurfModel.Sgr SurfModel.Protocol

theorem named_colors_pinned : SurfModel.Generated.colors16 =
    [(0,0,0,255),(128,0,0,255),(0,128,0,255),(128,128,0,255),(0,0,128,255),(128,0,128,255),(0,128,128,255),
     (192,192,192,255),(128,128,128,255),(255,0,0,255),(0,255,0,255),(255,255,0,255),(0,0,255,255),
     (255,0,255,255),(0,255,255,255),(255,255,255,255)] := by decide +kernel

theorem cube_pinned : SurfModel.Generated.cube6 = [0,95,135,175,215,255] := by decide +kernel

theorem greys_pinned : SurfModel.Generated.greys24 =
    [8,18,28,38,48,58,68,78,88,98,108,118,128,138,148,158,168,178,188,198,208,218,228,238] := by decide +kernel

set_option maxRecDepth 100000 in
theorem palette_all :
    (List.range 256).all (fun i => SurfModel.Sgr.palette i == some (xtermPalette i)) = true := by
  decide +kernel

/-- the decoder's palette lookup is the xterm palette -/
theorem palette_eq (i : Nat) (h : i < 256) : SurfModel.Sgr.palette i = some (xtermPalette i) := by
  have := List.all_eq_true.mp palette_all i (List.mem_range.mpr h)
  simpa using this

set_option maxRecDepth 100000 in
theorem named_all :
    (List.range 16).all (fun i =>
      (SurfModel.Generated.colors16[i]?).map SurfModel.Sgr.colorOf == some (xtermPalette i)) = true := by
  decide +kernel

/-- the decoder's table of the 16 named colours is the head of the xterm palette -/
theorem named_eq (i : Nat) (h : i < 16) :
    (SurfModel.Generated.colors16[i]?).map SurfModel.Sgr.colorOf = some (xtermPalette i) := by
  have := List.all_eq_true.mp named_all i (List.mem_range.mpr h)
  simpa using this

end SurfProofs.ProtoPalette
