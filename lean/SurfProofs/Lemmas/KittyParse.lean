import SurfModel.Kitty
import SurfProofs.Lemmas.KittyB64
/-!
The reference interpreter reads back what the model writes: decimal numbers, APC framing, control data,
chunk reassembly.
-/
namespace SurfProofs.Lemmas.KittyParse
open SurfModel.Kitty SurfModel.KittySpec SurfModel.KittyB64 SurfProofs.Lemmas.KittyB64

/-! ## decimal numbers -/

/-- a byte that may appear inside a control value: none of `ESC , ; =` … in fact a digit -/
def Dig (b : UInt8) : Prop := isDigit b = true

theorem dig_ofNat (n : Nat) (h : n < 10) : isDigit (UInt8.ofNat (48 + n)) = true := by
  simp [isDigit, UInt8.toNat_ofNat']; omega

theorem digitsRev_dig (fuel n : Nat) : ∀ b ∈ digitsRev fuel n, isDigit b = true := by
  induction fuel generalizing n with
  | zero => intro b hb; simp [digitsRev] at hb
  | succ fuel ih =>
    intro b hb
    simp only [digitsRev] at hb
    split at hb
    · simp only [List.mem_singleton] at hb; subst hb; exact dig_ofNat n (by omega)
    · simp only [List.mem_cons] at hb
      rcases hb with hb | hb
      · subst hb; exact dig_ofNat _ (by omega)
      · exact ih _ b hb

theorem decimal_dig (n : Nat) : ∀ b ∈ decimal n, isDigit b = true := by
  intro b hb
  unfold decimal at hb
  exact digitsRev_dig _ _ b (List.mem_reverse.mp hb)

theorem digitsRev_ne_nil (fuel n : Nat) : digitsRev (fuel + 1) n ≠ [] := by
  simp only [digitsRev]; split <;> simp

theorem decimal_ne_nil (n : Nat) : decimal n ≠ [] := by
  unfold decimal
  simp only [ne_eq, List.reverse_eq_nil_iff]
  exact digitsRev_ne_nil n n

/-- value of a least-significant-first digit string -/
def valRev : List UInt8 → Nat
  | [] => 0
  | d :: ds => valRev ds * 10 + (d.toNat - 48)

theorem digitsRev_val (fuel n : Nat) (h : n < fuel) : valRev (digitsRev fuel n) = n := by
  induction fuel generalizing n with
  | zero => omega
  | succ fuel ih =>
    simp only [digitsRev]
    split
    · simp [valRev, UInt8.toNat_ofNat']; omega
    · simp only [valRev]
      rw [ih (n / 10) (by omega)]
      simp [UInt8.toNat_ofNat']; omega

theorem readNat_reverse (l : List UInt8) : readNat l.reverse = valRev l := by
  unfold readNat
  rw [List.foldl_reverse]
  induction l with
  | nil => rfl
  | cons d ds ih => simp only [List.foldr_cons, valRev, ih]

theorem readNat_decimal (n : Nat) : readNat (decimal n) = n := by
  unfold decimal
  rw [readNat_reverse, digitsRev_val _ _ (by omega)]

theorem parseVal_decimal (n : Nat) : parseVal (decimal n) = .num n := by
  unfold parseVal
  have : (decimal n).all isDigit = true := List.all_eq_true.mpr (decimal_dig n)
  rw [if_pos this, readNat_decimal]

theorem dig_ne {b : UInt8} (h : isDigit b = true) : b ≠ 27 ∧ b ≠ 44 ∧ b ≠ 59 := by
  refine ⟨?_, ?_, ?_⟩ <;> (intro e; subst e; revert h; decide)

/-! ## lexical layer -/

/-- `bytes` carry exactly the graphics command bodies `bodies` (and return the scanner to ground) -/
def Renders (bytes : List UInt8) (bodies : List (List UInt8)) : Prop :=
  ∀ out, bytes.foldl lexStep ⟨.ground, [], out⟩ = ⟨.ground, [], bodies.reverse ++ out⟩

theorem Renders.nil : Renders [] [] := by intro out; rfl

theorem Renders.append {a b : List UInt8} {x y : List (List UInt8)} (ha : Renders a x) (hb : Renders b y) :
    Renders (a ++ b) (x ++ y) := by
  intro out
  rw [List.foldl_append, ha out, hb]
  simp

theorem Renders.lex {bytes : List UInt8} {bodies : List (List UInt8)} (h : Renders bytes bodies) :
    lex bytes = some bodies := by
  unfold SurfModel.KittySpec.lex lexInit
  simp only [h []]
  simp

theorem body_fold (body : List UInt8) (hb : ∀ b ∈ body, b ≠ 27) (cur : List UInt8) (out : List (List UInt8)) :
    body.foldl lexStep ⟨.body, cur, out⟩ = ⟨.body, body.reverse ++ cur, out⟩ := by
  induction body generalizing cur with
  | nil => rfl
  | cons b body ih =>
    have h1 : b ≠ 27 := hb b (by simp)
    simp only [List.foldl_cons]
    have : lexStep ⟨.body, cur, out⟩ b = ⟨.body, b :: cur, out⟩ := by simp [lexStep, h1]
    rw [this, ih (fun x hx => hb x (by simp [hx]))]
    simp

theorem Renders.apcBody (body : List UInt8) (hb : ∀ b ∈ body, b ≠ 27) :
    Renders ([27, 95, 71] ++ body ++ [27, 92]) [body] := by
  intro out
  rw [List.foldl_append, List.foldl_append]
  have h1 : [27, 95, 71].foldl lexStep ⟨.ground, [], out⟩ = ⟨.body, [], out⟩ := by simp [lexStep]
  rw [h1, body_fold body hb]
  simp [lexStep]

theorem ground_fold (l : List UInt8) (hl : ∀ b ∈ l, b ≠ 27) (out : List (List UInt8)) :
    l.foldl lexStep ⟨.ground, [], out⟩ = ⟨.ground, [], out⟩ := by
  induction l with
  | nil => rfl
  | cons b l ih =>
    have h1 : b ≠ 27 := hl b (by simp)
    simp only [List.foldl_cons]
    have : lexStep ⟨.ground, [], out⟩ b = ⟨.ground, [], out⟩ := by simp [lexStep, h1]
    rw [this, ih (fun x hx => hl x (by simp [hx]))]

/-- plain bytes carry no graphics command -/
theorem Renders.plain (l : List UInt8) (hl : ∀ b ∈ l, b ≠ 27) : Renders l [] := by
  intro out; rw [ground_fold l hl]; rfl

/-- a two-byte escape sequence `ESC x` (`x` ≠ `_`, ≠ `ESC`) carries none -/
theorem Renders.esc2 (x : UInt8) (h1 : x ≠ 95) (h2 : x ≠ 27) : Renders [27, x] [] := by
  intro out; simp [lexStep, h1, h2]

/-! ## control data -/

theorem cut_append (sep : UInt8) (c p : List UInt8) (hc : ∀ b ∈ c, b ≠ sep) :
    cut sep (c ++ sep :: p) = (c, p) := by
  induction c with
  | nil => simp [cut]
  | cons b c ih =>
    have h1 : b ≠ sep := hc b (by simp)
    simp only [List.cons_append, cut, h1, if_false, ih (fun x hx => hc x (by simp [hx]))]

theorem cut_none (sep : UInt8) (c : List UInt8) (hc : ∀ b ∈ c, b ≠ sep) : cut sep c = (c, []) := by
  induction c with
  | nil => simp [cut]
  | cons b c ih =>
    have h1 : b ≠ sep := hc b (by simp)
    simp only [cut, h1, if_false, ih (fun x hx => hc x (by simp [hx]))]

theorem splitOn_none (sep : UInt8) (c : List UInt8) (hc : ∀ b ∈ c, b ≠ sep) : splitOn sep c = [c] := by
  induction c with
  | nil => simp [splitOn]
  | cons b c ih =>
    have h1 : b ≠ sep := hc b (by simp)
    simp only [splitOn, h1, if_false, ih (fun x hx => hc x (by simp [hx]))]

theorem splitOn_append (sep : UInt8) (c rest : List UInt8) (hc : ∀ b ∈ c, b ≠ sep) :
    splitOn sep (c ++ sep :: rest) = c :: splitOn sep rest := by
  induction c with
  | nil => simp [splitOn]
  | cons b c ih =>
    have h1 : b ≠ sep := hc b (by simp)
    simp only [List.cons_append, splitOn, h1, if_false, ih (fun x hx => hc x (by simp [hx]))]

/-- control items the model writes: key and value bytes are none of `ESC , ;`, values are not empty -/
def CleanItem (kv : UInt8 × List UInt8) : Prop :=
  (kv.1 ≠ 27 ∧ kv.1 ≠ 44 ∧ kv.1 ≠ 59) ∧ kv.2 ≠ [] ∧ ∀ b ∈ kv.2, b ≠ 27 ∧ b ≠ 44 ∧ b ≠ 59

def Clean (ctrl : List (UInt8 × List UInt8)) : Prop := ∀ kv ∈ ctrl, CleanItem kv

theorem renderItem_clean {kv : UInt8 × List UInt8} (h : CleanItem kv) :
    ∀ b ∈ renderItem kv, b ≠ 27 ∧ b ≠ 44 ∧ b ≠ 59 := by
  intro b hb
  simp only [renderItem, List.mem_cons] at hb
  rcases hb with hb | hb | hb
  · subst hb; exact h.1
  · subst hb; decide
  · exact h.2.2 b hb

theorem splitOn_renderCtrl : ∀ (ctrl : List (UInt8 × List UInt8)), ctrl ≠ [] → Clean ctrl →
    splitOn 44 (renderCtrl ctrl) = ctrl.map renderItem
  | [], h, _ => absurd rfl h
  | [kv], _, hc => by
    simp only [renderCtrl, List.map_cons, List.map_nil]
    exact splitOn_none 44 _ (fun b hb => (renderItem_clean (hc kv (by simp)) b hb).2.1)
  | kv :: kv2 :: rest, _, hc => by
    simp only [renderCtrl, List.map_cons]
    rw [splitOn_append 44 _ _ (fun b hb => (renderItem_clean (hc kv (by simp)) b hb).2.1)]
    have ih := splitOn_renderCtrl (kv2 :: rest) (by simp) (fun x hx => hc x (by simp [hx]))
    simp only [List.map_cons] at ih
    rw [ih]

theorem renderCtrl_clean : ∀ (ctrl : List (UInt8 × List UInt8)), Clean ctrl →
    ∀ b ∈ renderCtrl ctrl, b ≠ 27 ∧ b ≠ 59
  | [], _ => by intro b hb; simp [renderCtrl] at hb
  | [kv], hc => by
    intro b hb
    simp only [renderCtrl] at hb
    have := renderItem_clean (hc kv (by simp)) b hb
    exact ⟨this.1, this.2.2⟩
  | kv :: kv2 :: rest, hc => by
    intro b hb
    simp only [renderCtrl, List.mem_append, List.mem_cons] at hb
    rcases hb with hb | hb | hb
    · have := renderItem_clean (hc kv (by simp)) b hb
      exact ⟨this.1, this.2.2⟩
    · subst hb; decide
    · exact renderCtrl_clean (kv2 :: rest) (fun x hx => hc x (by simp [hx])) b hb

theorem renderCtrl_ne_nil : ∀ (ctrl : List (UInt8 × List UInt8)), ctrl ≠ [] → renderCtrl ctrl ≠ []
  | [], h => absurd rfl h
  | [kv], _ => by simp [renderCtrl, renderItem]
  | kv :: kv2 :: rest, _ => by simp [renderCtrl, renderItem]

def parsedItem (kv : UInt8 × List UInt8) : UInt8 × Val := (kv.1, parseVal kv.2)

theorem parseItem_render (kv : UInt8 × List UInt8) (h : kv.2 ≠ []) :
    parseItem (renderItem kv) = some (parsedItem kv) := by
  obtain ⟨k, v⟩ := kv
  cases v with
  | nil => exact absurd rfl h
  | cons c v => simp [renderItem, parseItem, parsedItem]

theorem mapM_parseItem (ctrl : List (UInt8 × List UInt8)) (hc : Clean ctrl) :
    (ctrl.map renderItem).mapM parseItem = some (ctrl.map parsedItem) := by
  induction ctrl with
  | nil => rfl
  | cons kv rest ih =>
    simp only [List.map_cons, List.mapM_cons]
    rw [parseItem_render kv (hc kv (by simp)).2.1, ih (fun x hx => hc x (by simp [hx]))]
    rfl

/-- body with payload part: `ctrl ; payload` -/
theorem parseBody_payload (ctrl : List (UInt8 × List UInt8)) (hne : ctrl ≠ []) (hc : Clean ctrl)
    (p : List UInt8) :
    parseBody (renderCtrl ctrl ++ 59 :: p) = some ⟨ctrl.map parsedItem, p⟩ := by
  unfold parseBody
  rw [cut_append 59 _ _ (fun b hb => (renderCtrl_clean ctrl hc b hb).2)]
  simp only [renderCtrl_ne_nil ctrl hne, if_false]
  rw [splitOn_renderCtrl ctrl hne hc, mapM_parseItem ctrl hc]

/-- body without payload part -/
theorem parseBody_bare (ctrl : List (UInt8 × List UInt8)) (hne : ctrl ≠ []) (hc : Clean ctrl) :
    parseBody (renderCtrl ctrl) = some ⟨ctrl.map parsedItem, []⟩ := by
  unfold parseBody
  rw [cut_none 59 _ (fun b hb => (renderCtrl_clean ctrl hc b hb).2)]
  simp only [renderCtrl_ne_nil ctrl hne, if_false]
  rw [splitOn_renderCtrl ctrl hne hc, mapM_parseItem ctrl hc]

end SurfProofs.Lemmas.KittyParse
