import SurfProofs.Lemmas.KittyEmit
import SurfProofs.Lemmas.KittyIter
/-!
What the interpreter reads from `draw`, `erase`, `handle` as wholes.
-/
namespace SurfProofs.Lemmas.KittyDraw
open SurfModel.Kitty SurfModel.KittySpec SurfModel.KittyB64 SurfProofs.Lemmas.KittyB64
open SurfProofs.Lemmas.KittyParse SurfProofs.Lemmas.KittyEmit SurfProofs.Lemmas.KittyIter

theorem nonempty_dims {img : Image} (wf : WF img) (hne : img.isEmpty = false) :
    0 < img.shape.width ∧ 0 < img.shape.height := by
  have := wf.empty_iff
  rw [hne] at this
  simp only [Bool.false_eq_true, false_iff, not_or] at this
  omega

theorem payload_ne_nil {img : Image} (wf : WF img) (hne : img.isEmpty = false) : payloadOf img ≠ [] := by
  unfold payloadOf
  intro h
  have hl := rfcEncode_length (img.iter.flatMap RGBA.bytes)
  rw [h, bytes_length, iter_length img wf] at hl
  have := nonempty_dims wf hne
  have : 0 < img.shape.width * img.shape.height := Nat.mul_pos this.1 this.2
  simp at hl
  omega

/-- chunk sizes of the transmission of `img` -/
def chunkSizes (img : Image) : List Nat := (chunks 4096 (payloadOf img)).map List.length

theorem chunkSizes_ok (img : Image) : ∀ n ∈ chunkSizes img, n ≤ 4096 ∧ n % 4 = 0 := by
  intro n hn
  unfold chunkSizes at hn
  obtain ⟨c, hc, rfl⟩ := List.mem_map.mp hn
  have hlen : (payloadOf img).length % 4 = 0 := by
    unfold payloadOf; rw [rfcEncode_length]; omega
  have := chunksGo_sizes 4096 (by decide) _ _ hlen c hc
  exact ⟨this.1, this.2.1⟩

/-- the transmitted command of `img` under id `id`, its payload read as `data` -/
def txCmdD (id : Nat) (img : Image) (data : List UInt8) : KCmd :=
  .transmit false id 32 img.shape.width img.shape.height none data (chunkSizes img)

/-- the transmitted command of `img` under id `id` -/
def txCmd (id : Nat) (img : Image) : KCmd :=
  .transmit false id 32 img.shape.width img.shape.height none (content img).pix (chunkSizes img)

theorem txCmd_eq (id : Nat) (img : Image) : txCmd id img = txCmdD id img (content img).pix := rfl

/-- the transmission part of `draw` read with any payload decoder `dec` that reads the text as `data` -/
theorem emits_tx_with {dec : List UInt8 → Option (List UInt8)} {img : Image} {data : List UInt8} (wf : WF img)
    (hne : img.isEmpty = false) (hdec : dec (payloadOf img) = some data) (id q : Nat) :
    EmitsWith dec (emitChunks id img.shape.height img.shape.width q (chunks 4096 (payloadOf img)).length 0
      (chunks 4096 (payloadOf img))) [txCmdD id img data] := by
  have hflat : (chunks 4096 (payloadOf img)).flatten = payloadOf img :=
    chunksGo_flatten 4096 (by decide) _ _ (Nat.le_refl _)
  have hd : dec (chunks 4096 (payloadOf img)).flatten = some data := by
    rw [hflat]; exact hdec
  have hcne : chunks 4096 (payloadOf img) ≠ [] :=
    chunksGo_ne_nil 4096 _ _ (payload_ne_nil wf hne) (Nat.le_refl _)
  have hlen : (payloadOf img).length % 4 = 0 := by
    unfold payloadOf; rw [rfcEncode_length]; omega
  have hesc : ∀ c ∈ chunks 4096 (payloadOf img), ∀ b ∈ c, b ≠ 27 := by
    intro c hc b hb
    have := (chunksGo_sizes 4096 (by decide) _ _ hlen c hc).2.2 b hb
    exact rfcEncode_no_esc _ b this
  exact emits_transmit id _ _ q _ hcne _ hd hesc

/-- the strict RFC 4648 decoder reads the payload text as the pixels, row-major -/
theorem payload_decode {img : Image} (wf : WF img) : rfcDecode (payloadOf img) = some (content img).pix := by
  unfold payloadOf; rw [rfcDecode_encode, iter_bytes img wf]

theorem emits_tx {img : Image} (wf : WF img) (hne : img.isEmpty = false) (id q : Nat) :
    Emits (emitChunks id img.shape.height img.shape.width q (chunks 4096 (payloadOf img)).length 0
      (chunks 4096 (payloadOf img))) [txCmd id img] :=
  emits_tx_with wf hne (payload_decode wf) id q

/-- commands of `draw` for a non-empty image, the payload read as `data` -/
def drawCmdsD (hash : Image → UInt64) (h : Handler) (img : Image) (row col : Nat) (data : List UInt8) : List KCmd :=
  (if h.contains (idOf hash img) then [] else [txCmdD (idOf hash img) img data])
    ++ [.put (idOf hash img) (placementId row col)]

/-- commands of `draw` for a non-empty image -/
def drawCmds (hash : Image → UInt64) (h : Handler) (img : Image) (row col : Nat) : List KCmd :=
  (if h.contains (idOf hash img) then [] else [txCmd (idOf hash img) img])
    ++ [.put (idOf hash img) (placementId row col)]

theorem drawCmds_eq (hash : Image → UInt64) (h : Handler) (img : Image) (row col : Nat) :
    drawCmds hash h img row col = drawCmdsD hash h img row col (content img).pix := rfl

theorem emits_draw_with {dec : List UInt8 → Option (List UInt8)} (hash : Image → UInt64) (h : Handler)
    {img : Image} {data : List UInt8} (wf : WF img) (hne : img.isEmpty = false)
    (hdec : dec (payloadOf img) = some data) (row col : Nat) :
    EmitsWith dec (draw hash h img row col).2 (drawCmdsD hash h img row col data) := by
  unfold draw drawCmdsD
  simp only [hne, Bool.false_eq_true, if_false]
  by_cases hc : h.contains (idOf hash img) = true
  · simp only [hc, if_true]
    exact EmitsWith.nil.append (emits_put _ _ _)
  · simp only [hc]
    exact (emits_tx_with wf hne hdec _ _).append (emits_put _ _ _)

theorem emits_draw (hash : Image → UInt64) (h : Handler) {img : Image} (wf : WF img)
    (hne : img.isEmpty = false) (row col : Nat) :
    Emits (draw hash h img row col).2 (drawCmds hash h img row col) :=
  emits_draw_with hash h wf hne (payload_decode wf) row col

theorem draw_empty (hash : Image → UInt64) (h : Handler) (img : Image) (he : img.isEmpty = true)
    (row col : Nat) : draw hash h img row col = (h, []) := by
  unfold draw; simp [he]

theorem draw_state (hash : Image → UInt64) (h : Handler) (img : Image) (hne : img.isEmpty = false)
    (row col : Nat) :
    (draw hash h img row col).1 =
      if h.contains (idOf hash img) then h else { h with imgs := (idOf hash img, img) :: h.imgs } := by
  unfold draw
  simp only [hne, Bool.false_eq_true, if_false]
  split <;> rfl

theorem emits_erase (hash : Image → UInt64) (img : Image) (pos : Option (Nat × Nat)) :
    Emits (erase hash img pos)
      [.delete 105 (idOf hash img) (match pos with | some (r, c) => placementId r c | none => 0)] := by
  unfold erase
  cases pos with
  | none => exact emits_erase_all _
  | some p => obtain ⟨r, c⟩ := p; exact emits_erase_pos _ _

theorem renders_cursorTo (row col : Nat) : Renders (cursorTo row col) [] := by
  unfold cursorTo
  have h1 : Renders [27, 91] [] := Renders.esc2 91 (by decide) (by decide)
  have h2 : Renders (decimal (satAdd1 row) ++ [59] ++ decimal (satAdd1 col) ++ [72]) [] := by
    apply Renders.plain
    intro b hb
    simp only [List.mem_append, List.mem_singleton] at hb
    rcases hb with ((hb | hb) | hb) | hb
    · exact (dig_ne (decimal_dig _ b hb)).1
    · subst hb; decide
    · exact (dig_ne (decimal_dig _ b hb)).1
    · subst hb; decide
  have := h1.append h2
  simpa [List.append_assoc] using this

/-- the bytes `handle` wraps around a re-draw carry no graphics command -/
theorem emits_wrapped (row col : Nat) {bytes : List UInt8} {cmds : List KCmd} (h : Emits bytes cmds) :
    Emits ([27, 55] ++ cursorTo row col ++ bytes ++ [27, 56]) cmds := by
  have h1 : Emits [27, 55] [] := Emits.silent (Renders.esc2 55 (by decide) (by decide))
  have h2 : Emits (cursorTo row col) [] := Emits.silent (renders_cursorTo row col)
  have h3 : Emits [27, 56] [] := Emits.silent (Renders.esc2 56 (by decide) (by decide))
  have := ((h1.append h2).append h).append h3
  simpa using this

/-! ## where `handle` sends the cursor before a re-draw -/

theorem span_digits (ds : List UInt8) (hd : ∀ b ∈ ds, isDigit b = true) (c : UInt8) (hc : isDigit c = false)
    (r : List UInt8) :
    (ds ++ c :: r).takeWhile isDigit = ds ∧ (ds ++ c :: r).dropWhile isDigit = c :: r := by
  induction ds with
  | nil => simp [hc]
  | cons d ds ih =>
    have h1 : isDigit d = true := hd d (by simp)
    have := ih (fun b hb => hd b (by simp [hb]))
    simp [h1, this.1, this.2]

theorem parseCup_decimal (a b : Nat) (rest : List UInt8) :
    parseCup (decimal a ++ 59 :: (decimal b ++ 72 :: rest)) = some (a - 1, b - 1) := by
  have h1 := span_digits (decimal a) (decimal_dig a) 59 (by decide) (decimal b ++ 72 :: rest)
  have h2 := span_digits (decimal b) (decimal_dig b) 72 (by decide) rest
  unfold parseCup
  simp only [h1.1, h1.2, h2.1, h2.2, if_true, decimal_ne_nil, ne_eq, not_false_eq_true, and_self,
    readNat_decimal]

theorem cursorTarget_wrapped (row col : Nat) (hr : row + 1 < 18446744073709551616)
    (hc : col + 1 < 18446744073709551616) (rest : List UInt8) :
    cursorTarget ([27, 55] ++ cursorTo row col ++ rest) = some (row, col) := by
  have e : [27, 55] ++ cursorTo row col ++ rest
      = 27 :: 55 :: 27 :: 91 :: (decimal (row + 1) ++ 59 :: (decimal (col + 1) ++ 72 :: rest)) := by
    simp [cursorTo, satAdd1, hr, hc]
  rw [e]
  simp [cursorTarget, parseCup_decimal]

end SurfProofs.Lemmas.KittyDraw
