import SurfModel.KeyParse
/-!
# C18 — helper lemmas about the parser/printer model `SurfModel.KeyParse`
-/
namespace SurfProofs.C18
open SurfModel.KeyParse

/-- What the theorems assume of Rust's `char::to_lowercase` (std code, modelled as the parameter `low`):
    ASCII characters map to their ASCII lower case; no character maps to the empty string; only one-byte
    characters have an expansion that starts with `f`.  (True of Unicode: only `f` and `F`; the harness checks
    this against `char::to_lowercase` for every scalar value on every run.) -/
structure LowOK (low : Char → List Char) : Prop where
  ascii : ∀ c : Char, c.toNat < 128 → low c = [asciiLower c]
  nonempty : ∀ c : Char, low c ≠ []
  f_one_byte : ∀ c : Char, (low c).head? = some 'f' → c.utf8Size = 1

/-! ## totality -/

theorem parseSingle_ne_panic (f : List Char) : parseSingle f ≠ .error .panic := by
  unfold parseSingle
  split
  · split <;> simp
  · simp

theorem strLower_head {low : Char → List Char} (hl : LowOK low) (c : Char) (r : List Char) :
    (strLower low (c :: r)).head? = (low c).head? := by
  have := hl.nonempty c
  cases h : low c with
  | nil => exact absurd h this
  | cons a t => simp [strLower, h]

theorem parseKeyName_ne_panic {low : Char → List Char} (hl : LowOK low) (s : List Char) :
    parseKeyName low s ≠ .error .panic := by
  unfold parseKeyName
  simp only []
  split
  · simp
  · split
    · rename_i hg
      cases s with
      | nil => simp [strLower] at hg
      | cons c r =>
        have h1 : c.utf8Size = 1 := hl.f_one_byte c (by rw [← strLower_head hl c r]; exact hg.1)
        simp only [byteTail1, h1, if_true]
        split
        · split <;> simp
        · exact parseSingle_ne_panic _
    · exact parseSingle_ne_panic _

theorem keyLoop_ne_panic {low : Char → List Char} (hl : LowOK low) (ps : List (List Char)) (kn : Option KeyName)
    (km : Nat) : keyLoop low ps kn km ≠ .error .panic := by
  induction ps generalizing kn km with
  | nil => simp [keyLoop]
  | cons a rest ih =>
    simp only [keyLoop]
    split
    · exact ih _ _
    · split
      · split
        · simp
        · exact ih _ _
      · rename_i h; exact absurd h (parseKeyName_ne_panic hl _)
      · simp

theorem parseKey_ne_panic {low : Char → List Char} (hl : LowOK low) (s : List Char) :
    parseKey low s ≠ .error .panic := by
  unfold parseKey
  split
  · rename_i e h
    intro he; injection he with he; subst he
    exact keyLoop_ne_panic hl _ _ _ h
  · simp
  · simp

theorem parseKeys_ne_panic {low : Char → List Char} (hl : LowOK low) (ps : List (List Char)) :
    parseKeys low ps ≠ .error .panic := by
  induction ps with
  | nil => simp [parseKeys]
  | cons p rest ih =>
    simp only [parseKeys]
    split
    · rename_i e h
      intro he; injection he with he; subst he
      exact parseKey_ne_panic hl _ h
    · split
      · rename_i e h
        intro he; injection he with he; subst he
        exact ih h
      · simp

theorem parseChord_ne_panic {low : Char → List Char} (hl : LowOK low) (s : List Char) :
    parseChord low s ≠ .error .panic := by
  unfold parseChord
  split
  · rename_i e h
    intro he; injection he with he; subst he
    exact parseKeys_ne_panic hl _ h
  · simp
  · simp

/-! ## characters -/

theorem char_le_iff (a b : Char) : a ≤ b ↔ a.toNat ≤ b.toNat := by
  simp [Char.le_def, UInt32.le_iff_toNat_le]

theorem utf8Size_one (c : Char) (h : c.toNat < 128) : c.utf8Size = 1 := by
  rw [Char.utf8Size_eq_one_iff, UInt32.le_iff_toNat_le]; simp; omega

/-- ASCII and not an upper-case letter: a fixed point of lower-casing -/
def fixedChar (c : Char) : Bool := decide (c.toNat < 128) && !(decide ('A' ≤ c) && decide (c ≤ 'Z'))

theorem low_fixed {low : Char → List Char} (hl : LowOK low) {c : Char} (h : fixedChar c = true) : low c = [c] := by
  simp only [fixedChar, Bool.and_eq_true, decide_eq_true_eq, Bool.not_eq_true', Bool.and_eq_false_iff,
    decide_eq_false_iff_not] at h
  rw [hl.ascii c h.1]
  simp only [asciiLower]
  rw [if_neg]
  rintro ⟨h1, h2⟩
  rcases h.2 with h3 | h3 <;> contradiction

theorem strLower_fixed {low : Char → List Char} (hl : LowOK low) {s : List Char} (h : s.all fixedChar = true) :
    strLower low s = s := by
  induction s with
  | nil => rfl
  | cons c r ih =>
    simp only [List.all_cons, Bool.and_eq_true] at h
    have := ih h.2
    simp only [strLower] at this ⊢
    simp [List.flatMap_cons, low_fixed hl h.1, this]

theorem plain_fixed {c : Char} (h : isPlainChar c = true) : fixedChar c = true ∧ c ≠ ' ' ∧ c ≠ '+' := by
  simp only [isPlainChar, Bool.or_eq_true, Bool.and_eq_true, decide_eq_true_eq, beq_iff_eq] at h
  simp only [fixedChar, Bool.and_eq_true, decide_eq_true_eq, Bool.not_eq_true', Bool.and_eq_false_iff,
    decide_eq_false_iff_not]
  rcases h with (((((((((((h | h) | h) | h) | h) | h) | h) | h) | h) | h) | h) | h)
  all_goals first
    | (subst h; decide)
    | (refine ⟨?_, ?_, ?_⟩
       · simp only [char_le_iff] at h ⊢; simp at h ⊢; omega
       · rintro rfl; simp [char_le_iff] at h
       · rintro rfl; simp [char_le_iff] at h)

/-! ## decimal numbers -/

def valL : List Char → Nat → Nat
  | [], acc => acc
  | c :: r, acc => valL r (acc * 10 + (c.toNat - 48))

def valRev : List Char → Nat
  | [] => 0
  | c :: r => (c.toNat - 48) + 10 * valRev r

theorem valL_cons (c : Char) (r : List Char) (acc : Nat) : valL (c :: r) acc = valL r (acc * 10 + (c.toNat - 48)) := by
  simp only [valL]

theorem valL_ge (ds : List Char) (acc : Nat) : acc ≤ valL ds acc := by
  induction ds generalizing acc with
  | nil => exact Nat.le_refl _
  | cons c r ih =>
    rw [valL_cons]
    have := ih (acc * 10 + (c.toNat - 48))
    omega

theorem parseUsizeLoop_eq (ds : List Char) (acc : Nat) (ha : acc ≤ USIZE_MAX) :
    parseUsizeLoop ds acc = if valL ds acc ≤ USIZE_MAX then some (valL ds acc) else none := by
  induction ds generalizing acc with
  | nil => simp [parseUsizeLoop, valL, ha]
  | cons c r ih =>
    rw [valL_cons]
    simp only [parseUsizeLoop]
    have hge := valL_ge r (acc * 10 + (c.toNat - 48))
    split
    · rw [if_neg]; omega
    · split
      · rw [if_neg]; omega
      · exact ih _ (by omega)

theorem parseUsize_some {ds : List Char} {n : Nat} (h : parseUsize ds = some n) : n ≤ USIZE_MAX := by
  unfold parseUsize at h
  split at h
  · simp at h
  · rw [parseUsizeLoop_eq ds 0 (by simp [USIZE_MAX])] at h
    split at h
    · injection h with h; omega
    · simp at h

theorem digit_toNat : ∀ d : Nat, d < 10 → (Char.ofNat (48 + d)).toNat = 48 + d := by decide
theorem digit_isDigit : ∀ d : Nat, d < 10 → isAsciiDigit (Char.ofNat (48 + d)) = true := by decide
theorem digit_fixed : ∀ d : Nat, d < 10 → fixedChar (Char.ofNat (48 + d)) = true := by decide
theorem digit_ne : ∀ d : Nat, d < 10 → Char.ofNat (48 + d) ≠ '+' ∧ Char.ofNat (48 + d) ≠ ' ' := by decide

theorem digitsRev_val (fuel n : Nat) (h : n < fuel) : valRev (digitsRev fuel n) = n := by
  induction fuel generalizing n with
  | zero => omega
  | succ fuel ih =>
    simp only [digitsRev, valRev, digit_toNat (n % 10) (Nat.mod_lt _ (by omega))]
    split
    · simp [valRev]; omega
    · have := ih (n / 10) (by omega)
      omega

theorem digitsRev_all (p : Char → Bool) (hp : ∀ d : Nat, d < 10 → p (Char.ofNat (48 + d)) = true) (fuel n : Nat) :
    (digitsRev fuel n).all p = true := by
  induction fuel generalizing n with
  | zero => simp [digitsRev]
  | succ fuel ih =>
    simp only [digitsRev, List.all_cons, hp (n % 10) (Nat.mod_lt _ (by omega)), Bool.true_and]
    split
    · rfl
    · exact ih _

theorem valL_append_single (a : List Char) (c : Char) (acc : Nat) :
    valL (a ++ [c]) acc = valL a acc * 10 + (c.toNat - 48) := by
  induction a generalizing acc with
  | nil => simp [valL]
  | cons x r ih => simp only [List.cons_append, valL, ih]

theorem valL_reverse (l : List Char) : valL l.reverse 0 = valRev l := by
  induction l with
  | nil => rfl
  | cons c r ih => simp only [List.reverse_cons, valL_append_single, ih, valRev]; omega

theorem showNat_ne_nil (n : Nat) : showNat n ≠ [] := by
  simp [showNat, digitsRev]

theorem showNat_all (p : Char → Bool) (hp : ∀ d : Nat, d < 10 → p (Char.ofNat (48 + d)) = true) (n : Nat) :
    (showNat n).all p = true := by
  simp only [showNat, List.all_reverse]
  exact digitsRev_all p hp _ _

theorem parseUsize_showNat {n : Nat} (h : n ≤ USIZE_MAX) : parseUsize (showNat n) = some n := by
  unfold parseUsize
  have hne := showNat_ne_nil n
  have : (showNat n).isEmpty = false := by cases hs : showNat n <;> simp_all
  rw [this]
  simp only [Bool.false_eq_true, if_false]
  rw [parseUsizeLoop_eq _ 0 (by simp [USIZE_MAX])]
  have hv : valL (showNat n) 0 = n := by
    simp only [showNat]; rw [valL_reverse, digitsRev_val _ _ (by omega)]
  rw [hv, if_pos h]

/-! ## key names -/

/-- the values `KeyName::from_str` can return -/
def nameOK : KeyName → Bool
  | .char c => c == ' ' || isPlainChar c
  | .f n => decide (n ≤ USIZE_MAX)
  | .left | .up | .right | .down | .pageUp | .pageDown | .end_ | .home | .tab | .enter | .esc | .backspace
  | .delete | .insert => true
  | _ => false

theorem lookup_mem {α β : Type} [BEq α] {l : List (α × β)} {a : α} {b : β} (h : l.lookup a = some b) :
    ∃ a', (a', b) ∈ l := by
  induction l with
  | nil => simp [List.lookup] at h
  | cons p t ih =>
    obtain ⟨x, y⟩ := p
    simp only [List.lookup] at h
    split at h
    · injection h with h; subst h; exact ⟨x, by simp⟩
    · obtain ⟨a', ha'⟩ := ih h; exact ⟨a', by simp [ha']⟩

theorem namedTable_ok : ∀ p ∈ namedTable, nameOK p.2 = true := by decide

theorem parseSingle_ok {f : List Char} {n : KeyName} (h : parseSingle f = .ok n) : nameOK n = true := by
  unfold parseSingle at h
  split at h
  · split at h
    · injection h with h; subst h; simp [nameOK, *]
    · simp at h
  · simp at h

theorem parseKeyName_ok {low : Char → List Char} {s : List Char} {n : KeyName} (h : parseKeyName low s = .ok n) :
    nameOK n = true := by
  unfold parseKeyName at h
  simp only [] at h
  split at h
  · rename_i n' hl
    injection h with h; subst h
    obtain ⟨a', ha'⟩ := lookup_mem hl
    exact namedTable_ok _ ha'
  · split at h
    · split at h
      · simp at h
      · split at h
        · split at h
          · rename_i n' hp
            injection h with h; subst h
            simp [nameOK, parseUsize_some hp]
          · simp at h
        · exact parseSingle_ok h
    · exact parseSingle_ok h

/-- what every printed name of a parseable key name looks like: lower-case-stable ASCII without `+` and space,
    not empty, not a modifier word -/
def printedOK (p : List Char) : Bool :=
  p.all (fun c => fixedChar c && c != '+' && c != ' ') && !p.isEmpty && (modParseTable.lookup p).isNone

theorem printedOK_fixed {p : List Char} (h : printedOK p = true) : p.all fixedChar = true := by
  simp only [printedOK, Bool.and_eq_true, List.all_eq_true] at h
  simp only [List.all_eq_true]
  intro c hc
  exact (h.1.1 c hc).1.1

theorem namedTable_single (c : Char) : namedTable.lookup [c] = none := by
  simp [namedTable, List.lookup, sLeft, sUp, sRight, sDown, sPageUp, sPageDown, sEnd, sHome, sTab, sEnter, sEscape,
    sEsc, sSpace, sBackspace, sDelete, sInsert]

theorem namedTable_f (ds : List Char) : namedTable.lookup ('f' :: ds) = none := by
  simp [namedTable, List.lookup, sLeft, sUp, sRight, sDown, sPageUp, sPageDown, sEnd, sHome, sTab, sEnter, sEscape,
    sEsc, sSpace, sBackspace, sDelete, sInsert]

theorem modTable_single (c : Char) : modParseTable.lookup [c] = none := by
  simp [modParseTable, List.lookup, sAlt, sCtrl, sShift, sPress, sSuper, sHyper, sMeta, sCapslock]

theorem modTable_f (ds : List Char) : modParseTable.lookup ('f' :: ds) = none := by
  simp [modParseTable, List.lookup, sAlt, sCtrl, sShift, sPress, sSuper, sHyper, sMeta, sCapslock]

theorem utf8Len_cons (c : Char) (r : List Char) : utf8Len (c :: r) = c.utf8Size + utf8Len r := by
  simp [utf8Len]

/-- unit variants: everything is a closed computation -/
theorem named_facts : ∀ p ∈ namedTable, p.1 ≠ sEscape →
    printedOK (printKeyName p.2) = true ∧ namedTable.lookup (printKeyName p.2) = some p.2 := by decide

theorem nameOK_cases {n : KeyName} (h : nameOK n = true) :
    (∃ p ∈ namedTable, p.1 ≠ sEscape ∧ p.2 = n) ∨ (∃ c, n = .char c ∧ isPlainChar c = true) ∨
    (∃ k, n = .f k ∧ k ≤ USIZE_MAX) := by
  cases n with
  | char c =>
    simp only [nameOK, Bool.or_eq_true, beq_iff_eq] at h
    rcases h with h | h
    · subst h; exact Or.inl ⟨(sSpace, .char ' '), by decide⟩
    · exact Or.inr (Or.inl ⟨c, rfl, h⟩)
  | f k => exact Or.inr (Or.inr ⟨k, rfl, by simpa [nameOK] using h⟩)
  | left => exact Or.inl ⟨(sLeft, .left), by decide⟩
  | up => exact Or.inl ⟨(sUp, .up), by decide⟩
  | right => exact Or.inl ⟨(sRight, .right), by decide⟩
  | down => exact Or.inl ⟨(sDown, .down), by decide⟩
  | pageUp => exact Or.inl ⟨(sPageUp, .pageUp), by decide⟩
  | pageDown => exact Or.inl ⟨(sPageDown, .pageDown), by decide⟩
  | end_ => exact Or.inl ⟨(sEnd, .end_), by decide⟩
  | home => exact Or.inl ⟨(sHome, .home), by decide⟩
  | tab => exact Or.inl ⟨(sTab, .tab), by decide⟩
  | enter => exact Or.inl ⟨(sEnter, .enter), by decide⟩
  | esc => exact Or.inl ⟨(sEsc, .esc), by decide⟩
  | backspace => exact Or.inl ⟨(sBackspace, .backspace), by decide⟩
  | delete => exact Or.inl ⟨(sDelete, .delete), by decide⟩
  | insert => exact Or.inl ⟨(sInsert, .insert), by decide⟩
  | mouseLeft | mouseMiddle | mouseMove | mouseRight | mouseWheelDown | mouseWheelUp => simp [nameOK] at h

theorem printName_plain {c : Char} (h : isPlainChar c = true) : printKeyName (.char c) = [c] := by
  have h1 : c ≠ ' ' := by rintro rfl; revert h; decide
  have h2 : c ≠ '\t' := by rintro rfl; revert h; decide
  have h3 : c ≠ '\n' := by rintro rfl; revert h; decide
  simp [printKeyName, h1, h2, h3, h]

theorem printedOK_name {n : KeyName} (h : nameOK n = true) : printedOK (printKeyName n) = true := by
  rcases nameOK_cases h with ⟨p, hp, hne, rfl⟩ | ⟨c, rfl, hc⟩ | ⟨k, rfl, hk⟩
  · exact (named_facts p hp hne).1
  · rw [printName_plain hc]
    obtain ⟨h1, h2, h3⟩ := plain_fixed hc
    simp [printedOK, h1, h2, h3, modTable_single]
  · have hall := showNat_all (fun c => fixedChar c && c != '+' && c != ' ')
      (by intro d hd; have := digit_fixed d hd; have := digit_ne d hd; simp_all) k
    have hf : (fixedChar 'f' && 'f' != '+' && 'f' != ' ') = true := by decide
    simp only [printKeyName, printedOK, List.all_cons, hf, hall, modTable_f]
    simp

theorem parse_printName {low : Char → List Char} (hl : LowOK low) {n : KeyName} (h : nameOK n = true) :
    parseKeyName low (printKeyName n) = .ok n := by
  have hfix := strLower_fixed hl (printedOK_fixed (printedOK_name h))
  unfold parseKeyName
  simp only [hfix]
  rcases nameOK_cases h with ⟨p, hp, hne, rfl⟩ | ⟨c, rfl, hc⟩ | ⟨k, rfl, hk⟩
  · rw [(named_facts p hp hne).2]
  · rw [printName_plain hc, namedTable_single]
    have h1 := (plain_fixed hc).1
    have h2 : c.utf8Size = 1 := utf8Size_one c (by
      simp only [fixedChar, Bool.and_eq_true, decide_eq_true_eq] at h1; exact h1.1)
    simp [utf8Len, h2, parseSingle, hc]
  · simp only [printKeyName, namedTable_f]
    have hpos : 0 < utf8Len (showNat k) := by
      cases hs : showNat k with
      | nil => exact absurd hs (showNat_ne_nil k)
      | cons c r => rw [utf8Len_cons]; have := Char.utf8Size_pos c; omega
    have hf : 'f'.utf8Size = 1 := by decide
    have hd := showNat_all isAsciiDigit digit_isDigit k
    simp only [List.head?_cons, true_and, utf8Len_cons, hf, byteTail1, if_true, hd, parseUsize_showNat hk]
    rw [if_pos (by omega)]

/-! ## `split` -/

theorem splitOn_ne_nil (sep : Char) (s : List Char) : splitOn sep s ≠ [] := by
  induction s with
  | nil => simp [splitOn]
  | cons c r ih =>
    simp only [splitOn]
    split
    · simp
    · split <;> simp

theorem splitOn_no_sep {sep : Char} {s : List Char} (h : sep ∉ s) : splitOn sep s = [s] := by
  induction s with
  | nil => rfl
  | cons c r ih =>
    simp only [List.mem_cons, not_or] at h
    simp only [splitOn, if_neg (Ne.symm h.1), ih h.2]

theorem splitOn_append_sep (sep : Char) (a b : List Char) :
    splitOn sep (a ++ sep :: b) = splitOn sep a ++ splitOn sep b := by
  induction a with
  | nil => simp [splitOn]
  | cons c r ih =>
    simp only [List.cons_append, splitOn]
    split
    · simp [ih]
    · rw [ih]
      cases hs : splitOn sep r with
      | nil => exact absurd hs (splitOn_ne_nil sep r)
      | cons p ps => simp

/-! ## keys -/

/-- the modifier sets `Key::from_str` can return: no `NUMLOCK`, nothing above `PRESS` -/
def modOK (km : Nat) : Bool := decide (km < 512) && (km &&& 128 == 0)

def keyOK (k : Key) : Bool := nameOK k.name && modOK k.mode

theorem modOK_or : ∀ p ∈ modParseTable, ∀ km : Nat, km < 512 → km &&& 128 = 0 → modOK (km ||| p.2) = true := by
  decide +kernel

theorem keyLoop_ok {low : Char → List Char} (ps : List (List Char)) (kn : Option KeyName) (km : Nat)
    (hkn : ∀ n, kn = some n → nameOK n = true) (hkm : modOK km = true) {name : KeyName} {km' : Nat}
    (h : keyLoop low ps kn km = .ok (some name, km')) : nameOK name = true ∧ modOK km' = true := by
  induction ps generalizing kn km with
  | nil =>
    simp only [keyLoop] at h
    injection h with h; injection h with h1 h2
    subst h2; exact ⟨hkn _ h1, hkm⟩
  | cons a rest ih =>
    simp only [keyLoop] at h
    split at h
    · rename_i flag hf
      obtain ⟨a', ha'⟩ := lookup_mem hf
      have hkm' : km < 512 ∧ km &&& 128 = 0 := by simpa [modOK] using hkm
      exact ih kn _ hkn (modOK_or _ ha' km hkm'.1 hkm'.2) h
    · split at h
      · rename_i nm hp
        split at h
        · simp at h
        · exact ih (some nm) km (by intro n hn; injection hn with hn; subst hn; exact parseKeyName_ok hp) hkm h
      · simp at h
      · injection h with h; injection h with h1 h2
        subst h2; exact ⟨hkn _ h1, hkm⟩

theorem parseKey_ok {low : Char → List Char} {s : List Char} {k : Key} (h : parseKey low s = .ok k) :
    keyOK k = true := by
  unfold parseKey at h
  split at h
  · simp at h
  · rename_i name km hk
    injection h with h; subst h
    have := keyLoop_ok (low := low) _ none 0 (by simp) (by decide) hk
    simp [keyOK, this.1, this.2]
  · simp at h

/-- the modifier words of a key string, folded the way `Key::from_str` folds them -/
def modsFold : List (List Char) → Nat → Option Nat
  | [], km => some km
  | p :: ps, km =>
    match modParseTable.lookup p with
    | some flag => modsFold ps (km ||| flag)
    | none => none

theorem keyLoop_mods {low : Char → List Char} (hl : LowOK low) (mods rest : List (List Char)) (kn : Option KeyName)
    (km km' : Nat) (hfix : mods.all (fun p => p.all fixedChar) = true) (hf : modsFold mods km = some km') :
    keyLoop low (mods ++ rest) kn km = keyLoop low rest kn km' := by
  induction mods generalizing km with
  | nil => simp only [modsFold] at hf; injection hf with hf; subst hf; rfl
  | cons p ps ih =>
    simp only [List.all_cons, Bool.and_eq_true] at hfix
    simp only [List.cons_append, keyLoop, strLower_fixed hl hfix.1]
    simp only [modsFold] at hf
    split at hf
    · rename_i flag hflag
      simp only [hflag]
      exact ih _ hfix.2 hf
    · simp at hf

set_option maxRecDepth 100000 in
/-- every printable modifier set, by exhaustion: its printed form splits into modifier words that fold back to it;
    all characters are lower-case-stable ASCII and none is a space -/
theorem printMod_facts : ∀ km : Nat, km < 512 → km &&& 128 = 0 → km ≠ 0 →
    modsFold (splitOn '+' (printKeyMod km)) 0 = some km ∧
    (splitOn '+' (printKeyMod km)).all (fun p => p.all fixedChar) = true ∧
    (printKeyMod km).all (fun c => c != ' ') = true := by decide +kernel

theorem printedOK_mem {p : List Char} (h : printedOK p = true) : '+' ∉ p ∧ ' ' ∉ p ∧ p ≠ [] ∧
    modParseTable.lookup p = none := by
  simp only [printedOK, Bool.and_eq_true, List.all_eq_true, Bool.not_eq_true', Option.isNone_iff_eq_none,
    bne_iff_ne, ne_eq] at h
  refine ⟨fun hm => (h.1.1 _ hm).1.2 rfl, fun hm => (h.1.1 _ hm).2 rfl, ?_, h.2⟩
  rintro rfl; simp at h

theorem parse_printKey {low : Char → List Char} (hl : LowOK low) {k : Key} (h : keyOK k = true) :
    parseKey low (printKey k) = .ok k := by
  obtain ⟨name, km⟩ := k
  simp only [keyOK, Bool.and_eq_true] at h
  obtain ⟨hn, hm⟩ := h
  have hp := printedOK_name hn
  obtain ⟨hplus, _, _, hnomod⟩ := printedOK_mem hp
  have hfix := strLower_fixed hl (printedOK_fixed hp)
  have hlast : ∀ km0, keyLoop low [printKeyName name] none km0 = .ok (some name, km0) := by
    intro km0
    simp only [keyLoop, hfix, hnomod, parse_printName hl hn]
  unfold parseKey printKey
  by_cases h0 : km = 0
  · subst h0
    simp only [if_true, splitOn_no_sep hplus, hlast]
  · have hm' : km < 512 ∧ km &&& 128 = 0 := by simpa [modOK] using hm
    obtain ⟨hfold, hfixm, _⟩ := printMod_facts km hm'.1 hm'.2 h0
    simp only [if_neg h0, splitOn_append_sep, splitOn_no_sep hplus]
    rw [keyLoop_mods hl _ _ none 0 km hfixm hfold, hlast]

/-! ## chords -/

theorem parseKeys_ok {low : Char → List Char} {ps : List (List Char)} {ks : List Key}
    (h : parseKeys low ps = .ok ks) : ks.all keyOK = true := by
  induction ps generalizing ks with
  | nil => simp only [parseKeys] at h; injection h with h; subst h; rfl
  | cons p rest ih =>
    simp only [parseKeys] at h
    split at h
    · simp at h
    · rename_i k hk
      split at h
      · simp at h
      · rename_i ks' hks
        injection h with h; subst h
        simp [parseKey_ok hk, ih hks]

theorem parseChord_ok {low : Char → List Char} {s : List Char} {ks : List Key} (h : parseChord low s = .ok ks) :
    ks ≠ [] ∧ ks.all keyOK = true := by
  unfold parseChord at h
  split at h
  · simp at h
  · simp at h
  · rename_i ks' hne hk
    injection h with h; subst h
    exact ⟨hne, parseKeys_ok hk⟩

theorem printKey_facts {k : Key} (h : keyOK k = true) : ' ' ∉ printKey k ∧ printKey k ≠ [] := by
  obtain ⟨name, km⟩ := k
  simp only [keyOK, Bool.and_eq_true] at h
  obtain ⟨hn, hm⟩ := h
  obtain ⟨_, hsp, hne, _⟩ := printedOK_mem (printedOK_name hn)
  unfold printKey
  by_cases h0 : km = 0
  · subst h0; simp only [if_true]; exact ⟨hsp, hne⟩
  · have hm' : km < 512 ∧ km &&& 128 = 0 := by simpa [modOK] using hm
    obtain ⟨_, _, hnosp⟩ := printMod_facts km hm'.1 hm'.2 h0
    simp only [if_neg h0]
    refine ⟨?_, by simp⟩
    simp only [List.mem_append, List.mem_cons, not_or]
    refine ⟨?_, by decide, hsp⟩
    intro hmem
    have := (List.all_eq_true.1 hnosp) _ hmem
    simp at this

theorem splitOn_printChord {ks : List Key} (hne : ks ≠ []) (h : ks.all keyOK = true) :
    splitOn ' ' (printChord ks) = ks.map printKey := by
  induction ks with
  | nil => exact absurd rfl hne
  | cons k t ih =>
    simp only [List.all_cons, Bool.and_eq_true] at h
    cases t with
    | nil => simp [printChord, splitOn_no_sep (printKey_facts h.1).1]
    | cons k2 t' =>
      simp only [printChord, splitOn_append_sep, splitOn_no_sep (printKey_facts h.1).1]
      rw [ih (by simp) h.2]
      simp

theorem parseKeys_print {low : Char → List Char} (hl : LowOK low) {ks : List Key} (h : ks.all keyOK = true) :
    parseKeys low (ks.map printKey) = .ok ks := by
  induction ks with
  | nil => rfl
  | cons k t ih =>
    simp only [List.all_cons, Bool.and_eq_true] at h
    simp only [List.map_cons, parseKeys, parse_printKey hl h.1, ih h.2]

theorem parse_printChord {low : Char → List Char} (hl : LowOK low) {ks : List Key} (hne : ks ≠ [])
    (h : ks.all keyOK = true) : parseChord low (printChord ks) = .ok ks := by
  unfold parseChord
  rw [splitOn_printChord hne h]
  have hfil : (ks.map printKey).filter (fun p => !p.isEmpty) = ks.map printKey := by
    rw [List.filter_eq_self]
    intro p hp
    simp only [List.mem_map] at hp
    obtain ⟨k, hk, rfl⟩ := hp
    have := (printKey_facts ((List.all_eq_true.1 h) k hk)).2
    cases hpk : printKey k <;> simp_all
  rw [hfil, parseKeys_print hl h]
  cases ks with
  | nil => exact absurd rfl hne
  | cons k t => rfl

/-! ## the defect of the pinned tree, for the record

Before the repair the `f<digits>` arm read `string[1..].parse().expect("coding error")`: an index that does not
fit `usize` was a panic.  The repaired arm (the model above) returns `ParseError`. -/

/-- the `f<digits>` arm as it was on the pinned tree -/
def fArmPinned (tail : List Char) : Except PErr KeyName :=
  match parseUsize tail with
  | some n => .ok (.f n)
  | none => .error .panic

/-- `"f99999999999999999999999"`: panic on the pinned tree, `ParseError` now -/
example : let s := 'f' :: List.replicate 23 '9'
    fArmPinned s.tail = .error .panic ∧ parseKeyName (lowWith []) s = .error .parseError := by
  constructor <;> rfl
