import SurfModel.Quant
import Mathlib.Tactic.Linarith
/-!
# C13 helper lemmas — octree: array layer, summaries, invariants of `insert` / `prune` / `prune_until`
-/
namespace SurfProofs.QuantOct
open SurfModel.Quant

/-! ### the eight-slot array -/

theorem fin8 : ∀ i : Fin 8, i = 0 ∨ i = 1 ∨ i = 2 ∨ i = 3 ∨ i = 4 ∨ i = 5 ∨ i = 6 ∨ i = 7 := by decide

/-- case split of an index into its eight values -/
macro "fin8_cases " i:ident : tactic =>
  `(tactic| (rcases fin8 $i with h | h | h | h | h | h | h | h <;> subst h))

@[simp] theorem get_set_eq (cs : Ch) (i : Fin 8) (n : Node) : (cs.set i n).get i = n := by
  fin8_cases i <;> rfl

theorem get_set_ne (cs : Ch) (i j : Fin 8) (n : Node) (h : j ≠ i) : (cs.set i n).get j = cs.get j := by
  fin8_cases i <;> fin8_cases j <;> first | rfl | exact absurd rfl h

theorem get_set (cs : Ch) (i j : Fin 8) (n : Node) :
    (cs.set i n).get j = if j = i then n else cs.get j := by
  by_cases h : j = i
  · subst h; simp
  · simp [h, get_set_ne cs i j n h]

@[simp] theorem set_set (cs : Ch) (i : Fin 8) (a b : Node) : (cs.set i a).set i b = cs.set i b := by
  fin8_cases i <;> rfl

@[simp] theorem get_empty (i : Fin 8) : Ch.empty.get i = .empty := by fin8_cases i <;> rfl

theorem mem_allIdx (i : Fin 8) : i ∈ allIdx := by fin8_cases i <;> simp [allIdx]

def sum8 (f : Fin 8 → Nat) : Nat := f 0 + f 1 + f 2 + f 3 + f 4 + f 5 + f 6 + f 7

theorem sum8_set (f : Node → Nat) (cs : Ch) (i : Fin 8) (n : Node) :
    sum8 (fun j => f ((cs.set i n).get j)) + f (cs.get i) = sum8 (fun j => f (cs.get j)) + f n := by
  fin8_cases i <;> simp [sum8, Ch.get, Ch.set] <;> omega

theorem le_sum8 (f : Fin 8 → Nat) (i : Fin 8) : f i ≤ sum8 f := by
  fin8_cases i <;> simp [sum8] <;> omega

theorem sum8_le_sum8 (f g : Fin 8 → Nat) (h : ∀ i, f i ≤ g i) : sum8 f ≤ sum8 g := by
  have := h 0; have := h 1; have := h 2; have := h 3; have := h 4; have := h 5; have := h 6; have := h 7
  simp only [sum8]; omega

theorem sum8_pos (f : Fin 8 → Nat) : 1 ≤ sum8 f ↔ ∃ i, 1 ≤ f i := by
  constructor
  · intro h
    by_contra hc
    have hz : ∀ i, f i = 0 := fun i => by
      have : ¬ 1 ≤ f i := fun hi => hc ⟨i, hi⟩
      omega
    simp [sum8, hz] at h
  · rintro ⟨i, hi⟩; exact le_trans hi (le_sum8 f i)

/-- induction over nodes with the children seen as an array -/
theorem node_ind {P : Node → Prop} (hempty : P .empty) (hleaf : ∀ l, P (.leaf l))
    (htree : ∀ info removed cs, (∀ i, P (cs.get i)) → P (Node.mkTree info removed cs)) : ∀ n, P n := by
  intro n
  induction n with
  | empty => exact hempty
  | leaf l => exact hleaf l
  | tree info removed c0 c1 c2 c3 c4 c5 c6 c7 h0 h1 h2 h3 h4 h5 h6 h7 =>
    have := htree info removed ⟨c0, c1, c2, c3, c4, c5, c6, c7⟩
      (fun i => by fin8_cases i <;> assumption)
    exact this

/-! ### equations of the model functions on `mkTree` -/

/-- actual number of leaves -/
def al (n : Node) : Nat := n.leaves.length

@[simp] theorem al_empty : al .empty = 0 := rfl
@[simp] theorem al_leaf (l : Leaf) : al (.leaf l) = 1 := rfl
theorem al_mkTree (info removed cs) : al (Node.mkTree info removed cs) = sum8 fun i => al (cs.get i) := by
  simp [al, Node.mkTree, Node.leaves, sum8, Ch.get]; omega

@[simp] theorem size_empty : Node.size .empty = 0 := rfl
@[simp] theorem size_leaf (l : Leaf) : Node.size (.leaf l) = 1 := rfl
theorem size_mkTree (info removed cs) :
    (Node.mkTree info removed cs).size = 2 + sum8 fun i => (cs.get i).size := by
  simp [Node.mkTree, Node.size, sum8, Ch.get]; omega

theorem mem_leaves_mkTree (info removed cs) (l : Leaf) :
    l ∈ (Node.mkTree info removed cs).leaves ↔ ∃ i, l ∈ (cs.get i).leaves := by
  simp only [Node.mkTree, Node.leaves, List.mem_append]
  constructor
  · rintro (((((((h | h) | h) | h) | h) | h) | h) | h)
    exacts [⟨0, h⟩, ⟨1, h⟩, ⟨2, h⟩, ⟨3, h⟩, ⟨4, h⟩, ⟨5, h⟩, ⟨6, h⟩, ⟨7, h⟩]
  · rintro ⟨i, h⟩
    fin8_cases i <;> simp_all [Ch.get]

@[simp] theorem nodeInfo_mkTree (info removed cs) : nodeInfo (Node.mkTree info removed cs) = info := rfl

theorem mkTree_ne_empty (info removed cs) : Node.mkTree info removed cs ≠ .empty := by
  simp [Node.mkTree]

theorem allEmpty_iff (cs : Ch) : allEmpty cs = true ↔ ∀ i, cs.get i = .empty := by
  simp only [allEmpty, List.all_eq_true]
  constructor
  · intro h i
    have := h i (mem_allIdx i)
    cases hc : cs.get i <;> simp_all [Node.isEmpty]
  · intro h i _; rw [h i]; rfl

/-! ### summaries -/

theorem foldl_join_leafCount (l : List Info) (acc : Info) :
    (l.foldl Info.join acc).leafCount = acc.leafCount + (l.map Info.leafCount).sum := by
  induction l generalizing acc with
  | nil => simp
  | cons x xs ih => simp [List.foldl, ih, Info.join]; omega

theorem join_min_isSome (a b : Info) :
    (a.join b).minColorCount.isSome = (a.minColorCount.isSome || b.minColorCount.isSome) := by
  cases ha : a.minColorCount <;> cases hb : b.minColorCount <;> simp [Info.join, ha, hb]

theorem foldl_join_min (l : List Info) (acc : Info) :
    (l.foldl Info.join acc).minColorCount.isSome =
      (acc.minColorCount.isSome || l.any fun x => x.minColorCount.isSome) := by
  induction l generalizing acc with
  | nil => simp
  | cons x xs ih => simp [List.foldl, ih, join_min_isSome, Bool.or_assoc]

theorem fromSlice_eq (cs : Ch) :
    fromSlice cs = (allIdx.map fun i => nodeInfo (cs.get i)).foldl Info.join Info.empty := by
  simp [fromSlice, List.foldl_map]

/-- leaves a node claims through its summary -/
def claimed (n : Node) : Nat := (nodeInfo n).leafCount

theorem fromSlice_leafCount (cs : Ch) : (fromSlice cs).leafCount = sum8 fun i => claimed (cs.get i) := by
  rw [fromSlice_eq, foldl_join_leafCount]
  simp [allIdx, sum8, claimed, Info.empty]; omega

def hasMin (n : Node) : Prop := (nodeInfo n).minColorCount.isSome = true

theorem fromSlice_min (cs : Ch) : (fromSlice cs).minColorCount.isSome = true ↔ ∃ i, hasMin (cs.get i) := by
  rw [fromSlice_eq, foldl_join_min]
  simp only [Info.empty, Option.isSome_none, Bool.false_or, List.any_map, List.any_eq_true, hasMin]
  constructor
  · rintro ⟨i, _, h⟩; exact ⟨i, h⟩
  · rintro ⟨i, h⟩; exact ⟨i, mem_allIdx i, h⟩

theorem hasMin_leaf (l : Leaf) : hasMin (.leaf l) := by simp [hasMin, nodeInfo]
theorem not_hasMin_empty : ¬ hasMin .empty := by simp [hasMin, nodeInfo, Info.empty]

/-! ### `argmin_color_count` -/

/-- one step of the fold -/
def argStep (cs : Ch) (best : Option (Fin 8 × Nat)) (i : Fin 8) : Option (Fin 8 × Nat) :=
  match (nodeInfo (cs.get i)).minColorCount with
  | none => best
  | some m =>
    match best with
    | none => some (i, m)
    | some (_, bm) => if m < bm then some (i, m) else best

theorem argmin_eq (cs : Ch) : argminColorCount cs = (allIdx.foldl (argStep cs) none).map (·.1) := rfl

theorem argStep_sound (cs : Ch) (l : List (Fin 8)) (best : Option (Fin 8 × Nat))
    (hb : ∀ p, best = some p → hasMin (cs.get p.1)) :
    ∀ p, l.foldl (argStep cs) best = some p → hasMin (cs.get p.1) := by
  induction l generalizing best with
  | nil => simpa using hb
  | cons x xs ih =>
    simp only [List.foldl]
    apply ih
    intro p hp
    unfold argStep at hp
    cases hm : (nodeInfo (cs.get x)).minColorCount with
    | none => rw [hm] at hp; exact hb p hp
    | some m =>
      rw [hm] at hp
      cases best with
      | none =>
        simp only [Option.some.injEq] at hp; subst hp
        simp [hasMin, hm]
      | some q =>
        obtain ⟨qi, qm⟩ := q
        simp only at hp
        split at hp
        · simp only [Option.some.injEq] at hp; subst hp; simp [hasMin, hm]
        · exact hb p hp

theorem argStep_complete (cs : Ch) (l : List (Fin 8)) (best : Option (Fin 8 × Nat))
    (h : best.isSome = true ∨ ∃ i ∈ l, hasMin (cs.get i)) :
    (l.foldl (argStep cs) best).isSome = true := by
  induction l generalizing best with
  | nil => simpa using h
  | cons x xs ih =>
    simp only [List.foldl]
    apply ih
    by_cases hx : hasMin (cs.get x)
    · left
      unfold hasMin at hx
      unfold argStep
      cases hm : (nodeInfo (cs.get x)).minColorCount with
      | none => simp [hm] at hx
      | some m =>
        cases best with
        | none => simp
        | some q => obtain ⟨qi, qm⟩ := q; simp only; split <;> simp
    · rcases h with h | ⟨i, hi, hh⟩
      · left
        unfold argStep
        cases hm : (nodeInfo (cs.get x)).minColorCount with
        | none => simpa using h
        | some m => exact absurd (by simp [hasMin, hm]) hx
      · rcases List.mem_cons.mp hi with rfl | hi'
        · exact absurd hh hx
        · exact Or.inr ⟨i, hi', hh⟩

theorem argmin_some (cs : Ch) (i : Fin 8) (h : argminColorCount cs = some i) : hasMin (cs.get i) := by
  rw [argmin_eq] at h
  cases hf : allIdx.foldl (argStep cs) none with
  | none => simp [hf] at h
  | some p =>
    simp only [hf, Option.map_some, Option.some.injEq] at h
    subst h
    exact argStep_sound cs allIdx none (by simp) p hf

theorem argmin_isSome (cs : Ch) (h : ∃ i, hasMin (cs.get i)) : ∃ i, argminColorCount cs = some i := by
  obtain ⟨i, hi⟩ := h
  have := argStep_complete cs allIdx none (Or.inr ⟨i, mem_allIdx i, hi⟩)
  rw [argmin_eq]
  cases hf : allIdx.foldl (argStep cs) none with
  | none => simp [hf] at this
  | some p => exact ⟨p.1, by simp⟩

theorem argmin_none (cs : Ch) (h : argminColorCount cs = none) : ∀ i, ¬ hasMin (cs.get i) := by
  intro i hi
  obtain ⟨j, hj⟩ := argmin_isSome cs ⟨i, hi⟩
  rw [h] at hj; cases hj

end SurfProofs.QuantOct
