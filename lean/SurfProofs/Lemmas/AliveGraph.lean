import SurfProofs.Lemmas.Tags
namespace SurfProofs.Graph

theorem SeqFrom.le {σ} {L : Nat → σ → List UInt8 → σ → Prop} {st sp : Nat → σ} {m i s w t}
    (h : SeqFrom L st sp m i s w t) : i + 1 ≤ m := by
  cases h with
  | last h _ => omega
  | cons h _ _ => omega

/-- a path from block `i` to any block `j` of a chain crosses the bridges `i → i+1 → … → j`, once each -/
theorem Chain.split' {σ} {g : Gr σ} {m A st sp} (hc : Chain g m A st sp) {s t : σ} {w} (h : Path g s w t) :
    ∀ i j, i < m → j < m → A i s → A j t →
      SeqFrom (fun i s u t => Path (g.inside (A i)) s u t) st sp (j + 1) i s w t := by
  induction h with
  | refl s =>
    intro i j hi hj hs ht
    have : i = j := hc.disj i j s hi hj hs ht
    exact SeqFrom.last (by omega) (Path.refl _)
  | @eps s s' t w he _ ih =>
    intro i j hi hj hs ht
    rcases hc.blk_eps i s s' hi hs he with hA | ⟨h1, h2, h3⟩
    · cases ih i j hi hj hA ht with
      | last h1 h2 => exact SeqFrom.last h1 (Path.eps ⟨hs, hA, he⟩ h2)
      | cons h1 h2 h3 => exact SeqFrom.cons h1 (Path.eps ⟨hs, hA, he⟩ h2) h3
    · subst h1 h2
      have hA : A (i + 1) (st (i + 1)) := hc.st_in _ h3
      have r := ih (i + 1) j h3 hj hA ht
      exact SeqFrom.cons (u := []) (by have := r.le; omega) (Path.refl _) r
  | @sym s s' t c w he _ ih =>
    intro i j hi hj hs ht
    have hA := hc.blk_edge i s c s' hi hs he
    cases ih i j hi hj hA ht with
    | last h1 h2 => exact SeqFrom.last h1 (Path.sym ⟨hs, hA, he⟩ h2)
    | cons h1 h2 h3 => exact SeqFrom.cons (u := c :: _) h1 (Path.sym ⟨hs, hA, he⟩ h2) h3

theorem plus_of_star {L : List UInt8 → Prop} {u v} (h1 : L u) (h2 : Star L v) : Plus L (u ++ v) := by
  rcases star_iff_plus.mp h2 with rfl | h
  · simpa using Plus.one h1
  · exact Plus.more h1 h

theorem star_append {L : List UInt8 → Prop} {u v} (h1 : L u) (h2 : Star L v) : Star L (u ++ v) := Star.more h1 h2

/-- `NFA::some`, all states: what is reachable after adding `stop →ε start` -/
theorem some_reach {σ} (g : Gr σ) (start stop q : σ) (w : List UInt8) :
    Path (g.addEps stop start) start w q ↔
      ∃ u v, w = u ++ v ∧ (u = [] ∨ Plus (fun w => Path g start w stop) u) ∧ Path g start v q := by
  constructor
  · have key : ∀ s w t, Path (g.addEps stop start) s w t →
        Path g s w t ∨ ∃ u v1 v2, w = u ++ (v1 ++ v2) ∧ Path g s u stop ∧
          Star (fun w => Path g start w stop) v1 ∧ Path g start v2 t := by
      intro s w t h
      induction h with
      | refl s => exact Or.inl (Path.refl _)
      | @eps s s' t w he _ ih =>
        rcases he with he | ⟨hs, ht⟩
        · rcases ih with h | ⟨u, v1, v2, e, h1, h2, h3⟩
          · exact Or.inl (Path.eps he h)
          · exact Or.inr ⟨u, v1, v2, e, Path.eps he h1, h2, h3⟩
        · subst hs ht
          rcases ih with h | ⟨u, v1, v2, e, h1, h2, h3⟩
          · exact Or.inr ⟨[], [], w, by simp, Path.refl _, Star.nil, h⟩
          · exact Or.inr ⟨[], u ++ v1, v2, by simp [e], Path.refl _, Star.more h1 h2, h3⟩
      | @sym s s' t c w he _ ih =>
        rcases ih with h | ⟨u, v1, v2, e, h1, h2, h3⟩
        · exact Or.inl (Path.sym he h)
        · exact Or.inr ⟨c :: u, v1, v2, by simp [e], Path.sym he h1, h2, h3⟩
    intro h
    rcases key _ _ _ h with h | ⟨u, v1, v2, e, h1, h2, h3⟩
    · exact ⟨[], w, rfl, Or.inl rfl, h⟩
    · exact ⟨u ++ v1, v2, by simp [e], Or.inr (plus_of_star h1 h2), h3⟩
  · rintro ⟨u, v, rfl, hu, hv⟩
    have up : ∀ {s t : σ} {w : List UInt8}, Path g s w t → Path (g.addEps stop start) s w t := by
      intro s t w hp
      exact Path.mono (g := g) (g' := g.addEps stop start) (fun _ _ _ h => h) (fun _ _ h => Or.inl h) hp
    rcases hu with rfl | hu
    · simpa using up hv
    · exact ((some_lang g start stop u).mpr hu).trans (Path.eps (Or.inr ⟨rfl, rfl⟩) (up hv))

end SurfProofs.Graph
