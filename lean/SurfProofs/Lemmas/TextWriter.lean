import SurfModel.TextLayout
/-!
Lemmas about `TerminalWriter::put_cell` (model `putPlain` / `putFallback` / `putCell` / `putCells`) for C09:
every write goes to an in-window offset, nothing else changes, no index panic on a surface whose window
offsets are valid indices of the backing slice.
-/
namespace SurfProofs.Lemmas.TextWriter
open SurfModel.Shape SurfModel.TextLayout

/-- `off` is the offset of a position inside the window of `sh` -/
def InWin (sh : Shape) (off : Nat) : Prop := ∃ r c, r < sh.height ∧ c < sh.width ∧ off = sh.offset r c

/-- all window offsets are valid indices of a backing slice of length `n` (`C07_inv`) -/
def ShOk (sh : Shape) (n : Nat) : Prop := ∀ r c, r < sh.height → c < sh.width → sh.offset r c < n

/-- `d'` results from `d` by writes at the offsets `t`, all in the window; nothing else changed; the
kinds of the cells at `ks` were replaced (`ks` lists `(offset, kind)`), all other kinds are the same -/
structure DExt (sh : Shape) (d d' : List Cell) (t : List Nat) : Prop where
  len : d'.length = d.length
  inwin : ∀ off ∈ t, InWin sh off
  frame : ∀ i, i ∉ t → d'[i]? = d[i]?

theorem DExt.refl (sh : Shape) (d : List Cell) : DExt sh d d [] :=
  ⟨rfl, by simp, by simp⟩

theorem DExt.trans {sh : Shape} {d d' d'' : List Cell} {t t' : List Nat}
    (h1 : DExt sh d d' t) (h2 : DExt sh d' d'' t') : DExt sh d d'' (t ++ t') := by
  refine ⟨h2.len.trans h1.len, ?_, ?_⟩
  · intro off ho
    rcases List.mem_append.mp ho with h | h
    · exact h1.inwin off h
    · exact h2.inwin off h
  · intro i hi
    simp only [List.mem_append, not_or] at hi
    rw [h2.frame i hi.2, h1.frame i hi.1]

/-- kinds of all cells are the same -/
def SameKinds (d d' : List Cell) : Prop := ∀ i : Nat, (d'[i]?).map Cell.kind = (d[i]?).map Cell.kind

theorem SameKinds.refl (d : List Cell) : SameKinds d d := fun _ => rfl
theorem SameKinds.trans {d d' d'' : List Cell} (h1 : SameKinds d d') (h2 : SameKinds d' d'') : SameKinds d d'' :=
  fun i => (h2 i).trans (h1 i)

/-! ### loops -/

theorem forIn?_inv {ι σ : Type} (I : σ → Prop) (R : σ → σ → Prop) (hrefl : ∀ s, R s s)
    (htrans : ∀ a b c, R a b → R b c → R a c) (Q : ι → Prop) (f : ι → σ → Option σ)
    (hf : ∀ i, Q i → ∀ s, I s → ∃ s', f i s = some s' ∧ I s' ∧ R s s')
    (l : List ι) (hl : ∀ i ∈ l, Q i) (s : σ) (hs : I s) :
    ∃ s', forIn? l f s = some s' ∧ I s' ∧ R s s' := by
  induction l generalizing s with
  | nil => exact ⟨s, rfl, hs, hrefl s⟩
  | cons i rest ih =>
    obtain ⟨s1, h1, hi1, hr1⟩ := hf i (hl i List.mem_cons_self) s hs
    obtain ⟨s2, h2, hi2, hr2⟩ := ih (fun j hj => hl j (List.mem_cons_of_mem _ hj)) s1 hi1
    refine ⟨s2, ?_, hi2, htrans _ _ _ hr1 hr2⟩
    simp only [forIn?, h1, h2]

/-- relation between the states of the face fill loops -/
def MRel (sh : Shape) (m m' : MutSt Cell) : Prop :=
  ∃ t, m'.touched = m.touched ++ t ∧ DExt sh m.data m'.data t ∧ SameKinds m.data m'.data

theorem MRel.refl (sh : Shape) (m : MutSt Cell) : MRel sh m m :=
  ⟨[], by simp, DExt.refl sh m.data, SameKinds.refl _⟩

theorem MRel.trans {sh : Shape} {a b c : MutSt Cell} (h1 : MRel sh a b) (h2 : MRel sh b c) : MRel sh a c := by
  obtain ⟨t1, e1, d1, k1⟩ := h1
  obtain ⟨t2, e2, d2, k2⟩ := h2
  exact ⟨t1 ++ t2, by rw [e2, e1, List.append_assoc], d1.trans d2, k1.trans k2⟩

theorem fillStep_ok (sh : Shape) (n : Nat) (hok : ShOk sh n) (face : Face) (start end_ row col : Nat)
    (hr : row < sh.height) (hc : col < sh.width) (m : MutSt Cell) (hm : m.data.length = n) :
    ∃ m', fillStep sh face start end_ row col m = some m' ∧ m'.data.length = n ∧ MRel sh m m' := by
  unfold fillStep
  simp only
  split
  · have hlt : sh.offset row col < m.data.length := by rw [hm]; exact hok row col hr hc
    rw [List.getElem?_eq_getElem hlt]
    refine ⟨_, rfl, by simp [hm], [sh.offset row col], rfl, ⟨by simp, ?_, ?_⟩, ?_⟩
    · intro off ho
      simp only [List.mem_singleton] at ho
      exact ⟨row, col, hr, hc, ho⟩
    · intro i hi
      simp only [List.mem_singleton] at hi
      simp only
      rw [List.getElem?_set_ne (Ne.symm hi)]
    · intro i
      simp only
      by_cases hi : sh.offset row col = i
      · subst hi
        simp [List.getElem?_set_self hlt, List.getElem?_eq_getElem hlt]
      · rw [List.getElem?_set_ne hi]
  · exact ⟨m, rfl, hm, MRel.refl sh m⟩

theorem fillFace_ok (sh : Shape) (n : Nat) (hok : ShOk sh n) (face : Face) (sr sc er ec : Nat)
    (m : MutSt Cell) (hm : m.data.length = n) :
    ∃ m', fillFace sh face sr sc er ec m = some m' ∧ m'.data.length = n ∧ MRel sh m m' := by
  unfold fillFace
  simp only
  have := forIn?_inv (fun (m : MutSt Cell) => m.data.length = n) (MRel sh) (MRel.refl sh)
    (fun _ _ _ h1 h2 => MRel.trans h1 h2) (fun row => row < sh.height)
    (fun row st => forIn? (List.range sh.width)
      (fun col st => fillStep sh face (sh.offset sr sc) (sh.offset er ec) row col st) st)
    (by
      intro row hrow s hs
      exact forIn?_inv (fun (m : MutSt Cell) => m.data.length = n) (MRel sh) (MRel.refl sh)
        (fun _ _ _ h1 h2 => MRel.trans h1 h2) (fun col => col < sh.width) _
        (fun col hcol s hs => fillStep_ok sh n hok face _ _ row col hrow hcol s hs)
        (List.range sh.width) (by intro i hi; exact List.mem_range.mp hi) s hs)
    (List.range' sr (min (er + 1) sh.height - sr))
    (by
      intro i hi
      rw [List.mem_range'_1] at hi
      omega)
    m hm
  exact this

/-! ### `put_cell` -/

/-- `w'` results from `w` by `put_cell` calls: same surface, context, flags; data changed only at the
offsets appended to `touched`, all of them in the window -/
structure WExt (w w' : Writer) (t : List Nat) : Prop where
  shape : w'.shape = w.shape
  ctx : w'.ctx = w.ctx
  wraps : w'.wraps = w.wraps
  face : w'.face = w.face
  touched : w'.touched = w.touched ++ t
  data : DExt w.shape w.data w'.data t

theorem WExt.refl (w : Writer) : WExt w w [] :=
  ⟨rfl, rfl, rfl, rfl, by simp, DExt.refl _ _⟩

theorem WExt.trans {a b c : Writer} {t t' : List Nat} (h1 : WExt a b t) (h2 : WExt b c t') : WExt a c (t ++ t') :=
  ⟨h2.shape.trans h1.shape, h2.ctx.trans h1.ctx, h2.wraps.trans h1.wraps, h2.face.trans h1.face,
    by rw [h2.touched, h1.touched, List.append_assoc], h1.data.trans (h1.shape ▸ h2.data)⟩

/-- what one `put_cell` (after the fallback branch) does: it never panics; with a position inside the
window it writes exactly that cell; otherwise no kind changes -/
theorem putPlain_ok (w : Writer) (cell : Cell) (hok : ShOk w.shape w.data.length) :
    ∃ w' b t, putPlain w cell = some (w', b) ∧ WExt w w' t ∧
      w'.st = (cellLayout w.ctx w.shape.width w.wraps cell.kind w.st).1 ∧
      (match (cellLayout w.ctx w.shape.width w.wraps cell.kind w.st).2 with
       | some (r, c) =>
         if r < w.shape.height ∧ c < w.shape.width then
           b = true ∧ t = [w.shape.offset r c] ∧ (w'.data[w.shape.offset r c]?).map Cell.kind = some cell.kind
         else b = false ∧ t = [] ∧ w'.data = w.data
       | none => b = true ∧ SameKinds w.data w'.data) := by
  unfold putPlain
  simp only
  cases hpos : (cellLayout w.ctx w.shape.width w.wraps cell.kind w.st).2 with
  | some p =>
    obtain ⟨r, c⟩ := p
    simp only
    unfold SurfModel.Shape.get
    by_cases hin : r < w.shape.height ∧ c < w.shape.width
    · have hng : ¬ ((r ≥ w.shape.height || c ≥ w.shape.width) = true) := by
        simp only [Bool.or_eq_true, decide_eq_true_eq]; omega
      have hlt : w.shape.offset r c < w.data.length := hok r c hin.1 hin.2
      simp only [hng, if_false, List.getElem?_eq_getElem hlt, hin, and_self, if_true]
      refine ⟨_, true, [w.shape.offset r c], rfl, ⟨rfl, rfl, rfl, rfl, rfl, ⟨by simp, ?_, ?_⟩⟩, rfl, rfl, rfl, ?_⟩
      · intro off ho
        simp only [List.mem_singleton] at ho
        exact ⟨r, c, hin.1, hin.2, ho⟩
      · intro i hi
        simp only [List.mem_singleton] at hi
        simp only
        rw [List.getElem?_set_ne (Ne.symm hi)]
      · simp [List.getElem?_set_self hlt, Cell.overlay]
    · have hg : (r ≥ w.shape.height || c ≥ w.shape.width) = true := by
        simp only [Bool.or_eq_true, decide_eq_true_eq]; omega
      simp only [hg, if_true, hin, if_false]
      exact ⟨_, false, [], rfl, ⟨rfl, rfl, rfl, rfl, by simp, DExt.refl _ _⟩, rfl, rfl, rfl, rfl⟩
  | none =>
    simp only
    split
    · obtain ⟨m', hm', hlen, t, ht, hd, hk⟩ := fillFace_ok w.shape w.data.length hok (w.face.overlay cell.face)
        w.st.row w.st.col (cellLayout w.ctx w.shape.width w.wraps cell.kind w.st).1.row
        (cellLayout w.ctx w.shape.width w.wraps cell.kind w.st).1.col
        { data := w.data, touched := w.touched } rfl
      rw [hm']
      exact ⟨_, true, t, rfl, ⟨rfl, rfl, rfl, rfl, ht, hd⟩, rfl, rfl, hk⟩
    · exact ⟨_, true, [], rfl, ⟨rfl, rfl, rfl, rfl, by simp, DExt.refl _ _⟩, rfl, rfl, SameKinds.refl _⟩

theorem ShOk_of_ext {w w' : Writer} {t : List Nat} (h : WExt w w' t) (hok : ShOk w.shape w.data.length) :
    ShOk w'.shape w'.data.length := by
  rw [h.shape, h.data.len]; exact hok

theorem putFallback_ok (w : Writer) (face : Face) (fb : List Nat) (hok : ShOk w.shape w.data.length) :
    ∃ w' b t, putFallback w face fb = some (w', b) ∧ WExt w w' t := by
  induction fb generalizing w with
  | nil => exact ⟨w, true, [], rfl, WExt.refl w⟩
  | cons c cs ih =>
    obtain ⟨w1, b, t, h1, e1, _⟩ := putPlain_ok w ⟨face, .chr c⟩ hok
    simp only [putFallback, h1]
    cases b with
    | false => exact ⟨w1, false, t, rfl, e1⟩
    | true =>
      obtain ⟨w2, b2, t2, h2, e2⟩ := ih w1 (ShOk_of_ext e1 hok)
      exact ⟨w2, b2, t ++ t2, h2, e1.trans e2⟩

theorem putCell_ok (w : Writer) (cell : Cell) (hok : ShOk w.shape w.data.length) :
    ∃ w' b t, putCell w cell = some (w', b) ∧ WExt w w' t := by
  unfold putCell
  cases hk : cell.kind with
  | chr c =>
    obtain ⟨w1, b, t, h1, e1, _⟩ := putPlain_ok w cell hok
    exact ⟨w1, b, t, h1, e1⟩
  | image ph pw =>
    obtain ⟨w1, b, t, h1, e1, _⟩ := putPlain_ok w cell hok
    exact ⟨w1, b, t, h1, e1⟩
  | glyph gh gw fb =>
    simp only
    split
    · obtain ⟨w1, b, t, h1, e1, _⟩ := putPlain_ok w cell hok
      exact ⟨w1, b, t, h1, e1⟩
    · exact putFallback_ok w cell.face fb hok

theorem putCells_ok (w : Writer) (cells : List Cell) (hok : ShOk w.shape w.data.length) :
    ∃ w' t, putCells w cells = some w' ∧ WExt w w' t := by
  induction cells generalizing w with
  | nil => exact ⟨w, [], rfl, WExt.refl w⟩
  | cons c cs ih =>
    obtain ⟨w1, b, t, h1, e1⟩ := putCell_ok w c hok
    obtain ⟨w2, t2, h2, e2⟩ := ih w1 (ShOk_of_ext e1 hok)
    refine ⟨w2, t ++ t2, ?_, e1.trans e2⟩
    simp only [putCells, h1, h2]

end SurfProofs.Lemmas.TextWriter
