/-!
# `u8` shift / or / and expressions of the base64 codec as arithmetic on naturals

Independent of the tables (so this module is built once and cached). Each fact is enumerated by the kernel
over `Fin 256` (× a small second range), then transported to `UInt8` variables.
-/
namespace SurfProofs.Lemmas.Base64Bits

def u8 (n : Nat) : UInt8 := UInt8.ofNat n

theorem u8_toNat (x : UInt8) : u8 x.toNat = x := UInt8.ofNat_toNat

theorem lt256 (x : UInt8) : x.toNat < 256 := by have := UInt8.toNat_lt x; omega

theorem shr2 : ∀ a : Fin 256, (u8 a >>> 2).toNat = a.val / 4 := by decide +kernel
theorem shr4 : ∀ b : Fin 256, u8 b >>> 4 = u8 (b.val / 16) := by decide +kernel
theorem shr6 : ∀ b : Fin 256, u8 b >>> 6 = u8 (b.val / 64) := by decide +kernel
theorem and3f : ∀ a : Fin 256, (u8 a &&& 0x3f).toNat = a.val % 64 := by decide +kernel
theorem mid1 : ∀ a : Fin 256, ∀ j : Fin 16,
    (((u8 a <<< 4) ||| u8 j) &&& 0x3f).toNat = (a.val % 4) * 16 + j.val := by decide +kernel
theorem mid2 : ∀ a : Fin 256, ∀ j : Fin 4,
    (((u8 a <<< 2) ||| u8 j) &&& 0x3f).toNat = (a.val % 16) * 4 + j.val := by decide +kernel
theorem fin1 : ∀ a : Fin 256, ((u8 a <<< 4) &&& 0x3f).toNat = (a.val % 4) * 16 := by decide +kernel
theorem fin2 : ∀ a : Fin 256, ((u8 a <<< 2) &&& 0x3f).toNat = (a.val % 16) * 4 := by decide +kernel

/-- decoder: the three output bytes from four sextets -/
theorem dec0 : ∀ a b : Fin 64, ((u8 a <<< 2) ||| (u8 b >>> 4)) = u8 (a.val * 4 + b.val / 16) := by decide +kernel
theorem dec1 : ∀ a b : Fin 64, ((u8 a <<< 4) ||| (u8 b >>> 2)) = u8 ((a.val % 16) * 16 + b.val / 4) := by decide +kernel
theorem dec2 : ∀ a b : Fin 64, ((u8 a <<< 6) ||| u8 b) = u8 ((a.val % 4) * 64 + b.val) := by decide +kernel

/-! ### the same for `UInt8` variables -/

theorem enc_i0 (s0 : UInt8) : (s0 >>> 2).toNat = s0.toNat / 4 := by
  have := shr2 ⟨s0.toNat, lt256 s0⟩
  simpa [u8_toNat] using this

theorem enc_i3 (s2 : UInt8) : (s2 &&& 0x3f).toNat = s2.toNat % 64 := by
  have := and3f ⟨s2.toNat, lt256 s2⟩
  simpa [u8_toNat] using this

theorem enc_i1 (s0 s1 : UInt8) :
    (((s0 <<< 4) ||| (s1 >>> 4)) &&& 0x3f).toNat = (s0.toNat % 4) * 16 + s1.toNat / 16 := by
  have h1 := shr4 ⟨s1.toNat, lt256 s1⟩
  have h2 := mid1 ⟨s0.toNat, lt256 s0⟩ ⟨s1.toNat / 16, by have := lt256 s1; omega⟩
  simp only [u8_toNat] at h1 h2
  rw [h1]; exact h2

theorem enc_i2 (s1 s2 : UInt8) :
    (((s1 <<< 2) ||| (s2 >>> 6)) &&& 0x3f).toNat = (s1.toNat % 16) * 4 + s2.toNat / 64 := by
  have h1 := shr6 ⟨s2.toNat, lt256 s2⟩
  have h2 := mid2 ⟨s1.toNat, lt256 s1⟩ ⟨s2.toNat / 64, by have := lt256 s2; omega⟩
  simp only [u8_toNat] at h1 h2
  rw [h1]; exact h2

theorem enc_f1 (s0 : UInt8) : ((s0 <<< 4) &&& 0x3f).toNat = (s0.toNat % 4) * 16 := by
  have := fin1 ⟨s0.toNat, lt256 s0⟩
  simpa [u8_toNat] using this

theorem enc_f2 (s1 : UInt8) : ((s1 <<< 2) &&& 0x3f).toNat = (s1.toNat % 16) * 4 := by
  have := fin2 ⟨s1.toNat, lt256 s1⟩
  simpa [u8_toNat] using this

theorem dec_b0 (a b : Nat) (ha : a < 64) (hb : b < 64) : ((u8 a <<< 2) ||| (u8 b >>> 4)) = u8 (a * 4 + b / 16) :=
  dec0 ⟨a, ha⟩ ⟨b, hb⟩
theorem dec_b1 (a b : Nat) (ha : a < 64) (hb : b < 64) : ((u8 a <<< 4) ||| (u8 b >>> 2)) = u8 ((a % 16) * 16 + b / 4) :=
  dec1 ⟨a, ha⟩ ⟨b, hb⟩
theorem dec_b2 (a b : Nat) (ha : a < 64) (hb : b < 64) : ((u8 a <<< 6) ||| u8 b) = u8 ((a % 4) * 64 + b) :=
  dec2 ⟨a, ha⟩ ⟨b, hb⟩

end SurfProofs.Lemmas.Base64Bits
