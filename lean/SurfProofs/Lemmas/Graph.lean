/-!
Labelled graphs with ε-edges and their paths: the semantic layer of the automata proofs (C15 and the
properties built on it).  Nothing here mentions numbering; the combinator lemmas are stated over *block
predicates* on one state type (`Chain` for `sequence`, `Fan` for `choice`/`optional`/`many`, `addEps` for
`some`).
-/
namespace SurfProofs.Graph

structure Gr (σ : Type) where
  edge : σ → UInt8 → σ → Prop
  eps : σ → σ → Prop

/-- `Path g s w t`: `t` is reachable from `s` reading `w` (ε-steps anywhere) -/
inductive Path {σ} (g : Gr σ) : σ → List UInt8 → σ → Prop
  | refl (s : σ) : Path g s [] s
  | eps {s t u : σ} {w : List UInt8} : g.eps s t → Path g t w u → Path g s w u
  | sym {s t u : σ} {b : UInt8} {w : List UInt8} : g.edge s b t → Path g t w u → Path g s (b :: w) u

theorem Path.trans {σ} {g : Gr σ} {s t r : σ} {u v : List UInt8}
    (h1 : Path g s u t) (h2 : Path g t v r) : Path g s (u ++ v) r := by
  induction h1 with
  | refl s => simpa using h2
  | eps he _ ih => exact Path.eps he (ih h2)
  | sym he _ ih => exact Path.sym he (ih h2)

theorem Path.snocEps {σ} {g : Gr σ} {s t r : σ} {w} (h1 : Path g s w t) (h2 : g.eps t r) : Path g s w r := by
  simpa using h1.trans (Path.eps h2 (Path.refl r))

theorem Path.snocSym {σ} {g : Gr σ} {s t r : σ} {w b} (h1 : Path g s w t) (h2 : g.edge t b r) :
    Path g s (w ++ [b]) r := h1.trans (Path.sym h2 (Path.refl r))

/-- monotonicity: more edges, more paths -/
theorem Path.mono {σ} {g g' : Gr σ} (he : ∀ s b t, g.edge s b t → g'.edge s b t)
    (hp : ∀ s t, g.eps s t → g'.eps s t) {s t : σ} {w} (h : Path g s w t) : Path g' s w t := by
  induction h with
  | refl s => exact Path.refl s
  | eps h1 _ ih => exact Path.eps (hp _ _ h1) ih
  | sym h1 _ ih => exact Path.sym (he _ _ _ h1) ih

/-- a graph homomorphism maps paths to paths -/
theorem Path.map {σ τ} {g : Gr σ} {h : Gr τ} (f : σ → τ)
    (he : ∀ s b t, g.edge s b t → h.edge (f s) b (f t)) (hp : ∀ s t, g.eps s t → h.eps (f s) (f t))
    {s t : σ} {w} (p : Path g s w t) : Path h (f s) w (f t) := by
  induction p with
  | refl s => exact Path.refl _
  | eps h1 _ ih => exact Path.eps (hp _ _ h1) ih
  | sym h1 _ ih => exact Path.sym (he _ _ _ h1) ih

/-- a homomorphism defined on an invariant region `A` maps the paths that start in `A` -/
theorem Path.mapOn {σ τ} {g : Gr σ} {h : Gr τ} (f : σ → τ) (A : σ → Prop)
    (he : ∀ s b t, A s → g.edge s b t → A t ∧ h.edge (f s) b (f t))
    (hp : ∀ s t, A s → g.eps s t → A t ∧ h.eps (f s) (f t))
    {s t : σ} {w} (p : Path g s w t) (hs : A s) : A t ∧ Path h (f s) w (f t) := by
  induction p with
  | refl s => exact ⟨hs, Path.refl _⟩
  | eps h1 _ ih =>
    obtain ⟨ha, h2⟩ := hp _ _ hs h1
    obtain ⟨hb, h3⟩ := ih ha
    exact ⟨hb, Path.eps h2 h3⟩
  | sym h1 _ ih =>
    obtain ⟨ha, h2⟩ := he _ _ _ hs h1
    obtain ⟨hb, h3⟩ := ih ha
    exact ⟨hb, Path.sym h2 h3⟩

/-- a path reading `b :: w` takes ε-steps, one `b`-edge, then a path reading `w` -/
theorem Path.cons_inv {σ} {g : Gr σ} {s t : σ} {b : UInt8} {w : List UInt8} (p : Path g s (b :: w) t) :
    ∃ s' r, Path g s [] s' ∧ g.edge s' b r ∧ Path g r w t := by
  generalize hx : b :: w = x at p
  induction p with
  | refl s => cases hx
  | eps h1 _ ih =>
    obtain ⟨s', r, p1, e, p2⟩ := ih hx
    exact ⟨s', r, Path.eps h1 p1, e, p2⟩
  | sym h1 p2 _ =>
    cases hx
    exact ⟨_, _, Path.refl _, h1, p2⟩

/-- a path reading `u ++ v` passes through a state after reading `u` -/
theorem Path.append_inv {σ} {g : Gr σ} {s t : σ} {u v : List UInt8} (p : Path g s (u ++ v) t) :
    ∃ r, Path g s u r ∧ Path g r v t := by
  induction u generalizing s with
  | nil => exact ⟨s, Path.refl s, by simpa using p⟩
  | cons b u ih =>
    obtain ⟨s', r, p1, e, p2⟩ := Path.cons_inv (by simpa using p)
    obtain ⟨r', p3, p4⟩ := ih p2
    exact ⟨r', by simpa using p1.trans (Path.sym e p3), p4⟩

def Gr.addEps {σ} (g : Gr σ) (a b : σ) : Gr σ :=
  { edge := g.edge, eps := fun s t => g.eps s t ∨ (s = a ∧ t = b) }

/-- one or more -/
inductive Plus (L : List UInt8 → Prop) : List UInt8 → Prop
  | one {w} : L w → Plus L w
  | more {u v} : L u → Plus L v → Plus L (u ++ v)

/-- zero or more -/
inductive Star (L : List UInt8 → Prop) : List UInt8 → Prop
  | nil : Star L []
  | more {u v} : L u → Star L v → Star L (u ++ v)

theorem star_iff_plus {L : List UInt8 → Prop} {w} : Star L w ↔ w = [] ∨ Plus L w := by
  constructor
  · intro h
    induction h with
    | nil => exact Or.inl rfl
    | @more u v h1 _ ih =>
      rcases ih with rfl | ih
      · exact Or.inr (by simpa using Plus.one h1)
      · exact Or.inr (Plus.more h1 ih)
  · rintro (rfl | h)
    · exact Star.nil
    · induction h with
      | one h => simpa using Star.more h Star.nil
      | more h1 _ ih => exact Star.more h1 ih

/-- `NFA::some`: adding `stop →ε start` yields exactly L⁺, whatever the shape of the operand -/
theorem some_lang {σ} (g : Gr σ) (start stop : σ) (w : List UInt8) :
    Path (g.addEps stop start) start w stop ↔ Plus (fun w => Path g start w stop) w := by
  constructor
  · have key : ∀ s w t, Path (g.addEps stop start) s w t → t = stop →
        Path g s w stop ∨ ∃ u v, Path g s u stop ∧ Plus (fun w => Path g start w stop) v ∧ w = u ++ v := by
      intro s w t h
      induction h with
      | refl s => intro ht; subst ht; exact Or.inl (Path.refl _)
      | @eps s t u w he _ ih =>
        intro hu
        rcases he with he | ⟨hs, ht⟩
        · rcases ih hu with h | ⟨u', v, h1, h2, h3⟩
          · exact Or.inl (Path.eps he h)
          · exact Or.inr ⟨u', v, Path.eps he h1, h2, h3⟩
        · subst hs; subst ht
          rcases ih hu with h | ⟨u', v, h1, h2, h3⟩
          · exact Or.inr ⟨[], w, Path.refl _, Plus.one h, by simp⟩
          · exact Or.inr ⟨[], w, Path.refl _, by rw [h3]; exact Plus.more h1 h2, by simp⟩
      | @sym s t u b w he _ ih =>
        intro hu
        rcases ih hu with h | ⟨u', v, h1, h2, h3⟩
        · exact Or.inl (Path.sym he h)
        · exact Or.inr ⟨b :: u', v, Path.sym he h1, h2, by simp [h3]⟩
    intro h
    rcases key _ _ _ h rfl with h | ⟨u, v, h1, h2, h3⟩
    · exact Plus.one h
    · rw [h3]; exact Plus.more h1 h2
  · intro h
    have up : ∀ {s t : σ} {w : List UInt8}, Path g s w t → Path (g.addEps stop start) s w t := by
      intro s t w hp
      exact Path.mono (g := g) (g' := g.addEps stop start) (fun _ _ _ h => h) (fun _ _ h => Or.inl h) hp
    induction h with
    | one h => exact up h
    | more h1 _ ih =>
      exact Path.trans (up h1) (Path.eps (Or.inr ⟨rfl, rfl⟩) ih)


/-- the part of `g` between states of `A` -/
def Gr.inside {σ} (g : Gr σ) (A : σ → Prop) : Gr σ :=
  { edge := fun s c t => A s ∧ A t ∧ g.edge s c t
    eps := fun s t => A s ∧ A t ∧ g.eps s t }

theorem Path.of_inside {σ} {g : Gr σ} {A : σ → Prop} {s t w} (h : Path (g.inside A) s w t) : Path g s w t :=
  Path.mono (g := g.inside A) (g' := g) (fun _ _ _ h => h.2.2) (fun _ _ h => h.2.2) h

theorem Path.inside_end {σ} {g : Gr σ} {A : σ → Prop} {s t w} (h : Path (g.inside A) s w t) (hs : A s) : A t := by
  induction h with
  | refl => exact hs
  | eps h1 _ ih => exact ih h1.2.1
  | sym h1 _ ih => exact ih h1.2.1

/-- a region that no edge leaves contains all paths that start in it -/
theorem Path.to_inside {σ} {g : Gr σ} {A : σ → Prop} (he : ∀ s c t, A s → g.edge s c t → A t)
    (hp : ∀ s t, A s → g.eps s t → A t) {s t w} (h : Path g s w t) (hs : A s) : Path (g.inside A) s w t := by
  induction h with
  | refl => exact Path.refl _
  | eps h1 _ ih => exact Path.eps ⟨hs, hp _ _ hs h1, h1⟩ (ih (hp _ _ hs h1))
  | sym h1 _ ih => exact Path.sym ⟨hs, he _ _ _ hs h1, h1⟩ (ih (he _ _ _ hs h1))

/-! ### `sequence`: a chain of blocks -/

/-- shape of `NFA::sequence` after `merge_states`: blocks `A 0 … A (m-1)`; the only edges that leave a block
    are the bridges `sp i →ε st (i+1)` -/
structure Chain {σ} (g : Gr σ) (m : Nat) (A : Nat → σ → Prop) (st sp : Nat → σ) : Prop where
  disj : ∀ i j s, i < m → j < m → A i s → A j s → i = j
  st_in : ∀ i, i < m → A i (st i)
  blk_edge : ∀ i s c t, i < m → A i s → g.edge s c t → A i t
  blk_eps : ∀ i s t, i < m → A i s → g.eps s t → A i t ∨ (s = sp i ∧ t = st (i + 1) ∧ i + 1 < m)

/-- a word read along the chain from block `i` on: one piece per block -/
inductive SeqFrom {σ} (L : Nat → σ → List UInt8 → σ → Prop) (st sp : Nat → σ) (m : Nat) :
    Nat → σ → List UInt8 → σ → Prop
  | last {i s w t} : i + 1 = m → L i s w t → SeqFrom L st sp m i s w t
  | cons {i s u v t} : i + 1 < m → L i s u (sp i) → SeqFrom L st sp m (i + 1) (st (i + 1)) v t →
      SeqFrom L st sp m i s (u ++ v) t

/-- every path from block `i` to the last block crosses each bridge in between exactly once -/
theorem Chain.split {σ} {g : Gr σ} {m A st sp} (hc : Chain g m A st sp) {s t : σ} {w} (h : Path g s w t) :
    ∀ i, i < m → A i s → A (m - 1) t →
      SeqFrom (fun i s u t => Path (g.inside (A i)) s u t) st sp m i s w t := by
  induction h with
  | refl s =>
    intro i hi hs ht
    have : i = m - 1 := hc.disj i (m - 1) s hi (by omega) hs ht
    exact SeqFrom.last (by omega) (Path.refl _)
  | @eps s s' t w he _ ih =>
    intro i hi hs ht
    rcases hc.blk_eps i s s' hi hs he with hA | ⟨h1, h2, h3⟩
    · cases ih i hi hA ht with
      | last h1 h2 => exact SeqFrom.last h1 (Path.eps ⟨hs, hA, he⟩ h2)
      | cons h1 h2 h3 => exact SeqFrom.cons h1 (Path.eps ⟨hs, hA, he⟩ h2) h3
    · subst h1 h2
      have hA : A (i + 1) (st (i + 1)) := hc.st_in _ h3
      exact SeqFrom.cons (u := []) h3 (Path.refl _) (ih (i + 1) h3 hA ht)
  | @sym s s' t c w he _ ih =>
    intro i hi hs ht
    have hA := hc.blk_edge i s c s' hi hs he
    cases ih i hi hA ht with
    | last h1 h2 => exact SeqFrom.last h1 (Path.sym ⟨hs, hA, he⟩ h2)
    | cons h1 h2 h3 => exact SeqFrom.cons (u := c :: _) h1 (Path.sym ⟨hs, hA, he⟩ h2) h3

/-! ### `choice`, `optional`, `many`: a fan of blocks between a fresh start and a fresh stop -/

/-- shape of `NFA::choice` after `merge_states`: fresh start `p` and stop `q`, blocks `A i` entered at `st i`
    and left only through `sp i →ε q`; `p` may also have the direct edge `p →ε q` (`many`) -/
structure Fan {σ} (g : Gr σ) (m : Nat) (p q : σ) (A : Nat → σ → Prop) (st sp : Nat → σ) : Prop where
  p_not : ∀ i, i < m → ¬ A i p
  q_not : ∀ i, i < m → ¬ A i q
  disj : ∀ i j s, i < m → j < m → A i s → A j s → i = j
  st_in : ∀ i, i < m → A i (st i)
  p_edge : ∀ c t, ¬ g.edge p c t
  p_eps : ∀ t, g.eps p t → (∃ i, i < m ∧ t = st i) ∨ t = q
  q_edge : ∀ c t, ¬ g.edge q c t
  q_eps : ∀ t, ¬ g.eps q t
  blk_edge : ∀ i s c t, i < m → A i s → g.edge s c t → A i t
  blk_eps : ∀ i s t, i < m → A i s → g.eps s t → A i t ∨ (s = sp i ∧ t = q)

theorem Fan.sink {σ} {g : Gr σ} {m p q A st sp} (hf : Fan g m p q A st sp) {s t : σ} {w}
    (h : Path g s w t) (hs : s = q) : t = q ∧ w = [] := by
  cases h with
  | refl => exact ⟨hs, rfl⟩
  | eps he _ => subst hs; exact absurd he (hf.q_eps _)
  | sym he _ => subst hs; exact absurd he (hf.q_edge _ _)

/-- a path that starts in block `i` stays there, or ends in `q` having left through `sp i` -/
theorem Fan.in_block {σ} {g : Gr σ} {m p q A st sp} (hf : Fan g m p q A st sp) {s t : σ} {w}
    (h : Path g s w t) : ∀ i, i < m → A i s →
      (A i t ∧ Path (g.inside (A i)) s w t) ∨ (t = q ∧ Path (g.inside (A i)) s w (sp i)) := by
  induction h with
  | refl s => intro i _ hs; exact Or.inl ⟨hs, Path.refl _⟩
  | @eps s s' t w he hp ih =>
    intro i hi hs
    rcases hf.blk_eps i s s' hi hs he with hA | ⟨h1, h2⟩
    · rcases ih i hi hA with ⟨h1, h2⟩ | ⟨h1, h2⟩
      · exact Or.inl ⟨h1, Path.eps ⟨hs, hA, he⟩ h2⟩
      · exact Or.inr ⟨h1, Path.eps ⟨hs, hA, he⟩ h2⟩
    · obtain ⟨h3, h4⟩ := hf.sink hp h2
      subst h1 h4
      exact Or.inr ⟨h3, Path.refl _⟩
  | @sym s s' t c w he _ ih =>
    intro i hi hs
    have hA := hf.blk_edge i s c s' hi hs he
    rcases ih i hi hA with ⟨h1, h2⟩ | ⟨h1, h2⟩
    · exact Or.inl ⟨h1, Path.sym ⟨hs, hA, he⟩ h2⟩
    · exact Or.inr ⟨h1, Path.sym ⟨hs, hA, he⟩ h2⟩

/-- the language of a fan is the union of the languages of its blocks (plus ε if `p →ε q`) -/
theorem Fan.lang {σ} {g : Gr σ} {m p q A st sp} (hf : Fan g m p q A st sp) (hpq : p ≠ q) {w}
    (h : Path g p w q) :
    (∃ i, i < m ∧ Path (g.inside (A i)) (st i) w (sp i)) ∨ (w = [] ∧ g.eps p q) := by
  cases h with
  | refl => exact absurd rfl hpq
  | sym he _ => exact absurd he (hf.p_edge _ _)
  | eps he hp =>
    rcases hf.p_eps _ he with ⟨i, hi, e⟩ | e
    · subst e
      rcases hf.in_block hp i hi (hf.st_in i hi) with ⟨h1, _⟩ | ⟨_, h2⟩
      · exact absurd h1 (hf.q_not i hi)
      · exact Or.inl ⟨i, hi, h2⟩
    · subst e
      obtain ⟨_, h2⟩ := hf.sink hp rfl
      exact Or.inr ⟨h2, he⟩

/-- the states of block `i` reachable from `p` are those reachable inside the block from its entry -/
theorem Fan.reach {σ} {g : Gr σ} {m p q A st sp} (hf : Fan g m p q A st sp) {w t}
    (h : Path g p w t) (i : Nat) (hi : i < m) (ht : A i t) : Path (g.inside (A i)) (st i) w t := by
  cases h with
  | refl => exact absurd ht (hf.p_not i hi)
  | sym he _ => exact absurd he (hf.p_edge _ _)
  | eps he hp =>
    rcases hf.p_eps _ he with ⟨j, hj, e⟩ | e
    · subst e
      rcases hf.in_block hp j hj (hf.st_in j hj) with ⟨h1, h2⟩ | ⟨h1, _⟩
      · have : j = i := hf.disj j i _ hj hi h1 ht
        subst this; exact h2
      · subst h1; exact absurd ht (hf.q_not i hi)
    · subst e
      obtain ⟨h1, _⟩ := hf.sink hp rfl
      subst h1; exact absurd ht (hf.q_not i hi)

/-! ### numbered blocks -/

/-- ids `B ≤ x < B + len` -/
def InBlk (B len x : Nat) : Prop := B ≤ x ∧ x < B + len

/-- the block `[B, B+len)` of `G` is a copy of `H` (on ids `0..len`) renumbered by `B`; besides the copied
    edges its states may only have the extra ε-edges `X` -/
structure Emb (G H : Gr Nat) (B len : Nat) (X : Nat → Nat → Prop) : Prop where
  edge_iff : ∀ k c y, k < len → (G.edge (k + B) c y ↔ ∃ y', y = y' + B ∧ H.edge k c y')
  eps_iff : ∀ k y, k < len → (G.eps (k + B) y ↔ (∃ y', y = y' + B ∧ H.eps k y') ∨ X (k + B) y)
  src_edge : ∀ k c y, H.edge k c y → k < len
  src_eps : ∀ k y, H.eps k y → k < len
  tgt_edge : ∀ k c y, H.edge k c y → y < len
  tgt_eps : ∀ k y, H.eps k y → y < len

theorem Emb.lift {G H : Gr Nat} {B len X} (he : Emb G H B len X) {s t w} (h : Path H s w t) :
    Path G (s + B) w (t + B) := by
  refine Path.map (g := H) (h := G) (· + B) ?_ ?_ h
  · intro s c t e
    exact (he.edge_iff s c (t + B) (he.src_edge _ _ _ e)).mpr ⟨t, rfl, e⟩
  · intro s t e
    exact (he.eps_iff s (t + B) (he.src_eps _ _ e)).mpr (Or.inl ⟨t, rfl, e⟩)

theorem Emb.blk_edge {G H : Gr Nat} {B len X} (he : Emb G H B len X) {s c t} (hs : InBlk B len s)
    (h : G.edge s c t) : InBlk B len t := by
  obtain ⟨h1, h2⟩ := hs
  have := (he.edge_iff (s - B) c t (by omega))
  rw [show s - B + B = s by omega] at this
  obtain ⟨y', e, h3⟩ := this.mp h
  have := he.tgt_edge _ _ _ h3
  unfold InBlk; omega

theorem Emb.blk_eps {G H : Gr Nat} {B len X} (he : Emb G H B len X) {s t} (hs : InBlk B len s)
    (h : G.eps s t) : InBlk B len t ∨ X s t := by
  obtain ⟨h1, h2⟩ := hs
  have := (he.eps_iff (s - B) t (by omega))
  rw [show s - B + B = s by omega] at this
  rcases this.mp h with ⟨y', e, h3⟩ | h3
  · have := he.tgt_eps _ _ h3
    left; unfold InBlk; omega
  · exact Or.inr h3

/-- a path that stays in the block and uses no extra edge is a path of the operand -/
theorem Emb.unlift {G H : Gr Nat} {B len X} (he : Emb G H B len X)
    (hX : ∀ x y, X x y → InBlk B len x → ¬ InBlk B len y) {s t w}
    (h : Path (G.inside (InBlk B len)) s w t) : Path H (s - B) w (t - B) := by
  refine Path.map (g := G.inside (InBlk B len)) (h := H) (· - B) ?_ ?_ h
  · rintro s c t ⟨hs, ht, e⟩
    obtain ⟨h1, h2⟩ := hs
    have := (he.edge_iff (s - B) c t (by omega))
    rw [show s - B + B = s by omega] at this
    obtain ⟨y', e', h3⟩ := this.mp e
    subst e'
    simpa using h3
  · rintro s t ⟨hs, ht, e⟩
    have hs' := hs
    obtain ⟨h1, h2⟩ := hs
    have := (he.eps_iff (s - B) t (by omega))
    rw [show s - B + B = s by omega] at this
    rcases this.mp e with ⟨y', e', h3⟩ | h3
    · subst e'
      simpa using h3
    · exact absurd ht (hX _ _ h3 hs')

/-- an extra edge between two states of the block can be counted as an edge of the operand -/
theorem Emb.absorb {G H : Gr Nat} {B len : Nat} {X X' : Nat → Nat → Prop} (he : Emb G H B len X) (a b : Nat)
    (ha : a < len) (hb : b < len) (hX : ∀ x y, X x y ↔ X' x y ∨ (x = a + B ∧ y = b + B)) :
    Emb G (H.addEps a b) B len X' where
  edge_iff := he.edge_iff
  eps_iff := by
    intro k y hk
    rw [he.eps_iff k y hk, hX]
    constructor
    · rintro (⟨y', h1, h2⟩ | h | ⟨h1, h2⟩)
      · exact Or.inl ⟨y', h1, Or.inl h2⟩
      · exact Or.inr h
      · exact Or.inl ⟨b, h2, Or.inr ⟨by omega, rfl⟩⟩
    · rintro (⟨y', h1, h2 | ⟨h2, h3⟩⟩ | h)
      · exact Or.inl ⟨y', h1, h2⟩
      · subst h2 h3; exact Or.inr (Or.inr ⟨rfl, h1⟩)
      · exact Or.inr (Or.inl h)
  src_edge := he.src_edge
  src_eps := by
    rintro k y (h | ⟨h, _⟩)
    · exact he.src_eps k y h
    · omega
  tgt_edge := he.tgt_edge
  tgt_eps := by
    rintro k y (h | ⟨_, h⟩)
    · exact he.tgt_eps k y h
    · omega

end SurfProofs.Graph
