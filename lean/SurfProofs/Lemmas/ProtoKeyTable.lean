import SurfModel.NamingTable
/-! C04: facts about the literal key table regenerated from the implementation
(`SurfModel.Generated.keyTable`), re-checked by kernel evaluation whenever the table changes:
the naming table of the protocol side (`protoKeys`) is contained in it with the same keys, the table is
functional (equal bytes ⇒ equal key), key codes decode back, and the shape of its byte strings. -/
namespace SurfProofs.ProtoKeyTable
open SurfModel SurfModel.Grammar SurfModel.Protocol

/-- the tag the key table attaches to a byte string (first entry with these bytes) -/
def keyLookup (w : List Nat) : Option Nat :=
  (Generated.keyTable.find? fun e => e.1 == w).map fun e => keyCode3 e.2.1 e.2.2.1 e.2.2.2

/-- shape of the byte strings of literal keys: a single control byte, ESC + one byte, or an ESC-introduced
    sequence of at most 7 bytes ending in `~` or one of `A B C D F H P Q R S` -/
def keyShape (w : List Nat) : Bool :=
  match w with
  | [] => false
  | [b] => b < 32 || b == 127
  | [27, _] => true
  | _ => w.length ≤ 7 && w.head? == some 27 &&
      [126, 65, 66, 67, 68, 70, 72, 80, 81, 82, 83].contains (w.getLast?.getD 0)

/-- literal keys that end in `R`: `ESC R`, `SS3 R`, `CSI R`, `CSI 1 ; d R` with `d` in `2..8` -/
def keyRShape (w : List Nat) : Bool :=
  w == [27, 82] || w == [27, 79, 82] || w == [27, 91, 82] ||
    (w.length == 6 && w.take 4 == [27, 91, 49, 59] && 50 ≤ w.getD 4 0 && w.getD 4 0 ≤ 56)

set_option maxRecDepth 100000 in
theorem protoKeys_length : protoKeys.length = 395 := by decide

set_option maxRecDepth 100000 in
/-- every spelling of the naming table is in the implementation's table, with the same key -/
theorem protoKeys_lookup : protoKeys.all (fun p => keyLookup p.1 == some p.2.code) = true := by decide +kernel

set_option maxRecDepth 100000 in
/-- every entry of the implementation's table is a spelling of the naming table, with the same key -/
theorem keyTable_in_proto :
    Generated.keyTable.all (fun e => protoKeys.any fun p => p.1 == e.1 && p.2.code == keyCode3 e.2.1 e.2.2.1 e.2.2.2) = true := by
  decide +kernel

set_option maxRecDepth 100000 in
/-- equal bytes carry equal keys -/
theorem keyTable_functional :
    Generated.keyTable.all (fun e => keyLookup e.1 == some (keyCode3 e.2.1 e.2.2.1 e.2.2.2)) = true := by
  decide +kernel

set_option maxRecDepth 100000 in
theorem protoKeys_ofCode : protoKeys.all (fun p => Key.ofCode p.2.code == some p.2) = true := by decide +kernel

set_option maxRecDepth 100000 in
theorem keyTable_codes_small :
    Generated.keyTable.all (fun e => decide (keyCode3 e.2.1 e.2.2.1 e.2.2.2 < matcherBase)) = true := by decide +kernel

set_option maxRecDepth 100000 in
theorem keyTable_shape : Generated.keyTable.all (fun e => keyShape e.1) = true := by decide +kernel

set_option maxRecDepth 100000 in
theorem keyTable_R :
    Generated.keyTable.all (fun e => !(e.1.getLast? == some 82) || keyRShape e.1) = true := by decide +kernel

set_option maxRecDepth 100000 in
theorem keyTable_bytes : Generated.keyTable.all (fun e => e.1.all (· < 128)) = true := by decide +kernel

end SurfProofs.ProtoKeyTable
