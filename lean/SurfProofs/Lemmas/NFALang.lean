import SurfProofs.Lemmas.NFAGraph
namespace SurfProofs.NFALang
open SurfModel.Automata SurfProofs.Graph SurfProofs.NFASem SurfProofs.NFAGraph

/-! ### well-formedness through the graph -/

theorem wfs_iff (sts : List NState) :
    WFs sts ↔ (∀ s c t, (gr sts).edge s c t → t < sts.length) ∧ (∀ s t, (gr sts).eps s t → t < sts.length) := by
  constructor
  · intro h
    exact ⟨fun s c t he => h.edge he, fun s t he => h.eps he⟩
  · rintro ⟨h1, h2⟩ s st hs
    exact ⟨fun p hp => h1 s p.1 p.2 ⟨st, hs, hp⟩, fun t ht => h2 s t ⟨st, hs, ht⟩⟩

/-- a state without outgoing edges is the end of every path that starts there -/
theorem path_stuck {g : Gr Nat} {s t : Nat} {w} (h : Path g s w t) (he : ∀ c y, ¬ g.edge s c y)
    (hp : ∀ y, ¬ g.eps s y) : t = s ∧ w = [] := by
  cases h with
  | refl => exact ⟨rfl, rfl⟩
  | eps h1 _ => exact absurd h1 (hp _)
  | sym h1 _ => exact absurd h1 (he _ _)

/-! ### the four basic automata -/

theorem empty_wf : WF NFA.empty := by
  refine ⟨by simp [NFA.empty], by simp [NFA.empty], ?_⟩
  intro s st h
  have : st = NState.new := by
    cases s with
    | zero => simpa [NFA.empty] using h.symm
    | succ s => simp [NFA.empty] at h
  subst this; simp [NState.new]

theorem empty_lang (w : List UInt8) : Lang NFA.empty w ↔ w = [] := by
  unfold Lang Reach
  constructor
  · intro h
    refine (path_stuck h ?_ ?_).2
    · rintro c y ⟨st, h1, h2⟩; simp [NFA.empty, NState.new] at h1; subst h1; simp at h2
    · rintro y ⟨st, h1, h2⟩; simp [NFA.empty, NState.new] at h1; subst h1; simp at h2
  · rintro rfl; exact Path.refl _

theorem nothing_wf : WF NFA.nothing := by
  refine ⟨by simp [NFA.nothing], by simp [NFA.nothing], ?_⟩
  intro s st h
  have : st = NState.new := by
    match s, h with
    | 0, h => simpa [NFA.nothing] using h.symm
    | 1, h => simpa [NFA.nothing] using h.symm
    | s + 2, h => simp [NFA.nothing] at h
  subst this; simp [NState.new]

theorem nothing_lang (w : List UInt8) : ¬ Lang NFA.nothing w := by
  unfold Lang Reach
  intro h
  have := (path_stuck h ?_ ?_).1
  · simp [NFA.nothing] at this
  · rintro c y ⟨st, h1, h2⟩; simp [NFA.nothing, NState.new] at h1; subst h1; simp at h2
  · rintro y ⟨st, h1, h2⟩; simp [NFA.nothing, NState.new] at h1; subst h1; simp at h2

theorem mem_allBytes (b : UInt8) : b ∈ NFA.allBytes := by
  unfold NFA.allBytes
  refine List.mem_map.mpr ⟨b.toNat, List.mem_range.mpr b.toNat_lt, by simp⟩

theorem predicate_wf (rs) : WF (NFA.predicate rs) := by
  refine ⟨by simp [NFA.predicate], by simp [NFA.predicate], ?_⟩
  intro s st h
  match s, h with
  | 0, h =>
    simp [NFA.predicate] at h; subst h
    simp only [List.mem_map, List.mem_filter]
    refine ⟨?_, by simp⟩
    rintro p ⟨b, _, rfl⟩
    simp [NFA.predicate]
  | 1, h => simp [NFA.predicate] at h; subst h; simp [NState.new]
  | s + 2, h => simp [NFA.predicate] at h

theorem predicate_lang (rs) (w : List UInt8) :
    Lang (NFA.predicate rs) w ↔ ∃ b, w = [b] ∧ inRanges rs b = true := by
  unfold Lang Reach
  have stuck1 : ∀ {t w}, Path (gr (NFA.predicate rs).states) 1 w t → t = 1 ∧ w = [] := by
    intro t w h
    refine path_stuck h ?_ ?_
    · rintro c y ⟨st, h1, h2⟩; simp [NFA.predicate, NState.new] at h1; subst h1; simp at h2
    · rintro y ⟨st, h1, h2⟩; simp [NFA.predicate, NState.new] at h1; subst h1; simp at h2
  constructor
  · intro h
    cases h with
    | eps h1 _ =>
      obtain ⟨st, h1, h2⟩ := h1
      simp [NFA.predicate] at h1; subst h1; simp at h2
    | sym h1 h2 =>
      obtain ⟨st, h3, h4⟩ := h1
      simp [NFA.predicate] at h3; subst h3
      simp only [List.mem_map, List.mem_filter, Prod.mk.injEq] at h4
      obtain ⟨b', ⟨_, h5⟩, h6, h7⟩ := h4
      subst h6 h7
      obtain ⟨_, h8⟩ := stuck1 h2
      subst h8
      exact ⟨_, rfl, h5⟩
  · rintro ⟨b, rfl, hb⟩
    refine Path.sym ⟨_, by simp [NFA.predicate]; rfl, ?_⟩ (Path.refl _)
    simp only [List.mem_map, List.mem_filter, Prod.mk.injEq]
    exact ⟨b, ⟨mem_allBytes b, hb⟩, rfl, rfl⟩

/-! ### `From<&str>` -/

theorem strStates_get (s : List UInt8) (i k : Nat) :
    (NFA.strStates s i)[k]? =
      if h : k < s.length then some { edges := [(s[k], i + k + 1)], eps := [], tag := none }
      else if k = s.length then some NState.new else none := by
  induction s generalizing i k with
  | nil =>
    cases k <;> simp [NFA.strStates]
  | cons b bs ih =>
    cases k with
    | zero => simp [NFA.strStates]
    | succ k =>
      simp only [NFA.strStates, List.getElem?_cons_succ, ih, List.length_cons, Nat.add_lt_add_iff_right,
        List.getElem_cons_succ, Nat.add_right_cancel_iff]
      split
      · congr 4; omega
      · rfl

theorem length_strStates (s : List UInt8) (i : Nat) : (NFA.strStates s i).length = s.length + 1 := by
  induction s generalizing i with
  | nil => simp [NFA.strStates]
  | cons b bs ih => simp [NFA.strStates, ih]

theorem ofStr_edge (s : List UInt8) (x : Nat) (c : UInt8) (y : Nat) :
    (gr (NFA.ofStr s).states).edge x c y ↔ s[x]? = some c ∧ y = x + 1 := by
  simp only [gr, NFA.ofStr, strStates_get]
  by_cases h : x < s.length
  · simp [h]
    intro _
    exact eq_comm
  · have : s[x]? = none := List.getElem?_eq_none (by omega)
    simp only [h, dite_false, this]
    split <;> simp [NState.new]

theorem ofStr_eps (s : List UInt8) (x y : Nat) : ¬ (gr (NFA.ofStr s).states).eps x y := by
  simp only [gr, NFA.ofStr, strStates_get]
  by_cases h : x < s.length
  · simp [h]
  · simp only [h, dite_false]
    split <;> simp [NState.new]

theorem ofStr_wf (s : List UInt8) : WF (NFA.ofStr s) := by
  refine ⟨by simp [NFA.ofStr, length_strStates], by simp [NFA.ofStr, length_strStates], ?_⟩
  rw [wfs_iff]
  constructor
  · intro x c y h
    have h' := (ofStr_edge s x c y).mp h
    have : x < s.length := by
      rcases Nat.lt_or_ge x s.length with h | h
      · exact h
      · rw [List.getElem?_eq_none h] at h'; cases h'.1
    simp [NFA.ofStr, length_strStates]; omega
  · intro x y h
    exact absurd h (ofStr_eps s x y)

theorem ofStr_path (s : List UInt8) {x t : Nat} {w} (h : Path (gr (NFA.ofStr s).states) x w t) :
    t = x + w.length ∧ (t = s.length → w = s.drop x) := by
  induction h with
  | refl x =>
    refine ⟨rfl, fun h => ?_⟩
    subst h; simp
  | eps h1 _ _ => exact absurd h1 (ofStr_eps _ _ _)
  | @sym x x' t c w h1 _ ih =>
    obtain ⟨h2, h3⟩ := (ofStr_edge _ _ _ _).mp h1
    subst h3
    refine ⟨by simp; omega, fun h => ?_⟩
    have hx : x < s.length := by
      rcases Nat.lt_or_ge x s.length with h | h
      · exact h
      · rw [List.getElem?_eq_none h] at h2; cases h2
    rw [List.drop_eq_getElem_cons hx, ih.2 h]
    congr 1
    rw [List.getElem?_eq_getElem hx] at h2
    exact (Option.some.inj h2).symm

theorem ofStr_lang (s w : List UInt8) : Lang (NFA.ofStr s) w ↔ w = s := by
  unfold Lang Reach
  constructor
  · intro h
    have := (ofStr_path s h).2 rfl
    simpa [NFA.ofStr] using this
  · rintro rfl
    have key : ∀ d x, x + d = w.length → Path (gr (NFA.ofStr w).states) x (w.drop x) w.length := by
      intro d
      induction d with
      | zero =>
        intro x hx
        have : x = w.length := by omega
        subst this; simpa using Path.refl _
      | succ d ih =>
        intro x hx
        have hlt : x < w.length := by omega
        rw [List.drop_eq_getElem_cons hlt]
        exact Path.sym ((ofStr_edge _ _ _ _).mpr ⟨by simp [hlt], rfl⟩) (ih (x + 1) (by omega))
    simpa [NFA.ofStr] using key w.length 0 (by simp)


/-! ### `sequence` -/

/-- renumbered start / stop of operand `i` -/
def stOf (off : Nat) (ns : List NFA) (i : Nat) : Nat := ((ns[i]?).map (·.start)).getD 0 + (off + base ns i)
def spOf (off : Nat) (ns : List NFA) (i : Nat) : Nat := ((ns[i]?).map (·.stop)).getD 0 + (off + base ns i)

theorem ends_get (ns : List NFA) (off i : Nat) (hi : i < ns.length) :
    (NFA.mergeStates ns off).2[i]? = some (stOf off ns i, spOf off ns i) := by
  rw [merge_ends]
  simp [stOf, spOf, List.getElem?_eq_getElem hi]

theorem ends_get_some (ns : List NFA) (off i : Nat) (a : Nat × Nat) (h : (NFA.mergeStates ns off).2[i]? = some a) :
    i < ns.length ∧ a = (stOf off ns i, spOf off ns i) := by
  have hi : i < ns.length := by
    rcases Nat.lt_or_ge i ns.length with h' | h'
    · exact h'
    · rw [List.getElem?_eq_none (by rw [length_merge_ends]; exact h')] at h; cases h
  rw [ends_get ns off i hi] at h
  exact ⟨hi, (Option.some.inj h).symm⟩

theorem mem_bridges (ends : List (Nat × Nat)) (x y : Nat) :
    (x, y) ∈ NFA.bridges ends ↔ ∃ i a b, ends[i]? = some a ∧ ends[i + 1]? = some b ∧ x = a.2 ∧ y = b.1 := by
  induction ends with
  | nil => simp [NFA.bridges]
  | cons a rest ih =>
    cases rest with
    | nil =>
      simp only [NFA.bridges, List.not_mem_nil, false_iff]
      rintro ⟨i, a', b, _, h2, _⟩
      simp at h2
    | cons b rest =>
      simp only [NFA.bridges, List.mem_cons, Prod.mk.injEq, ih]
      constructor
      · rintro (⟨h1, h2⟩ | ⟨i, a', b', h1, h2, h3, h4⟩)
        · exact ⟨0, a, b, rfl, rfl, h1, h2⟩
        · exact ⟨i + 1, a', b', h1, h2, h3, h4⟩
      · rintro ⟨i, a', b', h1, h2, h3, h4⟩
        cases i with
        | zero =>
          simp at h1 h2; subst h1 h2
          exact Or.inl ⟨h3, h4⟩
        | succ i => exact Or.inr ⟨i, a', b', h1, h2, h3, h4⟩

theorem blk_st (off : Nat) (ns : List NFA) (hwf : ∀ n ∈ ns, WF n) (i : Nat) (hi : i < ns.length) :
    Blk off ns i (stOf off ns i) := by
  refine ⟨ns[i], List.getElem?_eq_getElem hi, ?_⟩
  have := (hwf ns[i] (List.getElem_mem hi)).start
  simp [stOf, List.getElem?_eq_getElem hi, InBlk]; omega

theorem blk_sp (off : Nat) (ns : List NFA) (hwf : ∀ n ∈ ns, WF n) (i : Nat) (hi : i < ns.length) :
    Blk off ns i (spOf off ns i) := by
  refine ⟨ns[i], List.getElem?_eq_getElem hi, ?_⟩
  have := (hwf ns[i] (List.getElem_mem hi)).stop
  simp [spOf, List.getElem?_eq_getElem hi, InBlk]; omega

/-- the states of a non-empty `sequence` -/
theorem sequence_eq (m : NFA) (rest : List NFA) :
    NFA.sequence (m :: rest) =
      { start := stOf 0 (m :: rest) 0, stop := spOf 0 (m :: rest) rest.length
        states := assemble [] (m :: rest) (NFA.bridges (NFA.mergeStates (m :: rest) 0).2) } := by
  have hlast : ∀ (e : Nat × Nat) (es : List (Nat × Nat)), (es.getLast?).getD e = ((e :: es)[es.length]?).getD e := by
    intro e es
    have := List.getLast?_cons (a := e) (l := es)
    rw [List.getLast?_eq_getElem?] at this
    simp at this
    rw [← this, List.getElem?_eq_getElem (by simp)]; simp
  simp only [NFA.sequence, NFA.mergeStates, assemble, List.length_nil, List.nil_append]
  congr 1
  · rw [hlast]
    have h2 := ends_get (m :: rest) 0 rest.length (by simp)
    simp only [NFA.mergeStates] at h2
    simp only [Nat.add_zero, Nat.zero_add] at h2 ⊢
    rw [length_merge_ends, h2]; rfl

/-- languages concatenated in order -/
inductive SeqLang : List NFA → List UInt8 → Prop
  | nil : SeqLang [] []
  | cons {n ns u v} : Lang n u → SeqLang ns v → SeqLang (n :: ns) (u ++ v)

theorem sequence_chain (ns : List NFA) (hwf : ∀ n ∈ ns, WF n) (extra : List (Nat × Nat))
    (hextra : ∀ x y, (x, y) ∈ extra ↔ ∃ i, i + 1 < ns.length ∧ x = spOf 0 ns i ∧ y = stOf 0 ns (i + 1)) :
    Chain (gr (assemble [] ns extra)) ns.length (Blk 0 ns) (stOf 0 ns) (spOf 0 ns) where
  disj := fun i j s _ _ hi hj => blk_disj 0 ns i j s hi hj
  st_in := fun i hi => blk_st 0 ns hwf i hi
  blk_edge := by
    rintro i s c t hi ⟨n, h1, h2⟩ he
    have emb := emb_assemble [] ns extra i n h1 (hwf n (List.mem_of_getElem? h1)).states
    have := emb.blk_edge (by simpa using h2) he
    exact ⟨n, h1, by simpa using this⟩
  blk_eps := by
    rintro i s t hi ⟨n, h1, h2⟩ he
    have emb := emb_assemble [] ns extra i n h1 (hwf n (List.mem_of_getElem? h1)).states
    rcases emb.blk_eps (by simpa using h2) he with h | h
    · exact Or.inl ⟨n, h1, by simpa using h⟩
    · obtain ⟨j, hj, e1, e2⟩ := (hextra s t).mp h
      have : i = j := blk_disj 0 ns i j s ⟨n, h1, h2⟩ (e1 ▸ blk_sp 0 ns hwf j (by omega))
      subst this
      exact Or.inr ⟨e1, e2, hj⟩


theorem blk_iff (off : Nat) (ns : List NFA) (i : Nat) (n : NFA) (h : ns[i]? = some n) (x : Nat) :
    Blk off ns i x ↔ InBlk (off + base ns i) n.states.length x := by
  constructor
  · rintro ⟨n', h1, h2⟩
    rw [h] at h1; cases h1; exact h2
  · intro h2; exact ⟨n, h, h2⟩

/-- a path inside the block of operand `i` that uses no extra edge is a path of the operand -/
theorem seg_unlift (pre : List NState) (ns : List NFA) (extra : List (Nat × Nat)) (i : Nat) (n : NFA)
    (h : ns[i]? = some n) (hwf : WF n)
    (hX : ∀ x y, (x, y) ∈ extra → Blk pre.length ns i x → ¬ Blk pre.length ns i y) {s t : Nat} {w}
    (p : Path ((gr (assemble pre ns extra)).inside (Blk pre.length ns i)) s w t) :
    Path (gr n.states) (s - (pre.length + base ns i)) w (t - (pre.length + base ns i)) := by
  have emb := emb_assemble pre ns extra i n h hwf.states
  refine emb.unlift ?_ (Path.mono (g := (gr (assemble pre ns extra)).inside (Blk pre.length ns i)) ?_ ?_ p)
  · intro x y hxy hx hy
    exact hX x y hxy ((blk_iff _ ns i n h x).mpr hx) ((blk_iff _ ns i n h y).mpr hy)
  · rintro s c t ⟨h1, h2, h3⟩
    exact ⟨(blk_iff _ ns i n h s).mp h1, (blk_iff _ ns i n h t).mp h2, h3⟩
  · rintro s t ⟨h1, h2, h3⟩
    exact ⟨(blk_iff _ ns i n h s).mp h1, (blk_iff _ ns i n h t).mp h2, h3⟩

theorem seg_lift (pre : List NState) (ns : List NFA) (extra : List (Nat × Nat)) (i : Nat) (n : NFA)
    (h : ns[i]? = some n) (hwf : WF n) {s t : Nat} {w} (p : Path (gr n.states) s w t) :
    Path (gr (assemble pre ns extra)) (s + (pre.length + base ns i)) w (t + (pre.length + base ns i)) :=
  (emb_assemble pre ns extra i n h hwf.states).lift p

theorem stOf_eq (off : Nat) (ns : List NFA) (i : Nat) (n : NFA) (h : ns[i]? = some n) :
    stOf off ns i = n.start + (off + base ns i) := by simp [stOf, h]

theorem spOf_eq (off : Nat) (ns : List NFA) (i : Nat) (n : NFA) (h : ns[i]? = some n) :
    spOf off ns i = n.stop + (off + base ns i) := by simp [spOf, h]

/-- an extra edge from a stop to a start of another operand leaves the block -/
theorem bridge_leaves (ns : List NFA) (hwf : ∀ n ∈ ns, WF n) (extra : List (Nat × Nat))
    (hextra : ∀ x y, (x, y) ∈ extra ↔ ∃ i, i + 1 < ns.length ∧ x = spOf 0 ns i ∧ y = stOf 0 ns (i + 1))
    (i : Nat) (x y : Nat) (h : (x, y) ∈ extra) (hx : Blk 0 ns i x) : ¬ Blk 0 ns i y := by
  intro hy
  obtain ⟨j, hj, e1, e2⟩ := (hextra x y).mp h
  have h1 : i = j := blk_disj 0 ns i j x hx (e1 ▸ blk_sp 0 ns hwf j (by omega))
  have h2 : i = j + 1 := blk_disj 0 ns i (j + 1) y hy (e2 ▸ blk_st 0 ns hwf (j + 1) hj)
  omega

theorem seqFrom_lang (ns : List NFA) (hwf : ∀ n ∈ ns, WF n) (extra : List (Nat × Nat))
    (hextra : ∀ x y, (x, y) ∈ extra ↔ ∃ i, i + 1 < ns.length ∧ x = spOf 0 ns i ∧ y = stOf 0 ns (i + 1))
    {i s w t}
    (h : SeqFrom (fun i s u t => Path ((gr (assemble [] ns extra)).inside (Blk 0 ns i)) s u t)
      (stOf 0 ns) (spOf 0 ns) ns.length i s w t) :
    s = stOf 0 ns i → t = spOf 0 ns (ns.length - 1) → SeqLang (ns.drop i) w := by
  induction h with
  | @last i s w t hi hp =>
    intro hs ht
    have hlt : i < ns.length := by omega
    have hn : ns[i]? = some ns[i] := List.getElem?_eq_getElem hlt
    have hw := hwf ns[i] (List.getElem_mem hlt)
    have := seg_unlift [] ns extra i ns[i] hn hw (bridge_leaves ns hwf extra hextra i) hp
    rw [hs, ht, show ns.length - 1 = i by omega, stOf_eq 0 ns i _ hn, spOf_eq 0 ns i _ hn] at this
    simp only [List.length_nil, Nat.add_sub_cancel] at this
    rw [List.drop_eq_getElem_cons hlt, List.drop_of_length_le (by omega)]
    simpa using SeqLang.cons (n := ns[i]) this SeqLang.nil
  | @cons i s u v t hi hp _ ih =>
    intro hs ht
    have hlt : i < ns.length := by omega
    have hn : ns[i]? = some ns[i] := List.getElem?_eq_getElem hlt
    have hw := hwf ns[i] (List.getElem_mem hlt)
    have := seg_unlift [] ns extra i ns[i] hn hw (bridge_leaves ns hwf extra hextra i) hp
    rw [hs, stOf_eq 0 ns i _ hn, spOf_eq 0 ns i _ hn] at this
    simp only [List.length_nil, Nat.add_sub_cancel] at this
    rw [List.drop_eq_getElem_cons hlt]
    exact SeqLang.cons this (ih rfl ht)

theorem lang_path (ns : List NFA) (hwf : ∀ n ∈ ns, WF n) (extra : List (Nat × Nat))
    (hextra : ∀ x y, (x, y) ∈ extra ↔ ∃ i, i + 1 < ns.length ∧ x = spOf 0 ns i ∧ y = stOf 0 ns (i + 1)) :
    ∀ d i w, i + d + 1 = ns.length → SeqLang (ns.drop i) w →
      Path (gr (assemble [] ns extra)) (stOf 0 ns i) w (spOf 0 ns (ns.length - 1)) := by
  intro d
  induction d with
  | zero =>
    intro i w hi h
    have hlt : i < ns.length := by omega
    have hn : ns[i]? = some ns[i] := List.getElem?_eq_getElem hlt
    have hw := hwf ns[i] (List.getElem_mem hlt)
    rw [List.drop_eq_getElem_cons hlt, List.drop_of_length_le (by omega)] at h
    cases h with
    | cons hu hv =>
      cases hv
      have := seg_lift [] ns extra i ns[i] hn hw hu
      rw [show ns.length - 1 = i by omega, stOf_eq 0 ns i _ hn, spOf_eq 0 ns i _ hn]
      simpa using this
  | succ d ih =>
    intro i w hi h
    have hlt : i < ns.length := by omega
    have hn : ns[i]? = some ns[i] := List.getElem?_eq_getElem hlt
    have hw := hwf ns[i] (List.getElem_mem hlt)
    rw [List.drop_eq_getElem_cons hlt] at h
    cases h with
    | cons hu hv =>
      have p1 := seg_lift [] ns extra i ns[i] hn hw hu
      have p2 := ih (i + 1) _ (by omega) hv
      have emb := emb_assemble [] ns extra i ns[i] hn hw.states
      have hb : (gr (assemble [] ns extra)).eps (spOf 0 ns i) (stOf 0 ns (i + 1)) := by
        rw [spOf_eq 0 ns i _ hn]
        refine (emb.eps_iff _ _ hw.stop).mpr (Or.inr ?_)
        refine (hextra _ _).mpr ⟨i, by omega, ?_, rfl⟩
        rw [spOf_eq 0 ns i _ hn]; simp
      rw [stOf_eq 0 ns i _ hn]
      rw [spOf_eq 0 ns i _ hn] at hb
      simp only [List.length_nil] at p1
      exact p1.trans (Path.eps hb p2)

theorem bridges_spec (ns : List NFA) (x y : Nat) :
    (x, y) ∈ NFA.bridges (NFA.mergeStates ns 0).2 ↔
      ∃ i, i + 1 < ns.length ∧ x = spOf 0 ns i ∧ y = stOf 0 ns (i + 1) := by
  rw [mem_bridges]
  constructor
  · rintro ⟨i, a, b, h1, h2, h3, h4⟩
    obtain ⟨_, ha⟩ := ends_get_some ns 0 i a h1
    obtain ⟨hi, hb⟩ := ends_get_some ns 0 (i + 1) b h2
    subst ha hb
    exact ⟨i, hi, h3, h4⟩
  · rintro ⟨i, hi, h1, h2⟩
    exact ⟨i, _, _, ends_get ns 0 i (by omega), ends_get ns 0 (i + 1) hi, h1, h2⟩

/-- C15, `sequence`: the language is the concatenation of the operands' languages, in order -/
theorem sequence_lang (ns : List NFA) (hwf : ∀ n ∈ ns, WF n) (w : List UInt8) :
    Lang (NFA.sequence ns) w ↔ SeqLang ns w := by
  cases ns with
  | nil =>
    have : NFA.sequence [] = NFA.empty := rfl
    rw [this, empty_lang]
    constructor
    · rintro rfl; exact SeqLang.nil
    · intro h; cases h; rfl
  | cons m rest =>
    have hex := bridges_spec (m :: rest)
    unfold Lang Reach
    rw [sequence_eq]
    simp only
    constructor
    · intro h
      have hc := sequence_chain (m :: rest) hwf _ hex
      have := hc.split h 0 (by simp) (blk_st 0 _ hwf 0 (by simp)) (by simpa using blk_sp 0 _ hwf rest.length (by simp))
      simpa using seqFrom_lang (m :: rest) hwf _ hex this rfl (by simp)
    · intro h
      simpa using lang_path (m :: rest) hwf _ hex rest.length 0 w (by simp) (by simpa using h)


/-! ### well-formedness of assembled automata -/

theorem assemble_wfs (pre : List NState) (ns : List NFA) (extra : List (Nat × Nat)) (hwf : ∀ n ∈ ns, WF n)
    (hpe : ∀ x c y, (gr pre).edge x c y → y < pre.length + total ns)
    (hpp : ∀ x y, (gr pre).eps x y → y < pre.length + total ns)
    (hextra : ∀ p ∈ extra, p.2 < pre.length + total ns) : WFs (assemble pre ns extra) := by
  rw [wfs_iff]
  have blk : ∀ s, s < (assemble pre ns extra).length → ¬ s < pre.length →
      ∃ i n, ns[i]? = some n ∧ InBlk (pre.length + base ns i) n.states.length s := by
    intro s hs hp
    obtain ⟨i, n, h1, h2, h3⟩ := cover ns (s - pre.length) (by simp at hs; omega)
    exact ⟨i, n, h1, by unfold InBlk; omega⟩
  constructor
  · intro s c t he
    have hs := gr_edge_lt he
    by_cases hp : s < pre.length
    · simpa using hpe _ _ _ ((assemble_pre_edge pre ns extra s hp c t).mp he)
    · obtain ⟨i, n, h1, h2⟩ := blk s hs hp
      have := (emb_assemble pre ns extra i n h1 (hwf n (List.mem_of_getElem? h1)).states).blk_edge h2 he
      have := base_add_le ns i n h1
      unfold InBlk at *; simp; omega
  · intro s t he
    have hs := gr_eps_lt he
    by_cases hp : s < pre.length
    · rcases (assemble_pre_eps pre ns extra s hp t).mp he with h | h
      · simpa using hpp _ _ h
      · simpa using hextra _ h
    · obtain ⟨i, n, h1, h2⟩ := blk s hs hp
      rcases (emb_assemble pre ns extra i n h1 (hwf n (List.mem_of_getElem? h1)).states).blk_eps h2 he with h | h
      · have := base_add_le ns i n h1
        unfold InBlk at *; simp; omega
      · simpa using hextra _ h

theorem stOf_lt (off : Nat) (ns : List NFA) (hwf : ∀ n ∈ ns, WF n) (i : Nat) (hi : i < ns.length) :
    off ≤ stOf off ns i ∧ stOf off ns i < off + total ns := blk_ge off ns i _ (blk_st off ns hwf i hi)

theorem spOf_lt (off : Nat) (ns : List NFA) (hwf : ∀ n ∈ ns, WF n) (i : Nat) (hi : i < ns.length) :
    off ≤ spOf off ns i ∧ spOf off ns i < off + total ns := blk_ge off ns i _ (blk_sp off ns hwf i hi)

theorem sequence_wf (ns : List NFA) (hwf : ∀ n ∈ ns, WF n) : WF (NFA.sequence ns) := by
  cases ns with
  | nil => exact empty_wf
  | cons m rest =>
    rw [sequence_eq]
    refine ⟨?_, ?_, ?_⟩
    · simpa using (stOf_lt 0 _ hwf 0 (by simp)).2
    · simpa using (spOf_lt 0 _ hwf rest.length (by simp)).2
    · refine assemble_wfs [] _ _ hwf ?_ ?_ ?_
      · rintro x c y ⟨st, h, _⟩; simp at h
      · rintro x y ⟨st, h, _⟩; simp at h
      · rintro ⟨x, y⟩ hp
        obtain ⟨i, hi, _, e⟩ := (bridges_spec _ x y).mp hp
        simpa [e] using (stOf_lt 0 _ hwf (i + 1) hi).2


/-! ### `choice` (and with it `optional`, `many`): fans -/

/-- a graph on numbered states that consists of a fresh start `0`, a fresh stop `1` and renumbered copies
    (from id `2`) of graphs `H i`, one per operand, each left only through `stop i →ε 1` -/
theorem fan_of_emb (G : Gr Nat) (ns : List NFA) (H : Nat → Gr Nat) (X : Nat → Nat → Prop)
    (hwf : ∀ n ∈ ns, WF n)
    (emb : ∀ i n, ns[i]? = some n → Emb G (H i) (2 + base ns i) n.states.length X)
    (hX : ∀ x y, X x y → ∃ i, i < ns.length ∧ x = spOf 2 ns i ∧ y = 1)
    (h0e : ∀ c t, ¬ G.edge 0 c t)
    (h0 : ∀ t, G.eps 0 t → (∃ i, i < ns.length ∧ t = stOf 2 ns i) ∨ t = 1)
    (h1e : ∀ c t, ¬ G.edge 1 c t) (h1 : ∀ t, ¬ G.eps 1 t) :
    Fan G ns.length 0 1 (Blk 2 ns) (stOf 2 ns) (spOf 2 ns) where
  p_not := fun i _ h => by have := (blk_ge 2 ns i 0 h).1; omega
  q_not := fun i _ h => by have := (blk_ge 2 ns i 1 h).1; omega
  disj := fun i j s _ _ hi hj => blk_disj 2 ns i j s hi hj
  st_in := fun i hi => blk_st 2 ns hwf i hi
  p_edge := h0e
  p_eps := h0
  q_edge := h1e
  q_eps := h1
  blk_edge := by
    rintro i s c t hi ⟨n, hn, h2⟩ he
    exact ⟨n, hn, (emb i n hn).blk_edge h2 he⟩
  blk_eps := by
    rintro i s t hi ⟨n, hn, h2⟩ he
    rcases (emb i n hn).blk_eps h2 he with h | h
    · exact Or.inl ⟨n, hn, h⟩
    · obtain ⟨j, hj, e1, e2⟩ := hX s t h
      have : i = j := blk_disj 2 ns i j s ⟨n, hn, h2⟩ (e1 ▸ blk_sp 2 ns hwf j hj)
      subst this
      exact Or.inr ⟨e1, e2⟩

/-- inside a block of such a fan, paths are paths of the operand's graph -/
theorem fan_unlift (G : Gr Nat) (ns : List NFA) (H : Gr Nat) (X : Nat → Nat → Prop) (i : Nat) (n : NFA)
    (hn : ns[i]? = some n) (emb : Emb G H (2 + base ns i) n.states.length X)
    (hX : ∀ x y, X x y → y = 1) {s t : Nat} {w} (p : Path (G.inside (Blk 2 ns i)) s w t) :
    Path H (s - (2 + base ns i)) w (t - (2 + base ns i)) := by
  refine emb.unlift ?_ (Path.mono (g := G.inside (Blk 2 ns i)) ?_ ?_ p)
  · intro x y hxy _ hy
    have := hX x y hxy
    subst this
    have := hy.1; omega
  · rintro s c t ⟨h1, h2, h3⟩
    exact ⟨(blk_iff _ ns i n hn s).mp h1, (blk_iff _ ns i n hn t).mp h2, h3⟩
  · rintro s t ⟨h1, h2, h3⟩
    exact ⟨(blk_iff _ ns i n hn s).mp h1, (blk_iff _ ns i n hn t).mp h2, h3⟩

theorem mem_foldl_insert_fst (ends : List (Nat × Nat)) (init : List Nat) (t : Nat) :
    t ∈ ends.foldl (fun acc x => insertNat x.1 acc) init ↔ t ∈ init ∨ ∃ e ∈ ends, e.1 = t := by
  induction ends generalizing init with
  | nil => simp
  | cons e ends ih =>
    simp only [List.foldl_cons, ih, mem_insertNat, List.mem_cons, exists_eq_or_imp]
    constructor
    · rintro ((h | h) | h)
      · exact Or.inr (Or.inl h.symm)
      · exact Or.inl h
      · exact Or.inr (Or.inr h)
    · rintro (h | h | h)
      · exact Or.inl (Or.inr h)
      · exact Or.inl (Or.inl h.symm)
      · exact Or.inr h

/-- the start state of `choice` -/
def choiceStart (ends : List (Nat × Nat)) : NState :=
  { edges := [], eps := ends.foldl (fun acc x => insertNat x.1 acc) [], tag := none }

theorem choice_eq (m : NFA) (rest : List NFA) :
    NFA.choice (m :: rest) =
      { start := 0, stop := 1
        states := assemble [choiceStart (NFA.mergeStates (m :: rest) 2).2, NState.new] (m :: rest)
          ((NFA.mergeStates (m :: rest) 2).2.map fun x => (x.2, 1)) } := rfl

theorem mem_ends (ns : List NFA) (off : Nat) (e : Nat × Nat) :
    e ∈ (NFA.mergeStates ns off).2 ↔ ∃ i, i < ns.length ∧ e = (stOf off ns i, spOf off ns i) := by
  rw [List.mem_iff_getElem?]
  constructor
  · rintro ⟨i, h⟩; exact ⟨i, ends_get_some ns off i e h⟩
  · rintro ⟨i, hi, rfl⟩; exact ⟨i, ends_get ns off i hi⟩

/-- the graph of `choice ns` (`ns` non-empty), edge by edge, for the fresh states -/
theorem choice_graph (ns : List NFA) (hwf : ∀ n ∈ ns, WF n) :
    let ends := (NFA.mergeStates ns 2).2
    let G := gr (assemble [choiceStart ends, NState.new] ns (ends.map fun x => (x.2, 1)))
    (∀ c t, ¬ G.edge 0 c t) ∧ (∀ t, G.eps 0 t ↔ ∃ i, i < ns.length ∧ t = stOf 2 ns i) ∧
    (∀ c t, ¬ G.edge 1 c t) ∧ (∀ t, ¬ G.eps 1 t) ∧
    (∀ x y, (x, y) ∈ (ends.map fun x => (x.2, 1)) ↔ ∃ i, i < ns.length ∧ x = spOf 2 ns i ∧ y = 1) := by
  intro ends G
  have hex : ∀ x y, (x, y) ∈ (ends.map fun x => (x.2, 1)) ↔ ∃ i, i < ns.length ∧ x = spOf 2 ns i ∧ y = 1 := by
    intro x y
    simp only [List.mem_map, Prod.mk.injEq]
    constructor
    · rintro ⟨e, he, h1, h2⟩
      obtain ⟨i, hi, rfl⟩ := (mem_ends ns 2 e).mp he
      exact ⟨i, hi, h1.symm, h2.symm⟩
    · rintro ⟨i, hi, h1, h2⟩
      exact ⟨_, (mem_ends ns 2 _).mpr ⟨i, hi, rfl⟩, h1.symm, h2.symm⟩
  have nox : ∀ x y, x < 2 → (x, y) ∉ (ends.map fun x => (x.2, 1)) := by
    intro x y hx h
    obtain ⟨i, hi, e, _⟩ := (hex x y).mp h
    have := (spOf_lt 2 ns hwf i hi).1
    omega
  refine ⟨?_, ?_, ?_, ?_, hex⟩
  · intro c t h
    obtain ⟨st, h1, h2⟩ := (assemble_pre_edge _ ns _ 0 (by simp) c t).mp h
    simp at h1; subst h1; simp [choiceStart] at h2
  · intro t
    rw [assemble_pre_eps _ ns _ 0 (by simp) t]
    constructor
    · rintro (⟨st, h1, h2⟩ | h)
      · simp at h1; subst h1
        simp only [choiceStart, mem_foldl_insert_fst, List.not_mem_nil, false_or] at h2
        obtain ⟨e, he, rfl⟩ := h2
        obtain ⟨i, hi, rfl⟩ := (mem_ends ns 2 e).mp he
        exact ⟨i, hi, rfl⟩
      · exact absurd h (nox 0 t (by omega))
    · rintro ⟨i, hi, rfl⟩
      refine Or.inl ⟨_, rfl, ?_⟩
      simp only [choiceStart, mem_foldl_insert_fst, List.not_mem_nil, false_or]
      exact ⟨_, (mem_ends ns 2 _).mpr ⟨i, hi, rfl⟩, rfl⟩
  · intro c t h
    obtain ⟨st, h1, h2⟩ := (assemble_pre_edge _ ns _ 1 (by simp) c t).mp h
    simp at h1; subst h1; simp [NState.new] at h2
  · intro t h
    rcases (assemble_pre_eps _ ns _ 1 (by simp) t).mp h with ⟨st, h1, h2⟩ | h
    · simp at h1; subst h1; simp [NState.new] at h2
    · exact absurd h (nox 1 t (by omega))

/-- C15, `choice`: the language is the union of the operands' languages -/
theorem choice_lang (ns : List NFA) (hwf : ∀ n ∈ ns, WF n) (w : List UInt8) :
    Lang (NFA.choice ns) w ↔ ∃ n ∈ ns, Lang n w := by
  cases ns with
  | nil =>
    have : NFA.choice [] = NFA.nothing := rfl
    rw [this]
    simp [nothing_lang]
  | cons m rest =>
    obtain ⟨h0e, h0, h1e, h1, hex⟩ := choice_graph (m :: rest) hwf
    have emb := fun i n (hn : (m :: rest)[i]? = some n) =>
      emb_assemble [choiceStart (NFA.mergeStates (m :: rest) 2).2, NState.new] (m :: rest)
        ((NFA.mergeStates (m :: rest) 2).2.map fun x => (x.2, 1)) i n hn (hwf n (List.mem_of_getElem? hn)).states
    unfold Lang Reach
    rw [choice_eq]
    simp only
    constructor
    · intro h
      have hf := fan_of_emb _ (m :: rest) (fun i => gr ((m :: rest)[i]?.getD m).states) _ hwf
        (fun i n hn => by simpa [hn] using emb i n hn)
        (fun x y h => (hex x y).mp h) h0e (fun t h => Or.inl ((h0 t).mp h)) h1e h1
      rcases hf.lang (by omega) h with ⟨i, hi, p⟩ | ⟨_, h⟩
      · have hn : (m :: rest)[i]? = some (m :: rest)[i] := List.getElem?_eq_getElem hi
        refine ⟨(m :: rest)[i], List.getElem_mem hi, ?_⟩
        have := fan_unlift _ (m :: rest) _ _ i _ hn (emb i _ hn) (fun x y h => ((hex x y).mp h).choose_spec.2.2) p
        rw [stOf_eq 2 _ i _ hn, spOf_eq 2 _ i _ hn] at this
        simpa using this
      · obtain ⟨i, hi, e⟩ := (h0 1).mp h
        have := (stOf_lt 2 _ hwf i hi).1
        omega
    · rintro ⟨n, hn, h⟩
      obtain ⟨i, hi, rfl⟩ := List.getElem_of_mem hn
      have hn : (m :: rest)[i]? = some (m :: rest)[i] := List.getElem?_eq_getElem hi
      have p := (emb i _ hn).lift h
      have e1 := (h0 (stOf 2 (m :: rest) i)).mpr ⟨i, hi, rfl⟩
      have e2 : (gr (assemble [choiceStart (NFA.mergeStates (m :: rest) 2).2, NState.new] (m :: rest)
          ((NFA.mergeStates (m :: rest) 2).2.map fun x => (x.2, 1)))).eps (spOf 2 (m :: rest) i) 1 := by
        rw [spOf_eq 2 _ i _ hn]
        refine ((emb i _ hn).eps_iff _ _ (hwf _ (List.getElem_mem hi)).stop).mpr (Or.inr ?_)
        refine (hex _ _).mpr ⟨i, hi, ?_, rfl⟩
        rw [spOf_eq 2 _ i _ hn]; simp
      rw [stOf_eq 2 _ i _ hn] at e1
      rw [spOf_eq 2 _ i _ hn] at e2
      simp only [List.length_cons, List.length_nil] at p
      exact Path.eps e1 (p.snocEps e2)


theorem choice_wf (ns : List NFA) (hwf : ∀ n ∈ ns, WF n) : WF (NFA.choice ns) := by
  cases ns with
  | nil => exact nothing_wf
  | cons m rest =>
    obtain ⟨h0e, h0, h1e, h1, hex⟩ := choice_graph (m :: rest) hwf
    rw [choice_eq]
    refine ⟨by simp; omega, by simp; omega, ?_⟩
    refine assemble_wfs _ _ _ hwf ?_ ?_ ?_
    · intro x c y h
      have hx := gr_edge_lt h
      simp at hx
      have := (assemble_pre_edge _ (m :: rest) ((NFA.mergeStates (m :: rest) 2).2.map fun x => (x.2, 1)) x (by simpa using hx) c y).mpr h
      match x, hx, this with
      | 0, _, this => exact absurd this (h0e _ _)
      | 1, _, this => exact absurd this (h1e _ _)
    · intro x y h
      have hx := gr_eps_lt h
      simp at hx
      have := (assemble_pre_eps _ (m :: rest) ((NFA.mergeStates (m :: rest) 2).2.map fun x => (x.2, 1)) x (by simpa using hx) y).mpr (Or.inl h)
      match x, hx, this with
      | 0, _, this =>
        obtain ⟨i, hi, rfl⟩ := (h0 _).mp this
        simpa using (stOf_lt 2 _ hwf i hi).2
      | 1, _, this => exact absurd this (h1 _)
    · rintro ⟨x, y⟩ h
      obtain ⟨i, hi, _, e⟩ := (hex x y).mp h
      simp [e]; omega

/-! ### `some` -/

theorem some_graph_eps (n : NFA) (hwf : WF n) (x y : Nat) :
    (gr (NFA.some n).states).eps x y ↔ ((gr n.states).addEps n.stop n.start).eps x y := by
  simp only [NFA.some, eps_addEps, Gr.addEps]
  have := hwf.stop
  constructor
  · rintro (h | ⟨h1, h2, _⟩)
    · exact Or.inl h
    · exact Or.inr ⟨h1, h2⟩
  · rintro (h | ⟨h1, h2⟩)
    · exact Or.inl h
    · exact Or.inr ⟨h1, h2, this⟩

theorem some_path (n : NFA) (hwf : WF n) (s t : Nat) (w : List UInt8) :
    Path (gr (NFA.some n).states) s w t ↔ Path ((gr n.states).addEps n.stop n.start) s w t := by
  constructor
  · exact Path.mono (g := gr (NFA.some n).states) (g' := (gr n.states).addEps n.stop n.start)
      (fun s c t h => (edge_addEps _ _ _ _ _ _).mp h) (fun s t h => (some_graph_eps n hwf s t).mp h)
  · exact Path.mono (g := (gr n.states).addEps n.stop n.start) (g' := gr (NFA.some n).states)
      (fun s c t h => (edge_addEps _ _ _ _ _ _).mpr h) (fun s t h => (some_graph_eps n hwf s t).mpr h)

/-- C15, `some`: one or more -/
theorem some_lang' (n : NFA) (hwf : WF n) (w : List UInt8) : Lang (NFA.some n) w ↔ Plus (Lang n) w := by
  unfold Lang Reach
  rw [some_path n hwf]
  exact some_lang (gr n.states) n.start n.stop w

theorem some_wf (n : NFA) (hwf : WF n) : WF (NFA.some n) := by
  refine ⟨by simpa [NFA.some] using hwf.start, by simpa [NFA.some] using hwf.stop, ?_⟩
  rw [wfs_iff]
  constructor
  · intro s c t h
    simpa [NFA.some] using hwf.states.edge ((edge_addEps _ _ _ _ _ _).mp h)
  · intro s t h
    rcases (some_graph_eps n hwf s t).mp h with h | ⟨_, h⟩
    · simpa [NFA.some] using hwf.states.eps h
    · subst h; simpa [NFA.some] using hwf.start

/-! ### `optional` -/

/-- C15, `optional` (repaired form): zero or one -/
theorem optional_lang (n : NFA) (hwf : WF n) (w : List UInt8) : Lang (NFA.optional n) w ↔ w = [] ∨ Lang n w := by
  unfold NFA.optional
  rw [choice_lang [n, NFA.empty] (by intro x hx; simp at hx; rcases hx with rfl | rfl; exact hwf; exact empty_wf)]
  simp [empty_lang, or_comm]

theorem optional_wf (n : NFA) (hwf : WF n) : WF (NFA.optional n) :=
  choice_wf _ (by intro x hx; simp at hx; rcases hx with rfl | rfl; exact hwf; exact empty_wf)

/-! ### `tag_stop_state` -/

theorem tagStop_edge (n : NFA) (t : Nat) (x : Nat) (c : UInt8) (y : Nat) :
    (gr (n.tagStop t).states).edge x c y ↔ (gr n.states).edge x c y := by
  simp only [gr, NFA.tagStop, List.getElem?_modify]
  by_cases h : n.stop = x
  · subst h; cases n.states[n.stop]? <;> simp
  · simp [h]

theorem tagStop_eps (n : NFA) (t : Nat) (x y : Nat) :
    (gr (n.tagStop t).states).eps x y ↔ (gr n.states).eps x y := by
  simp only [gr, NFA.tagStop, List.getElem?_modify]
  by_cases h : n.stop = x
  · subst h; cases n.states[n.stop]? <;> simp
  · simp [h]

theorem tagStop_path (n : NFA) (t : Nat) (s q : Nat) (w : List UInt8) :
    Path (gr (n.tagStop t).states) s w q ↔ Path (gr n.states) s w q := by
  constructor
  · exact Path.mono (g := gr (n.tagStop t).states) (g' := gr n.states)
      (fun s c t h => (tagStop_edge _ _ _ _ _).mp h) (fun s t h => (tagStop_eps _ _ _ _).mp h)
  · exact Path.mono (g := gr n.states) (g' := gr (n.tagStop t).states)
      (fun s c t h => (tagStop_edge _ _ _ _ _).mpr h) (fun s t h => (tagStop_eps _ _ _ _).mpr h)

theorem tagStop_lang (n : NFA) (t : Nat) (w : List UInt8) : Lang (n.tagStop t) w ↔ Lang n w :=
  tagStop_path n t _ _ w

theorem tagStop_reach (n : NFA) (t : Nat) (w : List UInt8) (q : Nat) : Reach (n.tagStop t) w q ↔ Reach n w q :=
  tagStop_path n t _ _ w

theorem tagStop_wf (n : NFA) (t : Nat) (hwf : WF n) : WF (n.tagStop t) := by
  refine ⟨by simpa [NFA.tagStop] using hwf.start, by simpa [NFA.tagStop] using hwf.stop, ?_⟩
  rw [wfs_iff]
  constructor
  · intro s c y h
    simpa [NFA.tagStop] using hwf.states.edge ((tagStop_edge _ _ _ _ _).mp h)
  · intro s y h
    simpa [NFA.tagStop] using hwf.states.eps ((tagStop_eps _ _ _ _).mp h)

theorem tagAt_tagStop (n : NFA) (t : Nat) (q : Nat) :
    tagAt (n.tagStop t).states q = if q = n.stop ∧ q < n.states.length then some t else tagAt n.states q := by
  simp only [tagAt, NFA.tagStop, List.getElem?_modify]
  by_cases h : n.stop = q
  · subst h
    by_cases hlt : n.stop < n.states.length
    · simp [hlt]
    · simp [hlt]
  · have : ¬ q = n.stop := fun e => h e.symm
    simp [h, this]


/-! ### `many` -/

def manyStart (n : NFA) : NState := { edges := [], eps := insertNat 1 (insertNat (n.start + 2) []), tag := none }

theorem many_eq (n : NFA) :
    NFA.many n = { start := 0, stop := 1
                   states := assemble [manyStart n, NState.new] [n] [(n.stop + 2, 1), (n.stop + 2, n.start + 2)] } := by
  simp [NFA.many, assemble, NFA.mergeStates, manyStart]

theorem many_graph (n : NFA) :
    let G := gr (assemble [manyStart n, NState.new] [n] [(n.stop + 2, 1), (n.stop + 2, n.start + 2)])
    (∀ c t, ¬ G.edge 0 c t) ∧ (∀ t, G.eps 0 t ↔ t = n.start + 2 ∨ t = 1) ∧
    (∀ c t, ¬ G.edge 1 c t) ∧ (∀ t, ¬ G.eps 1 t) := by
  intro G
  refine ⟨?_, ?_, ?_, ?_⟩
  · intro c t h
    obtain ⟨st, h1, h2⟩ := (assemble_pre_edge _ [n] _ 0 (by simp) c t).mp h
    simp at h1; subst h1; simp [manyStart] at h2
  · intro t
    rw [assemble_pre_eps _ [n] _ 0 (by simp) t]
    constructor
    · rintro (⟨st, h1, h2⟩ | h)
      · simp at h1; subst h1
        simp only [manyStart, mem_insertNat, List.not_mem_nil, or_false] at h2
        rcases h2 with h | h
        · exact Or.inr h
        · exact Or.inl h
      · simp at h
    · intro h
      refine Or.inl ⟨_, rfl, ?_⟩
      simp only [manyStart, mem_insertNat, List.not_mem_nil, or_false]
      rcases h with h | h
      · exact Or.inr h
      · exact Or.inl h
  · intro c t h
    obtain ⟨st, h1, h2⟩ := (assemble_pre_edge _ [n] _ 1 (by simp) c t).mp h
    simp at h1; subst h1; simp [NState.new] at h2
  · intro t h
    rcases (assemble_pre_eps _ [n] _ 1 (by simp) t).mp h with ⟨st, h1, h2⟩ | h
    · simp at h1; subst h1; simp [NState.new] at h2
    · simp at h

/-- the block of `many n` is a copy of `some n` -/
theorem many_emb (n : NFA) (hwf : WF n) :
    Emb (gr (assemble [manyStart n, NState.new] [n] [(n.stop + 2, 1), (n.stop + 2, n.start + 2)]))
      ((gr n.states).addEps n.stop n.start) (2 + base [n] 0) n.states.length
      (fun x y => x = n.stop + 2 ∧ y = 1) := by
  have emb := emb_assemble [manyStart n, NState.new] [n] [(n.stop + 2, 1), (n.stop + 2, n.start + 2)] 0 n rfl hwf.states
  refine emb.absorb n.stop n.start hwf.stop hwf.start ?_
  intro x y
  simp only [List.mem_cons, Prod.mk.injEq, List.not_mem_nil, or_false, List.length_cons, List.length_nil, base_zero]

/-- C15, `many`: zero or more -/
theorem many_lang (n : NFA) (hwf : WF n) (w : List UInt8) : Lang (NFA.many n) w ↔ Star (Lang n) w := by
  obtain ⟨h0e, h0, h1e, h1⟩ := many_graph n
  have emb := many_emb n hwf
  have hw : ∀ m ∈ [n], WF m := by intro m hm; simp at hm; subst hm; exact hwf
  rw [star_iff_plus]
  unfold Lang Reach
  rw [many_eq]
  simp only
  constructor
  · intro h
    have hf := fan_of_emb _ [n] (fun _ => (gr n.states).addEps n.stop n.start) (fun x y => x = n.stop + 2 ∧ y = 1) hw
      (fun i m hm => by
        cases i with
        | zero => simp at hm; subst hm; exact emb
        | succ i => simp at hm)
      (fun x y h => ⟨0, by simp, by simpa [spOf] using h.1, h.2⟩) h0e
      (fun t h => by
        rcases (h0 t).mp h with h | h
        · exact Or.inl ⟨0, by simp, by simpa [stOf] using h⟩
        · exact Or.inr h) h1e h1
    rcases hf.lang (by omega) h with ⟨i, hi, p⟩ | ⟨h, _⟩
    · have hi0 : i = 0 := by simpa using hi
      subst hi0
      have := fan_unlift _ [n] _ _ 0 n rfl emb (fun x y (h : x = n.stop + 2 ∧ y = 1) => h.2) p
      rw [stOf_eq 2 _ 0 n rfl, spOf_eq 2 _ 0 n rfl] at this
      simp only [base_zero, Nat.add_sub_cancel] at this
      exact Or.inr ((some_lang _ _ _ _).mp this)
    · exact Or.inl h
  · rintro (rfl | h)
    · exact Path.eps ((h0 1).mpr (Or.inr rfl)) (Path.refl _)
    · have p := emb.lift ((some_lang _ _ _ _).mpr h)
      have e1 := (h0 (n.start + 2)).mpr (Or.inl rfl)
      have e2 : (gr (assemble [manyStart n, NState.new] [n] [(n.stop + 2, 1), (n.stop + 2, n.start + 2)])).eps
          (n.stop + 2) 1 := by
        have := (emb.eps_iff n.stop 1 hwf.stop).mpr (Or.inr ⟨by simp, rfl⟩)
        simpa using this
      simp only [base_zero, Nat.add_zero] at p
      exact Path.eps e1 (p.snocEps e2)

theorem many_wf (n : NFA) (hwf : WF n) : WF (NFA.many n) := by
  obtain ⟨h0e, h0, h1e, h1⟩ := many_graph n
  have hw : ∀ m ∈ [n], WF m := by intro m hm; simp at hm; subst hm; exact hwf
  rw [many_eq]
  have hs := hwf.start
  have ht := hwf.stop
  refine ⟨by simp; omega, by simp; omega, ?_⟩
  refine assemble_wfs _ _ _ hw ?_ ?_ ?_
  · intro x c y h
    have hx := gr_edge_lt h
    simp at hx
    have := (assemble_pre_edge _ [n] [(n.stop + 2, 1), (n.stop + 2, n.start + 2)] x (by simpa using hx) c y).mpr h
    match x, hx, this with
    | 0, _, this => exact absurd this (h0e _ _)
    | 1, _, this => exact absurd this (h1e _ _)
  · intro x y h
    have hx := gr_eps_lt h
    simp at hx
    have := (assemble_pre_eps _ [n] [(n.stop + 2, 1), (n.stop + 2, n.start + 2)] x (by simpa using hx) y).mpr (Or.inl h)
    match x, hx, this with
    | 0, _, this =>
      rcases (h0 _).mp this with rfl | rfl <;> simp [total] <;> omega
    | 1, _, this => exact absurd this (h1 _)
  · intro p hp
    simp at hp
    rcases hp with rfl | rfl <;> simp [total] <;> omega

end SurfProofs.NFALang
