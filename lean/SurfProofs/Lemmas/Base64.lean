import SurfModel.Base64
import SurfProofs.Lemmas.Base64Bits
/-!
# Helper lemmas for C14 (streaming base64)

1. facts about the regenerated tables (re-checked by the kernel whenever the tables change);
2. one group: the code's shift/mask expressions select the RFC sextets; decoding inverts it;
3. encoder: invariant of `write` relating carry + inner output to `rfcEncode`;
4. reader / `fill4`: the next four bytes whatever the schedule; 5. one group decoded; 6.–7. `fillLoop`, `readLoop`,
   `readAll` on RFC text; 8. arbitrary text: index invariant, residue of the text length, bound on delivered bytes.
-/
namespace SurfProofs.Lemmas.Base64
open SurfModel.Base64 SurfModel.Generated.Base64Tables SurfProofs.Lemmas.Base64Bits

/-! ## 1. tables -/

theorem encodeTable_length : encodeTable.length = 64 := by decide +kernel
theorem decodeTable_length : decodeTable.length = 256 := by decide +kernel
/-- the code's alphabet is Table 1 of RFC 4648 -/
theorem encodeTable_rfc : encodeTable = rfcAlphabet := by decide +kernel
/-- the reverse table inverts the alphabet on all 64 sextets -/
theorem decode_encode : ∀ i : Fin 64, decodeTable.getD (encodeTable.getD i.val 0) 0 = i.val := by decide +kernel
/-- no alphabet character is the padding character, and all are bytes -/
theorem encode_ne_pad : ∀ i : Fin 64, encodeTable.getD i.val 0 ≠ 61 ∧ encodeTable.getD i.val 0 < 256 := by
  decide +kernel
/-- every entry of the reverse table is a sextet -/
theorem decode_lt : ∀ i : Fin 256, decodeTable.getD i.val 0 < 64 := by decide +kernel

theorem encAt_eq (i : UInt8) (h : i.toNat < 64) : encAt i = some (rfcChar i.toNat) := by
  unfold encAt rfcChar
  rw [← encodeTable_rfc]
  have hl : i.toNat < encodeTable.length := by rw [encodeTable_length]; exact h
  simp [List.getD, List.getElem?_eq_getElem hl]

theorem decAt_eq (i : UInt8) : decAt i = some (u8 (decodeTable.getD i.toNat 0)) := by
  unfold decAt u8
  have hl : i.toNat < decodeTable.length := by rw [decodeTable_length]; exact lt256 i
  simp [List.getD, List.getElem?_eq_getElem hl]

theorem rfcChar_toNat (s : Nat) (h : s < 64) : (rfcChar s).toNat = encodeTable.getD s 0 := by
  have := (encode_ne_pad ⟨s, h⟩).2
  simp only at this
  unfold rfcChar
  rw [← encodeTable_rfc, UInt8.toNat_ofNat', Nat.mod_eq_of_lt (by omega)]

theorem decAt_rfcChar (s : Nat) (h : s < 64) : decAt (rfcChar s) = some (u8 s) := by
  rw [decAt_eq, rfcChar_toNat s h]
  have := decode_encode ⟨s, h⟩
  simp only at this
  rw [this]

theorem rfcChar_ne_pad (s : Nat) (h : s < 64) : rfcChar s ≠ pad := by
  intro hc
  have h1 := rfcChar_toNat s h
  have h2 := (encode_ne_pad ⟨s, h⟩).1
  simp only at h2
  rw [hc] at h1
  exact h2 (by rw [← h1]; rfl)

/-! ## 2. one group -/

theorem encode3_eq (s0 s1 s2 : UInt8) :
    encode3 s0 s1 s2 =
      some [rfcChar ((s0.toNat * 65536 + s1.toNat * 256 + s2.toNat) / 262144),
            rfcChar ((s0.toNat * 65536 + s1.toNat * 256 + s2.toNat) / 4096 % 64),
            rfcChar ((s0.toNat * 65536 + s1.toNat * 256 + s2.toNat) / 64 % 64),
            rfcChar ((s0.toNat * 65536 + s1.toNat * 256 + s2.toNat) % 64)] := by
  have b0 := lt256 s0; have b1 := lt256 s1; have b2 := lt256 s2
  have h0 : encAt (s0 >>> 2) = some (rfcChar ((s0.toNat * 65536 + s1.toNat * 256 + s2.toNat) / 262144)) := by
    rw [encAt_eq _ (by rw [enc_i0]; omega), enc_i0]; congr 2; omega
  have h1 : encAt (((s0 <<< 4) ||| (s1 >>> 4)) &&& 0x3f)
      = some (rfcChar ((s0.toNat * 65536 + s1.toNat * 256 + s2.toNat) / 4096 % 64)) := by
    rw [encAt_eq _ (by rw [enc_i1]; omega), enc_i1]; congr 2; omega
  have h2 : encAt (((s1 <<< 2) ||| (s2 >>> 6)) &&& 0x3f)
      = some (rfcChar ((s0.toNat * 65536 + s1.toNat * 256 + s2.toNat) / 64 % 64)) := by
    rw [encAt_eq _ (by rw [enc_i2]; omega), enc_i2]; congr 2; omega
  have h3 : encAt (s2 &&& 0x3f) = some (rfcChar ((s0.toNat * 65536 + s1.toNat * 256 + s2.toNat) % 64)) := by
    rw [encAt_eq _ (by rw [enc_i3]; omega), enc_i3]; congr 2; omega
  unfold encode3
  rw [h0, h1, h2, h3]

theorem encode2_eq (s0 s1 : UInt8) :
    encode2 s0 s1 =
      some [rfcChar ((s0.toNat * 256 + s1.toNat) * 4 / 4096), rfcChar ((s0.toNat * 256 + s1.toNat) * 4 / 64 % 64),
            rfcChar ((s0.toNat * 256 + s1.toNat) * 4 % 64), 61] := by
  have b0 := lt256 s0; have b1 := lt256 s1
  have h0 : encAt (s0 >>> 2) = some (rfcChar ((s0.toNat * 256 + s1.toNat) * 4 / 4096)) := by
    rw [encAt_eq _ (by rw [enc_i0]; omega), enc_i0]; congr 2; omega
  have h1 : encAt (((s0 <<< 4) ||| (s1 >>> 4)) &&& 0x3f)
      = some (rfcChar ((s0.toNat * 256 + s1.toNat) * 4 / 64 % 64)) := by
    rw [encAt_eq _ (by rw [enc_i1]; omega), enc_i1]; congr 2; omega
  have h2 : encAt ((s1 <<< 2) &&& 0x3f) = some (rfcChar ((s0.toNat * 256 + s1.toNat) * 4 % 64)) := by
    rw [encAt_eq _ (by rw [enc_f2]; omega), enc_f2]; congr 2; omega
  unfold encode2
  rw [h0, h1, h2]; rfl

theorem encode1_eq (s0 : UInt8) :
    encode1 s0 = some [rfcChar (s0.toNat * 16 / 64), rfcChar (s0.toNat * 16 % 64), 61, 61] := by
  have b0 := lt256 s0
  have h0 : encAt (s0 >>> 2) = some (rfcChar (s0.toNat * 16 / 64)) := by
    rw [encAt_eq _ (by rw [enc_i0]; omega), enc_i0]; congr 2; omega
  have h1 : encAt ((s0 <<< 4) &&& 0x3f) = some (rfcChar (s0.toNat * 16 % 64)) := by
    rw [encAt_eq _ (by rw [enc_f1]; omega), enc_f1]; congr 2; omega
  unfold encode1
  rw [h0, h1]; rfl

/-! ## 3. encoder -/

/-- the bytes carried over: `buffer[..size]` -/
def carry (e : Enc) : List UInt8 := e.buffer.toList.take e.size

/-- the text the encoder stands for: what is written plus the RFC encoding of the carry and of whatever
    is still to come -/
def pendingText (e : Enc) (more : List UInt8) : List UInt8 := e.inner ++ rfcEncode (carry e ++ more)

theorem rfcEncode_group (a b c : UInt8) (rest : List UInt8) :
    rfcEncode (a :: b :: c :: rest) =
      [rfcChar ((a.toNat * 65536 + b.toNat * 256 + c.toNat) / 262144),
       rfcChar ((a.toNat * 65536 + b.toNat * 256 + c.toNat) / 4096 % 64),
       rfcChar ((a.toNat * 65536 + b.toNat * 256 + c.toNat) / 64 % 64),
       rfcChar ((a.toNat * 65536 + b.toNat * 256 + c.toNat) % 64)] ++ rfcEncode rest := by
  simp [rfcEncode]

theorem writeByte_spec (e : Enc) (b : UInt8) (h : e.size < 3) :
    ∃ e', writeByte e b = .ok e' ∧ e'.size < 3 ∧ ∀ more, pendingText e' more = pendingText e (b :: more) := by
  obtain ⟨inner, ⟨x0, x1, x2⟩, size⟩ := e
  simp only at h
  have hs : size = 0 ∨ size = 1 ∨ size = 2 := by omega
  rcases hs with rfl | rfl | rfl
  · refine ⟨_, by simp [writeByte, Buf3.set]; rfl, by simp, ?_⟩
    intro more; simp [pendingText, carry, Buf3.toList]
  · refine ⟨_, by simp [writeByte, Buf3.set]; rfl, by simp, ?_⟩
    intro more; simp [pendingText, carry, Buf3.toList]
  · refine ⟨{ inner := inner ++ _, buffer := ⟨x0, x1, b⟩, size := 0 },
      by simp [writeByte, Buf3.set, encode3_eq]; rfl, by simp, ?_⟩
    intro more
    simp [pendingText, carry, Buf3.toList, rfcEncode_group]

theorem write_spec (xs : List UInt8) : ∀ (e : Enc), e.size < 3 →
    ∃ e', write e xs = .ok e' ∧ e'.size < 3 ∧ ∀ more, pendingText e' more = pendingText e (xs ++ more) := by
  induction xs with
  | nil => intro e h; exact ⟨e, rfl, h, fun _ => rfl⟩
  | cons b rest ih =>
    intro e h
    obtain ⟨e1, h1, hs1, hp1⟩ := writeByte_spec e b h
    obtain ⟨e2, h2, hs2, hp2⟩ := ih e1 hs1
    refine ⟨e2, by simp [write, h1, h2], hs2, ?_⟩
    intro more; rw [hp2, hp1]; rfl

theorem writes_spec (chunks : List (List UInt8)) : ∀ (e : Enc), e.size < 3 →
    ∃ e', writes e chunks = .ok e' ∧ e'.size < 3 ∧
      ∀ more, pendingText e' more = pendingText e (chunks.flatten ++ more) := by
  induction chunks with
  | nil => intro e h; exact ⟨e, rfl, h, fun _ => by simp⟩
  | cons c rest ih =>
    intro e h
    obtain ⟨e1, h1, hs1, hp1⟩ := write_spec c e h
    obtain ⟨e2, h2, hs2, hp2⟩ := ih e1 hs1
    refine ⟨e2, by simp [writes, h1, h2], hs2, ?_⟩
    intro more; rw [hp2, hp1]; simp

theorem runOps_spec (ops : List EncOp) : ∀ (e : Enc), e.size < 3 →
    ∃ e', runOps e ops = .ok e' ∧ e'.size < 3 ∧
      ∀ more, pendingText e' more = pendingText e (written ops ++ more) := by
  induction ops with
  | nil => intro e h; exact ⟨e, rfl, h, fun _ => by simp [written]⟩
  | cons op rest ih =>
    intro e h
    cases op with
    | write c =>
      obtain ⟨e1, h1, hs1, hp1⟩ := write_spec c e h
      obtain ⟨e2, h2, hs2, hp2⟩ := ih e1 hs1
      refine ⟨e2, by simp [runOps, h1, h2], hs2, ?_⟩
      intro more; rw [hp2, hp1]; simp [written]
    | flush =>
      obtain ⟨e2, h2, hs2, hp2⟩ := ih e h
      refine ⟨e2, by simp [runOps, flush, h2], hs2, ?_⟩
      intro more; rw [hp2]; simp [written]

theorem finish_spec (e : Enc) (h : e.size < 3) : finish e = .ok (pendingText e []) := by
  obtain ⟨inner, ⟨x0, x1, x2⟩, size⟩ := e
  simp only at h
  have hs : size = 0 ∨ size = 1 ∨ size = 2 := by omega
  rcases hs with rfl | rfl | rfl
  · simp [finish, pendingText, carry, Buf3.toList, rfcEncode]
  · simp [finish, pendingText, carry, Buf3.toList, rfcEncode, encode1_eq]
  · simp [finish, pendingText, carry, Buf3.toList, rfcEncode, encode2_eq]

/-! ## 4. the underlying reader and `fill4` -/

theorem read_interrupted_data (r r' : Reader) (w : Nat) (h : r.read w = (.interrupted, r')) : r'.data = r.data := by
  unfold Reader.read at h
  split at h <;> simp_all
  · obtain ⟨_, rfl⟩ := h; rfl

theorem read_bytes (r r' : Reader) (w : Nat) (bs : List UInt8) (h : r.read w = (.bytes bs, r')) :
    ∃ k, k ≤ w ∧ (0 < w → 0 < k) ∧ bs = r.data.take k ∧ r'.data = r.data.drop k := by
  unfold Reader.read at h
  split at h
  · simp only [Prod.mk.injEq, RdRes.bytes.injEq] at h
    obtain ⟨rfl, rfl⟩ := h
    refine ⟨if r.tail = 0 then w else min w r.tail, ?_, ?_, rfl, rfl⟩
    · split <;> omega
    · intro hw; split <;> omega
  · simp at h
  · rename_i m s hs
    simp only [Prod.mk.injEq, RdRes.bytes.injEq] at h
    obtain ⟨rfl, rfl⟩ := h
    exact ⟨min w (m + 1), Nat.min_le_left _ _, fun hw => by omega, rfl, rfl⟩

/-- whatever the schedule: `fill4` moves bytes from the reader to `input` until there are four or the reader
    is exhausted -/
theorem fill4_spec (r : Reader) (input : List UInt8) (h : input.length ≤ 4) :
    (fill4 r input).1 = (input ++ r.data).take 4 ∧ (fill4 r input).2.data = (input ++ r.data).drop 4 := by
  fun_induction fill4 r input with
  | case1 r input h4 r' hr ih =>
    have := read_interrupted_data r r' _ hr
    rw [this] at ih; exact ih h
  | case2 r input h4 r' hr =>
    obtain ⟨k, hk, hpos, hbs, hd⟩ := read_bytes r r' _ _ hr
    have hk0 : 0 < k := hpos (by omega)
    have hnil : r.data = [] := by
      cases hdat : r.data with
      | nil => rfl
      | cons x xs =>
        obtain ⟨k', rfl⟩ : ∃ k', k = k' + 1 := ⟨k - 1, by omega⟩
        rw [hdat] at hbs; simp at hbs
    simp [hd, hnil, List.take_of_length_le (Nat.le_of_lt h4), List.drop_of_length_le (Nat.le_of_lt h4)]
  | case3 r input h4 b bs r' hr ih =>
    obtain ⟨k, hk, hpos, hbs, hd⟩ := read_bytes r r' _ _ hr
    have hlen : (input ++ b :: bs).length ≤ 4 := by
      rw [List.length_append, hbs, List.length_take]; omega
    have := ih hlen
    have e : (input ++ b :: bs) ++ r'.data = input ++ r.data := by
      rw [hbs, hd, List.append_assoc, List.take_append_drop]
    rw [e] at this
    exact this
  | case4 r input h4 =>
    have : input.length = 4 := by omega
    simp [List.take_append_of_le_length (Nat.le_of_eq this.symm), List.drop_append_of_le_length (Nat.le_of_eq this.symm), this]
    exact (List.take_of_length_le (Nat.le_of_eq this)).symm


/-! ## 5. one group, decoded -/

/-- value of the reverse table at a byte -/
def dv (i : UInt8) : UInt8 := u8 (decodeTable.getD i.toNat 0)

theorem decodeU8x4_eq (i0 i1 i2 i3 : UInt8) :
    decodeU8x4 i0 i1 i2 i3 =
      some [(dv i0 <<< 2) ||| (dv i1 >>> 4), (dv i1 <<< 4) ||| (dv i2 >>> 2), (dv i2 <<< 6) ||| dv i3] := by
  unfold decodeU8x4
  rw [decAt_eq, decAt_eq, decAt_eq, decAt_eq]
  rfl

theorem dv_rfcChar (s : Nat) (h : s < 64) : dv (rfcChar s) = u8 s := by
  have h1 := decAt_rfcChar s h
  rw [decAt_eq] at h1
  exact Option.some.inj h1

theorem dv_lt (i : UInt8) : ∃ v, v < 64 ∧ dv i = u8 v :=
  ⟨_, decode_lt ⟨i.toNat, lt256 i⟩, rfl⟩

theorem u8_of_eq (x : UInt8) (n : Nat) (h : n = x.toNat) : u8 n = x := by rw [h]; exact u8_toNat x

theorem decode_full (a b c : UInt8) :
    decodeU8x4 (rfcChar ((a.toNat * 65536 + b.toNat * 256 + c.toNat) / 262144))
               (rfcChar ((a.toNat * 65536 + b.toNat * 256 + c.toNat) / 4096 % 64))
               (rfcChar ((a.toNat * 65536 + b.toNat * 256 + c.toNat) / 64 % 64))
               (rfcChar ((a.toNat * 65536 + b.toNat * 256 + c.toNat) % 64)) = some [a, b, c] := by
  have ha := lt256 a; have hb := lt256 b; have hc := lt256 c
  rw [decodeU8x4_eq, dv_rfcChar _ (by omega), dv_rfcChar _ (by omega), dv_rfcChar _ (by omega), dv_rfcChar _ (by omega),
    dec_b0 _ _ (by omega) (by omega), dec_b1 _ _ (by omega) (by omega), dec_b2 _ _ (by omega) (by omega),
    u8_of_eq a _ (by omega), u8_of_eq b _ (by omega), u8_of_eq c _ (by omega)]

theorem decode_two (a b : UInt8) : ∃ z,
    decodeU8x4 (rfcChar ((a.toNat * 256 + b.toNat) * 4 / 4096)) (rfcChar ((a.toNat * 256 + b.toNat) * 4 / 64 % 64))
               (rfcChar ((a.toNat * 256 + b.toNat) * 4 % 64)) 61 = some [a, b, z] := by
  have ha := lt256 a; have hb := lt256 b
  rw [decodeU8x4_eq, dv_rfcChar _ (by omega), dv_rfcChar _ (by omega), dv_rfcChar _ (by omega),
    dec_b0 _ _ (by omega) (by omega), dec_b1 _ _ (by omega) (by omega),
    u8_of_eq a _ (by omega), u8_of_eq b _ (by omega)]
  exact ⟨_, rfl⟩

theorem decode_one (a : UInt8) : ∃ y z,
    decodeU8x4 (rfcChar (a.toNat * 16 / 64)) (rfcChar (a.toNat * 16 % 64)) 61 61 = some [a, y, z] := by
  have ha := lt256 a
  rw [decodeU8x4_eq, dv_rfcChar _ (by omega), dv_rfcChar _ (by omega),
    dec_b0 _ _ (by omega) (by omega), u8_of_eq a _ (by omega)]
  exact ⟨_, _, rfl⟩

theorem decodeSize_full (c2 c3 : UInt8) (h2 : c2 ≠ pad) (h3 : c3 ≠ pad) : decodeSize c2 c3 = 3 := by
  simp [decodeSize, h2, h3]
theorem decodeSize_two (c2 : UInt8) (h2 : c2 ≠ pad) : decodeSize c2 61 = 2 := by
  have h2' : c2 ≠ 61 := h2
  simp [decodeSize, h2', pad]
theorem decodeSize_le (c2 c3 : UInt8) : decodeSize c2 c3 ≤ 3 := by
  unfold decodeSize; split
  · omega
  · split <;> omega
theorem decodeSize_one : decodeSize 61 61 = 1 := by
  simp [decodeSize, pad]

/-! ## 6. `fillLoop` on RFC text -/

theorem fill4_group (r : Reader) (i0 i1 i2 i3 : UInt8) (rest : List UInt8)
    (hd : r.data = i0 :: i1 :: i2 :: i3 :: rest) :
    ∃ r', r'.data = rest ∧ fill4 r [] = ([i0, i1, i2, i3], r') := by
  have := fill4_spec r [] (by simp)
  rw [hd] at this
  exact ⟨(fill4 r []).2, by simpa using this.2, Prod.ext (by simpa using this.1) rfl⟩

theorem fill4_nil (r : Reader) (hd : r.data = []) : ∃ r', r'.data = [] ∧ fill4 r [] = ([], r') := by
  have := fill4_spec r [] (by simp)
  rw [hd] at this
  exact ⟨(fill4 r []).2, by simpa using this.2, Prod.ext (by simpa using this.1) rfl⟩

theorem fillLoop_group (d : Dec) (i0 i1 i2 i3 : UInt8) (rest out : List UInt8)
    (hc : d.buffer.length + 3 ≤ 64) (hd : d.read.data = i0 :: i1 :: i2 :: i3 :: rest)
    (ho : decodeU8x4 i0 i1 i2 i3 = some out) (hl : out.length = 3) :
    ∃ r', r'.data = rest ∧
      fillLoop d = fillLoop { d with read := r', buffer := d.buffer ++ out.take (decodeSize i2 i3) } := by
  obtain ⟨r', hr, hf⟩ := fill4_group d.read i0 i1 i2 i3 rest hd
  refine ⟨r', hr, ?_⟩
  have hs := decodeSize_le i2 i3
  rw [fillLoop]
  simp only [hc, ↓reduceDIte, hf, ho]
  rw [dif_neg (by omega)]

theorem fillLoop_nil (d : Dec) (hd : d.read.data = []) :
    ∃ d', fillLoop d = .ok d' ∧ d'.buffer = d.buffer ∧ d'.offset = d.offset ∧ d'.read.data = [] := by
  rw [fillLoop]
  by_cases hc : d.buffer.length + 3 ≤ 64
  · obtain ⟨r', hr, hf⟩ := fill4_nil d.read hd
    simp only [hc, ↓reduceDIte, hf]
    exact ⟨_, rfl, rfl, rfl, hr⟩
  · simp only [hc, ↓reduceDIte]
    exact ⟨_, rfl, rfl, rfl, hd⟩


theorem fillLoop_full (d : Dec) (hc : ¬ d.buffer.length + 3 ≤ 64) : fillLoop d = .ok d := by
  rw [fillLoop]; simp only [hc, ↓reduceDIte]

/-- On RFC text `buffer_fill`'s loop appends a prefix of the plain bytes to the buffer, leaves the RFC text of
    the rest in the reader, and stops only when everything is decoded or the buffer is full. -/
theorem fillLoop_rfc (p : List UInt8) : ∀ d : Dec, d.read.data = rfcEncode p →
    ∃ d' k, fillLoop d = .ok d' ∧ d'.buffer = d.buffer ++ p.take k ∧ d'.read.data = rfcEncode (p.drop k) ∧
      d'.offset = d.offset ∧ (p.drop k = [] ∨ 64 < d'.buffer.length + 3) := by
  induction p using rfcEncode.induct with
  | case1 =>
    intro d hd
    obtain ⟨d', h1, h2, h3, h4⟩ := fillLoop_nil d (by simpa [rfcEncode] using hd)
    exact ⟨d', 0, h1, by simp [h2], by simpa [rfcEncode] using h4, h3, Or.inl rfl⟩
  | case2 a =>
    intro d hd
    by_cases hc : d.buffer.length + 3 ≤ 64
    · obtain ⟨y, z, ho⟩ := decode_one a
      simp only [rfcEncode] at hd
      obtain ⟨r', hr, hf⟩ := fillLoop_group d _ _ _ _ [] _ hc hd ho rfl
      obtain ⟨d', h1, h2, h3, h4⟩ := fillLoop_nil { d with read := r', buffer := d.buffer ++ [a, y, z].take (decodeSize 61 61) } hr
      refine ⟨d', 1, by rw [hf, h1], ?_, by simpa [rfcEncode] using h4, h3, Or.inl (by simp)⟩
      rw [h2, decodeSize_one]; simp
    · exact ⟨d, 0, fillLoop_full d hc, by simp, by simpa using hd, rfl, Or.inr (by omega)⟩
  | case3 a b =>
    intro d hd
    by_cases hc : d.buffer.length + 3 ≤ 64
    · obtain ⟨z, ho⟩ := decode_two a b
      simp only [rfcEncode] at hd
      have hb := lt256 b; have ha := lt256 a
      obtain ⟨r', hr, hf⟩ := fillLoop_group d _ _ _ _ [] _ hc hd ho rfl
      obtain ⟨d', h1, h2, h3, h4⟩ := fillLoop_nil { d with read := r', buffer := d.buffer ++ [a, b, z].take (decodeSize (rfcChar ((a.toNat * 256 + b.toNat) * 4 % 64)) 61) } hr
      refine ⟨d', 2, by rw [hf, h1], ?_, by simpa [rfcEncode] using h4, h3, Or.inl (by simp)⟩
      rw [h2, decodeSize_two _ (rfcChar_ne_pad _ (by omega))]; simp
    · exact ⟨d, 0, fillLoop_full d hc, by simp, by simpa using hd, rfl, Or.inr (by omega)⟩
  | case4 a b c rest ih =>
    intro d hd
    by_cases hc : d.buffer.length + 3 ≤ 64
    · have ho := decode_full a b c
      rw [rfcEncode_group] at hd
      have hb := lt256 b; have ha := lt256 a; have hcc := lt256 c
      obtain ⟨r', hr, hf⟩ := fillLoop_group d _ _ _ _ (rfcEncode rest) _ hc hd ho rfl
      rw [decodeSize_full _ _ (rfcChar_ne_pad _ (by omega)) (rfcChar_ne_pad _ (by omega))] at hf
      obtain ⟨d', k, h1, h2, h3, h4, h5⟩ := ih { d with read := r', buffer := d.buffer ++ [a, b, c].take 3 } hr
      refine ⟨d', k + 3, by rw [hf, h1], ?_, by simpa using h3, h4, by simpa using h5⟩
      rw [h2]; simp
    · exact ⟨d, 0, fillLoop_full d hc, by simp, by simpa using hd, rfl, Or.inr (by omega)⟩


/-! ## 7. `read` on RFC text -/

/-- `rest` = the plain bytes still to be delivered: unread part of the buffer, then what the text left in the
    reader stands for -/
def DInv (d : Dec) (rest : List UInt8) : Prop :=
  d.offset ≤ d.buffer.length ∧ ∃ p, d.read.data = rfcEncode p ∧ rest = d.buffer.drop d.offset ++ p

theorem fill_if_empty_rfc (d : Dec) (rest : List UInt8) (h : DInv d rest) :
    ∃ d1, (if d.buffer.length - d.offset = 0 then bufferFill d else FillRes.ok d) = .ok d1 ∧ DInv d1 rest ∧
      (d1.buffer.drop d1.offset = [] → rest = []) := by
  obtain ⟨hle, p, hp, hrest⟩ := h
  by_cases he : d.buffer.length - d.offset = 0
  · have heq : d.offset = d.buffer.length := by omega
    obtain ⟨d1, k, h1, h2, h3, h4, h5⟩ := fillLoop_rfc p { d with buffer := [], offset := 0 } hp
    simp only [List.nil_append] at h2
    simp only at h4
    have hr : rest = p := by rw [hrest, heq]; simp
    refine ⟨d1, by simp [bufferFill, heq, h1], ⟨by omega, p.drop k, h3, ?_⟩, ?_⟩
    · rw [hr, h2, h4]; simp
    · intro hnil
      rw [h2, h4] at hnil
      simp only [List.drop_zero] at hnil
      rw [hr]
      rcases h5 with h5 | h5
      · rw [← List.take_append_drop k p, hnil, h5]; rfl
      · rw [h2, hnil] at h5; simp at h5
  · refine ⟨d, by simp [he], ⟨hle, p, hp, hrest⟩, ?_⟩
    intro hnil
    have : (d.buffer.drop d.offset).length = 0 := by rw [hnil]; rfl
    rw [List.length_drop] at this
    omega

theorem readLoop_rfc : ∀ (m n : Nat) (out : List UInt8) (d : Dec) (rest : List UInt8),
    n - out.length = m → DInv d rest →
    ∃ d', readLoop d n out = .ok (out ++ rest.take m) d' ∧ DInv d' (rest.drop m) := by
  intro m
  induction m using Nat.strongRecOn with
  | _ m ih =>
    intro n out d rest hm hinv
    rw [readLoop]
    by_cases hn : out.length < n
    · obtain ⟨d1, hf, hinv1, hemp⟩ := fill_if_empty_rfc d rest hinv
      have hle := hinv.1
      have hle1 := hinv1.1
      simp only [hn, ↓reduceDIte, hf]
      rw [if_neg (by omega), if_neg (by omega)]
      by_cases hb : (d1.buffer.drop d1.offset).length = 0
      · have hnil : d1.buffer.drop d1.offset = [] := List.eq_nil_of_length_eq_zero hb
        have hr := hemp hnil
        simp only [hb, ↓reduceDIte]
        exact ⟨d1, by simp [hr], by simpa [hr] using hinv1⟩
      · simp only [hb, ↓reduceDIte]
        obtain ⟨_, p, hp, hrest⟩ := hinv1
        -- the copy
        generalize hsz : min (d1.buffer.drop d1.offset).length (n - out.length) = size
        have hsz1 : 1 ≤ size := by omega
        have hsz2 : size ≤ (d1.buffer.drop d1.offset).length := by omega
        have hsz3 : size ≤ m := by omega
        have hlen : (d1.buffer.drop d1.offset).length = d1.buffer.length - d1.offset := List.length_drop
        have hinv2 : DInv { d1 with offset := d1.offset + size } (rest.drop size) := by
          refine ⟨by simp only; omega, p, hp, ?_⟩
          rw [hrest, List.drop_append_of_le_length hsz2, List.drop_drop]
        have hlen2 : n - (out ++ (d1.buffer.drop d1.offset).take size).length = m - size := by
          rw [List.length_append, List.length_take]; omega
        obtain ⟨d', hr', hinv'⟩ := ih (m - size) (by omega) n _ _ _ hlen2 hinv2
        refine ⟨d', ?_, ?_⟩
        · rw [hr']
          congr 1
          rw [List.append_assoc]
          congr 1
          have : (d1.buffer.drop d1.offset).take size = rest.take size := by
            rw [hrest, List.take_append_of_le_length hsz2]
          rw [this]
          conv => rhs; rw [show m = size + (m - size) by omega, List.take_add]
        · rw [List.drop_drop] at hinv'
          rw [show m = size + (m - size) by omega]
          exact hinv'
    · have : m = 0 := by omega
      subst this
      simp only [hn, ↓reduceDIte]
      exact ⟨d, by simp, by simpa using hinv⟩


theorem read_rfc (d : Dec) (rest : List UInt8) (n : Nat) (h : DInv d rest) :
    ∃ d', read d n = .ok (rest.take n) d' ∧ DInv d' (rest.drop n) := by
  obtain ⟨d', h1, h2⟩ := readLoop_rfc n n [] d rest (by simp) h
  exact ⟨d', by unfold SurfModel.Base64.read; simpa using h1, h2⟩

theorem readAll_rfc (sizes : List Nat) : ∀ (d : Dec) (rest acc : List UInt8), DInv d rest →
    readAll d sizes acc = sliceReadAll rest sizes acc := by
  induction sizes with
  | nil => intro d rest acc _; rfl
  | cons n more ih =>
    intro d rest acc h
    obtain ⟨d', h1, h2⟩ := read_rfc d rest n h
    simp only [readAll, sliceReadAll, h1]
    have hiff : (0 < n ∧ rest.take n = []) ↔ (0 < n ∧ rest = []) := by
      constructor
      · rintro ⟨hn, ht⟩
        refine ⟨hn, ?_⟩
        cases rest with
        | nil => rfl
        | cons x xs =>
          obtain ⟨n', rfl⟩ : ∃ n', n = n' + 1 := ⟨n - 1, by omega⟩
          simp at ht
      · rintro ⟨hn, rfl⟩; exact ⟨hn, by simp⟩
    by_cases hc : 0 < n ∧ rest = []
    · rw [if_pos (hiff.mpr hc), if_pos hc]
    · rw [if_neg (fun h => hc (hiff.mp h)), if_neg hc]
      exact ih d' _ _ h2

theorem DInv_new (p : List UInt8) (sched : List Nat) (tail : Nat) : DInv (Dec.new ⟨rfcEncode p, sched, tail⟩) p :=
  ⟨Nat.le_refl _, p, rfl, by simp [Dec.new]⟩

/-- reading a slice: with a non-empty buffer offered after everything was delivered, the caller has all bytes
    and has seen the end -/
theorem sliceReadAll_complete (pre : List Nat) : ∀ (data acc : List UInt8) (s : Nat) (post : List Nat),
    0 < s → data.length ≤ pre.sum → sliceReadAll data (pre ++ s :: post) acc = .eof (acc ++ data) := by
  induction pre with
  | nil =>
    intro data acc s post hs hl
    have : data = [] := List.eq_nil_of_length_eq_zero (by simpa using hl)
    subst this
    simp [sliceReadAll, hs]
  | cons x pre ih =>
    intro data acc s post hs hl
    simp only [List.cons_append, sliceReadAll]
    by_cases hc : 0 < x ∧ data = []
    · rw [if_pos hc, hc.2]; simp
    · rw [if_neg hc, ih _ _ s post hs (by simp only [List.length_drop, List.sum_cons] at *; omega)]
      simp


/-! ## 8. arbitrary text: no panic, the residue of the text length is kept, bytes are not invented -/

/-- indices in range: `&buffer[offset..size]`, `size <= 64` -/
def TInv (d : Dec) : Prop := d.offset ≤ d.buffer.length ∧ d.buffer.length ≤ 64

/-- length of the unread text modulo four -/
def phi (d : Dec) : Nat := d.read.data.length % 4

/-- upper bound on the number of bytes the decoder can still deliver -/
def psi (d : Dec) : Nat := (d.buffer.length - d.offset) + d.read.data.length

def FillOk (d : Dec) : FillRes → Prop
  | .panic => False
  | .err d' => d'.buffer.length ≤ 64 ∧ d'.offset = d.offset
  | .ok d' => d'.buffer.length ≤ 64 ∧ d'.offset = d.offset ∧ d.buffer.length ≤ d'.buffer.length ∧
      d'.read.data.length % 4 = d.read.data.length % 4 ∧
      d'.buffer.length + d'.read.data.length ≤ d.buffer.length + d.read.data.length ∧
      (d.buffer.length + 3 ≤ 64 → d'.buffer.length = d.buffer.length → d.read.data = [])

theorem fill4_any (r : Reader) (inp : List UInt8) (r' : Reader) (h : fill4 r [] = (inp, r')) :
    inp = r.data.take 4 ∧ r'.data = r.data.drop 4 := by
  have := fill4_spec r [] (by simp)
  rw [h] at this
  simpa using this

theorem fillLoop_any (d : Dec) (h : d.buffer.length ≤ 64) : FillOk d (fillLoop d) := by
  fun_induction fillLoop d with
  | case1 d hc r' hf =>
    obtain ⟨h1, h2⟩ := fill4_any _ _ _ hf
    have hnil : d.read.data = [] := by
      cases hd : d.read.data with
      | nil => rfl
      | cons x xs => rw [hd] at h1; simp at h1
    simp only [FillOk, h2, hnil]
    simp; omega
  | case2 d hc i0 i1 i2 i3 r' hf hnone =>
    rw [decodeU8x4_eq] at hnone; simp at hnone
  | case3 d hc i0 i1 i2 i3 r' hf dst hsome hp =>
    rw [decodeU8x4_eq] at hsome
    have := decodeSize_le i2 i3
    have hl : dst.length = 3 := by rw [← Option.some.inj hsome]; rfl
    omega
  | case4 d hc i0 i1 i2 i3 r' hf dst hsome hp ih =>
    obtain ⟨h1, h2⟩ := fill4_any _ _ _ hf
    have hlen : 4 ≤ d.read.data.length := by
      have := congrArg List.length h1
      simp only [List.length_cons, List.length_nil, List.length_take] at this
      omega
    have hs1 := decodeSize_pos i2 i3
    have hs3 := decodeSize_le i2 i3
    have hbl : (d.buffer ++ List.take (decodeSize i2 i3) dst).length = d.buffer.length + decodeSize i2 i3 := by
      rw [List.length_append, List.length_take]; omega
    have hrl : r'.data.length = d.read.data.length - 4 := by rw [h2, List.length_drop]
    have ih' := ih (by rw [hbl]; omega)
    revert ih'
    generalize fillLoop { read := r', buffer := d.buffer ++ List.take (decodeSize i2 i3) dst, offset := d.offset } = res
    intro ih'
    cases res with
    | panic => exact ih'
    | err d' => exact ih'
    | ok d' =>
      simp only [FillOk] at ih' ⊢
      rw [hbl, hrl] at ih'
      obtain ⟨a1, a2, a3, a4, a5, _⟩ := ih'
      refine ⟨a1, a2, by omega, by omega, by omega, ?_⟩
      intro _ he; omega
  | case5 d hc fst r' hn1 hn2 hf =>
    simp [FillOk]; exact h
  | case6 d hc =>
    simp [FillOk]; omega


def FillOk' (d : Dec) : FillRes → Prop
  | .panic => False
  | .err d' => TInv d'
  | .ok d' => TInv d' ∧ phi d' = phi d ∧ psi d' ≤ psi d ∧ (d'.buffer.drop d'.offset = [] → d.read.data = [])

theorem fill_if_empty_any (d : Dec) (h : TInv d) :
    FillOk' d (if d.buffer.length - d.offset = 0 then bufferFill d else FillRes.ok d) := by
  obtain ⟨hle, h64⟩ := h
  by_cases he : d.buffer.length - d.offset = 0
  · have heq : d.offset = d.buffer.length := by omega
    have := fillLoop_any { d with buffer := [], offset := 0 } (by simp)
    rw [if_pos he]; unfold bufferFill; rw [if_pos heq]
    revert this
    generalize fillLoop { read := d.read, buffer := [], offset := 0 } = res
    intro this
    cases res with
    | panic => exact this
    | err d' =>
      simp only [FillOk, FillOk', TInv] at this ⊢
      omega
    | ok d' =>
      simp only [FillOk, FillOk', TInv, phi, psi, List.length_nil] at this ⊢
      obtain ⟨a1, a2, a3, a4, a5, a6⟩ := this
      refine ⟨by omega, a4, by omega, ?_⟩
      intro hnil
      rw [a2] at hnil
      apply a6 (by omega)
      simpa using hnil
  · rw [if_neg he]
    refine ⟨⟨hle, h64⟩, rfl, Nat.le_refl _, ?_⟩
    intro hnil
    have : (d.buffer.drop d.offset).length = 0 := by rw [hnil]; rfl
    rw [List.length_drop] at this
    omega

def ReadOk (d : Dec) (n : Nat) (out : List UInt8) : ReadRes → Prop
  | .panic => False
  | .err d' => TInv d'
  | .ok out' d' => TInv d' ∧ phi d' = phi d ∧ psi d' + out'.length ≤ psi d + out.length ∧
      out.length ≤ out'.length ∧ (out.length < n → out'.length = out.length → phi d = 0)

theorem readLoop_any (d : Dec) (n : Nat) (out : List UInt8) (h : TInv d) : ReadOk d n out (readLoop d n out) := by
  fun_induction readLoop d n out with
  | case1 d out hn hgt => exact absurd h.1 (by omega)
  | case2 d out hn hle hf =>
    have := fill_if_empty_any d h
    simp only [dite_eq_ite] at hf
    rw [hf] at this; exact this
  | case3 d out hn hle d' hf =>
    have := fill_if_empty_any d h
    simp only [dite_eq_ite] at hf
    rw [hf] at this; exact this
  | case4 d out hn hle d' hf hgt =>
    have := fill_if_empty_any d h
    simp only [dite_eq_ite] at hf
    rw [hf] at this
    exact absurd this.1.1 (by omega)
  | case5 d out hn hle d' hf hle' buffer hb =>
    have := fill_if_empty_any d h
    simp only [dite_eq_ite] at hf
    rw [hf] at this
    obtain ⟨a1, a2, a3, a4⟩ := this
    have hnil : d'.buffer.drop d'.offset = [] := List.eq_nil_of_length_eq_zero hb
    refine ⟨a1, a2, by omega, Nat.le_refl _, ?_⟩
    intro _ _
    simp [phi, a4 hnil]
  | case6 d out hn hle d' hf hle' buffer hb size ih =>
    have := fill_if_empty_any d h
    simp only [dite_eq_ite] at hf
    rw [hf] at this
    obtain ⟨a1, a2, a3, a4⟩ := this
    have hbl : buffer.length = d'.buffer.length - d'.offset := List.length_drop
    have hsz : size = min buffer.length (n - out.length) := rfl
    have hsz1 : 1 ≤ size := by omega
    have hsz2 : size ≤ d'.buffer.length - d'.offset := by omega
    have hol : (out ++ List.take size buffer).length = out.length + size := by
      rw [List.length_append, List.length_take]; omega
    have hinv2 : TInv { read := d'.read, buffer := d'.buffer, offset := d'.offset + size } :=
      ⟨by simp only; have := a1.1; omega, a1.2⟩
    have ih' := ih hinv2
    revert ih'
    generalize readLoop { read := d'.read, buffer := d'.buffer, offset := d'.offset + size } n
      (out ++ List.take size buffer) = res
    intro ih'
    cases res with
    | panic => exact ih'
    | err d'' => exact ih'
    | ok out'' d'' =>
      simp only [ReadOk, phi, psi] at ih' ⊢
      simp only [phi, psi] at a2 a3
      rw [hol] at ih'
      obtain ⟨b1, b2, b3, b4, _⟩ := ih'
      refine ⟨b1, by omega, by omega, by omega, ?_⟩
      intro _ he; omega
  | case7 d out hn =>
    exact ⟨h, rfl, Nat.le_refl _, Nat.le_refl _, fun h => absurd h hn⟩

theorem read_any (d : Dec) (n : Nat) (h : TInv d) : ReadOk d n [] (SurfModel.Base64.read d n) :=
  readLoop_any d n [] h

theorem TInv_new (r : Reader) : TInv (Dec.new r) := by simp [TInv, Dec.new]

/-- no `read` of any sequence panics -/
theorem readSeq_no_panic (sizes : List Nat) : ∀ d, TInv d → ∀ r ∈ readSeq d sizes, r ≠ .panic := by
  induction sizes with
  | nil => intro d _ r hr; simp [readSeq] at hr
  | cons n rest ih =>
    intro d h r hr
    have hrd := read_any d n h
    unfold readSeq at hr
    revert hrd hr
    generalize SurfModel.Base64.read d n = res
    intro hrd hr
    cases res with
    | panic => exact absurd hrd id
    | err d' =>
      simp only [List.mem_cons] at hr
      rcases hr with rfl | hr
      · simp
      · exact ih d' hrd r hr
    | ok out d' =>
      simp only [List.mem_cons] at hr
      rcases hr with rfl | hr
      · simp
      · exact ih d' hrd.1 r hr

def positives (sizes : List Nat) : Nat := (sizes.filter (0 < ·)).length

/-- text whose unread length is not a multiple of four: the caller never sees a clean end of input, never a
    panic, and sees the error once it has offered more non-empty buffers than there can be bytes -/
theorem readAll_residue (sizes : List Nat) : ∀ (d : Dec) (acc : List UInt8), TInv d → phi d ≠ 0 →
    (∃ b, readAll d sizes acc = .error b) ∨ ((∃ b, readAll d sizes acc = .pending b) ∧ positives sizes ≤ psi d) := by
  induction sizes with
  | nil => intro d acc _ _; exact Or.inr ⟨⟨acc, rfl⟩, by simp [positives]⟩
  | cons n rest ih =>
    intro d acc h hphi
    have hrd := read_any d n h
    unfold readAll
    revert hrd
    generalize SurfModel.Base64.read d n = res
    intro hrd
    cases res with
    | panic => exact absurd hrd id
    | err d' => exact Or.inl ⟨acc, rfl⟩
    | ok out d' =>
      simp only [ReadOk, List.length_nil, Nat.add_zero] at hrd
      obtain ⟨b1, b2, b3, _, b5⟩ := hrd
      have hne : ¬ (0 < n ∧ out = []) := by
        rintro ⟨hn, rfl⟩
        exact hphi (b5 hn rfl)
      simp only [hne, ↓reduceIte]
      rcases ih d' (acc ++ out) b1 (by rw [b2]; exact hphi) with he | ⟨hp, hc⟩
      · exact Or.inl he
      · refine Or.inr ⟨hp, ?_⟩
        unfold positives at hc ⊢
        by_cases hn : 0 < n
        · have : 1 ≤ out.length := by
            cases out with
            | nil => exact absurd ⟨hn, rfl⟩ hne
            | cons x xs => simp
          simp only [List.filter_cons, hn, decide_true, ↓reduceIte, List.length_cons]
          omega
        · simp only [List.filter_cons, hn, decide_false]
          simp only [Bool.false_eq_true, ↓reduceIte]
          omega

theorem readAll_no_panic (sizes : List Nat) : ∀ (d : Dec) (acc : List UInt8), TInv d →
    readAll d sizes acc ≠ .panic := by
  induction sizes with
  | nil => intro d acc _; simp [readAll]
  | cons n rest ih =>
    intro d acc h
    have hrd := read_any d n h
    unfold readAll
    revert hrd
    generalize SurfModel.Base64.read d n = res
    intro hrd
    cases res with
    | panic => exact absurd hrd id
    | err d' => simp
    | ok out d' =>
      simp only
      split
      · simp
      · exact ih d' _ hrd.1

/-! ## 9. the encoder over a sink with short writes -/

theorem sink_write_interrupted (s s' : Sink) (buf : List UInt8) (h : s.write buf = (.interrupted, s')) :
    s'.arrived = s.arrived ∧ s'.room = s.room := by
  unfold Sink.write at h
  split at h <;> simp_all
  · obtain ⟨_, rfl⟩ := h; exact ⟨rfl, rfl⟩

theorem sink_take_pos (s : Sink) (per len : Nat) (hr : s.room = none) (hp : 0 < per) (hl : 0 < len) :
    0 < s.take per len := by
  unfold Sink.take; rw [hr]; simp only; omega

theorem sink_write_accepted (s s' : Sink) (buf : List UInt8) (k : Nat) (h : s.write buf = (.accepted k, s')) :
    k ≤ buf.length ∧ s'.arrived = s.arrived ++ buf.take k ∧ (s.room = none → s'.room = none ∧ (0 < buf.length → 0 < k)) := by
  unfold Sink.write at h
  split at h
  · simp at h
  · rename_i m rest hs
    simp only [Prod.mk.injEq, WrRes.accepted.injEq] at h
    obtain ⟨rfl, rfl⟩ := h
    refine ⟨Sink.take_le .., rfl, fun hr => ⟨by simp [hr], fun hl => sink_take_pos s _ _ hr (by omega) hl⟩⟩
  · simp only [Prod.mk.injEq, WrRes.accepted.injEq] at h
    obtain ⟨rfl, rfl⟩ := h
    refine ⟨Sink.take_le .., rfl, fun hr => ⟨by simp [hr], fun hl => sink_take_pos s _ _ hr (by split <;> omega) hl⟩⟩

/-- `write_all`: everything arrives, or an error is returned and a proper prefix has arrived; a sink that is never
    full never fails -/
theorem writeAll_spec (s : Sink) (buf : List UInt8) :
    ((s.writeAll buf).1 = true → (s.writeAll buf).2.arrived = s.arrived ++ buf) ∧
    ((s.writeAll buf).1 = false → ∃ j, j < buf.length ∧ (s.writeAll buf).2.arrived = s.arrived ++ buf.take j) ∧
    (s.room = none → (s.writeAll buf).1 = true ∧ (s.writeAll buf).2.room = none) := by
  fun_induction Sink.writeAll s buf with
  | case1 s buf hb =>
    have : buf = [] := List.eq_nil_of_length_eq_zero hb
    subst this
    simp
  | case2 s buf hb s' h ih =>
    obtain ⟨ha, hr⟩ := sink_write_interrupted s s' buf h
    rw [ha, hr] at ih; exact ih
  | case3 s buf hb s' h =>
    obtain ⟨_, ha, hr⟩ := sink_write_accepted s s' buf 0 h
    refine ⟨by simp, fun _ => ⟨0, by omega, by simpa using ha⟩, fun hn => ?_⟩
    have := (hr hn).2 (by omega); omega
  | case4 s buf hb k s' h ih =>
    obtain ⟨hk, ha, hr⟩ := sink_write_accepted s s' buf (k + 1) h
    obtain ⟨i1, i2, i3⟩ := ih
    refine ⟨fun ht => ?_, fun hf => ?_, fun hn => ?_⟩
    · rw [i1 ht, ha, List.append_assoc, List.take_append_drop]
    · obtain ⟨j, hj, hj'⟩ := i2 hf
      refine ⟨k + 1 + j, by simp only [List.length_drop] at hj; omega, ?_⟩
      rw [hj', ha, List.append_assoc]
      conv => rhs; rw [List.take_add]
    · exact i3 (hr hn).1

/-- the sink-encoder state stands for the `Vec`-encoder state with the same carry and `inner` = what arrived -/
def Sim (es : EncS) (e : Enc) : Prop := es.buffer = e.buffer ∧ es.size = e.size ∧ es.inner.arrived = e.inner

/-- result of a step over a sink, relative to the final text `T` that the same step over a `Vec` stands for -/
def StepOk (es : EncS) (T : List UInt8 → List UInt8) : SinkRes EncS → Prop
  | .ok es' => ∃ e', T = pendingText e' ∧ e'.size < 3 ∧ Sim es' e' ∧ (es.inner.room = none → es'.inner.room = none)
  | .ioerr s => es.inner.room ≠ none ∧ ∀ more, ∃ q, q ≠ [] ∧ s.arrived ++ q = T more
  | .panic => False

theorem writeByteS_sim (es : EncS) (e : Enc) (b : UInt8) (hsim : Sim es e) (h : e.size < 3) :
    StepOk es (fun more => pendingText e (b :: more)) (writeByteS es b) := by
  obtain ⟨e1, h1, hs1, hp1⟩ := writeByte_spec e b h
  obtain ⟨hb, hsz, harr⟩ := hsim
  unfold writeByte at h1
  unfold writeByteS
  rw [hb, hsz]
  cases hset : e.buffer.set e.size b with
  | none => rw [hset] at h1; simp at h1
  | some buffer =>
    rw [hset] at h1
    simp only at h1 ⊢
    by_cases h3 : e.size + 1 = 3
    · rw [if_pos h3] at h1 ⊢
      rw [encode3_eq] at h1 ⊢
      simp only at h1 ⊢
      generalize hd : [rfcChar _, rfcChar _, rfcChar _, rfcChar _] = dst at h1 ⊢
      have hdl : dst.length = 4 := by rw [← hd]; rfl
      have hspec := writeAll_spec es.inner dst
      revert hspec
      generalize es.inner.writeAll dst = res
      obtain ⟨ok, s'⟩ := res
      intro hspec
      have he1 : e1 = { inner := e.inner ++ dst, buffer := buffer, size := 0 } := (EncRes.ok.inj h1).symm
      cases ok with
      | true =>
        simp only [StepOk]
        refine ⟨e1, funext fun more => (hp1 more).symm, hs1, ⟨by rw [he1], by rw [he1], ?_⟩, fun hn => (hspec.2.2 hn).2⟩
        rw [hspec.1 rfl, harr, he1]
      | false =>
        simp only [StepOk]
        obtain ⟨j, hj, hj'⟩ := hspec.2.1 rfl
        refine ⟨fun hn => by have := (hspec.2.2 hn).1; simp at this, fun more => ?_⟩
        simp only at hj'
        rw [← hp1 more, he1, hj', harr]
        refine ⟨List.drop j dst ++ rfcEncode (carry { inner := e.inner ++ dst, buffer := buffer, size := 0 } ++ more), ?_, ?_⟩
        · intro hnil
          have := congrArg List.length hnil
          simp only [List.length_append, List.length_drop, List.length_nil] at this
          omega
        · simp only [pendingText, List.append_assoc]
          rw [← List.append_assoc (List.take j dst), List.take_append_drop]
    · rw [if_neg h3] at h1 ⊢
      have he1 : e1 = { e with buffer := buffer, size := e.size + 1 } := (EncRes.ok.inj h1).symm
      simp only [StepOk]
      exact ⟨e1, funext fun more => (hp1 more).symm, hs1, ⟨by rw [he1], by rw [he1], by rw [he1]; exact harr⟩, id⟩


theorem StepOk_trans (es es' : EncS) (T T' : List UInt8 → List UInt8) (r : SinkRes EncS)
    (hroom : es.inner.room = none → es'.inner.room = none) (hT : ∀ more, T' more = T more)
    (h : StepOk es' T' r) : StepOk es T r := by
  have hTT : T' = T := funext hT
  subst hTT
  cases r with
  | panic => exact h
  | ioerr s => exact ⟨fun hn => h.1 (hroom hn), h.2⟩
  | ok es'' =>
    obtain ⟨e', h1, h2, h3, h4⟩ := h
    exact ⟨e', h1, h2, h3, fun hn => h4 (hroom hn)⟩

theorem writeS_sim (xs : List UInt8) : ∀ (es : EncS) (e : Enc), Sim es e → e.size < 3 →
    StepOk es (fun more => pendingText e (xs ++ more)) (writeS es xs) := by
  induction xs with
  | nil => intro es e hsim h; exact ⟨e, rfl, h, hsim, id⟩
  | cons b rest ih =>
    intro es e hsim h
    have hb := writeByteS_sim es e b hsim h
    unfold writeS
    revert hb
    generalize writeByteS es b = r
    intro hb
    cases r with
    | panic => exact hb
    | ioerr s => exact ⟨hb.1, fun more => hb.2 (rest ++ more)⟩
    | ok es' =>
      obtain ⟨e', hT, hs, hsim', hroom⟩ := hb
      exact StepOk_trans es es' _ _ _ hroom (fun more => (congrFun hT (rest ++ more)).symm) (ih es' e' hsim' hs)

theorem runOpsS_sim (ops : List EncOp) : ∀ (es : EncS) (e : Enc), Sim es e → e.size < 3 →
    StepOk es (fun more => pendingText e (written ops ++ more)) (runOpsS es ops) := by
  induction ops with
  | nil => intro es e hsim h; exact ⟨e, by simp [written], h, hsim, id⟩
  | cons op rest ih =>
    intro es e hsim h
    cases op with
    | flush => simpa [runOpsS, written] using ih es e hsim h
    | write c =>
      have hc := writeS_sim c es e hsim h
      unfold runOpsS
      revert hc
      generalize writeS es c = r
      intro hc
      cases r with
      | panic => exact hc
      | ioerr s => exact ⟨hc.1, fun more => by simpa [written] using hc.2 (written rest ++ more)⟩
      | ok es' =>
        obtain ⟨e', hT, hs, hsim', hroom⟩ := hc
        refine StepOk_trans es es' _ _ _ hroom (fun more => ?_) (ih es' e' hsim' hs)
        have := congrFun hT (written rest ++ more)
        simp only [written, List.append_assoc] at this ⊢
        exact this.symm

/-- what `finish` over a sink leaves in the sink, relative to the text `T` -/
def FinOk (es : EncS) (T : List UInt8) : SinkRes Sink → Prop
  | .ok s => s.arrived = T ∧ (es.inner.room = none → s.room = none)
  | .ioerr s => es.inner.room ≠ none ∧ ∃ q, q ≠ [] ∧ s.arrived ++ q = T
  | .panic => False

theorem fin_spec (es : EncS) (pre dst : List UInt8) (ok : Bool) (s' : Sink) (hpre : es.inner.arrived = pre)
    (hspec : (ok = true → s'.arrived = es.inner.arrived ++ dst) ∧
      (ok = false → ∃ j, j < dst.length ∧ s'.arrived = es.inner.arrived ++ dst.take j) ∧
      (es.inner.room = none → ok = true ∧ s'.room = none)) :
    FinOk es (pre ++ dst) (bif ok then SinkRes.ok s' else SinkRes.ioerr s') := by
  cases ok with
  | true => exact ⟨by rw [hspec.1 rfl, hpre], fun hn => (hspec.2.2 hn).2⟩
  | false =>
    obtain ⟨j, hj, hj'⟩ := hspec.2.1 rfl
    refine ⟨fun hn => by have := (hspec.2.2 hn).1; simp at this, List.drop j dst, ?_, ?_⟩
    · intro hnil
      have := congrArg List.length hnil
      simp only [List.length_drop, List.length_nil] at this
      omega
    · rw [hj', hpre, List.append_assoc, List.take_append_drop]

theorem finishS_sim (es : EncS) (e : Enc) (hsim : Sim es e) (h : e.size < 3) :
    FinOk es (pendingText e []) (finishS es) := by
  obtain ⟨hb, hsz, harr⟩ := hsim
  obtain ⟨inner, ⟨x0, x1, x2⟩, size⟩ := e
  obtain ⟨sink, ⟨y0, y1, y2⟩, ssize⟩ := es
  simp only at h hb hsz harr
  cases hb; subst hsz
  have hs : ssize = 0 ∨ ssize = 1 ∨ ssize = 2 := by omega
  rcases hs with rfl | rfl | rfl
  · simp [finishS, pendingText, carry, Buf3.toList, rfcEncode, FinOk, harr]
  · simp only [finishS, pendingText, carry, Buf3.toList, rfcEncode, encode1_eq, List.take,
      List.append_nil, gt_iff_lt]
    generalize [rfcChar _, rfcChar _, (61 : UInt8), 61] = dst
    have hspec := writeAll_spec sink dst
    revert hspec
    generalize sink.writeAll dst = res
    obtain ⟨ok, s'⟩ := res
    intro hspec
    have := fin_spec ⟨sink, ⟨x0, x1, x2⟩, 1⟩ inner dst ok s' harr hspec
    cases ok <;> simpa using this
  · simp only [finishS, pendingText, carry, Buf3.toList, rfcEncode, encode2_eq, List.take,
      List.append_nil, gt_iff_lt]
    generalize [rfcChar _, rfcChar _, rfcChar _, (61 : UInt8)] = dst
    have hspec := writeAll_spec sink dst
    revert hspec
    generalize sink.writeAll dst = res
    obtain ⟨ok, s'⟩ := res
    intro hspec
    have := fin_spec ⟨sink, ⟨x0, x1, x2⟩, 2⟩ inner dst ok s' harr hspec
    cases ok <;> simpa using this

/-- the whole run over a sink that starts empty -/
theorem encodeOpsS_spec (sink : Sink) (ops : List EncOp) (hempty : sink.arrived = []) :
    FinOk (EncS.new sink) (rfcEncode (written ops)) (encodeOpsS sink ops) := by
  have hrun := runOpsS_sim ops (EncS.new sink) Enc.new ⟨rfl, rfl, hempty⟩ (by decide)
  unfold encodeOpsS
  revert hrun
  generalize runOpsS (EncS.new sink) ops = r
  intro hrun
  have hT : ∀ more, pendingText Enc.new (written ops ++ more) = rfcEncode (written ops ++ more) := by
    intro more; simp [pendingText, carry, Enc.new]
  cases r with
  | panic => exact hrun
  | ioerr s =>
    obtain ⟨q, hq, hq'⟩ := hrun.2 []
    have hq'' : s.arrived ++ q = pendingText Enc.new (written ops ++ []) := hq'
    exact ⟨hrun.1, q, hq, by rw [hq'', hT]; simp⟩
  | ok es' =>
    obtain ⟨e', hT', hs, hsim', hroom⟩ := hrun
    have hfin := finishS_sim es' e' hsim' hs
    have htext : pendingText e' [] = rfcEncode (written ops) := by
      have := congrFun hT' []
      have h2 : pendingText Enc.new (written ops ++ []) = pendingText e' [] := this
      rw [← h2, hT]; simp
    rw [htext] at hfin
    show FinOk (EncS.new sink) (rfcEncode (written ops)) (finishS es')
    revert hfin
    generalize finishS es' = rf
    intro hfin
    cases rf with
    | panic => exact hfin
    | ioerr s => exact ⟨fun hn => hfin.1 (hroom hn), hfin.2⟩
    | ok s => exact ⟨hfin.1, fun hn => hfin.2 (hroom hn)⟩

/-! ## 10. the client: reading to the end -/

theorem rfcEncode_len_ge : ∀ d : List UInt8, d.length ≤ (rfcEncode d).length
  | [] => by simp [rfcEncode]
  | [_] => by simp [rfcEncode]
  | [_, _] => by simp [rfcEncode]
  | _ :: _ :: _ :: rest => by
    have := rfcEncode_len_ge rest
    simp only [rfcEncode, List.length_cons]; omega

theorem sum_replicate_nat (n k : Nat) : (List.replicate n k).sum = n * k := by
  induction n with
  | zero => simp
  | succ n ih => rw [List.replicate_succ, List.sum_cons, ih, Nat.succ_mul]; omega

end SurfProofs.Lemmas.Base64
