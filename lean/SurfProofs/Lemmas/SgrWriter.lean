import SurfProofs.Lemmas.SgrSem
import SurfProofs.Lemmas.SgrColorItems
import SurfProofs.Lemmas.TextChunk
import SurfProofs.Lemmas.CommandAutoBisim
import SurfProofs.Lemmas.ProtoStream
import SurfProofs.Lemmas.ProtoText
import SurfProofs.Lemmas.ProtoBytes
import SurfProofs.C03
/-!
Lemmas for `C06_writer`: ANSI-coloured text written through `tty_writer()`.

* faces: the unpacked face of the SGR model (`DFace`) against the face word of the C09 writer model
  (`packFace` / `unpackFace`), and what `sgr_face` can produce (`sgrFace_ok`: opaque 8-bit colours, six underline
  styles — for every parameter string);
* the command automaton: `ESC [ <0-9:;>* m` and the UTF-8 encoding of a scalar value other than `ESC` are read by
  the compiled command automaton as one complete (accepting, terminal) token with the tag of the SGR resp.
  character matcher (through the kernel-checked bisimulation with a small hand-written automaton,
  `SurfProofs.CommandAutoBisim`), and so by every automaton that realises the command grammar (`cmd_token`);
  hence cut off by the tokenizer whatever follows (`tokenize_terminal`, C04);
* the payload of the two tokens (`sgr_face` of the parameter bytes; the character);
* `tty_script`: the whole `TTYCellWriter` session on a script under any partition of its bytes.
-/
namespace SurfProofs.Lemmas.SgrWriter
open SurfModel.Vt SurfModel.Sgr SurfModel.Tokenizer SurfModel.Grammar SurfModel.Payload SurfModel.Stream
  SurfModel.Decoders SurfModel.Automata SurfModel.TextLayout
open SurfProofs.CommandAutoBisim SurfProofs.AutoSim SurfProofs.DecoderStream SurfProofs.ProtoBasics
  SurfProofs.Lemmas.TextChunk

/-! ## faces: the unpacked face of the SGR model and the writer's face word -/

/-- the writer's face (C09 model) -/
abbrev WFace := SurfModel.TextLayout.Face

/-- an 8-bit opaque colour -/
def COk (c : Rgba) : Prop := c.r ≤ 255 ∧ c.g ≤ 255 ∧ c.b ≤ 255 ∧ c.a = 255

/-- a face the decoder can produce: opaque 8-bit colours, one of the six underline styles -/
def FaceOk (d : DFace) : Prop := (∀ c, d.fg = some c → COk c) ∧ (∀ c, d.bg = some c → COk c) ∧ d.under ≤ 5

def FModOk (m : FMod) : Prop :=
  (∀ c, m.fg = some c → COk c) ∧ (∀ c, m.bg = some c → COk c) ∧ (∀ k, m.underline = some k → k ≤ 5)

def b2n (b : Bool) : Nat := if b then 1 else 0

/-- `RGBA` as the number `r g b a` (big endian) -/
def packColor (c : Rgba) : Nat := ((c.r * 256 + c.g) * 256 + c.b) * 256 + c.a
def unpackColor (n : Nat) : Rgba := ⟨n / 16777216, n / 65536 % 256, n / 256 % 256, n % 256⟩

/-- `Face` of the writer model (colours and the `FaceAttrs` word as numbers): underline style in the low three
    bits, then bold, italic, blink, reverse, strike -/
def packFace (d : DFace) : WFace :=
  ⟨d.fg.map packColor, d.bg.map packColor,
   d.under + 8 * (b2n d.bold + 2 * b2n d.italic + 4 * b2n d.blink + 8 * b2n d.reverse + 16 * b2n d.strike)⟩

def unpackFace (f : WFace) : DFace :=
  { fg := f.fg.map unpackColor, bg := f.bg.map unpackColor, under := f.attrs % 8,
    bold := f.attrs / 8 % 2 == 1, italic := f.attrs / 16 % 2 == 1, blink := f.attrs / 32 % 2 == 1,
    reverse := f.attrs / 64 % 2 == 1, strike := f.attrs / 128 % 2 == 1 }

theorem unpack_packColor (c : Rgba) (h : COk c) : unpackColor (packColor c) = c := by
  obtain ⟨r, g, b, a⟩ := c
  obtain ⟨_, hg, hb, ha⟩ := h
  simp only at hg hb ha
  simp only [unpackColor, packColor, Rgba.mk.injEq]
  refine ⟨?_, ?_, ?_, ?_⟩ <;> omega

theorem unpack_packFace (d : DFace) (h : FaceOk d) : unpackFace (packFace d) = d := by
  obtain ⟨fg, bg, under, bold, italic, blink, reverse, strike⟩ := d
  obtain ⟨hfg, hbg, hu⟩ := h
  simp only at hfg hbg hu
  have hc : ∀ o : Option Rgba, (∀ c, o = some c → COk c) → (o.map packColor).map unpackColor = o := by
    intro o ho
    cases o with
    | none => rfl
    | some c => simp [unpack_packColor c (ho c rfl)]
  simp only [unpackFace, packFace, hc fg hfg, hc bg hbg, DFace.mk.injEq, true_and]
  cases bold <;> cases italic <;> cases blink <;> cases reverse <;> cases strike <;>
    simp only [b2n, if_true, if_false, Bool.false_eq_true] <;> refine ⟨by omega, ?_, ?_, ?_, ?_, ?_⟩ <;>
    simp <;> omega

/-- `FaceModify::apply` on the writer's face -/
def liftFace (g : DFace → DFace) (f : WFace) : WFace := packFace (g (unpackFace f))

theorem liftFace_pack (g : DFace → DFace) (d : DFace) (h : FaceOk d) : liftFace g (packFace d) = packFace (g d) := by
  simp [liftFace, unpack_packFace d h]

/-! ## what `sgr_face` can produce -/

theorem palette_ok_fin : ∀ n : Fin 256, (match palette n.val with
    | some c => decide (c.r ≤ 255) && decide (c.g ≤ 255) && decide (c.b ≤ 255) && decide (c.a = 255)
    | none => true) = true := by decide +kernel

theorem palette_ok (n : Nat) (c : Rgba) (h : palette n = some c) : COk c := by
  by_cases hn : n < 256
  · have := palette_ok_fin ⟨n, hn⟩
    simp only [h, Bool.and_eq_true, decide_eq_true_eq] at this
    exact ⟨this.1.1.1, this.1.1.2, this.1.2, this.2⟩
  · have h16 : ¬ n < 16 := by omega
    have h232 : ¬ n < 232 := by omega
    simp [palette, h16, h232, hn] at h

theorem colors16_ok_all : SurfModel.Generated.colors16.all (fun t =>
    decide (t.1 ≤ 255) && decide (t.2.1 ≤ 255) && decide (t.2.2.1 ≤ 255) && decide (t.2.2.2 = 255)) = true := by decide

theorem colors16_ok (i : Nat) (c : Rgba) (h : (SurfModel.Generated.colors16[i]?).map colorOf = some c) : COk c := by
  cases ht : SurfModel.Generated.colors16[i]? with
  | none => rw [ht] at h; cases h
  | some t =>
    rw [ht] at h
    simp only [Option.map_some, Option.some.injEq] at h
    subst h
    have := List.all_eq_true.mp colors16_ok_all t (List.mem_of_getElem? ht)
    simp only [Bool.and_eq_true, decide_eq_true_eq] at this
    exact ⟨this.1.1.1, this.1.1.2, this.1.2, this.2⟩

theorem toU8_le (x : Option Nat) (r : Nat) (h : x.bind toU8 = some r) : r ≤ 255 := by
  cases x with
  | none => cases h
  | some v =>
    simp only [Option.bind_some, toU8] at h
    split at h
    · cases h; assumption
    · cases h

theorem toU8_le' (x r : Nat) (h : toU8 x = some r) : r ≤ 255 := toU8_le (some x) r h

theorem sgrColor_ok (cmds : List (List Nat)) (colon : Bool) (c : Rgba) (h : (sgrColor cmds colon).1 = some c) : COk c := by
  unfold sgrColor at h
  split at h
  · cases h
  · rename_i c0 rest
    split at h
    · cases h
    · -- palette
      split at h
      · cases h
      · split at h
        · cases h
        · exact palette_ok _ c h
    · -- rgb
      simp only at h
      split at h
      · -- semicolon form
        split at h
        · cases h
        · rename_i r hr
          split at h
          · cases h
          · rename_i g hg
            split at h
            · cases h
            · rename_i b hb
              simp only [Option.some.injEq] at h
              subst h
              exact ⟨toU8_le _ _ hr, toU8_le _ _ hg, toU8_le _ _ hb, rfl⟩
      · -- colon form
        split at h
        · cases h
        · rename_i r g b _
          split at h
          · rename_i r' g' b' hr hg hb
            simp only [Option.some.injEq] at h
            subst h
            exact ⟨toU8_le' _ _ hr, toU8_le' _ _ hg, toU8_le' _ _ hb, rfl⟩
          · cases h
    · cases h

theorem sgrFaceStep_ok (fm : FMod) (g : List Nat) (rest : List (List Nat)) (h : FModOk fm) :
    FModOk (sgrFaceStep fm g rest).1 := by
  obtain ⟨hfg, hbg, hu⟩ := h
  unfold sgrFaceStep
  simp only
  split
  all_goals refine ⟨fun c hc => ?_, fun c hc => ?_, fun k hk => ?_⟩
  all_goals (try simp only at hc)
  all_goals (try simp only at hk)
  all_goals (try (repeat' split at hc))
  all_goals (try (repeat' split at hk))
  all_goals (try simp only at hc)
  all_goals (try simp only at hk)
  all_goals first
    | exact hfg c hc
    | exact hbg c hc
    | exact hu k hk
    | exact sgrColor_ok _ _ c hc
    | exact colors16_ok _ c hc
    | (cases hc; done)
    | (cases hk; done)
    | (simp only [Option.some.injEq] at hk; omega)
    | skip

theorem sgrFaceLoop_ok (fm : FMod) (groups : List (List Nat)) (h : FModOk fm) : FModOk (sgrFaceLoop fm groups) := by
  fun_induction sgrFaceLoop fm groups with
  | case1 fm => exact h
  | case2 fm group rest r ih => exact ih (sgrFaceStep_ok fm group rest h)

/-- whatever the parameter bytes, `sgr_face` yields opaque 8-bit colours and one of the six underline styles -/
theorem sgrFace_ok (data : List Nat) : FModOk (sgrFace data) :=
  sgrFaceLoop_ok _ _ ⟨(by intro c hc; simp at hc), (by intro c hc; simp at hc), (by intro k hk; simp at hk)⟩

theorem apply_ok (m : FMod) (d : DFace) (hm : FModOk m) (hd : FaceOk d) : FaceOk (apply m d) := by
  obtain ⟨mfg, mbg, mu⟩ := hm
  obtain ⟨reset, fg, bg, ul, ulc, bold, italic, blink, strike⟩ := m
  simp only at mfg mbg mu
  have h0 : FaceOk (if reset then ({} : DFace) else d) := by
    cases reset
    · exact hd
    · exact ⟨(by intro c hc; simp at hc), (by intro c hc; simp at hc), (by simp)⟩
  unfold SurfModel.Sgr.apply
  simp only
  generalize (if reset = true then ({} : DFace) else d) = d0 at h0 ⊢
  obtain ⟨d1, d2, d3⟩ := h0
  refine ⟨?_, ?_, ?_⟩
  · cases fg with
    | none => cases bg <;> (rcases ul with _ | _ | k) <;> simpa using d1
    | some c =>
      have := mfg c rfl
      cases bg <;> (rcases ul with _ | _ | k) <;> (intro c' hc'; simp at hc'; subst hc'; exact this)
  · cases bg with
    | none => cases fg <;> (rcases ul with _ | _ | k) <;> simpa using d2
    | some c =>
      have := mbg c rfl
      cases fg <;> (rcases ul with _ | _ | k) <;> (intro c' hc'; simp at hc'; subst hc'; exact this)
  · rcases ul with _ | _ | k
    · cases fg <;> cases bg <;> simpa using d3
    · cases fg <;> cases bg <;> simp
    · have := mu (k + 1) rfl
      cases fg <;> cases bg <;> simpa using this

/-! ## the abstract command automaton on the two kinds of tokens -/

theorem toNat_ofNat_lt (x : Nat) (h : x < 256) : (UInt8.ofNat x).toNat = x := by
  simp [Nat.mod_eq_of_lt h]

/-- inside the parameters any byte of `0-9 : ;` keeps the automaton there, `m` completes the sequence -/
theorem cmdAbs_params (ps : List Nat) (h : ∀ b ∈ ps, 48 ≤ b ∧ b ≤ 59) (s : Nat) (hs : s = 10 ∨ s = 11 ∨ s = 12) :
    runA cmdAbs.toAuto s (bytes (ps ++ [109])) = some 13 := by
  induction ps generalizing s with
  | nil =>
    rcases hs with rfl | rfl | rfl <;> simp [bytes, runA, cmdAbs, cmdStep]
  | cons b r ih =>
    have hb := h b (by simp)
    have hlt : b < 256 := by omega
    simp only [List.cons_append, bytes_cons, runA]
    have : ∃ s', cmdAbs.step s (UInt8.ofNat b) = some s' ∧ (s' = 10 ∨ s' = 11 ∨ s' = 12) := by
      by_cases h58 : b ≤ 58
      · refine ⟨11, ?_, by simp⟩
        rcases hs with rfl | rfl | rfl <;> simp [cmdAbs, cmdStep, toNat_ofNat_lt b hlt, hb.1, h58]
      · have : b = 59 := by omega
        subst this
        refine ⟨12, ?_, by simp⟩
        rcases hs with rfl | rfl | rfl <;> simp [cmdAbs, cmdStep]
    obtain ⟨s', h1, h2⟩ := this
    rw [h1]
    simp only [Option.bind_some]
    exact ih (fun x hx => h x (by simp [hx])) s' h2

theorem cmdAbs_run_sgr (ps : List Nat) (h : ∀ b ∈ ps, 48 ≤ b ∧ b ≤ 59) :
    runA cmdAbs.toAuto cmdAbs.start (bytes (27 :: 91 :: (ps ++ [109]))) = some 13 := by
  simp only [bytes_cons, runA]
  have h1 : cmdAbs.step cmdAbs.start (UInt8.ofNat 27) = some 9 := by simp [cmdAbs, cmdStep]
  have h2 : cmdAbs.step 9 (UInt8.ofNat 91) = some 10 := by simp [cmdAbs, cmdStep]
  rw [h1]; simp only [Option.bind_some]
  rw [h2]; simp only [Option.bind_some]
  exact cmdAbs_params ps h 10 (by simp)

/-- one step of the abstract automaton on a byte given as a number -/
def st (s x : Nat) : Option Nat := cmdAbs.step s (UInt8.ofNat x)

theorem runA_step (s t : Nat) (x : Nat) (w : List UInt8) (h : st s x = some t) :
    runA cmdAbs.toAuto s (UInt8.ofNat x :: w) = runA cmdAbs.toAuto t w := by
  unfold st at h
  simp only [runA, h, Option.bind_some]

macro "stepcase" x:term : tactic =>
  `(tactic| (simp only [st, cmdAbs, cmdStep, SurfModel.TextLayout.utf8Step, toNat_ofNat_lt $x (by omega)]
             repeat' split
             all_goals first | rfl | omega))

theorem st0_ascii (x : Nat) (h : x < 128) (hne : x ≠ 27) : st 0 x = some 8 := by stepcase x
theorem st0_two (x : Nat) (h : 0xC2 ≤ x ∧ x ≤ 0xDF) : st 0 x = some 1 := by stepcase x
theorem st0_e0_x (x : Nat) (h : x = 0xE0) : st 0 x = some 4 := by stepcase x
theorem st0_e0 : st 0 0xE0 = some 4 := st0_e0_x _ rfl
theorem st0_three (x : Nat) (h : (0xE1 ≤ x ∧ x ≤ 0xEC) ∨ x = 0xEE ∨ x = 0xEF) : st 0 x = some 2 := by stepcase x
theorem st0_ed_x (x : Nat) (h : x = 0xED) : st 0 x = some 5 := by stepcase x
theorem st0_ed : st 0 0xED = some 5 := st0_ed_x _ rfl
theorem st0_f0_x (x : Nat) (h : x = 0xF0) : st 0 x = some 6 := by stepcase x
theorem st0_f0 : st 0 0xF0 = some 6 := st0_f0_x _ rfl
theorem st0_four (x : Nat) (h : 0xF1 ≤ x ∧ x ≤ 0xF3) : st 0 x = some 3 := by stepcase x
theorem st0_f4_x (x : Nat) (h : x = 0xF4) : st 0 x = some 7 := by stepcase x
theorem st0_f4 : st 0 0xF4 = some 7 := st0_f4_x _ rfl
theorem st1_tail (x : Nat) (h : 0x80 ≤ x ∧ x ≤ 0xBF) : st 1 x = some 8 := by stepcase x
theorem st2_tail (x : Nat) (h : 0x80 ≤ x ∧ x ≤ 0xBF) : st 2 x = some 1 := by stepcase x
theorem st3_tail (x : Nat) (h : 0x80 ≤ x ∧ x ≤ 0xBF) : st 3 x = some 2 := by stepcase x
theorem st4_tail (x : Nat) (h : 0xA0 ≤ x ∧ x ≤ 0xBF) : st 4 x = some 1 := by stepcase x
theorem st5_tail (x : Nat) (h : 0x80 ≤ x ∧ x ≤ 0x9F) : st 5 x = some 1 := by stepcase x
theorem st6_tail (x : Nat) (h : 0x90 ≤ x ∧ x ≤ 0xBF) : st 6 x = some 2 := by stepcase x
theorem st7_tail (x : Nat) (h : 0x80 ≤ x ∧ x ≤ 0x8F) : st 7 x = some 2 := by stepcase x

/-- the UTF-8 encoding of a scalar value other than `ESC` is read as one complete character -/
theorem cmdAbs_run_utf8 (c : Nat) (hs : isScalar c = true) (hne : c ≠ 27) :
    runA cmdAbs.toAuto cmdAbs.start (bytes (utf8 c)) = some 8 := by
  obtain ⟨hlt, hsur⟩ := SurfProofs.ProtoText.scalar_lt c hs
  have hstart : cmdAbs.start = 0 := rfl
  rw [hstart]
  unfold utf8
  by_cases h1 : c < 0x80
  · simp only [h1, if_true, bytes, List.map_cons, List.map_nil]
    rw [runA_step 0 8 c [] (st0_ascii c h1 hne)]; rfl
  by_cases h2 : c < 0x800
  · simp only [h1, h2, if_true, if_false, bytes, List.map_cons, List.map_nil]
    rw [runA_step 0 1 _ _ (st0_two _ (by omega)), runA_step 1 8 _ _ (st1_tail _ (by omega))]; rfl
  by_cases h3 : c < 0x10000
  · simp only [h1, h2, h3, if_true, if_false, bytes, List.map_cons, List.map_nil]
    by_cases ha : c / 4096 = 0
    · rw [ha, runA_step 0 4 _ _ st0_e0, runA_step 4 1 _ _ (st4_tail _ (by omega)),
        runA_step 1 8 _ _ (st1_tail _ (by omega))]; rfl
    by_cases hb : c / 4096 = 13
    · rw [hb, runA_step 0 5 _ _ st0_ed, runA_step 5 1 _ _ (st5_tail _ (by omega)),
        runA_step 1 8 _ _ (st1_tail _ (by omega))]; rfl
    · rw [runA_step 0 2 _ _ (st0_three _ (by omega)), runA_step 2 1 _ _ (st2_tail _ (by omega)),
        runA_step 1 8 _ _ (st1_tail _ (by omega))]; rfl
  · simp only [h1, h2, h3, if_false, bytes, List.map_cons, List.map_nil]
    by_cases ha : c / 262144 = 0
    · rw [ha, runA_step 0 6 _ _ st0_f0, runA_step 6 2 _ _ (st6_tail _ (by omega)),
        runA_step 2 1 _ _ (st2_tail _ (by omega)), runA_step 1 8 _ _ (st1_tail _ (by omega))]; rfl
    by_cases hb : c / 262144 = 4
    · rw [hb, runA_step 0 7 _ _ st0_f4, runA_step 7 2 _ _ (st7_tail _ (by omega)),
        runA_step 2 1 _ _ (st2_tail _ (by omega)), runA_step 1 8 _ _ (st1_tail _ (by omega))]; rfl
    · rw [runA_step 0 3 _ _ (st0_four _ (by omega)), runA_step 3 2 _ _ (st3_tail _ (by omega)),
        runA_step 2 1 _ _ (st2_tail _ (by omega)), runA_step 1 8 _ _ (st1_tail _ (by omega))]; rfl


/-! ## the compiled command automaton on the two kinds of tokens -/

/-- a word the abstract automaton reads into one of its two final states is read by the compiled command
    automaton into an accepting, terminal state with the corresponding least tag -/
theorem cmd_token_model (w : List UInt8) (t : Nat) (ht : t = 8 ∨ t = 13)
    (hrun : runA cmdAbs.toAuto cmdAbs.start w = some t) :
    ∃ T, runA commandModelAuto.toAuto commandModelAuto.start w = some T ∧
      commandModelAuto.accepting T = true ∧ commandModelAuto.terminal T = true ∧
      commandModelAuto.tags T = cmdTags t := by
  obtain ⟨T, hT, hR⟩ := cmd_bisim.run_some w t hrun
  refine ⟨T, hT, ?_, ?_, cmd_tags t T hR⟩
  · have := cmd_bisim.acc t T hR
    rw [← this]; rcases ht with rfl | rfl <;> rfl
  · have := cmd_bisim.term t T hR
    rw [← this]; rcases ht with rfl | rfl <;> rfl

/-- `terminal` is reported exactly for the states without successor (`NFA::compile`: the row of the state in
    the DFA table is empty) -/
def TermExact {σ : Type} (A : Auto σ) : Prop := ∀ q, A.terminal q = true ↔ ∀ b, A.step q b = none

theorem TermExact.termOk {σ : Type} {A : Auto σ} (h : TermExact A) : A.TermOk := fun q hq => (h q).mp hq

theorem commandModelAuto_termExact : TermExact commandModelAuto.toAuto :=
  fun S => SurfProofs.C15.C15_terminal_iff commandRe.toNFA S

/-- the same for every tagged automaton that realises the command grammar (same live words, accepting flags and
    tag sets as the compiled automaton: `RealisesCommand`, C02) and reports `terminal` exactly for the states
    without successor -/
theorem cmd_token {σ : Type} (A : TAuto σ) (hR : RealisesCommand A) (hT : TermExact A.toAuto)
    (w : List UInt8) (t : Nat) (ht : t = 8 ∨ t = 13) (hrun : runA cmdAbs.toAuto cmdAbs.start w = some t) :
    ∃ q, runA A.toAuto A.start w = some q ∧ A.accepting q = true ∧ A.terminal q = true ∧
      A.leastTag q = (cmdTags t).head? := by
  obtain ⟨T, hT0, hacc, hterm, htags⟩ := cmd_token_model w t ht hrun
  have hrunD : commandDFA.run w = some T := by
    rw [← hT0, commandModelAuto_run]; rfl
  have hr := hR w
  rw [hrunD] at hr
  cases hq : runA A.toAuto A.start w with
  | none => rw [hq] at hr; simp at hr
  | some q =>
    rw [hq] at hr
    simp only [Option.map_some, Option.some.injEq, Prod.mk.injEq] at hr
    refine ⟨q, rfl, by rw [hr.1]; exact hacc, ?_, ?_⟩
    · rw [hT q]
      intro b
      cases hs : A.step q b with
      | none => rfl
      | some q' =>
        exfalso
        have h1 : runA A.toAuto A.start (w ++ [b]) = some q' := runA_snoc A.toAuto A.start q q' w b hq hs
        have h2 := hR (w ++ [b])
        rw [h1, SurfProofs.Subset.run_append, hrunD] at h2
        have h3 : commandDFA.transition T b = none := commandModelAuto_termOk T hterm b
        simp [DFA.transitionMany, h3] at h2
    · simp only [TAuto.leastTag, hr.2]
      exact congrArg List.head? htags

/-! ## payload of the two tokens -/

theorem commandOfItem_sgr {σ : Type} (A : TAuto σ) (ps : List Nat) (hps : ∀ b ∈ ps, b < 256) (T : σ)
    (htag : A.leastTag T = some matcherBase) :
    commandOfItem A (.tok (bytes (27 :: 91 :: (ps ++ [109]))) T) = .ok (.command (sgrFace ps)) := by
  have hB : ∀ b ∈ (27 :: 91 :: (ps ++ [109])), b < 256 := by
    intro b hb
    simp only [List.mem_cons, List.mem_append, List.not_mem_nil, or_false] at hb
    rcases hb with rfl | rfl | hb | rfl
    · omega
    · omega
    · exact hps b hb
    · omega
  have hnl : ¬ matcherBase < matcherBase := Nat.lt_irrefl _
  have hslice : slice? (27 :: 91 :: (ps ++ [109])) 2 ((27 :: 91 :: (ps ++ [109])).length - 1) = .ok ps := by
    have := slice?_frame [27, 91] ps [109] 2 ((27 :: 91 :: (ps ++ [109])).length - 1) rfl (by simp; omega)
    simpa using this
  simp only [commandOfItem, htag, SurfProofs.ProtoBytes.natBytes_bytes _ hB, decodeCommandTok, hnl, if_false,
    Nat.sub_self, decodeCommand, decodeSgr, decodeSgrBody]
  rw [sub?_ok _ _ (by simp)]
  simp only [hslice]

theorem commandOfItem_char {σ : Type} (A : TAuto σ) (c : Nat) (hs : isScalar c = true) (T : σ)
    (htag : A.leastTag T = some (matcherBase + 1)) :
    commandOfItem A (.tok (bytes (utf8 c)) T) = .ok (.char c) := by
  have hlt := (SurfProofs.ProtoText.scalar_lt c hs).1
  have hnl : ¬ matcherBase + 1 < matcherBase := by omega
  have hsub : matcherBase + 1 - matcherBase = 1 := by omega
  simp only [commandOfItem, htag, SurfProofs.ProtoBytes.natBytes_bytes _ (SurfProofs.ProtoBytes.B_utf8 c hlt),
    decodeCommandTok, hnl, if_false, hsub, decodeCommand, SurfProofs.ProtoText.utf8Decode_utf8 c hs]

/-! ## scripts -/

/-- a piece of a script: the parameter bytes of one SGR sequence (what stands between `ESC [` and `m`), or a
    run of text characters (code points) -/
inductive Piece where
  | sgr (params : List Nat)
  | text (chars : List Nat)

/-- the bytes written for a piece -/
def Piece.bytes : Piece → List Nat
  | .sgr ps => 27 :: 91 :: (ps ++ [109])
  | .text cs => cs.flatMap utf8

/-- parameters over `0-9 : ;`; text of Unicode scalar values other than `ESC` -/
def Piece.Ok : Piece → Prop
  | .sgr ps => ∀ b ∈ ps, 48 ≤ b ∧ b ≤ 59
  | .text cs => ∀ c ∈ cs, isScalar c = true ∧ c ≠ 27

/-- what `TTYCommandDecoder` should report for a piece -/
def Piece.events : Piece → List Event
  | .sgr ps => [.command (sgrFace ps)]
  | .text cs => cs.map .char

/-- the byte stream of a script -/
def scriptBytes (script : List Piece) : List UInt8 := SurfModel.Grammar.bytes (script.flatMap Piece.bytes)

theorem utf8_ne_nil (c : Nat) : utf8 c ≠ [] := by
  unfold utf8
  repeat' split
  all_goals simp

theorem bytes_ne_nil (l : List Nat) (h : l ≠ []) : SurfModel.Grammar.bytes l ≠ [] := by
  cases l with
  | nil => exact absurd rfl h
  | cons a r => simp [SurfModel.Grammar.bytes]

theorem tokenize_nil {σ} (A : Auto σ) : tokenize A [] = ([], []) := by
  rw [tokenize]; simp

/-- one piece is tokenised into its own tokens whatever follows, and each token decodes to its event -/
theorem piece_tokenize {σ : Type} (A : TAuto σ) (hR : RealisesCommand A) (hT : TermExact A.toAuto)
    (p : Piece) (hp : p.Ok) (rest : List UInt8) :
    ∃ items, tokenize A.toAuto (SurfModel.Grammar.bytes p.bytes ++ rest) =
        (items ++ (tokenize A.toAuto rest).1, (tokenize A.toAuto rest).2) ∧
      items.map (commandOfItem A) = p.events.map .ok := by
  cases p with
  | sgr ps =>
    obtain ⟨T, hrun, hacc, hterm, htag⟩ := cmd_token A hR hT _ 13 (Or.inr rfl) (cmdAbs_run_sgr ps hp)
    have hne : SurfModel.Grammar.bytes (27 :: 91 :: (ps ++ [109])) ≠ [] := bytes_ne_nil _ (by simp)
    refine ⟨[.tok (SurfModel.Grammar.bytes (27 :: 91 :: (ps ++ [109]))) T], ?_, ?_⟩
    · simp only [Piece.bytes]
      rw [SurfProofs.ProtoStream.tokenize_terminal _ hT.termOk _ rest T hne hrun hacc hterm]
      rfl
    · simp only [List.map_cons, List.map_nil, Piece.events]
      rw [commandOfItem_sgr A ps (fun b hb => by have := hp b hb; omega) T (by rw [htag]; rfl)]
  | text cs =>
    induction cs generalizing rest with
    | nil =>
      refine ⟨[], ?_, rfl⟩
      simp [Piece.bytes, SurfModel.Grammar.bytes]
    | cons c cs ih =>
      have hc := hp c (by simp)
      obtain ⟨T, hrun, hacc, hterm, htag⟩ := cmd_token A hR hT _ 8 (Or.inl rfl) (cmdAbs_run_utf8 c hc.1 hc.2)
      obtain ⟨items, h1, h2⟩ := ih rest (fun x hx => hp x (by simp [hx]))
      have hne : SurfModel.Grammar.bytes (utf8 c) ≠ [] := bytes_ne_nil _ (utf8_ne_nil c)
      refine ⟨.tok (SurfModel.Grammar.bytes (utf8 c)) T :: items, ?_, ?_⟩
      · simp only [Piece.bytes, List.flatMap_cons, bytes_append, List.append_assoc] at h1 ⊢
        rw [SurfProofs.ProtoStream.tokenize_terminal _ hT.termOk _ _ T hne hrun hacc hterm, h1]
        rfl
      · simp only [List.map_cons, Piece.events] at h2 ⊢
        rw [commandOfItem_char A c hc.1 T (by rw [htag]; rfl), h2]

/-- a whole script: every byte belongs to a token, nothing is left pending -/
theorem script_tokenize {σ : Type} (A : TAuto σ) (hR : RealisesCommand A) (hT : TermExact A.toAuto)
    (script : List Piece) (h : ∀ p ∈ script, p.Ok) :
    ∃ items, tokenize A.toAuto (scriptBytes script) = (items, []) ∧
      items.map (commandOfItem A) = (script.flatMap Piece.events).map .ok := by
  induction script with
  | nil => exact ⟨[], by simp [scriptBytes, SurfModel.Grammar.bytes, tokenize_nil], rfl⟩
  | cons p rest ih =>
    obtain ⟨items2, h1, h2⟩ := ih (fun x hx => h x (by simp [hx]))
    obtain ⟨items1, g1, g2⟩ := piece_tokenize A hR hT p (h p (by simp)) (scriptBytes rest)
    refine ⟨items1 ++ items2, ?_, ?_⟩
    · simp only [scriptBytes, List.flatMap_cons, bytes_append] at g1 h1 ⊢
      rw [g1, h1]
    · simp only [List.map_append, List.flatMap_cons, g2, h2]

/-! ## `TTYCellWriter` over the command decoder, and the reference run -/

/-- what the loop of `TTYCellWriter::write` distinguishes (C09 model) -/
abbrev WCmd := SurfModel.TextLayout.Cmd

/-- the `match cmd` of `TTYCellWriter::write` on what `TTYCommandDecoder::decode` returns: a character is put,
    a face modification `m` replaces the writer's face `f` by `m.apply(f)`, everything else is skipped
    (`TerminalCommand::Image` cannot come out of the command decoder; a panic of the payload decoder —
    excluded by `C02_no_panic_stream_command_model` — has no place in `Cmd` and would be skipped as well) -/
def cmdOfEvent : Except Stop Event → WCmd
  | .ok (.char c) => .char c
  | .ok (.command m) => .face (liftFace (SurfModel.Sgr.apply m))
  | _ => .other

/-- the payload decoder of `tty_writer()`: `TTYCommandDecoder` on one item of the tokenizer, then the match -/
def ttyInterp {σ : Type} (A : TAuto σ) (it : Item σ) : WCmd := cmdOfEvent (commandOfItem A it)

/-- `put_char` for every character of a run, results ignored -/
def putChars (w : Writer) : List Nat → Option Writer
  | [] => some w
  | c :: cs =>
    match putChar w c with
    | none => none
    | some (w', _) => putChars w' cs

/-- the reference SGR machine on an attribute state: the parameters are read as numbers, given their SGR
    meaning (`sgrSem`), applied in order (`applySgr`); then what a cell face cannot hold is dropped
    (`normAttr`: palette indices resolved to RGB, no underline colour) -/
def refStep (ps : List Nat) (a : Attr) : Attr :=
  match params? ps with
  | some p => normAttr ((sgrSem p).foldl applySgr a)
  | none => a

/-- a colour of the attribute state as the writer holds it: opaque RGBA as the number `r g b 255` -/
def colorOfAttr : Option ((Nat × Nat × Nat) ⊕ Nat) → Option Nat
  | some (.inl (r, g, b)) => some (((r * 256 + g) * 256 + b) * 256 + 255)
  | _ => none

/-- the writer's face for an attribute state -/
def faceOfAttr (a : Attr) : WFace :=
  ⟨colorOfAttr a.fg, colorOfAttr a.bg,
   a.under + 8 * (b2n a.bold + 2 * b2n a.italic + 4 * b2n a.blink + 8 * b2n a.reverse + 16 * b2n a.strike)⟩

/-- **reference run of a script**: the attribute state is folded through the SGR sequences by the reference
    machine; every text character is put (`put_char`) by a writer whose face is the face of the attribute
    state reached by the sequences that precede it; `none` = `put_char` panicked -/
def refRun (w : Writer) (a : Attr) : List Piece → Option Writer
  | [] => some { w with face := faceOfAttr a }
  | .sgr ps :: rest => refRun w (refStep ps a) rest
  | .text cs :: rest =>
    match putChars { w with face := faceOfAttr a } cs with
    | none => none
    | some w' => refRun w' a rest

/-- the decoder and `FaceModify::apply` agree with the reference machine on this parameter string
    (`C06_apply_sgr`: true of every string made of well-formed items) -/
def SgrSem (ps : List Nat) : Prop :=
  ∀ f : DFace, refApply ps f = some (attrOfDFace (SurfModel.Sgr.apply (sgrFace ps) f))

theorem refStep_of_sem (ps : List Nat) (h : SgrSem ps) (d : DFace) :
    refStep ps (attrOfDFace d) = attrOfDFace (SurfModel.Sgr.apply (sgrFace ps) d) := by
  have := h d
  unfold refApply at this
  unfold refStep
  cases hp : params? ps with
  | none => rw [hp] at this; cases this
  | some p =>
    rw [hp] at this
    simpa using this

theorem faceOfAttr_pack (d : DFace) (h : FaceOk d) : faceOfAttr (attrOfDFace d) = packFace d := by
  obtain ⟨fg, bg, under, bold, italic, blink, reverse, strike⟩ := d
  obtain ⟨hfg, hbg, _⟩ := h
  simp only at hfg hbg
  have hc : ∀ o : Option Rgba, (∀ c, o = some c → COk c) →
      colorOfAttr (o.map fun c => Sum.inl (c.r, c.g, c.b)) = o.map packColor := by
    intro o ho
    cases o with
    | none => rfl
    | some c =>
      have := (ho c rfl).2.2.2
      simp [colorOfAttr, packColor, this]
  simp only [faceOfAttr, attrOfDFace, packFace, hc fg hfg, hc bg hbg]

theorem putPlain_face (w : Writer) (cell : Cell) (w' : Writer) (b : Bool) (h : putPlain w cell = some (w', b)) :
    w'.face = w.face := by
  unfold putPlain at h
  simp only at h
  repeat' split at h
  all_goals (cases h <;> rfl)

theorem putChars_face (w : Writer) (cs : List Nat) (w' : Writer) (h : putChars w cs = some w') : w'.face = w.face := by
  induction cs generalizing w with
  | nil => simp [putChars] at h; rw [← h]
  | cons c cs ih =>
    simp only [putChars] at h
    split at h
    · cases h
    · rename_i w1 b hp
      rw [ih w1 h]
      exact putPlain_face w _ w1 b hp

theorem applyCmds_chars (w : Writer) (cs : List Nat) :
    applyCmds w (cs.map SurfModel.TextLayout.Cmd.char) = putChars w cs := by
  induction cs generalizing w with
  | nil => rfl
  | cons c cs ih =>
    simp only [List.map_cons, applyCmds, applyCmd, putChars]
    cases putChar w c with
    | none => rfl
    | some r => obtain ⟨w1, b⟩ := r; exact ih w1

theorem refRun_face (w : Writer) (f : WFace) (a : Attr) (script : List Piece) :
    refRun { w with face := f } a script = refRun w a script := by
  induction script generalizing a with
  | nil => rfl
  | cons p rest ih =>
    cases p with
    | sgr ps => exact ih _
    | text cs => rfl

/-- the commands the decoder yields for a script, applied by the writer = the reference run -/
theorem applyCmds_script (script : List Piece) (hsem : ∀ ps, Piece.sgr ps ∈ script → SgrSem ps)
    (w : Writer) (d : DFace) (hd : FaceOk d) (hf : w.face = packFace d) :
    applyCmds w (((script.flatMap Piece.events).map Except.ok).map cmdOfEvent) = refRun w (attrOfDFace d) script := by
  induction script generalizing w d with
  | nil =>
    simp only [List.flatMap_nil, List.map_nil, applyCmds, refRun, faceOfAttr_pack d hd, ← hf]
  | cons p rest ih =>
    have hrest : ∀ ps, Piece.sgr ps ∈ rest → SgrSem ps := fun ps h => hsem ps (List.mem_cons_of_mem _ h)
    cases p with
    | sgr ps =>
      have hs := hsem ps (by simp)
      have hd' := apply_ok (sgrFace ps) d (sgrFace_ok ps) hd
      simp only [List.flatMap_cons, Piece.events, List.map_cons, cmdOfEvent,
        List.cons_append, List.nil_append, applyCmds, applyCmd, refRun]
      rw [hf, liftFace_pack _ d hd, refStep_of_sem ps hs d,
        ih hrest { w with face := packFace (SurfModel.Sgr.apply (sgrFace ps) d) } _ hd' rfl, refRun_face]
    | text cs =>
      have hw : { w with face := faceOfAttr (attrOfDFace d) } = w := by
        rw [faceOfAttr_pack d hd, ← hf]
      simp only [List.flatMap_cons, Piece.events, List.map_append, List.map_map, applyCmds_append, refRun, hw]
      have hmap : List.map (cmdOfEvent ∘ Except.ok ∘ Event.char) cs = cs.map SurfModel.TextLayout.Cmd.char := by
        apply List.map_congr_left; intro c _; rfl
      rw [hmap, applyCmds_chars]
      cases hp : putChars w cs with
      | none => rfl
      | some w1 =>
        simp only [Option.bind_some]
        have hf1 : w1.face = packFace d := by rw [putChars_face w cs w1 hp, hf]
        have := ih hrest w1 d hd hf1
        simpa [List.map_map] using this

theorem stateOf_nil {σ} (A : Auto σ) : stateOf A [] = init A := rfl

/-- **`tty_writer()` on a script, under every partition of its bytes.** -/
theorem tty_script {σ : Type} (A : TAuto σ) (hR : RealisesCommand A) (hT : TermExact A.toAuto)
    (script : List Piece) (hok : ∀ p ∈ script, p.Ok) (hsem : ∀ ps, Piece.sgr ps ∈ script → SgrSem ps)
    (w : Writer) (d : DFace) (hd : FaceOk d) (hf : w.face = packFace d)
    (chunks : List (List UInt8)) (hc : chunks.flatten = scriptBytes script) :
    ttySession A.toAuto (ttyInterp A) w (init A.toAuto) chunks =
      match refRun w (attrOfDFace d) script with
      | none => .error .panic
      | some w' => .ok (w', init A.toAuto) := by
  obtain ⟨per, h1, h2⟩ := SurfProofs.C03.C03_tokenize_reads A.toAuto hT.termOk chunks
  obtain ⟨items, g1, g2⟩ := script_tokenize A hR hT script hok
  rw [hc, g1] at h1 h2
  simp only at h1 h2
  rw [stateOf_nil] at h1
  rw [ttySession_items _ _ chunks w _ _ per h1, h2]
  have : items.map (ttyInterp A) = ((script.flatMap Piece.events).map Except.ok).map cmdOfEvent := by
    rw [← g2, List.map_map]; rfl
  rw [this, applyCmds_script script hsem w d hd hf]
  cases refRun w (attrOfDFace d) script <;> rfl
end SurfProofs.Lemmas.SgrWriter
