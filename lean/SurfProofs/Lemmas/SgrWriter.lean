import SurfProofs.Lemmas.SgrSem
import SurfProofs.Lemmas.SgrColorItems
import SurfProofs.Lemmas.TextChunk
import SurfProofs.Lemmas.CommandAutoBisim
import SurfProofs.Lemmas.ProtoStream
import SurfProofs.Lemmas.ProtoText
import SurfProofs.Lemmas.ProtoBytes
import SurfProofs.C03
/-!
Lemmas for `C06_writer`: ANSI-coloured text written through `tty_writer()`.

* faces: the unpacked face of the SGR model (`DFace`) against the face word of the C09 writer model
  (`packFace` / `unpackFace`), and what `sgr_face` can produce (`sgrFace_ok`: opaque 8-bit colours, six underline
  styles — for every parameter string);
* the command automaton: `ESC [ <0-9:;>* m` and the UTF-8 encoding of a scalar value other than `ESC` are read by
  the compiled command automaton as one complete (accepting, terminal) token with the tag of the SGR resp.
  character matcher (through the kernel-checked bisimulation with a small hand-written automaton,
  `SurfProofs.CommandAutoBisim`), hence cut off by the tokenizer whatever follows (`tokenize_terminal`, C04);
* the payload of the two tokens (`sgr_face` of the parameter bytes; the character);
* `tty_script`: the whole `TTYCellWriter` session on a script under any partition of its bytes.
-/
namespace SurfProofs.Lemmas.SgrWriter
open SurfModel.Vt SurfModel.Sgr SurfModel.Tokenizer SurfModel.Grammar SurfModel.Payload SurfModel.Stream
  SurfModel.Decoders SurfModel.Automata SurfModel.TextLayout
open SurfProofs.CommandAutoBisim SurfProofs.AutoSim SurfProofs.DecoderStream SurfProofs.ProtoBasics
  SurfProofs.Lemmas.TextChunk

/-! ## faces: the unpacked face of the SGR model and the writer's face word -/

/-- the writer's face (C09 model) -/
abbrev WFace := SurfModel.TextLayout.Face

/-- an 8-bit opaque colour -/
def COk (c : Rgba) : Prop := c.r ≤ 255 ∧ c.g ≤ 255 ∧ c.b ≤ 255 ∧ c.a = 255

/-- a face the decoder can produce: opaque 8-bit colours, one of the six underline styles -/
def FaceOk (d : DFace) : Prop := (∀ c, d.fg = some c → COk c) ∧ (∀ c, d.bg = some c → COk c) ∧ d.under ≤ 5

def FModOk (m : FMod) : Prop :=
  (∀ c, m.fg = some c → COk c) ∧ (∀ c, m.bg = some c → COk c) ∧ (∀ k, m.underline = some k → k ≤ 5)

def b2n (b : Bool) : Nat := if b then 1 else 0

/-- `RGBA` as the number `r g b a` (big endian) -/
def packColor (c : Rgba) : Nat := ((c.r * 256 + c.g) * 256 + c.b) * 256 + c.a
def unpackColor (n : Nat) : Rgba := ⟨n / 16777216, n / 65536 % 256, n / 256 % 256, n % 256⟩

/-- `Face` of the writer model (colours and the `FaceAttrs` word as numbers): underline style in the low three
    bits, then bold, italic, blink, reverse, strike -/
def packFace (d : DFace) : WFace :=
  ⟨d.fg.map packColor, d.bg.map packColor,
   d.under + 8 * (b2n d.bold + 2 * b2n d.italic + 4 * b2n d.blink + 8 * b2n d.reverse + 16 * b2n d.strike)⟩

def unpackFace (f : WFace) : DFace :=
  { fg := f.fg.map unpackColor, bg := f.bg.map unpackColor, under := f.attrs % 8,
    bold := f.attrs / 8 % 2 == 1, italic := f.attrs / 16 % 2 == 1, blink := f.attrs / 32 % 2 == 1,
    reverse := f.attrs / 64 % 2 == 1, strike := f.attrs / 128 % 2 == 1 }

theorem unpack_packColor (c : Rgba) (h : COk c) : unpackColor (packColor c) = c := by
  obtain ⟨r, g, b, a⟩ := c
  obtain ⟨_, hg, hb, ha⟩ := h
  simp only at hg hb ha
  simp only [unpackColor, packColor, Rgba.mk.injEq]
  refine ⟨?_, ?_, ?_, ?_⟩ <;> omega

theorem unpack_packFace (d : DFace) (h : FaceOk d) : unpackFace (packFace d) = d := by
  obtain ⟨fg, bg, under, bold, italic, blink, reverse, strike⟩ := d
  obtain ⟨hfg, hbg, hu⟩ := h
  simp only at hfg hbg hu
  have hc : ∀ o : Option Rgba, (∀ c, o = some c → COk c) → (o.map packColor).map unpackColor = o := by
    intro o ho
    cases o with
    | none => rfl
    | some c => simp [unpack_packColor c (ho c rfl)]
  simp only [unpackFace, packFace, hc fg hfg, hc bg hbg, DFace.mk.injEq, true_and]
  cases bold <;> cases italic <;> cases blink <;> cases reverse <;> cases strike <;>
    simp only [b2n, if_true, if_false, Bool.false_eq_true] <;> refine ⟨by omega, ?_, ?_, ?_, ?_, ?_⟩ <;>
    simp <;> omega

/-- `FaceModify::apply` on the writer's face -/
def liftFace (g : DFace → DFace) (f : WFace) : WFace := packFace (g (unpackFace f))

theorem liftFace_pack (g : DFace → DFace) (d : DFace) (h : FaceOk d) : liftFace g (packFace d) = packFace (g d) := by
  simp [liftFace, unpack_packFace d h]

/-! ## what `sgr_face` can produce -/

theorem palette_ok_fin : ∀ n : Fin 256, (match palette n.val with
    | some c => decide (c.r ≤ 255) && decide (c.g ≤ 255) && decide (c.b ≤ 255) && decide (c.a = 255)
    | none => true) = true := by decide +kernel

theorem palette_ok (n : Nat) (c : Rgba) (h : palette n = some c) : COk c := by
  by_cases hn : n < 256
  · have := palette_ok_fin ⟨n, hn⟩
    simp only [h, Bool.and_eq_true, decide_eq_true_eq] at this
    exact ⟨this.1.1.1, this.1.1.2, this.1.2, this.2⟩
  · have h16 : ¬ n < 16 := by omega
    have h232 : ¬ n < 232 := by omega
    simp [palette, h16, h232, hn] at h

theorem colors16_ok_all : SurfModel.Generated.colors16.all (fun t =>
    decide (t.1 ≤ 255) && decide (t.2.1 ≤ 255) && decide (t.2.2.1 ≤ 255) && decide (t.2.2.2 = 255)) = true := by decide

theorem colors16_ok (i : Nat) (c : Rgba) (h : (SurfModel.Generated.colors16[i]?).map colorOf = some c) : COk c := by
  cases ht : SurfModel.Generated.colors16[i]? with
  | none => rw [ht] at h; cases h
  | some t =>
    rw [ht] at h
    simp only [Option.map_some, Option.some.injEq] at h
    subst h
    have := List.all_eq_true.mp colors16_ok_all t (List.mem_of_getElem? ht)
    simp only [Bool.and_eq_true, decide_eq_true_eq] at this
    exact ⟨this.1.1.1, this.1.1.2, this.1.2, this.2⟩

theorem toU8_le (x : Option Nat) (r : Nat) (h : x.bind toU8 = some r) : r ≤ 255 := by
  cases x with
  | none => cases h
  | some v =>
    simp only [Option.bind_some, toU8] at h
    split at h
    · cases h; assumption
    · cases h

theorem toU8_le' (x r : Nat) (h : toU8 x = some r) : r ≤ 255 := toU8_le (some x) r h

theorem sgrColor_ok (cmds : List (List Nat)) (colon : Bool) (c : Rgba) (h : (sgrColor cmds colon).1 = some c) : COk c := by
  unfold sgrColor at h
  split at h
  · cases h
  · rename_i c0 rest
    split at h
    · cases h
    · -- palette
      split at h
      · cases h
      · split at h
        · cases h
        · exact palette_ok _ c h
    · -- rgb
      simp only at h
      split at h
      · -- semicolon form
        split at h
        · cases h
        · rename_i r hr
          split at h
          · cases h
          · rename_i g hg
            split at h
            · cases h
            · rename_i b hb
              simp only [Option.some.injEq] at h
              subst h
              exact ⟨toU8_le _ _ hr, toU8_le _ _ hg, toU8_le _ _ hb, rfl⟩
      · -- colon form
        split at h
        · cases h
        · rename_i r g b _
          split at h
          · rename_i r' g' b' hr hg hb
            simp only [Option.some.injEq] at h
            subst h
            exact ⟨toU8_le' _ _ hr, toU8_le' _ _ hg, toU8_le' _ _ hb, rfl⟩
          · cases h
    · cases h

theorem sgrFaceStep_ok (fm : FMod) (g : List Nat) (rest : List (List Nat)) (h : FModOk fm) :
    FModOk (sgrFaceStep fm g rest).1 := by
  obtain ⟨hfg, hbg, hu⟩ := h
  unfold sgrFaceStep
  simp only
  split
  all_goals refine ⟨fun c hc => ?_, fun c hc => ?_, fun k hk => ?_⟩
  all_goals (try simp only at hc)
  all_goals (try simp only at hk)
  all_goals (try (repeat' split at hc))
  all_goals (try (repeat' split at hk))
  all_goals (try simp only at hc)
  all_goals (try simp only at hk)
  all_goals first
    | exact hfg c hc
    | exact hbg c hc
    | exact hu k hk
    | exact sgrColor_ok _ _ c hc
    | exact colors16_ok _ c hc
    | (cases hc; done)
    | (cases hk; done)
    | (simp only [Option.some.injEq] at hk; omega)
    | skip

theorem sgrFaceLoop_ok (fm : FMod) (groups : List (List Nat)) (h : FModOk fm) : FModOk (sgrFaceLoop fm groups) := by
  fun_induction sgrFaceLoop fm groups with
  | case1 fm => exact h
  | case2 fm group rest r ih => exact ih (sgrFaceStep_ok fm group rest h)

/-- whatever the parameter bytes, `sgr_face` yields opaque 8-bit colours and one of the six underline styles -/
theorem sgrFace_ok (data : List Nat) : FModOk (sgrFace data) :=
  sgrFaceLoop_ok _ _ ⟨(by intro c hc; simp at hc), (by intro c hc; simp at hc), (by intro k hk; simp at hk)⟩

theorem apply_ok (m : FMod) (d : DFace) (hm : FModOk m) (hd : FaceOk d) : FaceOk (apply m d) := by
  obtain ⟨mfg, mbg, mu⟩ := hm
  obtain ⟨reset, fg, bg, ul, ulc, bold, italic, blink, strike⟩ := m
  simp only at mfg mbg mu
  have h0 : FaceOk (if reset then ({} : DFace) else d) := by
    cases reset
    · exact hd
    · exact ⟨(by intro c hc; simp at hc), (by intro c hc; simp at hc), (by simp)⟩
  unfold SurfModel.Sgr.apply
  simp only
  generalize (if reset = true then ({} : DFace) else d) = d0 at h0 ⊢
  obtain ⟨d1, d2, d3⟩ := h0
  refine ⟨?_, ?_, ?_⟩
  · cases fg with
    | none => cases bg <;> (rcases ul with _ | _ | k) <;> simpa using d1
    | some c =>
      have := mfg c rfl
      cases bg <;> (rcases ul with _ | _ | k) <;> (intro c' hc'; simp at hc'; subst hc'; exact this)
  · cases bg with
    | none => cases fg <;> (rcases ul with _ | _ | k) <;> simpa using d2
    | some c =>
      have := mbg c rfl
      cases fg <;> (rcases ul with _ | _ | k) <;> (intro c' hc'; simp at hc'; subst hc'; exact this)
  · rcases ul with _ | _ | k
    · cases fg <;> cases bg <;> simpa using d3
    · cases fg <;> cases bg <;> simp
    · have := mu (k + 1) rfl
      cases fg <;> cases bg <;> simpa using this

/-! ## the abstract command automaton on the two kinds of tokens -/

theorem toNat_ofNat_lt (x : Nat) (h : x < 256) : (UInt8.ofNat x).toNat = x := by
  simp [Nat.mod_eq_of_lt h]

/-- inside the parameters any byte of `0-9 : ;` keeps the automaton there, `m` completes the sequence -/
theorem cmdAbs_params (ps : List Nat) (h : ∀ b ∈ ps, 48 ≤ b ∧ b ≤ 59) (s : Nat) (hs : s = 10 ∨ s = 11 ∨ s = 12) :
    runA cmdAbs.toAuto s (bytes (ps ++ [109])) = some 13 := by
  induction ps generalizing s with
  | nil =>
    rcases hs with rfl | rfl | rfl <;> simp [bytes, runA, cmdAbs, cmdStep]
  | cons b r ih =>
    have hb := h b (by simp)
    have hlt : b < 256 := by omega
    simp only [List.cons_append, bytes_cons, runA]
    have : ∃ s', cmdAbs.step s (UInt8.ofNat b) = some s' ∧ (s' = 10 ∨ s' = 11 ∨ s' = 12) := by
      by_cases h58 : b ≤ 58
      · refine ⟨11, ?_, by simp⟩
        rcases hs with rfl | rfl | rfl <;> simp [cmdAbs, cmdStep, toNat_ofNat_lt b hlt, hb.1, h58]
      · have : b = 59 := by omega
        subst this
        refine ⟨12, ?_, by simp⟩
        rcases hs with rfl | rfl | rfl <;> simp [cmdAbs, cmdStep]
    obtain ⟨s', h1, h2⟩ := this
    rw [h1]
    simp only [Option.bind_some]
    exact ih (fun x hx => h x (by simp [hx])) s' h2

theorem cmdAbs_run_sgr (ps : List Nat) (h : ∀ b ∈ ps, 48 ≤ b ∧ b ≤ 59) :
    runA cmdAbs.toAuto cmdAbs.start (bytes (27 :: 91 :: (ps ++ [109]))) = some 13 := by
  simp only [bytes_cons, runA]
  have h1 : cmdAbs.step cmdAbs.start (UInt8.ofNat 27) = some 9 := by simp [cmdAbs, cmdStep]
  have h2 : cmdAbs.step 9 (UInt8.ofNat 91) = some 10 := by simp [cmdAbs, cmdStep]
  rw [h1]; simp only [Option.bind_some]
  rw [h2]; simp only [Option.bind_some]
  exact cmdAbs_params ps h 10 (by simp)

/-- one step of the abstract automaton on a byte given as a number -/
def st (s x : Nat) : Option Nat := cmdAbs.step s (UInt8.ofNat x)

theorem runA_step (s t : Nat) (x : Nat) (w : List UInt8) (h : st s x = some t) :
    runA cmdAbs.toAuto s (UInt8.ofNat x :: w) = runA cmdAbs.toAuto t w := by
  unfold st at h
  simp only [runA, h, Option.bind_some]

macro "stepcase" x:term : tactic =>
  `(tactic| (simp only [st, cmdAbs, cmdStep, SurfModel.TextLayout.utf8Step, toNat_ofNat_lt $x (by omega)]
             repeat' split
             all_goals first | rfl | omega))

theorem st0_ascii (x : Nat) (h : x < 128) (hne : x ≠ 27) : st 0 x = some 8 := by stepcase x
theorem st0_two (x : Nat) (h : 0xC2 ≤ x ∧ x ≤ 0xDF) : st 0 x = some 1 := by stepcase x
theorem st0_e0_x (x : Nat) (h : x = 0xE0) : st 0 x = some 4 := by stepcase x
theorem st0_e0 : st 0 0xE0 = some 4 := st0_e0_x _ rfl
theorem st0_three (x : Nat) (h : (0xE1 ≤ x ∧ x ≤ 0xEC) ∨ x = 0xEE ∨ x = 0xEF) : st 0 x = some 2 := by stepcase x
theorem st0_ed_x (x : Nat) (h : x = 0xED) : st 0 x = some 5 := by stepcase x
theorem st0_ed : st 0 0xED = some 5 := st0_ed_x _ rfl
theorem st0_f0_x (x : Nat) (h : x = 0xF0) : st 0 x = some 6 := by stepcase x
theorem st0_f0 : st 0 0xF0 = some 6 := st0_f0_x _ rfl
theorem st0_four (x : Nat) (h : 0xF1 ≤ x ∧ x ≤ 0xF3) : st 0 x = some 3 := by stepcase x
theorem st0_f4_x (x : Nat) (h : x = 0xF4) : st 0 x = some 7 := by stepcase x
theorem st0_f4 : st 0 0xF4 = some 7 := st0_f4_x _ rfl
theorem st1_tail (x : Nat) (h : 0x80 ≤ x ∧ x ≤ 0xBF) : st 1 x = some 8 := by stepcase x
theorem st2_tail (x : Nat) (h : 0x80 ≤ x ∧ x ≤ 0xBF) : st 2 x = some 1 := by stepcase x
theorem st3_tail (x : Nat) (h : 0x80 ≤ x ∧ x ≤ 0xBF) : st 3 x = some 2 := by stepcase x
theorem st4_tail (x : Nat) (h : 0xA0 ≤ x ∧ x ≤ 0xBF) : st 4 x = some 1 := by stepcase x
theorem st5_tail (x : Nat) (h : 0x80 ≤ x ∧ x ≤ 0x9F) : st 5 x = some 1 := by stepcase x
theorem st6_tail (x : Nat) (h : 0x90 ≤ x ∧ x ≤ 0xBF) : st 6 x = some 2 := by stepcase x
theorem st7_tail (x : Nat) (h : 0x80 ≤ x ∧ x ≤ 0x8F) : st 7 x = some 2 := by stepcase x

/-- the UTF-8 encoding of a scalar value other than `ESC` is read as one complete character -/
theorem cmdAbs_run_utf8 (c : Nat) (hs : isScalar c = true) (hne : c ≠ 27) :
    runA cmdAbs.toAuto cmdAbs.start (bytes (utf8 c)) = some 8 := by
  obtain ⟨hlt, hsur⟩ := SurfProofs.ProtoText.scalar_lt c hs
  have hstart : cmdAbs.start = 0 := rfl
  rw [hstart]
  unfold utf8
  by_cases h1 : c < 0x80
  · simp only [h1, if_true, bytes, List.map_cons, List.map_nil]
    rw [runA_step 0 8 c [] (st0_ascii c h1 hne)]; rfl
  by_cases h2 : c < 0x800
  · simp only [h1, h2, if_true, if_false, bytes, List.map_cons, List.map_nil]
    rw [runA_step 0 1 _ _ (st0_two _ (by omega)), runA_step 1 8 _ _ (st1_tail _ (by omega))]; rfl
  by_cases h3 : c < 0x10000
  · simp only [h1, h2, h3, if_true, if_false, bytes, List.map_cons, List.map_nil]
    by_cases ha : c / 4096 = 0
    · rw [ha, runA_step 0 4 _ _ st0_e0, runA_step 4 1 _ _ (st4_tail _ (by omega)),
        runA_step 1 8 _ _ (st1_tail _ (by omega))]; rfl
    by_cases hb : c / 4096 = 13
    · rw [hb, runA_step 0 5 _ _ st0_ed, runA_step 5 1 _ _ (st5_tail _ (by omega)),
        runA_step 1 8 _ _ (st1_tail _ (by omega))]; rfl
    · rw [runA_step 0 2 _ _ (st0_three _ (by omega)), runA_step 2 1 _ _ (st2_tail _ (by omega)),
        runA_step 1 8 _ _ (st1_tail _ (by omega))]; rfl
  · simp only [h1, h2, h3, if_false, bytes, List.map_cons, List.map_nil]
    by_cases ha : c / 262144 = 0
    · rw [ha, runA_step 0 6 _ _ st0_f0, runA_step 6 2 _ _ (st6_tail _ (by omega)),
        runA_step 2 1 _ _ (st2_tail _ (by omega)), runA_step 1 8 _ _ (st1_tail _ (by omega))]; rfl
    by_cases hb : c / 262144 = 4
    · rw [hb, runA_step 0 7 _ _ st0_f4, runA_step 7 2 _ _ (st7_tail _ (by omega)),
        runA_step 2 1 _ _ (st2_tail _ (by omega)), runA_step 1 8 _ _ (st1_tail _ (by omega))]; rfl
    · rw [runA_step 0 3 _ _ (st0_four _ (by omega)), runA_step 3 2 _ _ (st3_tail _ (by omega)),
        runA_step 2 1 _ _ (st2_tail _ (by omega)), runA_step 1 8 _ _ (st1_tail _ (by omega))]; rfl


/-! ## the compiled command automaton on the two kinds of tokens -/

/-- a word the abstract automaton reads into one of its two final states is read by the compiled command
    automaton into an accepting, terminal state with the corresponding least tag -/
theorem cmd_token (w : List UInt8) (t : Nat) (ht : t = 8 ∨ t = 13)
    (hrun : runA cmdAbs.toAuto cmdAbs.start w = some t) :
    ∃ T, runA commandModelAuto.toAuto commandModelAuto.start w = some T ∧
      commandModelAuto.accepting T = true ∧ commandModelAuto.terminal T = true ∧
      commandModelAuto.leastTag T = (cmdTags t).head? := by
  obtain ⟨T, hT, hR⟩ := cmd_bisim.run_some w t hrun
  refine ⟨T, hT, ?_, ?_, ?_⟩
  · have := cmd_bisim.acc t T hR
    rw [← this]; rcases ht with rfl | rfl <;> rfl
  · have := cmd_bisim.term t T hR
    rw [← this]; rcases ht with rfl | rfl <;> rfl
  · simp only [TAuto.leastTag, cmd_tags t T hR]

/-! ## payload of the two tokens -/

theorem commandOfItem_sgr (ps : List Nat) (hps : ∀ b ∈ ps, b < 256) (T : DState)
    (htag : commandModelAuto.leastTag T = some matcherBase) :
    commandOfItem commandModelAuto (.tok (bytes (27 :: 91 :: (ps ++ [109]))) T) = .ok (.command (sgrFace ps)) := by
  have hB : ∀ b ∈ (27 :: 91 :: (ps ++ [109])), b < 256 := by
    intro b hb
    simp only [List.mem_cons, List.mem_append, List.not_mem_nil, or_false] at hb
    rcases hb with rfl | rfl | hb | rfl
    · omega
    · omega
    · exact hps b hb
    · omega
  have hnl : ¬ matcherBase < matcherBase := Nat.lt_irrefl _
  have hslice : slice? (27 :: 91 :: (ps ++ [109])) 2 ((27 :: 91 :: (ps ++ [109])).length - 1) = .ok ps := by
    have := slice?_frame [27, 91] ps [109] 2 ((27 :: 91 :: (ps ++ [109])).length - 1) rfl (by simp; omega)
    simpa using this
  simp only [commandOfItem, htag, SurfProofs.ProtoBytes.natBytes_bytes _ hB, decodeCommandTok, hnl, if_false,
    Nat.sub_self, decodeCommand, decodeSgr, decodeSgrBody]
  rw [sub?_ok _ _ (by simp)]
  simp only [hslice]

theorem commandOfItem_char (c : Nat) (hs : isScalar c = true) (T : DState)
    (htag : commandModelAuto.leastTag T = some (matcherBase + 1)) :
    commandOfItem commandModelAuto (.tok (bytes (utf8 c)) T) = .ok (.char c) := by
  have hlt := (SurfProofs.ProtoText.scalar_lt c hs).1
  have hnl : ¬ matcherBase + 1 < matcherBase := by omega
  have hsub : matcherBase + 1 - matcherBase = 1 := by omega
  simp only [commandOfItem, htag, SurfProofs.ProtoBytes.natBytes_bytes _ (SurfProofs.ProtoBytes.B_utf8 c hlt),
    decodeCommandTok, hnl, if_false, hsub, decodeCommand, SurfProofs.ProtoText.utf8Decode_utf8 c hs]

/-! ## scripts -/

/-- a piece of a script: the parameter bytes of one SGR sequence (what stands between `ESC [` and `m`), or a
    run of text characters (code points) -/
inductive Piece where
  | sgr (params : List Nat)
  | text (chars : List Nat)

/-- the bytes written for a piece -/
def Piece.bytes : Piece → List Nat
  | .sgr ps => 27 :: 91 :: (ps ++ [109])
  | .text cs => cs.flatMap utf8

/-- parameters over `0-9 : ;`; text of Unicode scalar values other than `ESC` -/
def Piece.Ok : Piece → Prop
  | .sgr ps => ∀ b ∈ ps, 48 ≤ b ∧ b ≤ 59
  | .text cs => ∀ c ∈ cs, isScalar c = true ∧ c ≠ 27

/-- what `TTYCommandDecoder` should report for a piece -/
def Piece.events : Piece → List Event
  | .sgr ps => [.command (sgrFace ps)]
  | .text cs => cs.map .char

/-- the byte stream of a script -/
def scriptBytes (script : List Piece) : List UInt8 := SurfModel.Grammar.bytes (script.flatMap Piece.bytes)

theorem utf8_ne_nil (c : Nat) : utf8 c ≠ [] := by
  unfold utf8
  repeat' split
  all_goals simp

theorem bytes_ne_nil (l : List Nat) (h : l ≠ []) : SurfModel.Grammar.bytes l ≠ [] := by
  cases l with
  | nil => exact absurd rfl h
  | cons a r => simp [SurfModel.Grammar.bytes]

theorem tokenize_nil {σ} (A : Auto σ) : tokenize A [] = ([], []) := by
  rw [tokenize]; simp

/-- one piece is tokenised into its own tokens whatever follows, and each token decodes to its event -/
theorem piece_tokenize (p : Piece) (hp : p.Ok) (rest : List UInt8) :
    ∃ items, tokenize commandModelAuto.toAuto (SurfModel.Grammar.bytes p.bytes ++ rest) =
        (items ++ (tokenize commandModelAuto.toAuto rest).1, (tokenize commandModelAuto.toAuto rest).2) ∧
      items.map (commandOfItem commandModelAuto) = p.events.map .ok := by
  cases p with
  | sgr ps =>
    obtain ⟨T, hrun, hacc, hterm, htag⟩ := cmd_token _ 13 (Or.inr rfl) (cmdAbs_run_sgr ps hp)
    have hne : SurfModel.Grammar.bytes (27 :: 91 :: (ps ++ [109])) ≠ [] := bytes_ne_nil _ (by simp)
    refine ⟨[.tok (SurfModel.Grammar.bytes (27 :: 91 :: (ps ++ [109]))) T], ?_, ?_⟩
    · simp only [Piece.bytes]
      rw [SurfProofs.ProtoStream.tokenize_terminal _ commandModelAuto_termOk _ rest T hne hrun hacc hterm]
      rfl
    · simp only [List.map_cons, List.map_nil, Piece.events]
      rw [commandOfItem_sgr ps (fun b hb => by have := hp b hb; omega) T (by rw [htag]; rfl)]
  | text cs =>
    induction cs generalizing rest with
    | nil =>
      refine ⟨[], ?_, rfl⟩
      simp [Piece.bytes, SurfModel.Grammar.bytes]
    | cons c cs ih =>
      have hc := hp c (by simp)
      obtain ⟨T, hrun, hacc, hterm, htag⟩ := cmd_token _ 8 (Or.inl rfl) (cmdAbs_run_utf8 c hc.1 hc.2)
      obtain ⟨items, h1, h2⟩ := ih rest (fun x hx => hp x (by simp [hx]))
      have hne : SurfModel.Grammar.bytes (utf8 c) ≠ [] := bytes_ne_nil _ (utf8_ne_nil c)
      refine ⟨.tok (SurfModel.Grammar.bytes (utf8 c)) T :: items, ?_, ?_⟩
      · simp only [Piece.bytes, List.flatMap_cons, bytes_append, List.append_assoc] at h1 ⊢
        rw [SurfProofs.ProtoStream.tokenize_terminal _ commandModelAuto_termOk _ _ T hne hrun hacc hterm, h1]
        rfl
      · simp only [List.map_cons, Piece.events] at h2 ⊢
        rw [commandOfItem_char c hc.1 T (by rw [htag]; rfl), h2]

/-- a whole script: every byte belongs to a token, nothing is left pending -/
theorem script_tokenize (script : List Piece) (h : ∀ p ∈ script, p.Ok) :
    ∃ items, tokenize commandModelAuto.toAuto (scriptBytes script) = (items, []) ∧
      items.map (commandOfItem commandModelAuto) = (script.flatMap Piece.events).map .ok := by
  induction script with
  | nil => exact ⟨[], by simp [scriptBytes, SurfModel.Grammar.bytes, tokenize_nil], rfl⟩
  | cons p rest ih =>
    obtain ⟨items2, h1, h2⟩ := ih (fun x hx => h x (by simp [hx]))
    obtain ⟨items1, g1, g2⟩ := piece_tokenize p (h p (by simp)) (scriptBytes rest)
    refine ⟨items1 ++ items2, ?_, ?_⟩
    · simp only [scriptBytes, List.flatMap_cons, bytes_append] at g1 h1 ⊢
      rw [g1, h1]
    · simp only [List.map_append, List.flatMap_cons, g2, h2]
end SurfProofs.Lemmas.SgrWriter
