import SurfModel.Tokenizer
/-!
Lemmas for `C03_utf8_chunking`: the model of `Utf8Decoder` (one result per `decode` call, a loop
with fuel around it) computes a byte-by-byte stream function `ugo`, which is compositional in the
stream and conserves bytes.
-/
namespace SurfModel.Tokenizer

variable {σ : Type}

set_option linter.unusedVariables false

/-- put an item in front of a (possibly failed) result -/
def consU (it : UItem) : Except Fault (List UItem × USt σ) → Except Fault (List UItem × USt σ)
  | .ok (items, s) => .ok (it :: items, s)
  | .error e => .error e

/-- `Utf8Decoder` as a function of the stream -/
def ugo (A : Auto σ) (s : USt σ) : List UInt8 → Except Fault (List UItem × USt σ)
  | [] => .ok ([], s)
  | b :: rest =>
    match A.step s.st b with
    | none => consU (.err (s.buf ++ [b])) (ugo A (uinit A) rest)
    | some q =>
      if 4 ≤ s.buf.length then .error .panic
      else if A.accepting q then consU (.chr (s.buf ++ [b])) (ugo A (uinit A) rest)
      else ugo A { st := q, buf := s.buf ++ [b] } rest

/-- run `v` after a result -/
def thenU (A : Auto σ) (r : Except Fault (List UItem × USt σ)) (v : List UInt8) :
    Except Fault (List UItem × USt σ) :=
  match r with
  | .error e => .error e
  | .ok (i1, s1) =>
    match ugo A s1 v with
    | .error e => .error e
    | .ok (i2, s2) => .ok (i1 ++ i2, s2)

theorem thenU_consU (A : Auto σ) (it : UItem) (r : Except Fault (List UItem × USt σ)) (v : List UInt8) :
    thenU A (consU it r) v = consU it (thenU A r v) := by
  cases r with
  | error e => rfl
  | ok p =>
    obtain ⟨i1, s1⟩ := p
    simp only [consU, thenU]
    cases ugo A s1 v with
    | error e => rfl
    | ok p2 => rfl

theorem ugo_append (A : Auto σ) (s : USt σ) (u v : List UInt8) :
    ugo A s (u ++ v) = thenU A (ugo A s u) v := by
  induction u generalizing s with
  | nil =>
    simp only [List.nil_append, ugo, thenU]
    cases ugo A s v with
    | error e => rfl
    | ok p => simp
  | cons b rest ih =>
    simp only [List.cons_append, ugo]
    cases hs : A.step s.st b with
    | none => simp only [ih, thenU_consU]
    | some q =>
      simp only
      by_cases h4 : 4 ≤ s.buf.length
      · simp [h4, thenU]
      · by_cases ha : A.accepting q = true
        · simp only [h4, ha, if_true, if_false, ih, thenU_consU]
        · simp only [h4, ha, if_false, ih]; rfl

/-- one `decode` call in terms of the stream function -/
theorem udecode_ugo (A : Auto σ) (s : USt σ) (input : List UInt8) :
    match udecode A s input with
    | .error e => ugo A s input = .error e
    | .ok (none, s', rest') => rest' = [] ∧ ugo A s input = .ok ([], s')
    | .ok (some it, s', rest') => rest'.length < input.length ∧ ugo A s input = consU it (ugo A s' rest') := by
  induction input generalizing s with
  | nil => simp [udecode, ugo]
  | cons b rest ih =>
    simp only [udecode, ugo]
    cases hs : A.step s.st b with
    | none => simp
    | some q =>
      simp only
      by_cases h4 : 4 ≤ s.buf.length
      · simp [h4]
      · by_cases ha : A.accepting q = true
        · simp [h4, ha]
        · simp only [h4, ha, if_false]
          have := ih { st := q, buf := s.buf ++ [b] }
          split at this
          · rename_i e he; simp only [he]; exact this
          · rename_i s' rest' he; simp only [he]; exact this
          · rename_i it s' rest' he
            simp only [he]
            exact ⟨by simp only [List.length_cons]; omega, this.2⟩

theorem ufeedFuel_ugo (A : Auto σ) (fuel : Nat) (s : USt σ) (input : List UInt8) (h : input.length < fuel) :
    ufeedFuel A fuel s input = ugo A s input := by
  induction fuel generalizing s input with
  | zero => omega
  | succ fuel ih =>
    simp only [ufeedFuel]
    have := udecode_ugo A s input
    split at this
    · rename_i e he; simp only [he]; exact this.symm
    · rename_i s' rest' he; simp only [he]; exact this.2.symm
    · rename_i it s' rest' he
      simp only [he]
      rw [this.2, ih s' rest' (by omega)]
      cases ugo A s' rest' with
      | error e => rfl
      | ok p => rfl

theorem ufeed_ugo (A : Auto σ) (s : USt σ) (input : List UInt8) : ufeed A s input = ugo A s input :=
  ufeedFuel_ugo A _ s input (by omega)

/-- flatten the per-read results -/
def flatU (r : Except Fault (List (List UItem) × USt σ)) : Except Fault (List UItem × USt σ) :=
  match r with
  | .error e => .error e
  | .ok (per, s) => .ok (per.flatten, s)

theorem ufeedAll_ugo (A : Auto σ) (chunks : List (List UInt8)) (s : USt σ) :
    flatU (ufeedAll A s chunks) = ugo A s chunks.flatten := by
  induction chunks generalizing s with
  | nil => simp [ufeedAll, flatU, ugo]
  | cons chunk cs ih =>
    simp only [ufeedAll, List.flatten_cons, ugo_append, ufeed_ugo]
    cases h1 : ugo A s chunk with
    | error e => simp [flatU, thenU]
    | ok p =>
      obtain ⟨i1, s1⟩ := p
      simp only [thenU]
      rw [← ih s1]
      cases ufeedAll A s1 cs with
      | error e => simp [flatU]
      | ok p2 => simp [flatU]

theorem ugo_conservation (A : Auto σ) (s s' : USt σ) (input : List UInt8) (items : List UItem)
    (h : ugo A s input = .ok (items, s')) : items.flatMap UItem.bytes ++ s'.buf = s.buf ++ input := by
  induction input generalizing s items with
  | nil => simp [ugo] at h; obtain ⟨h1, h2⟩ := h; subst h1; subst h2; simp
  | cons b rest ih =>
    simp only [ugo] at h
    cases hs : A.step s.st b with
    | none =>
      rw [hs] at h
      simp only at h
      cases hr : ugo A (uinit A) rest with
      | error e => rw [hr] at h; simp [consU] at h
      | ok p =>
        obtain ⟨i2, s2⟩ := p
        rw [hr] at h
        simp only [consU, Except.ok.injEq, Prod.mk.injEq] at h
        obtain ⟨h1, h2⟩ := h; subst h1; subst h2
        have := ih _ _ hr
        simp only [uinit, List.nil_append] at this
        simp [UItem.bytes, this]
    | some q =>
      rw [hs] at h
      simp only at h
      by_cases h4 : 4 ≤ s.buf.length
      · simp [h4] at h
      · by_cases ha : A.accepting q = true
        · simp only [h4, ha, if_true, if_false] at h
          cases hr : ugo A (uinit A) rest with
          | error e => rw [hr] at h; simp [consU] at h
          | ok p =>
            obtain ⟨i2, s2⟩ := p
            rw [hr] at h
            simp only [consU, Except.ok.injEq, Prod.mk.injEq] at h
            obtain ⟨h1, h2⟩ := h; subst h1; subst h2
            have := ih _ _ hr
            simp only [uinit, List.nil_append] at this
            simp [UItem.bytes, this]
        · simp only [h4, ha, if_false] at h
          have := ih _ _ h
          simp only at this
          rw [this]; simp

end SurfModel.Tokenizer
