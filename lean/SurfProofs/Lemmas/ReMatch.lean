import SurfModel.Automata
import SurfProofs.Lemmas.Graph
/-!
The executable matcher `Re.matchB` of `SurfModel.Automata` decides the textbook relation `Re.Matches`.

* `Re.induct'` — induction principle for the nested type `Re`.
* `matches_*` — inversion lemmas for `Re.Matches`, one per constructor (`matches_plus`/`matches_star` in terms
  of `SurfProofs.Graph.Plus`/`Star`).
* `mem_res` — `e.res S` is exactly the set of residual suffixes; `matchB_iff` — the matcher is correct.
-/

namespace SurfProofs.ReMatch
open SurfModel.Automata
open SurfProofs.Graph (Plus Star)

/-! ## induction principle for the nested type -/

theorem Re.induct' {P : Re → Prop} (lit : ∀ s, P (.lit s)) (pred : ∀ rs, P (.pred rs))
    (seq : ∀ es, (∀ e ∈ es, P e) → P (.seq es)) (alt : ∀ es, (∀ e ∈ es, P e) → P (.alt es))
    (opt : ∀ e, P e → P (.opt e)) (plus : ∀ e, P e → P (.plus e)) (star : ∀ e, P e → P (.star e))
    (empty : P .empty) (nothing : P .nothing) (tag : ∀ t e, P e → P (.tag t e)) : ∀ e, P e := by
  intro e
  refine Re.rec (motive_1 := P) (motive_2 := fun es => ∀ e ∈ es, P e)
    lit pred seq alt opt plus star empty nothing tag ?_ ?_ e
  · intro e h; cases h
  · intro hd tl h1 h2 e he
    rcases List.mem_cons.1 he with rfl | h
    · exact h1
    · exact h2 e h

/-! ## inversion lemmas -/

theorem matches_lit {s w : List UInt8} : (Re.lit s).Matches w ↔ w = s := by
  constructor
  · intro h; cases h; rfl
  · rintro rfl; exact .lit _

theorem matches_pred {rs : List (UInt8 × UInt8)} {w : List UInt8} :
    (Re.pred rs).Matches w ↔ ∃ b, w = [b] ∧ inRanges rs b = true := by
  constructor
  · intro h; cases h with | pred hb => exact ⟨_, rfl, hb⟩
  · rintro ⟨b, rfl, hb⟩; exact .pred hb

theorem matches_seq_nil {w : List UInt8} : (Re.seq []).Matches w ↔ w = [] := by
  constructor
  · intro h; cases h; rfl
  · rintro rfl; exact .seqNil

theorem matches_seq_cons {e : Re} {es : List Re} {w : List UInt8} :
    (Re.seq (e :: es)).Matches w ↔ ∃ u v, w = u ++ v ∧ e.Matches u ∧ (Re.seq es).Matches v := by
  constructor
  · intro h; cases h with | seqCons h1 h2 => exact ⟨_, _, rfl, h1, h2⟩
  · rintro ⟨u, v, rfl, h1, h2⟩; exact .seqCons h1 h2

theorem matches_alt {es : List Re} {w : List UInt8} :
    (Re.alt es).Matches w ↔ ∃ e ∈ es, e.Matches w := by
  constructor
  · intro h; cases h with | alt h1 h2 => exact ⟨_, h1, h2⟩
  · rintro ⟨e, h1, h2⟩; exact .alt h1 h2

theorem matches_opt {e : Re} {w : List UInt8} : (Re.opt e).Matches w ↔ w = [] ∨ e.Matches w := by
  constructor
  · intro h
    cases h with
    | optNone => exact Or.inl rfl
    | optSome h => exact Or.inr h
  · rintro (rfl | h)
    · exact .optNone
    · exact .optSome h

theorem matches_empty {w : List UInt8} : Re.empty.Matches w ↔ w = [] := by
  constructor
  · intro h; cases h; rfl
  · rintro rfl; exact .empty

theorem matches_nothing {w : List UInt8} : ¬ Re.nothing.Matches w := by
  intro h; cases h

theorem matches_tag {t : Nat} {e : Re} {w : List UInt8} : (Re.tag t e).Matches w ↔ e.Matches w := by
  constructor
  · intro h; cases h with | tag h => exact h
  · intro h; exact .tag h

theorem matches_plus (e : Re) (w : List UInt8) :
    (Re.plus e).Matches w ↔ Plus (fun u => e.Matches u) w := by
  constructor
  · intro h
    generalize hx : Re.plus e = x at h
    induction h with
    | plusOne h => cases hx; exact Plus.one h
    | plusMore h1 _ _ ih => cases hx; exact Plus.more h1 (ih rfl)
    | _ => cases hx
  · intro h
    induction h with
    | one h => exact .plusOne h
    | more h1 _ ih => exact .plusMore h1 ih

theorem matches_star (e : Re) (w : List UInt8) :
    (Re.star e).Matches w ↔ Star (fun u => e.Matches u) w := by
  constructor
  · intro h
    generalize hx : Re.star e = x at h
    induction h with
    | starNil => exact Star.nil
    | starMore h1 _ _ ih => cases hx; exact Star.more h1 (ih rfl)
    | _ => cases hx
  · intro h
    induction h with
    | nil => exact .starNil
    | more h1 _ ih => exact .starMore h1 ih

/-- `e+ = e e*` -/
theorem matches_plus_iff_star {e : Re} {w : List UInt8} :
    (Re.plus e).Matches w ↔ ∃ u v, w = u ++ v ∧ e.Matches u ∧ (Re.star e).Matches v := by
  constructor
  · intro h
    generalize hx : Re.plus e = x at h
    induction h with
    | @plusOne e' w h => cases hx; exact ⟨w, [], by simp, h, .starNil⟩
    | plusMore h1 _ _ ih =>
      cases hx
      obtain ⟨u', v', rfl, h3, h4⟩ := ih rfl
      exact ⟨_, _, rfl, h1, .starMore h3 h4⟩
    | _ => cases hx
  · rintro ⟨u, v, rfl, h1, h2⟩
    generalize hx : Re.star e = x at h2
    induction h2 generalizing u with
    | starNil => simpa using Re.Matches.plusOne h1
    | starMore h3 _ _ ih => cases hx; exact .plusMore h1 (ih _ h3 rfl)
    | _ => cases hx

/-- `e* = ε | e+` -/
theorem matches_star_iff_plus {e : Re} {w : List UInt8} :
    (Re.star e).Matches w ↔ w = [] ∨ (Re.plus e).Matches w := by
  rw [matches_star, matches_plus]; exact SurfProofs.Graph.star_iff_plus

/-! ## list helpers -/

theorem stripPrefix_eq_some {l s s' : List UInt8} : stripPrefix l s = some s' ↔ s = l ++ s' := by
  induction l generalizing s with
  | nil => simp [stripPrefix]
  | cons c l ih =>
    cases s with
    | nil => simp [stripPrefix]
    | cons d s =>
      simp only [stripPrefix]
      split
      · next h => subst h; simp [ih]
      · next h => simp; intro h'; exact absurd h'.symm h

theorem addNew_cons (acc : List (List UInt8)) (x : List UInt8) (xs : List (List UInt8)) :
    addNew acc (x :: xs) = addNew (if acc.contains x then acc else x :: acc) xs := by
  simp [addNew]

theorem mem_addNew {acc xs : List (List UInt8)} {y : List UInt8} :
    y ∈ addNew acc xs ↔ y ∈ acc ∨ y ∈ xs := by
  induction xs generalizing acc with
  | nil => simp [addNew]
  | cons x xs ih =>
    rw [addNew_cons, ih]
    by_cases h : acc.contains x = true
    · have hx : x ∈ acc := by simpa using h
      rw [if_pos h]
      simp only [List.mem_cons]
      constructor
      · rintro (h1 | h1)
        · exact Or.inl h1
        · exact Or.inr (Or.inr h1)
      · rintro (h1 | h1 | h1)
        · exact Or.inl h1
        · exact Or.inl (h1 ▸ hx)
        · exact Or.inr h1
    · rw [if_neg h]
      simp only [List.mem_cons]
      constructor
      · rintro ((h1 | h1) | h1)
        · exact Or.inr (Or.inl h1)
        · exact Or.inl h1
        · exact Or.inr (Or.inr h1)
      · rintro (h1 | h1 | h1)
        · exact Or.inl (Or.inr h1)
        · exact Or.inl (Or.inl h1)
        · exact Or.inr h1

theorem length_le_addNew (acc xs : List (List UInt8)) : acc.length ≤ (addNew acc xs).length := by
  induction xs generalizing acc with
  | nil => simp [addNew]
  | cons x xs ih =>
    rw [addNew_cons]
    split
    · exact ih _
    · exact Nat.le_trans (by simp) (ih _)

/-- a round that does not grow the set added nothing -/
theorem subset_of_addNew_length {acc xs : List (List UInt8)}
    (h : (addNew acc xs).length = acc.length) : ∀ x ∈ xs, x ∈ acc := by
  induction xs generalizing acc with
  | nil => intro x hx; cases hx
  | cons x xs ih =>
    rw [addNew_cons] at h
    by_cases hc : acc.contains x = true
    · have hx : x ∈ acc := by simpa using hc
      simp only [hc, if_true] at h
      intro y hy
      rcases List.mem_cons.1 hy with rfl | hy
      · exact hx
      · exact ih h y hy
    · rw [if_neg hc] at h
      have := length_le_addNew (x :: acc) xs
      simp only [List.length_cons] at this
      omega

theorem le_maxLen {S : List (List UInt8)} {s : List UInt8} (hs : s ∈ S) : s.length ≤ maxLen S := by
  have key : ∀ (S : List (List UInt8)) (m : Nat),
      m ≤ S.foldl (fun m s => max m s.length) m ∧
      ∀ s ∈ S, s.length ≤ S.foldl (fun m s => max m s.length) m := by
    intro S
    induction S with
    | nil => intro m; simp
    | cons a S ih =>
      intro m
      obtain ⟨h1, h2⟩ := ih (max m a.length)
      simp only [List.foldl_cons]
      refine ⟨by omega, ?_⟩
      intro s hs
      rcases List.mem_cons.1 hs with rfl | hs
      · omega
      · exact h2 s hs
  exact (key S 0).2 s hs

/-! ## bounded closure -/

/-- `n`-step reachability -/
inductive ReachN (r : List UInt8 → List UInt8 → Prop) : Nat → List UInt8 → List UInt8 → Prop
  | zero (s) : ReachN r 0 s s
  | step {n a b c} : r a b → ReachN r n b c → ReachN r (n + 1) a c

/-- `s'` is what is left of `s` after a prefix in `L` -/
def Resid (L : List UInt8 → Prop) (s s' : List UInt8) : Prop := ∃ u, s = u ++ s' ∧ L u

theorem star_of_reach {L : List UInt8 → Prop} {n s s'} (h : ReachN (Resid L) n s s') :
    ∃ u, s = u ++ s' ∧ Star L u := by
  induction h with
  | zero s => exact ⟨[], by simp, Star.nil⟩
  | step h1 _ ih =>
    obtain ⟨u, rfl, hu⟩ := h1
    obtain ⟨v, rfl, hv⟩ := ih
    exact ⟨u ++ v, by simp, Star.more hu hv⟩

/-- a starred match is reached in at most `u.length` steps (drop the empty pieces) -/
theorem reach_of_star {L : List UInt8 → Prop} {u : List UInt8} (h : Star L u) (s' : List UInt8) :
    ∃ n, n ≤ u.length ∧ ReachN (Resid L) n (u ++ s') s' := by
  induction h with
  | nil => exact ⟨0, by simp, by simpa using ReachN.zero s'⟩
  | @more u v h1 _ ih =>
    obtain ⟨n, hn, hr⟩ := ih
    cases u with
    | nil => exact ⟨n, by simpa using hn, by simpa using hr⟩
    | cons b u =>
      refine ⟨n + 1, by simp; omega, ?_⟩
      exact ReachN.step ⟨b :: u, by simp, h1⟩ hr

theorem reach_closed {r : List UInt8 → List UInt8 → Prop} {acc : List (List UInt8)}
    (closed : ∀ a ∈ acc, ∀ b, r a b → b ∈ acc) {n s y} (hr : ReachN r n s y) (hs : s ∈ acc) : y ∈ acc := by
  induction hr with
  | zero s => exact hs
  | step h1 _ ih => exact ih (closed _ hs _ h1)

section iter
variable {f : List (List UInt8) → List (List UInt8)} {r : List UInt8 → List UInt8 → Prop}

theorem iterRes_sound (hf : ∀ S s', s' ∈ f S ↔ ∃ s ∈ S, r s s') {k : Nat} {acc : List (List UInt8)}
    {y : List UInt8} (h : y ∈ iterRes f k acc) : ∃ s ∈ acc, ∃ n, ReachN r n s y := by
  induction k generalizing acc with
  | zero => exact ⟨y, by simpa [iterRes] using h, 0, .zero y⟩
  | succ k ih =>
    simp only [iterRes] at h
    split at h
    · exact ⟨y, h, 0, .zero y⟩
    · obtain ⟨s, hs, n, hn⟩ := ih h
      rcases mem_addNew.1 hs with hs | hs
      · exact ⟨s, hs, n, hn⟩
      · obtain ⟨s0, hs0, h0⟩ := (hf _ _).1 hs
        exact ⟨s0, hs0, n + 1, .step h0 hn⟩

theorem iterRes_complete (hf : ∀ S s', s' ∈ f S ↔ ∃ s ∈ S, r s s') {k : Nat} {acc : List (List UInt8)}
    {n : Nat} {s y : List UInt8} (hs : s ∈ acc) (hr : ReachN r n s y) (hn : n ≤ k) :
    y ∈ iterRes f k acc := by
  induction k generalizing acc n s with
  | zero =>
    have : n = 0 := by omega
    subst this
    cases hr
    simpa [iterRes] using hs
  | succ k ih =>
    simp only [iterRes]
    split
    · next hlen =>
      have closed : ∀ a ∈ acc, ∀ b, r a b → b ∈ acc := fun a ha b hab =>
        subset_of_addNew_length hlen b ((hf _ _).2 ⟨a, ha, hab⟩)
      exact reach_closed closed hr hs
    · cases hr with
      | zero => exact ih (mem_addNew.2 (Or.inl hs)) (.zero _) (Nat.zero_le _)
      | step h1 h2 =>
        exact ih (mem_addNew.2 (Or.inr ((hf _ _).2 ⟨_, hs, h1⟩))) h2 (by omega)

end iter

/-! ## the residual sets -/

/-- specification of `Re.res` for one expression -/
def ResSpec (e : Re) : Prop :=
  ∀ (S : List (List UInt8)) (s' : List UInt8), s' ∈ e.res S ↔ ∃ s ∈ S, ∃ u, s = u ++ s' ∧ e.Matches u

theorem resSpec_lit (l : List UInt8) : ResSpec (.lit l) := by
  intro S s'
  simp only [Re.res, List.mem_filterMap, stripPrefix_eq_some, matches_lit]
  constructor
  · rintro ⟨s, hs, h⟩; exact ⟨s, hs, l, h, rfl⟩
  · rintro ⟨s, hs, u, h, rfl⟩; exact ⟨s, hs, h⟩

theorem resSpec_pred (rs : List (UInt8 × UInt8)) : ResSpec (.pred rs) := by
  intro S s'
  simp only [Re.res, List.mem_filterMap, matches_pred]
  constructor
  · rintro ⟨s, hs, h⟩
    cases s with
    | nil => simp at h
    | cons b t =>
      simp only at h
      split at h
      · next hb =>
        cases h
        exact ⟨_, hs, [b], by simp, b, rfl, hb⟩
      · cases h
  · rintro ⟨s, hs, u, h, b, rfl, hb⟩
    subst h
    exact ⟨_, hs, by simp [hb]⟩

theorem mem_resSeq {es : List Re} (ih : ∀ e ∈ es, ResSpec e) (S : List (List UInt8)) (s' : List UInt8) :
    s' ∈ resSeq es S ↔ ∃ s ∈ S, ∃ u, s = u ++ s' ∧ (Re.seq es).Matches u := by
  induction es generalizing S with
  | nil =>
    simp only [resSeq, matches_seq_nil]
    constructor
    · intro h; exact ⟨s', h, [], by simp, rfl⟩
    · rintro ⟨s, hs, u, h, rfl⟩; simpa [h] using hs
  | cons e es ih2 =>
    have he := ih e (List.mem_cons_self ..)
    rw [resSeq, ih2 (fun e' h => ih e' (List.mem_cons_of_mem _ h))]
    constructor
    · rintro ⟨s1, hs1, v, rfl, hv⟩
      obtain ⟨s, hs, u, rfl, hu⟩ := (he _ _).1 hs1
      exact ⟨_, hs, u ++ v, by simp, .seqCons hu hv⟩
    · rintro ⟨s, hs, w, rfl, hw⟩
      obtain ⟨u, v, rfl, hu, hv⟩ := matches_seq_cons.1 hw
      exact ⟨v ++ s', (he _ _).2 ⟨_, hs, u, by simp, hu⟩, v, rfl, hv⟩

theorem mem_resAlt {es : List Re} (ih : ∀ e ∈ es, ResSpec e) (S : List (List UInt8)) (s' : List UInt8) :
    s' ∈ resAlt es S ↔ ∃ s ∈ S, ∃ u, s = u ++ s' ∧ (Re.alt es).Matches u := by
  induction es with
  | nil =>
    simp only [resAlt, matches_alt]
    constructor
    · intro h; cases h
    · rintro ⟨_, _, _, _, e, he, _⟩; cases he
  | cons e es ih2 =>
    have he := ih e (List.mem_cons_self ..)
    rw [resAlt, mem_addNew, ih2 (fun e' h => ih e' (List.mem_cons_of_mem _ h)), he]
    constructor
    · rintro (⟨s, hs, u, h, hu⟩ | ⟨s, hs, u, h, hu⟩)
      · exact ⟨s, hs, u, h, .alt (List.mem_cons_self ..) hu⟩
      · obtain ⟨e', he', hu'⟩ := matches_alt.1 hu
        exact ⟨s, hs, u, h, .alt (List.mem_cons_of_mem _ he') hu'⟩
    · rintro ⟨s, hs, u, h, hu⟩
      obtain ⟨e', he', hu'⟩ := matches_alt.1 hu
      rcases List.mem_cons.1 he' with rfl | he'
      · exact Or.inl ⟨s, hs, u, h, hu'⟩
      · exact Or.inr ⟨s, hs, u, h, .alt he' hu'⟩

theorem resSpec_opt {e : Re} (ih : ResSpec e) : ResSpec (.opt e) := by
  intro S s'
  rw [Re.res, mem_addNew, ih]
  constructor
  · rintro (h | ⟨s, hs, u, h, hu⟩)
    · exact ⟨s', h, [], by simp, .optNone⟩
    · exact ⟨s, hs, u, h, .optSome hu⟩
  · rintro ⟨s, hs, u, h, hu⟩
    rcases matches_opt.1 hu with rfl | hu
    · left; simpa [h] using hs
    · exact Or.inr ⟨s, hs, u, h, hu⟩

theorem resSpec_star {e : Re} (ih : ResSpec e) : ResSpec (.star e) := by
  intro S s'
  rw [Re.res]
  have hf : ∀ S s', s' ∈ e.res S ↔ ∃ s ∈ S, Resid (fun u => e.Matches u) s s' := ih
  constructor
  · intro h
    obtain ⟨s, hs, n, hr⟩ := iterRes_sound hf h
    obtain ⟨u, hu, hst⟩ := star_of_reach hr
    exact ⟨s, hs, u, hu, (matches_star e u).2 hst⟩
  · rintro ⟨s, hs, u, rfl, hu⟩
    obtain ⟨n, hn, hr⟩ := reach_of_star ((matches_star e u).1 hu) s'
    have := le_maxLen hs
    simp only [List.length_append] at this
    exact iterRes_complete hf hs hr (by omega)

theorem resSpec_plus {e : Re} (ih : ResSpec e) : ResSpec (.plus e) := by
  intro S s'
  rw [Re.res]
  have hf : ∀ S s', s' ∈ e.res S ↔ ∃ s ∈ S, Resid (fun u => e.Matches u) s s' := ih
  constructor
  · intro h
    obtain ⟨s1, hs1, n, hr⟩ := iterRes_sound hf h
    obtain ⟨v, rfl, hst⟩ := star_of_reach hr
    rcases mem_addNew.1 hs1 with hs1 | hs1
    · cases hs1
    · obtain ⟨s, hs, u, rfl, hu⟩ := (ih _ _).1 hs1
      exact ⟨_, hs, u ++ v, by simp, matches_plus_iff_star.2 ⟨u, v, rfl, hu, (matches_star e v).2 hst⟩⟩
  · rintro ⟨s, hs, w, rfl, hw⟩
    obtain ⟨u, v, rfl, hu, hv⟩ := matches_plus_iff_star.1 hw
    obtain ⟨n, hn, hr⟩ := reach_of_star ((matches_star e v).1 hv) s'
    have := le_maxLen hs
    simp only [List.length_append] at this
    have h1 : v ++ s' ∈ addNew [] (e.res S) :=
      mem_addNew.2 (Or.inr ((ih _ _).2 ⟨_, hs, u, by simp, hu⟩))
    exact iterRes_complete hf h1 hr (by omega)

theorem resSpec (e : Re) : ResSpec e := by
  induction e using Re.induct' with
  | lit s => exact resSpec_lit s
  | pred rs => exact resSpec_pred rs
  | seq es ih => intro S s'; rw [Re.res]; exact mem_resSeq ih S s'
  | alt es ih => intro S s'; rw [Re.res]; exact mem_resAlt ih S s'
  | opt e ih => exact resSpec_opt ih
  | plus e ih => exact resSpec_plus ih
  | star e ih => exact resSpec_star ih
  | empty =>
    intro S s'
    simp only [Re.res, matches_empty]
    constructor
    · intro h; exact ⟨s', h, [], by simp, rfl⟩
    · rintro ⟨s, hs, u, h, rfl⟩; simpa [h] using hs
  | nothing =>
    intro S s'
    simp only [Re.res]
    constructor
    · intro h; cases h
    · rintro ⟨_, _, _, _, h⟩; exact absurd h matches_nothing
  | tag t e ih =>
    intro S s'
    rw [Re.res, ih]
    simp only [matches_tag]

/-- residuals are exactly the suffixes left after matching a prefix -/
theorem mem_res (e : Re) (S : List (List UInt8)) (s' : List UInt8) :
    s' ∈ e.res S ↔ ∃ s ∈ S, ∃ u, s = u ++ s' ∧ e.Matches u := resSpec e S s'

theorem matchB_iff (e : Re) (w : List UInt8) : e.matchB w = true ↔ e.Matches w := by
  unfold Re.matchB
  rw [List.contains_iff_mem, mem_res]
  constructor
  · rintro ⟨s, hs, u, h, hu⟩
    have : s = w := by simpa using hs
    subst this
    simpa [h] using hu
  · intro h
    exact ⟨w, by simp, w, by simp, h⟩

end SurfProofs.ReMatch
